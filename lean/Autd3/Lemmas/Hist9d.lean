import Autd3.Lemmas.Hist9c
/-!
History independence (C02), part 9d: the time-dependent part of the state after a whole history.
`Playing w` is what every output of `Swapchain::set` satisfies (infinite loop ⇒ not stopped, Ext flag = (mode is Ext),
tick offset of the playing segment 0).  `PQ s s'` = each of the two swap chains of `s'` satisfies `Playing` if that of
`s` did.  EVERY handler, for EVERY payload and from EVERY state (no well-formedness needed), is walked through
(`handlePayload_pq`): the only writer of a swap chain is `FPGAEmulator::set_and_wait_update`, which replaces it by an
output of `set`.  Hence `ecat_recv` on any single-slot frame, every complete send of any datagram (`sends_pq`), and the
power-on device (`new_playing`).  `update_swaps`: `update_with_sys_time` runs `Swapchain::update` on both chains;
`chain_after_set`: the closed form of the playing index.
-/
open Autd3 Autd3.Fw Autd3.Wire Autd3.Gen.Cpu Autd3.Gen Autd3.Rt
namespace Autd3.Hist

/-- what every output of `Swapchain::set` satisfies: if the chain plays an infinite loop then it is not stopped, its
Ext flag agrees with its transition mode, and the tick offset of the playing segment is 0 -/
def Playing (w : Swap) : Prop :=
  w.state = .infiniteLoop → w.stop = false ∧ w.extMode = (w.mode == TMode.ext) ∧ sel w.ticOff w.cur = 0

theorem set_playing (w w' : Swap) (t rep fd cyc seg : Nat) (mode : TMode) (h : w.set t rep fd cyc seg mode = .ok w') :
    Playing w' := by
  unfold Swap.set at h
  by_cases hc : w.cur = seg
  · simp only [hc, if_true] at h
    obtain ⟨x, hx, h⟩ := bind_eq_ok h
    obtain ⟨lap, i⟩ := x
    cases h
    intro _
    exact ⟨rfl, rfl, sel_setSel_eq _ _ _⟩
  · by_cases hr : rep = 0xFFFF
    · simp only [hc, hr, if_true, if_false] at h
      obtain ⟨x, hx, h⟩ := bind_eq_ok h
      obtain ⟨lap, i⟩ := x
      cases h
      intro _
      exact ⟨rfl, rfl, sel_setSel_eq _ _ _⟩
    · simp only [hc, hr, if_false] at h
      obtain ⟨x, hx, h⟩ := bind_eq_ok h
      cases hx; cases h
      intro hst; cases hst

/-- both swap chains keep the property `Playing` -/
def PQ (s0 s : State) : Prop :=
  (Playing s0.stmSwap → Playing s.stmSwap) ∧ (Playing s0.modSwap → Playing s.modSwap)

theorem PQ.refl (s : State) : PQ s s := ⟨id, id⟩
theorem PQ.trans {a b c : State} (h1 : PQ a b) (h2 : PQ b c) : PQ a c := ⟨fun h => h2.1 (h1.1 h), fun h => h2.2 (h1.2 h)⟩
theorem PQ.of_eq {s0 s1 s : State} (h : PQ s0 s1) (e1 : s.stmSwap = s1.stmSwap) (e2 : s.modSwap = s1.modSwap) : PQ s0 s :=
  ⟨fun x => by rw [e1]; exact h.1 x, fun x => by rw [e2]; exact h.2 x⟩

/-- the two swap chains are the same -/
def SwEq (s s' : State) : Prop := s'.stmSwap = s.stmSwap ∧ s'.modSwap = s.modSwap

theorem ctlWrite_sw (s s' : State) (a v : Nat) (h : ctlWrite s a v = .ok s') : SwEq s s' := by
  unfold ctlWrite at h
  simp only [] at h
  split at h
  · cases h; exact ⟨rfl, rfl⟩
  · split at h
    · split at h
      · cases h; exact ⟨rfl, rfl⟩
      · cases h
    · cases h

theorem ctlWriteLoop_sw (s : State) (base : Nat) (ws : Array Nat) : ∀ n s', P02.ctlWriteLoop s base ws n = .ok s' → SwEq s s' := by
  intro n
  induction n with
  | zero => intro s' h; cases h; exact ⟨rfl, rfl⟩
  | succ n ih =>
    intro s' h
    unfold P02.ctlWriteLoop at h
    obtain ⟨x, hx, h⟩ := bind_eq_ok h
    have a := ih x hx
    have b := ctlWrite_sw _ _ _ _ h
    exact ⟨b.1.trans a.1, b.2.trans a.2⟩

theorem ctlWriteWords_sw (s s' : State) (base : Nat) (ws : Array Nat) (h : ctlWriteWords s base ws = .ok s') : SwEq s s' := by
  rw [P02.ctlWriteWords_eq] at h
  exact ctlWriteLoop_sw s base ws _ _ h

theorem stmWriteWords_sw (s s' : State) (base : Nat) (ws : Array Nat) (h : stmWriteWords s base ws = .ok s') : SwEq s s' := by
  obtain ⟨m0, m1, e⟩ := stmWriteWords_shape s s' base ws h
  rw [e]; exact ⟨rfl, rfl⟩
theorem modWriteWords_sw (s s' : State) (base : Nat) (ws : Array Nat) (h : modWriteWords s base ws = .ok s') : SwEq s s' := by
  obtain ⟨m0, m1, e⟩ := modWriteWords_shape s s' base ws h
  rw [e]; exact ⟨rfl, rfl⟩
theorem pweWriteWords_sw (s s' : State) (base : Nat) (ws : Array Nat) (h : pweWriteWords s base ws = .ok s') : SwEq s s' := by
  unfold pweWriteWords at h
  split at h
  · cases h
  · cases h; exact ⟨rfl, rfl⟩

/-- `FPGAEmulator::set_and_wait_update`: each swap chain is left alone or replaced by an output of `set` -/
theorem fpgaSaw_pq (s s' : State) (t : Nat) (h : fpgaSetAndWaitUpdate s t = .ok s') : PQ s s' := by
  unfold fpgaSetAndWaitUpdate at h
  simp only [] at h
  split at h
  · obtain ⟨a, _, h⟩ := bind_eq_ok h
    obtain ⟨b, _, h⟩ := bind_eq_ok h
    obtain ⟨c, hc, h⟩ := bind_eq_ok h
    have pc := set_playing _ _ _ _ _ _ _ _ hc
    simp only [pure_bind] at h
    split at h
    · obtain ⟨a', _, h⟩ := bind_eq_ok h
      obtain ⟨b', _, h⟩ := bind_eq_ok h
      obtain ⟨c', hc', h⟩ := bind_eq_ok h
      have pc' := set_playing _ _ _ _ _ _ _ _ hc'
      cases h; exact ⟨fun _ => pc', fun _ => pc⟩
    · cases h; exact ⟨id, fun _ => pc⟩
  · simp only [pure_bind] at h
    split at h
    · obtain ⟨a', _, h⟩ := bind_eq_ok h
      obtain ⟨b', _, h⟩ := bind_eq_ok h
      obtain ⟨c', hc', h⟩ := bind_eq_ok h
      have pc' := set_playing _ _ _ _ _ _ _ _ hc'
      cases h; exact ⟨fun _ => pc', id⟩
    · cases h; exact ⟨id, id⟩

theorem saw_pq (s s' : State) (flag : Nat) (h : setAndWaitUpdate s flag = .ok s') : PQ s s' := by
  unfold setAndWaitUpdate at h
  obtain ⟨s1, h1, h⟩ := bind_eq_ok h
  obtain ⟨s2, h2, h3⟩ := bind_eq_ok h
  have e1 := ctlWrite_sw _ _ _ _ h1
  have e3 := ctlWrite_sw _ _ _ _ h3
  have p := fpgaSaw_pq _ _ _ h2
  exact ((PQ.refl s).of_eq e1.1 e1.2 |>.trans p).of_eq e3.1 e3.2

/-! ### stepping rules -/

theorem LQ.eq {s0 s1 : State} {m : M State} {f : State → M (State × Nat)} (h1 : PQ s0 s1)
    (hm : ∀ x, m = .ok x → SwEq s1 x) (h : ∀ s2, PQ s0 s2 → Leaves PQ s0 (f s2)) : Leaves PQ s0 (m >>= f) :=
  Leaves.bind (fun x => PQ s0 x) (fun x hx => h1.of_eq (hm x hx).1 (hm x hx).2) h

theorem LQ.cw {s0 s1 : State} {a v : Nat} {f : State → M (State × Nat)} (h1 : PQ s0 s1)
    (h : ∀ s2, PQ s0 s2 → Leaves PQ s0 (f s2)) : Leaves PQ s0 (ctlWrite s1 a v >>= f) :=
  LQ.eq h1 (fun x hx => ctlWrite_sw _ _ _ _ hx) h
theorem LQ.cww {s0 s1 : State} {a : Nat} {ws : Array Nat} {f : State → M (State × Nat)} (h1 : PQ s0 s1)
    (h : ∀ s2, PQ s0 s2 → Leaves PQ s0 (f s2)) : Leaves PQ s0 (ctlWriteWords s1 a ws >>= f) :=
  LQ.eq h1 (fun x hx => ctlWriteWords_sw _ _ _ _ hx) h
theorem LQ.sw {s0 s1 : State} {a : Nat} {ws : Array Nat} {f : State → M (State × Nat)} (h1 : PQ s0 s1)
    (h : ∀ s2, PQ s0 s2 → Leaves PQ s0 (f s2)) : Leaves PQ s0 (stmWriteWords s1 a ws >>= f) :=
  LQ.eq h1 (fun x hx => stmWriteWords_sw _ _ _ _ hx) h
theorem LQ.mw {s0 s1 : State} {a : Nat} {ws : Array Nat} {f : State → M (State × Nat)} (h1 : PQ s0 s1)
    (h : ∀ s2, PQ s0 s2 → Leaves PQ s0 (f s2)) : Leaves PQ s0 (modWriteWords s1 a ws >>= f) :=
  LQ.eq h1 (fun x hx => modWriteWords_sw _ _ _ _ hx) h
theorem LQ.pw {s0 s1 : State} {a : Nat} {ws : Array Nat} {f : State → M (State × Nat)} (h1 : PQ s0 s1)
    (h : ∀ s2, PQ s0 s2 → Leaves PQ s0 (f s2)) : Leaves PQ s0 (pweWriteWords s1 a ws >>= f) :=
  LQ.eq h1 (fun x hx => pweWriteWords_sw _ _ _ _ hx) h
theorem LQ.saw {s0 s1 : State} {flag : Nat} {f : State → M (State × Nat)} (h1 : PQ s0 s1)
    (h : ∀ s2, PQ s0 s2 → Leaves PQ s0 (f s2)) : Leaves PQ s0 (setAndWaitUpdate s1 flag >>= f) :=
  Leaves.bind (fun x => PQ s0 x) (fun x hx => h1.trans (saw_pq _ _ _ hx)) h

/-- the `PQ` side goal of a step -/
macro "pq_tac" : tactic =>
  `(tactic| first
    | assumption
    | exact PQ.refl _
    | (apply PQ.of_eq <;> first | assumption | rfl)
    | exact PQ.of_eq (PQ.refl _) rfl rfl)

macro "walkQ" : tactic =>
  `(tactic| repeat' (first
    | exact Leaves.error _
    | exact Leaves.error_bind _ _
    | exact Leaves.pure (by pq_tac)
    | exact Leaves.ok (by pq_tac)
    | (refine LQ.cw (by pq_tac) ?_; intro _ _)
    | (refine LQ.cww (by pq_tac) ?_; intro _ _)
    | (refine LQ.sw (by pq_tac) ?_; intro _ _)
    | (refine LQ.mw (by pq_tac) ?_; intro _ _)
    | (refine LQ.pw (by pq_tac) ?_; intro _ _)
    | (refine LQ.saw (by pq_tac) ?_; intro _ _)
    | (apply Leaves.ite <;> intro _)))

theorem stmSegmentUpdate_pq {s0 s1 : State} (h1 : PQ s0 s1) (seg mode value : Nat) :
    Leaves PQ s0 (stmSegmentUpdate s1 seg mode value) := by
  unfold stmSegmentUpdate
  walkQ
theorem modSegmentUpdate_pq {s0 s1 : State} (h1 : PQ s0 s1) (seg mode value : Nat) :
    Leaves PQ s0 (modSegmentUpdate s1 seg mode value) := by
  unfold modSegmentUpdate
  walkQ

theorem synchronize_pq (s : State) (d : Array Nat) : Leaves PQ s (synchronize s d) := by
  unfold synchronize; simp only []; walkQ
theorem configDebug_pq (s : State) (d : Array Nat) : Leaves PQ s (configDebug s d) := by
  unfold configDebug; walkQ
theorem configSilencer_pq (s : State) (d : Array Nat) : Leaves PQ s (configSilencer s d) := by
  unfold configSilencer; simp only []; walkQ
theorem configureForceFan_pq (s : State) (d : Array Nat) : Leaves PQ s (configureForceFan s d) := by
  unfold configureForceFan; simp only []; walkQ
theorem configureReadsFpgaState_pq (s : State) (d : Array Nat) : Leaves PQ s (configureReadsFpgaState s d) :=
  Leaves.ok ⟨id, id⟩
theorem emulateGpioIn_pq (s : State) (d : Array Nat) : Leaves PQ s (emulateGpioIn s d) := Leaves.ok ⟨id, id⟩
theorem cpuGpioOut_pq (s : State) (d : Array Nat) : Leaves PQ s (cpuGpioOut s d) := Leaves.ok ⟨id, id⟩
theorem configPwe_pq (s : State) (d : Array Nat) : Leaves PQ s (configPwe s d) := by
  unfold configPwe; walkQ
theorem phaseCorrOp_pq (s : State) (d : Array Nat) : Leaves PQ s (phaseCorrOp s d) := by
  unfold phaseCorrOp; walkQ
theorem firmInfo_pq (s : State) (d : Array Nat) : Leaves PQ s (firmInfo s d) := by
  unfold firmInfo; simp only []; walkQ
theorem writeGain_pq (s : State) (d : Array Nat) : Leaves PQ s (writeGain s d) := by
  unfold writeGain; simp only []; walkQ
theorem changeGainSegment_pq (s : State) (d : Array Nat) : Leaves PQ s (changeGainSegment s d) := by
  unfold changeGainSegment; simp only []; walkQ

theorem LQ.gp {s0 s1 : State} {seg off : Nat} {d : Array Nat} {f : Nat → Nat} {g : State → M (State × Nat)}
    (h1 : PQ s0 s1) (h : ∀ s2, PQ s0 s2 → Leaves PQ s0 (g s2)) :
    Leaves PQ s0 (gainStmWritePattern s1 seg off d f >>= g) := by
  apply Leaves.bind (fun x => PQ s0 x) _ h
  intro x hx
  unfold gainStmWritePattern at hx
  obtain ⟨y, hy, hx⟩ := bind_eq_ok hx
  have e := stmWriteWords_sw _ _ _ _ hy
  cases hx
  exact h1.of_eq e.1 e.2

macro "walkQ2" : tactic =>
  `(tactic| repeat' (first
    | exact Leaves.error _
    | exact Leaves.error_bind _ _
    | exact Leaves.pure (by pq_tac)
    | exact Leaves.ok (by pq_tac)
    | exact stmSegmentUpdate_pq (by pq_tac) _ _ _
    | exact modSegmentUpdate_pq (by pq_tac) _ _ _
    | (refine LQ.cw (by pq_tac) ?_; intro _ _)
    | (refine LQ.cww (by pq_tac) ?_; intro _ _)
    | (refine LQ.sw (by pq_tac) ?_; intro _ _)
    | (refine LQ.mw (by pq_tac) ?_; intro _ _)
    | (refine LQ.pw (by pq_tac) ?_; intro _ _)
    | (refine LQ.gp (by pq_tac) ?_; intro _ _)
    | (refine LQ.saw (by pq_tac) ?_; intro _ _)
    | (apply Leaves.ite <;> intro _)))

theorem changeModSegment_pq (s : State) (d : Array Nat) : Leaves PQ s (changeModSegment s d) := by
  unfold changeModSegment; simp only []; walkQ2
theorem changeFociStmSegment_pq (s : State) (d : Array Nat) : Leaves PQ s (changeFociStmSegment s d) := by
  unfold changeFociStmSegment; simp only []; walkQ2
theorem changeGainStmSegment_pq (s : State) (d : Array Nat) : Leaves PQ s (changeGainStmSegment s d) := by
  unfold changeGainStmSegment; simp only []; walkQ2

macro "walkQ3" : tactic =>
  `(tactic| repeat' (first
    | (refine LQ.cw (by assumption) ?_; intro _ _)
    | (refine LQ.cww (by assumption) ?_; intro _ _)
    | (refine LQ.sw (by assumption) ?_; intro _ _)
    | (refine LQ.mw (by assumption) ?_; intro _ _)
    | (refine LQ.pw (by assumption) ?_; intro _ _)
    | (refine LQ.saw (by assumption) ?_; intro _ _)
    | exact Leaves.pure (by assumption)))

set_option maxRecDepth 8192 in
set_option maxHeartbeats 1000000 in
theorem clear_pq (s : State) (d : Array Nat) : Leaves PQ s (clear s d) := by
  unfold clear
  simp only []
  refine LQ.cw (s1 := { s with portA := 0, readsFpgaState := false, flagsInternal := 0 }) ⟨id, id⟩ ?_; intro s1 h1
  refine LQ.cw h1 ?_; intro s2 h2
  refine LQ.cw h2 ?_; intro s3 h3
  refine LQ.cw h3 ?_; intro s4 h4
  refine LQ.cw h4 ?_; intro s5 h5
  refine LQ.cw (s1 := { s5 with strict := true, minDivI := 10, minDivP := 40, modDiv := (0xFFFF, 0xFFFF), modRep := (0xFFFF, 0xFFFF), modCycle := 2, modSegment := 0 }) (h5.of_eq rfl rfl) ?_; intro s6 h6
  refine LQ.cww h6 ?_; intro s7 h7
  refine LQ.cw h7 ?_; intro s8 h8
  refine LQ.cw h8 ?_; intro s9 h9
  refine LQ.cw h9 ?_; intro s10 h10
  refine LQ.cw h10 ?_; intro s11 h11
  refine LQ.cw h11 ?_; intro s12 h12
  refine LQ.cw h12 ?_; intro s13 h13
  refine LQ.cw h13 ?_; intro s14 h14
  refine LQ.cw h14 ?_; intro s15 h15
  refine LQ.cw h15 ?_; intro s16 h16
  refine LQ.mw h16 ?_; intro s17 h17
  refine LQ.cw h17 ?_; intro s18 h18
  refine LQ.mw h18 ?_; intro s19 h19
  refine LQ.cw (s1 := { s19 with stmCycle := (1, 1), stmMode := (STM_MODE_GAIN, STM_MODE_GAIN), stmDiv := (0xFFFF, 0xFFFF), stmRep := (0xFFFF, 0xFFFF), stmSegment := 0 }) (h19.of_eq rfl rfl) ?_; intro s20 h20
  walkQ3

/-! ### the three multi-frame handlers -/

theorem fociTail_pq {s0 s1 : State} (d : Array Nat) (off sn flag seg : Nat) (h1 : PQ s0 s1) :
    Leaves PQ s0 (fociDataPart s1 d off sn >>= fun s2 => fociEndPart s2 flag seg) := by
  have endp : ∀ s2, PQ s0 s2 → Leaves PQ s0 (fociEndPart s2 flag seg) := by
    intro s2 h2
    unfold fociEndPart
    simp only []
    walkQ2
  unfold fociDataPart
  simp only []
  by_cases h0 : sn * s1.numFoci ≥ 65536
  · simp only [h0, if_true, error_bind]; exact Leaves.error _
  by_cases h : sn * s1.numFoci < FOCI_STM_BUF_PAGE_SIZE - (s1.stmWrite % 65536 &&& FOCI_STM_BUF_PAGE_SIZE_MASK)
  · simp only [h0, h, if_true, if_false, bind_assoc, pure_bind]
    refine LQ.sw (by pq_tac) ?_; intro _ _
    exact endp _ (by pq_tac)
  · simp only [h0, h, if_false, bind_assoc, pure_bind]
    refine LQ.sw (by pq_tac) ?_; intro _ _
    refine LQ.cw (by pq_tac) ?_; intro _ _
    refine LQ.sw (by pq_tac) ?_; intro _ _
    exact endp _ (by pq_tac)

theorem writeFociStm_pq (s : State) (d : Array Nat) : Leaves PQ s (writeFociStm s d) := by
  by_cases hb : hasFlag (u8at d FwLayout.FociSTMSubseq_flag_off) FOCI_STM_FLAG_BEGIN = true
  · by_cases g1 : validateTransitionMode s.stmSegment (u8at d FwLayout.FociSTMSubseq_segment_off)
        (u16at d FwLayout.FociSTMHead_rep_off) (u8at d FwLayout.FociSTMHead_transition_mode_off) = true
    · unfold writeFociStm; simp only [hb, g1, if_true]; exact Leaves.pure (PQ.refl _)
    by_cases g2 : validateSilencerSettings s (u16at d FwLayout.FociSTMHead_freq_div_off) (sel s.modDiv s.modSegment) = true
    · unfold writeFociStm; simp only [hb, g1, g2, if_true, if_false]; exact Leaves.pure (PQ.refl _)
    by_cases hseg : u8at d FwLayout.FociSTMSubseq_segment_off > 1
    · unfold writeFociStm; simp only [hb, g1, g2, hseg, if_true, if_false, error_bind]; exact Leaves.error _
    rw [writeFoci_begin s d _ rfl (by omega) hb (by simpa using g1) (by simpa using g2)]
    apply fociTail_pq d _ _ _ _
    refine PQ.of_eq (PQ.refl s) ?_ ?_ <;> (unfold fociHead; simp only [wr_stmSwap, wr_modSwap]; rfl)
  · rw [writeFoci_subseq s d (by simpa using hb)]
    exact fociTail_pq d _ _ _ _ (PQ.refl _)

theorem gstmTail_pq {s0 s1 : State} (d : Array Nat) (off flag seg : Nat) (h1 : PQ s0 s1) :
    Leaves PQ s0 (gstmTail s1 d off flag seg) := by
  unfold gstmTail
  simp only []
  walkQ2

theorem writeGainStm_pq (s : State) (d : Array Nat) : Leaves PQ s (writeGainStm s d) := by
  by_cases hb : hasFlag (u8at d FwLayout.GainSTMSubseq_flag_off) GAIN_STM_FLAG_BEGIN = true
  · by_cases g1 : validateTransitionMode s.stmSegment
        (if u8at d FwLayout.GainSTMSubseq_flag_off &&& GAIN_STM_FLAG_SEGMENT ≠ 0 then 1 else 0)
        (u16at d FwLayout.GainSTMHead_rep_off) (u8at d FwLayout.GainSTMHead_transition_mode_off) = true
    · unfold writeGainStm; simp only [hb, g1, if_true]; exact Leaves.pure (PQ.of_eq (PQ.refl _) rfl rfl)
    by_cases g2 : validateSilencerSettings s (u16at d FwLayout.GainSTMHead_freq_div_off) (sel s.modDiv s.modSegment) = true
    · have g2' : validateSilencerSettings { s with gainStmMode := u8at d FwLayout.GainSTMHead_mode_off }
          (u16at d FwLayout.GainSTMHead_freq_div_off)
          (sel ({ s with gainStmMode := u8at d FwLayout.GainSTMHead_mode_off } : State).modDiv
            ({ s with gainStmMode := u8at d FwLayout.GainSTMHead_mode_off } : State).modSegment) = true := g2
      unfold writeGainStm; simp only [hb, g1, g2', if_true, if_false]
      exact Leaves.pure (PQ.of_eq (PQ.refl _) rfl rfl)
    rw [writeGainStm_begin s d _ rfl hb (by simpa using g1) (by simpa using g2)]
    apply gstmTail_pq d _ _ _
    refine PQ.of_eq (PQ.refl s) ?_ ?_ <;> (unfold gstmHead; simp only [wr_stmSwap, wr_modSwap]; rfl)
  · rw [writeGainStm_subseq s d (by simpa using hb)]
    exact gstmTail_pq d _ _ _ (PQ.refl _)

theorem modTail_pq {s0 s1 : State} (d : Array Nat) (off w flag seg : Nat) (h1 : PQ s0 s1) :
    Leaves PQ s0 (modDataPart s1 d off w >>= fun s2 => modEndPart s2 flag seg) := by
  have endp : ∀ s2, PQ s0 s2 → Leaves PQ s0 (modEndPart s2 flag seg) := by
    intro s2 h2
    unfold modEndPart
    simp only []
    walkQ2
  unfold modDataPart
  simp only []
  by_cases h : w < MOD_BUF_PAGE_SIZE - (s1.modCycle % 65536 &&& MOD_BUF_PAGE_SIZE_MASK)
  · simp only [h, if_true, bind_assoc, pure_bind]
    refine LQ.mw (by pq_tac) ?_; intro _ _
    exact endp _ (by pq_tac)
  · simp only [h, if_false, bind_assoc, pure_bind]
    refine LQ.mw (by pq_tac) ?_; intro _ _
    refine LQ.cw (by pq_tac) ?_; intro _ _
    refine LQ.mw (by pq_tac) ?_; intro _ _
    exact endp _ (by pq_tac)

theorem writeMod_pq (s : State) (d : Array Nat) : Leaves PQ s (writeMod s d) := by
  by_cases hb : hasFlag (u8at d FwLayout.ModulationHead_flag_off) MODULATION_FLAG_BEGIN = true
  · by_cases g1 : validateTransitionMode s.modSegment
        (if u8at d FwLayout.ModulationHead_flag_off &&& MODULATION_FLAG_SEGMENT ≠ 0 then 1 else 0)
        (u16at d FwLayout.ModulationHead_rep_off) (u8at d FwLayout.ModulationHead_transition_mode_off) = true
    · unfold writeMod; simp only [hb, g1, if_true]; exact Leaves.pure (PQ.of_eq (PQ.refl _) rfl rfl)
    by_cases g2 : validateSilencerSettings s (sel s.stmDiv s.stmSegment) (u16at d FwLayout.ModulationHead_freq_div_off) = true
    · have g2' : validateSilencerSettings { s with modCycle := 0 } (sel s.stmDiv s.stmSegment)
          (u16at d FwLayout.ModulationHead_freq_div_off) = true := g2
      unfold writeMod; simp only [hb, g1, g2', if_true, if_false]
      exact Leaves.pure (PQ.of_eq (PQ.refl _) rfl rfl)
    rw [writeMod_begin s d _ rfl hb (by simpa using g1) (by simpa using g2)]
    apply modTail_pq d _ _ _ _
    refine PQ.of_eq (PQ.refl s) ?_ ?_ <;> (unfold modHead; simp only [wr_stmSwap, wr_modSwap]; rfl)
  · rw [writeMod_subseq s d (by simpa using hb)]
    exact modTail_pq d _ _ _ _ (PQ.refl _)

/-! ### every handler, one frame, a whole send, a whole history -/

theorem handlerOf_pq (name : String) (h : State → Array Nat → M (State × Nat)) (e : handlerOf name = some h)
    (s : State) (d : Array Nat) : Leaves PQ s (h s d) := by
  unfold handlerOf at e
  split at e <;> first
    | (cases e; first
        | exact clear_pq s d | exact synchronize_pq s d | exact firmInfo_pq s d | exact writeMod_pq s d
        | exact changeModSegment_pq s d | exact configSilencer_pq s d | exact writeGain_pq s d
        | exact changeGainSegment_pq s d | exact changeGainStmSegment_pq s d | exact writeFociStm_pq s d
        | exact changeFociStmSegment_pq s d | exact writeGainStm_pq s d | exact configureForceFan_pq s d
        | exact configureReadsFpgaState_pq s d | exact configPwe_pq s d | exact configDebug_pq s d
        | exact emulateGpioIn_pq s d | exact cpuGpioOut_pq s d | exact phaseCorrOp_pq s d)
    | cases e

/-- **every handler, every payload**: a swap chain that satisfies `Playing` still does afterwards -/
theorem handlePayload_pq (s : State) (d : Array Nat) : Leaves PQ s (handlePayload s d) := by
  unfold handlePayload
  split
  · split
    · rename_i h e; exact handlerOf_pq _ h e s d
    · exact Leaves.error _
  · exact Leaves.ok (PQ.refl s)

theorem PQ_pre (s : State) (mid : Nat) : PQ s (pre s mid) := by
  obtain ⟨r, hr⟩ := pre_eq s mid
  rw [hr]; exact ⟨id, id⟩

theorem ecatRecv_pq (s s' : State) (frame : Array Nat) (hslot : u16at frame DrvLayout.Header_slot_2_offset_off = 0)
    (h : ecatRecv s frame = .ok s') : PQ s s' := by
  rw [ecatRecv_slot1_eq s frame hslot] at h
  split at h
  · cases h; exact PQ.refl s
  · split at h
    · cases h; exact (PQ_pre s _).of_eq rfl rfl
    · obtain ⟨x, hx, h⟩ := bind_eq_ok h
      obtain ⟨x1, x2⟩ := x
      have p := (PQ_pre s _).trans (handlePayload_pq _ _ x1 x2 hx)
      simp only [] at h
      split at h
      · cases h; exact p.of_eq rfl rfl
      · obtain ⟨s2, h2, h⟩ := bind_eq_ok h
        cases h
        have e := ctlWrite_sw _ _ _ _ h2
        exact p.of_eq e.1 e.2

theorem sendLoop_pq : ∀ fuel (o : Op) (s : State) (t t' : Tx) (s' : State),
    sendLoop fuel o s t = some (t', s') → PQ s s' := by
  intro fuel
  induction fuel with
  | zero => intro o s t t' s' h; cases h
  | succ fuel ih =>
    intro o s t t' s' h
    unfold sendLoop at h
    split at h
    · cases h; exact PQ.refl s
    · split at h
      · cases h
      · rename_i o1 t1 sz hp
        obtain ⟨b, _, rfl⟩ := packOp_inv _ _ _ _ _ _ hp
        split at h
        · cases h
        · rename_i s1 hr
          split at h
          · exact (ecatRecv_pq s s1 _ (by rw [frame_slot2]; rfl) hr).trans (ih _ _ _ _ _ h)
          · cases h

/-- **a whole send of ANY datagram from ANY state** keeps `Playing` of both swap chains -/
theorem sends_pq (dg : Dg) (s : State) (t t' : Tx) (s' : State) (h : Sends dg s t t' s') : PQ s s' := by
  obtain ⟨fuel, h⟩ := h
  exact sendLoop_pq fuel _ s t t' s' h

/-- both swap chains of the power-on device satisfy `Playing` -/
theorem new_playing (numTr now : Nat) (p0 : State) (hp0 : Fw.new numTr now = .ok p0) :
    Playing p0.stmSwap ∧ Playing p0.modSwap := by
  unfold Fw.new at hp0
  simp only [] at hp0
  obtain ⟨x, hx, h⟩ := bind_eq_ok hp0
  obtain ⟨x1, x2⟩ := x
  cases h
  have p := clear_pq _ _ x1 x2 hx
  exact ⟨p.1 (fun h => by cases h), p.2 (fun h => by cases h)⟩

/-! ### one clock update -/

theorem readFpgaState_swaps (x : State) : (readFpgaState x).stmSwap = x.stmSwap ∧ (readFpgaState x).modSwap = x.modSwap := by
  unfold readFpgaState
  split
  · exact ⟨rfl, rfl⟩
  · split <;> exact ⟨rfl, rfl⟩

theorem update_swaps (s s' : State) (t : Nat) (h : updateWithSysTime s t = .ok s') :
    s.modSwap.update (gpioIn s) t = .ok s'.modSwap ∧ s.stmSwap.update (gpioIn s) t = .ok s'.stmSwap := by
  unfold updateWithSysTime at h
  obtain ⟨mw, hm, h⟩ := bind_eq_ok h
  obtain ⟨sw, hs, h⟩ := bind_eq_ok h
  simp only [] at h
  cases h
  refine ⟨?_, ?_⟩
  · rw [hm]; congr 1; symm
    show (readFpgaState _).modSwap = mw
    rw [(readFpgaState_swaps _).2]
  · rw [hs]; congr 1; symm
    show (readFpgaState _).stmSwap = sw
    rw [(readFpgaState_swaps _).1]

/-- a chain that satisfies `Playing` and is the result of a request that took effect at once (`SwapSet` with the
requested segment already current, or loop count 0xFFFF), mode other than Ext: after one update at any time `t`,
`cur = seg` and `cur_idx = ((fpga_sys_time(t) >> 9) / fd) % cyc` -/
theorem chain_after_set (w0 w w' : Swap) (hok : SwapOK w) (hp : Playing w) (t0 rep fd cyc seg : Nat) (mode : TMode)
    (hset : SwapSet w0 w t0 rep fd cyc seg mode) (hnow : w0.cur = seg ∨ rep = 0xFFFF) (hm : mode ≠ .ext)
    (g : Nat → Bool) (t : Nat) (hu : w.update g t = .ok w') :
    w'.cur = seg ∧ w'.curIdx = ((fpgaSysTime t >>> 9) / fd) % cyc := by
  obtain ⟨c1, c2, _⟩ := hset.now hnow
  obtain ⟨p1, p2, p3⟩ := hp c2
  have hext : w.extMode = false := by
    rw [p2, hset.mode]; cases mode <;> first | rfl | exact absurd rfl hm
  rw [update_playing w hok g t c2 p1 hext p3] at hu
  cases hu
  refine ⟨c1, ?_⟩
  show ((fpgaSysTime t >>> 9) / sel w.freqDiv w.cur) % sel w.cycle w.cur = _
  rw [c1, hset.freqDiv, hset.cycle, sel_setSel_eq, sel_setSel_eq]

end Autd3.Hist
