import Autd3.Lemmas.RtFoci5
/-!
FociSTM, part 6: firmware-level step lemmas (`foci_tail_nonlast`, `foci_tail_last_notr`,
`foci_tail_last_tr`).
-/
set_option linter.unusedSimpArgs false
open Autd3 Autd3.Fw Autd3.Wire Autd3.Gen.Cpu Autd3.Gen
namespace Autd3.Rt

theorem foci_tail_nonlast {s0 sH : State} {seg : Nat} {tr : Tr} {rep div ss n : Nat} {records : Array Nat} {c : Nat}
    (hseg : seg ≤ 1) (hI : FociInv s0 sH seg tr rep div ss n records c) (d : Array Nat) (off sn flag : Nat)
    (hd : ∀ k, k < sn * n → u64at d (off + 8 * k) = rd records (c + k)) (hcw : c + sn * n < 65536)
    (hwp : sn * n ≤ 4096) (hE : hasFlag flag FOCI_STM_FLAG_END = false) :
    ∃ s2, (fociDataPart sH d off sn >>= fun s2 => fociEndPart s2 flag seg) = .ok (s2, NO_ERR) ∧
      FociInv s0 s2 seg tr rep div ss n records (c + sn * n) ∧ s2.lastMsgId = sH.lastMsgId := by
  obtain ⟨s2, h2, hC⟩ := fociDataPart_ok sH hI.wf d off sn seg c n hI.cursor hI.nf (by omega) (by omega) (by omega) hI.wseg
    hseg hI.page hwp
  refine ⟨s2, ?_, FociInv_copied hI hC hd hcw, hC.frame.lastMsgId⟩
  rw [h2, ok_bind, fociEndPart_notlast _ _ _ hE]

/-- the "content" clauses of `FociHeld` for any state that agrees with the end-of-copy state `s2`
(cycle register written) outside register 0 and the request/transition registers -/
theorem fociHeld_core {s0 sH s2 x : State} {seg : Nat} {tr : Tr} {rep div ss n : Nat} {records : Array Nat} {c w off P : Nat}
    {d : Array Nat} (hseg : seg ≤ 1) (hI : FociInv s0 sH seg tr rep div ss n records c) (hC : FociCopied sH s2 seg c w d off)
    (hd : ∀ k, k < w → u64at d (off + 8 * k) = rd records (c + k)) (hn : c + w = P * n) (hP : 1 ≤ P ∧ P ≤ 65536)
    (hn8 : n < 256)
    (hx : ∀ a, a ≠ 0 → a ≠ 82 → ¬(95 ≤ a ∧ a ≤ 99) → reg x a = if a = 83 + seg then P - 1 else reg s2 a)
    (hm : ∀ g, Obs.stmMem x g = Obs.stmMem s2 g) :
    (∀ k, k < P * n → stmRecord (Obs.stmMem x seg) k = rd records k) ∧ Obs.stmCycle x seg = P ∧
      Obs.numFoci x seg = n ∧ Obs.soundSpeed x seg = ss ∧ Obs.stmDiv x seg = div ∧ Obs.stmRep x seg = rep ∧
      Obs.isStmGainMode x seg = false ∧ Obs.stmMem x (1 - seg) = Obs.stmMem s0 (1 - seg) ∧
      (Obs.stmDiv x (1 - seg) = Obs.stmDiv s0 (1 - seg) ∧ Obs.stmRep x (1 - seg) = Obs.stmRep s0 (1 - seg) ∧
        Obs.stmCycle x (1 - seg) = Obs.stmCycle s0 (1 - seg) ∧
        Obs.isStmGainMode x (1 - seg) = Obs.isStmGainMode s0 (1 - seg)) := by
  have hr2 : ∀ a, a ≠ 81 → reg s2 a = reg sH a := fun a ha => hC.regs a (by simpa [ADDR_STM_MEM_WR_PAGE] using ha)
  have htr : ∀ a, 83 ≤ a → a ≤ 94 → a ≠ 83 + seg → reg x a = reg sH a := by
    intro a h1 h2 h3
    rw [hx a (by omega) (by omega) (by omega), if_neg h3, hr2 a (by omega)]
  have hother : ∀ a, 83 ≤ a → a ≤ 94 → a ≠ 83 + seg → a ≠ 85 + seg → a ≠ 87 + seg → a ≠ 89 + seg → a ≠ 91 + seg →
      a ≠ 93 + seg → reg x a = reg s0 a := by
    intro a h1 h2 h3 h4 h5 h6 h7 h8
    rw [htr a h1 h2 h3]
    exact hI.regs a (by omega) (by omega) (by omega) h4 h5 h6 h7 h8
  refine ⟨?_, ?_, ?_, ?_, ?_, ?_, ?_, ?_, ?_, ?_, ?_, ?_⟩
  · intro k hk
    rw [hm, hC.recs k (by omega)]
    by_cases hlo : c ≤ k
    · rw [if_pos hlo, hd _ (by omega)]; congr 1; omega
    · rw [if_neg hlo]; exact hI.recs k (by omega)
  · unfold Obs.stmCycle; simp only [ADDR_STM_CYCLE0]
    rw [hx _ (by omega) (by omega) (by omega), if_pos rfl]; omega
  · unfold Obs.numFoci; simp only [ADDR_STM_NUM_FOCI0]
    rw [htr _ (by omega) (by omega) (by omega), hI.nfReg]; omega
  · unfold Obs.soundSpeed; simp only [ADDR_STM_SOUND_SPEED0]
    rw [htr _ (by omega) (by omega) (by omega), hI.ssReg]
  · unfold Obs.stmDiv; simp only [ADDR_STM_FREQ_DIV0]
    rw [htr _ (by omega) (by omega) (by omega), hI.divReg]
  · unfold Obs.stmRep; simp only [ADDR_STM_REP0]
    rw [htr _ (by omega) (by omega) (by omega), hI.repReg]
  · have : reg x (ADDR_STM_MODE0 + seg) = STM_MODE_FOCUS := by
      simp only [ADDR_STM_MODE0]; rw [htr _ (by omega) (by omega) (by omega), hI.modeReg]
    unfold Obs.isStmGainMode; rw [this]; rfl
  · rw [hm, hC.other _ (by rcases (show seg = 0 ∨ seg = 1 by omega) with h | h <;> subst h <;> simp),
      hI.other _ (by rcases (show seg = 0 ∨ seg = 1 by omega) with h | h <;> subst h <;> simp)]
  · unfold Obs.stmDiv; simp only [ADDR_STM_FREQ_DIV0]
    exact hother _ (by omega) (by omega) (by omega) (by omega) (by omega) (by omega) (by omega) (by omega)
  · unfold Obs.stmRep; simp only [ADDR_STM_REP0]
    exact hother _ (by omega) (by omega) (by omega) (by omega) (by omega) (by omega) (by omega) (by omega)
  · unfold Obs.stmCycle; simp only [ADDR_STM_CYCLE0]
    rw [hother _ (by omega) (by omega) (by omega) (by omega) (by omega) (by omega) (by omega) (by omega)]
  · have : reg x (ADDR_STM_MODE0 + (1 - seg)) = reg s0 (ADDR_STM_MODE0 + (1 - seg)) := by
      simp only [ADDR_STM_MODE0]
      exact hother _ (by omega) (by omega) (by omega) (by omega) (by omega) (by omega) (by omega) (by omega)
    unfold Obs.isStmGainMode; rw [this]

/-- facts shared by the two last-frame lemmas -/
theorem foci_end_state {s0 sH s2 : State} {seg : Nat} {tr : Tr} {rep div ss n : Nat} {records : Array Nat} {c w off P : Nat}
    {d : Array Nat} (hseg : seg ≤ 1) (hI : FociInv s0 sH seg tr rep div ss n records c) (hC : FociCopied sH s2 seg c w d off)
    (hn : c + w = P * n) (hP : 1 ≤ P ∧ P ≤ 65536) (hn1 : 1 ≤ n) :
    s2.numFoci ≠ 0 ∧ WF (wr (fociEndCpu s2 seg) (ADDR_STM_CYCLE0 + seg) ((max (s2.stmWrite / s2.numFoci) 1 - 1) % 65536)) ∧
    (∀ a, reg (wr (fociEndCpu s2 seg) (ADDR_STM_CYCLE0 + seg) ((max (s2.stmWrite / s2.numFoci) 1 - 1) % 65536)) a =
      if a = 83 + seg then P - 1 else reg s2 a) := by
  have hW2 := WF_of_FociCopied hI.wf hC
  have hnf : s2.numFoci = n := by rw [hC.frame.numFoci]; exact hI.nf
  have hval : (max (s2.stmWrite / s2.numFoci) 1 - 1) % 65536 = P - 1 := by
    rw [hC.cursor, hn, hnf, Nat.mul_div_cancel _ (by omega)]; omega
  refine ⟨by rw [hnf]; omega, ?_, ?_⟩
  · have hne : ADDR_STM_CYCLE0 + seg ≠ ADDR_MOD_FREQ_DIV0 ∧ ADDR_STM_CYCLE0 + seg ≠ ADDR_MOD_FREQ_DIV1 ∧
        ADDR_STM_CYCLE0 + seg ≠ ADDR_STM_FREQ_DIV0 ∧ ADDR_STM_CYCLE0 + seg ≠ ADDR_STM_FREQ_DIV1 := by
      simp only [ADDR_STM_CYCLE0, ADDR_MOD_FREQ_DIV0, ADDR_MOD_FREQ_DIV1, ADDR_STM_FREQ_DIV0, ADDR_STM_FREQ_DIV1]; omega
    exact WF_wr (WF_fociEndCpu hW2 seg) _ _ (Or.inl hne)
  · intro a
    rw [reg_wr, fociEndCpu_ctl, hW2.ctl, hval, reg_fociEndCpu]
    have e83 : ADDR_STM_CYCLE0 + seg = 83 + seg := rfl
    by_cases h : a = 83 + seg
    · rw [if_pos ⟨h.trans e83.symm, by rw [e83]; omega⟩, if_pos h]; omega
    · rw [if_neg (by intro hh; exact h (hh.1.trans e83)), if_neg h]

theorem foci_tail_last_notr {s0 sH : State} {seg : Nat} {rep div ss n : Nat} {records : Array Nat} {c P : Nat}
    (hseg : seg ≤ 1) (hI : FociInv s0 sH seg none rep div ss n records c) (d : Array Nat) (off sn flag : Nat)
    (hd : ∀ k, k < sn * n → u64at d (off + 8 * k) = rd records (c + k)) (hn : c + sn * n = P * n)
    (hP : 1 ≤ P ∧ P ≤ 65536) (hPn : P * n ≤ 65536) (hn1 : 1 ≤ n ∧ n < 256) (hc3 : c < 65536) (hwp : sn * n ≤ 4096)
    (hE : hasFlag flag FOCI_STM_FLAG_END = true) (hU : hasFlag flag FOCI_STM_FLAG_UPDATE = false) :
    ∃ sE, (fociDataPart sH d off sn >>= fun s2 => fociEndPart s2 flag seg) = .ok (sE, NO_ERR) ∧ WF sE ∧
      FociHeld s0 sE seg none rep div ss n records P ∧ sE.lastMsgId = sH.lastMsgId := by
  obtain ⟨s2, h2, hC⟩ := fociDataPart_ok sH hI.wf d off sn seg c n hI.cursor hI.nf (by omega) (by omega) hc3 hI.wseg
    hseg hI.page hwp
  obtain ⟨hnf, hWW, hx⟩ := foci_end_state hseg hI hC hn hP hn1.1
  refine ⟨_, by rw [h2, ok_bind, fociEndPart_last_notr _ _ _ hseg hnf hE hU], hWW, ?_, ?_⟩
  · obtain ⟨a1, a2, a3, a4, a5, a6, a7, a8, a9⟩ := fociHeld_core hseg hI hC hd hn hP hn1.2 (fun a _ _ _ => hx a)
      (fun g => rfl)
    refine ⟨a1, a2, a3, a4, a5, a6, a7, a8, a9, ?_⟩
    have hreq : ∀ a, a = 82 ∨ (95 ≤ a ∧ a ≤ 99) →
        reg (wr (fociEndCpu s2 seg) (ADDR_STM_CYCLE0 + seg) ((max (s2.stmWrite / s2.numFoci) 1 - 1) % 65536)) a = reg s0 a := by
      intro a ha
      rw [hx a, if_neg (by omega), hC.regs a (by simp only [ADDR_STM_MEM_WR_PAGE]; omega)]
      exact hI.regs a (by omega) (by omega) (by omega) (by omega) (by omega) (by omega) (by omega) (by omega)
    refine ⟨?_, ?_, ?_⟩
    · show s2.stmSwap = _
      rw [hC.frame.stmSwap]; exact hI.swap
    · unfold Obs.reqStmSeg segReg
      simp only [hreq ADDR_STM_REQ_RD_SEGMENT (Or.inl rfl)]
    · unfold Obs.stmTransition reg64
      simp only [hreq ADDR_STM_TRANSITION_MODE (Or.inr (by decide)), hreq ADDR_STM_TRANSITION_VALUE_0 (Or.inr (by decide)),
        hreq (ADDR_STM_TRANSITION_VALUE_0 + 1) (Or.inr (by decide)), hreq (ADDR_STM_TRANSITION_VALUE_0 + 2) (Or.inr (by decide)),
        hreq (ADDR_STM_TRANSITION_VALUE_0 + 3) (Or.inr (by decide))]
  · show s2.lastMsgId = _
    exact hC.frame.lastMsgId

theorem foci_tail_last_tr {s0 sH : State} {seg : Nat} {rep div ss n : Nat} {records : Array Nat} {c P m v : Nat}
    (hseg : seg ≤ 1) (hI : FociInv s0 sH seg (some (m, v)) rep div ss n records c) (d : Array Nat) (off sn flag : Nat)
    (hd : ∀ k, k < sn * n → u64at d (off + 8 * k) = rd records (c + k)) (hn : c + sn * n = P * n)
    (hP : 1 ≤ P ∧ P ≤ 65536) (hPn : P * n ≤ 65536) (hn1 : 1 ≤ n ∧ n < 256) (hc3 : c < 65536) (hwp : sn * n ≤ 4096)
    (hE : hasFlag flag FOCI_STM_FLAG_END = true) (hU : hasFlag flag FOCI_STM_FLAG_UPDATE = true)
    (hv : ValidTr m v) (hv64 : v < 18446744073709551616)
    (hmiss : ¬(m = TRANSITION_MODE_SYS_TIME ∧ v < s0.dcSysTime + SYS_TIME_TRANSITION_MARGIN)) :
    ∃ sE, (fociDataPart sH d off sn >>= fun s2 => fociEndPart s2 flag seg) = .ok (sE, NO_ERR) ∧ WF sE ∧
      FociHeld s0 sE seg (some (m, v)) rep div ss n records P ∧ sE.lastMsgId = sH.lastMsgId := by
  obtain ⟨s2, h2, hC⟩ := fociDataPart_ok sH hI.wf d off sn seg c n hI.cursor hI.nf (by omega) (by omega) hc3 hI.wseg
    hseg hI.page hwp
  obtain ⟨hnf, hWW, hx⟩ := foci_end_state hseg hI hC hn hP hn1.1
  have htm : s2.stmTrMode = m := by rw [hC.frame.stmTrMode, hI.trMode]; rfl
  have htv : s2.stmTrValue = v := by rw [hC.frame.stmTrValue, hI.trValue]; rfl
  have htime : (wr (fociEndCpu s2 seg) (ADDR_STM_CYCLE0 + seg) ((max (s2.stmWrite / s2.numFoci) 1 - 1) % 65536)).dcSysTime =
      s0.dcSysTime := by rw [wr_dcSysTime, fociEndCpu_dcSysTime, hC.frame.dcSysTime, hI.time]
  have hsw : (wr (fociEndCpu s2 seg) (ADDR_STM_CYCLE0 + seg) ((max (s2.stmWrite / s2.numFoci) 1 - 1) % 65536)).stmSwap =
      s0.stmSwap := by rw [wr_stmSwap, fociEndCpu_stmSwap, hC.frame.stmSwap, hI.swap]
  have hlm : (wr (fociEndCpu s2 seg) (ADDR_STM_CYCLE0 + seg) ((max (s2.stmWrite / s2.numFoci) 1 - 1) % 65536)).lastMsgId =
      s2.lastMsgId := by rw [wr_lastMsgId, fociEndCpu_lastMsgId]
  have hmm : ∀ g, Obs.stmMem (wr (fociEndCpu s2 seg) (ADDR_STM_CYCLE0 + seg)
      ((max (s2.stmWrite / s2.numFoci) 1 - 1) % 65536)) g = Obs.stmMem s2 g := fun g => rfl
  generalize hsW : wr (fociEndCpu s2 seg) (ADDR_STM_CYCLE0 + seg) ((max (s2.stmWrite / s2.numFoci) 1 - 1) % 65536) = sW
    at hx hWW htime hsw hlm hmm
  obtain ⟨w', hu, hset, hW1, hregs, h64⟩ := stmSegmentUpdate_ok sW hWW seg m v hseg hv hv64 (by rw [htime]; exact hmiss)
  refine ⟨_, ?_, hW1, ?_, ?_⟩
  · rw [h2, ok_bind, fociEndPart_last_tr _ _ _ hseg hnf hE hU, hsW, htm, htv, hu]
  · have hm : ∀ g, Obs.stmMem (stmReqPost sW seg m v w') g = Obs.stmMem s2 g := by
      intro g; rw [← hmm g]; unfold Obs.stmMem; simp [stmReqPost]
    obtain ⟨a1, a2, a3, a4, a5, a6, a7, a8, a9⟩ := fociHeld_core (x := stmReqPost sW seg m v w') hseg hI hC hd hn hP hn1.2
      (fun a h0 h82 h95 => by
        rw [hregs a h0, if_neg (by omega), if_neg h82, if_neg (by omega)]; exact hx a) hm
    refine ⟨a1, a2, a3, a4, a5, a6, a7, a8, a9, ?_, ?_, ?_⟩
    · unfold Obs.reqStmSeg segReg
      simp only [hregs _ (show ADDR_STM_REQ_RD_SEGMENT ≠ 0 by decide)]
      simp [ADDR_STM_REQ_RD_SEGMENT, hseg]
    · unfold Obs.stmTransition
      rw [h64, hregs _ (by decide)]
      exact decodeTMode_valid _ _ _ hv
    · have hr2 : ∀ a, a ≠ 81 → reg s2 a = reg sH a := fun a ha => hC.regs a (by simpa [ADDR_STM_MEM_WR_PAGE] using ha)
      have e1 : reg sW (ADDR_STM_REP0 + seg) = rep := by
        simp only [ADDR_STM_REP0]; rw [hx, if_neg (by omega), hr2 _ (by omega)]; exact hI.repReg
      have e2 : reg sW (ADDR_STM_FREQ_DIV0 + seg) = div := by
        simp only [ADDR_STM_FREQ_DIV0]; rw [hx, if_neg (by omega), hr2 _ (by omega)]; exact hI.divReg
      have e3 : reg sW (ADDR_STM_CYCLE0 + seg) + 1 = P := by
        simp only [ADDR_STM_CYCLE0]; rw [hx, if_pos rfl]; omega
      rw [e1, e2, e3, hsw, htime] at hset
      have : (stmReqPost sW seg m v w').stmSwap = w' := by simp [stmReqPost]
      rw [this]; exact hset
  · have : (stmReqPost sW seg m v w').lastMsgId = sW.lastMsgId := by simp [stmReqPost]
    rw [this, hlm]; exact hC.frame.lastMsgId

end Autd3.Rt
