import Autd3.Lemmas.StateByte3
import Autd3.Lemmas.FwTraceWitness
/-!
C17, history level, part 4: a swap chain that waits for a SysTime transition; the frame traces of the
register-versus-latched-cycle witnesses; helpers for building concrete histories.
-/
set_option linter.unusedSimpArgs false
set_option linter.unusedVariables false
open Autd3 Autd3.Fw Autd3.Wire Autd3.Gen.Cpu Autd3.Gen Autd3.Rt Autd3.Hist
namespace Autd3.SB

/-- `Swapchain::update` on a chain that waits for `SysTime(v)`, at a time before `v`: nothing but the index moves -/
theorem update_waiting (w w' : Swap) (g : Nat → Bool) (t v : Nat) (hst : w.state = .waitStart) (hm : w.mode = .sysTime v)
    (ht : t < v) (h : w.update g t = .ok w') : w'.cur = w.cur ∧ w'.req = w.req ∧ w'.state = .waitStart := by
  rw [Fw.update_eq] at h
  obtain ⟨x, _, h⟩ := Hist.bind_eq_ok h
  obtain ⟨x1, x2⟩ := x
  obtain ⟨y, _, h⟩ := Hist.bind_eq_ok h
  obtain ⟨y1, y2⟩ := y
  simp only [] at h
  obtain ⟨w1, h1, h⟩ := Hist.bind_eq_ok h
  obtain ⟨i, rfl⟩ := phase2_shape _ _ _ h
  have : w1 = w := by
    unfold Swap.phase1 at h1
    rw [hst] at h1
    simp only [hm] at h1
    rw [if_neg (by omega)] at h1
    cases h1; rfl
  subst this
  exact ⟨rfl, rfl, hst⟩

theorem readsOf_append (r : Bool) (h1 h2 : List HEv) : readsOf r (h1 ++ h2) = readsOf (readsOf r h1) h2 := by
  unfold readsOf; rw [List.foldl_append]
theorem thermoOf_append (th : Bool) (h1 h2 : List HEv) : thermoOf th (h1 ++ h2) = thermoOf (thermoOf th h1) h2 := by
  unfold thermoOf; rw [List.foldl_append]

/-! ### the register-versus-latched-cycle witnesses (frames as the SDK packs them) -/

/-- power-on; GainSTM of 2 patterns to S0 WITHOUT transition (BEGIN frame, END frame), S0 being the playing segment;
ReadsFPGAState on; clock -/
def latchedA : List TEv :=
  [ .frame (frame1 1 (gainStmHead 1 0 254 0xFFFF 0xFFFF 0)), .frame (frame1 2 [65, 2]),
    .frame (frame1 3 [97, 1]), .tick 1000000 ]

/-- power-on; GainSTM of 2 patterns to S0 with an Immediate transition (division 40); ReadsFPGAState on; clock;
Gain to S0 WITHOUT transition; clock at 1 ms (pattern index 1 of the 2-pattern cycle) -/
def latchedB : List TEv :=
  [ .frame (frame1 1 (gainStmHead 1 0 255 40 0xFFFF 0)), .frame (frame1 2 [65, 2 ||| 4]),
    .frame (frame1 3 [97, 1]), .tick 500000, .frame (frame1 4 (gainP 0 0)), .tick 1000000 ]

/-- power-on; Modulation of 4 samples to S1, loop count 5, SysTime transition far in the future; ReadsFPGAState on;
clock -/
def pendingC : List TEv :=
  [ .frame (frame1 1 (modHead (1 ||| 2 ||| 4 ||| 8) 4 1 10 5 1000000000000 [1, 2, 3, 4])),
    .frame (frame1 2 [97, 1]), .tick 1000000 ]

/-- power-on; ReadsFPGAState on; clock; FirmwareVersion(type 1) — the query is aborted here; Clear; ReadsFPGAState
on; clock -/
def abortedQ : List TEv :=
  [ .frame (frame1 1 [97, 1]), .tick 1000, .frame (frame1 2 [3, 1]), .frame (frame1 3 [1]), .frame (frame1 4 [97, 1]),
    .tick 2000 ]

/-- `P` holds of the device after the trace `tr` from power-on (249 transducers, clock 0); false if anything panics -/
def afterTrace (tr : List TEv) (P : State → Prop) : Prop := fromM (Fw.new 249 0 >>= fun p => tr.foldlM runT p) P

instance (tr : List TEv) (P : State → Prop) [∀ s, Decidable (P s)] : Decidable (afterTrace tr P) := by
  unfold afterTrace; infer_instance

end Autd3.SB
