import Autd3.Lemmas.FwTraceGuard
/-!
C19 trace layer: the configuration handlers, `write_gain` and the four segment-swap handlers keep `Base`
(no `Settled` needed) and keep `Chain` under the `SetGuard` of the request they issue.
-/
set_option linter.unusedSimpArgs false
set_option linter.unusedVariables false
namespace Autd3.Fw
open Autd3.Gen.Cpu
open Autd3.Gen

/-! ### configuration handlers -/

/-- a configuration handler returns, keeps `Base` and leaves everything `Base`/`Chain` read alone -/
def CfgB (h : State → Array Nat → M (State × Nat)) : Prop :=
  ∀ s d, Base s → ∃ s' ack, h s d = .ok (s', ack) ∧ Base s' ∧ SameB s s'

theorem cfgb_forceFan : CfgB configureForceFan := by
  intro s d h
  unfold configureForceFan
  simp only []
  split
  · have c : SameB s { s with flagsInternal := s.flagsInternal ||| CTL_FLAG_FORCE_FAN } :=
      SameB.refl' rfl rfl rfl rfl
    refine ⟨_, _, rfl, h.transfer c (h.shape.transfer rfl rfl rfl rfl rfl rfl rfl rfl) ?_, c⟩
    simp [or_mod4, h.flags, CTL_FLAG_FORCE_FAN]
  · have c : SameB s { s with flagsInternal := s.flagsInternal &&& (65535 - CTL_FLAG_FORCE_FAN) } :=
      SameB.refl' rfl rfl rfl rfl
    refine ⟨_, _, rfl, h.transfer c (h.shape.transfer rfl rfl rfl rfl rfl rfl rfl rfl) ?_, c⟩
    simp [and_mod4, h.flags, CTL_FLAG_FORCE_FAN]

theorem cfgb_reads : CfgB configureReadsFpgaState := by
  intro s d h
  have c : SameB s { s with readsFpgaState := u8at d FwLayout.ReadsFPGAState_value_off ≠ 0 } :=
    SameB.refl' rfl rfl rfl rfl
  exact ⟨_, _, rfl, h.transfer c (h.shape.transfer rfl rfl rfl rfl rfl rfl rfl rfl) h.flags, c⟩

theorem cfgb_cpuGpioOut : CfgB cpuGpioOut := by
  intro s d h
  have c : SameB s { s with portA := u8at d FwLayout.CpuGPIOOut_pa_podr_off } := SameB.refl' rfl rfl rfl rfl
  exact ⟨_, _, rfl, h.transfer c (h.shape.transfer rfl rfl rfl rfl rfl rfl rfl rfl) h.flags, c⟩

theorem cfgb_gpioIn : CfgB emulateGpioIn := by
  intro s d h
  unfold emulateGpioIn
  simp only []
  generalize hfl : u8at d FwLayout.GPIOIn_flag_off = fl
  have step : ∀ (f : Nat) (on : Bool) (bit : Nat), f % 4 = 0 → bit % 4 = 0 →
      (if on = true then f ||| bit else f &&& (65535 - bit)) % 4 = 0 := by
    intro f on bit hf hb
    split
    · simp [or_mod4, hf, hb]
    · simp [and_mod4, hf]
  refine ⟨_, _, rfl, ?_, ?_⟩
  · refine h.transfer (SameB.refl' rfl rfl rfl rfl) (h.shape.transfer rfl rfl rfl rfl rfl rfl rfl rfl) ?_
    simp only
    exact step _ _ _ (step _ _ _ (step _ _ _ (step _ _ _ h.flags (by decide)) (by decide)) (by decide)) (by decide)
  · exact SameB.refl' rfl rfl rfl rfl

theorem cfgb_firmInfo : CfgB firmInfo := by
  intro s d h
  unfold firmInfo
  simp only []
  repeat' split
  all_goals
    exact ⟨_, _, rfl, h.transfer (SameB.refl' rfl rfl rfl rfl)
      (h.shape.transfer rfl rfl rfl rfl rfl rfl rfl rfl) h.flags, SameB.refl' rfl rfl rfl rfl⟩

theorem cfgb_pwe : CfgB configPwe := by
  intro s d h
  unfold configPwe
  obtain ⟨m, e, hm⟩ := pweWriteWords_ok s 0 (wordsAt d FwLayout.Pwe_size 256) h.shape (by simp [wordsAt_size])
  simp only [e, bind, Except.bind, pure, Except.pure]
  exact ⟨_, _, rfl, h.transfer (SameB.refl' rfl rfl rfl rfl)
      (h.shape.transfer rfl rfl (by simp [hm, h.shape.pwe]) rfl rfl rfl rfl rfl) h.flags,
    SameB.refl' rfl rfl rfl rfl⟩

theorem CtlOnly.sameB {lo hi : Nat} {s s' : State} (c : CtlOnly lo hi s s')
    (hr : ∀ a, a ∈ coreRegs → (a < lo ∨ hi ≤ a)) : SameB s s' := by
  refine ⟨fun a ha => c.other a (hr a ha), ?_, ?_, ?_⟩ <;> (rw [c.eq])

theorem cfgb_phaseCorr : CfgB phaseCorrOp := by
  intro s d h
  unfold phaseCorrOp
  have e0 : BRAM_CNT_SEL_PHASE_CORR <<< 8 = 256 := by decide
  rw [e0]
  obtain ⟨s', e, c, _⟩ := ctlWriteWords_pc s (wordsAt d FwLayout.PhaseCorr_size ((TRANS_NUM + 1) >>> 1))
    (by rw [wordsAt_size]; decide) h.shape.phaseCorr
  simp only [e, bind, Except.bind, pure, Except.pure]
  have sc := c.sameB (by intro a ha; right; exact Nat.zero_le _)
  exact ⟨_, _, rfl, h.transfer sc (c.shape h.shape) (by rw [c.flags]; exact h.flags), sc⟩

/-- `set_and_wait_update` with a non-swap flag -/
theorem setAndWaitUpdate_plain_step (s : State) (flag : Nat) (h : Base s) (hflag : flag % 4 = 0) :
    ∃ s', setAndWaitUpdate s flag = .ok s' ∧ Base s' ∧ SameB s s' := by
  rw [setAndWaitUpdate_plain s flag h.shape.ctl h.flags hflag]
  have sc : SameB s { s with ctl := s.ctl.setIfInBounds 0 (s.flagsInternal % 65536) } := by same_b_tac
  exact ⟨_, rfl, h.transfer sc (shape_setReg h.shape _ _) h.flags, sc⟩

theorem cfgb_synchronize : CfgB synchronize := by
  intro s d h
  unfold synchronize
  have c0 : SameB s { s with synchronized := true } := SameB.refl' rfl rfl rfl rfl
  have h0 : Base { s with synchronized := true } :=
    h.transfer c0 (h.shape.transfer rfl rfl rfl rfl rfl rfl rfl rfl) h.flags
  obtain ⟨s', e, w, c⟩ := setAndWaitUpdate_plain_step _ CTL_FLAG_SYNC_SET h0 (by decide)
  simp only [e, bind, Except.bind, pure, Except.pure]
  exact ⟨_, _, rfl, w, c0.trans c⟩

theorem cfgb_debug : CfgB configDebug := by
  intro s d h
  unfold configDebug
  obtain ⟨s1, e1, c1, _⟩ := ctlWriteWords_main s ADDR_DEBUG_VALUE0_0 (wordsAt d FwLayout.DebugOutIdx_value_off 16)
    (by rw [wordsAt_size]; decide)
  have sc1 := c1.sameB (by
    intro a ha
    simp only [coreRegs, List.mem_cons, List.mem_nil_iff, or_false] at ha
    left
    rcases ha with rfl | rfl | rfl | rfl | rfl | rfl | rfl | rfl | rfl | rfl | rfl | rfl | rfl | rfl | rfl <;> decide)
  have h1 : Base s1 := h.transfer sc1 (c1.shape h.shape) (by rw [c1.flags]; exact h.flags)
  obtain ⟨s', e, w, c⟩ := setAndWaitUpdate_plain_step s1 CTL_FLAG_DEBUG_SET h1 (by decide)
  simp only [e1, e, bind, Except.bind, pure, Except.pure]
  exact ⟨_, _, rfl, w, sc1.trans c⟩

theorem cfgb_silencer : CfgB configSilencer := by
  intro s d h
  unfold configSilencer
  simp only [ADDR_SILENCER_UPDATE_RATE_INTENSITY, ADDR_SILENCER_UPDATE_RATE_PHASE, ADDR_SILENCER_FLAG,
    ADDR_SILENCER_COMPLETION_STEPS_INTENSITY, ADDR_SILENCER_COMPLETION_STEPS_PHASE]
  simp only [ctlWrite_main _ _ _ (by decide : 65 < 256), ctlWrite_main _ _ _ (by decide : 66 < 256),
    ctlWrite_main _ _ _ (by decide : 64 < 256), ctlWrite_main _ _ _ (by decide : 67 < 256),
    ctlWrite_main _ _ _ (by decide : 68 < 256), bind, Except.bind, pure, Except.pure]
  split
  · generalize hX : State.mk _ _ _ _ _ _ _ _ _ _ _ _ _ _ _ _ _ _ _ _ _ _ _ _ _ _ _ _ _ _ _ _ _ _ _ _ _ _ _ = X
    have c0 : SameB s X := by subst hX; same_b_tac
    have h0 : Base X := h.transfer c0 (by subst hX; exact h.shape.transfer (by simp) rfl rfl rfl rfl rfl rfl rfl)
      (by subst hX; exact h.flags)
    obtain ⟨s', e, w, c⟩ := setAndWaitUpdate_plain_step X CTL_FLAG_SILENCER_SET h0 (by decide)
    simp only [e]
    exact ⟨_, _, rfl, w, c0.trans c⟩
  · split
    · exact ⟨_, _, rfl, h, SameB.refl' rfl rfl rfl rfl⟩
    · generalize hX : State.mk _ _ _ _ _ _ _ _ _ _ _ _ _ _ _ _ _ _ _ _ _ _ _ _ _ _ _ _ _ _ _ _ _ _ _ _ _ _ _ = X
      have c0 : SameB s X := by subst hX; same_b_tac
      have h0 : Base X := h.transfer c0 (by subst hX; exact h.shape.transfer (by simp) rfl rfl rfl rfl rfl rfl rfl)
        (by subst hX; exact h.flags)
      obtain ⟨s', e, w, c⟩ := setAndWaitUpdate_plain_step X CTL_FLAG_SILENCER_SET h0 (by decide)
      simp only [e]
      exact ⟨_, _, rfl, w, c0.trans c⟩

/-- every configuration tag and every unknown tag -/
theorem payload_cfg_step (s : State) (d : Array Nat) (hc : IsCfg d) (h : Base s) :
    ∃ s' ack, handlePayload s d = .ok (s', ack) ∧ Base s' ∧ SameB s s' := by
  unfold IsCfg at hc
  simp only [List.mem_cons, List.mem_nil_iff, or_false, not_or] at hc
  by_cases h2 : u8at d 0 = 2
  · rw [hp_sync s d h2]; exact cfgb_synchronize s d h
  by_cases h3 : u8at d 0 = 3
  · rw [hp_firm s d h3]; exact cfgb_firmInfo s d h
  by_cases h33 : u8at d 0 = 33
  · rw [hp_silencer s d h33]; exact cfgb_silencer s d h
  by_cases h96 : u8at d 0 = 96
  · rw [hp_fan s d h96]; exact cfgb_forceFan s d h
  by_cases h97 : u8at d 0 = 97
  · rw [hp_reads s d h97]; exact cfgb_reads s d h
  by_cases h114 : u8at d 0 = 114
  · rw [hp_pwe s d h114]; exact cfgb_pwe s d h
  by_cases h240 : u8at d 0 = 240
  · rw [hp_debug s d h240]; exact cfgb_debug s d h
  by_cases h241 : u8at d 0 = 241
  · rw [hp_gpioIn s d h241]; exact cfgb_gpioIn s d h
  by_cases h242 : u8at d 0 = 242
  · rw [hp_gpioOut s d h242]; exact cfgb_cpuGpioOut s d h
  by_cases h128 : u8at d 0 = 128
  · rw [hp_phaseCorr s d h128]; exact cfgb_phaseCorr s d h
  rw [hp_unknown s d (by simp only [List.mem_cons, List.mem_nil_iff, or_false, not_or]; omega)]
  exact ⟨_, _, rfl, h, SameB.refl' rfl rfl rfl rfl⟩

/-! ### the four segment swaps -/

/-- alphabet condition of the three mode-carrying swaps -/
structure SwapOK (seg mode value : Nat) : Prop where
  seg : seg ≤ 1
  mode : ModeOK mode value

instance (seg mode value : Nat) : Decidable (SwapOK seg mode value) :=
  decidable_of_iff (seg ≤ 1 ∧ ModeOK mode value) ⟨fun h => ⟨h.1, h.2⟩, fun h => ⟨h.seg, h.mode⟩⟩

theorem rd_plus_seg (c : Array Nat) (a seg : Nat) : rd c (a + seg) = rd c (a + seg) := rfl

theorem changeModSegment_step (s : State) (d : Array Nat) (hB : Base s)
    (hok : SwapOK (u8at d FwLayout.ModulationUpdate_segment_off) (u8at d FwLayout.ModulationUpdate_transition_mode_off)
      (u64at d FwLayout.ModulationUpdate_transition_value_off)) :
    ∃ s' ack, changeModSegment s d = .ok (s', ack) ∧ Base s' ∧
      (Chain s → SetGuard s.modSwap (u8at d FwLayout.ModulationUpdate_segment_off)
        (rd s.ctl (39 + u8at d FwLayout.ModulationUpdate_segment_off))
        (u8at d FwLayout.ModulationUpdate_transition_mode_off) → Chain s') := by
  obtain ⟨hseg, hm⟩ := hok
  unfold changeModSegment
  generalize u8at d FwLayout.ModulationUpdate_segment_off = seg at hseg ⊢
  simp only []
  rw [if_neg (by omega)]
  split
  · exact ⟨_, _, rfl, hB, fun hc _ => hc⟩
  split
  · exact ⟨_, _, rfl, hB, fun hc _ => hc⟩
  try simp only [bind, Except.bind, pure, Except.pure]
  have c0 : SameB s { s with modSegment := seg } := SameB.refl' rfl rfl rfl rfl
  have h0 : Base { s with modSegment := seg } :=
    hB.transfer c0 (hB.shape.transfer rfl rfl rfl rfl rfl rfl rfl rfl) hB.flags
  obtain ⟨s', ack, e, b', c'⟩ := modSegmentUpdate_step _ seg _ _ h0 hseg hm
  exact ⟨s', ack, e, b', fun hc g => c' (hc.transfer c0) g⟩

theorem changeFociStmSegment_step (s : State) (d : Array Nat) (hB : Base s)
    (hok : SwapOK (u8at d FwLayout.FociSTMUpdate_segment_off) (u8at d FwLayout.FociSTMUpdate_transition_mode_off)
      (u64at d FwLayout.FociSTMUpdate_transition_value_off)) :
    ∃ s' ack, changeFociStmSegment s d = .ok (s', ack) ∧ Base s' ∧
      (Chain s → SetGuard s.stmSwap (u8at d FwLayout.FociSTMUpdate_segment_off)
        (rd s.ctl (87 + u8at d FwLayout.FociSTMUpdate_segment_off))
        (u8at d FwLayout.FociSTMUpdate_transition_mode_off) → Chain s') := by
  obtain ⟨hseg, hm⟩ := hok
  unfold changeFociStmSegment
  generalize u8at d FwLayout.FociSTMUpdate_segment_off = seg at hseg ⊢
  simp only []
  rw [if_neg (by omega)]
  split
  · exact ⟨_, _, rfl, hB, fun hc _ => hc⟩
  split
  · exact ⟨_, _, rfl, hB, fun hc _ => hc⟩
  split
  · exact ⟨_, _, rfl, hB, fun hc _ => hc⟩
  try simp only [bind, Except.bind, pure, Except.pure]
  have c0 : SameB s { s with stmSegment := seg } := SameB.refl' rfl rfl rfl rfl
  have h0 : Base { s with stmSegment := seg } :=
    hB.transfer c0 (hB.shape.transfer rfl rfl rfl rfl rfl rfl rfl rfl) hB.flags
  obtain ⟨s', ack, e, b', c'⟩ := stmSegmentUpdate_step _ seg _ _ h0 hseg hm
  exact ⟨s', ack, e, b', fun hc g => c' (hc.transfer c0) g⟩

theorem changeGainStmSegment_step (s : State) (d : Array Nat) (hB : Base s)
    (hok : SwapOK (u8at d FwLayout.GainSTMUpdate_segment_off) (u8at d FwLayout.GainSTMUpdate_transition_mode_off)
      (u64at d FwLayout.GainSTMUpdate_transition_value_off)) :
    ∃ s' ack, changeGainStmSegment s d = .ok (s', ack) ∧ Base s' ∧
      (Chain s → SetGuard s.stmSwap (u8at d FwLayout.GainSTMUpdate_segment_off)
        (rd s.ctl (87 + u8at d FwLayout.GainSTMUpdate_segment_off))
        (u8at d FwLayout.GainSTMUpdate_transition_mode_off) → Chain s') := by
  obtain ⟨hseg, hm⟩ := hok
  unfold changeGainStmSegment
  generalize u8at d FwLayout.GainSTMUpdate_segment_off = seg at hseg ⊢
  simp only []
  rw [if_neg (by omega)]
  split
  · exact ⟨_, _, rfl, hB, fun hc _ => hc⟩
  split
  · exact ⟨_, _, rfl, hB, fun hc _ => hc⟩
  split
  · exact ⟨_, _, rfl, hB, fun hc _ => hc⟩
  try simp only [bind, Except.bind, pure, Except.pure]
  have c0 : SameB s { s with stmSegment := seg } := SameB.refl' rfl rfl rfl rfl
  have h0 : Base { s with stmSegment := seg } :=
    hB.transfer c0 (hB.shape.transfer rfl rfl rfl rfl rfl rfl rfl rfl) hB.flags
  obtain ⟨s', ack, e, b', c'⟩ := stmSegmentUpdate_step _ seg _ _ h0 hseg hm
  exact ⟨s', ack, e, b', fun hc g => c' (hc.transfer c0) g⟩

/-- the request issued by `write_gain` / `change_gain_segment`: `REQ_RD_SEGMENT := seg`, mode `SyncIdx`
(continuation-passing form, for rewriting inside a handler) -/
theorem gain_request_step (s : State) (seg : Nat) (h : Base s) (hseg : seg ≤ 1) :
    ∃ s', Base s' ∧ (Chain s → SetGuard s.stmSwap seg (rd s.ctl (87 + seg)) TRANSITION_MODE_SYNC_IDX → Chain s') ∧
      ∀ (k : State → M (State × Nat)), (do
        let s ← ctlWrite s ADDR_STM_REQ_RD_SEGMENT seg
        let s ← ctlWrite s ADDR_STM_TRANSITION_MODE TRANSITION_MODE_SYNC_IDX
        let s ← setAndWaitUpdate s CTL_FLAG_STM_SET
        k s) = k s' := by
  have hsz := h.shape.ctl
  simp only [ADDR_STM_REQ_RD_SEGMENT, ADDR_STM_TRANSITION_MODE, TRANSITION_MODE_SYNC_IDX,
    ctlWrite_main _ _ _ (by decide : 82 < 256), ctlWrite_main _ _ _ (by decide : 95 < 256), ok_bind]
  generalize hX : State.mk _ _ _ _ _ _ _ _ _ _ _ _ _ _ _ _ _ _ _ _ _ _ _ _ _ _ _ _ _ _ _ _ _ _ _ _ _ _ _ = X
  have c0 : SameB s X := by subst hX; same_b_tac
  have h0 : Base X := h.transfer c0 (by subst hX; exact h.shape.transfer (by simp) rfl rfl rfl rfl rfl rfl rfl)
    (by subst hX; exact h.flags)
  have hrep : rd X.ctl (87 + seg) = rd s.ctl (87 + seg) := by
    have : seg = 0 ∨ seg = 1 := by omega
    subst hX
    rcases this with rfl | rfl <;> simp [rd_set]
  have hswap : X.stmSwap = s.stmSwap := by subst hX; rfl
  obtain ⟨s', e, b', c'⟩ := stm_request_step X h0 seg 0 .syncIdx
    (by subst hX; simp [rd_set, hsz]; omega) hseg
    (by subst hX; simp [rd_set, hsz, decode_syncIdx])
    (by intro hw; cases hw)
  refine ⟨s', b', fun hc g => c' (hc.transfer c0) (by rw [hswap, hrep]; exact g), fun k => ?_⟩
  rw [e, ok_bind]

theorem changeGainSegment_step (s : State) (d : Array Nat) (hB : Base s)
    (hseg : u8at d FwLayout.GainUpdate_segment_off ≤ 1) :
    ∃ s' ack, changeGainSegment s d = .ok (s', ack) ∧ Base s' ∧
      (Chain s → SetGuard s.stmSwap (u8at d FwLayout.GainUpdate_segment_off)
        (rd s.ctl (87 + u8at d FwLayout.GainUpdate_segment_off)) TRANSITION_MODE_SYNC_IDX → Chain s') := by
  unfold changeGainSegment
  generalize u8at d FwLayout.GainUpdate_segment_off = seg at hseg ⊢
  simp only []
  rw [if_neg (by omega)]
  split
  · exact ⟨_, _, rfl, hB, fun hc _ => hc⟩
  split
  · exact ⟨_, _, rfl, hB, fun hc _ => hc⟩
  have c0 : SameB s { s with stmSegment := seg } := SameB.refl' rfl rfl rfl rfl
  have h0 : Base { s with stmSegment := seg } :=
    hB.transfer c0 (hB.shape.transfer rfl rfl rfl rfl rfl rfl rfl rfl) hB.flags
  obtain ⟨s', b', c', e⟩ := gain_request_step { s with stmSegment := seg } seg h0 hseg
  have := e (fun s => pure (s, NO_ERR))
  refine ⟨s', NO_ERR, ?_, b', fun hc g => c' (hc.transfer c0) g⟩
  exact this

/-! ### `write_gain` -/

set_option maxRecDepth 2000 in
theorem writeGain_step (s : State) (d : Array Nat) (hB : Base s) (hok : GainOK d) :
    ∃ s' ack, writeGain s d = .ok (s', ack) ∧ Base s' ∧ (Chain s → GainExcl s d → Chain s') := by
  obtain ⟨hseg⟩ := hok
  unfold writeGain
  have hex : ∀ (hc : GainExcl s d), hasFlag (u8at d FwLayout.Gain_flag_off) GAIN_FLAG_UPDATE = true →
      SetGuard s.stmSwap (u8at d FwLayout.Gain_segment_off) 0xFFFF TRANSITION_MODE_SYNC_IDX := fun hc => hc.set
  revert hex
  generalize GainExcl s d = EX
  generalize u8at d FwLayout.Gain_segment_off = seg at hseg ⊢
  generalize u8at d FwLayout.Gain_flag_off = flag
  intro hex
  have hsz := hB.shape.ctl
  have hnt := hB.shape.numTr
  have n1 := hB.nfr0
  have n2 := hB.nfr1
  simp only []
  rw [if_neg (by omega)]
  have hs : seg = 0 ∨ seg = 1 := by omega
  rcases hs with rfl | rfl
  · simp only [ADDR_STM_FREQ_DIV0, ADDR_STM_REP0, ADDR_STM_CYCLE0, ADDR_STM_MODE0, ADDR_STM_MEM_WR_SEGMENT,
      ADDR_STM_MEM_WR_PAGE, Nat.add_zero, Nat.reduceAdd,
      ctlWrite_main _ _ _ (by decide : 85 < 256), ctlWrite_main _ _ _ (by decide : 87 < 256),
      ctlWrite_main _ _ _ (by decide : 83 < 256), ctlWrite_main _ _ _ (by decide : 89 < 256),
      ctlWrite_main _ _ _ (by decide : 86 < 256), ctlWrite_main _ _ _ (by decide : 88 < 256),
      ctlWrite_main _ _ _ (by decide : 84 < 256), ctlWrite_main _ _ _ (by decide : 90 < 256),
      ctlWrite_main _ _ _ (by decide : 80 < 256), ctlWrite_main _ _ _ (by decide : 81 < 256),
      ok_bind, pure_eq_ok]
    cases hu : hasFlag flag GAIN_FLAG_UPDATE
    · simp only [Bool.false_eq_true, if_false]
      generalize hX : State.mk _ _ _ _ _ _ _ _ _ _ _ _ _ _ _ _ _ _ _ _ _ _ _ _ _ _ _ _ _ _ _ _ _ _ _ _ _ _ _ = X
      have h0 : Base X := by subst hX; base_tac hB with STM_MODE_GAIN
      have hC : Chain s → Chain X := by
        intro hc
        have f0 := hc.fcs0; have f1 := hc.fcs1; have g0 := hc.fcr0; have g1 := hc.fcr1
        subst hX
        refine ⟨hc.modSwap, hc.stmSwap, ?_, ?_, ?_, ?_⟩ <;> simp [rd_set, hsz] <;> omega
      obtain ⟨Z, e, bZ, _, cZ, _⟩ := stmWriteWords_step X 0 (wordsAt d FwLayout.Gain_size s.numTr) h0
        (by subst hX; simp [rd_set, hsz])
        (by rw [wordsAt_size]; omega)
        (by subst hX; simp [rd_set, hsz, wordsAt_size]; omega)
      rw [e, ok_bind]
      exact ⟨_, _, rfl, bZ, fun hc _ => cZ (hC hc)⟩
    · simp only [if_true]
      generalize hX : State.mk _ _ _ _ _ _ _ _ _ _ _ _ _ _ _ _ _ _ _ _ _ _ _ _ _ _ _ _ _ _ _ _ _ _ _ _ _ _ _ = X
      have h0 : Base X := by subst hX; base_tac hB with STM_MODE_GAIN
      have hC : Chain s → Chain X := by
        intro hc
        have f0 := hc.fcs0; have f1 := hc.fcs1; have g0 := hc.fcr0; have g1 := hc.fcr1
        subst hX
        refine ⟨hc.modSwap, hc.stmSwap, ?_, ?_, ?_, ?_⟩ <;> simp [rd_set, hsz] <;> omega
      have hXswap : X.stmSwap = s.stmSwap := by subst hX; rfl
      obtain ⟨Z, e, bZ, sZ, cZ, hZ⟩ := stmWriteWords_step X 0 (wordsAt d FwLayout.Gain_size s.numTr) h0
        (by subst hX; simp [rd_set, hsz])
        (by rw [wordsAt_size]; omega)
        (by subst hX; simp [rd_set, hsz, wordsAt_size]; omega)
      rw [e, ok_bind]
      have hZctl : Z.ctl = X.ctl := by rw [hZ]
      obtain ⟨s', b', c', e2⟩ := gain_request_step Z 0 bZ (by omega)
      rw [e2]
      refine ⟨_, _, rfl, b', fun hc ex => c' (cZ (hC hc)) ?_⟩
      have hr : rd Z.ctl (87 + 0) = 0xFFFF := by
        rw [hZctl]; subst hX; simp [rd_set, hsz]
      rw [sZ.stmSwap, hXswap, hr]
      exact hex ex hu
  · simp only [ADDR_STM_FREQ_DIV0, ADDR_STM_REP0, ADDR_STM_CYCLE0, ADDR_STM_MODE0, ADDR_STM_MEM_WR_SEGMENT,
      ADDR_STM_MEM_WR_PAGE, Nat.add_zero, Nat.reduceAdd,
      ctlWrite_main _ _ _ (by decide : 85 < 256), ctlWrite_main _ _ _ (by decide : 87 < 256),
      ctlWrite_main _ _ _ (by decide : 83 < 256), ctlWrite_main _ _ _ (by decide : 89 < 256),
      ctlWrite_main _ _ _ (by decide : 86 < 256), ctlWrite_main _ _ _ (by decide : 88 < 256),
      ctlWrite_main _ _ _ (by decide : 84 < 256), ctlWrite_main _ _ _ (by decide : 90 < 256),
      ctlWrite_main _ _ _ (by decide : 80 < 256), ctlWrite_main _ _ _ (by decide : 81 < 256),
      ok_bind, pure_eq_ok]
    cases hu : hasFlag flag GAIN_FLAG_UPDATE
    · simp only [Bool.false_eq_true, if_false]
      generalize hX : State.mk _ _ _ _ _ _ _ _ _ _ _ _ _ _ _ _ _ _ _ _ _ _ _ _ _ _ _ _ _ _ _ _ _ _ _ _ _ _ _ = X
      have h0 : Base X := by subst hX; base_tac hB with STM_MODE_GAIN
      have hC : Chain s → Chain X := by
        intro hc
        have f0 := hc.fcs0; have f1 := hc.fcs1; have g0 := hc.fcr0; have g1 := hc.fcr1
        subst hX
        refine ⟨hc.modSwap, hc.stmSwap, ?_, ?_, ?_, ?_⟩ <;> simp [rd_set, hsz] <;> omega
      obtain ⟨Z, e, bZ, _, cZ, _⟩ := stmWriteWords_step X 0 (wordsAt d FwLayout.Gain_size s.numTr) h0
        (by subst hX; simp [rd_set, hsz])
        (by rw [wordsAt_size]; omega)
        (by subst hX; simp [rd_set, hsz, wordsAt_size]; omega)
      rw [e, ok_bind]
      exact ⟨_, _, rfl, bZ, fun hc _ => cZ (hC hc)⟩
    · simp only [if_true]
      generalize hX : State.mk _ _ _ _ _ _ _ _ _ _ _ _ _ _ _ _ _ _ _ _ _ _ _ _ _ _ _ _ _ _ _ _ _ _ _ _ _ _ _ = X
      have h0 : Base X := by subst hX; base_tac hB with STM_MODE_GAIN
      have hC : Chain s → Chain X := by
        intro hc
        have f0 := hc.fcs0; have f1 := hc.fcs1; have g0 := hc.fcr0; have g1 := hc.fcr1
        subst hX
        refine ⟨hc.modSwap, hc.stmSwap, ?_, ?_, ?_, ?_⟩ <;> simp [rd_set, hsz] <;> omega
      have hXswap : X.stmSwap = s.stmSwap := by subst hX; rfl
      obtain ⟨Z, e, bZ, sZ, cZ, hZ⟩ := stmWriteWords_step X 0 (wordsAt d FwLayout.Gain_size s.numTr) h0
        (by subst hX; simp [rd_set, hsz])
        (by rw [wordsAt_size]; omega)
        (by subst hX; simp [rd_set, hsz, wordsAt_size]; omega)
      rw [e, ok_bind]
      have hZctl : Z.ctl = X.ctl := by rw [hZ]
      obtain ⟨s', b', c', e2⟩ := gain_request_step Z 1 bZ (by omega)
      rw [e2]
      refine ⟨_, _, rfl, b', fun hc ex => c' (cZ (hC hc)) ?_⟩
      have hr : rd Z.ctl (87 + 1) = 0xFFFF := by
        rw [hZctl]; subst hX; simp [rd_set, hsz]
      rw [sZ.stmSwap, hXswap, hr]
      exact hex ex hu

end Autd3.Fw
