import Autd3.Lemmas.SilGuardPrims
/-!
# C08: the inductive invariant of the silencer guard and its preservation by every handler
-/
set_option linter.unusedSimpArgs false
namespace Autd3.SilGuard
open Autd3.Fw Autd3.Gen Autd3.Gen.Cpu

/-- silencer is in fixed-completion-steps mode (the FPGA's view: flag register) -/
def fixedSteps (s : State) : Prop :=
  hasFlag (reg s ADDR_SILENCER_FLAG) SILENCER_FLAG_FIXED_UPDATE_RATE_MODE = false

/-- strict bit of the FPGA's silencer flag register -/
def strictBit (s : State) : Bool := hasFlag (reg s ADDR_SILENCER_FLAG) SILENCER_FLAG_STRICT_MODE

/-- **Core invariant**: (CPU belief = FPGA request) ∧ (CPU guard copy = FPGA registers) ∧ (guard holds
for the believed segments).  `wf` is the only well-formedness needed: the controller BRAM has its 256
registers (array sizes never change).

`strictOf` is an implication, not an equivalence: `clear` (hence `CPUEmulator::new`) sets the CPU's
`silencer_strict_mode = true` while writing 0 to `ADDR_SILENCER_FLAG`, so the CPU can be strict with the
register's strict bit clear; only `config_silencer` in fixed-completion-steps mode makes them equal.
The guard clause is stated for the CPU copy (the stronger fact) and holds in update-rate mode too. -/
structure Core (s : State) : Prop where
  wf : s.ctl.size = 256
  stmSegLe : s.stmSegment ≤ 1
  modSegLe : s.modSegment ≤ 1
  stmBelief : s.stmSegment = reg s ADDR_STM_REQ_RD_SEGMENT
  modBelief : s.modSegment = reg s ADDR_MOD_REQ_RD_SEGMENT
  stmDiv0 : s.stmDiv.1 = reg s ADDR_STM_FREQ_DIV0
  stmDiv1 : s.stmDiv.2 = reg s ADDR_STM_FREQ_DIV1
  modDiv0 : s.modDiv.1 = reg s ADDR_MOD_FREQ_DIV0
  modDiv1 : s.modDiv.2 = reg s ADDR_MOD_FREQ_DIV1
  stepsI : s.minDivI = reg s ADDR_SILENCER_COMPLETION_STEPS_INTENSITY
  stepsP : s.minDivP = reg s ADDR_SILENCER_COMPLETION_STEPS_PHASE
  stepsILt : s.minDivI < 65536
  stepsPLt : s.minDivP < 65536
  strictOf : fixedSteps s → strictBit s = true → s.strict = true
  guard : s.strict = true →
    s.minDivI ≤ sel s.modDiv s.modSegment ∧ s.minDivI ≤ sel s.stmDiv s.stmSegment ∧
      s.minDivP ≤ sel s.stmDiv s.stmSegment

/-- a segment that the CPU regards as holding a plain `Gain` (mode GAIN, one pattern) has the
slowest sampling division.  Before the repair of `change_gain_segment` (which used not to call
`validate_silencer_settings`) this clause was what made a `GainSwapSegment` harmless; since the repair
`Core` alone is inductive (`run_core`) and this clause is kept only as an additional true fact about
histories of complete frames. -/
def GainOkAt (s : State) (seg : Nat) : Prop :=
  sel s.stmMode seg = STM_MODE_GAIN → sel s.stmCycle seg = 1 → sel s.stmDiv seg = 0xFFFF

def GainOk (s : State) : Prop := GainOkAt s 0 ∧ GainOkAt s 1

/-- the full inductive invariant -/
structure Inv (s : State) : Prop where
  core : Core s
  gainOk : GainOk s


/-! ### the part of the state the invariant reads (`View`) -/

structure View where
  ctlSize : Nat
  stmSegment : Nat
  modSegment : Nat
  stmDiv : Nat × Nat
  modDiv : Nat × Nat
  strict : Bool
  minDivI : Nat
  minDivP : Nat
  stmMode : Nat × Nat
  stmCycle : Nat × Nat
  rStmReq : Nat
  rModReq : Nat
  rStmDiv0 : Nat
  rStmDiv1 : Nat
  rModDiv0 : Nat
  rModDiv1 : Nat
  rSilFlag : Nat
  rCsi : Nat
  rCsp : Nat

def view (s : State) : View :=
  { ctlSize := s.ctl.size, stmSegment := s.stmSegment, modSegment := s.modSegment, stmDiv := s.stmDiv,
    modDiv := s.modDiv, strict := s.strict, minDivI := s.minDivI, minDivP := s.minDivP,
    stmMode := s.stmMode, stmCycle := s.stmCycle,
    rStmReq := rd s.ctl 82, rModReq := rd s.ctl 34, rStmDiv0 := rd s.ctl 85, rStmDiv1 := rd s.ctl 86,
    rModDiv0 := rd s.ctl 37, rModDiv1 := rd s.ctl 38, rSilFlag := rd s.ctl 64, rCsi := rd s.ctl 67,
    rCsp := rd s.ctl 68 }

def CoreV (v : View) : Prop :=
  v.ctlSize = 256 ∧ v.stmSegment ≤ 1 ∧ v.modSegment ≤ 1 ∧ v.stmSegment = v.rStmReq ∧ v.modSegment = v.rModReq ∧
  v.stmDiv.1 = v.rStmDiv0 ∧ v.stmDiv.2 = v.rStmDiv1 ∧ v.modDiv.1 = v.rModDiv0 ∧ v.modDiv.2 = v.rModDiv1 ∧
  v.minDivI = v.rCsi ∧ v.minDivP = v.rCsp ∧ v.minDivI < 65536 ∧ v.minDivP < 65536 ∧
  (hasFlag v.rSilFlag 1 = false → hasFlag v.rSilFlag 4 = true → v.strict = true) ∧
  (v.strict = true → v.minDivI ≤ sel v.modDiv v.modSegment ∧ v.minDivI ≤ sel v.stmDiv v.stmSegment ∧
      v.minDivP ≤ sel v.stmDiv v.stmSegment)

def GainOkV (v : View) : Prop :=
  (v.stmMode.1 = 1 → v.stmCycle.1 = 1 → v.stmDiv.1 = 0xFFFF) ∧
  (v.stmMode.2 = 1 → v.stmCycle.2 = 1 → v.stmDiv.2 = 0xFFFF)

theorem Core_iff_view (s : State) : Core s ↔ CoreV (view s) := by
  constructor
  · intro h
    exact ⟨h.wf, h.stmSegLe, h.modSegLe, h.stmBelief, h.modBelief, h.stmDiv0, h.stmDiv1, h.modDiv0, h.modDiv1,
      h.stepsI, h.stepsP, h.stepsILt, h.stepsPLt, h.strictOf, h.guard⟩
  · rintro ⟨h1, h2, h3, h4, h5, h6, h7, h8, h9, h10, h11, h12, h13, h14, h15⟩
    exact ⟨h1, h2, h3, h4, h5, h6, h7, h8, h9, h10, h11, h12, h13, h14, h15⟩

theorem GainOk_iff_view (s : State) : GainOk s ↔ GainOkV (view s) := Iff.rfl

/-! ### small facts used by every handler proof -/

theorem u8at_lt (d : Array Nat) (i : Nat) : u8at d i < 256 := by unfold u8at; omega
theorem u16at_lt (d : Array Nat) (i : Nat) : u16at d i < 65536 := by
  unfold u16at; have := u8at_lt d i; have := u8at_lt d (i+1); omega
theorem u8at_mod (d : Array Nat) (i : Nat) : u8at d i % 65536 = u8at d i := by
  have := u8at_lt d i; omega
theorem u16at_mod (d : Array Nat) (i : Nat) : u16at d i % 65536 = u16at d i := by
  have := u16at_lt d i; omega

theorem rd_sawCtl' (c : Array Nat) (fi f : Nat) (j : Nat) (hj : 0 < j) : rd (sawCtl c fi f) j = rd c j :=
  rd_sawCtl c fi f j (by omega)

/-- `validate_silencer_settings` accepts iff strict mode is off or both divisions respect the steps -/
theorem validate_false (s : State) (a b : Nat) :
    (validateSilencerSettings s a b = false) ↔
      (s.strict = true → s.minDivI ≤ b ∧ s.minDivI ≤ a ∧ s.minDivP ≤ a) := by
  unfold validateSilencerSettings
  cases s.strict <;> simp <;> omega

/-- symbolic execution of a handler body: structural `Post` rules, primitive rules, register addresses -/
macro "fw_exec" : tactic => `(tactic|
  simp (config := {zetaDelta := true}) only [Post_bind, Post_ite, Post_pure, Post_ok, Post_error, Post_true,
    Post_setAndWaitUpdate, Post_stmWriteWords, Post_modWriteWords, Post_pweWriteWords, Post_ctlWriteWords,
    Post_ctlWrite_main,
    ADDR_CTL_FLAG, ADDR_MOD_MEM_WR_SEGMENT, ADDR_MOD_MEM_WR_PAGE, ADDR_MOD_REQ_RD_SEGMENT, ADDR_MOD_CYCLE0,
    ADDR_MOD_CYCLE1, ADDR_MOD_FREQ_DIV0, ADDR_MOD_FREQ_DIV1, ADDR_MOD_REP0, ADDR_MOD_REP1,
    ADDR_MOD_TRANSITION_MODE, ADDR_MOD_TRANSITION_VALUE_0, ADDR_SILENCER_FLAG,
    ADDR_SILENCER_UPDATE_RATE_INTENSITY, ADDR_SILENCER_UPDATE_RATE_PHASE,
    ADDR_SILENCER_COMPLETION_STEPS_INTENSITY, ADDR_SILENCER_COMPLETION_STEPS_PHASE,
    ADDR_STM_MEM_WR_SEGMENT, ADDR_STM_MEM_WR_PAGE, ADDR_STM_REQ_RD_SEGMENT, ADDR_STM_CYCLE0, ADDR_STM_CYCLE1,
    ADDR_STM_FREQ_DIV0, ADDR_STM_FREQ_DIV1, ADDR_STM_REP0, ADDR_STM_REP1, ADDR_STM_MODE0, ADDR_STM_MODE1,
    ADDR_STM_SOUND_SPEED0, ADDR_STM_SOUND_SPEED1, ADDR_STM_NUM_FOCI0, ADDR_STM_NUM_FOCI1,
    ADDR_STM_TRANSITION_MODE, ADDR_STM_TRANSITION_VALUE_0, ADDR_DEBUG_VALUE0_0,
    Nat.reduceLT, Nat.reduceAdd, Nat.add_zero])

/-- reduce `view` of an explicit state to a record of small terms -/
macro "fw_view" hs:term : tactic => `(tactic|
  simp [view, rd_set, rd_sawCtl', rd_cwwCtl_u64, rd_cwwCtl_lit4, rd_cwwCtl_wordsAt, rd_cwwCtl_replicate,
    setSel, sel, sawCtl_size, cwwCtl_size, Array.size_setIfInBounds, $hs:term,
    validate_false, u8at_mod, u16at_mod, u64Words_size, wordsAt_size,
    TRANSITION_MODE_NONE, STM_MODE_GAIN, STM_MODE_FOCUS])


/-- split a goal made of nested implications / conjunctions into its leaves, dropping the
`okP` side hypotheses produced by the symbolic execution -/
macro "fw_leaves" : tactic => `(tactic|
  repeat' (first | (with_reducible intro hx; first | (have hy : okP _ := hx; clear hy hx) | (have hy : (_ : M State) = Except.ok _ := hx; clear hy hx) | skip) | (with_reducible apply And.intro)))


/-- the conclusion every handler lemma proves about the result state `s'` of a step from `s` -/
def StepV (v v' : View) (G : Prop) : Prop := CoreV v' ∧ (GainOkV v → G → GainOkV v')

/-- close the leaves: unfold the view-level invariant and let `grind` do the propositional/linear part -/
macro "fw_finish" h:ident : tactic => `(tactic|
  (fw_leaves
   all_goals (simp only [StepV, CoreV, GainOkV, sel, setSel] at $h:ident ⊢)
   all_goals grind))

end Autd3.SilGuard
