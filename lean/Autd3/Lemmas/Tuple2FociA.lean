import Autd3.Lemmas.Tuple2Proto
/-!
General tuples, FociSTM instance, part A: the driver side at an arbitrary payload offset `k` —
`FociSTM::pack` of the first and of the following frames into `payload[k..]`, what `u8at/u16at/u64at`
read from `payload[k..]`, and the transfer of those reads to any buffer that agrees on the packed bytes.
-/
set_option linter.unusedSimpArgs false
open Autd3 Autd3.Fw Autd3.Wire Autd3.Gen.Cpu Autd3.Gen Autd3.Rt
namespace Autd3.Tuple2

/-- the first FociSTM frame packed at offset `k` -/
def fociFirstPayloadAt (b records : Array Nat) (k n sn flag seg tm div rep tv ss : Nat) : Array Nat :=
  put64 (put16 (put16 (put16 (put8 (put8 (put8 (put8 (put8 (put8 (putZeros (fociData b records (k + 24) 0 (sn * n)) k 24)
    (k + 0) Drv.TAG_FociSTM) (k + 1) flag) (k + 2) sn) (k + 3) seg) (k + 4) tm) (k + 5) n) (k + 6) ss) (k + 8) div)
    (k + 10) rep) (k + 16) tv

/-- a following FociSTM frame packed at offset `k` -/
def fociNextPayloadAt (b records : Array Nat) (k n c sn flag seg : Nat) : Array Nat :=
  put8 (put8 (put8 (put8 (fociData b records (k + 4) (c * n) (sn * n)) (k + 0) Drv.TAG_FociSTM) (k + 1) flag) (k + 2) sn)
    (k + 3) seg

theorem pack_foci_first_at (n seg : Nat) (tr : Tr) (rep div ss : Nat) (records : Array Nat) (P nt : Nat) (b : Array Nat)
    (k : Nat) (hb : b.size = 622) (hk : k + 24 ≤ 622) (hn : 1 ≤ n ∧ n ≤ 8) (hP : records.size = P * n)
    (ht : 2 ≤ P * n ∧ P * n ≤ 65536) :
    ({ dg := .fociStm n seg tr rep div ss records, sent := 0, done := false } : Op).pack nt b k =
      .ok ({ dg := .fociStm n seg tr rep div ss records, sent := min P ((598 - k) / (8 * n)),
             done := decide (P = min P ((598 - k) / (8 * n))) },
        fociFirstPayloadAt b records k n (min P ((598 - k) / (8 * n)))
          (fociFlagByte true (decide (P = min P ((598 - k) / (8 * n)))) tr.isSome) seg (trMode tr) div rep (trValue tr) ss,
        24 + 8 * min P ((598 - k) / (8 * n)) * n) := by
  unfold Op.pack fociFirstPayloadAt fociData
  have hn0 : ¬ (n = 0 ∨ n > Drv.FOCI_STM_FOCI_NUM_MAX) := by simp only [Drv.FOCI_STM_FOCI_NUM_MAX]; omega
  have hsz : records.size / n = P := by rw [hP]; exact Nat.mul_div_cancel _ (by omega)
  have ht0 : ¬ (P * n < Drv.STM_BUF_SIZE_MIN ∨ P * n > Drv.FOCI_STM_BUF_SIZE_MAX) := by
    simp only [Drv.STM_BUF_SIZE_MIN, Drv.FOCI_STM_BUF_SIZE_MAX]; omega
  have h1 : 622 - k - 24 = 598 - k := by omega
  simp only [hn0, if_false, hsz, ht0, hb, DrvLayout.FociSTMHead_size, Nat.sub_zero, Nat.zero_add, if_true,
    h1, Nat.zero_mul]
  generalize (598 - k) / (8 * n) = M
  by_cases hl : P = min P M
  · simp only [← hl, decide_true, if_true]
    cases tr <;>
      simp [fociFlagByte, foldl_range', Drv.FociSTMControlFlags_END, Drv.FociSTMControlFlags_TRANSITION,
        Drv.FociSTMControlFlags_NONE, Drv.FociSTMControlFlags_BEGIN, DrvLayout.FociSTMHead_tag_off,
        DrvLayout.FociSTMHead_flag_off, DrvLayout.FociSTMHead_send_num_off, DrvLayout.FociSTMHead_segment_off,
        DrvLayout.FociSTMHead_transition_mode_off, DrvLayout.FociSTMHead_num_foci_off,
        DrvLayout.FociSTMHead_sound_speed_off, DrvLayout.FociSTMHead_freq_div_off, DrvLayout.FociSTMHead_rep_off,
        DrvLayout.FociSTMHead_transition_value_off]
  · simp only [hl, decide_false, if_false]
    simp [fociFlagByte, foldl_range', Drv.FociSTMControlFlags_NONE, Drv.FociSTMControlFlags_BEGIN,
      DrvLayout.FociSTMHead_tag_off,
      DrvLayout.FociSTMHead_flag_off, DrvLayout.FociSTMHead_send_num_off, DrvLayout.FociSTMHead_segment_off,
      DrvLayout.FociSTMHead_transition_mode_off, DrvLayout.FociSTMHead_num_foci_off,
      DrvLayout.FociSTMHead_sound_speed_off, DrvLayout.FociSTMHead_freq_div_off, DrvLayout.FociSTMHead_rep_off,
      DrvLayout.FociSTMHead_transition_value_off]

theorem pack_foci_next_at (n seg : Nat) (tr : Tr) (rep div ss : Nat) (records : Array Nat) (P nt : Nat) (b : Array Nat)
    (c k : Nat) (hb : b.size = 622) (hk : k + 4 ≤ 622) (hn : 1 ≤ n ∧ n ≤ 8) (hP : records.size = P * n)
    (ht : 2 ≤ P * n ∧ P * n ≤ 65536) (hc0 : 0 < c) :
    ({ dg := .fociStm n seg tr rep div ss records, sent := c, done := false } : Op).pack nt b k =
      .ok ({ dg := .fociStm n seg tr rep div ss records, sent := c + min (P - c) ((618 - k) / (8 * n)),
             done := decide (P = c + min (P - c) ((618 - k) / (8 * n))) },
        fociNextPayloadAt b records k n c (min (P - c) ((618 - k) / (8 * n)))
          (fociFlagByte false (decide (P = c + min (P - c) ((618 - k) / (8 * n)))) tr.isSome) seg,
        4 + 8 * min (P - c) ((618 - k) / (8 * n)) * n) := by
  unfold Op.pack fociNextPayloadAt fociData
  have hn0 : ¬ (n = 0 ∨ n > Drv.FOCI_STM_FOCI_NUM_MAX) := by simp only [Drv.FOCI_STM_FOCI_NUM_MAX]; omega
  have hsz : records.size / n = P := by rw [hP]; exact Nat.mul_div_cancel _ (by omega)
  have ht0 : ¬ (P * n < Drv.STM_BUF_SIZE_MIN ∨ P * n > Drv.FOCI_STM_BUF_SIZE_MAX) := by
    simp only [Drv.STM_BUF_SIZE_MIN, Drv.FOCI_STM_BUF_SIZE_MAX]; omega
  have hc' : ¬ c = 0 := by omega
  have h1 : 622 - k - 4 = 618 - k := by omega
  simp only [hn0, if_false, hsz, ht0, hb, DrvLayout.FociSTMSubseq_size, Nat.sub_zero, Nat.zero_add, hc', h1]
  generalize (618 - k) / (8 * n) = M
  by_cases hl : P = c + min (P - c) M
  · simp only [← hl, decide_true, if_true]
    cases tr <;>
      simp [fociFlagByte, foldl_range', Drv.FociSTMControlFlags_END, Drv.FociSTMControlFlags_TRANSITION,
        Drv.FociSTMControlFlags_NONE, DrvLayout.FociSTMSubseq_tag_off,
        DrvLayout.FociSTMSubseq_flag_off, DrvLayout.FociSTMSubseq_send_num_off, DrvLayout.FociSTMSubseq_segment_off]
  · simp only [hl, decide_false, if_false]
    simp [fociFlagByte, foldl_range', Drv.FociSTMControlFlags_NONE, DrvLayout.FociSTMSubseq_tag_off,
      DrvLayout.FociSTMSubseq_flag_off, DrvLayout.FociSTMSubseq_send_num_off, DrvLayout.FociSTMSubseq_segment_off]

/-- what the firmware reads from `payload[k..]` of the first frame -/
theorem fociFirstAt_payload (b records : Array Nat) (k n sn flag seg tm div rep tv ss : Nat) (hb : b.size = 622)
    (hfit : k + 24 + 8 * (sn * n) ≤ 622) (hf : flag < 256) :
    let d := (fociFirstPayloadAt b records k n sn flag seg tm div rep tv ss).extract k 622
    u8at d 0 = 66 ∧ u8at d 1 = flag ∧ u8at d 2 = sn % 256 ∧ u8at d 3 = seg % 256 ∧ u8at d 4 = tm % 256 ∧
      u8at d 5 = n % 256 ∧ u16at d 6 = ss % 65536 ∧ u16at d 8 = div % 65536 ∧ u16at d 10 = rep % 65536 ∧
      u64at d 16 = tv % 18446744073709551616 ∧
      (∀ j, j < sn * n → u64at d (24 + 8 * j) = rd records j % 18446744073709551616) ∧
      (fociFirstPayloadAt b records k n sn flag seg tm div rep tv ss).size = 622 := by
  have hsz : (fociFirstPayloadAt b records k n sn flag seg tm div rep tv ss).size = 622 := by
    simpa [fociFirstPayloadAt] using hb
  have hx : (fociFirstPayloadAt b records k n sn flag seg tm div rep tv ss).extract k 622 =
      (fociFirstPayloadAt b records k n sn flag seg tm div rep tv ss).extract k
        (fociFirstPayloadAt b records k n sn flag seg tm div rep tv ss).size := by rw [hsz]
  simp only [hx, u8at_extract, u16at_extract, u64at_extract]
  simp only [fociFirstPayloadAt]
  have hsz : (fociData b records (k + 24) 0 (sn * n)).size = 622 := by simpa using hb
  refine ⟨?_, ?_, ?_, ?_, ?_, ?_, ?_, ?_, ?_, ?_, ?_, by simpa using hb⟩
  · rw [u8at_put64_other _ _ _ _ (by omega), u8at_put16, if_neg (by omega), if_neg (by omega), u8at_put16, if_neg (by omega),
      if_neg (by omega), u8at_put16, if_neg (by omega), if_neg (by omega), u8at_put8, if_neg (by omega), u8at_put8,
      if_neg (by omega), u8at_put8, if_neg (by omega), u8at_put8, if_neg (by omega), u8at_put8, if_neg (by omega),
      u8at_put8, if_pos ⟨rfl, by simp; omega⟩]; rfl
  · rw [u8at_put64_other _ _ _ _ (by omega), u8at_put16, if_neg (by omega), if_neg (by omega), u8at_put16, if_neg (by omega),
      if_neg (by omega), u8at_put16, if_neg (by omega), if_neg (by omega), u8at_put8, if_neg (by omega), u8at_put8,
      if_neg (by omega), u8at_put8, if_neg (by omega), u8at_put8, if_neg (by omega), u8at_put8,
      if_pos ⟨rfl, by simp; omega⟩]; omega
  · rw [u8at_put64_other _ _ _ _ (by omega), u8at_put16, if_neg (by omega), if_neg (by omega), u8at_put16, if_neg (by omega),
      if_neg (by omega), u8at_put16, if_neg (by omega), if_neg (by omega), u8at_put8, if_neg (by omega), u8at_put8,
      if_neg (by omega), u8at_put8, if_neg (by omega), u8at_put8, if_pos ⟨rfl, by simp; omega⟩]
  · rw [u8at_put64_other _ _ _ _ (by omega), u8at_put16, if_neg (by omega), if_neg (by omega), u8at_put16, if_neg (by omega),
      if_neg (by omega), u8at_put16, if_neg (by omega), if_neg (by omega), u8at_put8, if_neg (by omega), u8at_put8,
      if_neg (by omega), u8at_put8, if_pos ⟨rfl, by simp; omega⟩]
  · rw [u8at_put64_other _ _ _ _ (by omega), u8at_put16, if_neg (by omega), if_neg (by omega), u8at_put16, if_neg (by omega),
      if_neg (by omega), u8at_put16, if_neg (by omega), if_neg (by omega), u8at_put8, if_neg (by omega), u8at_put8,
      if_pos ⟨rfl, by simp; omega⟩]
  · rw [u8at_put64_other _ _ _ _ (by omega), u8at_put16, if_neg (by omega), if_neg (by omega), u8at_put16, if_neg (by omega),
      if_neg (by omega), u8at_put16, if_neg (by omega), if_neg (by omega), u8at_put8, if_pos ⟨rfl, by simp; omega⟩]
  · rw [u16at_put64_other _ _ _ _ (by omega), u16at_put16_other _ _ _ _ (by omega), u16at_put16_other _ _ _ _ (by omega),
      u16at_put16_same _ _ _ (by simp; omega)]
  · rw [u16at_put64_other _ _ _ _ (by omega), u16at_put16_other _ _ _ _ (by omega), u16at_put16_same _ _ _ (by simp; omega)]
  · rw [u16at_put64_other _ _ _ _ (by omega), u16at_put16_same _ _ _ (by simp; omega)]
  · rw [u64at_put64_same _ _ _ (by simp; omega)]
  · intro j hj
    rw [u64at_put64_other _ _ _ _ (by omega), u64at_put16_other _ _ _ _ (by omega), u64at_put16_other _ _ _ _ (by omega),
      u64at_put16_other _ _ _ _ (by omega), u64at_put8_other _ _ _ _ (by omega), u64at_put8_other _ _ _ _ (by omega),
      u64at_put8_other _ _ _ _ (by omega), u64at_put8_other _ _ _ _ (by omega), u64at_put8_other _ _ _ _ (by omega),
      u64at_put8_other _ _ _ _ (by omega), u64at_putZeros_other _ _ _ _ (by omega),
      show k + (24 + 8 * j) = k + 24 + 8 * j from by omega,
      u64at_fociData _ _ _ _ _ _ hj (by omega), Nat.zero_add]

/-- what the firmware reads from `payload[k..]` of a following frame -/
theorem fociNextAt_payload (b records : Array Nat) (k n c sn flag seg : Nat) (hb : b.size = 622)
    (hfit : k + 4 + 8 * (sn * n) ≤ 622) (hf : flag < 256) :
    let d := (fociNextPayloadAt b records k n c sn flag seg).extract k 622
    u8at d 0 = 66 ∧ u8at d 1 = flag ∧ u8at d 2 = sn % 256 ∧ u8at d 3 = seg % 256 ∧
      (∀ j, j < sn * n → u64at d (4 + 8 * j) = rd records (c * n + j) % 18446744073709551616) ∧
      (fociNextPayloadAt b records k n c sn flag seg).size = 622 := by
  have hsz : (fociNextPayloadAt b records k n c sn flag seg).size = 622 := by
    simpa [fociNextPayloadAt] using hb
  have hx : (fociNextPayloadAt b records k n c sn flag seg).extract k 622 =
      (fociNextPayloadAt b records k n c sn flag seg).extract k (fociNextPayloadAt b records k n c sn flag seg).size := by
    rw [hsz]
  simp only [hx, u8at_extract, u16at_extract, u64at_extract]
  simp only [fociNextPayloadAt]
  have hsz : (fociData b records (k + 4) (c * n) (sn * n)).size = 622 := by simpa using hb
  refine ⟨?_, ?_, ?_, ?_, ?_, by simpa using hb⟩
  · rw [u8at_put8, if_neg (by omega), u8at_put8, if_neg (by omega), u8at_put8, if_neg (by omega), u8at_put8,
      if_pos ⟨rfl, by omega⟩]; rfl
  · rw [u8at_put8, if_neg (by omega), u8at_put8, if_neg (by omega), u8at_put8, if_pos ⟨rfl, by simp; omega⟩]; omega
  · rw [u8at_put8, if_neg (by omega), u8at_put8, if_pos ⟨rfl, by simp; omega⟩]
  · rw [u8at_put8, if_pos ⟨rfl, by simp; omega⟩]
  · intro j hj
    rw [u64at_put8_other _ _ _ _ (by omega), u64at_put8_other _ _ _ _ (by omega), u64at_put8_other _ _ _ _ (by omega),
      u64at_put8_other _ _ _ _ (by omega), show k + (4 + 8 * j) = k + 4 + 8 * j from by omega,
      u64at_fociData _ _ _ _ _ _ hj (by omega)]

/-! ### robustness: the handler only looks at the packed bytes -/

theorem u8at_agree (b' b'' : Array Nat) (k sz : Nat) (h1 : b'.size = 622) (h2 : b''.size = 622)
    (h : ∀ i, k ≤ i → i < k + sz → rd b'' i = rd b' i) (i : Nat) (hi : i < sz) :
    u8at (b''.extract k 622) i = u8at (b'.extract k 622) i := by
  have e1 : b''.extract k 622 = b''.extract k b''.size := by rw [h2]
  have e2 : b'.extract k 622 = b'.extract k b'.size := by rw [h1]
  rw [e1, e2, u8at_extract, u8at_extract]
  unfold u8at
  rw [h (k + i) (by omega) (by omega)]

theorem u16at_agree (b' b'' : Array Nat) (k sz : Nat) (h1 : b'.size = 622) (h2 : b''.size = 622)
    (h : ∀ i, k ≤ i → i < k + sz → rd b'' i = rd b' i) (i : Nat) (hi : i + 1 < sz) :
    u16at (b''.extract k 622) i = u16at (b'.extract k 622) i := by
  unfold u16at
  rw [u8at_agree b' b'' k sz h1 h2 h i (by omega), u8at_agree b' b'' k sz h1 h2 h (i + 1) (by omega)]

theorem u64at_agree (b' b'' : Array Nat) (k sz : Nat) (h1 : b'.size = 622) (h2 : b''.size = 622)
    (h : ∀ i, k ≤ i → i < k + sz → rd b'' i = rd b' i) (i : Nat) (hi : i + 7 < sz) :
    u64at (b''.extract k 622) i = u64at (b'.extract k 622) i :=
  u64at_congr _ _ _ (fun j hj => u8at_agree b' b'' k sz h1 h2 h (i + j) (by omega))

end Autd3.Tuple2
