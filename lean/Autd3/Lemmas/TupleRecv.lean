import Autd3.Lemmas.RtSend
import Autd3.Lemmas.P02Frames
/-!
Tuple equivalence (C03), part 1 — firmware side.

* `recvBody` / `ecatRecv_body`: `ecat_recv` written as an explicit case tree over the two slots.
* `Eqv`: two device states are equal except for `ack`, `lastMsgId`, `rxData`;
  `Eqv0`: additionally the register `CTL_FLAG` (`ctl[0]`) may differ (it is rewritten from
  `flagsInternal` at the end of every accepted frame).
* `RelRes`: two handler results are equal up to `Eqv0`.
* `two_slots_two_frames`: one frame with two slots against two single-slot frames, for a slot-2
  handler that does not depend on `ack`, `lastMsgId`, `rxData`, `CTL_FLAG`.
-/
namespace Autd3.Tuple
open Autd3 Autd3.Fw Autd3.Wire Autd3.Gen.Cpu Autd3.Gen
open Autd3.Rt (pre fin wr nextId)

theorem ctlWrite0 (s : State) (v : Nat) : ctlWrite s ADDR_CTL_FLAG v = .ok (wr s ADDR_CTL_FLAG v) :=
  Rt.ctlWrite_main s ADDR_CTL_FLAG v (by decide)

/-- `ecat_recv` after the header checks (`s0` = state with the message id latched and `read_fpga_state`
done): slot 1, then — only if slot 1 was acknowledged without error and the header announces a second
slot — slot 2 on the state slot 1 left, then `CTL_FLAG := flagsInternal`, `ack := id`. -/
def recvBody (s0 : State) (id slot2 : Nat) (frame : Array Nat) : M State :=
  match handlePayload s0 (frame.extract 4 frame.size) with
  | .error e => .error e
  | .ok (s1, a1) =>
    if a1 &&& ERR_BIT ≠ 0 then .ok { s1 with ack := a1 }
    else if slot2 = 0 then .ok (fin s1 id)
    else if 4 + slot2 > frame.size then .error (.index "ecat_recv: slot 2 offset")
    else
      match handlePayload { s1 with ack := a1 } (frame.extract (4 + slot2) frame.size) with
      | .error e => .error e
      | .ok (s2, a2) =>
        if a2 &&& ERR_BIT ≠ 0 then .ok { s2 with ack := a2 } else .ok (fin s2 id)

theorem ecatRecv_body (s : State) (frame : Array Nat) :
    ecatRecv s frame =
      if s.lastMsgId = u8at frame 0 then .ok s
      else if u8at frame 0 &&& 0x80 ≠ 0 then .ok { pre s (u8at frame 0) with ack := ERR_INVALID_MSG_ID }
      else recvBody (pre s (u8at frame 0)) (u8at frame 0) (u16at frame 2) frame := by
  unfold ecatRecv
  by_cases hfresh : s.lastMsgId = u8at frame 0
  · simp only [DrvLayout.Header_msg_id_off, hfresh, if_true]; rfl
  by_cases hid : u8at frame 0 &&& 0x80 = 0
  · simp only [DrvLayout.Header_msg_id_off, DrvLayout.Header_slot_2_offset_off, DrvLayout.Header_size, hfresh, if_false, hid,
      ne_eq, not_true_eq_false]
    show (handlePayload (pre s (u8at frame 0)) (frame.extract 4 frame.size) >>= _) = _
    unfold recvBody
    cases h1 : handlePayload (pre s (u8at frame 0)) (frame.extract 4 frame.size) with
    | error e => rfl
    | ok r =>
      obtain ⟨s1, a1⟩ := r
      simp only [Rt.ok_bind]
      by_cases he : a1 &&& ERR_BIT = 0
      · simp only [he, ne_eq, not_true_eq_false, if_false]
        by_cases hs2 : u16at frame 2 = 0
        · simp only [hs2, not_true_eq_false, if_false, if_true]
          simp [ctlWrite0, fin]
        · simp only [hs2, not_false_eq_true, if_true, if_false]
          by_cases hb : 4 + u16at frame 2 > frame.size
          · simp only [hb, if_true]; rfl
          · simp only [hb, if_false]
            cases h2 : handlePayload { s1 with ack := a1 } (frame.extract (4 + u16at frame 2) frame.size) with
            | error e => rfl
            | ok r2 =>
              obtain ⟨s2, a2⟩ := r2
              simp only [Rt.ok_bind]
              by_cases he2 : a2 &&& ERR_BIT = 0
              · simp [he2, ctlWrite0, fin]
              · simp [he2]
      · simp [he]
  · simp only [DrvLayout.Header_msg_id_off, hfresh, if_false, hid, ne_eq, not_false_eq_true, if_true]
    rfl

/-! ### equivalences of device states -/

/-- every field equal except `ack`, `lastMsgId`, `rxData` -/
def Eqv (s s' : State) : Prop := ∃ a l r, s' = { s with ack := a, lastMsgId := l, rxData := r }

/-- two register files agree except possibly at address 0 (`CTL_FLAG`) -/
def Eq0 (c c' : Array Nat) : Prop := c.setIfInBounds 0 0 = c'.setIfInBounds 0 0

/-- every field equal except `ack`, `lastMsgId`, `rxData` and the register `CTL_FLAG` -/
def Eqv0 (s s' : State) : Prop :=
  ∃ a l r c, s' = { s with ack := a, lastMsgId := l, rxData := r, ctl := c } ∧ Eq0 s.ctl c

theorem Eqv.refl (s : State) : Eqv s s := ⟨s.ack, s.lastMsgId, s.rxData, rfl⟩
theorem Eqv.symm {s s' : State} (h : Eqv s s') : Eqv s' s := by
  obtain ⟨a, l, r, rfl⟩ := h; exact ⟨s.ack, s.lastMsgId, s.rxData, rfl⟩
theorem Eqv.trans {a b c : State} (h1 : Eqv a b) (h2 : Eqv b c) : Eqv a c := by
  obtain ⟨x, y, z, rfl⟩ := h1; obtain ⟨x', y', z', rfl⟩ := h2; exact ⟨x', y', z', rfl⟩
theorem Eqv.eqv0 {s s' : State} (h : Eqv s s') : Eqv0 s s' := by
  obtain ⟨a, l, r, rfl⟩ := h; exact ⟨a, l, r, s.ctl, rfl, rfl⟩

theorem Eq0.refl (c : Array Nat) : Eq0 c c := rfl
theorem Eq0.symm {c c' : Array Nat} (h : Eq0 c c') : Eq0 c' c := Eq.symm h
theorem Eq0.trans {a b c : Array Nat} (h1 : Eq0 a b) (h2 : Eq0 b c) : Eq0 a c := Eq.trans h1 h2
theorem Eq0.size {c c' : Array Nat} (h : Eq0 c c') : c.size = c'.size := by
  unfold Eq0 at h
  have := congrArg Array.size h; simpa using this
theorem Eq0.rd_eq {c c' : Array Nat} (h : Eq0 c c') (j : Nat) (hj : j ≠ 0) : Fw.rd c j = Fw.rd c' j := by
  unfold Eq0 at h
  have := congrArg (fun a => Fw.rd a j) h
  simp only [P02.rd_set, hj, false_and, if_false] at this
  exact this
theorem Eq0.intro {c c' : Array Nat} (hs : c.size = c'.size) (h : ∀ j, j ≠ 0 → Fw.rd c j = Fw.rd c' j) : Eq0 c c' := by
  unfold Eq0
  apply P02.ext_rd _ _ (by simpa using hs)
  intro j _
  simp only [P02.rd_set, hs]
  by_cases hj : j = 0
  · subst hj
    by_cases hz : 0 < c'.size
    · simp [hz]
    · simp only [hz, and_false, if_false]
      rw [P02.rd_of_size_le _ _ (by omega), P02.rd_of_size_le _ _ (by omega)]
  · simp only [hj, false_and, if_false]; exact h j hj
theorem Eq0.set0 (c : Array Nat) (v : Nat) : Eq0 c (c.setIfInBounds 0 v) := by
  apply Eq0.intro (by simp)
  intro j hj; rw [P02.rd_set_ne _ _ _ _ hj]
theorem Eq0.set {c c' : Array Nat} (h : Eq0 c c') (i v : Nat) : Eq0 (c.setIfInBounds i v) (c'.setIfInBounds i v) := by
  apply Eq0.intro (by simpa using h.size)
  intro j hj
  simp only [P02.rd_set, h.size, h.rd_eq j hj]
/-- writing the same value to `CTL_FLAG` makes the register files equal -/
theorem Eq0.set0_eq {c c' : Array Nat} (h : Eq0 c c') (v : Nat) : c.setIfInBounds 0 v = c'.setIfInBounds 0 v := by
  apply P02.ext_rd _ _ (by simpa using h.size)
  intro j _
  simp only [P02.rd_set, h.size]
  by_cases hj : j = 0
  · subst hj
    by_cases hz : 0 < c'.size
    · simp [hz]
    · simp only [hz, and_false, if_false]
      rw [P02.rd_of_size_le _ _ (by have := h.size; omega), P02.rd_of_size_le _ _ (by omega)]
  · simp only [hj, false_and, if_false]; exact h.rd_eq j hj
theorem Eq0.writeLoop {c c' : Array Nat} (h : Eq0 c c') (off : Nat) (f : Nat → Nat) (n : Nat) :
    Eq0 (P02.writeLoop c off f n) (P02.writeLoop c' off f n) := by
  induction n with
  | zero => simpa only [P02.writeLoop] using h
  | succ n ih => simpa only [P02.writeLoop] using Eq0.set ih _ _

theorem Eqv0.refl (s : State) : Eqv0 s s := (Eqv.refl s).eqv0
theorem Eqv0.flags {s s' : State} (h : Eqv0 s s') : s'.flagsInternal = s.flagsInternal := by
  obtain ⟨a, l, r, c, rfl, _⟩ := h; rfl
theorem Eqv0.trans {a b c : State} (h1 : Eqv0 a b) (h2 : Eqv0 b c) : Eqv0 a c := by
  obtain ⟨x, y, z, w, rfl, hw⟩ := h1; obtain ⟨x', y', z', w', rfl, hw'⟩ := h2
  exact ⟨x', y', z', w', rfl, hw.trans hw'⟩
theorem Eqv0.symm {s s' : State} (h : Eqv0 s s') : Eqv0 s' s := by
  obtain ⟨a, l, r, c, rfl, hc⟩ := h; exact ⟨s.ack, s.lastMsgId, s.rxData, s.ctl, rfl, hc.symm⟩
theorem Eqv0.ack {s s' : State} (h : Eqv0 s s') (a b : Nat) : Eqv0 { s with ack := a } { s' with ack := b } := by
  obtain ⟨x, l, r, c, rfl, hc⟩ := h; exact ⟨b, l, r, c, rfl, hc⟩

/-- the end of an accepted frame (`CTL_FLAG := flagsInternal`, `ack := id`) turns `Eqv0` into `Eqv` -/
theorem Eqv0.fin {s s' : State} (h : Eqv0 s s') (id id' : Nat) : Eqv (fin s id) (fin s' id') := by
  obtain ⟨a, l, r, c, rfl, hc⟩ := h
  refine ⟨id', l, r, ?_⟩
  unfold Rt.fin Rt.wr
  simp only [ADDR_CTL_FLAG]
  rw [hc.set0_eq]

/-- the state the next frame's handler sees after an accepted frame: `Eqv0` to what slot 2 sees -/
theorem eqv0_mid (s1 : State) (a1 id id2 : Nat) : Eqv0 { s1 with ack := a1 } (pre (fin s1 id) id2) := by
  obtain ⟨r, hr⟩ := Rt.pre_eq (fin s1 id) id2
  rw [hr]
  exact ⟨id, id2, r, s1.ctl.setIfInBounds 0 (s1.flagsInternal % 65536), rfl, Eq0.set0 _ _⟩

/-- two handler results equal up to `Eqv0` (same acknowledgement code, same panic) -/
def RelRes (x y : M (State × Nat)) : Prop :=
  match x, y with
  | .ok (a, k), .ok (b, k') => Eqv0 a b ∧ k = k'
  | .error e, .error e' => e = e'
  | _, _ => False

/-- outcome of the two ways of delivering two operations: both acknowledged (with the respective message
id) and the states equal except `ack`/`lastMsgId`/`rxData`; or both rejected with the same error code and
the states equal except those three and `CTL_FLAG`; or the same panic -/
def RelFinal (id id2 : Nat) (x y : M State) : Prop :=
  match x, y with
  | .ok a, .ok b => (a.ack = id ∧ b.ack = id2 ∧ Eqv a b) ∨ (a.ack = b.ack ∧ a.ack &&& ERR_BIT ≠ 0 ∧ Eqv0 a b)
  | .error e, .error e' => e = e'
  | _, _ => False

/-- **one frame with two slots = two single-slot frames**, for a slot-2 handler run that is insensitive to
`ack`, `lastMsgId`, `rxData`, `CTL_FLAG`.  `F` carries both operations, `F1` the same payload with the
slot-2 offset cleared, `F2` the slot-2 part of `F`'s payload under a fresh id. -/
theorem two_slots_two_frames (s : State) (F F1 F2 : Array Nat) (id id2 k : Nat) (s1 : State) (a1 : Nat)
    (hF : u8at F 0 = id ∧ u16at F 2 = k) (hF1 : u8at F1 0 = id ∧ u16at F1 2 = 0)
    (hF2 : u8at F2 0 = id2 ∧ u16at F2 2 = 0)
    (hP1 : F1.extract 4 F1.size = F.extract 4 F.size) (hP2 : F2.extract 4 F2.size = F.extract (4 + k) F.size)
    (hfresh : s.lastMsgId ≠ id) (hid : id &&& 0x80 = 0) (hid2 : id2 &&& 0x80 = 0)
    (hk : k ≠ 0) (hfit : 4 + k ≤ F.size)
    (h1 : handlePayload (pre s id) (F.extract 4 F.size) = .ok (s1, a1)) (hl : s1.lastMsgId ≠ id2)
    (hins : ∀ s', Eqv0 { s1 with ack := a1 } s' →
      RelRes (handlePayload { s1 with ack := a1 } (F.extract (4 + k) F.size)) (handlePayload s' (F.extract (4 + k) F.size))) :
    (a1 &&& ERR_BIT ≠ 0 → ecatRecv s F = .ok { s1 with ack := a1 } ∧ ecatRecv s F1 = .ok { s1 with ack := a1 }) ∧
    (a1 &&& ERR_BIT = 0 → ecatRecv s F1 = .ok (fin s1 id) ∧
      RelFinal id id2 (ecatRecv s F) (ecatRecv (fin s1 id) F2)) := by
  have e1 : ecatRecv s F1 = if a1 &&& ERR_BIT ≠ 0 then .ok { s1 with ack := a1 } else .ok (fin s1 id) := by
    rw [ecatRecv_body, hF1.1, hF1.2, if_neg hfresh, hid]
    simp only [ne_eq, not_true_eq_false, if_false]
    unfold recvBody
    rw [hP1, h1]
    simp
  constructor
  · intro he
    refine ⟨?_, by rw [e1, if_pos he]⟩
    rw [ecatRecv_body, hF.1, hF.2, if_neg hfresh, hid]
    simp only [ne_eq, not_true_eq_false, if_false]
    unfold recvBody
    rw [h1]
    simp only [ne_eq] at he
    simp [he]
  · intro he
    refine ⟨by rw [e1]; simp [he], ?_⟩
    have hl' : (fin s1 id).lastMsgId ≠ id2 := hl
    rw [ecatRecv_body, hF.1, hF.2, if_neg hfresh, hid, ecatRecv_body, hF2.1, hF2.2, if_neg hl', hid2]
    simp only [ne_eq, not_true_eq_false, if_false]
    unfold recvBody
    rw [h1, hP2]
    simp only [he, ne_eq, not_true_eq_false, if_false, hk, show ¬ (4 + k > F.size) by omega]
    have hr := hins _ (eqv0_mid s1 a1 id id2)
    unfold RelRes at hr
    cases hx : handlePayload { s1 with ack := a1 } (F.extract (4 + k) F.size) with
    | error e =>
      rw [hx] at hr
      cases hy : handlePayload (pre (fin s1 id) id2) (F.extract (4 + k) F.size) with
      | error e' => rw [hy] at hr; simp only [] at hr; subst hr; simp [RelFinal]
      | ok r' => rw [hy] at hr; exact hr.elim
    | ok r =>
      obtain ⟨s2, a2⟩ := r
      rw [hx] at hr
      cases hy : handlePayload (pre (fin s1 id) id2) (F.extract (4 + k) F.size) with
      | error e' => rw [hy] at hr; exact hr.elim
      | ok r' =>
        obtain ⟨s2', a2'⟩ := r'
        rw [hy] at hr
        simp only [] at hr
        obtain ⟨hq, rfl⟩ := hr
        simp only []
        by_cases he2 : a2 &&& ERR_BIT = 0
        · simp only [he2, not_true_eq_false, if_false]
          exact Or.inl ⟨rfl, rfl, hq.fin id id2⟩
        · simp only [he2, not_false_eq_true, if_true]
          exact Or.inr ⟨rfl, he2, hq.ack a2 a2⟩

end Autd3.Tuple
