import Autd3.Lemmas.WireContract
/-!
`required_le_first`, the order `Op.Le` and monotonicity of `Op.next`, and `next2`: the operation-state
part of `packOp2`, proved equal to the projection of `packOp2`.
-/
namespace Autd3.Wire
open Autd3.Fw (rd)
open Autd3.Gen.Drv
open Autd3.Gen

/-- `required_size` is largest for the first frame -/
theorem required_le_first (o : Op) (n : Nat) : o.required n ≤ (Op.ofDg o.dg).required n := by
  obtain ⟨dg, sent, done⟩ := o
  cases dg <;> simp only [Op.required, Op.ofDg, Nat.le_refl]
  all_goals simp only [DrvLayout.ModulationHead_size, DrvLayout.ModulationSubseq_size, DrvLayout.FociSTMHead_size,
      DrvLayout.FociSTMSubseq_size, DrvLayout.GainSTMHead_size, DrvLayout.GainSTMSubseq_size]
  all_goals split <;> simp

/-- order on operation states of the same datagram: `b` is at least as advanced as `a` -/
def Op.Le (a b : Op) : Prop := a.dg = b.dg ∧ a.sent ≤ b.sent ∧ (a.done = true → b.done = true)

theorem Op.Le.refl (a : Op) : a.Le a := ⟨rfl, Nat.le_refl _, id⟩

theorem next_mono (a b a' b' : Op) (n S sza szb : Nat) (hle : a.Le b) (hb : b.Inv)
    (h1 : a.next n S = .ok (a', sza)) (h2 : b.next n S = .ok (b', szb)) : a'.Le b' := by
  obtain ⟨dg, senta, donea⟩ := a
  obtain ⟨dgb, sentb, doneb⟩ := b
  obtain ⟨hdg, hsent, hdone⟩ := hle
  simp only at hdg hsent hdone
  subst hdg
  obtain ⟨hs, hn⟩ := hb
  cases dg <;> simp only [Op.next] at h1 h2
  case null => cases h1; cases h2; exact ⟨rfl, hsent, hdone⟩
  case gain seg tr drives =>
    rcases tr with _ | ⟨m, v⟩ <;> simp only [] at h1 h2
    · cases h1; cases h2; exact ⟨rfl, hsent, fun _ => rfl⟩
    · split at h1
      · cases h1
      · rw [if_neg (by assumption)] at h2
        cases h1; cases h2; exact ⟨rfl, hsent, fun _ => rfl⟩
  case swapGain =>
    split at h1
    · cases h1
    · rw [if_neg (by assumption)] at h2
      cases h1; cases h2; exact ⟨rfl, hsent, fun _ => rfl⟩
  case modulation seg tr rep div samples =>
    simp only [Op.total] at hs
    have key : ∀ (x : Except Err (Op × Nat)) (c1 : Prop) [Decidable c1] (e1 : Err) (r : Op × Nat),
        (if c1 then Except.error e1 else x) = Except.ok r → x = Except.ok r := by
      intro x c1 _ e1 r h
      split at h
      · cases h
      exact h
    replace h1 := key _ _ _ _ h1
    replace h2 := key _ _ _ _ h2
    by_cases ha : senta = 0 <;> by_cases hb : sentb = 0
    all_goals simp only [ha, hb, if_true, if_false] at h1 h2
    all_goals
      cases h1; cases h2
      simp only [DrvLayout.ModulationHead_size, DrvLayout.ModulationSubseq_size] at *
      refine ⟨rfl, ?_, ?_⟩
      · simp only; omega
      · simp only [Bool.or_eq_true]
        intro h
        rcases h with h | h
        · exact Or.inl (hdone h)
        · right; have h := of_decide_eq_true h; apply decide_eq_true; omega
  case fociStm nf seg tr rep div ss records =>
    simp only [Op.total] at hs
    split at h1
    · cases h1
    split at h1
    · cases h1
    rw [if_neg (by assumption), if_neg (by assumption)] at h2
    have hd : (S - DrvLayout.FociSTMHead_size) / (8 * nf) ≤ (S - DrvLayout.FociSTMSubseq_size) / (8 * nf) := by
      apply Nat.div_le_div_right
      simp only [DrvLayout.FociSTMHead_size, DrvLayout.FociSTMSubseq_size]; omega
    by_cases ha : senta = 0 <;> by_cases hb : sentb = 0
    all_goals simp only [ha, hb, if_true, if_false] at h1 h2
    all_goals
      cases h1; cases h2
      refine ⟨rfl, ?_, ?_⟩
      · simp only; omega
      · simp only [decide_eq_true_eq]
        intro h
        omega
  case gainStm mode seg tr rep div patterns =>
    simp only [Op.total] at hs
    split at h1
    · cases h1
    rw [if_neg (by assumption)] at h2
    generalize (if mode = GainSTMMode_PhaseIntensityFull then 1 else if mode = GainSTMMode_PhaseFull then 2 else 4) = pf at h1 h2
    by_cases ha : senta = 0 <;> by_cases hb : sentb = 0
    all_goals simp only [ha, hb, if_true, if_false] at h1 h2
    all_goals
      cases h1; cases h2
      refine ⟨rfl, ?_, ?_⟩
      · simp only; omega
      · simp only [decide_eq_true_eq]
        intro h
        omega
  all_goals
    cases h1; cases h2
    exact ⟨rfl, hsent, fun _ => rfl⟩

/-! ### `pack_op2` at the level of operation states -/

/-- the operation-state part of `packOp2` for a payload of `S` bytes -/
def next2 (n S : Nat) (p : Op × Op) : Except Err (Op × Op) :=
  match p.1.done, p.2.done with
  | true, true => .ok p
  | true, false =>
    match p.2.next n S with
    | .error e => .error e
    | .ok (o2, _) => .ok (p.1, o2)
  | false, true =>
    match p.1.next n S with
    | .error e => .error e
    | .ok (o1, _) => .ok (o1, p.2)
  | false, false =>
    match p.1.next n S with
    | .error e => .error e
    | .ok (o1, sz1) =>
      if S - sz1 ≥ p.2.required n then
        match p.2.next n (S - sz1) with
        | .error e => .error e
        | .ok (o2, _) => .ok (o1, o2)
      else .ok (o1, p.2)

theorem packOp_eq (o : Op) (n : Nat) (t : Tx) :
    packOp o n t = match o.pack n t.payload 0 with
      | .error e => .error e
      | .ok (o', b, sz) => .ok (o', { msgId := ((t.msgId + 1) % 256) &&& MSG_ID_MAX, slot2 := 0, payload := b }, sz) := by
  unfold packOp
  simp only []
  split <;> simp_all

theorem packOp2_next2 (o1 o2 : Op) (n : Nat) (t : Tx) :
    (match packOp2 o1 o2 n t with
      | .error (e, _) => Except.error e
      | .ok (o1', o2', _) => .ok (o1', o2')) = next2 n t.payload.size (o1, o2) := by
  unfold packOp2 next2
  simp only [packOp_eq]
  cases h1 : o1.done <;> cases h2 : o2.done <;> simp only []
  · cases hp : o1.pack n t.payload 0 with
    | error e => simp only [pack_error_next hp |> (Nat.sub_zero _ ▸ ·)]
    | ok r =>
      obtain ⟨o1', b1, sz1⟩ := r
      have hk := (pack_keeps hp).1
      simp only [pack_ok_next hp |> (Nat.sub_zero _ ▸ ·), hk]
      by_cases hfit : t.payload.size - sz1 ≥ o2.required n
      · simp only [hfit, if_true]
        cases hq : o2.pack n b1 sz1 with
        | error e => simp only [hk ▸ pack_error_next hq]
        | ok r2 =>
          obtain ⟨o2', b2, sz2⟩ := r2
          simp only [hk ▸ pack_ok_next hq]
      · simp only [hfit, if_false]
  · cases hp : o1.pack n t.payload 0 with
    | error e => simp only [pack_error_next hp |> (Nat.sub_zero _ ▸ ·)]
    | ok r =>
      obtain ⟨o1', b1, sz1⟩ := r
      simp only [pack_ok_next hp |> (Nat.sub_zero _ ▸ ·)]
  · cases hp : o2.pack n t.payload 0 with
    | error e => simp only [pack_error_next hp |> (Nat.sub_zero _ ▸ ·)]
    | ok r =>
      obtain ⟨o1', b1, sz1⟩ := r
      simp only [pack_ok_next hp |> (Nat.sub_zero _ ▸ ·)]

/-- the datagram is one whose `pack` never returns an error (the SDK's own validation accepts it) -/
def Dg.Valid (d : Dg) : Prop :=
  match d with
  | .gain _ tr _ => ∀ m v, tr = some (m, v) → m = TRANSITION_MODE_IMMEDIATE
  | .swapGain _ mode _ => mode = TRANSITION_MODE_IMMEDIATE
  | .modulation _ _ _ _ samples => MOD_BUF_SIZE_MIN ≤ samples.size ∧ samples.size ≤ MOD_BUF_SIZE_MAX
  | .fociStm n _ _ _ _ _ records => 1 ≤ n ∧ n ≤ FOCI_STM_FOCI_NUM_MAX ∧
      STM_BUF_SIZE_MIN ≤ records.size / n * n ∧ records.size / n * n ≤ FOCI_STM_BUF_SIZE_MAX
  | .gainStm _ _ _ _ _ patterns => STM_BUF_SIZE_MIN ≤ patterns.size ∧ patterns.size ≤ GAIN_STM_BUF_SIZE_MAX
  | _ => True

/-- a valid operation in a reachable state is never rejected by `pack` -/
theorem next_ok (o : Op) (n avail : Nat) (hv : o.dg.Valid) (hinv : o.Inv) : ∃ o' sz, o.next n avail = .ok (o', sz) := by
  obtain ⟨dg, sent, done⟩ := o
  obtain ⟨hs, hn⟩ := hinv
  cases dg <;> simp only [Op.next, Dg.Valid, Op.total] at *
  all_goals first | exact ⟨_, _, rfl⟩ | skip
  case gain seg tr drives =>
    rcases tr with _ | ⟨m, v⟩
    · exact ⟨_, _, rfl⟩
    · have := hv m v rfl
      simp [this]
  case swapGain => simp [hv]
  case modulation seg tr rep div samples =>
    rw [if_neg (by omega)]
    split <;> exact ⟨_, _, rfl⟩
  case fociStm nf seg tr rep div ss records =>
    rw [if_neg (by omega), if_neg (by omega)]
    split <;> exact ⟨_, _, rfl⟩
  case gainStm =>
    rw [if_neg (by omega)]
    split <;> exact ⟨_, _, rfl⟩

end Autd3.Wire
