import Autd3.Lemmas.WireNext
/-!
The per-operation contract of `Operation::pack` (C03): invariant `Op.Inv`, termination measure `Op.mu`,
`Contract`, proved for every datagram kind at the level of `Op.next` and transferred to `Op.pack`.
-/
namespace Autd3.Wire
open Autd3.Fw (rd)
open Autd3.Gen.Drv
open Autd3.Gen

/-- number of units (samples / patterns) a multi-frame operation has to send; 0 for single-frame ones -/
def Op.total (o : Op) : Nat :=
  match o.dg with
  | .modulation _ _ _ _ samples => samples.size
  | .fociStm n _ _ _ _ _ records => records.size / n
  | .gainStm _ _ _ _ _ patterns => patterns.size
  | _ => 0

def Op.multi (o : Op) : Bool :=
  match o.dg with
  | .modulation .. | .fociStm .. | .gainStm .. => true
  | _ => false

/-- invariant of every operation state reachable from `Op.ofDg` by packing -/
def Op.Inv (o : Op) : Prop := o.sent ≤ o.total ∧ (o.dg matches .null → o.done = true)

/-- termination measure of the send loop: 0 iff done, else 1 + remaining units -/
def Op.mu (o : Op) : Nat := if o.done then 0 else 1 + (o.total - o.sent)

theorem ofDg_inv (d : Dg) : (Op.ofDg d).Inv := by
  refine ⟨Nat.zero_le _, ?_⟩
  cases d <;> simp [Op.ofDg]

/-- the contract of `Operation::pack`, at the level of `Op.next` -/
structure Contract (o : Op) (n avail : Nat) (o' : Op) (sz : Nat) : Prop where
  even : sz % 2 = 0
  le_avail : sz ≤ avail
  dg : o'.dg = o.dg
  inv : o'.Inv
  mono : o.sent ≤ o'.sent
  progress : o'.done = true ∨ o.sent < o'.sent
  single : o.multi = false → o'.done = true ∧ (o.done = false → sz = o.required n)
  mu : o.done = false → o'.mu < o.mu
  pos : o.done = false → 2 ≤ sz

theorem contract_multi (o o' : Op) (n avail sz sn : Nat) (hm : o.multi = true) (hdg : o'.dg = o.dg)
    (hinv : o.Inv)
    (hsent : o'.sent = o.sent + sn) (hle : o.sent + sn ≤ o.total) (hpos : o.sent < o.total → 0 < sn)
    (hdone : o.sent + sn = o.total → o'.done = true) (heven : sz % 2 = 0) (hav : sz ≤ avail)
    (hpos2 : 2 ≤ sz) :
    Contract o n avail o' sz := by
  have htot : o'.total = o.total := by unfold Op.total; rw [hdg]
  constructor
  · exact heven
  · exact hav
  · exact hdg
  · refine ⟨by omega, ?_⟩
    rw [hdg]; intro h
    unfold Op.multi at hm
    split at hm <;> simp_all
  · omega
  · by_cases h : o.sent + sn = o.total
    · exact Or.inl (hdone h)
    · right; have := hinv.1; omega
  · intro h; rw [h] at hm; cases hm
  · intro hd
    unfold Op.mu
    rw [hd, htot]
    by_cases h : o.sent + sn = o.total
    · simp [hdone h]
      try omega
    · have := hinv.1
      split <;> simp <;> omega
  · exact fun _ => hpos2

theorem next_contract (o : Op) (n avail : Nat) (o' : Op) (sz : Nat) (hinv : o.Inv) (hav : avail % 2 = 0)
    (hreq : o.required n ≤ avail) (h : o.next n avail = .ok (o', sz)) : Contract o n avail o' sz := by
  obtain ⟨dg, sent, done⟩ := o
  have hinv' := hinv
  obtain ⟨hs, hn⟩ := hinv
  cases dg <;> simp only [Op.next] at h
  case modulation seg tr rep div samples =>
    split at h
    · cases h
    simp only [Op.required, Op.total, DrvLayout.ModulationHead_size, DrvLayout.ModulationSubseq_size] at *
    by_cases h0 : sent = 0
    · subst h0
      simp only [if_true] at h hreq
      have hsn : min (samples.size - 0) (min (avail - 16) 254) ≤ samples.size ∧
          min (samples.size - 0) (min (avail - 16) 254) ≤ avail - 16 ∧
          (samples.size ≠ 0 → 0 < min (samples.size - 0) (min (avail - 16) 254)) := by omega
      generalize min (samples.size - 0) (min (avail - 16) 254) = sn at h hsn
      cases h
      refine contract_multi _ _ n avail _ sn rfl rfl hinv' rfl ?_ ?_ ?_ ?_ ?_ ?_
      all_goals try simp only [Op.total, Bool.or_eq_true, decide_eq_true_eq]
      all_goals first | omega | skip
    · simp only [h0, if_false] at h hreq
      have hsn : min (samples.size - sent) (avail - 4) ≤ samples.size - sent ∧
          min (samples.size - sent) (avail - 4) ≤ avail - 4 ∧
          (sent < samples.size → 0 < min (samples.size - sent) (avail - 4)) := by omega
      generalize min (samples.size - sent) (avail - 4) = sn at h hsn
      cases h
      refine contract_multi _ _ n avail _ sn rfl rfl hinv' rfl ?_ ?_ ?_ ?_ ?_ ?_
      all_goals try simp only [Op.total, Bool.or_eq_true, decide_eq_true_eq]
      all_goals first | omega | skip
  case fociStm nf seg tr rep div ss records =>
    split at h
    · cases h
    split at h
    · cases h
    rename_i hn1 hn2
    simp only [Op.required, Op.total, DrvLayout.FociSTMHead_size, DrvLayout.FociSTMSubseq_size,
      FOCI_STM_FOCI_NUM_MAX, STM_BUF_SIZE_MIN, FOCI_STM_BUF_SIZE_MAX] at *
    by_cases h0 : sent = 0
    · subst h0
      simp only [if_true] at h hreq
      have hdiv : (avail - 24) / (8 * nf) * (8 * nf) ≤ avail - 24 := Nat.div_mul_le_self _ _
      have hpos : 1 ≤ (avail - 24) / (8 * nf) := by
        rw [Nat.le_div_iff_mul_le (by omega)]; omega
      generalize (avail - 24) / (8 * nf) = ms at h hdiv hpos
      have hsn : min (records.size / nf - 0) ms ≤ records.size / nf ∧ min (records.size / nf - 0) ms ≤ ms ∧
          (0 < records.size / nf → 0 < min (records.size / nf - 0) ms) := by omega
      generalize min (records.size / nf - 0) ms = sn at h hsn
      cases h
      have hmul : sn * (8 * nf) ≤ ms * (8 * nf) := Nat.mul_le_mul_right _ hsn.2.1
      have he : 8 * sn * nf = sn * (8 * nf) := by
        rw [Nat.mul_comm 8 sn, Nat.mul_assoc]
      have he2 : 8 * sn * nf = 8 * (sn * nf) := Nat.mul_assoc _ _ _
      refine contract_multi _ _ n avail _ sn rfl rfl hinv' rfl ?_ ?_ ?_ ?_ ?_ ?_
      all_goals try simp only [Op.total, decide_eq_true_eq]
      all_goals first | omega | skip
    · simp only [h0, if_false] at h hreq
      have hdiv : (avail - 4) / (8 * nf) * (8 * nf) ≤ avail - 4 := Nat.div_mul_le_self _ _
      have hpos : 1 ≤ (avail - 4) / (8 * nf) := by
        rw [Nat.le_div_iff_mul_le (by omega)]; omega
      generalize (avail - 4) / (8 * nf) = ms at h hdiv hpos
      have hsn : min (records.size / nf - sent) ms ≤ records.size / nf - sent ∧ min (records.size / nf - sent) ms ≤ ms ∧
          (sent < records.size / nf → 0 < min (records.size / nf - sent) ms) := by omega
      generalize min (records.size / nf - sent) ms = sn at h hsn
      cases h
      have hmul : sn * (8 * nf) ≤ ms * (8 * nf) := Nat.mul_le_mul_right _ hsn.2.1
      have he : 8 * sn * nf = sn * (8 * nf) := by
        rw [Nat.mul_comm 8 sn, Nat.mul_assoc]
      have he2 : 8 * sn * nf = 8 * (sn * nf) := Nat.mul_assoc _ _ _
      refine contract_multi _ _ n avail _ sn rfl rfl hinv' rfl ?_ ?_ ?_ ?_ ?_ ?_
      all_goals try simp only [Op.total, decide_eq_true_eq]
      all_goals first | omega | skip
  case gainStm mode seg tr rep div patterns =>
    split at h
    · cases h
    rename_i hn1
    simp only [Op.required, Op.total, DrvLayout.GainSTMHead_size, DrvLayout.GainSTMSubseq_size,
      STM_BUF_SIZE_MIN, GAIN_STM_BUF_SIZE_MAX] at *
    have hsn : ∀ pf, 1 ≤ pf → min pf (patterns.size - sent) ≤ patterns.size - sent ∧
        (sent < patterns.size → 0 < min pf (patterns.size - sent)) := by intro pf hpf; omega
    have hpf : 1 ≤ (if mode = GainSTMMode_PhaseIntensityFull then 1 else if mode = GainSTMMode_PhaseFull then 2 else 4) := by
      split
      · omega
      · split <;> omega
    replace hsn := hsn _ hpf
    generalize min (if mode = GainSTMMode_PhaseIntensityFull then 1 else if mode = GainSTMMode_PhaseFull then 2 else 4)
      (patterns.size - sent) = sn at h hsn
    clear hpf
    split at h
    all_goals
      rename_i h0
      simp only [h0, if_true, if_false] at hreq
      cases h
      refine contract_multi _ _ n avail _ sn rfl rfl hinv' rfl ?_ ?_ ?_ ?_ ?_ ?_
      all_goals try simp only [Op.total, decide_eq_true_eq]
      all_goals first | omega | skip
  case gain seg tr drives =>
    rcases tr with _ | ⟨m, v⟩ <;> simp only [] at h
    · cases h
      constructor <;> (try simp_all [Op.required, Op.mu, Op.total, Op.multi, Op.Inv, DrvLayout.Gain_size]) <;> (try omega)
    · split at h
      · cases h
      · cases h
        constructor <;> (try simp_all [Op.required, Op.mu, Op.total, Op.multi, Op.Inv, DrvLayout.Gain_size]) <;> (try omega)
  case swapGain =>
    split at h
    · cases h
    · cases h
      constructor <;> (try simp_all [Op.required, Op.mu, Op.total, Op.multi, Op.Inv, DrvLayout.SwapSegmentT_size]) <;> (try omega)
  all_goals
    cases h
    constructor <;> (try simp_all [Op.required, Op.mu, Op.total, Op.multi, Op.Inv, DrvLayout.Clear_size,
      DrvLayout.Sync_size, DrvLayout.ForceFan_size, DrvLayout.ReadsFPGAState_size, DrvLayout.CpuGPIOOut_size,
      DrvLayout.EmulateGPIOIn_size, DrvLayout.DebugSetting_size, DrvLayout.PhaseCorr_size, DrvLayout.Pwe_size,
      DrvLayout.SilencerFixedCompletionSteps_size, DrvLayout.SilencerFixedUpdateRate_size, DrvLayout.FirmInfo_size,
      DrvLayout.SwapSegmentTWithTransition_size, PWE_BUF_SIZE]) <;> (try omega)

/-- the contract at the level of `Op.pack`: additionally the buffer keeps its size and every byte below `off` -/
theorem pack_contract {o : Op} {n : Nat} {b : Array Nat} {off : Nat} {o' : Op} {b' : Array Nat} {sz : Nat}
    (hinv : o.Inv) (hav : (b.size - off) % 2 = 0) (hreq : o.required n ≤ b.size - off)
    (h : o.pack n b off = .ok (o', b', sz)) :
    Contract o n (b.size - off) o' sz ∧ Keeps off b b' :=
  ⟨next_contract o n _ o' sz hinv hav hreq (pack_ok_next h), pack_keeps h⟩

end Autd3.Wire
