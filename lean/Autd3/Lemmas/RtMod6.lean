import Autd3.Lemmas.RtMod5
/-!
Modulation, part 6: the state after the BEGIN header satisfies the invariant (`ModInv_head`);
`handle_payload` of a modulation frame as header ∘ copy ∘ end.
-/
open Autd3 Autd3.Fw Autd3.Wire Autd3.Gen.Cpu Autd3.Gen
namespace Autd3.Rt

theorem reg_modHead (s : State) (hc : s.ctl.size = 256) (seg : Nat) (hseg : seg ≤ 1) (rep div tm tv a : Nat) :
    reg (modHead s seg rep div tm tv) a =
      if a = 33 then 0 else if a = 32 then seg else if a = 39 + seg then rep % 65536
      else if a = 37 + seg then div % 65536 else reg s a := by
  rcases (show seg = 0 ∨ seg = 1 by omega) with h | h <;> subst h <;>
  · unfold modHead
    simp only [reg_wr, reg_modHeadCpu, wr_ctl, modHeadCpu_ctl, Array.size_setIfInBounds, hc, ADDR_MOD_MEM_WR_PAGE,
      ADDR_MOD_MEM_WR_SEGMENT, ADDR_MOD_REP0, ADDR_MOD_FREQ_DIV0]
    simp

theorem WF_modHeadCpu {s : State} (h : WF s) (seg rep div tm tv : Nat) : WF (modHeadCpu s seg rep div tm tv) := by
  wf_same h

theorem ModInv_head (s0 : State) (hW : WF s0) (id r seg : Nat) (hseg : seg ≤ 1) (tr : Tr) (rep div : Nat)
    (samples : Array Nat) (hrep : rep < 65536) (hdiv : 1 ≤ div ∧ div < 65536) :
    ModInv s0 (modHead { s0 with lastMsgId := id, rxData := r } seg rep div (trMode tr) (trValue tr))
      seg tr rep div samples 0 := by
  have hWp : WF { s0 with lastMsgId := id, rxData := r } := by wf_same hW
  have hc : ({ s0 with lastMsgId := id, rxData := r } : State).ctl.size = 256 := hW.ctl
  have hr := reg_modHead { s0 with lastMsgId := id, rxData := r } hc seg hseg rep div (trMode tr) (trValue tr)
  refine ⟨?_, by simp [modHead], ?_, ?_, ?_, ?_, by simp [modHead], by simp [modHead], ?_, ?_, ?_, by simp [modHead],
    by simp [modHead], by simp [modHead]⟩
  · unfold modHead
    refine WF_wr (WF_wr (WF_wr (WF_wr (WF_modHeadCpu hWp _ _ _ _ _) _ _ (Or.inr ?_)) _ _ (Or.inl ?_)) _ _
      (Or.inl (by decide))) _ _ (Or.inl (by decide))
    · omega
    · simp only [ADDR_MOD_REP0, ADDR_MOD_FREQ_DIV0, ADDR_MOD_FREQ_DIV1, ADDR_STM_FREQ_DIV0, ADDR_STM_FREQ_DIV1]; omega
  · rw [hr, if_neg (by decide), if_pos (by decide)]
  · rw [hr, if_pos (by decide)]
  · intro i hi; omega
  · intro g _; unfold Obs.modMem; simp [modHead]
  · simp only [ADDR_MOD_FREQ_DIV0]
    rw [hr, if_neg (by omega), if_neg (by omega), if_neg (by omega), if_pos rfl]; omega
  · simp only [ADDR_MOD_REP0]
    rw [hr, if_neg (by omega), if_neg (by omega), if_pos rfl]; omega
  · intro a h0 h1 h2 h3 h4
    rw [hr, if_neg h2, if_neg h1, if_neg h4, if_neg h3]; rfl

end Autd3.Rt
namespace Autd3.Rt
open Autd3 Autd3.Fw Autd3.Wire Autd3.Gen.Cpu Autd3.Gen

theorem dispatch_mod (s : State) (d : Array Nat) (h : u8at d 0 = 16) : handlePayload s d = writeMod s d := by
  unfold handlePayload; rw [h]; rfl

/-- a BEGIN frame of a modulation: `handle_payload` = header, copy, end -/
theorem mod_first_handle_eq (sP : State) (d : Array Nat) (seg rep div tm tv w : Nat) (hseg : seg ≤ 1) (last hasTr : Bool)
    (p0 : u8at d 0 = 16) (p1 : u8at d 1 = modFlagByte true last seg hasTr) (p2 : u8at d 2 = w) (p3 : u8at d 3 = tm)
    (p4 : u16at d 4 = div) (p6 : u16at d 6 = rep) (p8 : u64at d 8 = tv)
    (g1 : validateTransitionMode sP.modSegment seg rep tm = false)
    (g2 : validateSilencerSettings sP (sel sP.stmDiv sP.stmSegment) div = false) :
    handlePayload sP d =
      modDataPart (modHead sP seg rep div tm tv) d 16 w >>= fun s2 => modEndPart s2 (modFlagByte true last seg hasTr) seg := by
  obtain ⟨b1, _, _, b4⟩ := modFlagByte_bits true last seg hseg hasTr
  have hflag : u8at d FwLayout.ModulationHead_flag_off = modFlagByte true last seg hasTr := p1
  have hsg : seg = if u8at d FwLayout.ModulationHead_flag_off &&& MODULATION_FLAG_SEGMENT ≠ 0 then 1 else 0 := by
    rw [hflag, b4]
  have e6 : u16at d FwLayout.ModulationHead_rep_off = rep := p6
  have e4 : u16at d FwLayout.ModulationHead_freq_div_off = div := p4
  have e3 : u8at d FwLayout.ModulationHead_transition_mode_off = tm := p3
  have e8 : u64at d FwLayout.ModulationHead_transition_value_off = tv := p8
  have e2 : u8at d FwLayout.ModulationHead_size_off = w := p2
  rw [dispatch_mod _ _ p0, writeMod_begin sP d seg hsg (by rw [hflag, b1]) (by rw [e6, e3]; exact g1) (by rw [e4]; exact g2),
    e6, e4, e3, e8, e2, hflag]
  rfl

/-- a following frame of a modulation: `handle_payload` = copy, end -/
theorem mod_next_handle_eq (s : State) (d : Array Nat) (seg w : Nat) (hseg : seg ≤ 1) (last hasTr : Bool)
    (p0 : u8at d 0 = 16) (p1 : u8at d 1 = modFlagByte false last seg hasTr) (p2 : u16at d 2 = w) :
    handlePayload s d =
      modDataPart s d 4 w >>= fun s2 => modEndPart s2 (modFlagByte false last seg hasTr) seg := by
  obtain ⟨b1, _, _, b4⟩ := modFlagByte_bits false last seg hseg hasTr
  have hflag : u8at d FwLayout.ModulationHead_flag_off = modFlagByte false last seg hasTr := p1
  have e2 : u16at d FwLayout.ModulationSubseq_size_off = w := p2
  rw [dispatch_mod _ _ p0, writeMod_subseq s d (by rw [hflag, b1]), e2, hflag, b4]
  rfl

end Autd3.Rt
