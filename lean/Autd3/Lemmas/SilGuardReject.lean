import Autd3.Lemmas.SilGuardRun
/-!
# C08: a send refused with `ERR_INVALID_SILENCER_SETTING` changes nothing

Handler level: the whole `State` is returned unchanged, except that `write_mod` has already reset its
private write cursor (`modCycle := 0`) and `write_gain_stm` has already latched the packing mode
(`gainStmMode`) when the guard refuses.  Frame level (`ecat_recv`): additionally `ack`, `lastMsgId`
and `rxData` (the read-back byte refreshed by `read_fpga_state`) change.
-/
set_option linter.unusedSimpArgs false
set_option linter.unusedVariables false
namespace Autd3.SilGuard
open Autd3.Fw Autd3.Gen Autd3.Gen.Cpu

/-- symbolic execution that only tracks the acknowledgement byte -/
syntax "fw_ack" ("[" Lean.Parser.Tactic.simpLemma,* "]")? : tactic
macro_rules
  | `(tactic| fw_ack) => `(tactic| fw_ack [])
  | `(tactic| fw_ack [$ts,*]) => `(tactic|
  simp (config := {zetaDelta := true}) only [Post_bind, Post_ite, Post_pure, Post_ok, Post_error, Post_true,
    Post_setAndWaitUpdate, Post_stmWriteWords, Post_modWriteWords, Post_pweWriteWords, Post_ctlWriteWords,
    NO_ERR, ERR_INVALID_SILENCER_SETTING, ERR_INVALID_TRANSITION_MODE, ERR_MISS_TRANSITION_TIME,
    ERR_INVALID_GAIN_STM_MODE, ERR_INVALID_SEGMENT_TRANSITION, ERR_INVALID_INFO_TYPE, ERR_NOT_SUPPORTED_TAG,
    Nat.reduceEqDiff, false_imp_iff, implies_true, and_self, and_true, true_and, forall_const, imp_self,
    true_imp_iff, ne_eq, not_false_eq_true, not_true_eq_false, reduceCtorEq, $ts,*])

theorem never_to_rejected {m : M (State × Nat)} (h : Post m (fun r => ¬ r.2 = 142)) (X : State) :
    Post m (fun r => r.2 = 142 → r.1 = X) = True :=
  eq_true (Post_mono h (fun r hr h' => absurd h' hr))

theorem configSilencer_rejected (s : State) (d : Array Nat) :
    Post (configSilencer s d) (fun r => r.2 = ERR_INVALID_SILENCER_SETTING → r.1 = s) := by
  unfold configSilencer
  fw_ack

theorem changeModSegment_rejected (s : State) (d : Array Nat) :
    Post (changeModSegment s d) (fun r => r.2 = ERR_INVALID_SILENCER_SETTING → r.1 = s) := by
  unfold changeModSegment modSegmentUpdate
  fw_ack

set_option maxHeartbeats 1000000 in
theorem writeMod_rejected (s : State) (d : Array Nat) :
    Post (writeMod s d) (fun r => r.2 = ERR_INVALID_SILENCER_SETTING → r.1 = { s with modCycle := 0 }) := by
  unfold writeMod modSegmentUpdate
  fw_ack

set_option maxHeartbeats 1000000 in
theorem writeFociStm_rejected (s : State) (d : Array Nat) :
    Post (writeFociStm s d) (fun r => r.2 = ERR_INVALID_SILENCER_SETTING → r.1 = s) := by
  unfold writeFociStm stmSegmentUpdate
  extract_lets flag segment sendNum s0 so0 jpRet jpEnd jpData rep tm freqDiv soB jpHead sT soS
  have hEnd : ∀ (u : Unit) (s1 : State), Post (jpEnd u s1) (fun r => ¬ r.2 = 142) = True := by
    intro u s1; apply eq_true; simp only [jpEnd, jpRet]; fw_ack
  clear_value jpEnd
  have hData : ∀ (u : Unit) (s1 : State) (off : Nat), Post (jpData u s1 off) (fun r => ¬ r.2 = 142) := by
    intro u s1 off; simp only [jpData]; fw_ack [hEnd]
  clear_value jpData
  have hData2 := fun u s1 off X => never_to_rejected (hData u s1 off) X
  fw_ack [hData2]

theorem changeFociStmSegment_rejected (s : State) (d : Array Nat) :
    Post (changeFociStmSegment s d) (fun r => r.2 = ERR_INVALID_SILENCER_SETTING → r.1 = s) := by
  unfold changeFociStmSegment stmSegmentUpdate
  fw_ack

set_option maxHeartbeats 1000000 in
theorem writeGainStm_rejected (s : State) (d : Array Nat) :
    Post (writeGainStm s d) (fun r => r.2 = ERR_INVALID_SILENCER_SETTING →
      r.1 = { s with gainStmMode := u8at d FwLayout.GainSTMHead_mode_off }) := by
  unfold writeGainStm stmSegmentUpdate gainStmWritePattern
  extract_lets flag segment send s0 so0 jpRet jpEnd jpWrap nib jpPat sB rep tm freqDiv soB jpHead sT soS
  have hWrap : ∀ (u : Unit) (s1 : State), Post (jpWrap u s1) (fun r => ¬ r.2 = 142) = True := by
    intro u s1; apply eq_true; simp only [jpWrap, jpEnd, jpRet]; fw_ack
  clear_value jpWrap
  have hPat : ∀ (u : Unit) (s1 : State) (off : Nat), Post (jpPat u s1 off) (fun r => ¬ r.2 = 142) := by
    intro u s1 off; simp only [jpPat]; fw_ack [hWrap]
  clear_value jpPat
  have hPat2 := fun u s1 off X => never_to_rejected (hPat u s1 off) X
  fw_ack [hPat2]
theorem changeGainStmSegment_rejected (s : State) (d : Array Nat) :
    Post (changeGainStmSegment s d) (fun r => r.2 = ERR_INVALID_SILENCER_SETTING → r.1 = s) := by
  unfold changeGainStmSegment stmSegmentUpdate
  fw_ack

/-! the other eleven handlers (and unknown tags) never answer `ERR_INVALID_SILENCER_SETTING` -/

theorem clear_never (s : State) (d : Array Nat) :
    Post (clear s d) (fun r => r.2 ≠ ERR_INVALID_SILENCER_SETTING) := by
  unfold clear; fw_ack

theorem synchronize_never (s : State) (d : Array Nat) :
    Post (synchronize s d) (fun r => r.2 ≠ ERR_INVALID_SILENCER_SETTING) := by
  unfold synchronize; fw_ack

theorem firmInfo_never (s : State) (d : Array Nat) :
    Post (firmInfo s d) (fun r => r.2 ≠ ERR_INVALID_SILENCER_SETTING) := by
  unfold firmInfo; fw_ack

theorem writeGain_never (s : State) (d : Array Nat) :
    Post (writeGain s d) (fun r => r.2 ≠ ERR_INVALID_SILENCER_SETTING) := by
  unfold writeGain; fw_ack

theorem changeGainSegment_rejected (s : State) (d : Array Nat) :
    Post (changeGainSegment s d) (fun r => r.2 = ERR_INVALID_SILENCER_SETTING → r.1 = s) := by
  unfold changeGainSegment
  fw_ack

theorem configureForceFan_never (s : State) (d : Array Nat) :
    Post (configureForceFan s d) (fun r => r.2 ≠ ERR_INVALID_SILENCER_SETTING) := by
  unfold configureForceFan; fw_ack

theorem configureReadsFpgaState_never (s : State) (d : Array Nat) :
    Post (configureReadsFpgaState s d) (fun r => r.2 ≠ ERR_INVALID_SILENCER_SETTING) := by
  unfold configureReadsFpgaState; fw_ack

theorem configPwe_never (s : State) (d : Array Nat) :
    Post (configPwe s d) (fun r => r.2 ≠ ERR_INVALID_SILENCER_SETTING) := by
  unfold configPwe; fw_ack

theorem configDebug_never (s : State) (d : Array Nat) :
    Post (configDebug s d) (fun r => r.2 ≠ ERR_INVALID_SILENCER_SETTING) := by
  unfold configDebug; fw_ack

theorem emulateGpioIn_never (s : State) (d : Array Nat) :
    Post (emulateGpioIn s d) (fun r => r.2 ≠ ERR_INVALID_SILENCER_SETTING) := by
  unfold emulateGpioIn; fw_ack

theorem cpuGpioOut_never (s : State) (d : Array Nat) :
    Post (cpuGpioOut s d) (fun r => r.2 ≠ ERR_INVALID_SILENCER_SETTING) := by
  unfold cpuGpioOut; fw_ack

theorem phaseCorrOp_never (s : State) (d : Array Nat) :
    Post (phaseCorrOp s d) (fun r => r.2 ≠ ERR_INVALID_SILENCER_SETTING) := by
  unfold phaseCorrOp; fw_ack

/-- `s'` is `s` up to the two private cursors that a refused BEGIN frame may already have touched -/
def SameButCursors (s s' : State) : Prop :=
  s' = { s with modCycle := s'.modCycle, gainStmMode := s'.gainStmMode }

theorem SameButCursors.refl (s : State) : SameButCursors s s := rfl

/-- **rejected_changes_nothing**, dispatch level: whatever the tag, a payload answered with
`ERR_INVALID_SILENCER_SETTING` leaves the state unchanged up to `modCycle` / `gainStmMode` -/
theorem handlePayload_rejected (s : State) (d : Array Nat) :
    Post (handlePayload s d) (fun r => r.2 = ERR_INVALID_SILENCER_SETTING → SameButCursors s r.1) := by
  rw [handlePayload_eq]
  simp only [Post_ite]
  fw_leaves
  · exact Post_mono (clear_never s d) (fun r hr h => absurd h hr)
  · exact Post_mono (synchronize_never s d) (fun r hr h => absurd h hr)
  · exact Post_mono (firmInfo_never s d) (fun r hr h => absurd h hr)
  · exact Post_mono (writeMod_rejected s d) (fun r hr h => by rw [hr h]; rfl)
  · exact Post_mono (changeModSegment_rejected s d) (fun r hr h => by rw [hr h]; rfl)
  · exact Post_mono (configSilencer_rejected s d) (fun r hr h => by rw [hr h]; rfl)
  · exact Post_mono (writeGain_never s d) (fun r hr h => absurd h hr)
  · exact Post_mono (changeGainSegment_rejected s d) (fun r hr h => by rw [hr h]; rfl)
  · exact Post_mono (changeGainStmSegment_rejected s d) (fun r hr h => by rw [hr h]; rfl)
  · exact Post_mono (writeFociStm_rejected s d) (fun r hr h => by rw [hr h]; rfl)
  · exact Post_mono (changeFociStmSegment_rejected s d) (fun r hr h => by rw [hr h]; rfl)
  · exact Post_mono (writeGainStm_rejected s d) (fun r hr h => by rw [hr h]; rfl)
  · exact Post_mono (configureForceFan_never s d) (fun r hr h => absurd h hr)
  · exact Post_mono (configureReadsFpgaState_never s d) (fun r hr h => absurd h hr)
  · exact Post_mono (configPwe_never s d) (fun r hr h => absurd h hr)
  · exact Post_mono (configDebug_never s d) (fun r hr h => absurd h hr)
  · exact Post_mono (emulateGpioIn_never s d) (fun r hr h => absurd h hr)
  · exact Post_mono (cpuGpioOut_never s d) (fun r hr h => absurd h hr)
  · exact Post_mono (phaseCorrOp_never s d) (fun r hr h => absurd h hr)
  · rw [Post_ok]; intro h; simp [ERR_NOT_SUPPORTED_TAG, ERR_INVALID_SILENCER_SETTING] at h

/-! ### frame level -/

/-- what a frame whose handling stopped at a refused slot may change w.r.t. the state `s` the refused
slot was handled in: acknowledgement, the two private cursors -/
def SameButAck (s s' : State) : Prop :=
  s' = { s with ack := s'.ack, modCycle := s'.modCycle, gainStmMode := s'.gainStmMode }

/-- **rejected_changes_nothing**, frame level, first slot: if the first operation of a (fresh, valid
message id) frame is refused with `ERR_INVALID_SILENCER_SETTING`, `ecat_recv` returns the state it
handled the slot in (`preState`: message id latched, read-back byte refreshed) with only `ack`
(= the error code) and the two private cursors changed; the second slot is not executed. -/
theorem ecatRecv_rejected_first (s s' s1 : State) (f : Array Nat)
    (hid : s.lastMsgId ≠ u8at f DrvLayout.Header_msg_id_off)
    (hmsb : u8at f DrvLayout.Header_msg_id_off &&& 0x80 = 0)
    (h1 : handlePayload (preState s f) (slot1 f) = .ok (s1, ERR_INVALID_SILENCER_SETTING))
    (h : ecatRecv s f = .ok s') :
    s' = { s1 with ack := ERR_INVALID_SILENCER_SETTING } ∧ SameButAck (preState s f) s' := by
  have hsame := handlePayload_rejected _ _ _ h1 rfl
  have e : ecatRecv s f = .ok { s1 with ack := ERR_INVALID_SILENCER_SETTING } := by
    unfold ecatRecv
    unfold preState slot1 at h1
    simp only [hid, hmsb, ↓reduceIte, ne_eq, not_true_eq_false, bind, Except.bind, pure, Except.pure]
    rw [h1]
    simp [ERR_INVALID_SILENCER_SETTING, ERR_BIT]
  rw [e] at h
  cases h
  refine ⟨rfl, ?_⟩
  have hs1 : s1 = { preState s f with modCycle := s1.modCycle, gainStmMode := s1.gainStmMode } := hsame
  unfold SameButAck
  conv => lhs; rw [hs1]

/-- what `ecat_recv` may change on a refused single-operation frame -/
def SameButHeader (s s' : State) : Prop :=
  s' = { s with ack := s'.ack, lastMsgId := s'.lastMsgId, rxData := s'.rxData,
                modCycle := s'.modCycle, gainStmMode := s'.gainStmMode }

theorem preState_same (s : State) (f : Array Nat) :
    preState s f = { s with lastMsgId := (preState s f).lastMsgId, rxData := (preState s f).rxData } := by
  unfold preState readFpgaState
  split
  · rfl
  · split <;> rfl

theorem SameButHeader_of (s X a1 : State) (ack : Nat)
    (hX : X = { s with lastMsgId := X.lastMsgId, rxData := X.rxData })
    (ha : a1 = { X with modCycle := a1.modCycle, gainStmMode := a1.gainStmMode }) :
    SameButHeader s { a1 with ack := ack } := by
  generalize X.lastMsgId = l at hX
  generalize X.rxData = r at hX
  subst hX
  generalize a1.modCycle = m at ha
  generalize a1.gainStmMode = g at ha
  subst ha
  rfl

/-- **rejected_changes_nothing**, frame level, single-operation frame, stated on the result alone:
if `ecat_recv` ends with `ack = ERR_INVALID_SILENCER_SETTING` then nothing but `ack`, `lastMsgId`,
`rxData` and the two private cursors differs from the state before the frame. -/
theorem ecatRecv_rejected_single (s : State) (f : Array Nat)
    (hslot : u16at f DrvLayout.Header_slot_2_offset_off = 0) :
    Post (ecatRecv s f) (fun s' => s'.ack = ERR_INVALID_SILENCER_SETTING → SameButHeader s s') := by
  unfold ecatRecv
  simp only [Post_bind, Post_ite, Post_pure, Post_error, ADDR_CTL_FLAG, Post_ctlWrite_main, Nat.reduceLT, hslot,
    ne_eq, not_true_eq_false, false_imp_iff, true_and, not_false_eq_true, true_imp_iff]
  refine ⟨fun _ _ => rfl, fun _ => ⟨fun _ hack => ?_, fun hm => ?_⟩⟩
  · simp [ERR_INVALID_MSG_ID, ERR_INVALID_SILENCER_SETTING] at hack
  · intro a ha
    refine ⟨fun _ hack => ?_, fun _ hack => ?_⟩
    · have hsame := handlePayload_rejected _ _ a ha hack
      have hpre := preState_same s f
      unfold preState at hpre
      exact SameButHeader_of s _ a.1 a.2 hpre hsame
    · exfalso
      have hlt := u8at_lt f DrvLayout.Header_msg_id_off
      simp only [ERR_INVALID_SILENCER_SETTING] at hack
      rw [hack] at hm
      exact hm (by decide)

end Autd3.SilGuard
