import Autd3.Lemmas.P02Clear
/-!
# Frame conditions of the single-frame configuration handlers (C02 clause "every other resource is left
exactly as it was"): closed forms of `configSilencer`, `configPwe`, `phaseCorrOp`, `configDebug`,
`configureForceFan`, `configureReadsFpgaState`, `cpuGpioOut`, `emulateGpioIn`, `synchronize`.
-/
namespace Autd3.P02
open Autd3 Autd3.Fw Autd3.Gen.Cpu Autd3.Gen

theorem hasFlag_two_pow (x k : Nat) : hasFlag x (2 ^ k) = x.testBit k := by
  unfold hasFlag
  cases h : x.testBit k
  · have : x &&& 2 ^ k ≠ 2 ^ k := by
      intro e
      have := congrArg (fun y => y.testBit k) e
      simp [Nat.testBit_and, h, Nat.testBit_two_pow_self] at this
    simpa using this
  · have : x &&& 2 ^ k = 2 ^ k := by
      apply Nat.eq_of_testBit_eq
      intro i
      rw [Nat.testBit_and, Nat.testBit_two_pow]
      by_cases hi : k = i
      · subst hi; simp [h]
      · simp [hi]
    simp [this]

theorem hasFlag_1 (x : Nat) : hasFlag x 1 = x.testBit 0 := hasFlag_two_pow x 0
theorem hasFlag_2 (x : Nat) : hasFlag x 2 = x.testBit 1 := hasFlag_two_pow x 1

theorem flags_no_req (f c : Nat) (h : FlagsOK f) (hc0 : c.testBit 0 = false) (hc1 : c.testBit 1 = false) :
    hasFlag ((f ||| c) % 65536) CTL_FLAG_MOD_SET = false ∧ hasFlag ((f ||| c) % 65536) CTL_FLAG_STM_SET = false := by
  obtain ⟨h0, h1⟩ := h
  have e : (65536 : Nat) = 2 ^ 16 := by decide
  simp only [CTL_FLAG_MOD_SET, CTL_FLAG_STM_SET, hasFlag_1, hasFlag_2, e, Nat.testBit_mod_two_pow, Nat.testBit_or, h0, h1, hc0, hc1]
  simp

/-- `setAndWaitUpdate` with a flag that is neither MOD_SET nor STM_SET never touches a swap chain -/
theorem saw_quiet (s : State) (flag : Nat) (h : WF s) (hc0 : flag.testBit 0 = false) (hc1 : flag.testBit 1 = false) :
    setAndWaitUpdate s flag = .ok { s with ctl := s.ctl.setIfInBounds 0 (s.flagsInternal % 65536) } :=
  saw_none s flag h.ctl (flags_no_req _ _ h.flags hc0 hc1).1 (flags_no_req _ _ h.flags hc0 hc1).2

theorem size_wordsAt (d : Array Nat) (off len : Nat) : (wordsAt d off len).size = len := by
  simp [wordsAt]

theorem rd_wordsAt (d : Array Nat) (off len i : Nat) :
    rd (wordsAt d off len) i = if i < len then u16at d (off + 2 * i) else 0 := by
  unfold wordsAt; rw [rd_map_range]

theorem u16at_lt (d : Array Nat) (i : Nat) : u16at d i < 65536 := by
  unfold u16at u8at; omega

/-! ### closed forms -/

theorem configDebug_eq (s : State) (d : Array Nat) (h : WF s) :
    configDebug s d = .ok ({ s with ctl := (writeLoop s.ctl 240 (fun i => rd (wordsAt d 8 16) i % 65536) 16).setIfInBounds 0
                                             (s.flagsInternal % 65536) }, NO_ERR) := by
  unfold configDebug
  rw [ctlWriteWords_main _ _ _ (by simp [ADDR_DEBUG_VALUE0_0, size_wordsAt])]
  simp only [ok_bind, size_wordsAt, ADDR_DEBUG_VALUE0_0, FwLayout.DebugOutIdx_value_off]
  rw [saw_quiet _ _ ?_ (by decide) (by decide)]
  · rfl
  · exact { h with ctl := by simp [h.ctl] }

theorem synchronize_eq (s : State) (d : Array Nat) (h : WF s) :
    synchronize s d = .ok ({ s with synchronized := true, ctl := s.ctl.setIfInBounds 0 (s.flagsInternal % 65536) }, NO_ERR) := by
  unfold synchronize
  simp only []
  rw [saw_quiet _ _ ?_ (by decide) (by decide)]
  · rfl
  · exact { h with }

theorem configPwe_eq (s : State) (d : Array Nat) (h : WF s) :
    configPwe s d = .ok ({ s with pwe := writeLoop s.pwe 0 (fun i => rd (wordsAt d 2 256) i % 65536) 256 }, NO_ERR) := by
  unfold configPwe
  rw [pweWriteWords_eq]
  simp [size_wordsAt, h.pwe, FwLayout.Pwe_size, ok_bind]
  rfl

theorem phaseCorrOp_eq (s : State) (d : Array Nat) (h : WF s) :
    phaseCorrOp s d = .ok ({ s with phaseCorr := writeLoop s.phaseCorr 0 (fun i => rd (wordsAt d 2 125) i % 65536) 125 }, NO_ERR) := by
  unfold phaseCorrOp
  have e : BRAM_CNT_SEL_PHASE_CORR <<< 8 = 256 := by decide
  have e2 : (TRANS_NUM + 1) >>> 1 = 125 := by decide
  rw [e, e2, ctlWriteWords_pc _ _ (by simp [size_wordsAt, h.phaseCorr]) (by simp [size_wordsAt])]
  simp only [ok_bind, size_wordsAt, FwLayout.PhaseCorr_size]
  rfl

theorem configSilencer_eq (s : State) (d : Array Nat) (h : WF s) :
    configSilencer s d =
      if hasFlag (u8at d 1) SILENCER_FLAG_FIXED_UPDATE_RATE_MODE then
        .ok ({ s with ctl := (((s.ctl.setIfInBounds 65 (u16at d 2 % 65536)).setIfInBounds 66 (u16at d 4 % 65536)).setIfInBounds 64
                                (u8at d 1 % 65536)).setIfInBounds 0 (s.flagsInternal % 65536) }, NO_ERR)
      else if validateSilencerSettings { s with strict := hasFlag (u8at d 1) SILENCER_FLAG_STRICT_MODE,
                                                minDivI := u16at d 2, minDivP := u16at d 4 }
                (sel s.stmDiv s.stmSegment) (sel s.modDiv s.modSegment) then
        .ok (s, ERR_INVALID_SILENCER_SETTING)
      else
        .ok ({ s with strict := hasFlag (u8at d 1) SILENCER_FLAG_STRICT_MODE, minDivI := u16at d 2, minDivP := u16at d 4,
                      ctl := (((s.ctl.setIfInBounds 67 (u16at d 2 % 65536)).setIfInBounds 68 (u16at d 4 % 65536)).setIfInBounds 64
                                (u8at d 1 % 65536)).setIfInBounds 0 (s.flagsInternal % 65536) }, NO_ERR) := by
  unfold configSilencer
  simp only [FwLayout.ConfigSilencer_flag_off, FwLayout.ConfigSilencer_value_intensity_off,
    FwLayout.ConfigSilencer_value_phase_off, ADDR_SILENCER_UPDATE_RATE_INTENSITY, ADDR_SILENCER_UPDATE_RATE_PHASE,
    ADDR_SILENCER_COMPLETION_STEPS_INTENSITY, ADDR_SILENCER_COMPLETION_STEPS_PHASE, ADDR_SILENCER_FLAG]
  by_cases hf : hasFlag (u8at d 1) SILENCER_FLAG_FIXED_UPDATE_RATE_MODE = true
  · simp only [hf, if_true, ctlWrite_main, Nat.reduceLT, ok_bind]
    rw [saw_quiet _ _ ?_ (by decide) (by decide)]
    · simp [ok_bind, pure, Except.pure]
    · exact { h with ctl := by simp [h.ctl] }
  · simp only [hf, if_false, Bool.false_eq_true]
    split <;> rename_i hv
    · simp only [hv, if_true]; rfl
    · simp only [hv, if_false, ctlWrite_main, Nat.reduceLT, ok_bind]
      rw [saw_quiet _ _ ?_ (by decide) (by decide)]
      · simp [ok_bind, pure, Except.pure]
      · exact { h with ctl := by simp [h.ctl] }

/-! ### invariant preservation helpers -/

theorem flagsOK_or (f c : Nat) (h : FlagsOK f) (c0 : c.testBit 0 = false) (c1 : c.testBit 1 = false) : FlagsOK (f ||| c) := by
  obtain ⟨h0, h1⟩ := h
  constructor <;> simp only [Nat.testBit_or, h0, h1, c0, c1, Bool.or_self]

theorem flagsOK_and (f c : Nat) (h : FlagsOK f) : FlagsOK (f &&& c) := by
  obtain ⟨h0, h1⟩ := h
  constructor <;> simp only [Nat.testBit_and, h0, h1, Bool.false_and]

/-- replacing the register file by one of the same size keeps `WF` -/
theorem wf_ctl (s : State) (c : Array Nat) (h : WF s) (hc : c.size = 256) : WF { s with ctl := c } :=
  { h with ctl := hc }

theorem wf_silencer_upd (s : State) (c : Array Nat) (st : Bool) (mi mp : Nat) (h : WF s) (hc : c.size = 256) :
    WF { s with strict := st, minDivI := mi, minDivP := mp, ctl := c } :=
  { h with ctl := hc }

theorem configureForceFan_frame (s : State) (d : Array Nat) (h : FlagsOK s.flagsInternal) :
    ∃ f', configureForceFan s d = .ok ({ s with flagsInternal := f' }, NO_ERR) ∧ FlagsOK f' ∧
      ((u8at d 1 ≠ 0 ∧ f' = s.flagsInternal ||| CTL_FLAG_FORCE_FAN) ∨
       (u8at d 1 = 0 ∧ f' = s.flagsInternal &&& (65535 - CTL_FLAG_FORCE_FAN))) := by
  unfold configureForceFan
  simp only [FwLayout.ForceFan_value_off]
  by_cases hv : u8at d 1 = 0
  · refine ⟨_, ?_, flagsOK_and _ (65535 - CTL_FLAG_FORCE_FAN) h, Or.inr ⟨hv, rfl⟩⟩
    simp [hv]
  · refine ⟨_, ?_, flagsOK_or _ CTL_FLAG_FORCE_FAN h (by decide) (by decide), Or.inl ⟨hv, rfl⟩⟩
    simp [hv]

/-- the GPIO-in flag word `emulateGpioIn` computes -/
def gpioInFlags (f flag : Nat) : Nat :=
  let setBit (f : Nat) (on : Bool) (bit : Nat) : Nat := if on then f ||| bit else f &&& (65535 - bit)
  let f := setBit f (hasFlag flag GPIO_IN_FLAG_0) CTL_FLAG_GPIO_IN_0
  let f := setBit f (hasFlag flag GPIO_IN_FLAG_1) CTL_FLAG_GPIO_IN_1
  let f := setBit f (hasFlag flag GPIO_IN_FLAG_2) CTL_FLAG_GPIO_IN_2
  setBit f (hasFlag flag GPIO_IN_FLAG_3) CTL_FLAG_GPIO_IN_3

theorem emulateGpioIn_eq (s : State) (d : Array Nat) :
    emulateGpioIn s d = .ok ({ s with flagsInternal := gpioInFlags s.flagsInternal (u8at d 1) }, NO_ERR) := rfl

theorem flagsOK_gpioIn (f flag : Nat) (h : FlagsOK f) : FlagsOK (gpioInFlags f flag) := by
  unfold gpioInFlags
  simp only []
  have step : ∀ (f : Nat) (on : Bool) (bit : Nat), FlagsOK f → bit.testBit 0 = false → bit.testBit 1 = false →
      FlagsOK (if on then f ||| bit else f &&& (65535 - bit)) := by
    intro f on bit hf b0 b1
    cases on
    · simpa using flagsOK_and f _ hf
    · simpa using flagsOK_or f bit hf b0 b1
  exact step _ _ _ (step _ _ _ (step _ _ _ (step _ _ _ h (by decide) (by decide)) (by decide) (by decide)) (by decide) (by decide)) (by decide) (by decide)

theorem configureReadsFpgaState_eq (s : State) (d : Array Nat) :
    configureReadsFpgaState s d = .ok ({ s with readsFpgaState := u8at d 1 ≠ 0 }, NO_ERR) := rfl

theorem cpuGpioOut_eq (s : State) (d : Array Nat) :
    cpuGpioOut s d = .ok ({ s with portA := u8at d 1 }, NO_ERR) := rfl

end Autd3.P02
