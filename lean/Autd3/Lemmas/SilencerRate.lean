import Autd3.Lemmas.SilencerInv
/-! Fixed-update-rate mode of both silencer filters: exact trajectory from ANY state (the mode has no rate memory),
    used by Props/C09 (`rate_mode_trajectory_*`, `rate_mode_completes_*`). Core Lean only. -/
namespace Autd3.Silencer

/-- closed form of the intensity filter in update-rate mode: `n` updates toward `T` at rate `r` from `c` -/
def posRI (c T : Int) (r n : Nat) : Int :=
  if c ≤ T then min (c + (n * r : Nat)) T else max (c - (n * r : Nat)) T

theorem applyI_rate (s : Sil) (t : Nat) (hf : s.fixedUpdateRate = true) :
    (s.applyI t).1 = { s with current := moveBy s.current ((t : Int) * 256 - s.current) s.value } := by
  simp only [Sil.applyI, Sil.updateRateI, hf, if_true]

theorem iterI_rate (s : Sil) (t : Nat) (hf : s.fixedUpdateRate = true) (n : Nat) :
    iterI s t n = { s with current := posRI s.current ((t : Int) * 256) s.value n } := by
  induction n with
  | zero =>
    simp only [iterI, posRI, Nat.zero_mul]
    have : (if s.current ≤ (t : Int) * 256 then min (s.current + ((0 : Nat) : Int)) ((t : Int) * 256)
        else max (s.current - ((0 : Nat) : Int)) ((t : Int) * 256)) = s.current := by
      split <;> omega
    rw [this]
  | succ n ih =>
    have hstep := applyI_rate { s with current := posRI s.current ((t : Int) * 256) s.value n } t hf
    rw [iterI, ih, hstep]
    simp only [posRI, Nat.succ_mul]
    generalize n * s.value = a
    generalize (t : Int) * 256 = T
    generalize s.current = c
    generalize s.value = r
    congr 1
    by_cases h : c ≤ T
    · simp only [h, if_true]
      have h1 : min (c + (a : Int)) T ≤ T := by omega
      rw [moveBy_up _ _ _ h1]; push_cast; omega
    · simp only [h, if_false]
      have h1 : T ≤ max (c - (a : Int)) T := by omega
      rw [moveBy_down _ _ _ h1]; push_cast; omega

/-- one update of the phase filter in update-rate mode, on the 16-bit circle: the signed remaining arc
`wrapStep (T - current)` keeps its direction and shrinks by `min |arc| rate`; `current` stays a 16-bit value -/
theorem phase_rate_step (c T : Int) (r : Nat) (hc : 0 ≤ c ∧ c < 65536) (hT : 0 ≤ T ∧ T < 65536) :
    (0 ≤ (moveBy c (wrapStep (T - c)) r) % 65536 ∧ (moveBy c (wrapStep (T - c)) r) % 65536 < 65536) ∧
    (0 ≤ wrapStep (T - c) →
      wrapStep (T - (moveBy c (wrapStep (T - c)) r) % 65536) = wrapStep (T - c) - min (wrapStep (T - c)) r) ∧
    (wrapStep (T - c) < 0 →
      wrapStep (T - (moveBy c (wrapStep (T - c)) r) % 65536) = wrapStep (T - c) + min (-wrapStep (T - c)) r) := by
  refine ⟨by omega, ?_, ?_⟩
  · intro h0
    rw [moveBy_pos c _ r h0]
    generalize hw : wrapStep (T - c) = w at *
    simp only [wrapStep] at hw ⊢
    split at hw <;> split at hw <;> split <;> split <;> omega
  · intro h0
    rw [moveBy_neg c _ r h0]
    generalize hw : wrapStep (T - c) = w at *
    simp only [wrapStep] at hw ⊢
    split at hw <;> split at hw <;> split <;> split <;> omega

theorem applyP_rate (s : Sil) (t : Nat) (hf : s.fixedUpdateRate = true) :
    (s.applyP t).1 = { s with current := (moveBy s.current (wrapStep ((t : Int) * 256 - s.current)) s.value) % 65536 } := by
  simp only [Sil.applyP, Sil.updateRateP, hf, if_true]

/-- the phase filter in update-rate mode from any 16-bit state: after `n` updates only `current` has changed, it is a
16-bit value, and the signed remaining arc is the initial one shortened by `min |arc| (n·rate)` -/
theorem iterP_rate (s : Sil) (t : Nat) (hf : s.fixedUpdateRate = true) (hc : 0 ≤ s.current ∧ s.current < 65536)
    (ht : t < 256) (n : Nat) :
    ∃ cn : Int, iterP s t n = { s with current := cn } ∧ (0 ≤ cn ∧ cn < 65536) ∧
      (0 ≤ wrapStep ((t : Int) * 256 - s.current) →
        wrapStep ((t : Int) * 256 - cn) =
          wrapStep ((t : Int) * 256 - s.current) - min (wrapStep ((t : Int) * 256 - s.current)) ((n * s.value : Nat) : Int)) ∧
      (wrapStep ((t : Int) * 256 - s.current) < 0 →
        wrapStep ((t : Int) * 256 - cn) =
          wrapStep ((t : Int) * 256 - s.current) + min (-wrapStep ((t : Int) * 256 - s.current)) ((n * s.value : Nat) : Int)) := by
  have hT : (0 : Int) ≤ (t : Int) * 256 ∧ (t : Int) * 256 < 65536 := by omega
  induction n with
  | zero =>
    refine ⟨s.current, ?_, hc, ?_, ?_⟩
    · simp only [iterP]
    · intro h; simp only [Nat.zero_mul]; omega
    · intro h; simp only [Nat.zero_mul]; omega
  | succ n ih =>
    obtain ⟨cn, e, hcn, hp, hn⟩ := ih
    have ha : (0 : Int) ≤ (n : Int) * (s.value : Int) := Int.mul_nonneg (Int.natCast_nonneg _) (Int.natCast_nonneg _)
    have hs := phase_rate_step cn ((t : Int) * 256) s.value hcn hT
    obtain ⟨hr, hsp, hsn⟩ := hs
    refine ⟨(moveBy cn (wrapStep ((t : Int) * 256 - cn)) s.value) % 65536, ?_, hr, ?_, ?_⟩
    · have hstep := applyP_rate { s with current := cn } t hf
      rw [iterP, e, hstep]
    · intro h0
      have h1 := hp h0
      have h2 : 0 ≤ wrapStep ((t : Int) * 256 - cn) := by omega
      rw [hsp h2, h1, Nat.succ_mul]; push_cast
      generalize wrapStep ((t : Int) * 256 - s.current) = d at *
      generalize ((n : Int) * (s.value : Int)) = a at *
      omega
    · intro h0
      have h1 := hn h0
      by_cases h2 : wrapStep ((t : Int) * 256 - cn) < 0
      · rw [hsn h2, h1, Nat.succ_mul]; push_cast
        generalize wrapStep ((t : Int) * 256 - s.current) = d at *
        generalize ((n : Int) * (s.value : Int)) = a at *
        omega
      · have h3 : wrapStep ((t : Int) * 256 - cn) = 0 := by omega
        rw [hsp (by omega), h3, Nat.succ_mul]; push_cast
        rw [h3] at h1; push_cast at h1
        generalize wrapStep ((t : Int) * 256 - s.current) = d at *
        generalize ((n : Int) * (s.value : Int)) = a at *
        omega

end Autd3.Silencer
