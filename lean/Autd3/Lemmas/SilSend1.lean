import Autd3.Lemmas.SilGuardWitness
import Autd3.Lemmas.Tuple2Final
/-!
# C08 at the level of SENDS, part 1: the send loop with refusals

`sendLoopR` is `Sender::send` for one device and a pair of operations (a single datagram is the pair
`(dg, null)`, exactly as the SDK sends it): pack the next frame with `pack_op2`, deliver it, go on while the frame is
acknowledged with its message id, STOP at the first error acknowledgement (bit 7 set) and report it.  Unlike
`Rt.sendLoop` / `Rt.sendLoop2` (which return `none` for a refused send) the device state after the refused frame is
returned, so that "accepted or rejected" histories can be stated.

* `sendLoopR_accept`: a run that ends without error is a run of `Rt.sendLoop2`; with a null second member it is a
  run of `Rt.sendLoop` (`Sends`), so every C01/C02/C03 fact about accepted sends applies;
* `sendLoopR_frames`: invariant rule — a predicate on states that every delivered frame of the send preserves
  holds at the end of the send, however it ends.
-/
open Autd3 Autd3.Fw Autd3.Wire Autd3.Gen.Cpu Autd3.Gen Autd3.Rt
namespace Autd3.SilSend

/-- `Sender::send` for one device and the operations `(o1, o2)`.  Result: transmit buffer, device, and `none` if every
frame was acknowledged / `some ack` if the send stopped at a frame answered with the error code `ack`.  No result
(`none`) for a pack error (nothing more is transmitted), a firmware panic, or an acknowledgement that is neither the
message id nor an error (a lost frame; the link layer is not modelled). -/
def sendLoopR : Nat → Op → Op → State → Tx → Option (Tx × State × Option Nat)
  | 0, _, _, _, _ => none
  | fuel + 1, o1, o2, s, t =>
    if o1.done && o2.done then some (t, s, none) else
    match packOp2 o1 o2 s.numTr t with
    | .error _ => none
    | .ok (o1', o2', t') =>
      match ecatRecv s t'.frame with
      | .error _ => none
      | .ok s' =>
        if s'.ack = t'.msgId then sendLoopR fuel o1' o2' s' t'
        else if s'.ack &&& ERR_BIT ≠ 0 then some (t', s', some s'.ack) else none

/-- a complete send of the tuple `(A, B)` (`B = .null`: of the single datagram `A`) from `(s, t)`:
outcome `r = none` (accepted) or `r = some ack` (refused with `ack`), device `s'` and buffer `t'` afterwards -/
def SendsR (A B : Dg) (s : State) (t : Tx) (t' : Tx) (s' : State) (r : Option Nat) : Prop :=
  ∃ fuel, sendLoopR fuel (Op.ofDg A) (Op.ofDg B) s t = some (t', s', r)

/-- an accepted run is a run of the loop of `Lemmas/Rt2Slot.lean` -/
theorem sendLoopR_accept : ∀ fuel o1 o2 s t t' s', sendLoopR fuel o1 o2 s t = some (t', s', none) →
    sendLoop2 fuel o1 o2 s t = some (t', s') := by
  intro fuel
  induction fuel with
  | zero => intro o1 o2 s t t' s' h; simp [sendLoopR] at h
  | succ fuel ih =>
    intro o1 o2 s t t' s' h
    unfold sendLoopR at h
    unfold sendLoop2
    by_cases hd : (o1.done && o2.done) = true
    · rw [if_pos hd] at h ⊢
      simp only [Option.some.injEq, Prod.mk.injEq, and_true] at h
      rw [h.1, h.2]
    · rw [if_neg hd] at h ⊢
      cases hp : packOp2 o1 o2 s.numTr t with
      | error e => rw [hp] at h; cases h
      | ok r =>
        obtain ⟨o1', o2', t1⟩ := r
        rw [hp] at h
        simp only [] at h ⊢
        cases hr : ecatRecv s t1.frame with
        | error e => rw [hr] at h; cases h
        | ok s1 =>
          rw [hr] at h
          simp only [] at h ⊢
          by_cases ha : s1.ack = t1.msgId
          · rw [if_pos ha] at h ⊢; exact ih _ _ _ _ _ _ h
          · rw [if_neg ha] at h
            split at h
            · simp at h
            · cases h

/-- with a second member that is done (the null datagram) the pair loop is the single-operation loop -/
theorem sendLoop2_done2 : ∀ fuel o1 o2 s t, o2.done = true → ∀ r, sendLoop2 fuel o1 o2 s t = some r →
    sendLoop fuel o1 s t = some r := by
  intro fuel
  induction fuel with
  | zero => intro o1 o2 s t _ r h; simp [sendLoop2] at h
  | succ fuel ih =>
    intro o1 o2 s t h2 r h
    unfold sendLoop2 at h
    unfold sendLoop
    by_cases h1 : o1.done = true
    · simp only [h1, h2, Bool.and_self, if_true] at h ⊢; exact h
    · have h1' : o1.done = false := by simpa using h1
      simp only [h1', h2, Bool.false_and, Bool.false_eq_true, if_false] at h ⊢
      have hp : packOp2 o1 o2 s.numTr t =
          match packOp o1 s.numTr t with
          | .error e => .error (e, { t with msgId := ((t.msgId + 1) % 256) &&& Drv.MSG_ID_MAX, slot2 := 0 })
          | .ok (o1', t', _) => .ok (o1', o2, t') := by
        unfold packOp2; simp only [h1', h2]; rfl
      rw [hp] at h
      cases hq : packOp o1 s.numTr t with
      | error e => rw [hq] at h; cases h
      | ok q =>
        obtain ⟨o1', t1, sz⟩ := q
        rw [hq] at h
        simp only [] at h ⊢
        cases hr : ecatRecv s t1.frame with
        | error e => rw [hr] at h; cases h
        | ok s1 =>
          rw [hr] at h
          simp only [] at h ⊢
          by_cases ha : s1.ack = t1.msgId
          · rw [if_pos ha] at h ⊢; exact ih _ _ _ _ h2 r h
          · rw [if_neg ha] at h; cases h

/-- **an accepted complete send of a single datagram is a `Sends`** (the vocabulary of C01/C02) -/
theorem sendsR_single_accept {A : Dg} {s : State} {t t' : Tx} {s' : State} (h : SendsR A .null s t t' s' none) :
    Sends A s t t' s' := by
  obtain ⟨fuel, h⟩ := h
  exact ⟨fuel, sendLoop2_done2 fuel _ _ s t rfl _ (sendLoopR_accept fuel _ _ s t t' s' h)⟩

/-- **an accepted complete send of a tuple is a `Sends2`** (the vocabulary of C03) -/
theorem sendsR_pair_accept {A B : Dg} {s : State} {t t' : Tx} {s' : State} (h : SendsR A B s t t' s' none) :
    Sends2 A B s t t' s' := by
  obtain ⟨fuel, h⟩ := h
  exact ⟨fuel, sendLoopR_accept fuel _ _ s t t' s' h⟩

/-- **invariant rule for complete sends, accepted or refused**: `J` is a predicate on (operation pair, device, buffer);
if it is kept by every frame that is packed and delivered (whatever the acknowledgement), then `Q` — which `J` implies
— holds for the device after the send, however the send ends -/
theorem sendLoopR_frames (J : Op → Op → State → Tx → Prop) (Q : State → Tx → Prop)
    (hQ : ∀ o1 o2 s t, J o1 o2 s t → Q s t)
    (hstep : ∀ o1 o2 s t o1' o2' t' s', J o1 o2 s t → (o1.done && o2.done) = false →
      packOp2 o1 o2 s.numTr t = .ok (o1', o2', t') →
      ecatRecv s t'.frame = .ok s' → (s'.ack = t'.msgId → J o1' o2' s' t') ∧ (s'.ack ≠ t'.msgId → Q s' t')) :
    ∀ fuel o1 o2 s t t' s' r, J o1 o2 s t → sendLoopR fuel o1 o2 s t = some (t', s', r) → Q s' t' := by
  intro fuel
  induction fuel with
  | zero => intro o1 o2 s t t' s' r _ h; simp [sendLoopR] at h
  | succ fuel ih =>
    intro o1 o2 s t t' s' r hJ h
    unfold sendLoopR at h
    by_cases hd : (o1.done && o2.done) = true
    · rw [if_pos hd] at h
      simp only [Option.some.injEq, Prod.mk.injEq] at h
      rw [← h.1, ← h.2.1]; exact hQ _ _ _ _ hJ
    · rw [if_neg hd] at h
      cases hp : packOp2 o1 o2 s.numTr t with
      | error e => rw [hp] at h; cases h
      | ok q =>
        obtain ⟨o1', o2', t1⟩ := q
        rw [hp] at h
        simp only [] at h
        cases hr : ecatRecv s t1.frame with
        | error e => rw [hr] at h; cases h
        | ok s1 =>
          rw [hr] at h
          simp only [] at h
          obtain ⟨k1, k2⟩ := hstep _ _ _ _ _ _ _ _ hJ (by simpa using hd) hp hr
          by_cases ha : s1.ack = t1.msgId
          · rw [if_pos ha] at h; exact ih _ _ _ _ _ _ _ (k1 ha) h
          · rw [if_neg ha] at h
            split at h
            · simp only [Option.some.injEq, Prod.mk.injEq] at h
              rw [← h.1, ← h.2.1]; exact k2 ha
            · cases h

end Autd3.SilSend
