import Autd3.Lemmas.Hist9c
/-!
History independence (C02), trace level, part 1: histories.

`Legal s dg` = the datagram `dg` is well-formed and the firmware's guards accept it on device `s` (exactly the
hypotheses of the C01 round trip of its kind).  `Run s t h s' t'` = the history `h` (a list of datagrams) is sent
from device `s` / transmit buffer `t`, every datagram is legal where it is sent and every frame is acknowledged
(`Rt.Sends`), ending in `(s', t')`.  `step_inv`: one legal, accepted send keeps the round-trip invariant
(`Rt.WF`, 622-byte buffer, fresh message id), keeps the transducer count, and leaves the stored phase correction as
it was unless the datagram is Clear (all zero afterwards) or PhaseCorrection (the datagram's bytes afterwards).
`run_inv` folds this over a history.

Kinds covered: Clear, Synchronize, ForceFan, ReadsFPGAState, CpuGPIOOut, EmulateGPIOIn, GPIOOutputs, PhaseCorrection,
PulseWidthEncoder, Silencer (both forms), Gain, Modulation, FociSTM, GainSTM, the four SwapSegment datagrams, and the
null datagram.  Not a member of a history: `firmInfo` (the firmware-version query; it addresses no resource).
-/
open Autd3 Autd3.Fw Autd3.Wire Autd3.Gen.Cpu Autd3.Gen Autd3.Rt
namespace Autd3.Hist

/-- the datagram is well-formed and accepted by the guards of device `s` -/
def Legal (s : State) : Dg → Prop
  | .clear => True
  | .sync => True
  | .null => True
  | .forceFan _ => True
  | .readsFpgaState _ => True
  | .cpuGpioOut v => v < 256
  | .gpioIn f => f < 256
  | .debug vals => ∀ i, rd vals i < 18446744073709551616
  | .phaseCorr bytes => bytes.size = s.numTr ∧ ∀ i, rd bytes i < 256
  | .pwe table => table.size = 256 ∧ ∀ i, rd table i < 512
  | .silencerSteps i p strict => (0 < i ∧ i < 65536) ∧ (0 < p ∧ p < 65536) ∧
      validateSilencerSettings { s with strict := strict, minDivI := i, minDivP := p }
        (sel s.stmDiv s.stmSegment) (sel s.modDiv s.modSegment) = false
  | .silencerRate i p => i < 65536 ∧ p < 65536
  | .gain seg tr drives => seg ≤ 1 ∧ (tr = none ∨ ∃ v, tr = some (Drv.TRANSITION_MODE_IMMEDIATE, v)) ∧
      ∀ i, rd drives i < 65536
  | .modulation seg tr rep div samples => ModOK s seg tr rep div samples ∧
      validateTransitionMode s.modSegment seg rep (trMode tr) = false ∧
      validateSilencerSettings s (sel s.stmDiv s.stmSegment) div = false
  | .fociStm n seg tr rep div ss records => FociOK s n seg tr rep div ss records (records.size / n) ∧
      validateTransitionMode s.stmSegment seg rep (trMode tr) = false ∧
      validateSilencerSettings s div (sel s.modDiv s.modSegment) = false
  | .gainStm mode seg tr rep div patterns => GOK s mode seg tr rep div patterns ∧
      validateTransitionMode s.stmSegment seg rep (trMode tr) = false ∧
      validateSilencerSettings s div (sel s.modDiv s.modSegment) = false
  | .swapGain seg mode _ => mode = Drv.TRANSITION_MODE_IMMEDIATE ∧ seg ≤ 1 ∧
      (sel s.stmMode seg = STM_MODE_GAIN ∧ sel s.stmCycle seg = 1) ∧
      validateSilencerSettings s (sel s.stmDiv seg) (sel s.modDiv s.modSegment) = false
  | .swapMod seg mode value => seg ≤ 1 ∧ ValidTr mode value ∧ value < 18446744073709551616 ∧
      validateTransitionMode s.modSegment seg (sel s.modRep seg) mode = false ∧
      validateSilencerSettings s (sel s.stmDiv s.stmSegment) (sel s.modDiv seg) = false ∧
      ¬(mode = TRANSITION_MODE_SYS_TIME ∧ value < s.dcSysTime + SYS_TIME_TRANSITION_MARGIN)
  | .swapFoci seg mode value => seg ≤ 1 ∧ ValidTr mode value ∧ value < 18446744073709551616 ∧
      sel s.stmMode seg = STM_MODE_FOCUS ∧
      validateTransitionMode s.stmSegment seg (sel s.stmRep seg) mode = false ∧
      validateSilencerSettings s (sel s.stmDiv seg) (sel s.modDiv s.modSegment) = false ∧
      ¬(mode = TRANSITION_MODE_SYS_TIME ∧ value < s.dcSysTime + SYS_TIME_TRANSITION_MARGIN)
  | .swapGainStm seg mode value => seg ≤ 1 ∧ ValidTr mode value ∧ value < 18446744073709551616 ∧
      (sel s.stmMode seg = STM_MODE_GAIN ∧ sel s.stmCycle seg ≠ 1) ∧
      validateTransitionMode s.stmSegment seg (sel s.stmRep seg) mode = false ∧
      validateSilencerSettings s (sel s.stmDiv seg) (sel s.modDiv s.modSegment) = false ∧
      ¬(mode = TRANSITION_MODE_SYS_TIME ∧ value < s.dcSysTime + SYS_TIME_TRANSITION_MARGIN)
  | .firmInfo _ => False

/-- the phase correction in force: `none` = all zero (power-on / after Clear), `some b` = the bytes of a datagram -/
def pcStep (acc : Option (Array Nat)) : Dg → Option (Array Nat)
  | .clear => none
  | .phaseCorr b => some b
  | _ => acc

/-- the last PhaseCorrection datagram of a history after its last Clear, if any -/
def lastPc (acc : Option (Array Nat)) (h : List Dg) : Option (Array Nat) := h.foldl pcStep acc

def pcArr (n : Nat) : Option (Array Nat) → Array Nat
  | none => Array.replicate n 0
  | some b => b

/-- a stored phase correction that a device with `n` transducers accepts -/
def PcOK (n : Nat) : Option (Array Nat) → Prop
  | none => True
  | some b => b.size = n ∧ ∀ i, rd b i < 256

theorem size_phaseCorrection (s : State) : (Obs.phaseCorrection s).size = s.numTr := by
  unfold Obs.phaseCorrection; simp

theorem sends_null (s : State) (t t' : Tx) (s' : State) (h : Sends .null s t t' s') : t' = t ∧ s' = s := by
  obtain ⟨fuel, h⟩ := h
  cases fuel with
  | zero => simp [sendLoop] at h
  | succ f =>
    have : (Op.ofDg Dg.null).done = true := rfl
    simp only [sendLoop, this, if_true, Option.some.injEq, Prod.mk.injEq] at h
    exact ⟨h.1.symm, h.2.symm⟩

/-- **one legal, accepted send**: invariant, transducer count, stored phase correction -/
theorem step_inv (s : State) (t : Tx) (hW : WF s) (hT : TxOK t) (hF : Fresh s t) (dg : Dg) (hL : Legal s dg)
    (t' : Tx) (s' : State) (h : Sends dg s t t' s') (acc : Option (Array Nat))
    (hpc : Obs.phaseCorrection s = pcArr s.numTr acc) (hok : PcOK s.numTr acc) :
    WF s' ∧ TxOK t' ∧ Fresh s' t' ∧ s'.numTr = s.numTr ∧
      Obs.phaseCorrection s' = pcArr s.numTr (pcStep acc dg) ∧ PcOK s.numTr (pcStep acc dg) := by
  have keep : ∀ {t0 : Tx} {s0 : State}, Sends dg s t t0 s0 → WF s0 → TxOK t0 → Fresh s0 t0 → Keeps s s0 →
      pcStep acc dg = acc →
      WF s' ∧ TxOK t' ∧ Fresh s' t' ∧ s'.numTr = s.numTr ∧
        Obs.phaseCorrection s' = pcArr s.numTr (pcStep acc dg) ∧ PcOK s.numTr (pcStep acc dg) := by
    intro t0 s0 hS a b c k e
    obtain ⟨rfl, rfl⟩ := Rt.Sends_unique hS h
    exact ⟨a, b, c, k.2, by rw [e, k.phaseCorrection, hpc], by rw [e]; exact hok⟩
  cases dg with
  | clear =>
    obtain ⟨t0, s0, hS, a, b, c, n, p, _⟩ := clear_roundtrip s t hW hT hF
    obtain ⟨rfl, rfl⟩ := Rt.Sends_unique hS h
    exact ⟨a, b, c, n, p, trivial⟩
  | sync =>
    obtain ⟨t0, s0, hS, a, b, c, _⟩ := sync_roundtrip s t hW hT hF
    exact keep hS a b c (cfg_sends_keeps _ rfl s t _ _ hT hS) rfl
  | null =>
    obtain ⟨rfl, rfl⟩ := sends_null s t t' s' h
    exact ⟨hW, hT, hF, rfl, hpc, hok⟩
  | forceFan v =>
    obtain ⟨t0, s0, hS, a, b, c, _⟩ := forceFan_roundtrip' s t v hW hT hF
    exact keep hS a b c (cfg_sends_keeps _ rfl s t _ _ hT hS) rfl
  | readsFpgaState v =>
    obtain ⟨t0, s0, hS, a, b, c, _⟩ := readsFpgaState_roundtrip' s t hW hT hF v
    exact keep hS a b c (cfg_sends_keeps _ rfl s t _ _ hT hS) rfl
  | cpuGpioOut v =>
    obtain ⟨t0, s0, hS, a, b, c, _⟩ := cpuGpioOut_roundtrip' s t hW hT hF v hL
    exact keep hS a b c (cfg_sends_keeps _ rfl s t _ _ hT hS) rfl
  | gpioIn f =>
    obtain ⟨t0, s0, hS, a, b, c, _⟩ := gpioIn_roundtrip' s t hW hT hF f hL
    exact keep hS a b c (cfg_sends_keeps _ rfl s t _ _ hT hS) rfl
  | debug vals =>
    obtain ⟨t0, s0, hS, a, b, c, _⟩ := debug_roundtrip' s t hW hT hF vals hL
    exact keep hS a b c (cfg_sends_keeps _ rfl s t _ _ hT hS) rfl
  | phaseCorr bytes =>
    obtain ⟨t0, s0, hS, a, b, c, p⟩ := phaseCorr_roundtrip' s t hW hT hF bytes hL.1 hL.2
    obtain ⟨rfl, rfl⟩ := Rt.Sends_unique hS h
    have n : s0.numTr = s.numTr := by rw [← size_phaseCorrection s0, p, hL.1]
    exact ⟨a, b, c, n, p, hL⟩
  | pwe table =>
    obtain ⟨t0, s0, hS, a, b, c, _⟩ := pwe_roundtrip' s t hW hT hF table hL.1 hL.2
    exact keep hS a b c (cfg_sends_keeps _ rfl s t _ _ hT hS) rfl
  | silencerSteps i p strict =>
    obtain ⟨t0, s0, hS, a, b, c, _⟩ := silencerSteps_roundtrip' s t hW hT hF i p strict hL.1 hL.2.1 hL.2.2
    exact keep hS a b c (cfg_sends_keeps _ rfl s t _ _ hT hS) rfl
  | silencerRate i p =>
    obtain ⟨t0, s0, hS, a, b, c, _⟩ := silencerRate_roundtrip' s t hW hT hF i p hL.1 hL.2
    exact keep hS a b c (cfg_sends_keeps _ rfl s t _ _ hT hS) rfl
  | gain seg tr drives =>
    obtain ⟨⟨t0, s0, hS⟩, f⟩ := gain_sends s t hW hT hF seg hL.1 tr hL.2.1 drives hL.2.2
    obtain ⟨a, b, c, _, x, _⟩ := f _ _ hS
    exact keep hS a b c ⟨x.phaseCorr, x.numTr⟩ rfl
  | modulation seg tr rep div samples =>
    obtain ⟨⟨t0, s0, hS⟩, f⟩ := mod_sends s t hW hT hF seg tr rep div samples hL.1 hL.2.1 hL.2.2
    obtain ⟨a, b, c, _, x, _⟩ := f _ _ hS
    exact keep hS a b c ⟨x.phaseCorr, x.numTr⟩ rfl
  | fociStm n seg tr rep div ss records =>
    obtain ⟨⟨t0, s0, hS⟩, f⟩ := foci_sends s t hW hT hF n seg tr rep div ss records _ hL.1 hL.2.1 hL.2.2
    obtain ⟨a, b, c, _, x, _⟩ := f _ _ hS
    exact keep hS a b c ⟨x.phaseCorr, x.numTr⟩ rfl
  | gainStm mode seg tr rep div patterns =>
    obtain ⟨⟨t0, s0, hS⟩, f⟩ := gstm_sends s t hW hT hF mode seg tr rep div patterns hL.1 hL.2.1 hL.2.2
    obtain ⟨a, b, c, _, x, _⟩ := f _ _ hS
    exact keep hS a b c ⟨x.phaseCorr, x.numTr⟩ rfl
  | swapGain seg mode value =>
    obtain ⟨rfl, hseg, g0, g2⟩ := hL
    obtain ⟨t0, s0, hS, a, b, c, _⟩ := swapGain_roundtrip' s t hW hT hF seg value hseg g0 g2
    exact keep hS a b c (swapGain_sends_keeps seg value s t _ _ hT hS) rfl
  | swapMod seg mode value =>
    obtain ⟨hseg, hv, hval, g1, g2, hm⟩ := hL
    obtain ⟨t0, s0, hS, a, b, c, _⟩ := swapMod_roundtrip' s t hW hT hF seg mode value hseg hv hval g1 g2 hm
    exact keep hS a b c (swapMod_sends_keeps seg mode value s t _ _ hT hS) rfl
  | swapFoci seg mode value =>
    obtain ⟨hseg, hv, hval, g0, g1, g2, hm⟩ := hL
    obtain ⟨t0, s0, hS, a, b, c, _⟩ := swapFoci_roundtrip' s t hW hT hF seg mode value hseg hv hval g0 g1 g2 hm
    exact keep hS a b c (swapFoci_sends_keeps seg mode value s t _ _ hT hS) rfl
  | swapGainStm seg mode value =>
    obtain ⟨hseg, hv, hval, g0, g1, g2, hm⟩ := hL
    obtain ⟨t0, s0, hS, a, b, c, _⟩ := swapGainStm_roundtrip' s t hW hT hF seg mode value hseg hv hval g0 g1 g2 hm
    exact keep hS a b c (swapGainStm_sends_keeps seg mode value s t _ _ hT hS) rfl
  | firmInfo ty => exact hL.elim

end Autd3.Hist
