import Autd3.Lemmas.Hist8
import Autd3.Lemmas.Rt2Obs
/-!
History independence / frame conditions (C02), part 9a: the OTHER STM segment, in full.  `SegObsSame s s' g` lists
every read-back accessor of one STM segment (`Obs.lean`): mode, division, number of patterns, loop count, sound
speed, foci count, the raw memory and `drives_at` for EVERY index.  Using the C01 footprints (`Rt.gain_send_foot`,
`Rt.foci_send_foot`, `Rt.gstm_send_foot`: a Gain / GainSTM send never writes registers 91…94, a FociSTM send only
those of its own segment) it holds for the other segment after every complete send of a Gain, FociSTM or GainSTM
datagram, whatever that segment holds (gain, GainSTM, FociSTM with any foci count).
-/
open Autd3 Autd3.Fw Autd3.Wire Autd3.Gen.Cpu Autd3.Gen Autd3.Rt
namespace Autd3.Hist

/-- every `Obs`-level observation of STM segment `g` reads the same in `s'` as in `s` -/
structure SegObsSame (s s' : State) (g : Nat) : Prop where
  gainMode : Obs.isStmGainMode s' g = Obs.isStmGainMode s g
  div : Obs.stmDiv s' g = Obs.stmDiv s g
  cycle : Obs.stmCycle s' g = Obs.stmCycle s g
  rep : Obs.stmRep s' g = Obs.stmRep s g
  soundSpeed : Obs.soundSpeed s' g = Obs.soundSpeed s g
  numFoci : Obs.numFoci s' g = Obs.numFoci s g
  mem : Obs.stmMem s' g = Obs.stmMem s g
  hdr : stmHdr s' g = stmHdr s g
  drives : ∀ idx, Obs.drivesAt s' g idx = Obs.drivesAt s g idx

theorem segObsSame_of {s s' : State} {g : Nat} (hpc : s'.phaseCorr = s.phaseCorr) (hn : s'.numTr = s.numTr)
    (hm : Obs.stmMem s' g = Obs.stmMem s g)
    (hr : Obs.stmDiv s' g = Obs.stmDiv s g ∧ Obs.stmRep s' g = Obs.stmRep s g ∧
      Obs.stmCycle s' g = Obs.stmCycle s g ∧ Obs.isStmGainMode s' g = Obs.isStmGainMode s g)
    (hss : Obs.soundSpeed s' g = Obs.soundSpeed s g) (hnf : Obs.numFoci s' g = Obs.numFoci s g) :
    SegObsSame s s' g :=
  ⟨hr.2.2.2, hr.1, hr.2.2.1, hr.2.1, hss, hnf, hm, by unfold stmHdr; rw [hr.1, hr.2.1, hr.2.2.1, hr.2.2.2],
    fun idx => drivesAt_seg_congr s s' g hm hr.2.2.2 hpc hn (fun _ => ⟨hss, hnf⟩) idx⟩

/-- registers 91…94 (sound speed / foci count of both segments) are outside the footprint of Gain and GainSTM -/
theorem focusRegs_TG {s s' : State} {er : State → State} (h : Foot er TG s s') (g : Nat) (hg : g ≤ 1) :
    Obs.soundSpeed s' g = Obs.soundSpeed s g ∧ Obs.numFoci s' g = Obs.numFoci s g := by
  constructor
  · unfold Obs.soundSpeed; rw [h.regs _ (by simp only [TG, ADDR_STM_SOUND_SPEED0]; omega)]
  · unfold Obs.numFoci; rw [h.regs _ (by simp only [TG, ADDR_STM_NUM_FOCI0]; omega)]

/-- a FociSTM send to `seg` leaves the focus registers of the other segment -/
theorem focusRegs_TF {s s' : State} {er : State → State} {seg : Nat} (hseg : seg ≤ 1) (h : Foot er (TF seg) s s') :
    Obs.soundSpeed s' (1 - seg) = Obs.soundSpeed s (1 - seg) ∧ Obs.numFoci s' (1 - seg) = Obs.numFoci s (1 - seg) := by
  constructor
  · unfold Obs.soundSpeed; rw [h.regs _ (by simp only [TF, TG, ADDR_STM_SOUND_SPEED0]; omega)]
  · unfold Obs.numFoci; rw [h.regs _ (by simp only [TF, TG, ADDR_STM_NUM_FOCI0]; omega)]

end Autd3.Hist
