import Autd3.Lemmas.Tuple2Proto
/-!
General tuples, GainSTM instance, part A: the byte level.  `GainSTM::pack` at an arbitrary offset `k`, what the
firmware reads from `payload[k..]` of any buffer that agrees with the packed one on the reported bytes, and a
finer footprint of `gstmTail` (the CPU latches `stmDiv` / `stmSegment` and everything outside the STM memories,
`stmCycle`, `stmMode`, the swap chain and the controller registers stay).
-/
set_option linter.unusedSimpArgs false
open Autd3 Autd3.Fw Autd3.Wire Autd3.Gen.Cpu Autd3.Gen Autd3.Rt
namespace Autd3.Tuple2

/-! ### the handler's view of a buffer that agrees with the packed one on `[k, k + sz)` -/

theorem u8at_view (b' b'' : Array Nat) (k sz : Nat) (hb : b''.size = 622)
    (hag : ∀ i, k ≤ i → i < k + sz → rd b'' i = rd b' i) (i : Nat) (hi : i < sz) :
    u8at (b''.extract k 622) i = u8at b' (k + i) := by
  have hx : b''.extract k 622 = b''.extract k b''.size := by rw [hb]
  rw [hx, u8at_extract]
  unfold u8at
  rw [hag _ (by omega) (by omega)]

theorem u16at_view (b' b'' : Array Nat) (k sz : Nat) (hb : b''.size = 622)
    (hag : ∀ i, k ≤ i → i < k + sz → rd b'' i = rd b' i) (i : Nat) (hi : i + 1 < sz) :
    u16at (b''.extract k 622) i = u16at b' (k + i) := by
  unfold u16at
  rw [u8at_view b' b'' k sz hb hag i (by omega), u8at_view b' b'' k sz hb hag (i + 1) (by omega)]
  rfl

theorem u64at_view (b' b'' : Array Nat) (k sz : Nat) (hb : b''.size = 622)
    (hag : ∀ i, k ≤ i → i < k + sz → rd b'' i = rd b' i) (i : Nat) (hi : i + 7 < sz) :
    u64at (b''.extract k 622) i = u64at b' (k + i) := by
  unfold u64at
  rw [u16at_view b' b'' k sz hb hag i (by omega), u16at_view b' b'' k sz hb hag (i + 2) (by omega),
    u16at_view b' b'' k sz hb hag (i + 4) (by omega), u16at_view b' b'' k sz hb hag (i + 6) (by omega)]
  rfl

/-! ### `GainSTM::pack` at offset `k` -/

/-- the BEGIN frame packed at offset `k` -/
def gstmFirstPayloadAt (b : Array Nat) (patterns : Array (Array Nat)) (k mode nt send flag tm div rep tv : Nat) : Array Nat :=
  put64 (put16 (put16 (put8 (put8 (put8 (put8 (gstmData mode (k + 16) nt patterns 0 b send) (k + 0) Drv.TAG_GainSTM) (k + 1) flag)
    (k + 2) mode) (k + 3) tm) (k + 4) div) (k + 6) rep) (k + 8) tv

/-- a following frame packed at offset `k` -/
def gstmNextPayloadAt (b : Array Nat) (patterns : Array (Array Nat)) (k mode nt c send flag : Nat) : Array Nat :=
  put8 (put8 (gstmData mode (k + 2) nt patterns c b send) (k + 0) Drv.TAG_GainSTM) (k + 1) flag

/-- the operation state after `c` patterns -/
def gstmOp (mode seg : Nat) (tr : Tr) (rep div : Nat) (patterns : Array (Array Nat)) (c : Nat) : Op :=
  { dg := .gainStm mode seg tr rep div patterns, sent := c, done := decide (c = patterns.size) }

theorem pack_gstm_next_at (mode seg : Nat) (tr : Tr) (rep div : Nat) (patterns : Array (Array Nat)) (nt : Nat) (b : Array Nat)
    (k c : Nat) (hb : b.size = 622) (hk : k + (2 + nt * 2) ≤ 622) (hsz : 2 ≤ patterns.size ∧ patterns.size ≤ 1024)
    (hc0 : 0 < c) (hcn : c < patterns.size) :
    (gstmOp mode seg tr rep div patterns c).pack nt b k =
      .ok (gstmOp mode seg tr rep div patterns (c + min (perFrame mode) (patterns.size - c)),
        gstmNextPayloadAt b patterns k mode nt c (min (perFrame mode) (patterns.size - c))
          (gstmWireFlag (decide (c + min (perFrame mode) (patterns.size - c) = patterns.size)) tr.isSome seg
            (min (perFrame mode) (patterns.size - c))),
        2 + nt * 2) := by
  unfold Op.pack gstmNextPayloadAt gstmData gstmWireFlag gstmOp
  have h0 : ¬ (patterns.size < Drv.STM_BUF_SIZE_MIN ∨ patterns.size > Drv.GAIN_STM_BUF_SIZE_MAX) := by
    simp only [Drv.STM_BUF_SIZE_MIN, Drv.GAIN_STM_BUF_SIZE_MAX]; omega
  have hc' : ¬ c = 0 := by omega
  have hnT : min nt ((622 - k - 2) / 2) = nt := by omega
  have hper : (if mode = Drv.GainSTMMode_PhaseIntensityFull then 1 else if mode = Drv.GainSTMMode_PhaseFull then 2 else 4) =
      perFrame mode := rfl
  simp only [h0, if_false, hc', hb, DrvLayout.GainSTMSubseq_size, hnT, hper]
  simp [ite_pure_yield, foldl_range', gstmStep, patAt, DrvLayout.GainSTMSubseq_tag_off, DrvLayout.GainSTMSubseq_flag_off]

theorem pack_gstm_first_at (mode seg : Nat) (tr : Tr) (rep div : Nat) (patterns : Array (Array Nat)) (nt : Nat) (b : Array Nat)
    (k : Nat) (hb : b.size = 622) (hk : k + (16 + nt * 2) ≤ 622) (hsz : 2 ≤ patterns.size ∧ patterns.size ≤ 1024) :
    (gstmOp mode seg tr rep div patterns 0).pack nt b k =
      .ok (gstmOp mode seg tr rep div patterns (min (perFrame mode) patterns.size),
        gstmFirstPayloadAt b patterns k mode nt (min (perFrame mode) patterns.size)
          (Drv.GainSTMControlFlags_BEGIN ||| gstmWireFlag (decide (min (perFrame mode) patterns.size = patterns.size)) tr.isSome seg
            (min (perFrame mode) patterns.size)) (trMode tr) div rep (trValue tr),
        16 + nt * 2) := by
  unfold Op.pack gstmFirstPayloadAt gstmData gstmWireFlag gstmOp
  have h0 : ¬ (patterns.size < Drv.STM_BUF_SIZE_MIN ∨ patterns.size > Drv.GAIN_STM_BUF_SIZE_MAX) := by
    simp only [Drv.STM_BUF_SIZE_MIN, Drv.GAIN_STM_BUF_SIZE_MAX]; omega
  have hnT : min nt ((622 - k - 16) / 2) = nt := by omega
  have hper : (if mode = Drv.GainSTMMode_PhaseIntensityFull then 1 else if mode = Drv.GainSTMMode_PhaseFull then 2 else 4) =
      perFrame mode := rfl
  simp only [h0, if_false, if_true, hb, Nat.sub_zero, Nat.zero_add, DrvLayout.GainSTMHead_size, hnT, hper]
  simp [ite_pure_yield, foldl_range', gstmStep, patAt, DrvLayout.GainSTMHead_tag_off, DrvLayout.GainSTMHead_flag_off,
    DrvLayout.GainSTMHead_mode_off, DrvLayout.GainSTMHead_transition_mode_off, DrvLayout.GainSTMHead_freq_div_off,
    DrvLayout.GainSTMHead_rep_off, DrvLayout.GainSTMHead_transition_value_off]

/-! ### what the packed frames hold, at absolute positions -/

theorem gstmNextAt_payload (b : Array Nat) (patterns : Array (Array Nat)) (k mode nt c send flag : Nat) (hb : b.size = 622)
    (hk : k + 2 ≤ 622) (hf : flag < 256) :
    let d := gstmNextPayloadAt b patterns k mode nt c send flag
    u8at d (k + 0) = 65 ∧ u8at d (k + 1) = flag ∧
      (∀ x, k + 2 ≤ x → u8at d x = u8at (gstmData mode (k + 2) nt patterns c b send) x) ∧ d.size = 622 := by
  simp only [gstmNextPayloadAt]
  have hsz : (gstmData mode (k + 2) nt patterns c b send).size = 622 := by rw [(gstmData_low _ _ _ _ _ _ _).1]; exact hb
  refine ⟨?_, ?_, ?_, by simpa using hsz⟩
  · rw [u8at_put8, if_neg (by omega), u8at_put8, if_pos ⟨rfl, by omega⟩]; rfl
  · rw [u8at_put8, if_pos ⟨rfl, by simp; omega⟩]; omega
  · intro x hx; rw [u8at_put8, if_neg (by omega), u8at_put8, if_neg (by omega)]

theorem gstmFirstAt_payload (b : Array Nat) (patterns : Array (Array Nat)) (k mode nt send flag tm div rep tv : Nat)
    (hb : b.size = 622) (hk : k + 16 ≤ 622) (hf : flag < 256) :
    let d := gstmFirstPayloadAt b patterns k mode nt send flag tm div rep tv
    u8at d (k + 0) = 65 ∧ u8at d (k + 1) = flag ∧ u8at d (k + 2) = mode % 256 ∧ u8at d (k + 3) = tm % 256 ∧
      u16at d (k + 4) = div % 65536 ∧ u16at d (k + 6) = rep % 65536 ∧ u64at d (k + 8) = tv % 18446744073709551616 ∧
      (∀ x, k + 16 ≤ x → u8at d x = u8at (gstmData mode (k + 16) nt patterns 0 b send) x) ∧ d.size = 622 := by
  simp only [gstmFirstPayloadAt]
  have hsz : (gstmData mode (k + 16) nt patterns 0 b send).size = 622 := by rw [(gstmData_low _ _ _ _ _ _ _).1]; exact hb
  refine ⟨?_, ?_, ?_, ?_, ?_, ?_, ?_, ?_, by simpa using hsz⟩
  · rw [u8at_put64_other _ _ _ _ (by omega), u8at_put16, if_neg (by omega), if_neg (by omega), u8at_put16,
      if_neg (by omega), if_neg (by omega), u8at_put8, if_neg (by omega), u8at_put8, if_neg (by omega),
      u8at_put8, if_neg (by omega), u8at_put8, if_pos ⟨rfl, by omega⟩]; rfl
  · rw [u8at_put64_other _ _ _ _ (by omega), u8at_put16, if_neg (by omega), if_neg (by omega), u8at_put16,
      if_neg (by omega), if_neg (by omega), u8at_put8, if_neg (by omega), u8at_put8, if_neg (by omega),
      u8at_put8, if_pos ⟨rfl, by simp; omega⟩]; omega
  · rw [u8at_put64_other _ _ _ _ (by omega), u8at_put16, if_neg (by omega), if_neg (by omega), u8at_put16,
      if_neg (by omega), if_neg (by omega), u8at_put8, if_neg (by omega), u8at_put8, if_pos ⟨rfl, by simp; omega⟩]
  · rw [u8at_put64_other _ _ _ _ (by omega), u8at_put16, if_neg (by omega), if_neg (by omega), u8at_put16,
      if_neg (by omega), if_neg (by omega), u8at_put8, if_pos ⟨rfl, by simp; omega⟩]
  · rw [u16at_put64_other _ _ _ _ (by omega), u16at_put16_other _ _ _ _ (by omega), u16at_put16_same _ _ _ (by simp; omega)]
  · rw [u16at_put64_other _ _ _ _ (by omega), u16at_put16_same _ _ _ (by simp; omega)]
  · rw [u64at_put64_same _ _ _ (by simp; omega)]
  · intro x hx
    rw [u8at_put64_other _ _ _ _ (by omega), u8at_put16, if_neg (by omega), if_neg (by omega), u8at_put16,
      if_neg (by omega), if_neg (by omega), u8at_put8, if_neg (by omega), u8at_put8, if_neg (by omega),
      u8at_put8, if_neg (by omega), u8at_put8, if_neg (by omega)]

/-! ### a finer footprint of `gstmTail`: the CPU latches stay -/

/-- erase what the part of `write_gain_stm` after the header may change -/
def eraseL (s : State) : State :=
  { s with ctl := #[], stmMem0 := #[], stmMem1 := #[], stmCycle := (0, 0), stmMode := (0, 0), stmSwap := {} }

theorem ErCtl_L : ErCtl eraseL := fun _ _ => rfl

theorem Foot_flagsL {T : Nat → Prop} {s0 s : State} (h : Foot eraseL T s0 s) : s.flagsInternal = s0.flagsInternal := by
  have := congrArg State.flagsInternal h.eq; exact this

theorem Leaves.swL {T : Nat → Prop} {s0 : State} {s1 : State} {base : Nat} {ws : Array Nat}
    {f : State → M (State × Nat)} (h1 : Foot eraseL T s0 s1)
    (h : ∀ s2, Foot eraseL T s0 s2 → Leaves (Foot eraseL T) s0 (f s2)) :
    Leaves (Foot eraseL T) s0 (Fw.stmWriteWords s1 base ws >>= f) :=
  Leaves.sww0 s1 base ws f (fun _ _ => h _ (Foot.tweak h1 rfl rfl))

theorem Leaves.gpL {T : Nat → Prop} {s0 s1 : State} {seg off : Nat} {d : Array Nat} {f : Nat → Nat}
    {g : State → M (State × Nat)} (h1 : Foot eraseL T s0 s1)
    (h : ∀ s2, Foot eraseL T s0 s2 → Leaves (Foot eraseL T) s0 (g s2)) :
    Leaves (Foot eraseL T) s0 (gainStmWritePattern s1 seg off d f >>= g) := by
  apply Leaves.bind (fun x => Foot eraseL T s0 x) _ h
  intro x hx
  unfold gainStmWritePattern at hx
  obtain ⟨y, hy, hx⟩ := bind_ok_inv hx
  obtain ⟨m0, m1, e⟩ := stmWriteWords_shape _ _ _ _ hy
  cases hx
  rw [e]
  exact Foot.tweak h1 rfl rfl

theorem Foot.sawL {T : Nat → Prop} {s0 s1 x : State} (hc : s0.ctl.size = 256) (hfi : s0.flagsInternal % 256 = 0)
    (h1 : Foot eraseL T s0 s1) (hT : T 0) (hx : setAndWaitUpdate s1 CTL_FLAG_STM_SET = .ok x) : Foot eraseL T s0 x := by
  obtain ⟨y, w, e⟩ := saw_stm_shape s1 x (by rw [h1.ctlsz, hc]) (by rw [Foot_flagsL h1]; exact hfi) hx
  rw [e]
  exact Foot.reg1 ErCtl_L (Foot.tweak (s1 := { wr s1 ADDR_CTL_FLAG y with stmSwap := w })
    (Foot.reg1 ErCtl_L h1 _ _ hT) rfl rfl) _ _ hT

theorem Leaves.sawL {T : Nat → Prop} {s0 : State} {s1 : State} {f : State → M (State × Nat)}
    (hc : s0.ctl.size = 256) (hfi : s0.flagsInternal % 256 = 0) (h1 : Foot eraseL T s0 s1) (hT : T 0)
    (h : ∀ s2, Foot eraseL T s0 s2 → Leaves (Foot eraseL T) s0 (f s2)) :
    Leaves (Foot eraseL T) s0 (setAndWaitUpdate s1 CTL_FLAG_STM_SET >>= f) :=
  Leaves.bind (fun x => Foot eraseL T s0 x) (fun _ hx => Foot.sawL hc hfi h1 hT hx) h

theorem stmSegmentUpdate_footL (s : State) (seg mode value : Nat) (hc : s.ctl.size = 256) (hfi : s.flagsInternal % 256 = 0) :
    Leaves (Foot eraseL TG) s (stmSegmentUpdate s seg mode value) := by
  unfold stmSegmentUpdate
  refine Leaves.cw ErCtl_L (by foot_tac) (by addr_tac) (by addr_tac) ?_; intro _ _
  apply Leaves.ite <;> intro _
  · exact Leaves.pure (by foot_tac)
  refine Leaves.cw ErCtl_L (by foot_tac) (by addr_tac) (by addr_tac) ?_; intro _ _
  refine Leaves.cww ErCtl_L (by foot_tac) (by show ADDR_STM_TRANSITION_VALUE_0 + 4 ≤ 256; decide) ?_ ?_
  · intro a h1 h2
    have : (u64Words value).size = 4 := rfl
    rw [this] at h2
    simp only [TG, ADDR_STM_TRANSITION_VALUE_0] at h1 h2 ⊢; omega
  intro _ _
  refine Leaves.sawL hc hfi (by foot_tac) (by addr_tac) ?_; intro _ _
  exact Leaves.pure (by foot_tac)

theorem Leaves.ssuL {s0 s1 : State} {seg mode value : Nat} (hc : s0.ctl.size = 256)
    (hfi : s0.flagsInternal % 256 = 0) (h1 : Foot eraseL TG s0 s1) :
    Leaves (Foot eraseL TG) s0 (stmSegmentUpdate s1 seg mode value) :=
  Leaves.lift (fun _ h => h) h1 (stmSegmentUpdate_footL s1 seg mode value (by rw [h1.ctlsz, hc]) (by rw [Foot_flagsL h1]; exact hfi))

macro "walkL " hc:term ", " hfi:term : tactic =>
  `(tactic| repeat' (first
    | exact Leaves.error _
    | exact Leaves.error_bind _ _
    | exact Leaves.pure (by foot_tac)
    | exact Leaves.ok (by foot_tac)
    | exact Leaves.ssuL $hc $hfi (by foot_tac)
    | (refine Leaves.cw ErCtl_L (by foot_tac) (by addr_tac) (by addr_tac) ?_; intro _ _)
    | (refine Leaves.swL (by foot_tac) ?_; intro _ _)
    | (refine Leaves.gpL (by foot_tac) ?_; intro _ _)
    | (refine Leaves.sawL $hc $hfi (by foot_tac) (by addr_tac) ?_; intro _ _)
    | (apply Leaves.ite <;> intro _)))

theorem gstmTail_footL {s0 s1 : State} (d : Array Nat) (off flag seg : Nat) (hseg : seg ≤ 1) (hc : s0.ctl.size = 256)
    (hfi : s0.flagsInternal % 256 = 0) (h1 : Foot eraseL TG s0 s1) :
    Leaves (Foot eraseL TG) s0 (gstmTail s1 d off flag seg) := by
  unfold gstmTail
  simp only []
  walkL hc, hfi

/-- what `gstmTail` leaves alone -/
theorem gstmTail_keeps {s s' : State} {e : Nat} {d : Array Nat} {off flag seg : Nat} (hseg : seg ≤ 1) (hc : s.ctl.size = 256)
    (hfi : s.flagsInternal % 256 = 0) (h : gstmTail s d off flag seg = .ok (s', e)) :
    s'.stmDiv = s.stmDiv ∧ s'.stmSegment = s.stmSegment ∧ s'.numTr = s.numTr := by
  have hF := gstmTail_footL d off flag seg hseg hc hfi (Foot.refl _ _ s) s' e h
  have f : ∀ {α : Type} (p : State → α), p (eraseL s') = p (eraseL s) := fun p => congrArg p hF.eq
  exact ⟨f State.stmDiv, f State.stmSegment, f State.numTr⟩

/-! ### the swap chain a GainSTM request leaves is the one `Swap.set` computes -/

theorem stmSegmentUpdate_swapDet (s : State) (hW : WF s) (seg mode value : Nat) (hseg : seg ≤ 1)
    (hv : ValidTr mode value) (hval : value < 18446744073709551616)
    (hmiss : ¬(mode = TRANSITION_MODE_SYS_TIME ∧ value < s.dcSysTime + SYS_TIME_TRANSITION_MARGIN))
    (s' : State) (e : Nat) (h : stmSegmentUpdate s seg mode value = .ok (s', e)) :
    s.stmSwap.set s.dcSysTime (reg s (ADDR_STM_REP0 + seg)) (reg s (ADDR_STM_FREQ_DIV0 + seg))
      (reg s (ADDR_STM_CYCLE0 + seg) + 1) seg (tmodeOf mode value) = .ok s'.stmSwap := by
  have hm := ValidTr_lt hv
  have hc : s.ctl.size = 256 := hW.ctl
  have hWB : WF (wr (wr s ADDR_STM_REQ_RD_SEGMENT seg) ADDR_STM_TRANSITION_MODE mode) :=
    WF_wr (WF_wr hW _ _ (Or.inl (by decide))) _ _ (Or.inl (by decide))
  have hB : ∀ a, reg (wr (wr s ADDR_STM_REQ_RD_SEGMENT seg) ADDR_STM_TRANSITION_MODE mode) a =
      if a = 95 then mode else if a = 82 then seg else reg s a := by
    intro a
    simp only [reg_wr, wr_ctl, Array.size_setIfInBounds, hc, ADDR_STM_REQ_RD_SEGMENT, ADDR_STM_TRANSITION_MODE,
      Nat.mod_eq_of_lt (show mode < 65536 by omega), Nat.mod_eq_of_lt (show seg < 65536 by omega)]
    simp
  unfold stmSegmentUpdate at h
  have hmiss' : ¬(mode = TRANSITION_MODE_SYS_TIME ∧
      value < (wr s ADDR_STM_REQ_RD_SEGMENT seg).dcSysTime + SYS_TIME_TRANSITION_MARGIN) := hmiss
  simp only [ctlWrite_main _ ADDR_STM_REQ_RD_SEGMENT _ (by decide), ok_bind, hmiss', if_false,
    ctlWrite_main _ ADDR_STM_TRANSITION_MODE _ (by decide),
    ctlWriteWords_main' _ ADDR_STM_TRANSITION_VALUE_0 (u64Words value) (by show 96 + 4 ≤ 256; decide)] at h
  generalize hsB : wr (wr s ADDR_STM_REQ_RD_SEGMENT seg) ADDR_STM_TRANSITION_MODE mode = sB at hWB hB h
  have hBs : sB.stmSwap = s.stmSwap := by rw [← hsB]; rfl
  have hBt : sB.dcSysTime = s.dcSysTime := by rw [← hsB]; rfl
  have hWC : WF (setCtl sB (wrWords sB.ctl ADDR_STM_TRANSITION_VALUE_0 (u64Words value))) :=
    WF_setCtl_wrWords hWB _ _ (Or.inl (by decide))
  have hC : ∀ a, reg (setCtl sB (wrWords sB.ctl ADDR_STM_TRANSITION_VALUE_0 (u64Words value))) a =
      if 96 ≤ a ∧ a < 100 then rd (u64Words value) (a - 96) % 65536 else reg sB a := by
    intro a
    rw [reg_setCtl_wrWords _ _ _ _ hWB.ctl]
    have : (u64Words value).size = 4 := rfl
    simp only [ADDR_STM_TRANSITION_VALUE_0, this]
    by_cases h : 96 ≤ a ∧ a < 100
    · rw [if_pos (by omega), if_pos h]
    · rw [if_neg (by omega), if_neg h]
  have h64 := reg64_setCtl_wrWords sB ADDR_STM_TRANSITION_VALUE_0 value (by decide) hWB.ctl hval
  generalize hsC : setCtl sB (wrWords sB.ctl ADDR_STM_TRANSITION_VALUE_0 (u64Words value)) = sC at hWC hC h64 h
  have hCs : sC.stmSwap = s.stmSwap := by rw [← hsC]; exact hBs
  have hCt : sC.dcSysTime = s.dcSysTime := by rw [← hsC]; exact hBt
  have e82 : reg sC ADDR_STM_REQ_RD_SEGMENT = seg := by rw [hC, if_neg (by decide), hB]; rfl
  have e95 : reg sC ADDR_STM_TRANSITION_MODE = mode := by rw [hC, if_neg (by decide), hB]; rfl
  obtain ⟨w, hw, _⟩ := swap_set_ok sC.stmSwap hWC.stmSwap sC.dcSysTime
    (reg sC (ADDR_STM_REP0 + reg sC ADDR_STM_REQ_RD_SEGMENT)) (reg sC (ADDR_STM_FREQ_DIV0 + reg sC ADDR_STM_REQ_RD_SEGMENT))
    (reg sC (ADDR_STM_CYCLE0 + reg sC ADDR_STM_REQ_RD_SEGMENT) + 1) (reg sC ADDR_STM_REQ_RD_SEGMENT) (tmodeOf mode value)
  have hsaw := saw_stm sC hWC.ctl hWC.flags (by rw [e82]; exact hseg) (tmodeOf mode value)
    (by rw [h64, e95]; exact decodeTMode_valid _ _ _ hv) w hw
  have er : ∀ base, 83 ≤ base → base + 1 < 95 → reg sC (base + seg) = reg s (base + seg) := by
    intro base h1 h2
    rw [hC, if_neg (by omega), hB, if_neg (by omega), if_neg (by omega)]
  rw [e82, er ADDR_STM_REP0 (by decide) (by decide), er ADDR_STM_FREQ_DIV0 (by decide) (by decide),
    er ADDR_STM_CYCLE0 (by decide) (by decide), hCs, hCt] at hw
  rw [hsaw] at h
  have h2 : (Except.ok (setStmSwap (wr (wr sC ADDR_CTL_FLAG (sC.flagsInternal ||| CTL_FLAG_STM_SET)) ADDR_CTL_FLAG
      sC.flagsInternal) w, NO_ERR) : M (State × Nat)) = .ok (s', e) := h
  injection h2 with h3
  injection h3 with h4 h5
  rw [← h4]
  exact hw

theorem g_tail_last_swapDet {s0 sH : State} {seg : Nat} {rep div mode : Nat} {patterns : Array (Array Nat)} {c m v : Nat}
    (hseg : seg ≤ 1) (hm : mode ≤ 2) (hI : GInv s0 sH seg (some (m, v)) rep div mode patterns c) (d : Array Nat) (off flag : Nat)
    (hn : c + (gstmFns mode ((flag >>> 6) + 1)).length = patterns.size) (hP : 1 ≤ patterns.size ∧ patterns.size ≤ 1024)
    (hpg : c % 64 + (gstmFns mode ((flag >>> 6) + 1)).length ≤ 64)
    (hE : hasFlag flag GAIN_STM_FLAG_END = true) (hU : hasFlag flag GAIN_STM_FLAG_UPDATE = true)
    (hv : ValidTr m v) (hv64 : v < 18446744073709551616)
    (hmiss : ¬(m = TRANSITION_MODE_SYS_TIME ∧ v < s0.dcSysTime + SYS_TIME_TRANSITION_MARGIN))
    (sE : State) (e : Nat) (h : gstmTail sH d off flag seg = .ok (sE, e)) :
    s0.stmSwap.set s0.dcSysTime rep div patterns.size seg (tmodeOf m v) = .ok sE.stmSwap := by
  rw [gstmTail_eq _ _ _ _ _ (by rw [hI.gmode]; exact hm), hI.gmode] at h
  generalize hfs : gstmFns mode ((flag >>> 6) + 1) = fs at *
  obtain ⟨s1, h1, R⟩ := gstmWriteList_ok seg off d hseg (c / 64) fs sH c hI.wf hI.cyc (by omega) hI.wseg hI.page
    (fun j hj => by omega)
  have hc' : sel s1.stmCycle seg = patterns.size := by rw [R.cyc, hn]
  rw [h1, ok_bind, gstmEndPart_page s1 flag seg _ hc' (by omega)] at h
  simp only [hE, hU, if_true] at h
  rw [ctlWrite_main _ _ _ (by simp only [ADDR_STM_CYCLE0]; omega), ok_bind] at h
  obtain ⟨hWW, hx⟩ := g_end_state hseg hI R hn hP
  obtain ⟨pf, pc, pm, pmem, pwf⟩ := gstmPaged_props s1 patterns.size
  have htm : (wr (setStmModeG (gstmPaged s1 patterns.size) seg) (ADDR_STM_CYCLE0 + seg)
      ((max patterns.size 1 - 1) % 65536)).stmTrMode = m := by
    rw [wr_stmTrMode, setStmModeG_stmTrMode, pf.stmTrMode, R.frame.stmTrMode, hI.trMode]; rfl
  have htv : (wr (setStmModeG (gstmPaged s1 patterns.size) seg) (ADDR_STM_CYCLE0 + seg)
      ((max patterns.size 1 - 1) % 65536)).stmTrValue = v := by
    rw [wr_stmTrValue, setStmModeG_stmTrValue, pf.stmTrValue, R.frame.stmTrValue, hI.trValue]; rfl
  have htime : (wr (setStmModeG (gstmPaged s1 patterns.size) seg) (ADDR_STM_CYCLE0 + seg)
      ((max patterns.size 1 - 1) % 65536)).dcSysTime = s0.dcSysTime := by
    rw [wr_dcSysTime, setStmModeG_dcSysTime, pf.dcSysTime, R.frame.dcSysTime, hI.time]
  have hsw : (wr (setStmModeG (gstmPaged s1 patterns.size) seg) (ADDR_STM_CYCLE0 + seg)
      ((max patterns.size 1 - 1) % 65536)).stmSwap = s0.stmSwap := by
    rw [wr_stmSwap, setStmModeG_stmSwap, pf.stmSwap, R.frame.stmSwap, hI.swap]
  generalize hsW : wr (setStmModeG (gstmPaged s1 patterns.size) seg) (ADDR_STM_CYCLE0 + seg)
    ((max patterns.size 1 - 1) % 65536) = sW at h hx hWW htm htv htime hsw
  rw [htm, htv] at h
  have hset := stmSegmentUpdate_swapDet sW hWW seg m v hseg hv hv64 (by rw [htime]; exact hmiss) sE e h
  have e1 : reg sW (ADDR_STM_REP0 + seg) = rep := by
    simp only [ADDR_STM_REP0]; rw [hx _ (by omega), if_neg (by omega), R.regs]; exact hI.repReg
  have e2 : reg sW (ADDR_STM_FREQ_DIV0 + seg) = div := by
    simp only [ADDR_STM_FREQ_DIV0]; rw [hx _ (by omega), if_neg (by omega), R.regs]; exact hI.divReg
  have e3 : reg sW (ADDR_STM_CYCLE0 + seg) + 1 = patterns.size := by
    simp only [ADDR_STM_CYCLE0]; rw [hx _ (by omega), if_pos rfl]; omega
  rw [e1, e2, e3, hsw, htime] at hset
  exact hset

end Autd3.Tuple2
