import Autd3.Model.Wire
/-!
Buffer-level lemmas for the driver's packers (`Model/Wire.lean`): `for … in [a:b]` loops in `Id` as
invariants, and the relation `Keeps off b b'` ("`b'` has the size of `b` and agrees with it below
`off`") that every write at an index `≥ off` preserves.
-/
namespace Autd3.Wire
open Autd3.Fw (rd)

/-! ### `for` loops in `Id`: invariant rule -/

theorem list_forIn_inv {α β : Type} (P : β → Prop) (l : List α) (init : β) (f : α → β → Id (ForInStep β))
    (h0 : P init) (hs : ∀ k b, P b → P (f k b).run.value) : P (forIn l init f).run := by
  induction l generalizing init with
  | nil => simpa using h0
  | cons a l ih =>
    simp only [List.forIn_cons, Id.run_bind]
    have := hs a init h0
    cases hfa : (f a init).run with
    | done b =>
      rw [hfa] at this
      simpa using this
    | yield b =>
      rw [hfa] at this
      exact ih b this

theorem range_forIn_inv {β : Type} (P : β → Prop) (r : Std.Legacy.Range) (init : β)
    (f : Nat → β → Id (ForInStep β))
    (h0 : P init) (hs : ∀ k b, P b → P (f k b).run.value) : P (forIn r init f).run := by
  rw [Std.Legacy.Range.forIn_eq_forIn_range']
  exact list_forIn_inv P _ init f h0 hs

/-- a `for k in [0:n]` loop whose body is a pure update is a left fold over `List.range n` -/
theorem forIn_range_foldl {β : Type} (n : Nat) (init : β) (f : Nat → β → β) :
    (forIn (m := Id) [0:n] init (fun k b => pure (ForInStep.yield (f k b))))
      = pure ((List.range n).foldl (fun b k => f k b) init) := by
  rw [Std.Legacy.Range.forIn_eq_forIn_range']
  simp [Std.Legacy.Range.size, List.range_eq_range']

/-! ### `Keeps` -/

/-- `b'` has the same size as `b` and the same bytes below `off` -/
def Keeps (off : Nat) (b b' : Array Nat) : Prop := b'.size = b.size ∧ ∀ i, i < off → rd b' i = rd b i

theorem Keeps.refl (off : Nat) (b : Array Nat) : Keeps off b b := ⟨rfl, fun _ _ => rfl⟩

theorem Keeps.trans {off : Nat} {a b c : Array Nat} (h1 : Keeps off a b) (h2 : Keeps off b c) : Keeps off a c :=
  ⟨h2.1.trans h1.1, fun i hi => (h2.2 i hi).trans (h1.2 i hi)⟩

theorem Keeps.mono {off off' : Nat} {a b : Array Nat} (h : Keeps off a b) (hle : off' ≤ off) : Keeps off' a b :=
  ⟨h.1, fun i hi => h.2 i (Nat.lt_of_lt_of_le hi hle)⟩

@[simp] theorem put8_size (b : Array Nat) (i v : Nat) : (put8 b i v).size = b.size := by
  simp [put8]

theorem rd_put8 (b : Array Nat) (i v j : Nat) :
    rd (put8 b i v) j = if j = i ∧ i < b.size then v % 256 else rd b j := by
  unfold rd put8; grind

theorem rd_put8_ne (b : Array Nat) (i v j : Nat) (h : j ≠ i) : rd (put8 b i v) j = rd b j := by
  rw [rd_put8]; simp [h]

@[simp] theorem put16_size (b : Array Nat) (i v : Nat) : (put16 b i v).size = b.size := by
  simp [put16]

@[simp] theorem put64_size (b : Array Nat) (i v : Nat) : (put64 b i v).size = b.size := by
  simp [put64]

theorem keeps_put8 {off : Nat} {b c : Array Nat} {i : Nat} (v : Nat) (hi : off ≤ i) (h : Keeps off b c) :
    Keeps off b (put8 c i v) := by
  refine ⟨by simp [h.1], fun j hj => ?_⟩
  rw [rd_put8_ne _ _ _ _ (by omega)]; exact h.2 j hj

theorem keeps_put16 {off : Nat} {b c : Array Nat} {i : Nat} (v : Nat) (hi : off ≤ i) (h : Keeps off b c) :
    Keeps off b (put16 c i v) := by
  unfold put16
  exact keeps_put8 _ (by omega) (keeps_put8 _ hi h)

theorem keeps_put64 {off : Nat} {b c : Array Nat} {i : Nat} (v : Nat) (hi : off ≤ i) (h : Keeps off b c) :
    Keeps off b (put64 c i v) := by
  unfold put64
  exact keeps_put16 _ (by omega) (keeps_put16 _ (by omega) (keeps_put16 _ (by omega) (keeps_put16 _ hi h)))

theorem keeps_tagValue {off : Nat} {b c : Array Nat} {i : Nat} (t v : Nat) (hi : off ≤ i) (h : Keeps off b c) :
    Keeps off b (tagValue c i t v) := by
  unfold tagValue
  exact keeps_put8 _ (by omega) (keeps_put8 _ hi h)

theorem keeps_putZeros {off : Nat} {b c : Array Nat} {i : Nat} (n : Nat) (hi : off ≤ i) (h : Keeps off b c) :
    Keeps off b (putZeros c i n) := by
  unfold putZeros
  apply range_forIn_inv (Keeps off b) _ _ _ h
  intro k b' hb
  exact keeps_put8 _ (by omega) hb

theorem keeps_putBytes {off : Nat} {b c : Array Nat} {i : Nat} (src : Array Nat) (f n : Nat) (hi : off ≤ i)
    (h : Keeps off b c) : Keeps off b (putBytes c i src f n) := by
  unfold putBytes
  apply range_forIn_inv (Keeps off b) _ _ _ h
  intro k b' hb
  exact keeps_put8 _ (by omega) hb

theorem keeps_putWords {off : Nat} {b c : Array Nat} {i : Nat} (ws : Array Nat) (n : Nat) (hi : off ≤ i)
    (h : Keeps off b c) : Keeps off b (putWords c i ws n) := by
  unfold putWords
  apply range_forIn_inv (Keeps off b) _ _ _ h
  intro k b' hb
  exact keeps_put16 _ (by omega) hb

theorem keeps_swapWithTransition {off : Nat} {b c : Array Nat} {i : Nat} (tag seg mode value : Nat)
    (hi : off ≤ i) (h : Keeps off b c) : Keeps off b (swapWithTransition c i tag seg mode value) := by
  unfold swapWithTransition
  exact keeps_put64 _ (by omega) (keeps_put8 _ (by omega) (keeps_put8 _ (by omega) (keeps_put8 _ (by omega)
    (keeps_putZeros _ hi h))))

/-- closes `Keeps off b (put… (put… b …) …)` goals whose indices are `off + literal/constant` -/
macro "keeps_tac" : tactic => `(tactic|
  repeat (with_reducible first
    | apply keeps_put8 _ (by omega)
    | apply keeps_put16 _ (by omega)
    | apply keeps_put64 _ (by omega)
    | apply keeps_tagValue _ _ (by omega)
    | apply keeps_putZeros _ (by omega)
    | apply keeps_putBytes _ _ _ (by omega)
    | apply keeps_putWords _ _ (by omega)
    | apply keeps_swapWithTransition _ _ _ _ (by omega)
    | exact Keeps.refl _ _
    | assumption))

end Autd3.Wire
