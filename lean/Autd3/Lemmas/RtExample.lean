import Autd3.Lemmas.RtMod7
/-!
A concrete well-formed device state and transmit buffer, used by the non-vacuity `example`s of
Props/C01.lean.
-/
namespace Autd3.Rt
open Autd3.Fw Autd3.Wire Autd3.Gen.Cpu Autd3.Gen

/-- a device as after power-on, as far as `WF` is concerned: the four sampling-division registers at
their reset value 0xFFFF, every other register 0, all memories zero -/
def exState : State :=
  { ctl := (((Array.replicate 256 0).setIfInBounds 37 0xFFFF).setIfInBounds 38 0xFFFF |>.setIfInBounds 85 0xFFFF).setIfInBounds 86 0xFFFF }

def exTx : Tx := {}

theorem reg_exState (a : Nat) :
    reg exState a = if a = 86 ∨ a = 85 ∨ a = 38 ∨ a = 37 then 0xFFFF else 0 := by
  unfold reg exState
  simp only [rd_set, Array.size_setIfInBounds, Array.size_replicate]
  by_cases h1 : a = 86
  · simp [h1]
  · by_cases h2 : a = 85
    · simp [h2]
    · by_cases h3 : a = 38
      · simp [h3]
      · by_cases h4 : a = 37
        · simp [h4]
        · simp [h1, h2, h3, h4]
          unfold rd
          by_cases h : a < 256 <;> simp [h]

theorem WF_exState : WF exState := by
  refine ⟨by simp [exState], by simp [exState], by simp [exState], by simp [exState], by simp [exState],
    by simp [exState], by simp [exState], by decide, by decide, ⟨by decide, by decide, by decide, by decide⟩,
    ⟨by decide, by decide, by decide, by decide⟩, ?_, ?_, ?_, ?_⟩ <;>
  · rw [reg_exState]; decide

theorem TxOK_exTx : TxOK exTx := by
  show (Array.replicate _ 0).size = 622
  simp [Drv.EC_OUTPUT_FRAME_SIZE, DrvLayout.Header_size]

theorem Fresh_ex : Fresh exState exTx := by
  show (0xFF : Nat) ≠ nextId exTx
  decide

end Autd3.Rt
