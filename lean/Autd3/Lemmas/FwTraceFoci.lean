import Autd3.Lemmas.FwTraceGuard
/-!
C19 trace layer: `write_foci_stm` for every frame (BEGIN / middle / END, any payload, either segment, with or
without transition).  The handler is cut into stages (`fociTrBegin`, `fociTrTail`, `fociTrEnd`) whose composition
is definitionally the model's `writeFociStm` (`writeFociStm_eq`, by `rfl`).
-/
set_option linter.unusedSimpArgs false
set_option linter.unusedVariables false
namespace Autd3.Fw
open Autd3.Gen.Cpu
open Autd3.Gen

/-! ### the handler in stages -/

/-- END block of `write_foci_stm` -/
def fociTrEnd (flag segment : Nat) (s : State) : M (State × Nat) := do
  let mut s := s
  if hasFlag flag FOCI_STM_FLAG_END then
    if segment > 1 then .error (.index "write_foci_stm: stm_mode[segment]") else
    if s.numFoci = 0 then .error (.divZero "write_foci_stm: stm_write / num_foci") else
    s := { s with stmMode := setSel s.stmMode segment STM_MODE_FOCUS,
                  stmCycle := setSel s.stmCycle segment (s.stmWrite / s.numFoci) }
    s ← ctlWrite s (ADDR_STM_CYCLE0 + segment) ((max (sel s.stmCycle segment) 1 - 1) % 65536)
    if hasFlag flag FOCI_STM_FLAG_UPDATE then
      return ← stmSegmentUpdate s segment s.stmTrMode s.stmTrValue
  return (s, NO_ERR)

/-- data part + END block of `write_foci_stm` -/
def fociTrTail (d : Array Nat) (flag segment sendNum : Nat) (s : State) (srcOff : Nat) : M (State × Nat) := do
  let mut s := s
  let cur16 := s.stmWrite % 65536
  let pageCapacity := FOCI_STM_BUF_PAGE_SIZE - (cur16 &&& FOCI_STM_BUF_PAGE_SIZE_MASK)
  let size := sendNum * s.numFoci
  if size ≥ 65536 then .error (.overflow "write_foci_stm: send_num * num_foci") else
  let dst := ((cur16 &&& FOCI_STM_BUF_PAGE_SIZE_MASK) <<< 2) % 65536
  if size < pageCapacity then
    s ← stmWriteWords s dst (wordsAt d srcOff (size * 4))
    s := { s with stmWrite := s.stmWrite + size }
  else
    s ← stmWriteWords s dst (wordsAt d srcOff (pageCapacity * 4))
    s := { s with stmWrite := s.stmWrite + pageCapacity }
    s ← ctlWrite s ADDR_STM_MEM_WR_PAGE (((s.stmWrite % 65536) &&& (65535 - FOCI_STM_BUF_PAGE_SIZE_MASK)) >>> FOCI_STM_BUF_PAGE_SIZE_WIDTH)
    s ← stmWriteWords s 0 (wordsAt d (srcOff + 8 * pageCapacity) ((size - pageCapacity) * 4))
    s := { s with stmWrite := s.stmWrite + (size - pageCapacity) }
  fociTrEnd flag segment s

/-- BEGIN block of `write_foci_stm` (after the validations), continuation-passing -/
def fociTrBegin (d : Array Nat) (segment : Nat) (s : State) (k : State → M (State × Nat)) : M (State × Nat) := do
  let rep := u16at d FwLayout.FociSTMHead_rep_off
  let tm := u8at d FwLayout.FociSTMHead_transition_mode_off
  let freqDiv := u16at d FwLayout.FociSTMHead_freq_div_off
  let mut s := s
  s := { s with stmWrite := 0, stmRep := setSel s.stmRep segment rep, stmTrMode := tm,
                stmTrValue := u64at d FwLayout.FociSTMHead_transition_value_off,
                stmDiv := setSel s.stmDiv segment freqDiv,
                numFoci := u8at d FwLayout.FociSTMHead_num_foci_off }
  s ← ctlWrite s (ADDR_STM_FREQ_DIV0 + segment) freqDiv
  s ← ctlWrite s (ADDR_STM_MODE0 + segment) STM_MODE_FOCUS
  s ← ctlWrite s (ADDR_STM_SOUND_SPEED0 + segment) (u16at d FwLayout.FociSTMHead_sound_speed_off)
  s ← ctlWrite s (ADDR_STM_REP0 + segment) rep
  s ← ctlWrite s (ADDR_STM_NUM_FOCI0 + segment) s.numFoci
  s ← ctlWrite s ADDR_STM_MEM_WR_SEGMENT segment
  s ← ctlWrite s ADDR_STM_MEM_WR_PAGE 0
  k s

/-- the model's handler is the composition of the stages -/
theorem writeFociStm_eq (s : State) (d : Array Nat) :
    writeFociStm s d =
      if hasFlag (fociFlag d) FOCI_STM_FLAG_BEGIN = true then
        if validateTransitionMode s.stmSegment (fociSeg d) (u16at d FwLayout.FociSTMHead_rep_off)
            (u8at d FwLayout.FociSTMHead_transition_mode_off) = true then .ok (s, ERR_INVALID_TRANSITION_MODE)
        else if validateSilencerSettings s (u16at d FwLayout.FociSTMHead_freq_div_off) (sel s.modDiv s.modSegment) = true then
          .ok (s, ERR_INVALID_SILENCER_SETTING)
        else if fociSeg d > 1 then .error (.index "write_foci_stm: stm_rep[segment]")
        else if u8at d FwLayout.FociSTMHead_transition_mode_off ≠ TRANSITION_MODE_NONE then
          fociTrBegin d (fociSeg d) { s with stmSegment := fociSeg d }
            (fun X => fociTrTail d (fociFlag d) (fociSeg d) (fociSend d) X FwLayout.FociSTMHead_size)
        else
          fociTrBegin d (fociSeg d) s
            (fun X => fociTrTail d (fociFlag d) (fociSeg d) (fociSend d) X FwLayout.FociSTMHead_size)
      else fociTrTail d (fociFlag d) (fociSeg d) (fociSend d) s FwLayout.FociSTMSubseq_size := by
  unfold writeFociStm
  rfl

/-! ### a relation for the data part: everything the END block reads, except the write page register -/

structure FociSameD (s s' : State) : Prop where
  regs : ∀ a, a ≠ 81 → rd s'.ctl a = rd s.ctl a
  numFoci : s'.numFoci = s.numFoci
  modSwap : s'.modSwap = s.modSwap
  stmSwap : s'.stmSwap = s.stmSwap
  stmTrMode : s'.stmTrMode = s.stmTrMode
  stmTrValue : s'.stmTrValue = s.stmTrValue

theorem FociSameD.of_eq {s s' : State} (e0 : s'.ctl = s.ctl) (e1 : s'.numFoci = s.numFoci)
    (e2 : s'.modSwap = s.modSwap) (e3 : s'.stmSwap = s.stmSwap) (e4 : s'.stmTrMode = s.stmTrMode)
    (e5 : s'.stmTrValue = s.stmTrValue) : FociSameD s s' :=
  ⟨fun _ _ => by rw [e0], e1, e2, e3, e4, e5⟩

theorem FociSameD.trans {a b c : State} (h1 : FociSameD a b) (h2 : FociSameD b c) : FociSameD a c :=
  ⟨fun x hx => (h2.regs x hx).trans (h1.regs x hx), h2.numFoci.trans h1.numFoci,
   h2.modSwap.trans h1.modSwap, h2.stmSwap.trans h1.stmSwap, h2.stmTrMode.trans h1.stmTrMode,
   h2.stmTrValue.trans h1.stmTrValue⟩

theorem FociSameD.sameB {s s' : State} (h : FociSameD s s') : SameB s s' := by
  refine ⟨fun x hx => h.regs x ?_, h.numFoci, h.modSwap, h.stmSwap⟩
  simp only [coreRegs, List.mem_cons, List.mem_nil_iff, or_false] at hx
  omega

/-- `s.stm_write := n` -/
theorem foci_bump_step (A : State) (n : Nat) (hA : Base A) (Z : State) (hZ : Z = { A with stmWrite := n }) :
    Base Z ∧ FociSameD A Z ∧ Z.stmWrite = n := by
  subst hZ
  have c : FociSameD A { A with stmWrite := n } := FociSameD.of_eq rfl rfl rfl rfl rfl rfl
  exact ⟨hA.transfer c.sameB (hA.shape.transfer rfl rfl rfl rfl rfl rfl rfl rfl) hA.flags, c, rfl⟩

/-- the write of the page register -/
theorem foci_page_step (A : State) (v : Nat) (hA : Base A) (Z : State)
    (hZ : Z = { A with ctl := A.ctl.setIfInBounds 81 v }) :
    Base Z ∧ FociSameD A Z ∧ rd Z.ctl 81 = v ∧ Z.stmWrite = A.stmWrite := by
  subst hZ
  have hsz := hA.shape.ctl
  have c : FociSameD A { A with ctl := A.ctl.setIfInBounds 81 v } :=
    ⟨fun a ha => by simp [rd_set, ha], rfl, rfl, rfl, rfl, rfl⟩
  exact ⟨hA.transfer c.sameB (hA.shape.transfer (by simp) rfl rfl rfl rfl rfl rfl rfl) hA.flags, c,
    by simp [rd_set, hsz], rfl⟩

/-- a bulk write to the STM BRAM -/
theorem foci_write_step (A : State) (base : Nat) (words : Array Nat) (hA : Base A) (hseg : rd A.ctl 80 ≤ 1)
    (h1 : base % 16384 + words.size ≤ 16384)
    (h2 : rd A.ctl 81 * 16384 + base % 16384 + words.size ≤ 262144) :
    ∃ Z, stmWriteWords A base words = .ok Z ∧ Base Z ∧ FociSameD A Z ∧ Z.stmWrite = A.stmWrite := by
  obtain ⟨Z, e, hBZ, _, _, hZ⟩ := stmWriteWords_step A base words hA hseg h1 h2
  exact ⟨Z, e, hBZ, FociSameD.of_eq (by rw [hZ]) (by rw [hZ]) (by rw [hZ]) (by rw [hZ]) (by rw [hZ]) (by rw [hZ]),
    by rw [hZ]⟩

/-! ### arithmetic -/

/-- the cycle register written by the END block, times the foci count, fits the BRAM -/
theorem foci_cyc_bound (w n : Nat) (hn1 : 1 ≤ n) (hn8 : n ≤ 8) (hw : w ≤ 65536) :
    ((max (w / n) 1 - 1) % 65536 + 1) * n ≤ 65536 := by
  have h1 := Nat.div_mul_le_self w n
  generalize w / n = q at *
  by_cases hq : q = 0
  · subst hq
    simp
    omega
  · have h3 : max q 1 = q := by omega
    have h2 : (q - 1) % 65536 + 1 ≤ q := by
      have := Nat.mod_le (q - 1) 65536
      omega
    rw [h3]
    calc ((q - 1) % 65536 + 1) * n ≤ q * n := Nat.mul_le_mul_right n h2
      _ ≤ 65536 := by omega

theorem foci_page_le (x : Nat) :
    ((x % 65536 &&& (65535 - FOCI_STM_BUF_PAGE_SIZE_MASK)) >>> FOCI_STM_BUF_PAGE_SIZE_WIDTH) % 65536 ≤ 15 := by
  show ((x % 65536 &&& 61440) >>> 12) % 65536 ≤ 15
  have h : x % 65536 &&& 61440 ≤ 61440 := Nat.and_le_right
  rw [Nat.shiftRight_eq_div_pow]
  omega

/-! ### END block -/

theorem fociTrEnd_step (flag seg : Nat) (Z : State) (hB : Base Z) (hseg : seg ≤ 1)
    (hnf : rd Z.ctl (93 + seg) = Z.numFoci) (hw : Z.stmWrite ≤ 65536)
    (hupd : hasFlag flag FOCI_STM_FLAG_END = true → hasFlag flag FOCI_STM_FLAG_UPDATE = true →
      ModeOK Z.stmTrMode Z.stmTrValue) :
    ∃ s' ack, fociTrEnd flag seg Z = .ok (s', ack) ∧ Base s' ∧
      (Chain Z → (hasFlag flag FOCI_STM_FLAG_END = true → hasFlag flag FOCI_STM_FLAG_UPDATE = true →
        SetGuard Z.stmSwap seg (rd Z.ctl (87 + seg)) Z.stmTrMode) → Chain s') := by
  unfold fociTrEnd
  simp only []
  cases he : hasFlag flag FOCI_STM_FLAG_END
  · simp only [Bool.false_eq_true, if_false]
    exact ⟨_, _, rfl, hB, fun hc _ => hc⟩
  · simp only [if_true]
    have hn1 := hB.nf1
    have hn8 := hB.nf8
    rw [if_neg (by omega), if_neg (by omega)]
    have hs01 : seg = 0 ∨ seg = 1 := by omega
    have hlt : ADDR_STM_CYCLE0 + seg < 256 := by simp only [ADDR_STM_CYCLE0]; omega
    have hsz := hB.shape.ctl
    rw [sel_setSel _ _ _ _ hseg hseg, if_pos rfl]
    have hcb := foci_cyc_bound Z.stmWrite Z.numFoci hn1 hn8 hw
    generalize hvdef : (max (Z.stmWrite / Z.numFoci) 1 - 1) % 65536 = v at hcb
    have hv : v < 65536 := by subst hvdef; omega
    have hv' : v % 65536 = v := Nat.mod_eq_of_lt hv
    simp only [ok_bind, pure_eq_ok, ctlWrite_main _ _ _ hlt]
    generalize hY : State.mk _ _ _ _ _ _ _ _ _ _ _ _ _ _ _ _ _ _ _ _ _ _ _ _ _ _ _ _ _ _ _ _ _ _ _ _ _ _ _ = Y
    have hBY : Base Y := by
      subst hY
      rcases hs01 with rfl | rfl <;> simp only [ADDR_STM_CYCLE0, Nat.add_zero, Nat.reduceAdd] <;>
        base_tac hB with hv', hv
    have hsw : Y.stmSwap = Z.stmSwap := by subst hY; rfl
    have h87 : rd Y.ctl (87 + seg) = rd Z.ctl (87 + seg) := by
      subst hY
      rcases hs01 with rfl | rfl <;> simp [rd_set, ADDR_STM_CYCLE0]
    have hYctl : Y.ctl = Z.ctl.setIfInBounds (83 + seg) v := by subst hY; rw [hv']; rfl
    have hYms : Y.modSwap = Z.modSwap := by subst hY; rfl
    have hCY : Chain Z → Chain Y := by
      intro hc
      refine ⟨hYms ▸ hc.modSwap, hsw ▸ hc.stmSwap, ?_, ?_, ?_, ?_⟩ <;> rw [hYctl] <;> try rw [hsw]
      all_goals rcases hs01 with rfl | rfl
      all_goals simp only [rd_set, hsz, Nat.add_zero, Nat.reduceAdd, Nat.reduceEqDiff, Nat.reduceLT, and_true,
        and_false, if_true, if_false, false_and, true_and]
      · have : rd Z.ctl 93 = Z.numFoci := hnf
        rw [this]; exact hcb
      · exact hc.fcr0
      · exact hc.fcr1
      · have : rd Z.ctl 94 = Z.numFoci := hnf
        rw [this]; exact hcb
      · exact hc.fcs0
      · exact hc.fcs0
      · exact hc.fcs1
      · exact hc.fcs1
    cases hu : hasFlag flag FOCI_STM_FLAG_UPDATE
    · simp only [Bool.false_eq_true, if_false]
      exact ⟨_, _, rfl, hBY, fun hc _ => hCY hc⟩
    · simp only [if_true]
      obtain ⟨s', ack, e, hB', hC'⟩ := stmSegmentUpdate_step Y seg Z.stmTrMode Z.stmTrValue hBY hseg (hupd he hu)
      refine ⟨s', ack, e, hB', fun hc g => hC' (hCY hc) ?_⟩
      rw [hsw, h87]
      exact g (by first | trivial | exact he) (by first | trivial | rfl | exact hu)

/-! ### data part -/

/-- after the data part (`Z`), the END block -/
theorem foci_finish (flag seg size : Nat) (X Z : State) (hBZ : Base Z) (dd : FociSameD X Z) (hseg : seg ≤ 1)
    (hwZ : Z.stmWrite = X.stmWrite + size)
    (hnf : rd X.ctl (93 + seg) = X.numFoci) (htot : X.stmWrite + size ≤ 65536)
    (hupd : hasFlag flag FOCI_STM_FLAG_END = true → hasFlag flag FOCI_STM_FLAG_UPDATE = true →
      ModeOK X.stmTrMode X.stmTrValue) :
    ∃ s' ack, fociTrEnd flag seg Z = .ok (s', ack) ∧ Base s' ∧
      (Chain X → (hasFlag flag FOCI_STM_FLAG_END = true → hasFlag flag FOCI_STM_FLAG_UPDATE = true →
        SetGuard X.stmSwap seg (rd X.ctl (87 + seg)) X.stmTrMode) → Chain s') := by
  obtain ⟨s', ack, e, hB', hC'⟩ := fociTrEnd_step flag seg Z hBZ hseg
    (by rw [dd.regs _ (by omega), dd.numFoci]; exact hnf) (by omega)
    (by rw [dd.stmTrMode, dd.stmTrValue]; exact hupd)
  exact ⟨s', ack, e, hB', fun hc g => hC' (hc.transfer dd.sameB)
    (by rw [dd.stmSwap, dd.regs _ (by omega), dd.stmTrMode]; exact g)⟩

set_option maxRecDepth 2000 in
theorem fociTrTail_step (d : Array Nat) (flag seg sn : Nat) (X : State) (srcOff : Nat) (hB : Base X)
    (hseg : seg ≤ 1) (hsn : sn < 256) (h80 : rd X.ctl 80 ≤ 1) (h81 : rd X.ctl 81 ≤ 15)
    (hnf : rd X.ctl (93 + seg) = X.numFoci) (htot : X.stmWrite + sn * X.numFoci ≤ 65536)
    (hupd : hasFlag flag FOCI_STM_FLAG_END = true → hasFlag flag FOCI_STM_FLAG_UPDATE = true →
      ModeOK X.stmTrMode X.stmTrValue) :
    ∃ s' ack, fociTrTail d flag seg sn X srcOff = .ok (s', ack) ∧ Base s' ∧
      (Chain X → (hasFlag flag FOCI_STM_FLAG_END = true → hasFlag flag FOCI_STM_FLAG_UPDATE = true →
        SetGuard X.stmSwap seg (rd X.ctl (87 + seg)) X.stmTrMode) → Chain s') := by
  unfold fociTrTail
  simp only []
  have hn1 := hB.nf1
  have hn8 := hB.nf8
  have hsz : sn * X.numFoci ≤ 2040 :=
    calc sn * X.numFoci ≤ 255 * 8 := Nat.mul_le_mul (by omega) hn8
      _ = 2040 := rfl
  generalize hsize : sn * X.numFoci = size at *
  rw [if_neg (by omega)]
  generalize hmdef : X.stmWrite % 65536 &&& FOCI_STM_BUF_PAGE_SIZE_MASK = m
  have hm : m ≤ 4095 := by subst hmdef; exact Nat.and_le_right
  have hdst : m <<< 2 % 65536 = m * 4 := by rw [Nat.shiftLeft_eq]; omega
  rw [hdst]
  generalize hcapdef : FOCI_STM_BUF_PAGE_SIZE - m = cap
  have hcap : cap = 4096 - m := by subst hcapdef; rfl
  by_cases hc : size < cap
  · rw [if_pos hc]
    obtain ⟨Z1, e1, hB1, d1, w1⟩ := foci_write_step X (m * 4) (wordsAt d srcOff (size * 4)) hB h80
      (by rw [wordsAt_size]; omega) (by rw [wordsAt_size]; omega)
    rw [e1, ok_bind]
    generalize hZ2 : State.mk _ _ _ _ _ _ _ _ _ _ _ _ _ _ _ _ _ _ _ _ _ _ _ _ _ _ _ _ _ _ _ _ _ _ _ _ _ _ _ = Z2
    obtain ⟨hB2, d2, w2⟩ := foci_bump_step Z1 _ hB1 Z2 hZ2.symm
    exact foci_finish flag seg size X Z2 hB2 (d1.trans d2) hseg (by rw [w2, w1]) hnf htot hupd
  · rw [if_neg hc]
    obtain ⟨Z1, e1, hB1, d1, w1⟩ := foci_write_step X (m * 4) (wordsAt d srcOff (cap * 4)) hB h80
      (by rw [wordsAt_size]; omega) (by rw [wordsAt_size]; omega)
    rw [e1, ok_bind]
    generalize hZ2 : State.mk _ _ _ _ _ _ _ _ _ _ _ _ _ _ _ _ _ _ _ _ _ _ _ _ _ _ _ _ _ _ _ _ _ _ _ _ _ _ _ = Z2
    obtain ⟨hB2, d2, w2⟩ := foci_bump_step Z1 _ hB1 Z2 hZ2.symm
    rw [ctlWrite_main _ ADDR_STM_MEM_WR_PAGE _ (by decide), ok_bind]
    generalize hZ3 : State.mk _ _ _ _ _ _ _ _ _ _ _ _ _ _ _ _ _ _ _ _ _ _ _ _ _ _ _ _ _ _ _ _ _ _ _ _ _ _ _ = Z3
    obtain ⟨hB3, d3, p3, w3⟩ := foci_page_step Z2 _ hB2 Z3 hZ3.symm
    have hp3 : rd Z3.ctl 81 ≤ 15 := by rw [p3]; exact foci_page_le _
    have h80' : rd Z3.ctl 80 ≤ 1 := by
      rw [d3.regs 80 (by omega), d2.regs 80 (by omega), d1.regs 80 (by omega)]; exact h80
    obtain ⟨Z4, e4, hB4, d4, w4⟩ := foci_write_step Z3 0 (wordsAt d (srcOff + 8 * cap) ((size - cap) * 4)) hB3 h80'
      (by rw [wordsAt_size]; omega) (by rw [wordsAt_size]; omega)
    rw [e4, ok_bind]
    generalize hZ5 : State.mk _ _ _ _ _ _ _ _ _ _ _ _ _ _ _ _ _ _ _ _ _ _ _ _ _ _ _ _ _ _ _ _ _ _ _ _ _ _ _ = Z5
    obtain ⟨hB5, d5, w5⟩ := foci_bump_step Z4 _ hB4 Z5 hZ5.symm
    exact foci_finish flag seg size X Z5 hB5 (d1.trans (d2.trans (d3.trans (d4.trans d5)))) hseg
      (by rw [w5, w4, w3, w2, w1]; omega) hnf htot hupd

/-! ### BEGIN block -/

theorem fociTrBegin_eq (d : Array Nat) (seg : Nat) (S : State) (k : State → M (State × Nat)) (hseg : seg ≤ 1) :
    fociTrBegin d seg S k = k { S with
      stmWrite := 0
      stmRep := setSel S.stmRep seg (u16at d FwLayout.FociSTMHead_rep_off)
      stmTrMode := u8at d FwLayout.FociSTMHead_transition_mode_off
      stmTrValue := u64at d FwLayout.FociSTMHead_transition_value_off
      stmDiv := setSel S.stmDiv seg (u16at d FwLayout.FociSTMHead_freq_div_off)
      numFoci := u8at d FwLayout.FociSTMHead_num_foci_off
      ctl := ((((((S.ctl.setIfInBounds (85 + seg) (u16at d FwLayout.FociSTMHead_freq_div_off % 65536)).setIfInBounds
                (89 + seg) (0 % 65536)).setIfInBounds
                (91 + seg) (u16at d FwLayout.FociSTMHead_sound_speed_off % 65536)).setIfInBounds
                (87 + seg) (u16at d FwLayout.FociSTMHead_rep_off % 65536)).setIfInBounds
                (93 + seg) (u8at d FwLayout.FociSTMHead_num_foci_off % 65536)).setIfInBounds
                80 (seg % 65536)).setIfInBounds 81 (0 % 65536) } := by
  unfold fociTrBegin
  have l1 : ADDR_STM_FREQ_DIV0 + seg < 256 := by simp only [ADDR_STM_FREQ_DIV0]; omega
  have l2 : ADDR_STM_MODE0 + seg < 256 := by simp only [ADDR_STM_MODE0]; omega
  have l3 : ADDR_STM_SOUND_SPEED0 + seg < 256 := by simp only [ADDR_STM_SOUND_SPEED0]; omega
  have l4 : ADDR_STM_REP0 + seg < 256 := by simp only [ADDR_STM_REP0]; omega
  have l5 : ADDR_STM_NUM_FOCI0 + seg < 256 := by simp only [ADDR_STM_NUM_FOCI0]; omega
  simp only [ctlWrite_main _ _ _ l1, ctlWrite_main _ _ _ l2, ctlWrite_main _ _ _ l3, ctlWrite_main _ _ _ l4,
    ctlWrite_main _ _ _ l5, ctlWrite_main _ ADDR_STM_MEM_WR_SEGMENT _ (by decide),
    ctlWrite_main _ ADDR_STM_MEM_WR_PAGE _ (by decide), ok_bind]
  rfl

/-- facts about the state after the BEGIN block -/
theorem foci_begin_state (S : State) (hB : Base S) (seg fd ss rep nf tm tv : Nat) (hseg : seg ≤ 1)
    (hfd : 1 ≤ fd) (hfd' : fd < 65536) (hss : 1 ≤ ss) (hss' : ss < 65536) (hrep : rep < 65536)
    (hnf1 : 1 ≤ nf) (hnf8 : nf ≤ 8) (X : State)
    (hX : X = { S with
      stmWrite := 0
      stmRep := setSel S.stmRep seg rep
      stmTrMode := tm
      stmTrValue := tv
      stmDiv := setSel S.stmDiv seg fd
      numFoci := nf
      ctl := ((((((S.ctl.setIfInBounds (85 + seg) (fd % 65536)).setIfInBounds
                (89 + seg) (0 % 65536)).setIfInBounds
                (91 + seg) (ss % 65536)).setIfInBounds
                (87 + seg) (rep % 65536)).setIfInBounds
                (93 + seg) (nf % 65536)).setIfInBounds
                80 (seg % 65536)).setIfInBounds 81 (0 % 65536) }) :
    Base X ∧ rd X.ctl 80 = seg ∧ rd X.ctl 81 = 0 ∧ rd X.ctl (93 + seg) = nf ∧ rd X.ctl (87 + seg) = rep ∧
      X.numFoci = nf ∧ X.stmWrite = 0 ∧ X.stmTrMode = tm ∧ X.stmTrValue = tv ∧ X.stmSwap = S.stmSwap ∧
      (Chain S → sel S.stmSwap.cycle seg * nf ≤ 65536 → (rd S.ctl (83 + seg) + 1) * nf ≤ 65536 → Chain X) := by
  subst hX
  have hsz := hB.shape.ctl
  have e1 : fd % 65536 = fd := Nat.mod_eq_of_lt hfd'
  have e2 : rep % 65536 = rep := Nat.mod_eq_of_lt hrep
  have e3 : ss % 65536 = ss := Nat.mod_eq_of_lt hss'
  have e4 : nf % 65536 = nf := Nat.mod_eq_of_lt (by omega)
  have hs01 : seg = 0 ∨ seg = 1 := by omega
  refine ⟨?_, ?_, ?_, ?_, ?_, rfl, rfl, rfl, rfl, rfl, ?_⟩
  · rcases hs01 with rfl | rfl
    · base_tac hB with e1, e2, e3, e4, hfd, hss, hnf1, hnf8
    · base_tac hB with e1, e2, e3, e4, hfd, hss, hnf1, hnf8
  · rcases hs01 with rfl | rfl <;> simp [rd_set, hsz]
  · rcases hs01 with rfl | rfl <;> simp [rd_set, hsz]
  · rcases hs01 with rfl | rfl <;> simp [rd_set, hsz, e4]
  · rcases hs01 with rfl | rfl <;> simp [rd_set, hsz, e2]
  · intro hc f17s f17r
    rcases hs01 with rfl | rfl
    · refine ⟨hc.modSwap, hc.stmSwap, ?_, ?_, ?_, ?_⟩
      · simpa [rd_set, hsz, e4] using f17r
      · simpa [rd_set, hsz] using hc.fcr1
      · simpa [rd_set, hsz, e4, sel] using f17s
      · simpa [rd_set, hsz] using hc.fcs1
    · refine ⟨hc.modSwap, hc.stmSwap, ?_, ?_, ?_, ?_⟩
      · simpa [rd_set, hsz] using hc.fcr0
      · simpa [rd_set, hsz, e4] using f17r
      · simpa [rd_set, hsz] using hc.fcs0
      · simpa [rd_set, hsz, e4, sel] using f17s

/-- BEGIN block, data part, END block from a state `S` that passed the validations -/
theorem fociTrBegin_step (S : State) (d : Array Nat) (flag seg sn : Nat) (hB : Base S) (hseg : seg ≤ 1) (hsn : sn < 256)
    (hdiv : 1 ≤ u16at d FwLayout.FociSTMHead_freq_div_off)
    (hnf1 : 1 ≤ u8at d FwLayout.FociSTMHead_num_foci_off) (hnf8 : u8at d FwLayout.FociSTMHead_num_foci_off ≤ 8)
    (hss : 1 ≤ u16at d FwLayout.FociSTMHead_sound_speed_off)
    (hupd : hasFlag flag FOCI_STM_FLAG_END = true → hasFlag flag FOCI_STM_FLAG_UPDATE = true →
      ModeOK (u8at d FwLayout.FociSTMHead_transition_mode_off) (u64at d FwLayout.FociSTMHead_transition_value_off)) :
    ∃ s' ack, fociTrBegin d seg S (fun X => fociTrTail d flag seg sn X FwLayout.FociSTMHead_size) = .ok (s', ack) ∧
      Base s' ∧
      (Chain S → sel S.stmSwap.cycle seg * u8at d FwLayout.FociSTMHead_num_foci_off ≤ 65536 →
        (rd S.ctl (83 + seg) + 1) * u8at d FwLayout.FociSTMHead_num_foci_off ≤ 65536 →
        (hasFlag flag FOCI_STM_FLAG_END = true → hasFlag flag FOCI_STM_FLAG_UPDATE = true →
          SetGuard S.stmSwap seg (u16at d FwLayout.FociSTMHead_rep_off)
            (u8at d FwLayout.FociSTMHead_transition_mode_off)) → Chain s') := by
  rw [fociTrBegin_eq d seg S _ hseg]
  generalize hX : State.mk _ _ _ _ _ _ _ _ _ _ _ _ _ _ _ _ _ _ _ _ _ _ _ _ _ _ _ _ _ _ _ _ _ _ _ _ _ _ _ = X
  obtain ⟨hBX, h80, h81, h93, h87, hnfX, hwX, htmX, htvX, hswX, hCX⟩ :=
    foci_begin_state S hB seg _ _ _ _ _ _ hseg hdiv (u16at_lt d _) hss (u16at_lt d _) (u16at_lt d _) hnf1 hnf8 X hX.symm
  have htot : X.stmWrite + sn * X.numFoci ≤ 65536 := by
    rw [hwX, hnfX]
    have : sn * u8at d FwLayout.FociSTMHead_num_foci_off ≤ 255 * 8 := Nat.mul_le_mul (by omega) hnf8
    omega
  obtain ⟨s', ack, e, hB', hC'⟩ := fociTrTail_step d flag seg sn X FwLayout.FociSTMHead_size hBX hseg hsn
    (by omega) (by omega) (h93.trans hnfX.symm) htot (by rw [htmX, htvX]; exact hupd)
  exact ⟨s', ack, e, hB', fun hc a b g => hC' (hCX hc a b) (by rw [hswX, h87, htmX]; exact g)⟩

/-! ### the handler -/

/-- every frame of a FociSTM write (BEGIN / middle / END, any payload bytes, either segment, with or without
transition): `write_foci_stm` never panics from a `Base` state, keeps `Base`, and keeps `Chain` under `FociExcl` -/
theorem writeFociStm_step (s : State) (d : Array Nat) (hB : Base s) (hok : FociOK s d) :
    ∃ s' ack, writeFociStm s d = .ok (s', ack) ∧ Base s' ∧ (Chain s → FociExcl s d → Chain s') := by
  rw [writeFociStm_eq]
  have hseg : fociSeg d ≤ 1 := hok.seg
  have hsn : fociSend d < 256 := u8at_lt d _
  by_cases hb : hasFlag (fociFlag d) FOCI_STM_FLAG_BEGIN = true
  · rw [if_pos hb]
    have hb' : fociBegin d = true := hb
    by_cases hval : validateTransitionMode s.stmSegment (fociSeg d) (u16at d FwLayout.FociSTMHead_rep_off)
        (u8at d FwLayout.FociSTMHead_transition_mode_off) = true
    · rw [if_pos hval]; exact ⟨_, _, rfl, hB, fun hc _ => hc⟩
    rw [if_neg hval]
    by_cases hsil : validateSilencerSettings s (u16at d FwLayout.FociSTMHead_freq_div_off)
        (sel s.modDiv s.modSegment) = true
    · rw [if_pos hsil]; exact ⟨_, _, rfl, hB, fun hc _ => hc⟩
    rw [if_neg hsil, if_neg (by omega)]
    have hacc : fociAccepted s d = true := by
      unfold fociAccepted
      rw [hb']
      simp only [Bool.not_eq_true] at hval hsil
      rw [hval, hsil]
      rfl
    have hupd : hasFlag (fociFlag d) FOCI_STM_FLAG_END = true → hasFlag (fociFlag d) FOCI_STM_FLAG_UPDATE = true →
        ModeOK (u8at d FwLayout.FociSTMHead_transition_mode_off) (u64at d FwLayout.FociSTMHead_transition_value_off) := by
      intro h1 h2
      have := hok.upd h1 h2
      unfold fociEffTm fociEffTv at this
      rw [if_pos hb', if_pos hb'] at this
      exact this
    have hset : FociExcl s d → hasFlag (fociFlag d) FOCI_STM_FLAG_END = true →
        hasFlag (fociFlag d) FOCI_STM_FLAG_UPDATE = true →
        SetGuard s.stmSwap (fociSeg d) (u16at d FwLayout.FociSTMHead_rep_off)
          (u8at d FwLayout.FociSTMHead_transition_mode_off) := by
      intro ex h1 h2
      have := ex.set h1 h2 hacc
      unfold fociEffRep fociEffTm at this
      rw [if_pos hb', if_pos hb'] at this
      exact this
    by_cases htm : u8at d FwLayout.FociSTMHead_transition_mode_off ≠ TRANSITION_MODE_NONE
    · rw [if_pos htm]
      have cS : SameB s { s with stmSegment := fociSeg d } := SameB.refl' rfl rfl rfl rfl
      have hBS : Base { s with stmSegment := fociSeg d } :=
        hB.transfer cS (hB.shape.transfer rfl rfl rfl rfl rfl rfl rfl rfl) hB.flags
      obtain ⟨s', ack, e, hB2, hC2⟩ := fociTrBegin_step { s with stmSegment := fociSeg d } d (fociFlag d) (fociSeg d)
        (fociSend d) hBS hseg hsn (hok.div hb') (hok.nf1 hb') (hok.nf8 hb') (hok.ss hb') hupd
      exact ⟨s', ack, e, hB2, fun hc ex => hC2 (hc.transfer cS) (ex.f17s hb' hacc) (ex.f17r hb' hacc) (hset ex)⟩
    · rw [if_neg htm]
      obtain ⟨s', ack, e, hB2, hC2⟩ := fociTrBegin_step s d (fociFlag d) (fociSeg d)
        (fociSend d) hB hseg hsn (hok.div hb') (hok.nf1 hb') (hok.nf8 hb') (hok.ss hb') hupd
      exact ⟨s', ack, e, hB2, fun hc ex => hC2 hc (ex.f17s hb' hacc) (ex.f17r hb' hacc) (hset ex)⟩
  · rw [if_neg hb]
    have hb' : fociBegin d = false := by
      unfold fociBegin
      simpa using hb
    have hacc : fociAccepted s d = true := by
      unfold fociAccepted
      rw [hb']
      rfl
    obtain ⟨s', ack, e, hB2, hC2⟩ := fociTrTail_step d (fociFlag d) (fociSeg d) (fociSend d) s
      FwLayout.FociSTMSubseq_size hB hseg hsn (by rw [hok.cont_seg hb']; exact hseg) (hok.cont_page hb')
      (hok.cont_nf hb') (hok.cont_total hb')
      (by
        intro h1 h2
        have := hok.upd h1 h2
        unfold fociEffTm fociEffTv at this
        rw [hb'] at this
        exact this)
    refine ⟨s', ack, e, hB2, fun hc ex => hC2 hc ?_⟩
    intro h1 h2
    have := ex.set h1 h2 hacc
    unfold fociEffRep fociEffTm at this
    rw [hb'] at this
    exact this

end Autd3.Fw
