import Autd3.Lemmas.HistTrace3
import Autd3.Lemmas.Hist9d
/-!
History independence (C02), trace level, part 4: what is playing after a probe with a transition that takes effect at
once, on a device reached by an arbitrary history, after one clock update.
-/
open Autd3 Autd3.Fw Autd3.Wire Autd3.Gen.Cpu Autd3.Gen Autd3.Rt
namespace Autd3.Hist

theorem run_pq {s : State} {t : Tx} {h : List Dg} {s' : State} {t' : Tx} (r : Run s t h s' t') : PQ s s' := by
  induction r with
  | nil s t => exact PQ.refl s
  | cons _ sd _ ih => exact (sends_pq _ _ _ _ _ sd).trans ih

/-- every device reached from power-on by a history of sends: both swap chains satisfy `Playing`, and the device is
well-formed -/
theorem run_playing (numTr now : Nat) (hn : numTr ≤ 249) (p0 : State) (hp0 : Fw.new numTr now = .ok p0) (t0 : Tx)
    (ht0 : TxOK t0) {h : List Dg} {s : State} {t : Tx} (hr : Run p0 t0 h s t) :
    WF s ∧ TxOK t ∧ Fresh s t ∧ Playing s.stmSwap ∧ Playing s.modSwap := by
  obtain ⟨hW0, hn0, hpc0, hF0⟩ := new_facts numTr now hn p0 hp0
  have hpc0' : Obs.phaseCorrection p0 = pcArr p0.numTr none := by rw [hpc0, hn0]; rfl
  obtain ⟨a, b, c, _⟩ := run_inv hr none hW0 ht0 (hF0 t0) hpc0' trivial
  obtain ⟨p1, p2⟩ := new_playing numTr now p0 hp0
  have q := run_pq hr
  exact ⟨a, b, c, q.1 p1, q.2 p2⟩

theorem stm_after (s' s'' : State) (hW : WF s') (hp : Playing s'.stmSwap) (w0 : Swap) (t0 rep fd cyc seg : Nat)
    (mode : TMode) (hset : SwapSet w0 s'.stmSwap t0 rep fd cyc seg mode) (hnow : w0.cur = seg ∨ rep = 0xFFFF)
    (hm : mode ≠ .ext) (t : Nat) (hu : updateWithSysTime s' t = .ok s'') :
    Obs.currentStmSeg s'' = seg ∧ Obs.currentStmIdx s'' = ((fpgaSysTime t >>> 9) / fd) % cyc :=
  chain_after_set w0 s'.stmSwap s''.stmSwap hW.stmSwap hp t0 rep fd cyc seg mode hset hnow hm _ t (update_swaps s' s'' t hu).2

theorem mod_after (s' s'' : State) (hW : WF s') (hp : Playing s'.modSwap) (w0 : Swap) (t0 rep fd cyc seg : Nat)
    (mode : TMode) (hset : SwapSet w0 s'.modSwap t0 rep fd cyc seg mode) (hnow : w0.cur = seg ∨ rep = 0xFFFF)
    (hm : mode ≠ .ext) (t : Nat) (hu : updateWithSysTime s' t = .ok s'') :
    Obs.currentModSeg s'' = seg ∧ Obs.currentModIdx s'' = ((fpgaSysTime t >>> 9) / fd) % cyc :=
  chain_after_set w0 s'.modSwap s''.modSwap hW.modSwap hp t0 rep fd cyc seg mode hset hnow hm _ t (update_swaps s' s'' t hu).1

theorem tmodeOf_immediate (v : Nat) : tmodeOf Drv.TRANSITION_MODE_IMMEDIATE v = .immediate := rfl

/-- **probe with an immediate transition on an infinite loop, then one clock update** — from any well-formed device
whose swap chains satisfy `Playing` (every device reached by a history does: `run_playing`) -/
theorem probe_then_clock (s : State) (t : Tx) (hW : WF s) (hT : TxOK t) (hF : Fresh s t) (hps : Playing s.stmSwap)
    (hpm : Playing s.modSwap) (tc : Nat) :
    (∀ n seg v div ss records t' s' s'', Legal s (.fociStm n seg (some (Drv.TRANSITION_MODE_IMMEDIATE, v)) 0xFFFF div ss records) →
      Sends (.fociStm n seg (some (Drv.TRANSITION_MODE_IMMEDIATE, v)) 0xFFFF div ss records) s t t' s' →
      updateWithSysTime s' tc = .ok s'' →
      Obs.currentStmSeg s'' = seg ∧ Obs.currentStmIdx s'' = ((fpgaSysTime tc >>> 9) / div) % (records.size / n)) ∧
    (∀ mode seg v div patterns t' s' s'', Legal s (.gainStm mode seg (some (Drv.TRANSITION_MODE_IMMEDIATE, v)) 0xFFFF div patterns) →
      Sends (.gainStm mode seg (some (Drv.TRANSITION_MODE_IMMEDIATE, v)) 0xFFFF div patterns) s t t' s' →
      updateWithSysTime s' tc = .ok s'' →
      Obs.currentStmSeg s'' = seg ∧ Obs.currentStmIdx s'' = ((fpgaSysTime tc >>> 9) / div) % patterns.size) ∧
    (∀ seg v drives t' s' s'', Legal s (.gain seg (some (Drv.TRANSITION_MODE_IMMEDIATE, v)) drives) →
      Sends (.gain seg (some (Drv.TRANSITION_MODE_IMMEDIATE, v)) drives) s t t' s' →
      updateWithSysTime s' tc = .ok s'' → Obs.currentStmSeg s'' = seg ∧ Obs.currentStmIdx s'' = 0) ∧
    (∀ seg v div samples t' s' s'', Legal s (.modulation seg (some (Drv.TRANSITION_MODE_IMMEDIATE, v)) 0xFFFF div samples) →
      Sends (.modulation seg (some (Drv.TRANSITION_MODE_IMMEDIATE, v)) 0xFFFF div samples) s t t' s' →
      updateWithSysTime s' tc = .ok s'' →
      Obs.currentModSeg s'' = seg ∧ Obs.currentModIdx s'' = ((fpgaSysTime tc >>> 9) / div) % samples.size) := by
  refine ⟨?_, ?_, ?_, ?_⟩
  · intro n seg v div ss records t' s' s'' l hS hu
    obtain ⟨_, f⟩ := foci_sends s t hW hT hF n seg _ 0xFFFF div ss records _ l.1 l.2.1 l.2.2
    obtain ⟨w', _, _, a, _, _⟩ := f _ _ hS
    have r := a.req
    simp only [tmodeOf_immediate] at r
    exact stm_after s' s'' w' ((sends_pq _ _ _ _ _ hS).1 hps) _ _ _ _ _ _ _ r.2.2 (Or.inr rfl) (by decide) tc hu
  · intro mode seg v div patterns t' s' s'' l hS hu
    obtain ⟨_, f⟩ := gstm_sends s t hW hT hF mode seg _ 0xFFFF div patterns l.1 l.2.1 l.2.2
    obtain ⟨w', _, _, a, _, _⟩ := f _ _ hS
    have r := a.req
    simp only [tmodeOf_immediate] at r
    exact stm_after s' s'' w' ((sends_pq _ _ _ _ _ hS).1 hps) _ _ _ _ _ _ _ r.2.2 (Or.inr rfl) (by decide) tc hu
  · intro seg v drives t' s' s'' l hS hu
    obtain ⟨_, f⟩ := gain_sends s t hW hT hF seg l.1 _ l.2.1 drives l.2.2
    obtain ⟨w', _, _, _, _, _, _, r⟩ := f _ _ hS
    have r2 := (r rfl).2.2
    have := stm_after s' s'' w' ((sends_pq _ _ _ _ _ hS).1 hps) _ _ _ _ _ _ _ r2 (Or.inr rfl) (by decide) tc hu
    exact ⟨this.1, by rw [this.2, Nat.mod_one]⟩
  · intro seg v div samples t' s' s'' l hS hu
    obtain ⟨_, f⟩ := mod_sends s t hW hT hF seg _ 0xFFFF div samples l.1 l.2.1 l.2.2
    obtain ⟨w', _, _, a, _, _⟩ := f _ _ hS
    have r := a.req
    simp only [tmodeOf_immediate] at r
    exact mod_after s' s'' w' ((sends_pq _ _ _ _ _ hS).2 hpm) _ _ _ _ _ _ _ r.2.2 (Or.inr rfl) (by decide) tc hu

end Autd3.Hist
