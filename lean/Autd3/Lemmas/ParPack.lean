import Autd3.Model.ParPack
/-! Helper lemmas for C10: schedules are permutations; independent tasks commute; the shape of the
zip/filter/zip chain. -/
namespace Autd3.ParPack

theorem insertAt_perm {α : Type} (i : Nat) (x : α) (l : List α) : (insertAt i x l).Perm (x :: l) := by
  induction l generalizing i with
  | nil => cases i <;> simp [insertAt]
  | cons y l ih =>
    cases i with
    | zero => simp [insertAt]
    | succ i =>
      simp only [insertAt]
      exact ((ih i).cons y).trans (List.Perm.swap x y l)

theorem shuffle_perm {α : Type} (rs : List Nat) (l : List α) : (shuffle rs l).Perm l := by
  induction l generalizing rs with
  | nil => cases rs <;> simp [shuffle]
  | cons x l ih =>
    cases rs with
    | nil => simp [shuffle]
    | cons r rs =>
      simp only [shuffle]
      exact (insertAt_perm _ x _).trans ((ih rs).cons x)

/-! ### two tasks on different cells commute -/

section commute
variable {α β ε : Type} (step : Nat → α → β → α × β × Option ε)

theorem runTask_comm (a b : Task) (c : Cells α β) (htx : a.tx ≠ b.tx) (hop : a.op ≠ b.op) :
    (runTask step b (runTask step a c).1).1 = (runTask step a (runTask step b c).1).1 ∧
    (runTask step a c).2 = (runTask step a (runTask step b c).1).2 ∧
    (runTask step b (runTask step a c).1).2 = (runTask step b c).2 := by
  obtain ⟨ops, tx⟩ := c
  unfold runTask
  simp only []
  cases hao : ops[a.op]? <;> cases hbo : ops[b.op]? <;> cases hat : tx[a.tx]? <;> cases hbt : tx[b.tx]? <;>
    simp [hao, hbo, hat, hbt, Array.getElem?_setIfInBounds_ne, htx, hop, Ne.symm htx, Ne.symm hop,
      Array.setIfInBounds_comm _ _ htx, Array.setIfInBounds_comm _ _ hop]

/-- what a task sees of a cell it does not own is unchanged by another task -/
theorem runTask_other (a : Task) (c : Cells α β) (i j : Nat) (hi : i ≠ a.op) (hj : j ≠ a.tx) :
    (runTask step a c).1.ops[i]? = c.ops[i]? ∧ (runTask step a c).1.tx[j]? = c.tx[j]? := by
  unfold runTask
  split <;> simp [Array.getElem?_setIfInBounds_ne, Ne.symm hi, Ne.symm hj]

theorem runTask_sizes (a : Task) (c : Cells α β) :
    (runTask step a c).1.ops.size = c.ops.size ∧ (runTask step a c).1.tx.size = c.tx.size := by
  unfold runTask
  split <;> simp

theorem runTasks_sizes (l : List Task) (c : Cells α β) :
    (runTasks step l c).1.ops.size = c.ops.size ∧ (runTasks step l c).1.tx.size = c.tx.size := by
  induction l generalizing c with
  | nil => simp [runTasks]
  | cons t l ih =>
    simp only [runTasks]
    have h := runTask_sizes step t c
    rcases hr : runTask step t c with ⟨c', e⟩
    rw [hr] at h
    cases e with
    | some e => simpa using h
    | none => simp only []; rw [(ih c').1, (ih c').2]; simpa using h

/-- **core lemma**: if the tasks touch pairwise different `tx` cells and pairwise different operation
cells, then an error-free run in one order is an error-free run with the same result in any other. -/
theorem runTasks_perm_ok {l₁ l₂ : List Task} (hp : l₁.Perm l₂)
    (htx : (l₁.map (·.tx)).Nodup) (hop : (l₁.map (·.op)).Nodup) (c c' : Cells α β)
    (h : runTasks step l₁ c = (c', none)) : runTasks step l₂ c = (c', none) := by
  induction hp generalizing c c' with
  | nil => exact h
  | cons x _ ih =>
    simp only [runTasks] at h ⊢
    rcases hr : runTask step x c with ⟨c1, e⟩
    rw [hr] at h
    cases e with
    | some e => simp at h
    | none =>
      simp only [List.map_cons, List.nodup_cons] at htx hop
      exact ih htx.2 hop.2 c1 c' h
  | swap x y l =>
    -- l₁ = y :: x :: l, l₂ = x :: y :: l
    simp only [List.map_cons, List.nodup_cons, List.mem_cons, not_or] at htx hop
    have hc := runTask_comm step y x c htx.1.1 hop.1.1
    simp only [runTasks] at h ⊢
    generalize hy : runTask step y c = ry at h hc
    generalize hx : runTask step x c = rx at hc ⊢
    obtain ⟨cy, ey⟩ := ry
    obtain ⟨cx, ex⟩ := rx
    simp only [] at hc h ⊢
    generalize hxy : runTask step x cy = rxy at h hc
    generalize hyx : runTask step y cx = ryx at hc ⊢
    obtain ⟨cxy, exy⟩ := rxy
    obtain ⟨cyx, eyx⟩ := ryx
    simp only [] at hc h ⊢
    obtain ⟨h1, h2, h3⟩ := hc
    subst h1 h2 h3
    cases ey with
    | some e => simp at h
    | none =>
      simp only [] at h
      rw [hxy] at h
      cases exy with
      | some e => simp at h
      | none => simp only [] at h ⊢; rw [hyx]; simpa using h
  | trans p₁ _ ih₁ ih₂ =>
    have htx₂ := (p₁.map (·.tx)).nodup htx
    have hop₂ := (p₁.map (·.op)).nodup hop
    exact ih₂ htx₂ hop₂ c c' (ih₁ htx hop c c' h)

/-- an error returned by a run is the error the owning task produces on the *initial* contents of
its two cells (no other task has touched them) -/
theorem runTasks_error_origin (l : List Task)
    (htx : (l.map (·.tx)).Nodup) (hop : (l.map (·.op)).Nodup) (c c' : Cells α β) (e : ε)
    (h : runTasks step l c = (c', some e)) :
    ∃ t ∈ l, ∃ o x, c.ops[t.op]? = some o ∧ c.tx[t.tx]? = some x ∧ (step t.dev o x).2.2 = some e := by
  induction l generalizing c with
  | nil => simp [runTasks] at h
  | cons t l ih =>
    simp only [runTasks] at h
    simp only [List.map_cons, List.nodup_cons] at htx hop
    rcases hr : runTask step t c with ⟨c1, e1⟩
    rw [hr] at h
    cases e1 with
    | some e1 =>
      simp only [Prod.mk.injEq, Option.some.injEq] at h
      refine ⟨t, List.mem_cons_self, ?_⟩
      unfold runTask at hr
      split at hr
      · rename_i o x ho hx
        refine ⟨o, x, ho, hx, ?_⟩
        simp only [Prod.mk.injEq] at hr
        rw [hr.2, h.2]
      · simp at hr
    | none =>
      simp only [] at h
      obtain ⟨t', ht', o, x, ho, hx, hs⟩ := ih htx.2 hop.2 c1 h
      have hne_op : t'.op ≠ t.op := by
        intro heq; apply hop.1; rw [← heq]; exact List.mem_map_of_mem ht'
      have hne_tx : t'.tx ≠ t.tx := by
        intro heq; apply htx.1; rw [← heq]; exact List.mem_map_of_mem ht'
      have hoth := runTask_other step t c t'.op t'.tx hne_op hne_tx
      rw [hr] at hoth
      simp only [] at hoth
      exact ⟨t', List.mem_cons_of_mem _ ht', o, x, by rw [← hoth.1]; exact ho, by rw [← hoth.2]; exact hx, hs⟩

end commute

/-! ### the shape of zip/filter/zip -/

/-- the enabled device indices, numbered from `s` (recursive form of `devicesFrom`) -/
theorem devicesFrom_cons (e : Bool) (es : List Bool) (s : Nat) :
    devicesFrom (e :: es) s = if e then s :: devicesFrom es (s + 1) else devicesFrom es (s + 1) := by
  unfold devicesFrom
  cases e <;> simp [List.zipIdx_cons]

theorem pairingFrom_nil (s nTx k nOps : Nat) : pairingFrom [] s nTx k nOps = [] := by
  simp [pairingFrom]

theorem pairingFrom_cons (e : Bool) (es : List Bool) (s nTx k nOps : Nat) :
    pairingFrom (e :: es) s nTx k nOps =
      match nTx with
      | 0 => []
      | nTx + 1 =>
        if e then
          match nOps with
          | 0 => []
          | nOps + 1 => { dev := s, tx := s, op := k } :: pairingFrom es (s + 1) nTx (k + 1) nOps
        else pairingFrom es (s + 1) nTx k nOps := by
  unfold pairingFrom
  cases nTx with
  | zero => simp
  | succ nTx =>
    cases e with
    | false => simp [List.zipIdx_cons, List.range'_succ]
    | true =>
      cases nOps with
      | zero => simp
      | succ nOps => simp [List.zipIdx_cons, List.range'_succ]

/-- **alignment**: the chain pairs the `j`-th enabled device (among the first `nTx`) with its own
`tx` slot and with the `j`-th operation, for `j < nOps`. -/
theorem pairingFrom_spec (en : List Bool) (s nTx k nOps : Nat) :
    (pairingFrom en s nTx k nOps).map (·.dev) = (devicesFrom (en.take nTx) s).take nOps ∧
    (pairingFrom en s nTx k nOps).map (·.tx) = (devicesFrom (en.take nTx) s).take nOps ∧
    (pairingFrom en s nTx k nOps).map (·.op) = List.range' k (pairingFrom en s nTx k nOps).length := by
  induction en generalizing s nTx k nOps with
  | nil => simp [pairingFrom_nil, devicesFrom]
  | cons e es ih =>
    rw [pairingFrom_cons]
    cases nTx with
    | zero => simp [devicesFrom]
    | succ nTx =>
      simp only [List.take_succ_cons, devicesFrom_cons]
      cases e with
      | false => simpa using ih (s + 1) nTx k nOps
      | true =>
        cases nOps with
        | zero => simp
        | succ nOps =>
          have := ih (s + 1) nTx (k + 1) nOps
          simp only [if_true, List.map_cons, List.take_succ_cons, List.length_cons, List.range'_succ]
          exact ⟨by rw [this.1], by rw [this.2.1], by rw [this.2.2]⟩

theorem devicesFrom_lt (en : List Bool) (s : Nat) :
    List.Pairwise (· < ·) (devicesFrom en s) ∧ ∀ d ∈ devicesFrom en s, s ≤ d ∧ d < s + en.length ∧ en[d - s]? = some true := by
  induction en generalizing s with
  | nil => simp [devicesFrom]
  | cons e es ih =>
    rw [devicesFrom_cons]
    have h := ih (s + 1)
    have hmem : ∀ d ∈ devicesFrom es (s + 1), s ≤ d ∧ d < s + (e :: es).length ∧ (e :: es)[d - s]? = some true := by
      intro d hd
      obtain ⟨h1, h2, h3⟩ := h.2 d hd
      refine ⟨by omega, by simp only [List.length_cons]; omega, ?_⟩
      have : d - s = (d - (s + 1)) + 1 := by omega
      rw [this, List.getElem?_cons_succ]; exact h3
    cases e with
    | false => exact ⟨by simpa using h.1, by simpa using hmem⟩
    | true =>
      simp only [if_true, List.pairwise_cons, List.mem_cons]
      refine ⟨⟨fun d hd => by have := (h.2 d hd).1; omega, h.1⟩, ?_⟩
      intro d hd
      rcases hd with rfl | hd
      · simp
      · exact hmem d hd

theorem devicesFrom_length_le (en : List Bool) (s : Nat) : (devicesFrom en s).length ≤ en.length := by
  unfold devicesFrom
  simp only [List.length_map]
  exact Nat.le_trans (List.length_filter_le _ _) (by simp)

/-! ### `group_send`: the operation vector -/

/-- the key of device `d` (`key_map(dev)`) -/
def keyOf (keys : List (Option Nat)) (d : Nat) : Option Nat := (keys[d]?).join

/-- the operation slot of device `d` once the rounds of the keys `done` have run -/
def groupSlot {γ : Type} (keys : List (Option Nat)) (gen : Nat → Nat → γ) (done : List Nat) (d : Nat) : Option γ :=
  match keyOf keys d with
  | some k => if k ∈ done then some (gen k d) else none
  | none => none

theorem groupRoundGo_map {γ : Type} (filter : List Bool) (gen : Nat → γ) (sel : Nat → Bool) (F : Nat → Option γ)
    (ds : List Nat) (h : ∀ d ∈ ds, filter[d]? = some (sel d)) :
    groupRoundGo filter gen (ds.map F) ds = some (ds.map fun d => if sel d then some (gen d) else F d) := by
  induction ds with
  | nil => simp [groupRoundGo]
  | cons d ds ih =>
    simp only [List.map_cons, groupRoundGo, h d List.mem_cons_self]
    rw [ih (fun x hx => h x (List.mem_cons_of_mem _ hx))]
    simp

theorem groupFilter_get (en : List Bool) (keys : List (Option Nat)) (k d : Nat)
    (hl : keys.length = en.length) (hd : d ∈ devices en) :
    (groupFilter en keys k)[d]? = some (keyOf keys d == some k) := by
  obtain ⟨_, hlt, hen⟩ := (devicesFrom_lt en 0).2 d hd
  simp only [Nat.zero_add, Nat.sub_zero] at hlt hen
  have hk : d < keys.length := by omega
  unfold groupFilter keyOf
  have hz : (en.zip keys)[d]? = some (true, keys[d]) :=
    List.getElem?_zip_eq_some.mpr ⟨hen, List.getElem?_eq_getElem hk⟩
  rw [List.getElem?_map, hz]
  simp [List.getElem?_eq_getElem hk]

theorem groupOps_spec {γ : Type} (en : List Bool) (keys : List (Option Nat)) (gen : Nat → Nat → γ)
    (hl : keys.length = en.length) (order done : List Nat) :
    order.foldlM (fun ops k => groupRound en (groupFilter en keys k) (gen k) ops)
        ((devices en).map (groupSlot keys gen done))
      = some ((devices en).map (groupSlot keys gen (done ++ order))) := by
  induction order generalizing done with
  | nil => simp
  | cons k order ih =>
    simp only [List.foldlM_cons]
    unfold groupRound
    rw [groupRoundGo_map _ _ (fun d => keyOf keys d == some k) _ _ (fun d hd => groupFilter_get en keys k d hl hd)]
    simp only [Option.bind_eq_bind, Option.bind_some]
    have : (devices en).map (fun d => if (keyOf keys d == some k) = true then some (gen k d) else groupSlot keys gen done d)
        = (devices en).map (groupSlot keys gen (done ++ [k])) := by
      apply List.map_congr_left
      intro d _
      unfold groupSlot
      cases hk : keyOf keys d with
      | none => simp
      | some k' =>
        by_cases hkk : k' = k
        · subst hkk; simp
        · simp [hkk]
    have ih' := ih (done ++ [k])
    unfold groupRound at ih'
    rw [this, ih']
    simp

/-! ### interleavings of finer steps -/

/-- two steps that touch different cells -/
def Indep (x y : Task) : Prop := x.tx ≠ y.tx ∧ x.op ≠ y.op

/-- traces that differ by exchanging adjacent independent steps -/
inductive TraceEq : List Task → List Task → Prop
  | refl (l : List Task) : TraceEq l l
  | cons (x : Task) {l₁ l₂ : List Task} : TraceEq l₁ l₂ → TraceEq (x :: l₁) (x :: l₂)
  | swap (x y : Task) (l : List Task) : Indep y x → TraceEq (y :: x :: l) (x :: y :: l)
  | trans {l₁ l₂ l₃ : List Task} : TraceEq l₁ l₂ → TraceEq l₂ l₃ → TraceEq l₁ l₃

section
variable {α β ε : Type} (step : Nat → α → β → α × β × Option ε)

theorem runTasks_traceEq {l₁ l₂ : List Task} (hp : TraceEq l₁ l₂) (c c' : Cells α β)
    (h : runTasks step l₁ c = (c', none)) : runTasks step l₂ c = (c', none) := by
  induction hp generalizing c c' with
  | refl => exact h
  | cons x _ ih =>
    simp only [runTasks] at h ⊢
    rcases hr : runTask step x c with ⟨c1, e⟩
    rw [hr] at h
    cases e with
    | some e => simp at h
    | none => exact ih c1 c' h
  | swap x y l hi =>
    have hc := runTask_comm step y x c hi.1 hi.2
    simp only [runTasks] at h ⊢
    generalize hy : runTask step y c = ry at h hc
    generalize hx : runTask step x c = rx at hc ⊢
    obtain ⟨cy, ey⟩ := ry
    obtain ⟨cx, ex⟩ := rx
    simp only [] at hc h ⊢
    generalize hxy : runTask step x cy = rxy at h hc
    generalize hyx : runTask step y cx = ryx at hc ⊢
    obtain ⟨cxy, exy⟩ := rxy
    obtain ⟨cyx, eyx⟩ := ryx
    simp only [] at hc h ⊢
    obtain ⟨h1, h2, h3⟩ := hc
    subst h1 h2 h3
    cases ey with
    | some e => simp at h
    | none =>
      simp only [] at h
      rw [hxy] at h
      cases exy with
      | some e => simp at h
      | none => simp only [] at h ⊢; rw [hyx]; simpa using h
  | trans _ _ ih₁ ih₂ => exact ih₂ c c' (ih₁ c c' h)
end

theorem TraceEq.symm {l₁ l₂ : List Task} (h : TraceEq l₁ l₂) : TraceEq l₂ l₁ := by
  induction h with
  | refl => exact .refl _
  | cons x _ ih => exact .cons x ih
  | swap x y l hi => exact .swap y x l ⟨Ne.symm hi.1, Ne.symm hi.2⟩
  | trans _ _ ih₁ ih₂ => exact .trans ih₂ ih₁

theorem TraceEq.append_left (a : List Task) {l₁ l₂ : List Task} (h : TraceEq l₁ l₂) : TraceEq (a ++ l₁) (a ++ l₂) := by
  induction a with
  | nil => exact h
  | cons x a ih => exact .cons x ih

/-- a step independent of everything in `a` can be moved in front of `a` -/
theorem TraceEq.move_front (x : Task) (a b : List Task) (h : ∀ y ∈ a, Indep y x) :
    TraceEq (a ++ x :: b) (x :: (a ++ b)) := by
  induction a with
  | nil => exact .refl _
  | cons y a ih =>
    have h1 := ih (fun z hz => h z (List.mem_cons_of_mem _ hz))
    exact .trans (.cons y h1) (.swap x y (a ++ b) (h y List.mem_cons_self))

/-- the serial execution that belongs to a trace: thread 0's steps (in trace order), then thread 1's, … ;
a thread is identified by the `tx` cell it owns -/
def serialise (n : Nat) (l : List Task) : List Task :=
  (List.range n).flatMap fun k => l.filter fun t => t.tx = k

theorem flatMap_congr2 {α γ : Type} {l : List α} {f g : α → List γ} (h : ∀ x ∈ l, f x = g x) :
    l.flatMap f = l.flatMap g := by
  induction l with
  | nil => rfl
  | cons x l ih =>
    simp only [List.flatMap_cons]
    rw [h x List.mem_cons_self, ih (fun y hy => h y (List.mem_cons_of_mem _ hy))]

theorem range_split (n i : Nat) (h : i < n) :
    List.range n = List.range i ++ i :: List.range' (i + 1) (n - (i + 1)) := by
  rw [List.range_eq_range', List.range_eq_range']
  have : n = i + ((n - (i + 1)) + 1) := by omega
  conv => lhs; rw [this]
  rw [← List.range'_append_1, List.range'_succ]
  simp

theorem serialise_cons (n : Nat) (x : Task) (l : List Task) (hx : x.tx < n) :
    ∃ a b, serialise n (x :: l) = a ++ x :: b ∧ serialise n l = a ++ b ∧ ∀ y ∈ a, y.tx < x.tx := by
  refine ⟨(List.range x.tx).flatMap fun k => l.filter fun t => t.tx = k,
    (l.filter fun t => t.tx = x.tx) ++ (List.range' (x.tx + 1) (n - (x.tx + 1))).flatMap fun k => l.filter fun t => t.tx = k, ?_, ?_, ?_⟩
  · unfold serialise
    have hr := range_split n x.tx hx
    rw [hr, List.flatMap_append, List.flatMap_cons]
    congr 1
    · apply flatMap_congr2
      intro k hk
      rw [List.mem_range] at hk
      have : ¬ x.tx = k := by omega
      simp [this]
    · simp only [List.filter_cons, decide_true, if_true, List.cons_append]
      congr 2
      apply flatMap_congr2
      intro k hk
      rw [List.mem_range'_1] at hk
      have : ¬ x.tx = k := by omega
      simp [this]
  · unfold serialise
    rw [range_split n x.tx hx, List.flatMap_append, List.flatMap_cons]
  · intro y hy
    rw [List.mem_flatMap] at hy
    obtain ⟨k, hk, hy⟩ := hy
    rw [List.mem_range] at hk
    have := (List.mem_filter.mp hy).2
    simp at this
    omega

/-- **every interleaving is a serial execution**: let `l` be *any* global sequence of steps of `n`
threads, where thread `k` owns `tx[k]` and one operation cell of its own (`opOf` injective) and every
step touches only the cells of its thread.  If the thread-by-thread serial execution succeeds, the
interleaved one succeeds with the same result. -/
theorem serialise_traceEq (n : Nat) (opOf : Nat → Nat) (hinj : ∀ a b, opOf a = opOf b → a = b)
    (l : List Task) (hl : ∀ t ∈ l, t.tx < n ∧ t.op = opOf t.tx) : TraceEq (serialise n l) l := by
  induction l with
  | nil =>
    have : serialise n [] = [] := by
      unfold serialise
      induction List.range n with
      | nil => rfl
      | cons k ks ih => simp
    rw [this]; exact .refl _
  | cons x l ih =>
    have hx := hl x List.mem_cons_self
    have hl' : ∀ t ∈ l, t.tx < n ∧ t.op = opOf t.tx := fun t ht => hl t (List.mem_cons_of_mem _ ht)
    obtain ⟨a, b, h1, h2, h3⟩ := serialise_cons n x l hx.1
    rw [h1]
    have hind : ∀ y ∈ a, Indep y x := by
      intro y hy
      have hlt := h3 y hy
      have hy' : y ∈ serialise n l := by rw [h2]; exact List.mem_append_left _ hy
      have hyl : y ∈ l := by
        unfold serialise at hy'
        rw [List.mem_flatMap] at hy'
        obtain ⟨_, _, hy'⟩ := hy'
        exact (List.mem_filter.mp hy').1
      have hyo := (hl' y hyl).2
      refine ⟨by omega, ?_⟩
      intro heq
      rw [hyo, hx.2] at heq
      have := hinj _ _ heq
      omega
    refine .trans (TraceEq.move_front x a b hind) (.cons x ?_)
    rw [← h2]; exact ih hl'


end Autd3.ParPack
