import Autd3.Lemmas.RtOps4
/-!
Round trips, part 5: Gain (`write_gain` in closed form).
-/
open Autd3 Autd3.Fw Autd3.Wire Autd3.Gen.Cpu Autd3.Gen
namespace Autd3.Rt

/-! ### Gain -/

/-- `write_gain`: the four per-segment registers -/
def gainRegs (s : State) (seg : Nat) : State :=
  wr (wr (wr (wr s (ADDR_STM_FREQ_DIV0 + seg) 0xFFFF) (ADDR_STM_REP0 + seg) 0xFFFF)
    (ADDR_STM_CYCLE0 + seg) 0) (ADDR_STM_MODE0 + seg) STM_MODE_GAIN
/-- `write_gain`: the CPU's per-segment copies -/
def gainCopies (s : State) (seg : Nat) : State :=
  { s with stmCycle := setSel s.stmCycle seg 1, stmRep := setSel s.stmRep seg 0xFFFF,
           stmDiv := setSel s.stmDiv seg 0xFFFF, stmMode := setSel s.stmMode seg STM_MODE_GAIN }
@[simp] theorem gainCopies_ack (s : State) (seg : Nat) : (gainCopies s seg).ack = s.ack := rfl
@[simp] theorem gainCopies_lastMsgId (s : State) (seg : Nat) : (gainCopies s seg).lastMsgId = s.lastMsgId := rfl
@[simp] theorem gainCopies_rxData (s : State) (seg : Nat) : (gainCopies s seg).rxData = s.rxData := rfl
@[simp] theorem gainCopies_readsFpgaState (s : State) (seg : Nat) : (gainCopies s seg).readsFpgaState = s.readsFpgaState := rfl
@[simp] theorem gainCopies_readsStore (s : State) (seg : Nat) : (gainCopies s seg).readsStore = s.readsStore := rfl
@[simp] theorem gainCopies_isRxDataUsed (s : State) (seg : Nat) : (gainCopies s seg).isRxDataUsed = s.isRxDataUsed := rfl
@[simp] theorem gainCopies_synchronized (s : State) (seg : Nat) : (gainCopies s seg).synchronized = s.synchronized := rfl
@[simp] theorem gainCopies_modCycle (s : State) (seg : Nat) : (gainCopies s seg).modCycle = s.modCycle := rfl
@[simp] theorem gainCopies_stmWrite (s : State) (seg : Nat) : (gainCopies s seg).stmWrite = s.stmWrite := rfl
@[simp] theorem gainCopies_stmMode (s : State) (seg : Nat) : (gainCopies s seg).stmMode = setSel s.stmMode seg STM_MODE_GAIN := rfl
@[simp] theorem gainCopies_modDiv (s : State) (seg : Nat) : (gainCopies s seg).modDiv = s.modDiv := rfl
@[simp] theorem gainCopies_modRep (s : State) (seg : Nat) : (gainCopies s seg).modRep = s.modRep := rfl
@[simp] theorem gainCopies_stmSegment (s : State) (seg : Nat) : (gainCopies s seg).stmSegment = s.stmSegment := rfl
@[simp] theorem gainCopies_modSegment (s : State) (seg : Nat) : (gainCopies s seg).modSegment = s.modSegment := rfl
@[simp] theorem gainCopies_stmTrMode (s : State) (seg : Nat) : (gainCopies s seg).stmTrMode = s.stmTrMode := rfl
@[simp] theorem gainCopies_stmTrValue (s : State) (seg : Nat) : (gainCopies s seg).stmTrValue = s.stmTrValue := rfl
@[simp] theorem gainCopies_modTrMode (s : State) (seg : Nat) : (gainCopies s seg).modTrMode = s.modTrMode := rfl
@[simp] theorem gainCopies_modTrValue (s : State) (seg : Nat) : (gainCopies s seg).modTrValue = s.modTrValue := rfl
@[simp] theorem gainCopies_gainStmMode (s : State) (seg : Nat) : (gainCopies s seg).gainStmMode = s.gainStmMode := rfl
@[simp] theorem gainCopies_numFoci (s : State) (seg : Nat) : (gainCopies s seg).numFoci = s.numFoci := rfl
@[simp] theorem gainCopies_strict (s : State) (seg : Nat) : (gainCopies s seg).strict = s.strict := rfl
@[simp] theorem gainCopies_minDivI (s : State) (seg : Nat) : (gainCopies s seg).minDivI = s.minDivI := rfl
@[simp] theorem gainCopies_minDivP (s : State) (seg : Nat) : (gainCopies s seg).minDivP = s.minDivP := rfl
@[simp] theorem gainCopies_flagsInternal (s : State) (seg : Nat) : (gainCopies s seg).flagsInternal = s.flagsInternal := rfl
@[simp] theorem gainCopies_portA (s : State) (seg : Nat) : (gainCopies s seg).portA = s.portA := rfl
@[simp] theorem gainCopies_dcSysTime (s : State) (seg : Nat) : (gainCopies s seg).dcSysTime = s.dcSysTime := rfl
@[simp] theorem gainCopies_numTr (s : State) (seg : Nat) : (gainCopies s seg).numTr = s.numTr := rfl
@[simp] theorem gainCopies_ctl (s : State) (seg : Nat) : (gainCopies s seg).ctl = s.ctl := rfl
@[simp] theorem gainCopies_phaseCorr (s : State) (seg : Nat) : (gainCopies s seg).phaseCorr = s.phaseCorr := rfl
@[simp] theorem gainCopies_pwe (s : State) (seg : Nat) : (gainCopies s seg).pwe = s.pwe := rfl
@[simp] theorem gainCopies_modMem0 (s : State) (seg : Nat) : (gainCopies s seg).modMem0 = s.modMem0 := rfl
@[simp] theorem gainCopies_modMem1 (s : State) (seg : Nat) : (gainCopies s seg).modMem1 = s.modMem1 := rfl
@[simp] theorem gainCopies_stmMem0 (s : State) (seg : Nat) : (gainCopies s seg).stmMem0 = s.stmMem0 := rfl
@[simp] theorem gainCopies_stmMem1 (s : State) (seg : Nat) : (gainCopies s seg).stmMem1 = s.stmMem1 := rfl
@[simp] theorem gainCopies_modSwap (s : State) (seg : Nat) : (gainCopies s seg).modSwap = s.modSwap := rfl
@[simp] theorem gainCopies_stmSwap (s : State) (seg : Nat) : (gainCopies s seg).stmSwap = s.stmSwap := rfl
@[simp] theorem gainCopies_stmCycle (s : State) (seg : Nat) : (gainCopies s seg).stmCycle = setSel s.stmCycle seg 1 := rfl
@[simp] theorem gainCopies_stmRep (s : State) (seg : Nat) : (gainCopies s seg).stmRep = setSel s.stmRep seg 0xFFFF := rfl
@[simp] theorem gainCopies_stmDiv (s : State) (seg : Nat) : (gainCopies s seg).stmDiv = setSel s.stmDiv seg 0xFFFF := rfl

/-- `write_gain` up to (not including) the optional request: registers, CPU copies, BRAM -/
def gainBody (s : State) (seg : Nat) (ws : Array Nat) : State :=
  setStmMem (wr (wr (gainCopies (gainRegs s seg) seg) ADDR_STM_MEM_WR_SEGMENT seg) ADDR_STM_MEM_WR_PAGE 0) seg
    (wrWords (Obs.stmMem s seg) 0 ws)

theorem gainRegs_ctl_size (s : State) (seg : Nat) : (gainRegs s seg).ctl.size = s.ctl.size := by
  simp [gainRegs]

/-- `write_gain` before the optional request -/
theorem writeGain_body (s0 : State) (hW : WF s0) (seg : Nat) (hseg : seg ≤ 1) (ws : Array Nat) (hws : ws.size ≤ 16384) :
    stmWriteWords (wr (wr (gainCopies (gainRegs s0 seg) seg) ADDR_STM_MEM_WR_SEGMENT seg) ADDR_STM_MEM_WR_PAGE 0) 0 ws =
      .ok (gainBody s0 seg ws) := by
  have hc : (gainCopies (gainRegs s0 seg) seg).ctl.size = 256 := by
    rw [gainCopies_ctl, gainRegs_ctl_size]; exact hW.ctl
  have hmem : ∀ g, Obs.stmMem (wr (wr (gainCopies (gainRegs s0 seg) seg) ADDR_STM_MEM_WR_SEGMENT seg) ADDR_STM_MEM_WR_PAGE 0) g =
      Obs.stmMem s0 g := by intro g; unfold Obs.stmMem; simp [gainRegs]
  unfold gainBody
  generalize gainCopies (gainRegs s0 seg) seg = sB at hc hmem
  have e80 : reg (wr (wr sB ADDR_STM_MEM_WR_SEGMENT seg) ADDR_STM_MEM_WR_PAGE 0) ADDR_STM_MEM_WR_SEGMENT = seg := by
    simp only [reg_wr, wr_ctl, Array.size_setIfInBounds, hc, ADDR_STM_MEM_WR_SEGMENT, ADDR_STM_MEM_WR_PAGE]
    simp; omega
  have e81 : reg (wr (wr sB ADDR_STM_MEM_WR_SEGMENT seg) ADDR_STM_MEM_WR_PAGE 0) ADDR_STM_MEM_WR_PAGE = 0 := by
    simp only [reg_wr, wr_ctl, Array.size_setIfInBounds, hc, ADDR_STM_MEM_WR_SEGMENT, ADDR_STM_MEM_WR_PAGE]
    simp
  rw [stmWriteWords_eq _ _ _ (by rw [e80]; exact hseg) (by omega) (by rw [e81]; have := hW.stmMem0; omega), e80, e81, hmem]

theorem gain_handler_noupd (s0 : State) (hW : WF s0) (d : Array Nat) (seg : Nat) (hseg : seg ≤ 1)
    (h0 : u8at d 0 = 48) (h1 : u8at d 1 = seg) (h2 : u8at d 2 = 0) :
    handlePayload s0 d = .ok (gainBody s0 seg (wordsAt d 4 s0.numTr), NO_ERR) := by
  unfold handlePayload; rw [h0]
  show writeGain _ _ = _
  unfold writeGain
  simp only [FwLayout.Gain_segment_off, FwLayout.Gain_flag_off, FwLayout.Gain_size, h1, h2]
  rw [if_neg (by omega)]
  have hn := hW.numTr
  have hf : hasFlag 0 GAIN_FLAG_UPDATE = false := rfl
  simp only [Bool.false_eq_true, if_false, hf]
  simp only [ctlWrite_main _ _ _ (show ADDR_STM_FREQ_DIV0 + seg < 256 by simp [ADDR_STM_FREQ_DIV0]; omega),
    ctlWrite_main _ _ _ (show ADDR_STM_REP0 + seg < 256 by simp [ADDR_STM_REP0]; omega),
    ctlWrite_main _ _ _ (show ADDR_STM_CYCLE0 + seg < 256 by simp [ADDR_STM_CYCLE0]; omega), ok_bind]
  rw [ctlWrite_main _ _ _ (show ADDR_STM_MODE0 + seg < 256 by simp [ADDR_STM_MODE0]; omega)]
  have hfold : wr (wr (wr (wr s0 (ADDR_STM_FREQ_DIV0 + seg) 65535) (ADDR_STM_REP0 + seg) 65535)
      (ADDR_STM_CYCLE0 + seg) 0) (ADDR_STM_MODE0 + seg) STM_MODE_GAIN = gainRegs s0 seg := rfl
  rw [hfold]
  have hb := writeGain_body s0 hW seg hseg (wordsAt d 4 s0.numTr) (by simp; omega)
  have hnA : (gainRegs s0 seg).numTr = s0.numTr := by simp [gainRegs]
  generalize gainRegs s0 seg = sA at hb hnA
  simp only [ok_bind]
  show (do let s ← ctlWrite (gainCopies sA seg) ADDR_STM_MEM_WR_SEGMENT seg; _) = _
  simp only [ctlWrite_main _ ADDR_STM_MEM_WR_SEGMENT _ (by decide), ctlWrite_main _ ADDR_STM_MEM_WR_PAGE _ (by decide),
    ok_bind, wr_numTr, gainCopies_numTr, hnA, hb]
  rfl

theorem gain_handler_upd (s0 : State) (hW : WF s0) (d : Array Nat) (seg : Nat) (hseg : seg ≤ 1)
    (h0 : u8at d 0 = 48) (h1 : u8at d 1 = seg) (h2 : u8at d 2 = 1) (s2 : State)
    (hs2 : s2 = { s0 with stmSegment := seg }) :
    handlePayload s0 d = (do
        let s ← setAndWaitUpdate (wr (wr (gainBody s2 seg (wordsAt d 4 s0.numTr))
          ADDR_STM_REQ_RD_SEGMENT seg) ADDR_STM_TRANSITION_MODE TRANSITION_MODE_SYNC_IDX) CTL_FLAG_STM_SET
        pure (s, NO_ERR)) := by
  unfold handlePayload; rw [h0]
  show writeGain _ _ = _
  unfold writeGain
  simp only [FwLayout.Gain_segment_off, FwLayout.Gain_flag_off, FwLayout.Gain_size, h1, h2]
  rw [if_neg (by omega)]
  have hn := hW.numTr
  have hf : hasFlag 1 GAIN_FLAG_UPDATE = true := rfl
  simp only [if_true, hf]
  rw [← hs2]
  have hW2 : WF s2 := by rw [hs2]; wf_same hW
  have hn2 : s2.numTr = s0.numTr := by rw [hs2]
  clear hs2
  simp only [ctlWrite_main _ _ _ (show ADDR_STM_FREQ_DIV0 + seg < 256 by simp [ADDR_STM_FREQ_DIV0]; omega),
    ctlWrite_main _ _ _ (show ADDR_STM_REP0 + seg < 256 by simp [ADDR_STM_REP0]; omega),
    ctlWrite_main _ _ _ (show ADDR_STM_CYCLE0 + seg < 256 by simp [ADDR_STM_CYCLE0]; omega), ok_bind]
  rw [ctlWrite_main _ _ _ (show ADDR_STM_MODE0 + seg < 256 by simp [ADDR_STM_MODE0]; omega)]
  have hfold : wr (wr (wr (wr s2 (ADDR_STM_FREQ_DIV0 + seg) 65535) (ADDR_STM_REP0 + seg) 65535)
      (ADDR_STM_CYCLE0 + seg) 0) (ADDR_STM_MODE0 + seg) STM_MODE_GAIN = gainRegs s2 seg := rfl
  rw [hfold]
  have hb := writeGain_body s2 hW2 seg hseg (wordsAt d 4 s0.numTr) (by simp; omega)
  have hnA : (gainRegs s2 seg).numTr = s0.numTr := by simp [gainRegs, hn2]
  generalize gainRegs s2 seg = sA at hb hnA
  simp only [ok_bind]
  show (do let s ← ctlWrite (gainCopies sA seg) ADDR_STM_MEM_WR_SEGMENT seg; _) = _
  simp only [ctlWrite_main _ ADDR_STM_MEM_WR_SEGMENT _ (by decide), ctlWrite_main _ ADDR_STM_MEM_WR_PAGE _ (by decide),
    ok_bind, wr_numTr, gainCopies_numTr, hnA, hb, ctlWrite_main _ ADDR_STM_REQ_RD_SEGMENT _ (by decide),
    ctlWrite_main _ ADDR_STM_TRANSITION_MODE _ (by decide)]

@[simp] theorem reg_gainCopies (s : State) (seg a : Nat) : reg (gainCopies s seg) a = reg s a := rfl

theorem WF_gainCopies {s : State} (h : WF s) (seg : Nat) : WF (gainCopies s seg) := by wf_same h

theorem WF_setStmMem {s : State} (h : WF s) (seg : Nat) (m : Array Nat) (hm : m.size = 262144) :
    WF (setStmMem s seg m) := by
  unfold setStmMem
  split
  · exact ⟨h.ctl, h.phaseCorr, h.pwe, h.modMem0, h.modMem1, hm, h.stmMem1, h.numTr, h.flags, h.modSwap, h.stmSwap,
      h.modDiv0, h.modDiv1, h.stmDiv0, h.stmDiv1⟩
  · exact ⟨h.ctl, h.phaseCorr, h.pwe, h.modMem0, h.modMem1, h.stmMem0, hm, h.numTr, h.flags, h.modSwap, h.stmSwap,
      h.modDiv0, h.modDiv1, h.stmDiv0, h.stmDiv1⟩

theorem stmMem_size {s : State} (h : WF s) (g : Nat) : (Obs.stmMem s g).size = 262144 := by
  unfold Obs.stmMem; split
  · exact h.stmMem0
  · exact h.stmMem1

theorem WF_gainBody {s : State} (h : WF s) (seg : Nat) (hseg : seg ≤ 1) (ws : Array Nat) : WF (gainBody s seg ws) := by
  unfold gainBody gainRegs
  refine WF_setStmMem (WF_wr (WF_wr (WF_gainCopies (WF_wr (WF_wr (WF_wr (WF_wr h _ _ (Or.inr (by decide))) _ _
    (Or.inl ?_)) _ _ (Or.inl ?_)) _ _ (Or.inl ?_)) _) _ _ (Or.inl (by decide))) _ _ (Or.inl (by decide))) _ _ ?_
  · simp only [ADDR_STM_REP0, ADDR_MOD_FREQ_DIV0, ADDR_MOD_FREQ_DIV1, ADDR_STM_FREQ_DIV0, ADDR_STM_FREQ_DIV1]; omega
  · simp only [ADDR_STM_CYCLE0, ADDR_MOD_FREQ_DIV0, ADDR_MOD_FREQ_DIV1, ADDR_STM_FREQ_DIV0, ADDR_STM_FREQ_DIV1]; omega
  · simp only [ADDR_STM_MODE0, ADDR_MOD_FREQ_DIV0, ADDR_MOD_FREQ_DIV1, ADDR_STM_FREQ_DIV0, ADDR_STM_FREQ_DIV1]; omega
  · rw [size_wrWords]; exact stmMem_size h seg

theorem reg_gainBody (s : State) (hc : s.ctl.size = 256) (seg : Nat) (hseg : seg ≤ 1) (ws : Array Nat) (a : Nat) :
    reg (gainBody s seg ws) a =
      if a = 81 then 0 else if a = 80 then seg else if a = 89 + seg then 1 else if a = 83 + seg then 0
      else if a = 87 + seg then 65535 else if a = 85 + seg then 65535 else reg s a := by
  rcases (show seg = 0 ∨ seg = 1 by omega) with h | h <;> subst h <;>
  · unfold gainBody gainRegs
    simp only [reg_setStmMem, reg_wr, reg_gainCopies, wr_ctl, gainCopies_ctl, Array.size_setIfInBounds, hc, ADDR_STM_MEM_WR_PAGE,
      ADDR_STM_MEM_WR_SEGMENT, ADDR_STM_MODE0, ADDR_STM_CYCLE0, ADDR_STM_REP0, ADDR_STM_FREQ_DIV0, STM_MODE_GAIN]
    simp

theorem stmMem_gainBody_same (s : State) (seg : Nat) (ws : Array Nat) :
    Obs.stmMem (gainBody s seg ws) seg = wrWords (Obs.stmMem s seg) 0 ws := by
  unfold gainBody setStmMem Obs.stmMem
  by_cases h : seg = 0 <;> simp [h]

theorem stmMem_gainBody_other (s : State) (seg g : Nat) (ws : Array Nat) (h : (g = 0) ≠ (seg = 0)) :
    Obs.stmMem (gainBody s seg ws) g = Obs.stmMem s g := by
  unfold gainBody setStmMem Obs.stmMem gainRegs
  by_cases h1 : seg = 0 <;> by_cases h2 : g = 0 <;> simp [h1, h2] at h ⊢


/-- the Gain frame: header bytes and the drive words -/
def gainPayload (b : Array Nat) (seg flag : Nat) (drives : Array Nat) (n : Nat) : Array Nat :=
  putWords (put8 (put8 (put8 (put8 b 0 Drv.TAG_Gain) 1 seg) 2 flag) 3 0) 4 drives n

theorem pack_gain_none (seg : Nat) (drives : Array Nat) (n : Nat) (b : Array Nat) (hb : b.size = 622) (hn : n ≤ 249) :
    (Op.ofDg (.gain seg none drives)).pack n b 0 =
      .ok ({ dg := .gain seg none drives, sent := 0, done := true }, gainPayload b seg 0 drives n, 4 + n * 2) := by
  unfold Op.pack gainPayload
  simp [Op.ofDg, hb, DrvLayout.Gain_size, DrvLayout.Gain_tag_off, DrvLayout.Gain_segment_off, DrvLayout.Gain_flag_off,
    Drv.GainControlFlags_NONE, Nat.min_eq_left (show n ≤ 309 by omega)]

theorem pack_gain_some (seg v : Nat) (drives : Array Nat) (n : Nat) (b : Array Nat) (hb : b.size = 622) (hn : n ≤ 249) :
    (Op.ofDg (.gain seg (some (Drv.TRANSITION_MODE_IMMEDIATE, v)) drives)).pack n b 0 =
      .ok ({ dg := .gain seg (some (Drv.TRANSITION_MODE_IMMEDIATE, v)) drives, sent := 0, done := true },
        gainPayload b seg 1 drives n, 4 + n * 2) := by
  unfold Op.pack gainPayload
  simp [Op.ofDg, hb, DrvLayout.Gain_size, DrvLayout.Gain_tag_off, DrvLayout.Gain_segment_off, DrvLayout.Gain_flag_off,
    Drv.GainControlFlags_UPDATE, Nat.min_eq_left (show n ≤ 309 by omega)]

theorem gain_payload (b : Array Nat) (seg flag : Nat) (drives : Array Nat) (n : Nat) (hb : b.size = 622) (hn : n ≤ 249)
    (hseg : seg < 256) (hfl : flag < 256) :
    let d := gainPayload b seg flag drives n
    u8at d 0 = 48 ∧ u8at d 1 = seg ∧ u8at d 2 = flag ∧ (∀ k, k < n → u16at d (4 + 2 * k) = rd drives k % 65536) ∧
      d.size = 622 := by
  simp only [gainPayload]
  refine ⟨?_, ?_, ?_, ?_, by simpa using hb⟩
  · rw [u8at_putWords, if_neg (by omega), u8at_put8, if_neg (by omega), u8at_put8, if_neg (by omega), u8at_put8,
      if_neg (by omega), u8at_put8, if_pos ⟨rfl, by omega⟩]; rfl
  · rw [u8at_putWords, if_neg (by omega), u8at_put8, if_neg (by omega), u8at_put8, if_neg (by omega), u8at_put8,
      if_pos ⟨rfl, by simp; omega⟩]; omega
  · rw [u8at_putWords, if_neg (by omega), u8at_put8, if_neg (by omega), u8at_put8, if_pos ⟨rfl, by simp; omega⟩]; omega
  · intro k hk
    rw [u16at_putWords _ _ _ _ _ hk (by simp; omega)]

/-- expected read-back of one drive word: phase plus the stored phase correction, intensity kept -/
def driveWithCorr (d corr : Nat) : Nat := (d % 256 + corr) % 256 + 256 * (d / 256)

theorem gainDrives_of_mem (s' s : State) (seg : Nat) (drives : Array Nat) (hdr : ∀ i, rd drives i < 65536)
    (hn : s'.numTr = s.numTr) (hpc : s'.phaseCorr = s.phaseCorr) (hsz : (Obs.stmMem s' seg).size = 262144)
    (hm : ∀ i, i < s.numTr → rd (Obs.stmMem s' seg) i = rd drives i) (hnt : s.numTr ≤ 249) :
    Obs.gainDrives s' seg 0 = (Array.range s.numTr).map fun i => driveWithCorr (rd drives i) (Obs.phaseCorrAt s i) := by
  unfold Obs.gainDrives
  rw [hn]
  apply range_map_congr
  intro i hi
  have hpa : Obs.phaseCorrAt s' i = Obs.phaseCorrAt s i := by unfold Obs.phaseCorrAt; rw [hpc]
  simp only [Nat.mul_zero, Nat.zero_add, hsz, show i < 262144 from by omega, if_true, hm i hi, hpa]
  unfold driveWithCorr
  have := hdr i
  omega


/-- what a Gain datagram leaves in its segment, and what it leaves alone -/
structure GainHeld (s s' : State) (seg : Nat) (drives : Array Nat) : Prop where
  drives : Obs.gainDrives s' seg 0 =
    (Array.range s.numTr).map fun i => driveWithCorr (rd drives i) (Obs.phaseCorrAt s i)
  cycle : Obs.stmCycle s' seg = 1
  gainMode : Obs.isStmGainMode s' seg = true
  div : Obs.stmDiv s' seg = 0xFFFF
  rep : Obs.stmRep s' seg = 0xFFFF
  otherMem : Obs.stmMem s' (1 - seg) = Obs.stmMem s (1 - seg)
  otherRegs : Obs.stmCycle s' (1 - seg) = Obs.stmCycle s (1 - seg) ∧ Obs.stmDiv s' (1 - seg) = Obs.stmDiv s (1 - seg) ∧
    Obs.stmRep s' (1 - seg) = Obs.stmRep s (1 - seg) ∧ Obs.isStmGainMode s' (1 - seg) = Obs.isStmGainMode s (1 - seg)
  modMem : s'.modMem0 = s.modMem0 ∧ s'.modMem1 = s.modMem1
  numTr : s'.numTr = s.numTr

theorem gainHeld_of (s s1 : State) (id : Nat) (seg : Nat) (hseg : seg ≤ 1) (drives ws : Array Nat)
    (hW : WF s) (hdr : ∀ i, rd drives i < 65536)
    (hws : ws.size = s.numTr) (hwd : ∀ k, k < s.numTr → rd ws k = rd drives k)
    (hregs : ∀ a, 83 ≤ a → a ≤ 90 → reg s1 a = reg (gainBody s seg ws) a)
    (hmem : ∀ g, Obs.stmMem s1 g = Obs.stmMem (gainBody s seg ws) g)
    (hn : s1.numTr = s.numTr) (hpc : s1.phaseCorr = s.phaseCorr)
    (hm0 : s1.modMem0 = s.modMem0) (hm1 : s1.modMem1 = s.modMem1) :
    GainHeld s (fin s1 id) seg drives := by
  have hc := hW.ctl
  have hr : ∀ a, 83 ≤ a → a ≤ 90 → reg (fin s1 id) a = reg (gainBody s seg ws) a := by
    intro a h1 h2; rw [reg_fin _ _ _ (by omega), hregs a h1 h2]
  have hmem' : ∀ g, Obs.stmMem (fin s1 id) g = Obs.stmMem (gainBody s seg ws) g := fun g => hmem g
  have hnt := hW.numTr
  refine ⟨?_, ?_, ?_, ?_, ?_, ?_, ⟨?_, ?_, ?_, ?_⟩, ⟨hm0, hm1⟩, hn⟩
  · apply gainDrives_of_mem (fin s1 id) s seg drives hdr hn hpc
    · rw [hmem', stmMem_gainBody_same, size_wrWords]; exact stmMem_size hW seg
    · intro i hi
      rw [hmem', stmMem_gainBody_same, rd_wrWords, if_pos (by rw [stmMem_size hW seg]; omega), Nat.sub_zero, hwd i hi]
      exact Nat.mod_eq_of_lt (hdr i)
    · exact hnt
  · unfold Obs.stmCycle; simp only [ADDR_STM_CYCLE0]
    rw [hr _ (by omega) (by omega), reg_gainBody _ hc _ hseg]
    rw [if_neg (by omega), if_neg (by omega), if_neg (by omega), if_pos rfl]
  · have : reg (fin s1 id) (ADDR_STM_MODE0 + seg) = 1 := by
      simp only [ADDR_STM_MODE0]
      rw [hr _ (by omega) (by omega), reg_gainBody _ hc _ hseg]
      rw [if_neg (by omega), if_neg (by omega), if_pos rfl]
    unfold Obs.isStmGainMode; rw [this]; rfl
  · unfold Obs.stmDiv; simp only [ADDR_STM_FREQ_DIV0]
    rw [hr _ (by omega) (by omega), reg_gainBody _ hc _ hseg]
    rw [if_neg (by omega), if_neg (by omega), if_neg (by omega), if_neg (by omega), if_neg (by omega), if_pos rfl]
  · unfold Obs.stmRep; simp only [ADDR_STM_REP0]
    rw [hr _ (by omega) (by omega), reg_gainBody _ hc _ hseg]
    rw [if_neg (by omega), if_neg (by omega), if_neg (by omega), if_neg (by omega), if_pos rfl]
  · rw [hmem', stmMem_gainBody_other]
    rcases (show seg = 0 ∨ seg = 1 by omega) with h | h <;> subst h <;> simp
  · unfold Obs.stmCycle; simp only [ADDR_STM_CYCLE0]
    rw [hr _ (by omega) (by omega), reg_gainBody _ hc _ hseg]
    rw [if_neg (by omega), if_neg (by omega), if_neg (by omega), if_neg (by omega), if_neg (by omega), if_neg (by omega)]
  · unfold Obs.stmDiv; simp only [ADDR_STM_FREQ_DIV0]
    rw [hr _ (by omega) (by omega), reg_gainBody _ hc _ hseg]
    rw [if_neg (by omega), if_neg (by omega), if_neg (by omega), if_neg (by omega), if_neg (by omega), if_neg (by omega)]
  · unfold Obs.stmRep; simp only [ADDR_STM_REP0]
    rw [hr _ (by omega) (by omega), reg_gainBody _ hc _ hseg]
    rw [if_neg (by omega), if_neg (by omega), if_neg (by omega), if_neg (by omega), if_neg (by omega), if_neg (by omega)]
  · have : reg (fin s1 id) (ADDR_STM_MODE0 + (1 - seg)) = reg s (ADDR_STM_MODE0 + (1 - seg)) := by
      simp only [ADDR_STM_MODE0]
      rw [hr _ (by omega) (by omega), reg_gainBody _ hc _ hseg]
      rw [if_neg (by omega), if_neg (by omega), if_neg (by omega), if_neg (by omega), if_neg (by omega), if_neg (by omega)]
    unfold Obs.isStmGainMode; rw [this]


theorem gain_roundtrip_noupd (s : State) (t : Tx) (hWF : WF s) (ht : TxOK t) (hf : Fresh s t)
    (seg : Nat) (hseg : seg ≤ 1) (drives : Array Nat) (hdr : ∀ i, rd drives i < 65536) :
    ∃ t' s', Sends (.gain seg none drives) s t t' s' ∧ WF s' ∧ TxOK t' ∧ Fresh s' t' ∧
      GainHeld s s' seg drives ∧ s'.stmSwap = s.stmSwap ∧ Obs.reqStmSeg s' = Obs.reqStmSeg s ∧
      Obs.stmTransition s' = Obs.stmTransition s ∧ s'.stmSegment = s.stmSegment ∧
      s'.stmMode = setSel s.stmMode seg STM_MODE_GAIN ∧ s'.stmCycle = setSel s.stmCycle seg 1 ∧
      s'.stmDiv = setSel s.stmDiv seg 0xFFFF ∧ s'.modDiv = s.modDiv ∧ s'.modSegment = s.modSegment ∧
      s'.strict = s.strict ∧ s'.minDivI = s.minDivI ∧ s'.minDivP = s.minDivP := by
  have ht' : t.payload.size = 622 := ht
  have hnt := hWF.numTr
  obtain ⟨p0, p1, p2, pw, psz⟩ := gain_payload t.payload seg 0 drives s.numTr ht' hnt (by omega) (by omega)
  refine single_glue' _ s t hWF hf _ _ _ rfl (pack_gain_none seg drives _ _ ht' hnt) rfl psz _ ?_
  intro r hW
  generalize gainPayload t.payload seg 0 drives s.numTr = d at p0 p1 p2 pw
  have hh := gain_handler_noupd { s with lastMsgId := nextId t, rxData := r } hW d seg hseg p0 p1 p2
  have hwd : ∀ k, k < s.numTr → rd (wordsAt d 4 s.numTr) k = rd drives k := by
    intro k hk; rw [rd_wordsAt, if_pos hk, pw k hk]; exact Nat.mod_eq_of_lt (hdr k)
  have hG := gainHeld_of { s with lastMsgId := nextId t, rxData := r }
    (gainBody { s with lastMsgId := nextId t, rxData := r } seg (wordsAt d 4 s.numTr)) (nextId t) seg hseg drives
    (wordsAt d 4 s.numTr) hW hdr (by simp) hwd (fun _ _ _ => rfl) (fun _ => rfl)
    (by simp [gainBody, gainRegs]) (by simp [gainBody, gainRegs]) (by simp [gainBody, gainRegs])
    (by simp [gainBody, gainRegs])
  refine ⟨_, hh, WF_gainBody hW seg hseg _, by simp [gainBody, gainRegs], ⟨?_, ?_⟩⟩
  · exact ⟨hG.drives, hG.cycle, hG.gainMode, hG.div, hG.rep, hG.otherMem, hG.otherRegs, hG.modMem, hG.numTr⟩
  · have hr : ∀ a, a ≠ 0 → (a < 80 ∨ a = 82 ∨ 90 < a) →
        reg (fin (gainBody { s with lastMsgId := nextId t, rxData := r } seg (wordsAt d 4 s.numTr)) (nextId t)) a =
          reg s a := by
      intro a h0 ha
      rw [reg_fin _ _ _ h0, reg_gainBody _ hW.ctl _ hseg]
      rw [if_neg (by omega), if_neg (by omega), if_neg (by omega), if_neg (by omega), if_neg (by omega), if_neg (by omega)]
      rfl
    refine ⟨by simp [fin, gainBody, gainRegs], ?_, ?_, by simp [fin, gainBody, gainRegs], by simp [fin, gainBody, gainRegs],
      by simp [fin, gainBody, gainRegs], by simp [fin, gainBody, gainRegs], by simp [fin, gainBody, gainRegs],
      by simp [fin, gainBody, gainRegs], by simp [fin, gainBody, gainRegs], by simp [fin, gainBody, gainRegs],
      by simp [fin, gainBody, gainRegs]⟩
    · unfold Obs.reqStmSeg segReg; simp only [hr _ (show ADDR_STM_REQ_RD_SEGMENT ≠ 0 by decide) (by decide)]
    · unfold Obs.stmTransition reg64
      simp only [hr ADDR_STM_TRANSITION_MODE (by decide) (by decide),
        hr ADDR_STM_TRANSITION_VALUE_0 (by decide) (by decide), hr (ADDR_STM_TRANSITION_VALUE_0 + 1) (by decide) (by decide),
        hr (ADDR_STM_TRANSITION_VALUE_0 + 2) (by decide) (by decide), hr (ADDR_STM_TRANSITION_VALUE_0 + 3) (by decide) (by decide)]


theorem gain_roundtrip_upd (s : State) (t : Tx) (hWF : WF s) (ht : TxOK t) (hf : Fresh s t)
    (seg v : Nat) (hseg : seg ≤ 1) (drives : Array Nat) (hdr : ∀ i, rd drives i < 65536) :
    ∃ t' s', Sends (.gain seg (some (Drv.TRANSITION_MODE_IMMEDIATE, v)) drives) s t t' s' ∧ WF s' ∧ TxOK t' ∧ Fresh s' t' ∧
      GainHeld s s' seg drives ∧ Obs.reqStmSeg s' = .ok seg ∧ Obs.stmTransition s' = .ok .syncIdx ∧
      Obs.currentStmSeg s' = seg ∧ s'.stmSegment = seg ∧
      SwapSet s.stmSwap s'.stmSwap s.dcSysTime 0xFFFF 0xFFFF 1 seg .syncIdx ∧
      s'.stmMode = setSel s.stmMode seg STM_MODE_GAIN ∧ s'.stmCycle = setSel s.stmCycle seg 1 ∧
      s'.stmDiv = setSel s.stmDiv seg 0xFFFF ∧ s'.modDiv = s.modDiv ∧ s'.modSegment = s.modSegment ∧
      s'.strict = s.strict ∧ s'.minDivI = s.minDivI ∧ s'.minDivP = s.minDivP := by
  have ht' : t.payload.size = 622 := ht
  have hnt := hWF.numTr
  obtain ⟨p0, p1, p2, pw, psz⟩ := gain_payload t.payload seg 1 drives s.numTr ht' hnt (by omega) (by omega)
  refine single_glue' _ s t hWF hf _ _ _ rfl (pack_gain_some seg v drives _ _ ht' hnt) rfl psz _ ?_
  intro r hW
  generalize gainPayload t.payload seg 1 drives s.numTr = d at p0 p1 p2 pw
  have hW2 : WF { s with lastMsgId := nextId t, rxData := r, stmSegment := seg } := by wf_same hW
  have hh := gain_handler_upd { s with lastMsgId := nextId t, rxData := r } hW d seg hseg p0 p1 p2 _ rfl
  have hwd : ∀ k, k < s.numTr → rd (wordsAt d 4 s.numTr) k = rd drives k := by
    intro k hk; rw [rd_wordsAt, if_pos hk, pw k hk]; exact Nat.mod_eq_of_lt (hdr k)
  have hWB := WF_gainBody hW2 seg hseg (wordsAt d 4 s.numTr)
  obtain ⟨w, hsaw, hset, hW1, hregs⟩ := gainReq_ok _ hWB seg hseg
  have hc2 : ({ s with lastMsgId := nextId t, rxData := r, stmSegment := seg } : State).ctl.size = 256 := hW.ctl
  rw [hsaw] at hh
  have hG := gainHeld_of { s with lastMsgId := nextId t, rxData := r, stmSegment := seg }
    (gainReqPost (gainBody { s with lastMsgId := nextId t, rxData := r, stmSegment := seg } seg (wordsAt d 4 s.numTr)) seg w)
    (nextId t) seg hseg drives (wordsAt d 4 s.numTr) hW2 hdr (by simp) hwd
    (fun a h1 h2 => by rw [hregs a (by omega), if_neg (by omega), if_neg (by omega)])
    (fun g => by unfold Obs.stmMem; simp [gainReqPost])
    (by simp [gainReqPost, gainBody, gainRegs]) (by simp [gainReqPost, gainBody, gainRegs])
    (by simp [gainReqPost, gainBody, gainRegs]) (by simp [gainReqPost, gainBody, gainRegs])
  have hset' : SwapSet s.stmSwap w s.dcSysTime 0xFFFF 0xFFFF 1 seg .syncIdx := by
    have e1 : reg (gainBody { s with lastMsgId := nextId t, rxData := r, stmSegment := seg } seg (wordsAt d 4 s.numTr))
        (ADDR_STM_REP0 + seg) = 0xFFFF := by
      simp only [ADDR_STM_REP0]; rw [reg_gainBody _ hc2 _ hseg]
      rw [if_neg (by omega), if_neg (by omega), if_neg (by omega), if_neg (by omega), if_pos rfl]
    have e2 : reg (gainBody { s with lastMsgId := nextId t, rxData := r, stmSegment := seg } seg (wordsAt d 4 s.numTr))
        (ADDR_STM_FREQ_DIV0 + seg) = 0xFFFF := by
      simp only [ADDR_STM_FREQ_DIV0]; rw [reg_gainBody _ hc2 _ hseg]
      rw [if_neg (by omega), if_neg (by omega), if_neg (by omega), if_neg (by omega), if_neg (by omega), if_pos rfl]
    have e3 : reg (gainBody { s with lastMsgId := nextId t, rxData := r, stmSegment := seg } seg (wordsAt d 4 s.numTr))
        (ADDR_STM_CYCLE0 + seg) = 0 := by
      simp only [ADDR_STM_CYCLE0]; rw [reg_gainBody _ hc2 _ hseg]
      rw [if_neg (by omega), if_neg (by omega), if_neg (by omega), if_pos rfl]
    rw [e1, e2, e3] at hset
    have e4 : (gainBody { s with lastMsgId := nextId t, rxData := r, stmSegment := seg } seg (wordsAt d 4 s.numTr)).stmSwap =
        s.stmSwap := by simp [gainBody, gainRegs]
    have e5 : (gainBody { s with lastMsgId := nextId t, rxData := r, stmSegment := seg } seg (wordsAt d 4 s.numTr)).dcSysTime =
        s.dcSysTime := by simp [gainBody, gainRegs]
    rw [e4, e5] at hset
    exact hset
  refine ⟨_, hh, hW1, by simp [gainReqPost, gainBody, gainRegs], ⟨?_, ?_, ?_, ?_, ?_, ?_, by simp [fin, gainReqPost, gainBody, gainRegs],
    by simp [fin, gainReqPost, gainBody, gainRegs], by simp [fin, gainReqPost, gainBody, gainRegs],
    by simp [fin, gainReqPost, gainBody, gainRegs], by simp [fin, gainReqPost, gainBody, gainRegs],
    by simp [fin, gainReqPost, gainBody, gainRegs], by simp [fin, gainReqPost, gainBody, gainRegs],
    by simp [fin, gainReqPost, gainBody, gainRegs]⟩⟩
  · exact ⟨hG.drives, hG.cycle, hG.gainMode, hG.div, hG.rep, hG.otherMem, hG.otherRegs, hG.modMem, hG.numTr⟩
  · unfold Obs.reqStmSeg segReg
    simp only [reg_fin _ _ _ (show ADDR_STM_REQ_RD_SEGMENT ≠ 0 by decide), hregs _ (show ADDR_STM_REQ_RD_SEGMENT ≠ 0 by decide)]
    simp [ADDR_STM_REQ_RD_SEGMENT, hseg]
  · unfold Obs.stmTransition
    rw [reg_fin _ _ _ (by decide), hregs _ (by decide)]
    exact decodeTMode_zero _ _
  · show (fin _ _).stmSwap.cur = seg
    have : (fin (gainReqPost (gainBody { s with lastMsgId := nextId t, rxData := r, stmSegment := seg } seg
        (wordsAt d 4 s.numTr)) seg w) (nextId t)).stmSwap = w := by simp [fin, gainReqPost]
    rw [this]; exact (hset'.now (Or.inr rfl)).1
  · simp [fin, gainReqPost, gainBody, gainRegs]
  · have : (fin (gainReqPost (gainBody { s with lastMsgId := nextId t, rxData := r, stmSegment := seg } seg
        (wordsAt d 4 s.numTr)) seg w) (nextId t)).stmSwap = w := by simp [fin, gainReqPost]
    rw [this]; exact hset'


/-- the CPU-side copies after a Gain: the segment is recorded as a one-pattern gain segment with
division 0xFFFF; the other segment's copies and the silencer guard inputs are untouched -/
structure GainCpu (s s' : State) (seg : Nat) : Prop where
  mode : sel s'.stmMode seg = STM_MODE_GAIN
  modeOther : sel s'.stmMode (1 - seg) = sel s.stmMode (1 - seg)
  cycle : sel s'.stmCycle seg = 1
  div : sel s'.stmDiv seg = 0xFFFF
  modDiv : s'.modDiv = s.modDiv
  modSegment : s'.modSegment = s.modSegment
  strict : s'.strict = s.strict
  minDivI : s'.minDivI = s.minDivI
  minDivP : s'.minDivP = s.minDivP

theorem sel_setSel_same (p : Nat × Nat) (seg v : Nat) : sel (setSel p seg v) seg = v := by
  unfold sel setSel; split <;> simp [*]
theorem sel_setSel_other (p : Nat × Nat) (seg v : Nat) (hseg : seg ≤ 1) : sel (setSel p seg v) (1 - seg) = sel p (1 - seg) := by
  rcases (show seg = 0 ∨ seg = 1 by omega) with h | h <;> subst h <;> simp [sel, setSel]

theorem GainCpu_of {s s' : State} {seg : Nat} (hseg : seg ≤ 1)
    (h : s'.stmMode = setSel s.stmMode seg STM_MODE_GAIN ∧ s'.stmCycle = setSel s.stmCycle seg 1 ∧
      s'.stmDiv = setSel s.stmDiv seg 0xFFFF ∧ s'.modDiv = s.modDiv ∧ s'.modSegment = s.modSegment ∧
      s'.strict = s.strict ∧ s'.minDivI = s.minDivI ∧ s'.minDivP = s.minDivP) : GainCpu s s' seg := by
  obtain ⟨h1, h2, h3, h4, h5, h6, h7, h8⟩ := h
  exact ⟨by rw [h1, sel_setSel_same], by rw [h1, sel_setSel_other _ _ _ hseg], by rw [h2, sel_setSel_same],
    by rw [h3, sel_setSel_same], h4, h5, h6, h7, h8⟩

end Autd3.Rt
