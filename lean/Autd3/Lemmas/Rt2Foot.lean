import Autd3.Lemmas.RtGstm10
import Autd3.Lemmas.RtFoci8
import Autd3.Lemmas.RtOps6
/-!
Footprints, part 1: what a handler can touch **for an arbitrary payload**.  `Foot er T s s'` says that
`s'` agrees with `s` on everything the eraser `er` keeps and on every controller register outside `T`.
`Leaves R s0 m` says that every successful outcome of the handler computation `m` is `R`-related to `s0`.
The rules below walk through a handler's `do` block one primitive at a time.
-/
open Autd3 Autd3.Fw Autd3.Wire Autd3.Gen.Cpu Autd3.Gen
namespace Autd3.Rt

/-- erase everything an STM-side handler (`write_gain`, `write_foci_stm`, `write_gain_stm`) may change -/
def eraseS (s : State) : State :=
  { s with ack := 0, ctl := #[], stmMem0 := #[], stmMem1 := #[], stmWrite := 0, stmCycle := (0, 0), stmMode := (0, 0),
           stmRep := (0, 0), stmDiv := (0, 0), stmSegment := 0, stmTrMode := 0, stmTrValue := 0, gainStmMode := 0,
           numFoci := 0, stmSwap := {} }

/-- erase everything `write_mod` may change -/
def eraseM (s : State) : State :=
  { s with ack := 0, ctl := #[], modMem0 := #[], modMem1 := #[], modCycle := 0, modDiv := (0, 0), modRep := (0, 0),
           modSegment := 0, modTrMode := 0, modTrValue := 0, modSwap := {} }

structure Foot (er : State → State) (T : Nat → Prop) (s s' : State) : Prop where
  eq : er s' = er s
  ctlsz : s'.ctl.size = s.ctl.size
  regs : ∀ a, ¬ T a → reg s' a = reg s a

theorem Foot.refl (er : State → State) (T : Nat → Prop) (s : State) : Foot er T s s := ⟨rfl, rfl, fun _ _ => rfl⟩
theorem Foot.trans {er : State → State} {T : Nat → Prop} {a b c : State} (h1 : Foot er T a b) (h2 : Foot er T b c) :
    Foot er T a c :=
  ⟨h2.eq.trans h1.eq, h2.ctlsz.trans h1.ctlsz, fun x hx => (h2.regs x hx).trans (h1.regs x hx)⟩

/-- a change of fields the eraser forgets, registers kept -/
theorem Foot.tweak {er : State → State} {T : Nat → Prop} {s0 s s1 : State} (h : Foot er T s0 s)
    (e : er s1 = er s) (c : s1.ctl = s.ctl) : Foot er T s0 s1 :=
  ⟨e.trans h.eq, by rw [c]; exact h.ctlsz, fun a ha => by unfold reg; rw [c]; exact h.regs a ha⟩

theorem Foot.mono {er : State → State} {T T' : Nat → Prop} {s s' : State} (h : Foot er T s s') (hT : ∀ a, T a → T' a) :
    Foot er T' s s' := ⟨h.eq, h.ctlsz, fun a ha => h.regs a (fun x => ha (hT a x))⟩

/-- the erasers forget the controller registers -/
def ErCtl (er : State → State) : Prop := ∀ (s : State) (c : Array Nat), er { s with ctl := c } = er s
theorem ErCtl_S : ErCtl eraseS := fun _ _ => rfl
theorem ErCtl_M : ErCtl eraseM := fun _ _ => rfl

theorem Foot.reg1 {er : State → State} {T : Nat → Prop} {s0 s : State} (he : ErCtl er) (h : Foot er T s0 s) (a v : Nat)
    (hT : T a) : Foot er T s0 (wr s a v) := by
  refine ⟨(he s _).trans h.eq, by simpa using h.ctlsz, fun b hb => ?_⟩
  rw [reg_wr, if_neg (by intro hh; exact hb (hh.1 ▸ hT))]
  exact h.regs b hb

theorem Foot.regN {er : State → State} {T : Nat → Prop} {s0 s : State} (he : ErCtl er) (h : Foot er T s0 s)
    (base : Nat) (ws : Array Nat) (hT : ∀ a, base ≤ a → a < base + ws.size → T a) :
    Foot er T s0 { s with ctl := wrWords s.ctl base ws } := by
  refine ⟨(he s _).trans h.eq, by simpa using h.ctlsz, fun b hb => ?_⟩
  have : reg { s with ctl := wrWords s.ctl base ws } b = reg s b := by
    unfold reg; simp only [rd_wrWords]
    rw [if_neg (by intro hh; exact hb (hT b hh.1 hh.2.1))]
  rw [this]; exact h.regs b hb

/-- every successful outcome of `m` is `R`-related to `s0` -/
def Leaves (R : State → State → Prop) (s0 : State) (m : M (State × Nat)) : Prop :=
  ∀ s' a, m = .ok (s', a) → R s0 s'

theorem Leaves.error {R : State → State → Prop} {s0 : State} (e : Panic) : Leaves R s0 (Except.error e) := by
  intro s' a h; cases h
theorem Leaves.error_bind {R : State → State → Prop} {s0 : State} {α : Type} (e : Panic) (f : α → M (State × Nat)) :
    Leaves R s0 ((Except.error e : M α) >>= f) := by
  intro s' a h; cases h
theorem Leaves.pure {R : State → State → Prop} {s0 s1 : State} {a : Nat} (h : R s0 s1) :
    Leaves R s0 (Pure.pure (s1, a)) := by
  intro s' a' hh; cases hh; exact h
theorem Leaves.ok {R : State → State → Prop} {s0 s1 : State} {a : Nat} (h : R s0 s1) :
    Leaves R s0 (Except.ok (s1, a)) := by
  intro s' a' hh; cases hh; exact h
theorem Leaves.ite {R : State → State → Prop} {s0 : State} {c : Prop} [Decidable c] {A B : M (State × Nat)}
    (hA : c → Leaves R s0 A) (hB : ¬ c → Leaves R s0 B) : Leaves R s0 (if c then A else B) := by
  by_cases h : c
  · rw [if_pos h]; exact hA h
  · rw [if_neg h]; exact hB h

theorem bind_ok_inv {α β : Type} {m : M α} {f : α → M β} {r : β} (h : (m >>= f) = .ok r) :
    ∃ x, m = .ok x ∧ f x = .ok r := by
  cases m with
  | error e => cases h
  | ok x => exact ⟨x, rfl, h⟩

/-- generic bind: the first action's outcomes are characterised by `P` -/
theorem Leaves.bind {R : State → State → Prop} {s0 : State} {α : Type} {m : M α} {f : α → M (State × Nat)}
    (P : α → Prop) (hm : ∀ x, m = .ok x → P x) (hf : ∀ x, P x → Leaves R s0 (f x)) : Leaves R s0 (m >>= f) := by
  intro s' a h
  obtain ⟨x, hx, hfx⟩ := bind_ok_inv h
  exact hf x (hm x hx) s' a hfx

theorem Leaves.cw0 {R : State → State → Prop} {s0 : State} (s1 : State) (a v : Nat) (f : State → M (State × Nat))
    (ha : a < 256) (h : Leaves R s0 (f (wr s1 a v))) : Leaves R s0 (ctlWrite s1 a v >>= f) := by
  rw [ctlWrite_main _ _ _ ha]; exact h

theorem Leaves.cww0 {R : State → State → Prop} {s0 : State} (s1 : State) (base : Nat) (ws : Array Nat)
    (f : State → M (State × Nat)) (hb : base + ws.size ≤ 256)
    (h : Leaves R s0 (f { s1 with ctl := wrWords s1.ctl base ws })) : Leaves R s0 (ctlWriteWords s1 base ws >>= f) := by
  rw [Rt.ctlWriteWords_main _ _ _ hb]; exact h

/-! ### the memory writers: outcome shapes for arbitrary arguments -/

theorem stmWriteWords_shape (s s' : State) (base : Nat) (ws : Array Nat) (h : stmWriteWords s base ws = .ok s') :
    ∃ m0 m1, s' = { s with stmMem0 := m0, stmMem1 := m1 } := by
  unfold stmWriteWords at h
  split at h
  · cases h; exact ⟨_, _, rfl⟩
  · simp only [] at h
    split at h
    · cases h
    · split at h
      · cases h
      · split at h
        · cases h
        · split at h <;> (cases h; exact ⟨_, _, rfl⟩)

theorem modWriteWords_shape (s s' : State) (base : Nat) (ws : Array Nat) (h : modWriteWords s base ws = .ok s') :
    ∃ m0 m1, s' = { s with modMem0 := m0, modMem1 := m1 } := by
  unfold modWriteWords at h
  split at h
  · cases h; exact ⟨_, _, rfl⟩
  · simp only [] at h
    split at h
    · cases h
    · split at h
      · cases h
      · split at h
        · cases h
        · split at h <;> (cases h; exact ⟨_, _, rfl⟩)

theorem Leaves.sww0 {R : State → State → Prop} {s0 : State} (s1 : State) (base : Nat) (ws : Array Nat)
    (f : State → M (State × Nat)) (h : ∀ m0 m1, Leaves R s0 (f { s1 with stmMem0 := m0, stmMem1 := m1 })) :
    Leaves R s0 (stmWriteWords s1 base ws >>= f) :=
  Leaves.bind (fun x => ∃ m0 m1, x = { s1 with stmMem0 := m0, stmMem1 := m1 })
    (fun x hx => stmWriteWords_shape s1 x base ws hx) (fun _ ⟨m0, m1, e⟩ => e ▸ h m0 m1)

theorem Leaves.mww0 {R : State → State → Prop} {s0 : State} (s1 : State) (base : Nat) (ws : Array Nat)
    (f : State → M (State × Nat)) (h : ∀ m0 m1, Leaves R s0 (f { s1 with modMem0 := m0, modMem1 := m1 })) :
    Leaves R s0 (modWriteWords s1 base ws >>= f) :=
  Leaves.bind (fun x => ∃ m0 m1, x = { s1 with modMem0 := m0, modMem1 := m1 })
    (fun x hx => modWriteWords_shape s1 x base ws hx) (fun _ ⟨m0, m1, e⟩ => e ▸ h m0 m1)

/-! ### `set_and_wait_update` with exactly one of the two swap strobes -/

theorem saw_stm_shape (s s' : State) (hctl : s.ctl.size = 256) (hfi : s.flagsInternal % 256 = 0)
    (h : setAndWaitUpdate s CTL_FLAG_STM_SET = .ok s') :
    ∃ x w, s' = wr { wr s ADDR_CTL_FLAG x with stmSwap := w } ADDR_CTL_FLAG s.flagsInternal := by
  unfold setAndWaitUpdate fpgaSetAndWaitUpdate at h
  have hflag : ∀ x, reg (wr s ADDR_CTL_FLAG x) ADDR_CTL_FLAG = x % 65536 := by
    intro x; rw [reg_wr, if_pos ⟨rfl, by rw [hctl]; decide⟩]
  simp only [ctlWrite_main _ ADDR_CTL_FLAG _ (by decide), ok_bind, hflag, wr_flagsInternal] at h
  simp only [ADDR_CTL_FLAG, CTL_FLAG_MOD_SET, CTL_FLAG_STM_SET, hasFlag_set_1 _ hfi, hasFlag_set_2 _ hfi] at h
  have e0 : Nat.testBit 2 0 = false := by decide
  have e1 : Nat.testBit 2 1 = true := by decide
  simp only [e0, e1, Bool.false_eq_true, if_false, if_true, pure_eq_ok, ok_bind] at h
  obtain ⟨s2, h2, h⟩ := bind_ok_inv h
  obtain ⟨seg, _, h2⟩ := bind_ok_inv h2
  obtain ⟨mode, _, h2⟩ := bind_ok_inv h2
  obtain ⟨w, _, h2⟩ := bind_ok_inv h2
  cases h2
  cases h
  exact ⟨_, w, rfl⟩

theorem saw_mod_shape (s s' : State) (hctl : s.ctl.size = 256) (hfi : s.flagsInternal % 256 = 0)
    (h : setAndWaitUpdate s CTL_FLAG_MOD_SET = .ok s') :
    ∃ x w, s' = wr { wr s ADDR_CTL_FLAG x with modSwap := w } ADDR_CTL_FLAG s.flagsInternal := by
  unfold setAndWaitUpdate fpgaSetAndWaitUpdate at h
  have hflag : ∀ x, reg (wr s ADDR_CTL_FLAG x) ADDR_CTL_FLAG = x % 65536 := by
    intro x; rw [reg_wr, if_pos ⟨rfl, by rw [hctl]; decide⟩]
  simp only [ctlWrite_main _ ADDR_CTL_FLAG _ (by decide), ok_bind, hflag, wr_flagsInternal] at h
  simp only [ADDR_CTL_FLAG, CTL_FLAG_MOD_SET, CTL_FLAG_STM_SET, hasFlag_set_1 _ hfi, hasFlag_set_2 _ hfi] at h
  have e0 : Nat.testBit 1 0 = true := by decide
  have e1 : Nat.testBit 1 1 = false := by decide
  simp only [e0, e1, Bool.false_eq_true, if_false, if_true, pure_eq_ok, ok_bind] at h
  obtain ⟨s2, h2, h⟩ := bind_ok_inv h
  obtain ⟨seg, _, h2⟩ := bind_ok_inv h2
  obtain ⟨mode, _, h2⟩ := bind_ok_inv h2
  obtain ⟨w, _, h2⟩ := bind_ok_inv h2
  cases h2
  cases h
  exact ⟨_, w, rfl⟩

/-! ### stepping rules that generalise the state after each primitive -/

/-- registers an STM-side handler may write, never the focus-only ones -/
def TG (a : Nat) : Prop := a = 0 ∨ (80 ≤ a ∧ a ≤ 90) ∨ (95 ≤ a ∧ a ≤ 99)
/-- … plus sound speed and focus count of segment `seg` -/
def TF (seg a : Nat) : Prop := TG a ∨ a = 91 + seg ∨ a = 93 + seg
/-- registers `write_mod` may write -/
def TM (a : Nat) : Prop := a = 0 ∨ (32 ≤ a ∧ a ≤ 45)

theorem Leaves.cw {er : State → State} {T : Nat → Prop} {s0 : State} (he : ErCtl er) {s1 : State} {a v : Nat}
    {f : State → M (State × Nat)} (h1 : Foot er T s0 s1) (ha : a < 256) (hT : T a)
    (h : ∀ s2, Foot er T s0 s2 → Leaves (Foot er T) s0 (f s2)) : Leaves (Foot er T) s0 (Fw.ctlWrite s1 a v >>= f) := by
  rw [ctlWrite_main _ _ _ ha]; exact h _ (Foot.reg1 he h1 a v hT)

theorem Leaves.cww {er : State → State} {T : Nat → Prop} {s0 : State} (he : ErCtl er) {s1 : State} {base : Nat}
    {ws : Array Nat} {f : State → M (State × Nat)} (h1 : Foot er T s0 s1) (hb : base + ws.size ≤ 256)
    (hT : ∀ a, base ≤ a → a < base + ws.size → T a)
    (h : ∀ s2, Foot er T s0 s2 → Leaves (Foot er T) s0 (f s2)) :
    Leaves (Foot er T) s0 (Fw.ctlWriteWords s1 base ws >>= f) := by
  rw [Rt.ctlWriteWords_main _ _ _ hb]; exact h _ (Foot.regN he h1 base ws hT)

theorem Leaves.sw {T : Nat → Prop} {s0 : State} {s1 : State} {base : Nat} {ws : Array Nat}
    {f : State → M (State × Nat)} (h1 : Foot eraseS T s0 s1)
    (h : ∀ s2, Foot eraseS T s0 s2 → Leaves (Foot eraseS T) s0 (f s2)) :
    Leaves (Foot eraseS T) s0 (Fw.stmWriteWords s1 base ws >>= f) :=
  Leaves.sww0 s1 base ws f (fun _ _ => h _ (Foot.tweak h1 rfl rfl))

theorem Leaves.mw {T : Nat → Prop} {s0 : State} {s1 : State} {base : Nat} {ws : Array Nat}
    {f : State → M (State × Nat)} (h1 : Foot eraseM T s0 s1)
    (h : ∀ s2, Foot eraseM T s0 s2 → Leaves (Foot eraseM T) s0 (f s2)) :
    Leaves (Foot eraseM T) s0 (Fw.modWriteWords s1 base ws >>= f) :=
  Leaves.mww0 s1 base ws f (fun _ _ => h _ (Foot.tweak h1 rfl rfl))

theorem Foot.flagsS {T : Nat → Prop} {s0 s : State} (h : Foot eraseS T s0 s) : s.flagsInternal = s0.flagsInternal := by
  have := congrArg State.flagsInternal h.eq; exact this
theorem Foot.flagsM {T : Nat → Prop} {s0 s : State} (h : Foot eraseM T s0 s) : s.flagsInternal = s0.flagsInternal := by
  have := congrArg State.flagsInternal h.eq; exact this
theorem Foot.timeS {T : Nat → Prop} {s0 s : State} (h : Foot eraseS T s0 s) : s.dcSysTime = s0.dcSysTime := by
  have := congrArg State.dcSysTime h.eq; exact this

theorem Foot.sawS {T : Nat → Prop} {s0 s1 x : State} (hc : s0.ctl.size = 256) (hfi : s0.flagsInternal % 256 = 0)
    (h1 : Foot eraseS T s0 s1) (hT : T 0) (hx : setAndWaitUpdate s1 CTL_FLAG_STM_SET = .ok x) : Foot eraseS T s0 x := by
  obtain ⟨y, w, e⟩ := saw_stm_shape s1 x (by rw [h1.ctlsz, hc]) (by rw [h1.flagsS]; exact hfi) hx
  rw [e]
  exact Foot.reg1 ErCtl_S (Foot.tweak (s1 := { wr s1 ADDR_CTL_FLAG y with stmSwap := w })
    (Foot.reg1 ErCtl_S h1 _ _ hT) rfl rfl) _ _ hT

theorem Foot.sawM {T : Nat → Prop} {s0 s1 x : State} (hc : s0.ctl.size = 256) (hfi : s0.flagsInternal % 256 = 0)
    (h1 : Foot eraseM T s0 s1) (hT : T 0) (hx : setAndWaitUpdate s1 CTL_FLAG_MOD_SET = .ok x) : Foot eraseM T s0 x := by
  obtain ⟨y, w, e⟩ := saw_mod_shape s1 x (by rw [h1.ctlsz, hc]) (by rw [h1.flagsM]; exact hfi) hx
  rw [e]
  exact Foot.reg1 ErCtl_M (Foot.tweak (s1 := { wr s1 ADDR_CTL_FLAG y with modSwap := w })
    (Foot.reg1 ErCtl_M h1 _ _ hT) rfl rfl) _ _ hT

theorem Leaves.sawS {T : Nat → Prop} {s0 : State} {s1 : State} {f : State → M (State × Nat)}
    (hc : s0.ctl.size = 256) (hfi : s0.flagsInternal % 256 = 0) (h1 : Foot eraseS T s0 s1) (hT : T 0)
    (h : ∀ s2, Foot eraseS T s0 s2 → Leaves (Foot eraseS T) s0 (f s2)) :
    Leaves (Foot eraseS T) s0 (setAndWaitUpdate s1 CTL_FLAG_STM_SET >>= f) :=
  Leaves.bind (fun x => Foot eraseS T s0 x) (fun _ hx => Foot.sawS hc hfi h1 hT hx) h

/-- the `Foot` side goal of a step: the current state is a generalised variable, possibly with a pure tweak -/
macro "foot_tac" : tactic =>
  `(tactic| first
    | assumption
    | exact Foot.refl _ _ _
    | (apply Foot.tweak <;> first | assumption | rfl)
    | exact Foot.tweak (Foot.refl _ _ _) rfl rfl)
macro "addr_simp" : tactic =>
  `(tactic| simp only [TG, TF, TM, ADDR_CTL_FLAG, ADDR_MOD_MEM_WR_SEGMENT, ADDR_MOD_MEM_WR_PAGE, ADDR_MOD_REQ_RD_SEGMENT,
          ADDR_MOD_CYCLE0, ADDR_MOD_FREQ_DIV0, ADDR_MOD_REP0, ADDR_MOD_TRANSITION_MODE, ADDR_MOD_TRANSITION_VALUE_0,
          ADDR_STM_MEM_WR_SEGMENT, ADDR_STM_MEM_WR_PAGE, ADDR_STM_REQ_RD_SEGMENT, ADDR_STM_CYCLE0, ADDR_STM_FREQ_DIV0,
          ADDR_STM_REP0, ADDR_STM_MODE0, ADDR_STM_SOUND_SPEED0, ADDR_STM_NUM_FOCI0, ADDR_STM_TRANSITION_MODE,
          ADDR_STM_TRANSITION_VALUE_0])
macro "addr_tac" : tactic =>
  `(tactic| first
    | decide
    | omega
    | (addr_simp; omega)
    | (addr_simp; simp))
/-- one `ctlWrite` -/
macro "cw_stepS" : tactic =>
  `(tactic| (refine Leaves.cw ErCtl_S (by foot_tac) (by addr_tac) (by addr_tac) ?_; intro _ _))
macro "cw_stepM" : tactic =>
  `(tactic| (refine Leaves.cw ErCtl_M (by foot_tac) (by addr_tac) (by addr_tac) ?_; intro _ _))

end Autd3.Rt
