import Autd3.Model.Holo
/-!
Index bookkeeping of the holographic gains (C15): the column list `cols` (specification), the
labelled matrix `specData` both families of code paths of `generate_propagation_matrix` produce
(`rowsPath_ok`, `ptrPath_ok` for every order of the devices), the read-back side
(`calcIdx_spec`), all-true filter = no filter (`cols_allTrue`), removal of disabled devices
(`cols_compact`).  Core Lean only (no Mathlib).
-/
namespace Autd3.Holo

/-- the transducers of device `i` that get a column (specification; total) -/
def sel (filter : Option Filter) (i : Nat) (dev : Dev) : List Nat :=
  match filter with
  | none => List.range dev.numTr
  | some f =>
    match f i with
    | none => []
    | some bv => (List.range dev.numTr).filter fun t => bv[t]? = some true

theorem passingOf_ok (bv : List Bool) (ts : List Nat) (h : ∀ t ∈ ts, t < bv.length) :
    passingOf bv ts = .ok (ts.filter fun t => bv[t]? = some true) := by
  induction ts with
  | nil => rfl
  | cons t ts ih =>
    have ht : t < bv.length := h t (by simp)
    have ih' := ih (fun x hx => h x (by simp [hx]))
    simp only [passingOf, bit, List.getElem?_eq_getElem ht, ih']
    cases hb : bv[t] <;> simp [hb, List.getElem?_eq_getElem ht, bind, Except.bind, pure, Except.pure]

theorem count_eq_filter_range (bv : List Bool) :
    bv.count true = ((List.range bv.length).filter fun t => bv[t]? = some true).length := by
  induction bv with
  | nil => rfl
  | cons b bv ih =>
    rw [List.length_cons, List.range_succ_eq_map, List.filter_cons, List.filter_map, List.count_cons, ih]
    have : ((fun t => decide ((b :: bv)[t]? = some true)) ∘ Nat.succ) = fun t => decide (bv[t]? = some true) := by
      funext t; simp
    rw [this]
    cases b <;> simp

/-- every bit vector of the filter has exactly one bit per transducer of its device (device indices
start at `k`) -/
def WFFrom (filter : Option Filter) (k : Nat) (geo : Geo) : Prop :=
  ∀ f, filter = some f → ∀ j dev bv, geo[j]? = some dev → dev.enable = true → f (k + j) = some bv →
    bv.length = dev.numTr

theorem WFFrom.tail {filter : Option Filter} {k : Nat} {dev : Dev} {geo : Geo} (h : WFFrom filter k (dev :: geo)) :
    WFFrom filter (k + 1) geo := by
  intro f hf j d bv hj he hb
  exact h f hf (j + 1) d bv (by simpa using hj) he (by rw [← hb]; congr 1; omega)

theorem WFFrom.head {filter : Option Filter} {k : Nat} {dev : Dev} {geo : Geo} (h : WFFrom filter k (dev :: geo)) :
    dev.enable = true → ∀ f, filter = some f → ∀ bv, f k = some bv → bv.length = dev.numTr := by
  intro he f hf bv hb
  exact h f hf 0 dev bv rfl he (by simpa using hb)

/-- the per-device facts `WF` gives -/
def DevOK (filter : Option Filter) (i : Nat) (dev : Dev) : Prop :=
  ∀ f, filter = some f → ∀ bv, f i = some bv → bv.length = dev.numTr

theorem passing_ok {filter : Option Filter} {i : Nat} {dev : Dev} (h : DevOK filter i dev) :
    passing filter i dev = .ok (sel filter i dev) := by
  unfold passing sel
  cases filter with
  | none => rfl
  | some f =>
    simp only
    cases hb : f i with
    | none => rfl
    | some bv =>
      simp only
      apply passingOf_ok
      intro t ht
      rw [List.mem_range] at ht
      rw [h f rfl bv hb]; exact ht

theorem devCount_eq {filter : Option Filter} {i : Nat} {dev : Dev} (h : dev.enable = true → DevOK filter i dev) :
    devCount filter i dev = if dev.enable then (sel filter i dev).length else 0 := by
  unfold devCount sel
  split
  · rename_i he
    replace h := h he
    cases filter with
    | none => simp
    | some f =>
      simp only
      cases hb : f i with
      | none => rfl
      | some bv =>
        simp only [countOnes]
        rw [count_eq_filter_range, h f rfl bv hb]
  · rfl

/-- the columns in order: `(device, transducer)` -/
def colsFrom (filter : Option Filter) : Nat → Geo → List (Nat × Nat)
  | _, [] => []
  | i, dev :: rest =>
    (if dev.enable then (sel filter i dev).map (fun t => (i, t)) else []) ++ colsFrom filter (i + 1) rest

def cols (geo : Geo) (filter : Option Filter) : List (Nat × Nat) := colsFrom filter 0 geo

theorem colsFrom_append (filter : Option Filter) (k : Nat) (l1 l2 : Geo) :
    colsFrom filter k (l1 ++ l2) = colsFrom filter k l1 ++ colsFrom filter (k + l1.length) l2 := by
  induction l1 generalizing k with
  | nil => simp [colsFrom]
  | cons d l1 ih =>
    simp only [List.cons_append, colsFrom, ih, List.length_cons, List.append_assoc]
    congr 3; omega

/-- `num_transducers[j]` is the number of columns of the devices before `j` -/
theorem scan_getElem? (filter : Option Filter) (k st : Nat) (geo : Geo) (h : WFFrom filter k geo) (j : Nat)
    (hj : j ≤ geo.length) :
    (st :: scanCounts filter k st geo)[j]? = some (st + (colsFrom filter k (geo.take j)).length) := by
  induction geo generalizing k st j with
  | nil =>
    have : j = 0 := by simpa using hj
    subst this; simp [colsFrom]
  | cons dev geo ih =>
    cases j with
    | zero => simp [colsFrom]
    | succ j =>
      have hj' : j ≤ geo.length := by simpa using hj
      simp only [scanCounts, List.getElem?_cons_succ, List.take_succ_cons, colsFrom]
      rw [ih (k + 1) _ h.tail j hj', devCount_eq (fun he f hf bv hb => h.head he f hf bv hb)]
      split <;> simp <;> omega

theorem totalN_eq (geo : Geo) (filter : Option Filter) (h : WFFrom filter 0 geo) :
    totalN geo filter = (cols geo filter).length := by
  unfold totalN numTransducers
  have := scan_getElem? filter 0 0 geo h geo.length (Nat.le_refl _)
  rw [List.take_length, Nat.zero_add] at this
  rw [List.getLast_eq_getElem]
  have hl : (0 :: scanCounts filter 0 0 geo).length - 1 = geo.length := by
    have : ∀ (k st : Nat) (g : Geo), (scanCounts filter k st g).length = g.length := by
      intro k st g; induction g generalizing k st with
      | nil => rfl
      | cons d g ih => simp [scanCounts, ih]
    simp [this]
  have h2 := List.getElem?_eq_some_iff.mp this
  obtain ⟨hlt, heq⟩ := h2
  simp only [hl]
  exact heq

theorem mem_devicesFrom {k : Nat} {geo : Geo} {i : Nat} {dev : Dev} :
    (i, dev) ∈ devicesFrom k geo ↔ ∃ j, i = k + j ∧ geo[j]? = some dev ∧ dev.enable = true := by
  induction geo generalizing k with
  | nil => simp [devicesFrom]
  | cons d geo ih =>
    unfold devicesFrom
    constructor
    · intro h
      split at h
      · rcases List.mem_cons.mp h with h | h
        · injection h with h1 h2; subst h1; subst h2
          exact ⟨0, rfl, rfl, by assumption⟩
        · obtain ⟨j, hj, hg, he⟩ := ih.mp h
          exact ⟨j + 1, by omega, by simpa using hg, he⟩
      · obtain ⟨j, hj, hg, he⟩ := ih.mp h
        exact ⟨j + 1, by omega, by simpa using hg, he⟩
    · rintro ⟨j, hj, hg, he⟩
      cases j with
      | zero =>
        simp at hg; subst hg; subst hj
        simp [he]
      | succ j =>
        have : (i, dev) ∈ devicesFrom (k + 1) geo := ih.mpr ⟨j, by omega, by simpa using hg, he⟩
        split
        · exact List.mem_cons_of_mem _ this
        · exact this

/-- the block of an enabled device inside the column list -/
theorem colsFrom_block (filter : Option Filter) (k : Nat) (geo : Geo) (j : Nat) (dev : Dev)
    (hg : geo[j]? = some dev) (he : dev.enable = true) (c : Nat) (hc : c < (sel filter (k + j) dev).length) :
    (colsFrom filter k geo)[(colsFrom filter k (geo.take j)).length + c]? = some (k + j, (sel filter (k + j) dev)[c]) := by
  have hj : j < geo.length := by
    rcases Nat.lt_or_ge j geo.length with h | h
    · exact h
    · rw [List.getElem?_eq_none h] at hg; cases hg
  have hsplit : geo = geo.take j ++ dev :: geo.drop (j + 1) := by
    have h1 : geo[j] = dev := by
      have := List.getElem?_eq_getElem hj; rw [this] at hg; injection hg
    rw [← h1, List.getElem_cons_drop, List.take_append_drop]
  have hlen : (geo.take j).length = j := by simp [Nat.min_eq_left (Nat.le_of_lt hj)]
  conv => lhs; arg 1; rw [hsplit]
  rw [colsFrom_append, hlen]
  rw [List.getElem?_append_right (Nat.le_add_right _ _), Nat.add_sub_cancel_left]
  simp only [colsFrom, he, if_true]
  rw [List.getElem?_append_left (by simpa using hc)]
  simp [hc]

theorem mapM_ok {α β : Type} (f : α → Except Panic β) (g : α → β) (l : List α) (h : ∀ x ∈ l, f x = .ok (g x)) :
    l.mapM f = .ok (l.map g) := by
  induction l with
  | nil => rfl
  | cons x l ih =>
    rw [List.mapM_cons, h x (by simp), ih (fun y hy => h y (by simp [hy]))]
    rfl

theorem rowCells_ok (filter : Option Filter) (j k : Nat) (geo : Geo) (h : WFFrom filter k geo) :
    rowCells filter j (devicesFrom k geo) = .ok ((colsFrom filter k geo).map fun x => Cell.mk j x.1 x.2) := by
  induction geo generalizing k with
  | nil => rfl
  | cons dev geo ih =>
    unfold devicesFrom colsFrom
    split
    · rename_i he
      simp only [rowCells, passing_ok (fun f hf bv hb => h.head he f hf bv hb), ih (k + 1) h.tail]
      simp [bind, Except.bind, pure, Except.pure, Function.comp_def]
    · rename_i he
      simp only [ih (k + 1) h.tail]
      simp

/-- the labelled matrix both families of code paths must produce: column-major, column `c` belongs
to the `c`-th entry of the column list, row `j` to focus `j` -/
def specData (m : Nat) (cs : List (Nat × Nat)) : Array (Option Cell) :=
  (cs.flatMap fun x => (List.range m).map fun j => some (Cell.mk j x.1 x.2)).toArray

theorem rowsPath_ok (geo : Geo) (filter : Option Filter) (m : Nat) (hm : 0 < m) (h : WFFrom filter 0 geo) :
    rowsPath geo filter m (totalN geo filter) = .ok ⟨m, (cols geo filter).length, specData m (cols geo filter)⟩ := by
  unfold rowsPath
  rw [totalN_eq geo filter h]
  have hcs : cols geo filter = colsFrom filter 0 geo := rfl
  generalize hcs' : cols geo filter = cs at *
  have hrows : (List.range m).mapM (fun j => do
        let it ← rowCells filter j (devices geo)
        fromIterator cs.length it) = .ok ((List.range m).map fun j => cs.map fun x => Cell.mk j x.1 x.2) := by
    apply mapM_ok
    intro j _
    unfold devices
    rw [rowCells_ok filter j 0 geo h]
    simp [bind, Except.bind, fromIterator, ← hcs, List.take_of_length_le]
  rw [hrows]
  simp only [bind, Except.bind]
  unfold fromRows
  have hne : ((List.range m).map fun j => cs.map fun x => Cell.mk j x.1 x.2).isEmpty = false := by
    cases m with
    | zero => omega
    | succ m => simp [List.range_succ]
  rw [hne]
  simp only [Bool.false_eq_true, if_false]
  have hcols : (List.range cs.length).mapM (fun c => ((List.range m).map fun j => cs.map fun x => Cell.mk j x.1 x.2).mapM (cellAt c)) =
      .ok ((List.range cs.length).map fun c => (List.range m).map fun j => some (Cell.mk j (cs[c]?.getD (0, 0)).1 (cs[c]?.getD (0, 0)).2)) := by
    apply mapM_ok
    intro c hc
    rw [List.mem_range] at hc
    rw [mapM_ok _ (fun r => some ((r[c]?).getD ⟨0, 0, 0⟩))]
    · simp [List.getElem?_eq_getElem hc]
    · intro r hr
      obtain ⟨j, _, rfl⟩ := List.mem_map.mp hr
      simp [cellAt, List.getElem?_eq_getElem hc]
  rw [hcols]
  simp only [bind, Except.bind, pure, Except.pure, List.length_map, List.length_range]
  congr 2
  unfold specData
  congr 1
  rw [List.flatMap_def]
  congr 1
  apply List.ext_getElem
  · simp
  · intro c h1 h2
    simp at h1
    simp [List.getElem?_eq_getElem h1]

theorem flatMap_block_getElem? {α β : Type} (m : Nat) (f : α → List β) (hf : ∀ x, (f x).length = m) (l : List α)
    (c j : Nat) (hj : j < m) :
    (l.flatMap f)[m * c + j]? = (l[c]?).bind fun x => (f x)[j]? := by
  induction l generalizing c with
  | nil => simp
  | cons x l ih =>
    rw [List.flatMap_cons]
    cases c with
    | zero =>
      rw [Nat.mul_zero, Nat.zero_add, List.getElem?_append_left (by rw [hf]; exact hj)]
      simp
    | succ c =>
      have : m * (c + 1) + j = (f x).length + (m * c + j) := by rw [hf, Nat.mul_succ]; omega
      rw [this, List.getElem?_append_right (Nat.le_add_right _ _), Nat.add_sub_cancel_left, ih]
      simp

theorem flatMap_block_length {α β : Type} (m : Nat) (f : α → List β) (hf : ∀ x, (f x).length = m) (l : List α) :
    (l.flatMap f).length = m * l.length := by
  induction l with
  | nil => simp
  | cons x l ih => rw [List.flatMap_cons, List.length_append, hf, ih, List.length_cons, Nat.mul_succ]; omega

theorem writeCells_spec (cells : List Cell) (a : Array (Option Cell)) (p : Nat) (h : p + cells.length ≤ a.size) :
    ∃ a', writeCells a p cells = .ok a' ∧ a'.size = a.size ∧
      ∀ q, a'[q]? = if p ≤ q ∧ q < p + cells.length then (cells[q - p]?).map some else a[q]? := by
  induction cells generalizing a p with
  | nil => exact ⟨a, rfl, rfl, fun q => by simp; omega⟩
  | cons c cells ih =>
    have hp : p < a.size := by simp at h; omega
    obtain ⟨a', h1, h2, h3⟩ := ih (a.setIfInBounds p (some c)) (p + 1) (by simp at h ⊢; omega)
    refine ⟨a', ?_, ?_, ?_⟩
    · simp only [writeCells, hp, if_true]; exact h1
    · simpa using h2
    · intro q
      rw [h3 q, Array.getElem?_setIfInBounds]
      by_cases hq : q = p
      · subst hq
        rw [if_neg (by omega), if_pos (by simp)]
        simp [hp]
      · by_cases h4 : p + 1 ≤ q ∧ q < p + 1 + cells.length
        · have h5 : p ≤ q ∧ q < p + (c :: cells).length := by simp; omega
          rw [if_pos h4, if_pos h5]
          have : q - p = (q - (p + 1)) + 1 := by omega
          rw [this, List.getElem?_cons_succ]
        · have h5 : ¬(p ≤ q ∧ q < p + (c :: cells).length) := by simp at h4 ⊢; omega
          rw [if_neg h4, if_neg h5, if_neg (by omega)]

theorem block_iff (m pre len c j : Nat) (hj : j < m) :
    (m * pre ≤ m * c + j ∧ m * c + j < m * pre + m * len) ↔ (pre ≤ c ∧ c < pre + len) := by
  constructor
  · rintro ⟨h1, h2⟩
    refine ⟨?_, ?_⟩
    · rcases Nat.lt_or_ge c pre with h | h
      · have := Nat.mul_le_mul_left m (Nat.succ_le_of_lt h)
        rw [Nat.mul_succ] at this; omega
      · exact h
    · rcases Nat.lt_or_ge c (pre + len) with h | h
      · exact h
      · have := Nat.mul_le_mul_left m h
        rw [Nat.mul_add] at this; omega
  · rintro ⟨h1, h2⟩
    have a1 := Nat.mul_le_mul_left m h1
    have a2 := Nat.mul_le_mul_left m (Nat.succ_le_of_lt h2)
    rw [Nat.mul_succ, Nat.mul_add] at a2
    omega

/-- what cell `(row j, column c)` must hold -/
def specAt (cs : List (Nat × Nat)) (c j : Nat) : Option (Option Cell) :=
  (cs[c]?).map fun x => some (Cell.mk j x.1 x.2)

/-- number of columns before device `i` -/
def pre (filter : Option Filter) (geo : Geo) (i : Nat) : Nat := (colsFrom filter 0 (geo.take i)).length

/-- column `c` belongs to device `d` -/
def InBlock (filter : Option Filter) (geo : Geo) (d : Nat × Dev) (c : Nat) : Prop :=
  pre filter geo d.1 ≤ c ∧ c < pre filter geo d.1 + (sel filter d.1 d.2).length

instance (filter : Option Filter) (geo : Geo) (d : Nat × Dev) (c : Nat) : Decidable (InBlock filter geo d c) := by
  unfold InBlock; infer_instance

theorem devWrite_spec (geo : Geo) (filter : Option Filter) (m : Nat) (h : WFFrom filter 0 geo)
    (d : Nat × Dev) (hd : d ∈ devices geo) (a : Array (Option Cell)) (ha : a.size = m * (cols geo filter).length) :
    ∃ a', devWrite filter m (numTransducers geo filter) a d = .ok a' ∧ a'.size = a.size ∧
      ∀ c j, c < (cols geo filter).length → j < m →
        a'[m * c + j]? = if InBlock filter geo d c then specAt (cols geo filter) c j else a[m * c + j]? := by
  obtain ⟨i, dev⟩ := d
  obtain ⟨j0, hj0, hg, he⟩ := mem_devicesFrom.mp hd
  rw [Nat.zero_add] at hj0; subst hj0
  have hi : i < geo.length := by
    rcases Nat.lt_or_ge i geo.length with h' | h'
    · exact h'
    · rw [List.getElem?_eq_none h'] at hg; cases hg
  have hok : DevOK filter i dev := fun f hf bv hb => h f hf i dev bv hg he (by simpa using hb)
  have hnt : (numTransducers geo filter)[i]? = some (pre filter geo i) := by
    have := scan_getElem? filter 0 0 geo h i (Nat.le_of_lt hi)
    simpa [numTransducers, pre] using this
  have hblock : ∀ k, k < (sel filter i dev).length →
      (cols geo filter)[pre filter geo i + k]? = some (i, (sel filter i dev)[k]?.getD 0) := by
    intro k hk
    have := colsFrom_block filter 0 geo i dev hg he k (by simpa using hk)
    simp only [Nat.zero_add] at this
    rw [cols, pre, this]; simp [hk]
  have hle : pre filter geo i + (sel filter i dev).length ≤ (cols geo filter).length := by
    rcases Nat.eq_zero_or_pos (sel filter i dev).length with h0 | h0
    · rw [h0, Nat.add_zero]
      unfold pre cols
      have hsplit : geo = geo.take i ++ geo.drop i := (List.take_append_drop i geo).symm
      conv => rhs; rw [hsplit, colsFrom_append]
      simp
    · have := hblock ((sel filter i dev).length - 1) (by omega)
      have h2 := (List.getElem?_eq_some_iff.mp this).1
      omega
  let f : Nat → List Cell := fun t => (List.range m).map fun j => Cell.mk j i t
  have hf : ∀ t, (f t).length = m := fun t => by simp [f]
  have hlen := flatMap_block_length m f hf (sel filter i dev)
  have hfit : m * pre filter geo i + ((sel filter i dev).flatMap f).length ≤ a.size := by
    rw [hlen, ha, ← Nat.mul_add]; exact Nat.mul_le_mul_left m hle
  obtain ⟨a', h1, h2, h3⟩ := writeCells_spec ((sel filter i dev).flatMap f) a (m * pre filter geo i) hfit
  refine ⟨a', ?_, h2, ?_⟩
  · simp only [devWrite, hnt, passing_ok hok, bind, Except.bind]
    exact h1
  · intro c j hc hj
    rw [h3, hlen]
    by_cases hb : InBlock filter geo (i, dev) c
    · have hb' := (block_iff m (pre filter geo i) (sel filter i dev).length c j hj).mpr hb
      rw [if_pos hb', if_pos hb]
      obtain ⟨hb1, hb2⟩ := hb
      simp only at hb1 hb2
      have hsub : m * c + j - m * pre filter geo i = m * (c - pre filter geo i) + j := by
        have := Nat.mul_le_mul_left m hb1
        rw [Nat.mul_sub, Nat.add_comm (m * c - _), ← Nat.add_sub_assoc this]; omega
      rw [hsub, flatMap_block_getElem? m f hf _ _ _ hj]
      have hk : c - pre filter geo i < (sel filter i dev).length := by omega
      have hc2 := hblock (c - pre filter geo i) hk
      rw [Nat.add_sub_cancel' hb1] at hc2
      simp [specAt, hc2, List.getElem?_eq_getElem hk, f, hj]
    · have hb' : ¬_ := fun x => hb ((block_iff m (pre filter geo i) (sel filter i dev).length c j hj).mp x)
      rw [if_neg hb', if_neg hb]

/-- every column belongs to (the block of) an enabled device -/
theorem cover_from (filter : Option Filter) (k : Nat) (geo : Geo) (c : Nat) (hc : c < (colsFrom filter k geo).length) :
    ∃ j dev, geo[j]? = some dev ∧ dev.enable = true ∧ (colsFrom filter k (geo.take j)).length ≤ c ∧
      c < (colsFrom filter k (geo.take j)).length + (sel filter (k + j) dev).length := by
  induction geo generalizing k c with
  | nil => simp [colsFrom] at hc
  | cons dev geo ih =>
    simp only [colsFrom, List.length_append] at hc
    by_cases h1 : c < (if dev.enable = true then (sel filter k dev).map (fun t => (k, t)) else []).length
    · have he : dev.enable = true := by
        cases hde : dev.enable with
        | true => rfl
        | false => simp [hde] at h1
      refine ⟨0, dev, rfl, he, by simp [colsFrom], ?_⟩
      simpa [colsFrom, he] using h1
    · obtain ⟨j, d, hg, he, h2, h3⟩ := ih (k + 1) (c - (if dev.enable = true then (sel filter k dev).map (fun t => (k, t)) else []).length) (by omega)
      refine ⟨j + 1, d, by simpa using hg, he, ?_, ?_⟩
      · simp only [List.take_succ_cons, colsFrom, List.length_append]; omega
      · simp only [List.take_succ_cons, colsFrom, List.length_append]
        have : k + (j + 1) = k + 1 + j := by omega
        rw [this]; omega

theorem cover (filter : Option Filter) (geo : Geo) (c : Nat) (hc : c < (cols geo filter).length) :
    ∃ d ∈ devices geo, InBlock filter geo d c := by
  obtain ⟨j, dev, hg, he, h1, h2⟩ := cover_from filter 0 geo c hc
  refine ⟨(j, dev), mem_devicesFrom.mpr ⟨j, by omega, hg, he⟩, ?_⟩
  simp only [Nat.zero_add] at h2
  exact ⟨h1, h2⟩

theorem ptrFill_spec (geo : Geo) (filter : Option Filter) (m : Nat) (h : WFFrom filter 0 geo)
    (order : List (Nat × Dev)) (ho : ∀ d ∈ order, d ∈ devices geo) (a : Array (Option Cell))
    (ha : a.size = m * (cols geo filter).length)
    (hgood : ∀ c j, c < (cols geo filter).length → j < m →
      a[m * c + j]? = some none ∨ a[m * c + j]? = specAt (cols geo filter) c j) :
    ∃ a', ptrFill filter m (numTransducers geo filter) a order = .ok a' ∧ a'.size = m * (cols geo filter).length ∧
      ∀ c j, c < (cols geo filter).length → j < m →
        (a'[m * c + j]? = some none ∨ a'[m * c + j]? = specAt (cols geo filter) c j) ∧
        ((a[m * c + j]? = specAt (cols geo filter) c j ∨ ∃ d ∈ order, InBlock filter geo d c) →
          a'[m * c + j]? = specAt (cols geo filter) c j) := by
  induction order generalizing a with
  | nil =>
    refine ⟨a, rfl, ha, fun c j hc hj => ⟨hgood c j hc hj, ?_⟩⟩
    rintro (h1 | ⟨d, hd, _⟩)
    · exact h1
    · simp at hd
  | cons d ds ih =>
    obtain ⟨a1, h1, h2, h3⟩ := devWrite_spec geo filter m h d (ho d (by simp)) a ha
    have hgood1 : ∀ c j, c < (cols geo filter).length → j < m →
        a1[m * c + j]? = some none ∨ a1[m * c + j]? = specAt (cols geo filter) c j := by
      intro c j hc hj
      rw [h3 c j hc hj]
      split
      · exact Or.inr rfl
      · exact hgood c j hc hj
    obtain ⟨a', g1, g2, g3⟩ := ih (fun x hx => ho x (by simp [hx])) a1 (by rw [h2, ha]) hgood1
    refine ⟨a', ?_, g2, ?_⟩
    · simp only [ptrFill, h1, bind, Except.bind]; exact g1
    · intro c j hc hj
      refine ⟨(g3 c j hc hj).1, ?_⟩
      intro hyp
      apply (g3 c j hc hj).2
      rw [h3 c j hc hj]
      by_cases hb : InBlock filter geo d c
      · left; rw [if_pos hb]
      · rw [if_neg hb]
        rcases hyp with h5 | ⟨d', hd', hb'⟩
        · exact Or.inl h5
        · rcases List.mem_cons.mp hd' with h6 | h6
          · subst h6; exact absurd hb' hb
          · exact Or.inr ⟨d', h6, hb'⟩

theorem specData_size (m : Nat) (cs : List (Nat × Nat)) : (specData m cs).size = m * cs.length := by
  unfold specData
  rw [List.size_toArray]
  exact flatMap_block_length m _ (fun x => by simp) cs

theorem specData_getElem? (m : Nat) (cs : List (Nat × Nat)) (c j : Nat) (hj : j < m) :
    (specData m cs)[m * c + j]? = specAt cs c j := by
  unfold specData specAt
  rw [List.getElem?_toArray, flatMap_block_getElem? m _ (fun x => by simp) cs c j hj]
  cases cs[c]? <;> simp [hj]

/-- the raw-pointer paths, for every order in which the thread pool takes the devices -/
theorem ptrPath_ok (geo : Geo) (filter : Option Filter) (m : Nat) (h : WFFrom filter 0 geo)
    (order : List (Nat × Dev)) (ho : order.Perm (devices geo)) :
    ptrPath filter m (totalN geo filter) (numTransducers geo filter) order =
      .ok ⟨m, (cols geo filter).length, specData m (cols geo filter)⟩ := by
  unfold ptrPath
  rw [totalN_eq geo filter h]
  obtain ⟨a', h1, h2, h3⟩ := ptrFill_spec geo filter m h order (fun d hd => ho.mem_iff.mp hd)
    (Array.replicate (m * (cols geo filter).length) none) (by simp)
    (fun c j hc hj => Or.inl (by
      have : m * c + j < m * (cols geo filter).length := by
        have := Nat.mul_le_mul_left m (Nat.succ_le_of_lt hc)
        rw [Nat.mul_succ] at this; omega
      simp [this]))
  rw [h1]
  simp only [bind, Except.bind, pure, Except.pure]
  congr 2
  apply Array.ext_getElem?
  intro p
  rcases Nat.lt_or_ge p (m * (cols geo filter).length) with hp | hp
  · have hm : 0 < m := by
      rcases Nat.eq_zero_or_pos m with h0 | h0
      · rw [h0, Nat.zero_mul] at hp; omega
      · exact h0
    have hdm := Nat.div_add_mod p m
    have hj : p % m < m := Nat.mod_lt _ hm
    have hc : p / m < (cols geo filter).length := Nat.div_lt_of_lt_mul hp
    rw [← hdm, specData_getElem? m _ _ _ hj]
    apply (h3 (p / m) (p % m) hc hj).2
    right
    obtain ⟨d, hd, hb⟩ := cover filter geo (p / m) hc
    exact ⟨d, ho.mem_iff.mpr hd, hb⟩
  · rw [Array.getElem?_eq_none (by omega), Array.getElem?_eq_none (by rw [specData_size]; omega)]

/-- `WF`: the filter (if any) has one bit per transducer for every device it mentions -/
def WF (geo : Geo) (filter : Option Filter) : Prop := WFFrom filter 0 geo

theorem propagationMatrix_ok (geo : Geo) (filter : Option Filter) (m : Nat) (h : WF geo filter) :
    propagationMatrix geo filter m = .ok ⟨m, (cols geo filter).length, specData m (cols geo filter)⟩ := by
  unfold propagationMatrix
  simp only
  split
  · rename_i hlt
    exact rowsPath_ok geo filter m (by omega) h
  · exact ptrPath_ok geo filter m h _ (List.Perm.refl _)

/-! ### read side -/

theorem filter_rank {α : Type} (P : α → Bool) (ts : List α) (p : Nat) (hp : p < ts.length) (hP : P ts[p] = true) :
    (ts.filter P)[((ts.take p).filter P).length]? = some ts[p] := by
  have hsplit : ts = ts.take p ++ ts[p] :: ts.drop (p + 1) := by
    rw [List.getElem_cons_drop, List.take_append_drop]
  conv => lhs; arg 1; rw [hsplit]
  rw [List.filter_append, List.getElem?_append_right (Nat.le_refl _), Nat.sub_self, List.filter_cons, if_pos hP]
  rfl

theorem assign_spec (bv : List Bool) (ts : List Nat) (st : Nat) (h : ∀ t ∈ ts, t < bv.length) :
    ∃ l, assign bv st ts = .ok (l, st + (ts.filter fun t => bv[t]? = some true).length) ∧ l.length = ts.length ∧
      ∀ p (hp : p < ts.length), l[p]? = some (if bv[ts[p]]? = some true
        then some (st + ((ts.take p).filter fun t => bv[t]? = some true).length) else none) := by
  induction ts generalizing st with
  | nil => exact ⟨[], rfl, rfl, fun p hp => by simp at hp⟩
  | cons t ts ih =>
    have ht : t < bv.length := h t (by simp)
    have h' : ∀ x ∈ ts, x < bv.length := fun x hx => h x (by simp [hx])
    cases hb : bv[t] with
    | true =>
      obtain ⟨l, h1, h2, h3⟩ := ih (st + 1) h'
      refine ⟨some st :: l, ?_, by simp [h2], ?_⟩
      · simp only [assign, bit, List.getElem?_eq_getElem ht, hb, h1, bind, Except.bind, pure, Except.pure, if_true]
        simp [List.getElem?_eq_getElem ht, hb]; omega
      · intro p hp
        cases p with
        | zero => simp [List.getElem?_eq_getElem ht, hb]
        | succ p =>
          have hp' : p < ts.length := by simpa using hp
          simp only [List.getElem?_cons_succ, List.getElem_cons_succ, List.take_succ_cons, h3 p hp']
          simp [List.getElem?_eq_getElem ht, hb]
          split
          · congr 1; omega
          · rfl
    | false =>
      obtain ⟨l, h1, h2, h3⟩ := ih st h'
      refine ⟨none :: l, ?_, by simp [h2], ?_⟩
      · simp only [assign, bit, List.getElem?_eq_getElem ht, hb, h1, bind, Except.bind, pure, Except.pure]
        simp [List.getElem?_eq_getElem ht, hb]
      · intro p hp
        cases p with
        | zero => simp [List.getElem?_eq_getElem ht, hb]
        | succ p =>
          have hp' : p < ts.length := by simpa using hp
          simp only [List.getElem?_cons_succ, List.getElem_cons_succ, List.take_succ_cons, h3 p hp']
          simp [List.getElem?_eq_getElem ht, hb]

theorem lookup_cons_eq {β : Type} (k : Nat) (b : β) (es : List (Nat × β)) : ((k, b) :: es).lookup k = some b := by
  simp [List.lookup]

theorem lookup_cons_ne {β : Type} (a k : Nat) (b : β) (es : List (Nat × β)) (h : a ≠ k) :
    ((k, b) :: es).lookup a = es.lookup a := by
  have : (a == k) = false := by simpa using h
  simp [List.lookup, this]

theorem genRight_lookup (geo : Geo) (k st j : Nat) (dev : Dev) (hg : geo[j]? = some dev) (he : dev.enable = true) :
    (genRight k st geo).lookup (k + j) = some (.right (st + (colsFrom none k (geo.take j)).length)) := by
  induction geo generalizing k st j with
  | nil => simp at hg
  | cons d geo ih =>
    cases j with
    | zero =>
      simp at hg; subst hg
      simp only [genRight, he, if_true, Nat.add_zero, List.take_zero, colsFrom, List.length_nil]
      exact lookup_cons_eq _ _ _
    | succ j =>
      have hg' : geo[j]? = some dev := by simpa using hg
      have hk : k + (j + 1) = k + 1 + j := by omega
      unfold genRight
      split
      · rename_i hde
        rw [lookup_cons_ne _ _ _ _ (by omega), hk, ih (k + 1) _ j hg']
        simp [colsFrom, hde, sel]; omega
      · rename_i hde
        rw [hk, ih (k + 1) _ j hg']
        simp [colsFrom, hde]

theorem genLeft_lookup (f : Filter) (geo : Geo) (k st : Nat) (h : WFFrom (some f) k geo) :
    ∃ mp, genLeft f k st geo = .ok mp ∧ ∀ j dev, geo[j]? = some dev → dev.enable = true →
      (f (k + j) = none → mp.lookup (k + j) = some (.left none)) ∧
      (∀ bv, f (k + j) = some bv → ∃ l, mp.lookup (k + j) = some (.left (some l)) ∧
        ∀ t, t < dev.numTr → l[t]? = some (if bv[t]? = some true
          then some (st + (colsFrom (some f) k (geo.take j)).length + ((List.range t).filter fun x => bv[x]? = some true).length)
          else none)) := by
  induction geo generalizing k st with
  | nil => exact ⟨[], rfl, fun j dev hg => by simp at hg⟩
  | cons d geo ih =>
    unfold genLeft
    by_cases hde : d.enable = true
    · rw [if_pos hde]
      cases hf : f k with
      | none =>
        obtain ⟨mp, h1, h2⟩ := ih (k + 1) st h.tail
        refine ⟨(k, .left none) :: mp, by simp only [h1, bind, Except.bind, pure, Except.pure], ?_⟩
        intro j dev hg he
        cases j with
        | zero =>
          simp at hg; subst hg
          refine ⟨fun _ => lookup_cons_eq _ _ _, fun bv hb => ?_⟩
          rw [Nat.add_zero, hf] at hb; cases hb
        | succ j =>
          have hk : k + (j + 1) = k + 1 + j := by omega
          rw [lookup_cons_ne _ _ _ _ (by omega), hk]
          have := h2 j dev (by simpa using hg) he
          simpa [colsFrom, hde, sel, hf] using this
      | some bv =>
        have hlen : bv.length = d.numTr := h.head hde f rfl bv hf
        obtain ⟨l, a1, a2, a3⟩ := assign_spec bv (List.range d.numTr) st (by intro t ht; rw [List.mem_range] at ht; omega)
        obtain ⟨mp, h1, h2⟩ := ih (k + 1) (st + ((List.range d.numTr).filter fun t => bv[t]? = some true).length) h.tail
        refine ⟨(k, .left (some l)) :: mp, by simp only [a1, h1, bind, Except.bind, pure, Except.pure], ?_⟩
        intro j dev hg he
        cases j with
        | zero =>
          simp at hg; subst hg
          rw [Nat.add_zero]
          refine ⟨fun hn => (by rw [hf] at hn; cases hn), fun bv' hb => ?_⟩
          rw [hf] at hb; injection hb with hb; subst hb
          refine ⟨l, lookup_cons_eq _ _ _, fun t ht => ?_⟩
          have := a3 t (by simpa using ht)
          simpa [colsFrom, List.take_range, Nat.min_eq_left (Nat.le_of_lt ht)] using this
        | succ j =>
          have hk : k + (j + 1) = k + 1 + j := by omega
          rw [lookup_cons_ne _ _ _ _ (by omega), hk]
          have := h2 j dev (by simpa using hg) he
          simpa [colsFrom, hde, sel, hf, Nat.add_assoc] using this
    · rw [if_neg hde]
      obtain ⟨mp, h1, h2⟩ := ih (k + 1) st h.tail
      refine ⟨mp, h1, ?_⟩
      intro j dev hg he
      cases j with
      | zero => simp at hg; subst hg; exact absurd he hde
      | succ j =>
        have hk : k + (j + 1) = k + 1 + j := by omega
        rw [hk]
        have := h2 j dev (by simpa using hg) he
        simpa [colsFrom, hde] using this

theorem cols_block (geo : Geo) (filter : Option Filter) (i : Nat) (dev : Dev) (hd : (i, dev) ∈ devices geo)
    (k : Nat) (hk : k < (sel filter i dev).length) :
    (cols geo filter)[pre filter geo i + k]? = some (i, (sel filter i dev)[k]) := by
  obtain ⟨j0, hj0, hg, he⟩ := mem_devicesFrom.mp hd
  rw [Nat.zero_add] at hj0; subst hj0
  have := colsFrom_block filter 0 geo i dev hg he k (by simpa using hk)
  simpa [cols, pre] using this

theorem calcIdx_spec (geo : Geo) (filter : Option Filter) (h : WF geo filter) (i : Nat) (dev : Dev)
    (hd : (i, dev) ∈ devices geo) (t : Nat) (ht : t < dev.numTr) :
    ∃ mp, generateResult geo filter = .ok mp ∧
      ((t ∈ sel filter i dev ∧ ∃ c, calcIdx mp (cols geo filter).length i t = .ok (some c) ∧
          (cols geo filter)[c]? = some (i, t)) ∨
       (t ∉ sel filter i dev ∧ calcIdx mp (cols geo filter).length i t = .ok none)) := by
  obtain ⟨j0, hj0, hg, he⟩ := mem_devicesFrom.mp hd
  rw [Nat.zero_add] at hj0; subst hj0
  cases filter with
  | none =>
    refine ⟨genRight 0 0 geo, rfl, Or.inl ⟨by simp [sel, ht], pre none geo i + t, ?_, ?_⟩⟩
    · have hl := genRight_lookup geo 0 0 i dev hg he
      rw [Nat.zero_add] at hl
      have hb := cols_block geo none i dev hd t (by simp [sel, ht])
      have hlt := (List.getElem?_eq_some_iff.mp hb).1
      simp only [calcIdx, hl, Nat.zero_add]
      rw [if_pos (by simpa [pre] using hlt)]; rfl
    · have hb := cols_block geo none i dev hd t (by simp [sel, ht])
      simpa [sel] using hb
  | some f =>
    obtain ⟨mp, h1, h2⟩ := genLeft_lookup f geo 0 0 h
    refine ⟨mp, h1, ?_⟩
    obtain ⟨g1, g2⟩ := h2 i dev hg he
    rw [Nat.zero_add] at g1 g2
    cases hf : f i with
    | none =>
      right
      refine ⟨by simp [sel, hf], ?_⟩
      simp only [calcIdx, g1 hf]
    | some bv =>
      obtain ⟨l, l1, l2⟩ := g2 bv hf
      have hlt := l2 t ht
      by_cases hP : bv[t]? = some true
      · left
        have hrank := filter_rank (fun x => decide (bv[x]? = some true)) (List.range dev.numTr) t (by simpa using ht)
          (by simpa using hP)
        simp only [List.getElem_range, List.take_range, Nat.min_eq_left (Nat.le_of_lt ht)] at hrank
        have hsel : sel (some f) i dev = (List.range dev.numTr).filter fun x => decide (bv[x]? = some true) := by
          simp [sel, hf]
        obtain ⟨hr1, hr2⟩ := List.getElem?_eq_some_iff.mp hrank
        have hb := cols_block geo (some f) i dev hd _ (by rw [hsel]; exact hr1)
        refine ⟨by rw [hsel, List.mem_filter]; exact ⟨List.mem_range.mpr ht, by simpa using hP⟩, _, ?_, hb.trans ?_⟩
        · have hlt2 := (List.getElem?_eq_some_iff.mp hb).1
          simp only [calcIdx, l1, hlt, if_pos hP, Nat.zero_add]
          rw [if_pos (by simpa [pre] using hlt2)]; rfl
        · congr 2
          simp only [hsel]; exact hr2
      · right
        refine ⟨by simp [sel, hf, hP], ?_⟩
        simp only [calcIdx, l1, hlt, if_neg hP]

theorem mem_colsFrom (filter : Option Filter) (k : Nat) (geo : Geo) (i t : Nat) :
    (i, t) ∈ colsFrom filter k geo ↔
      ∃ j dev, i = k + j ∧ geo[j]? = some dev ∧ dev.enable = true ∧ t ∈ sel filter i dev := by
  induction geo generalizing k with
  | nil => simp [colsFrom]
  | cons d geo ih =>
    simp only [colsFrom, List.mem_append, ih]
    constructor
    · rintro (h | ⟨j, dev, h1, h2, h3, h4⟩)
      · by_cases hde : d.enable = true
        · rw [if_pos hde] at h
          obtain ⟨t', ht', heq⟩ := List.mem_map.mp h
          injection heq with e1 e2; subst e1; subst e2
          exact ⟨0, d, rfl, rfl, hde, ht'⟩
        · rw [if_neg hde] at h; simp at h
      · exact ⟨j + 1, dev, by omega, by simpa using h2, h3, h4⟩
    · rintro ⟨j, dev, h1, h2, h3, h4⟩
      cases j with
      | zero =>
        simp at h2; subst h2; subst h1
        left; rw [if_pos h3]; exact List.mem_map.mpr ⟨t, h4, rfl⟩
      | succ j => right; exact ⟨j, dev, by omega, by simpa using h2, h3, h4⟩

theorem sel_nodup (filter : Option Filter) (i : Nat) (dev : Dev) : (sel filter i dev).Nodup := by
  unfold sel
  cases filter with
  | none => exact List.nodup_range
  | some f =>
    simp only
    cases f i with
    | none => exact List.nodup_nil
    | some bv => exact List.nodup_range.filter _

theorem colsFrom_nodup (filter : Option Filter) (k : Nat) (geo : Geo) : (colsFrom filter k geo).Nodup := by
  induction geo generalizing k with
  | nil => exact List.nodup_nil
  | cons d geo ih =>
    simp only [colsFrom]
    rw [List.nodup_append]
    refine ⟨?_, ih (k + 1), ?_⟩
    · split
      · exact List.Pairwise.map (fun t => (k, t)) (fun a b hab heq => hab (by injection heq)) (sel_nodup filter k d)
      · exact List.nodup_nil
    · intro x hx y hy hxy
      subst hxy
      obtain ⟨i, t⟩ := x
      have h1 : i = k := by
        split at hx
        · obtain ⟨t', _, heq⟩ := List.mem_map.mp hx; injection heq with e1 _; exact e1.symm
        · simp at hx
      obtain ⟨j, dev, h2, _⟩ := (mem_colsFrom filter (k + 1) geo i t).mp hy
      omega

theorem cols_index_unique (geo : Geo) (filter : Option Filter) (c c' : Nat) (x : Nat × Nat)
    (h1 : (cols geo filter)[c]? = some x) (h2 : (cols geo filter)[c']? = some x) : c = c' := by
  obtain ⟨l1, e1⟩ := List.getElem?_eq_some_iff.mp h1
  obtain ⟨l2, e2⟩ := List.getElem?_eq_some_iff.mp h2
  exact (List.getElem_inj (colsFrom_nodup filter 0 geo)).mp (e1.trans e2.symm)

/-! ### all-true filter = no filter -/

/-- the filter has an all-true bit vector of the right length for every enabled device -/
def AllTrue (geo : Geo) (f : Filter) : Prop :=
  ∀ i dev, geo[i]? = some dev → dev.enable = true → ∃ bv, f i = some bv ∧ bv.length = dev.numTr ∧ ∀ b ∈ bv, b = true

theorem AllTrue.wf {geo : Geo} {f : Filter} (h : AllTrue geo f) : WF geo (some f) := by
  intro f' hf j dev bv hg he hb
  injection hf with hf; subst hf
  obtain ⟨bv', h1, h2, _⟩ := h j dev hg he
  rw [Nat.zero_add, h1] at hb; injection hb with hb; subst hb; exact h2

theorem sel_allTrue {geo : Geo} {f : Filter} (h : AllTrue geo f) (i : Nat) (dev : Dev) (hg : geo[i]? = some dev)
    (he : dev.enable = true) : sel (some f) i dev = sel none i dev := by
  obtain ⟨bv, h1, h2, h3⟩ := h i dev hg he
  simp only [sel, h1]
  apply List.filter_eq_self.mpr
  intro t ht
  rw [List.mem_range, ← h2] at ht
  simp [List.getElem?_eq_getElem ht, h3 bv[t] (List.getElem_mem ht)]

theorem colsFrom_congr (filter filter' : Option Filter) (k : Nat) (geo : Geo)
    (h : ∀ j dev, geo[j]? = some dev → dev.enable = true → sel filter (k + j) dev = sel filter' (k + j) dev) :
    colsFrom filter k geo = colsFrom filter' k geo := by
  induction geo generalizing k with
  | nil => rfl
  | cons d geo ih =>
    simp only [colsFrom]
    congr 1
    · split
      · rename_i he; have := h 0 d rfl he; rw [Nat.add_zero] at this; rw [this]
      · rfl
    · apply ih
      intro j dev hg he
      have := h (j + 1) dev (by simpa using hg) he
      have hk : k + (j + 1) = k + 1 + j := by omega
      rwa [hk] at this

theorem cols_allTrue {geo : Geo} {f : Filter} (h : AllTrue geo f) : cols geo (some f) = cols geo none :=
  colsFrom_congr _ _ 0 geo (fun j dev hg he => by rw [Nat.zero_add]; exact sel_allTrue h j dev hg he)

/-! ### disabled devices are invisible -/

/-- the geometry with the disabled devices removed -/
def compact (geo : Geo) : Geo := (devices geo).map (·.2)

/-- index of a device in `compact geo` ↦ its index in `geo` -/
def ren (geo : Geo) (k : Nat) : Nat := (((devices geo)[k]?).map (·.1)).getD 0

/-- the same filter, keyed by the indices of `compact geo` -/
def renFilter (geo : Geo) (filter : Option Filter) : Option Filter := filter.map fun f k => f (ren geo k)

theorem compact_eq_filter (geo : Geo) : compact geo = geo.filter (·.enable) := by
  unfold compact devices
  suffices ∀ k, (devicesFrom k geo).map (·.2) = geo.filter (·.enable) from this 0
  intro k
  induction geo generalizing k with
  | nil => rfl
  | cons d geo ih =>
    unfold devicesFrom
    by_cases he : d.enable = true
    · simp [he, ih]
    · simp [he, ih]

theorem colsFrom_eq_flatMap (filter : Option Filter) (k : Nat) (geo : Geo) :
    colsFrom filter k geo = (devicesFrom k geo).flatMap fun d => (sel filter d.1 d.2).map fun t => (d.1, t) := by
  induction geo generalizing k with
  | nil => rfl
  | cons d geo ih =>
    unfold colsFrom devicesFrom
    by_cases he : d.enable = true
    · simp [he, ih]
    · simp [he, ih]

theorem sel_renFilter (geo : Geo) (filter : Option Filter) (k : Nat) (dev : Dev) :
    sel (renFilter geo filter) k dev = sel filter (ren geo k) dev := by
  cases filter <;> rfl

theorem colsFrom_enum (filter filter' : Option Filter) (r : Nat → Nat) (ds : List (Nat × Dev)) (o : Nat)
    (hen : ∀ d ∈ ds, d.2.enable = true)
    (hr : ∀ k i dev, ds[k]? = some (i, dev) → r (o + k) = i ∧ sel filter' (o + k) dev = sel filter i dev) :
    (colsFrom filter' o (ds.map (·.2))).map (fun x => (r x.1, x.2)) =
      ds.flatMap fun d => (sel filter d.1 d.2).map fun t => (d.1, t) := by
  induction ds generalizing o with
  | nil => rfl
  | cons d ds ih =>
    obtain ⟨i, dev⟩ := d
    have he : dev.enable = true := hen (i, dev) (by simp)
    obtain ⟨h1, h2⟩ := hr 0 i dev rfl
    rw [Nat.add_zero] at h1 h2
    simp only [List.map_cons, colsFrom, he, if_true, List.map_append, List.flatMap_cons]
    congr 1
    · rw [h2]; simp [h1]
    · apply ih (o + 1) (fun d hd => hen d (by simp [hd]))
      intro k i' dev' hk
      have := hr (k + 1) i' dev' (by simpa using hk)
      have e : o + (k + 1) = o + 1 + k := by omega
      rwa [e] at this

/-- the columns of the full geometry are those of the compact one, device indices renamed -/
theorem cols_compact (geo : Geo) (filter : Option Filter) :
    cols geo filter = (cols (compact geo) (renFilter geo filter)).map fun x => (ren geo x.1, x.2) := by
  unfold cols
  rw [colsFrom_eq_flatMap filter 0 geo]
  symm
  apply colsFrom_enum filter (renFilter geo filter) (ren geo) (devicesFrom 0 geo) 0
  · intro d hd
    obtain ⟨i, dev⟩ := d
    obtain ⟨_, _, _, he⟩ := mem_devicesFrom.mp hd
    exact he
  · intro k i dev hk
    rw [Nat.zero_add]
    have : ren geo k = i := by simp [ren, devices, hk]
    exact ⟨this, by rw [sel_renFilter, this]⟩

theorem devices_getElem? (geo : Geo) (k i : Nat) (dev : Dev) (h : (devices geo)[k]? = some (i, dev)) :
    geo[i]? = some dev ∧ dev.enable = true := by
  have hm : (i, dev) ∈ devices geo := List.mem_of_getElem? h
  obtain ⟨j, hj, hg, he⟩ := mem_devicesFrom.mp hm
  rw [Nat.zero_add] at hj; subst hj
  exact ⟨hg, he⟩

theorem wf_compact (geo : Geo) (filter : Option Filter) (h : WF geo filter) : WF (compact geo) (renFilter geo filter) := by
  intro f' hf j dev bv hg _ hb
  cases filter with
  | none => cases hf
  | some f =>
    injection hf with hf; subst hf
    rw [Nat.zero_add] at hb
    unfold compact at hg
    rw [List.getElem?_map] at hg
    cases hd : (devices geo)[j]? with
    | none => rw [hd] at hg; cases hg
    | some d =>
      obtain ⟨i, dev'⟩ := d
      rw [hd] at hg; simp at hg; subst hg
      obtain ⟨g1, g2⟩ := devices_getElem? geo j i dev' hd
      have hren : ren geo j = i := by simp [ren, hd]
      simp only [hren] at hb
      exact h f rfl i dev' bv g1 g2 (by simpa using hb)

theorem mem_devices_compact (geo : Geo) (k i : Nat) (dev : Dev) (h : (devices geo)[k]? = some (i, dev)) :
    (k, dev) ∈ devices (compact geo) := by
  apply mem_devicesFrom.mpr
  refine ⟨k, by omega, ?_, (devices_getElem? geo k i dev h).2⟩
  simp [compact, h]


/-! ### the blocks written by different devices do not overlap -/

theorem inBlock_col (geo : Geo) (filter : Option Filter) (d : Nat × Dev) (hd : d ∈ devices geo) (c : Nat)
    (hb : InBlock filter geo d c) : ∃ t, (cols geo filter)[c]? = some (d.1, t) := by
  obtain ⟨i, dev⟩ := d
  obtain ⟨h1, h2⟩ := hb
  simp only at h1 h2
  have hk : c - pre filter geo i < (sel filter i dev).length := by omega
  have := cols_block geo filter i dev hd (c - pre filter geo i) hk
  rw [Nat.add_sub_cancel' h1] at this
  exact ⟨_, this⟩

/-- the blocks of matrix columns two different enabled devices write are disjoint -/
theorem blocks_disjoint (geo : Geo) (filter : Option Filter) (d d' : Nat × Dev) (hd : d ∈ devices geo)
    (hd' : d' ∈ devices geo) (c : Nat) (hb : InBlock filter geo d c) (hb' : InBlock filter geo d' c) : d = d' := by
  obtain ⟨t, h1⟩ := inBlock_col geo filter d hd c hb
  obtain ⟨t', h2⟩ := inBlock_col geo filter d' hd' c hb'
  rw [h1] at h2
  injection h2 with h2
  injection h2 with h3 _
  obtain ⟨i, dev⟩ := d
  obtain ⟨i', dev'⟩ := d'
  simp only at h3; subst h3
  obtain ⟨_, e1, g1, _⟩ := mem_devicesFrom.mp hd
  obtain ⟨_, e2, g2, _⟩ := mem_devicesFrom.mp hd'
  rw [Nat.zero_add] at e1 e2; subst e1; subst e2
  rw [g1] at g2; injection g2 with g2; rw [g2]

/-! ### a decidable form of `WF`, `sel` spelled out, Greedy -/

/-- decidable form of `WF` -/
def wfCheck (geo : Geo) (filter : Option Filter) : Bool :=
  match filter with
  | none => true
  | some f => (List.range geo.length).all fun j =>
      match geo[j]?, f j with
      | some dev, some bv => !dev.enable || bv.length == dev.numTr
      | _, _ => true

theorem wf_of_check {geo : Geo} {filter : Option Filter} (h : wfCheck geo filter = true) : WF geo filter := by
  intro f hf j dev bv hg he hb
  subst hf
  rw [Nat.zero_add] at hb
  have hj : j < geo.length := by
    rcases Nat.lt_or_ge j geo.length with h' | h'
    · exact h'
    · rw [List.getElem?_eq_none h'] at hg; cases hg
  simp only [wfCheck, List.all_eq_true, List.mem_range] at h
  have := h j hj
  simp only [hg, hb, he, Bool.not_true, Bool.false_or, beq_iff_eq] at this
  exact this

theorem mem_sel (filter : Option Filter) (i : Nat) (dev : Dev) (t : Nat) :
    t ∈ sel filter i dev ↔
      t < dev.numTr ∧ (filter = none ∨ ∃ f bv, filter = some f ∧ f i = some bv ∧ bv[t]? = some true) := by
  unfold sel
  cases filter with
  | none => simp
  | some f =>
    simp only
    cases hf : f i with
    | none => simp [hf]
    | some bv => simp [hf, List.mem_filter]

theorem greedy_ok (geo : Geo) (filter : Option Filter) (c : Constraint) (h : WF geo filter) :
    greedy geo filter c =
      if (devices geo).all (fun d => (sel filter d.1 d.2).isEmpty) then
        .ok ((devices geo).map fun d => (d.1, List.replicate d.2.numTr 0))
      else (convert c (.fin false 1 0) (.fin false 1 0)).map fun v =>
        (devices geo).map fun d => (d.1, (List.range d.2.numTr).map fun t => if (sel filter d.1 d.2).contains t then v else 0) := by
  unfold greedy
  have hper : (devices geo).mapM (fun d => do
        let ts ← passing filter d.1 d.2
        pure (d, ts)) = .ok ((devices geo).map fun d => (d, sel filter d.1 d.2)) := by
    apply mapM_ok
    intro d hd
    obtain ⟨i, dev⟩ := d
    obtain ⟨j0, hj0, hg, he⟩ := mem_devicesFrom.mp hd
    rw [Nat.zero_add] at hj0; subst hj0
    rw [passing_ok (fun f hf bv hb => h f hf i dev bv hg he (by simpa using hb))]
    rfl
  rw [hper]
  simp only [bind, Except.bind, List.all_map, Function.comp_def, List.map_map]
  split
  · rfl
  · cases convert c (.fin false 1 0) (.fin false 1 0) <;> rfl
