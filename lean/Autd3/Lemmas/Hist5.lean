import Autd3.Lemmas.Hist4
/-!
History independence / frame conditions (C02), part 5: from the side relations to the read-back accessors.
`StmObsSame s s'`, `ModObsSame s s'`, `MiscObsSame s s'` list every public accessor of `Obs.lean` that belongs to
the STM / gain resource, the modulation resource, and the remaining resources (silencer, pulse-width table, phase
correction, GPIO/debug outputs, fan, flags); `ModSide` implies the first and third, `StmSide` the second and third.
-/
open Autd3 Autd3.Fw Autd3.Wire Autd3.Gen.Cpu Autd3.Gen Autd3.Rt
namespace Autd3.Hist

/-- every read-back accessor of the STM / gain resource (both segments), the request / transition registers and
the STM swap chain -/
structure StmObsSame (s s' : State) : Prop where
  gainMode : ∀ seg, seg ≤ 1 → Obs.isStmGainMode s' seg = Obs.isStmGainMode s seg
  div : ∀ seg, seg ≤ 1 → Obs.stmDiv s' seg = Obs.stmDiv s seg
  cycle : ∀ seg, seg ≤ 1 → Obs.stmCycle s' seg = Obs.stmCycle s seg
  rep : ∀ seg, seg ≤ 1 → Obs.stmRep s' seg = Obs.stmRep s seg
  soundSpeed : ∀ seg, seg ≤ 1 → Obs.soundSpeed s' seg = Obs.soundSpeed s seg
  numFoci : ∀ seg, seg ≤ 1 → Obs.numFoci s' seg = Obs.numFoci s seg
  drives : ∀ seg idx, seg ≤ 1 → Obs.drivesAt s' seg idx = Obs.drivesAt s seg idx
  req : Obs.reqStmSeg s' = Obs.reqStmSeg s
  transition : Obs.stmTransition s' = Obs.stmTransition s
  swap : s'.stmSwap = s.stmSwap
  curSeg : Obs.currentStmSeg s' = Obs.currentStmSeg s
  curIdx : Obs.currentStmIdx s' = Obs.currentStmIdx s
  current : Obs.currentStmSeg s ≤ 1 → Obs.drives s' = Obs.drives s
  cpu : s'.stmCycle = s.stmCycle ∧ s'.stmMode = s.stmMode ∧ s'.stmDiv = s.stmDiv ∧ s'.stmRep = s.stmRep ∧
    s'.stmSegment = s.stmSegment ∧ s'.stmWrite = s.stmWrite ∧ s'.numFoci = s.numFoci ∧ s'.gainStmMode = s.gainStmMode

/-- every read-back accessor of the modulation resource (both segments), the request / transition registers and
the modulation swap chain -/
structure ModObsSame (s s' : State) : Prop where
  buffer : ∀ seg, seg ≤ 1 → Obs.modBuffer s' seg = Obs.modBuffer s seg
  at_ : ∀ seg idx, seg ≤ 1 → Obs.modAt s' seg idx = Obs.modAt s seg idx
  div : ∀ seg, seg ≤ 1 → Obs.modDiv s' seg = Obs.modDiv s seg
  cycle : ∀ seg, seg ≤ 1 → Obs.modCycle s' seg = Obs.modCycle s seg
  rep : ∀ seg, seg ≤ 1 → Obs.modRep s' seg = Obs.modRep s seg
  req : Obs.reqModSeg s' = Obs.reqModSeg s
  transition : Obs.modTransition s' = Obs.modTransition s
  swap : s'.modSwap = s.modSwap
  curSeg : Obs.currentModSeg s' = Obs.currentModSeg s
  curIdx : Obs.currentModIdx s' = Obs.currentModIdx s
  current : Obs.currentModSeg s ≤ 1 → Obs.modulation s' = Obs.modulation s
  cpu : s'.modCycle = s.modCycle ∧ s'.modDiv = s.modDiv ∧ s'.modRep = s.modRep ∧ s'.modSegment = s.modSegment

/-- every read-back accessor of the remaining resources -/
structure MiscObsSame (s s' : State) : Prop where
  silRate : Obs.silencerUpdateRate s' = Obs.silencerUpdateRate s
  silSteps : Obs.silencerCompletionSteps s' = Obs.silencerCompletionSteps s
  silFixed : Obs.silencerFixedUpdateRateMode s' = Obs.silencerFixedUpdateRateMode s
  strict : s'.strict = s.strict ∧ s'.minDivI = s.minDivI ∧ s'.minDivP = s.minDivP
  pwe : Obs.pweTable s' = Obs.pweTable s
  phaseCorr : Obs.phaseCorrection s' = Obs.phaseCorrection s
  debugTypes : Obs.debugTypes s' = Obs.debugTypes s
  debugValues : Obs.debugValues s' = Obs.debugValues s
  fpgaState : Obs.fpgaStateReg s' = Obs.fpgaStateReg s
  thermo : Obs.isThermo s' = Obs.isThermo s
  reads : s'.readsFpgaState = s.readsFpgaState
  portA : s'.portA = s.portA
  synchronized : s'.synchronized = s.synchronized
  flags : s'.flagsInternal = s.flagsInternal
  numTr : s'.numTr = s.numTr
  time : s'.dcSysTime = s.dcSysTime
  version : reg s' ADDR_VERSION_NUM_MAJOR = reg s ADDR_VERSION_NUM_MAJOR ∧ reg s' ADDR_VERSION_NUM_MINOR = reg s ADDR_VERSION_NUM_MINOR
  /-- the fan flag and the emulated GPIO inputs are read from `CTL_FLAG`, which every accepted frame rewrites
  from the CPU's flag word: unchanged when the prior state was settled -/
  fan : Settled s → Settled s' → Obs.isForceFan s' = Obs.isForceFan s ∧ ∀ g, Fw.gpioIn s' g = Fw.gpioIn s g

theorem drivesAt_congr (s s' : State) (hm : ∀ g, Obs.stmMem s' g = Obs.stmMem s g)
    (hr : ∀ a, 89 ≤ a → a ≤ 94 → reg s' a = reg s a) (hpc : s'.phaseCorr = s.phaseCorr) (hn : s'.numTr = s.numTr)
    (seg idx : Nat) (hseg : seg ≤ 1) : Obs.drivesAt s' seg idx = Obs.drivesAt s seg idx := by
  have e1 : reg s' (ADDR_STM_MODE0 + seg) = reg s (ADDR_STM_MODE0 + seg) :=
    hr _ (by simp only [ADDR_STM_MODE0]; omega) (by simp only [ADDR_STM_MODE0]; omega)
  have e2 : reg s' (ADDR_STM_SOUND_SPEED0 + seg) = reg s (ADDR_STM_SOUND_SPEED0 + seg) :=
    hr _ (by simp only [ADDR_STM_SOUND_SPEED0]; omega) (by simp only [ADDR_STM_SOUND_SPEED0]; omega)
  have e3 : reg s' (ADDR_STM_NUM_FOCI0 + seg) = reg s (ADDR_STM_NUM_FOCI0 + seg) :=
    hr _ (by simp only [ADDR_STM_NUM_FOCI0]; omega) (by simp only [ADDR_STM_NUM_FOCI0]; omega)
  have pc : ∀ i, Obs.phaseCorrAt s' i = Obs.phaseCorrAt s i := by intro i; unfold Obs.phaseCorrAt; rw [hpc]
  have fd : Obs.fociDrive s' seg idx = Obs.fociDrive s seg idx := by
    funext tr
    unfold Obs.fociDrive Obs.soundSpeed Obs.numFoci
    simp only [hm, e2, e3, pc]
  unfold Obs.drivesAt Obs.isStmGainMode Obs.gainDrives Obs.fociDrives
  simp only [hm, e1, hn, pc, fd]

theorem stmObsSame_of (s s' : State) (hm0 : s'.stmMem0 = s.stmMem0) (hm1 : s'.stmMem1 = s.stmMem1)
    (hr : ∀ a, 80 ≤ a → a ≤ 99 → reg s' a = reg s a) (hpc : s'.phaseCorr = s.phaseCorr) (hn : s'.numTr = s.numTr)
    (hsw : s'.stmSwap = s.stmSwap)
    (hcpu : s'.stmCycle = s.stmCycle ∧ s'.stmMode = s.stmMode ∧ s'.stmDiv = s.stmDiv ∧ s'.stmRep = s.stmRep ∧
      s'.stmSegment = s.stmSegment ∧ s'.stmWrite = s.stmWrite ∧ s'.numFoci = s.numFoci ∧ s'.gainStmMode = s.gainStmMode) :
    StmObsSame s s' := by
  have hm : ∀ g, Obs.stmMem s' g = Obs.stmMem s g := by intro g; unfold Obs.stmMem; rw [hm0, hm1]
  have hd : ∀ seg idx, seg ≤ 1 → Obs.drivesAt s' seg idx = Obs.drivesAt s seg idx := fun seg idx hseg =>
    drivesAt_congr s s' hm (fun a h1 h2 => hr a (by omega) (by omega)) hpc hn seg idx hseg
  have cs : Obs.currentStmSeg s' = Obs.currentStmSeg s := by unfold Obs.currentStmSeg; rw [hsw]
  have ci : Obs.currentStmIdx s' = Obs.currentStmIdx s := by unfold Obs.currentStmIdx; rw [hsw]
  refine ⟨?_, ?_, ?_, ?_, ?_, ?_, hd, ?_, ?_, hsw, cs, ci, ?_, hcpu⟩
  · intro seg h; unfold Obs.isStmGainMode; rw [hr _ (by simp only [ADDR_STM_MODE0]; omega) (by simp only [ADDR_STM_MODE0]; omega)]
  · intro seg h; unfold Obs.stmDiv; rw [hr _ (by simp only [ADDR_STM_FREQ_DIV0]; omega) (by simp only [ADDR_STM_FREQ_DIV0]; omega)]
  · intro seg h; unfold Obs.stmCycle; rw [hr _ (by simp only [ADDR_STM_CYCLE0]; omega) (by simp only [ADDR_STM_CYCLE0]; omega)]
  · intro seg h; unfold Obs.stmRep; rw [hr _ (by simp only [ADDR_STM_REP0]; omega) (by simp only [ADDR_STM_REP0]; omega)]
  · intro seg h; unfold Obs.soundSpeed; rw [hr _ (by simp only [ADDR_STM_SOUND_SPEED0]; omega) (by simp only [ADDR_STM_SOUND_SPEED0]; omega)]
  · intro seg h; unfold Obs.numFoci; rw [hr _ (by simp only [ADDR_STM_NUM_FOCI0]; omega) (by simp only [ADDR_STM_NUM_FOCI0]; omega)]
  · unfold Obs.reqStmSeg segReg; rw [hr _ (by decide) (by decide)]
  · unfold Obs.stmTransition reg64
    rw [hr ADDR_STM_TRANSITION_MODE (by decide) (by decide), hr ADDR_STM_TRANSITION_VALUE_0 (by decide) (by decide),
      hr (ADDR_STM_TRANSITION_VALUE_0 + 1) (by decide) (by decide), hr (ADDR_STM_TRANSITION_VALUE_0 + 2) (by decide) (by decide),
      hr (ADDR_STM_TRANSITION_VALUE_0 + 3) (by decide) (by decide)]
  · intro h; unfold Obs.drives; rw [cs, ci]; exact hd _ _ h

theorem modObsSame_of (s s' : State) (hm0 : s'.modMem0 = s.modMem0) (hm1 : s'.modMem1 = s.modMem1)
    (hr : ∀ a, 32 ≤ a → a ≤ 45 → reg s' a = reg s a) (hsw : s'.modSwap = s.modSwap)
    (hcpu : s'.modCycle = s.modCycle ∧ s'.modDiv = s.modDiv ∧ s'.modRep = s.modRep ∧ s'.modSegment = s.modSegment) :
    ModObsSame s s' := by
  have hm : ∀ g, Obs.modMem s' g = Obs.modMem s g := by intro g; unfold Obs.modMem; rw [hm0, hm1]
  have ha : ∀ seg idx, Obs.modAt s' seg idx = Obs.modAt s seg idx := by
    intro seg idx; unfold Obs.modAt; simp only [hm]
  have hc : ∀ seg, seg ≤ 1 → Obs.modCycle s' seg = Obs.modCycle s seg := by
    intro seg h; unfold Obs.modCycle; rw [hr _ (by simp only [ADDR_MOD_CYCLE0]; omega) (by simp only [ADDR_MOD_CYCLE0]; omega)]
  have cs : Obs.currentModSeg s' = Obs.currentModSeg s := by unfold Obs.currentModSeg; rw [hsw]
  have ci : Obs.currentModIdx s' = Obs.currentModIdx s := by unfold Obs.currentModIdx; rw [hsw]
  refine ⟨?_, fun seg idx _ => ha seg idx, ?_, hc, ?_, ?_, ?_, hsw, cs, ci, ?_, hcpu⟩
  · intro seg h
    unfold Obs.modBuffer
    rw [hc seg h]
    have : Obs.modAt s' seg = Obs.modAt s seg := funext (ha seg)
    rw [this]
  · intro seg h; unfold Obs.modDiv; rw [hr _ (by simp only [ADDR_MOD_FREQ_DIV0]; omega) (by simp only [ADDR_MOD_FREQ_DIV0]; omega)]
  · intro seg h; unfold Obs.modRep; rw [hr _ (by simp only [ADDR_MOD_REP0]; omega) (by simp only [ADDR_MOD_REP0]; omega)]
  · unfold Obs.reqModSeg segReg; rw [hr _ (by decide) (by decide)]
  · unfold Obs.modTransition reg64
    rw [hr ADDR_MOD_TRANSITION_MODE (by decide) (by decide), hr ADDR_MOD_TRANSITION_VALUE_0 (by decide) (by decide),
      hr (ADDR_MOD_TRANSITION_VALUE_0 + 1) (by decide) (by decide), hr (ADDR_MOD_TRANSITION_VALUE_0 + 2) (by decide) (by decide),
      hr (ADDR_MOD_TRANSITION_VALUE_0 + 3) (by decide) (by decide)]
  · intro _; unfold Obs.modulation; rw [cs, ci]; exact ha _ _

theorem miscObsSame_of (s s' : State) (hr : ∀ a, (1 ≤ a ∧ a ≤ 3) ∨ (64 ≤ a ∧ a ≤ 68) ∨ 240 ≤ a → reg s' a = reg s a)
    (hpc : s'.phaseCorr = s.phaseCorr) (hpwe : s'.pwe = s.pwe) (hn : s'.numTr = s.numTr)
    (hstrict : s'.strict = s.strict ∧ s'.minDivI = s.minDivI ∧ s'.minDivP = s.minDivP)
    (hreads : s'.readsFpgaState = s.readsFpgaState) (hport : s'.portA = s.portA)
    (hsync : s'.synchronized = s.synchronized) (hfl : s'.flagsInternal = s.flagsInternal)
    (ht : s'.dcSysTime = s.dcSysTime) : MiscObsSame s s' := by
  refine ⟨?_, ?_, ?_, hstrict, ?_, ?_, ?_, ?_, ?_, ?_, hreads, hport, hsync, hfl, hn, ht, ⟨?_, ?_⟩, ?_⟩
  · unfold Obs.silencerUpdateRate; rw [hr _ (Or.inr (Or.inl (by decide))), hr _ (Or.inr (Or.inl (by decide)))]
  · unfold Obs.silencerCompletionSteps; rw [hr _ (Or.inr (Or.inl (by decide))), hr _ (Or.inr (Or.inl (by decide)))]
  · unfold Obs.silencerFixedUpdateRateMode; rw [hr _ (Or.inr (Or.inl (by decide)))]
  · unfold Obs.pweTable; rw [hpwe]
  · unfold Obs.phaseCorrection
    have pc : Obs.phaseCorrAt s' = Obs.phaseCorrAt s := by funext i; unfold Obs.phaseCorrAt; rw [hpc]
    rw [hn, pc]
  · unfold Obs.debugTypes
    rw [hr ADDR_DEBUG_VALUE0_3 (Or.inr (Or.inr (by decide))), hr ADDR_DEBUG_VALUE1_3 (Or.inr (Or.inr (by decide))),
      hr ADDR_DEBUG_VALUE2_3 (Or.inr (Or.inr (by decide))), hr ADDR_DEBUG_VALUE3_3 (Or.inr (Or.inr (by decide)))]
  · unfold Obs.debugValues reg64
    rw [hr ADDR_DEBUG_VALUE0_0 (Or.inr (Or.inr (by decide))), hr (ADDR_DEBUG_VALUE0_0 + 1) (Or.inr (Or.inr (by decide))),
      hr (ADDR_DEBUG_VALUE0_0 + 2) (Or.inr (Or.inr (by decide))), hr (ADDR_DEBUG_VALUE0_0 + 3) (Or.inr (Or.inr (by decide))),
      hr ADDR_DEBUG_VALUE1_0 (Or.inr (Or.inr (by decide))), hr (ADDR_DEBUG_VALUE1_0 + 1) (Or.inr (Or.inr (by decide))),
      hr (ADDR_DEBUG_VALUE1_0 + 2) (Or.inr (Or.inr (by decide))), hr (ADDR_DEBUG_VALUE1_0 + 3) (Or.inr (Or.inr (by decide))),
      hr ADDR_DEBUG_VALUE2_0 (Or.inr (Or.inr (by decide))), hr (ADDR_DEBUG_VALUE2_0 + 1) (Or.inr (Or.inr (by decide))),
      hr (ADDR_DEBUG_VALUE2_0 + 2) (Or.inr (Or.inr (by decide))), hr (ADDR_DEBUG_VALUE2_0 + 3) (Or.inr (Or.inr (by decide))),
      hr ADDR_DEBUG_VALUE3_0 (Or.inr (Or.inr (by decide))), hr (ADDR_DEBUG_VALUE3_0 + 1) (Or.inr (Or.inr (by decide))),
      hr (ADDR_DEBUG_VALUE3_0 + 2) (Or.inr (Or.inr (by decide))), hr (ADDR_DEBUG_VALUE3_0 + 3) (Or.inr (Or.inr (by decide)))]
  · unfold Obs.fpgaStateReg; rw [hr _ (Or.inl (by decide))]
  · unfold Obs.isThermo; rw [hr _ (Or.inl (by decide))]
  · exact hr _ (Or.inl (by decide))
  · exact hr _ (Or.inl (by decide))
  · intro h1 h2
    unfold Settled at h1 h2
    have e : reg s' ADDR_CTL_FLAG = reg s ADDR_CTL_FLAG := by rw [h1, h2, hfl]
    refine ⟨by unfold Obs.isForceFan; rw [e], fun g => by unfold Fw.gpioIn; rw [e]⟩

theorem stmObsSame_of_modSide {s s' : State} (h : ModSide s s') : StmObsSame s s' :=
  stmObsSame_of s s' h.stmMem0 h.stmMem1 (fun a h1 h2 => h.regs a (by unfold modAddr; omega)) h.phaseCorr h.numTr h.stmSwap
    ⟨h.stmCycle, h.stmMode, h.stmDiv, h.stmRep, h.stmSegment, h.stmWrite, h.numFoci, h.gainStmMode⟩

theorem miscObsSame_of_modSide {s s' : State} (h : ModSide s s') : MiscObsSame s s' :=
  miscObsSame_of s s' (fun a ha => h.regs a (by unfold modAddr; omega)) h.phaseCorr h.pwe h.numTr
    ⟨h.strict, h.minDivI, h.minDivP⟩ h.readsFpgaState h.portA h.synchronized h.flagsInternal h.dcSysTime

theorem modObsSame_of_stmSide {s s' : State} (h : StmSide s s') : ModObsSame s s' :=
  modObsSame_of s s' h.modMem0 h.modMem1 (fun a h1 h2 => h.regs a (by unfold stmAddr; omega)) h.modSwap
    ⟨h.modCycle, h.modDiv, h.modRep, h.modSegment⟩

theorem miscObsSame_of_stmSide {s s' : State} (h : StmSide s s') : MiscObsSame s s' :=
  miscObsSame_of s s' (fun a ha => h.regs a (by unfold stmAddr; omega)) h.phaseCorr h.pwe h.numTr
    ⟨h.strict, h.minDivI, h.minDivP⟩ h.readsFpgaState h.portA h.synchronized h.flagsInternal h.dcSysTime

end Autd3.Hist
