import Autd3.Model.Mask
/-! Helper lemmas for C12 (`Props/C12.lean`): index assignment, `keep`, the pack recursion, prefix sums. -/
namespace Autd3.Mask

/-- a function of a device that does not look at `idx` -/
def IdxBlind {β : Type} (φ : Dev → β) : Prop := ∀ (d : Dev) (j : Nat), φ { d with idx := j } = φ d

theorem map_assignIdxFrom {β : Type} (φ : Dev → β) (h : IdxBlind φ) (i : Nat) (l : Geometry) :
    (assignIdxFrom i l).map φ = l.map φ := by
  induction l generalizing i with
  | nil => rfl
  | cons d ds ih => simp [assignIdxFrom, ih, h d i]

theorem length_assignIdxFrom (i : Nat) (l : Geometry) : (assignIdxFrom i l).length = l.length := by
  induction l generalizing i with
  | nil => rfl
  | cons d ds ih => simp [assignIdxFrom, ih]

theorem filter_assignIdxFrom_all (i : Nat) (l : Geometry) (h : ∀ d ∈ l, d.enable = true) :
    (assignIdxFrom i l).filter (·.enable) = assignIdxFrom i l := by
  induction l generalizing i with
  | nil => rfl
  | cons d ds ih =>
    have hd : d.enable = true := h d (by simp)
    have ht : ∀ x ∈ ds, x.enable = true := fun x hx => h x (by simp [hx])
    simp [assignIdxFrom, hd, ih (i + 1) ht]

theorem devices_all (g : Geometry) : ∀ d ∈ devices g, d.enable = true := by
  intro d hd
  simpa [devices] using (List.mem_filter.mp hd).2

theorem devices_restrict (g : Geometry) : devices (restrict g) = restrict g := by
  unfold restrict assignIdx
  exact filter_assignIdxFrom_all 0 _ (devices_all g)

theorem wfFrom_assignIdxFrom (i : Nat) (l : Geometry) : WFFrom i (assignIdxFrom i l) := by
  induction l generalizing i with
  | nil => trivial
  | cons d ds ih => exact ⟨rfl, ih (i + 1)⟩

theorem numDevices_restrict (g : Geometry) : numDevices (restrict g) = numDevices g := by
  unfold numDevices
  rw [devices_restrict]; unfold restrict assignIdx
  exact length_assignIdxFrom 0 _

theorem numTransducers_restrict (g : Geometry) : numTransducers (restrict g) = numTransducers g := by
  unfold numTransducers
  rw [devices_restrict]; unfold restrict assignIdx
  rw [map_assignIdxFrom (·.numTr) (fun _ _ => rfl)]

theorem centerSum_restrict (g : Geometry) : centerSum (restrict g) = centerSum g := by
  unfold centerSum
  rw [devices_restrict]; unfold restrict assignIdx
  have h : ∀ (l : Geometry) (z : V3), l.foldl (fun acc d => acc.add d.center) z = (l.map (·.center)).foldl V3.add z := by
    intro l z; rw [List.foldl_map]
  rw [h, h, map_assignIdxFrom (·.center) (fun _ _ => rfl)]

theorem center_restrict (g : Geometry) : center (restrict g) = center g := by
  unfold center
  rw [centerSum_restrict, numDevices_restrict]

theorem aabb_restrict (g : Geometry) : aabb (restrict g) = aabb g := by
  unfold aabb
  rw [devices_restrict]; unfold restrict assignIdx
  have h : ∀ (l : Geometry) (z : Aabb), l.foldl (fun a d => a.join d.aabb) z = (l.map (·.aabb)).foldl Aabb.join z := by
    intro l z; rw [List.foldl_map]
  rw [h, h, map_assignIdxFrom (·.aabb) (fun _ _ => rfl)]

/-- count of `true` among the enable flags -/
theorem numDevices_eq_count (g : Geometry) : numDevices g = (g.map (·.enable)).count true := by
  unfold numDevices devices
  induction g with
  | nil => rfl
  | cons d ds ih =>
    cases h : d.enable <;> simp [List.filter, h, ih]

theorem foldl_add_shift (l : List Nat) (a : Nat) : l.foldl (· + ·) a = a + l.foldl (· + ·) 0 := by
  induction l generalizing a with
  | nil => simp
  | cons x xs ih => simp only [List.foldl]; rw [ih (a + x), ih (0 + x)]; omega

theorem numTransducers_eq_sum (g : Geometry) :
    numTransducers g = (g.map fun d => if d.enable then d.numTr else 0).foldl (· + ·) 0 := by
  unfold numTransducers devices
  induction g with
  | nil => rfl
  | cons d ds ih =>
    cases h : d.enable
    · simp only [List.filter, h, List.map, List.foldl, Bool.false_eq_true, if_false]; simpa using ih
    · simp only [List.filter, h, List.map, List.foldl, if_true]
      rw [foldl_add_shift _ (0 + d.numTr), foldl_add_shift (List.map _ ds) (0 + d.numTr), ih]


/-- setters: a value `v` written to the enabled devices -/
def setSS (v : Nat) (g : Geometry) : Geometry := g.map fun d => if d.enable then { d with soundSpeed := v } else d

theorem setSoundSpeed_eq (c : Nat) (g : Geometry) : setSoundSpeed c g = setSS c g := rfl
theorem setSoundSpeedFromTempWith_eq (t k r m : Nat) (g : Geometry) :
    setSoundSpeedFromTempWith t k r m g = setSS (soundSpeedFromTemp t k r m) g := rfl

theorem setSS_enable (v : Nat) (g : Geometry) : (setSS v g).map (·.enable) = g.map (·.enable) := by
  unfold setSS
  induction g with
  | nil => rfl
  | cons d ds ih => cases h : d.enable <;> simp_all

theorem setSS_getElem (v : Nat) (g : Geometry) (i : Nat) (d : Dev) (h : g[i]? = some d) :
    (setSS v g)[i]? = some (if d.enable then { d with soundSpeed := v } else d) := by
  unfold setSS; simp [h]

theorem devices_setSS (v : Nat) (g : Geometry) :
    devices (setSS v g) = (devices g).map fun d => { d with soundSpeed := v } := by
  unfold setSS devices
  induction g with
  | nil => rfl
  | cons d ds ih => cases h : d.enable <;> simp_all

theorem assignIdxFrom_map_ss (v : Nat) (i : Nat) (l : Geometry) :
    assignIdxFrom i (l.map fun d => { d with soundSpeed := v }) = (assignIdxFrom i l).map fun d => { d with soundSpeed := v } := by
  induction l generalizing i with
  | nil => rfl
  | cons d ds ih => simp [assignIdxFrom, ih]

theorem setSS_all (v : Nat) (l : Geometry) (h : ∀ d ∈ l, d.enable = true) :
    setSS v l = l.map fun d => { d with soundSpeed := v } := by
  unfold setSS
  apply List.map_congr_left
  intro d hd; simp [h d hd]

theorem restrict_all (g : Geometry) : ∀ d ∈ restrict g, d.enable = true := by
  rw [← devices_restrict]; exact devices_all _

theorem restrict_setSS (v : Nat) (g : Geometry) : restrict (setSS v g) = setSS v (restrict g) := by
  rw [setSS_all v (restrict g) (restrict_all g)]
  unfold restrict assignIdx
  rw [devices_setSS, assignIdxFrom_map_ss]

/-! reconfigure -/
theorem reconfigure_enable (f : Dev → Dev) (g : Geometry) : (reconfigure f g).map (·.enable) = g.map (·.enable) := by
  unfold reconfigure assignIdx
  rw [map_assignIdxFrom (·.enable) (fun _ _ => rfl)]; simp

theorem reconfigure_soundSpeed (f : Dev → Dev) (g : Geometry) : (reconfigure f g).map (·.soundSpeed) = g.map (·.soundSpeed) := by
  unfold reconfigure assignIdx
  rw [map_assignIdxFrom (·.soundSpeed) (fun _ _ => rfl)]; simp

theorem reconfigure_wf (f : Dev → Dev) (g : Geometry) : WF (reconfigure f g) := wfFrom_assignIdxFrom 0 _

theorem restrict_wf (g : Geometry) : WF (restrict g) := wfFrom_assignIdxFrom 0 _


/-! ### OperationHandler -/
section handler
open Autd3.Wire (Tx)
variable {ω ε : Type}

theorem devices_cons_enabled (d : Dev) (ds : Geometry) (h : d.enable = true) : devices (d :: ds) = d :: devices ds := by
  simp [devices, List.filter, h]
theorem devices_cons_disabled (d : Dev) (ds : Geometry) (h : d.enable = false) : devices (d :: ds) = devices ds := by
  simp [devices, List.filter, h]

theorem pack_restrict_aux (I : OpI ω ε) (g : Geometry) (tx : List Tx) (ops : Ops ω) :
    keep g (pack I g tx ops).tx = (pack I (devices g) (keep g tx) ops).tx ∧
    (pack I g tx ops).ops = (pack I (devices g) (keep g tx) ops).ops ∧
    (pack I g tx ops).err = (pack I (devices g) (keep g tx) ops).err := by
  induction g generalizing tx ops with
  | nil => cases tx <;> simp [pack, keep, devices]
  | cons d ds ih =>
    cases tx with
    | nil =>
      cases hdev : devices (d :: ds) <;> simp [pack, keep]
    | cons t ts =>
      cases hd : d.enable
      · rw [devices_cons_disabled d ds hd]
        simp only [pack, hd, keep, Bool.false_eq_true, if_false]
        exact ih ts ops
      · rw [devices_cons_enabled d ds hd]
        cases ops with
        | nil => simp [pack, hd, keep]
        | cons o os =>
          cases o with
          | none =>
            simp only [pack, hd, keep, if_true]
            have := ih ts os
            simp [this.1, this.2.1, this.2.2]
          | some o =>
            simp only [pack, hd, keep, if_true]
            cases hp : packOp2 I o d t with
            | error e => obtain ⟨e, o', t'⟩ := e; simp [keep, hd]
            | ok r =>
              obtain ⟨o', t'⟩ := r
              have := ih ts os
              simp [keep, hd, this.1, this.2.1, this.2.2]


theorem pack_length (I : OpI ω ε) (g : Geometry) (tx : List Tx) (ops : Ops ω) :
    (pack I g tx ops).tx.length = tx.length := by
  induction g generalizing tx ops with
  | nil => cases tx <;> simp [pack]
  | cons d ds ih =>
    cases tx with
    | nil => simp [pack]
    | cons t ts =>
      cases hd : d.enable
      · simp only [pack, hd, Bool.false_eq_true, if_false, List.length_cons]; rw [ih]
      · cases ops with
        | nil => simp [pack, hd]
        | cons o os =>
          cases o with
          | none => simp only [pack, hd, if_true, List.length_cons]; rw [ih]
          | some o =>
            simp only [pack, hd, if_true]
            cases hp : packOp2 I o d t with
            | error e => obtain ⟨e, o', t'⟩ := e; simp
            | ok r => obtain ⟨o', t'⟩ := r; simp only [List.length_cons]; rw [ih]

theorem pack_disabled_untouched_aux (I : OpI ω ε) (g : Geometry) (tx : List Tx) (ops : Ops ω)
    (i : Nat) (d : Dev) (hg : g[i]? = some d) (hd : d.enable = false) :
    (pack I g tx ops).tx[i]? = tx[i]? := by
  induction g generalizing tx ops i with
  | nil => simp at hg
  | cons d0 ds ih =>
    cases tx with
    | nil => simp [pack]
    | cons t ts =>
      cases i with
      | zero =>
        simp at hg; subst hg
        simp [pack, hd]
      | succ i =>
        simp at hg
        cases h0 : d0.enable
        · simp only [pack, h0, Bool.false_eq_true, if_false]; simpa using ih ts ops i hg
        · cases ops with
          | nil => simp [pack, h0]
          | cons o os =>
            cases o with
            | none => simp only [pack, h0, if_true]; simpa using ih ts os i hg
            | some o =>
              simp only [pack, h0, if_true]
              cases hp : packOp2 I o d0 t with
              | error e => obtain ⟨e, o', t'⟩ := e; simp
              | ok r => obtain ⟨o', t'⟩ := r; simpa using ih ts os i hg

/-- on a list of enabled devices `pack` is a plain zip: the `k`-th device gets the `k`-th operation -/
theorem pack_all_enabled_pointwise (I : OpI ω ε) (g : Geometry) (hall : ∀ d ∈ g, d.enable = true)
    (tx : List Tx) (ops : Ops ω) (herr : (pack I g tx ops).err = none)
    (k : Nat) (d : Dev) (t : Tx) (o : ω × ω)
    (hd : g[k]? = some d) (ht : tx[k]? = some t) (ho : ops[k]? = some (some o)) :
    ∃ o' t', packOp2 I o d t = .ok (o', t') ∧ (pack I g tx ops).tx[k]? = some t' ∧
      (pack I g tx ops).ops[k]? = some (some o') := by
  induction g generalizing tx ops k with
  | nil => simp at hd
  | cons d0 ds ih =>
    have h0 : d0.enable = true := hall d0 (by simp)
    have hall' : ∀ x ∈ ds, x.enable = true := fun x hx => hall x (by simp [hx])
    cases tx with
    | nil => simp at ht
    | cons t0 ts =>
      cases ops with
      | nil => simp at ho
      | cons o0 os =>
        cases k with
        | zero =>
          simp at hd ht ho; subst hd ht ho
          simp only [pack, h0, if_true] at herr ⊢
          cases hp : packOp2 I o d0 t0 with
          | error e => obtain ⟨e, o', t'⟩ := e; simp [hp] at herr
          | ok r => obtain ⟨o', t'⟩ := r; exact ⟨o', t', rfl, by simp, by simp⟩
        | succ k =>
          simp at hd ht ho
          cases o0 with
          | none =>
            simp only [pack, h0, if_true] at herr ⊢
            obtain ⟨o', t', h1, h2, h3⟩ := ih hall' ts os herr k hd ht ho
            exact ⟨o', t', h1, by simpa using h2, by simpa using h3⟩
          | some o0 =>
            simp only [pack, h0, if_true] at herr ⊢
            cases hp : packOp2 I o0 d0 t0 with
            | error e => obtain ⟨e, o', t'⟩ := e; simp [hp] at herr
            | ok r =>
              obtain ⟨o0', t0'⟩ := r
              simp only [hp] at herr
              obtain ⟨o', t', h1, h2, h3⟩ := ih hall' ts os herr k hd ht ho
              exact ⟨o', t', h1, by simpa using h2, by simpa using h3⟩


theorem sendLoop_restrict_aux (I : OpI ω ε) (g : Geometry) (fuel : Nat) (tx : List Tx) (ops : Ops ω) :
    (sendLoop I g fuel tx ops).frames.map (keep g) = (sendLoop I (devices g) fuel (keep g tx) ops).frames ∧
    keep g (sendLoop I g fuel tx ops).final = (sendLoop I (devices g) fuel (keep g tx) ops).final ∧
    (sendLoop I g fuel tx ops).err = (sendLoop I (devices g) fuel (keep g tx) ops).err ∧
    (sendLoop I g fuel tx ops).cut = (sendLoop I (devices g) fuel (keep g tx) ops).cut := by
  induction fuel generalizing tx ops with
  | zero => simp [sendLoop]
  | succ fuel ih =>
    simp only [sendLoop]
    by_cases hdone : isDone I ops = true
    · simp [hdone]
    · simp only [hdone, Bool.false_eq_true, if_false]
      obtain ⟨h1, h2, h3⟩ := pack_restrict_aux I g tx ops
      rw [← h3]
      cases he : (pack I g tx ops).err with
      | some e => simp [h1]
      | none =>
        simp only []
        have := ih (pack I g tx ops).tx (pack I g tx ops).ops
        rw [← h1, ← h2]
        simp [this.1, this.2.1, this.2.2.1, this.2.2.2]

theorem sendLoop_disabled_untouched_aux (I : OpI ω ε) (g : Geometry) (fuel : Nat) (tx : List Tx) (ops : Ops ω)
    (i : Nat) (d : Dev) (hg : g[i]? = some d) (hd : d.enable = false) :
    (∀ f ∈ (sendLoop I g fuel tx ops).frames, f[i]? = tx[i]?) ∧ (sendLoop I g fuel tx ops).final[i]? = tx[i]? := by
  induction fuel generalizing tx ops with
  | zero => simp [sendLoop]
  | succ fuel ih =>
    simp only [sendLoop]
    by_cases hdone : isDone I ops = true
    · simp [hdone]
    · simp only [hdone, Bool.false_eq_true, if_false]
      have hp := pack_disabled_untouched_aux I g tx ops i d hg hd
      cases he : (pack I g tx ops).err with
      | some e => simp [hp]
      | none =>
        simp only []
        have := ih (pack I g tx ops).tx (pack I g tx ops).ops
        refine ⟨?_, ?_⟩
        · intro f hf
          simp at hf
          rcases hf with rfl | hf
          · exact hp
          · rw [this.1 f hf, hp]
        · rw [this.2, hp]

/-- the operations see a device only through data other than its index -/
def OpI.IdxFree (I : OpI ω ε) : Prop :=
  ∀ (o : ω) (d : Dev) (j : Nat), I.pack o { d with idx := j } = I.pack o d ∧ I.required o { d with idx := j } = I.required o d

theorem packOp2_idxFree (I : OpI ω ε) (h : I.IdxFree) (o : ω × ω) (d : Dev) (j : Nat) (t : Tx) :
    packOp2 I o { d with idx := j } t = packOp2 I o d t := by
  unfold packOp2 packOp
  simp only [(h o.1 d j).1, (h o.2 d j).1, (h o.2 d j).2]

theorem pack_assignIdxFrom (I : OpI ω ε) (h : I.IdxFree) (i : Nat) (g : Geometry) (tx : List Tx) (ops : Ops ω) :
    pack I (assignIdxFrom i g) tx ops = pack I g tx ops := by
  induction g generalizing i tx ops with
  | nil => cases tx <;> simp [assignIdxFrom, pack]
  | cons d ds ih =>
    cases tx with
    | nil => simp [assignIdxFrom, pack]
    | cons t ts =>
      simp only [assignIdxFrom]
      cases hd : d.enable
      · simp only [pack, hd, Bool.false_eq_true, if_false, ih]
      · cases ops with
        | nil => simp [pack, hd]
        | cons o os =>
          cases o with
          | none => simp only [pack, hd, if_true, ih]
          | some o =>
            have e := packOp2_idxFree I h o d i t
            simp only [hd] at e
            simp only [pack, hd, if_true, ih, e]

theorem sendLoop_assignIdxFrom (I : OpI ω ε) (h : I.IdxFree) (i : Nat) (g : Geometry) (fuel : Nat) (tx : List Tx) (ops : Ops ω) :
    sendLoop I (assignIdxFrom i g) fuel tx ops = sendLoop I g fuel tx ops := by
  induction fuel generalizing tx ops with
  | zero => rfl
  | succ fuel ih => simp only [sendLoop, pack_assignIdxFrom I h, ih]

theorem generateFrom_assignIdxFrom {σ : Type} (gen : σ → Dev → (ω × ω) × σ)
    (h : ∀ s d j, gen s { d with idx := j } = gen s d) (s : σ) (i : Nat) (l : Geometry) :
    generateFrom gen s (assignIdxFrom i l) = generateFrom gen s l := by
  induction l generalizing s i with
  | nil => rfl
  | cons d ds ih => simp only [assignIdxFrom, generateFrom, h, ih]

theorem generate_restrict {σ : Type} (gen : σ → Dev → (ω × ω) × σ)
    (h : ∀ s d j, gen s { d with idx := j } = gen s d) (s : σ) (g : Geometry) :
    generate gen s (restrict g) = generate gen s g := by
  unfold generate
  rw [devices_restrict]; unfold restrict assignIdx
  exact generateFrom_assignIdxFrom gen h s 0 _

theorem generate_devices {σ : Type} (gen : σ → Dev → (ω × ω) × σ) (s : σ) (g : Geometry) :
    generate gen s (devices g) = generate gen s g := by
  unfold generate devices; simp


end handler

/-! ### holographic index maps: prefix sums -/

/-- columns contributed by a list of devices -/
def sumC (f : Filter) : Geometry → Nat
  | [] => 0
  | d :: ds => colCount f d + sumC f ds

theorem sumC_append (f : Filter) (a b : Geometry) : sumC f (a ++ b) = sumC f a + sumC f b := by
  induction a with
  | nil => simp [sumC]
  | cons d ds ih => simp [sumC, ih]; omega

theorem scan_getElem (f : Filter) (pre suf : Geometry) (acc : Nat) :
    (acc :: scanFrom f acc (pre ++ suf))[pre.length]? = some (acc + sumC f pre) := by
  induction pre generalizing acc with
  | nil => simp [sumC]
  | cons d ps ih =>
    simp only [List.cons_append, scanFrom, List.length_cons, List.getElem?_cons_succ]
    rw [ih (acc + colCount f d)]; simp [sumC]; omega

theorem offsets_getElem (f : Filter) (pre suf : Geometry) :
    (offsets f (pre ++ suf))[pre.length]? = some (sumC f pre) := by
  unfold offsets; rw [scan_getElem]; simp

theorem lastOr_scan (f : Filter) (l : Geometry) (a acc : Nat) :
    lastOr a (scanFrom f acc l) = if l = [] then a else acc + sumC f l := by
  induction l generalizing a acc with
  | nil => simp [scanFrom, lastOr]
  | cons d ds ih =>
    simp only [scanFrom, lastOr, ih]
    by_cases h : ds = []
    · subst h; simp [sumC]
    · simp [h, sumC]; omega

theorem totalCols_eq (f : Filter) (g : Geometry) : totalCols f g = sumC f g := by
  unfold totalCols; rw [lastOr_scan]
  cases g <;> simp [sumC]

theorem wfFrom_idx (k : Nat) (pre : Geometry) (d : Dev) (suf : Geometry) (h : WFFrom k (pre ++ d :: suf)) :
    d.idx = k + pre.length := by
  induction pre generalizing k with
  | nil => exact h.1
  | cons x ps ih => have := ih (k + 1) h.2; simp; omega

theorem wfFrom_tail (k : Nat) (pre suf : Geometry) (h : WFFrom k (pre ++ suf)) : WFFrom (k + pre.length) suf := by
  induction pre generalizing k with
  | nil => simpa using h
  | cons x ps ih => have := ih (k + 1) h.2; simpa [Nat.add_assoc, Nat.add_comm 1] using this

theorem countOnes_trueIdx (i : Nat) (bs : List Bool) : (trueIdx i bs).length = countOnes bs := by
  induction bs generalizing i with
  | nil => rfl
  | cons b bs ih => cases b <;> simp [trueIdx, countOnes, ih] <;> omega

theorem devVals_length (m didx : Nat) (ts : List Nat) : (devVals m didx ts).length = m * ts.length := by
  unfold devVals
  induction ts with
  | nil => simp
  | cons t ts ih => simp [List.flatMap_cons, ih, Nat.mul_succ]; omega

/-- the transducers of `d` that get a column (pure version of `passing`) -/
def passingL (f : Filter) (d : Dev) : List Nat :=
  match f with
  | none => List.range' 0 d.numTr
  | some m =>
    match m d.idx with
    | none => []
    | some bits => trueIdx 0 (bits.take d.numTr)

/-- every BitVec handed in for an enabled device has one bit per transducer (what `Group::get_filters` builds) -/
def FilterWF (f : Filter) (g : Geometry) : Prop :=
  ∀ d ∈ g, d.enable = true → ∀ m bits, f = some m → m d.idx = some bits → bits.length = d.numTr

theorem passing_ok (f : Filter) (d : Dev)
    (h : ∀ m bits, f = some m → m d.idx = some bits → bits.length = d.numTr) :
    passing f d = .ok (passingL f d) := by
  unfold passing passingL
  cases f with
  | none => rfl
  | some m =>
    simp only []
    cases hb : m d.idx with
    | none => rfl
    | some bits =>
      have := h m bits rfl hb
      simp [this]

theorem passingL_length (f : Filter) (d : Dev) (he : d.enable = true)
    (h : ∀ m bits, f = some m → m d.idx = some bits → bits.length = d.numTr) :
    (passingL f d).length = colCount f d := by
  unfold passingL colCount
  cases f with
  | none => simp [he]
  | some m =>
    simp only [he, if_true]
    cases hb : m d.idx with
    | none => rfl
    | some bits =>
      have := h m bits rfl hb
      simp only [countOnes_trueIdx]
      rw [← this, List.take_length]

theorem colCount_disabled (f : Filter) (d : Dev) (h : d.enable = false) : colCount f d = 0 := by
  simp [colCount, h]


/-- the blocks tile `[a, e)`: each starts where the previous one ended -/
def contiguous : Nat → List (Nat × List Cell) → Nat → Prop
  | a, [], e => a = e
  | a, (s, vs) :: bs, e => s = a ∧ contiguous (a + vs.length) bs e

/-- cells of the (device, transducer) pairs in iteration order -/
def orderL (f : Filter) (l : List Dev) : List (Nat × Nat) :=
  l.flatMap fun d => (passingL f d).map fun t => (d.idx, t)

def cellsOf (m : Nat) (o : List (Nat × Nat)) : List Cell :=
  o.flatMap fun dt => (List.range' 0 m).map fun fi => (dt.1, dt.2, fi)

theorem devVals_eq (m didx : Nat) (ts : List Nat) : devVals m didx ts = cellsOf m (ts.map fun t => (didx, t)) := by
  unfold devVals cellsOf; simp [List.flatMap_map]

theorem cellsOf_append (m : Nat) (a b : List (Nat × Nat)) : cellsOf m (a ++ b) = cellsOf m a ++ cellsOf m b := by
  unfold cellsOf; simp

theorem fill_aux (f : Filter) (m : Nat) (pre suf : Geometry)
    (hwf : WFFrom pre.length suf) (hf : FilterWF f suf) :
    ∃ bs, fillBlocksOf f m (offsets f (pre ++ suf)) (devices suf) = .ok bs ∧
      contiguous (m * sumC f pre) bs (m * sumC f (pre ++ suf)) ∧
      bs.flatMap (·.2) = cellsOf m (orderL f (devices suf)) := by
  induction suf generalizing pre with
  | nil => exact ⟨[], by simp [devices, fillBlocksOf], by simp [contiguous], by simp [devices, orderL, cellsOf]⟩
  | cons d rest ih =>
    have hrest : WFFrom (pre ++ [d]).length rest := by simpa using hwf.2
    have hfr : FilterWF f rest := fun x hx => hf x (by simp [hx])
    have hidx : d.idx = pre.length := hwf.1
    have happ : pre ++ d :: rest = (pre ++ [d]) ++ rest := by simp
    obtain ⟨bs, h1, h2, h3⟩ := ih (pre ++ [d]) hrest hfr
    rw [← happ] at h1 h2
    cases he : d.enable
    · -- disabled: no block, no columns
      rw [devices_cons_disabled d rest he]
      refine ⟨bs, h1, ?_, h3⟩
      have : sumC f (pre ++ [d]) = sumC f pre := by simp [sumC_append, sumC, colCount_disabled f d he]
      rwa [this] at h2
    · rw [devices_cons_enabled d rest he]
      have hfd : ∀ mm bits, f = some mm → mm d.idx = some bits → bits.length = d.numTr :=
        fun mm bits h1 h2 => hf d (by simp) he mm bits h1 h2
      have hoff : (offsets f (pre ++ d :: rest))[d.idx]? = some (sumC f pre) := by
        rw [hidx]; exact offsets_getElem f pre (d :: rest)
      refine ⟨(m * sumC f pre, devVals m d.idx (passingL f d)) :: bs, ?_, ?_, ?_⟩
      · simp only [fillBlocksOf, devBlock, hoff, passing_ok f d hfd, h1]
      · refine ⟨rfl, ?_⟩
        have : sumC f (pre ++ [d]) = sumC f pre + colCount f d := by simp [sumC_append, sumC]
        rw [this, Nat.mul_add] at h2
        rw [devVals_length, passingL_length f d he hfd]; exact h2
      · simp only [List.flatMap_cons, h3, orderL, devVals_eq, cellsOf_append]


theorem orderOf_ok (f : Filter) (l : List Dev)
    (hf : ∀ d ∈ l, ∀ m bits, f = some m → m d.idx = some bits → bits.length = d.numTr) :
    orderOf f l = .ok (orderL f l) := by
  induction l with
  | nil => rfl
  | cons d ds ih =>
    have h1 := passing_ok f d (hf d (by simp))
    have h2 := ih (fun x hx => hf x (by simp [hx]))
    simp [orderOf, h1, h2, orderL]

theorem filterWF_devices (f : Filter) (g : Geometry) (hf : FilterWF f g) :
    ∀ d ∈ devices g, ∀ m bits, f = some m → m d.idx = some bits → bits.length = d.numTr := by
  intro d hd
  have := List.mem_filter.mp hd
  exact hf d this.1 (by simpa using this.2)

theorem orderL_length (f : Filter) (g : Geometry) (hf : FilterWF f g) :
    (orderL f (devices g)).length = sumC f g := by
  induction g with
  | nil => rfl
  | cons d ds ih =>
    have hfr : FilterWF f ds := fun x hx => hf x (by simp [hx])
    cases he : d.enable
    · rw [devices_cons_disabled d ds he]; simp [sumC, colCount_disabled f d he, ih hfr]
    · rw [devices_cons_enabled d ds he]
      have := passingL_length f d he (fun mm bits h1 h2 => hf d (by simp) he mm bits h1 h2)
      have ih' := ih hfr
      simp only [orderL, List.flatMap_cons, List.length_append, List.length_map] at ih' ⊢
      simp [sumC, this, ih']

/-! read-back side -/

theorem lookup_readBases (pre : Geometry) (d : Dev) (suf : Geometry) (k acc : Nat)
    (hwf : WFFrom k (pre ++ d :: suf)) (he : d.enable = true) :
    (readBases acc (devices (pre ++ d :: suf))).lookup d.idx = some (acc + sumC none pre) := by
  induction pre generalizing k acc with
  | nil =>
    simp only [List.nil_append]
    rw [devices_cons_enabled d suf he]
    simp [readBases, sumC]
  | cons x ps ih =>
    have hx : x.idx = k := hwf.1
    have hd : d.idx = k + 1 + ps.length := wfFrom_idx (k + 1) ps d suf hwf.2
    simp only [List.cons_append]
    cases hxe : x.enable
    · rw [devices_cons_disabled x _ hxe, ih (k + 1) acc hwf.2]
      simp [sumC, colCount_disabled none x hxe]
    · rw [devices_cons_enabled x _ hxe]
      have hne : (d.idx == x.idx) = false := by simp; omega
      simp only [readBases, List.lookup, hne]
      rw [ih (k + 1) (acc + x.numTr) hwf.2]
      simp [sumC, colCount, hxe]; omega

theorem markTrs_snd (acc : Nat) (bs : List Bool) : (markTrs acc bs).2 = acc + countOnes bs := by
  induction bs generalizing acc with
  | nil => rfl
  | cons b bs ih => cases b <;> simp [markTrs, countOnes, ih] <;> omega

theorem markTrs_getElem (acc : Nat) (bs : List Bool) (t : Nat) :
    (markTrs acc bs).1[t]? = bs[t]?.map fun b => if b then some (acc + countOnes (bs.take t)) else none := by
  induction bs generalizing acc t with
  | nil => simp [markTrs]
  | cons b bs ih =>
    cases t with
    | zero => cases b <;> simp [markTrs, countOnes]
    | succ t =>
      cases b
      · simp [markTrs, ih, countOnes]
      · simp only [markTrs, List.getElem?_cons_succ, ih, List.take_succ_cons, countOnes, if_true]
        congr 1; funext b; cases b <;> simp; omega

theorem trueIdx_getElem (i : Nat) (bs : List Bool) (k t : Nat) (h : (trueIdx i bs)[k]? = some t) :
    ∃ j, t = i + j ∧ bs[j]? = some true ∧ countOnes (bs.take j) = k := by
  induction bs generalizing i k with
  | nil => simp [trueIdx] at h
  | cons b bs ih =>
    cases b
    · simp only [trueIdx, Bool.false_eq_true, if_false] at h
      obtain ⟨j, h1, h2, h3⟩ := ih (i + 1) k h
      exact ⟨j + 1, by omega, by simpa using h2, by simpa [countOnes] using h3⟩
    · simp only [trueIdx, if_true] at h
      cases k with
      | zero => simp at h; exact ⟨0, by omega, by simp, by simp [countOnes]⟩
      | succ k =>
        simp at h
        obtain ⟨j, h1, h2, h3⟩ := ih (i + 1) k h
        exact ⟨j + 1, by omega, by simpa using h2, by simp [countOnes, h3]; omega⟩


theorem readMaps_ok (m : FilterMap) (l : List Dev) (acc : Nat)
    (hf : ∀ d ∈ l, ∀ bits, m d.idx = some bits → bits.length = d.numTr) :
    ∃ maps, readMaps m acc l = .ok maps := by
  induction l generalizing acc with
  | nil => exact ⟨[], rfl⟩
  | cons d ds ih =>
    have hds : ∀ x ∈ ds, ∀ bits, m x.idx = some bits → bits.length = x.numTr := fun x hx => hf x (by simp [hx])
    cases hb : m d.idx with
    | none =>
      obtain ⟨r, hr⟩ := ih acc hds
      exact ⟨(d.idx, none) :: r, by simp [readMaps, hb, hr]⟩
    | some bits =>
      have hl := hf d (by simp) bits hb
      obtain ⟨r, hr⟩ := ih (markTrs acc (bits.take d.numTr)).2 hds
      exact ⟨(d.idx, some (markTrs acc (bits.take d.numTr)).1) :: r, by simp [readMaps, hb, hl, hr]⟩

theorem filterWF_devices_some (m : FilterMap) (g : Geometry) (hf : FilterWF (some m) g) :
    ∀ d ∈ devices g, ∀ bits, m d.idx = some bits → bits.length = d.numTr :=
  fun d hd bits hb => filterWF_devices (some m) g hf d hd m bits rfl hb

theorem lookup_readMaps (m : FilterMap) (pre : Geometry) (d : Dev) (suf : Geometry) (k acc : Nat)
    (hwf : WFFrom k (pre ++ d :: suf)) (he : d.enable = true) (hf : FilterWF (some m) (pre ++ d :: suf)) :
    ∃ maps, readMaps m acc (devices (pre ++ d :: suf)) = .ok maps ∧
      maps.lookup d.idx =
        some ((m d.idx).map fun bits => (markTrs (acc + sumC (some m) pre) (bits.take d.numTr)).1) := by
  induction pre generalizing k acc with
  | nil =>
    simp only [List.nil_append] at hf ⊢
    rw [devices_cons_enabled d suf he]
    have hsuf : ∀ x ∈ devices suf, ∀ bits, m x.idx = some bits → bits.length = x.numTr :=
      filterWF_devices_some m suf (fun x hx => hf x (by simp [hx]))
    cases hb : m d.idx with
    | none =>
      obtain ⟨r, hr⟩ := readMaps_ok m (devices suf) acc hsuf
      exact ⟨(d.idx, none) :: r, by simp [readMaps, hb, hr], by simp [List.lookup]⟩
    | some bits =>
      have hl := hf d (by simp) he m bits rfl hb
      obtain ⟨r, hr⟩ := readMaps_ok m (devices suf) (markTrs acc (bits.take d.numTr)).2 hsuf
      exact ⟨(d.idx, some (markTrs acc (bits.take d.numTr)).1) :: r, by simp [readMaps, hb, hl, hr], by simp [List.lookup, sumC]⟩
  | cons x ps ih =>
    have hx : x.idx = k := hwf.1
    have hd : d.idx = k + 1 + ps.length := wfFrom_idx (k + 1) ps d suf hwf.2
    have hfr : FilterWF (some m) (ps ++ d :: suf) := fun y hy => hf y (by simp [hy])
    simp only [List.cons_append] at hf ⊢
    cases hxe : x.enable
    · rw [devices_cons_disabled x _ hxe]
      obtain ⟨maps, h1, h2⟩ := ih (k + 1) acc hwf.2 hfr
      exact ⟨maps, h1, by rw [h2]; simp [sumC, colCount_disabled _ x hxe]⟩
    · rw [devices_cons_enabled x _ hxe]
      have hne : (d.idx == x.idx) = false := by simp; omega
      cases hb : m x.idx with
      | none =>
        obtain ⟨maps, h1, h2⟩ := ih (k + 1) acc hwf.2 hfr
        refine ⟨(x.idx, none) :: maps, by simp [readMaps, hb, h1], ?_⟩
        simp only [List.lookup, hne, h2]
        simp [sumC, colCount, hxe, hb]
      | some bits =>
        have hl := hf x (by simp) hxe m bits rfl hb
        obtain ⟨maps, h1, h2⟩ := ih (k + 1) (markTrs acc (bits.take x.numTr)).2 hwf.2 hfr
        refine ⟨(x.idx, some (markTrs acc (bits.take x.numTr)).1) :: maps, by simp [readMaps, hb, hl, h1], ?_⟩
        simp only [List.lookup, hne, h2, markTrs_snd]
        have : List.take x.numTr bits = bits := by rw [← hl, List.take_length]
        simp [sumC, colCount, hxe, hb, this, Nat.add_assoc]


theorem columns_match_aux (f : Filter) (pre : Geometry) (d : Dev) (suf : Geometry)
    (hwf : WF (pre ++ d :: suf)) (hf : FilterWF f (pre ++ d :: suf)) (he : d.enable = true)
    (k t : Nat) (hk : (passingL f d)[k]? = some t) :
    readIndex f (pre ++ d :: suf) (totalCols f (pre ++ d :: suf)) d t = .ok (some (sumC f pre + k)) := by
  have hfd : ∀ mm bits, f = some mm → mm d.idx = some bits → bits.length = d.numTr :=
    fun mm bits h1 h2 => hf d (by simp) he mm bits h1 h2
  have hklt : k < colCount f d := by
    rw [← passingL_length f d he hfd]
    exact (List.getElem?_eq_some_iff.mp hk).1
  have hn : totalCols f (pre ++ d :: suf) = sumC f pre + (colCount f d + sumC f suf) := by
    rw [totalCols_eq, sumC_append]; rfl
  cases f with
  | none =>
    have ht : t = k := by
      simp only [passingL] at hk
      have := List.getElem?_eq_some_iff.mp hk
      obtain ⟨h1, h2⟩ := this
      simp at h2; omega
    subst ht
    unfold readIndex
    simp only [lookup_readBases pre d suf 0 0 hwf he, hn]
    simp; omega
  | some m =>
    simp only [passingL] at hk
    cases hb : m d.idx with
    | none => simp [hb] at hk
    | some bits =>
      simp only [hb] at hk
      obtain ⟨j, hj1, hj2, hj3⟩ := trueIdx_getElem 0 (bits.take d.numTr) k t hk
      have htj : t = j := by omega
      subst htj
      obtain ⟨maps, h1, h2⟩ := lookup_readMaps m pre d suf 0 0 hwf he hf
      unfold readIndex
      simp only [h1, h2, hb, Option.map_some, markTrs_getElem, hj2, if_true, hj3, hn]
      simp; omega

theorem columns_null_aux (m : FilterMap) (pre : Geometry) (d : Dev) (suf : Geometry)
    (hwf : WF (pre ++ d :: suf)) (hf : FilterWF (some m) (pre ++ d :: suf)) (he : d.enable = true)
    (t : Nat) (ht : t < d.numTr) (hnot : t ∉ passingL (some m) d) (n : Nat) :
    readIndex (some m) (pre ++ d :: suf) n d t = .ok none := by
  obtain ⟨maps, h1, h2⟩ := lookup_readMaps m pre d suf 0 0 hwf he hf
  unfold readIndex
  simp only [h1, h2]
  cases hb : m d.idx with
  | none => simp
  | some bits =>
    have hl := hf d (by simp) he m bits rfl hb
    simp only [Option.map_some, markTrs_getElem]
    have htk : List.take d.numTr bits = bits := by rw [← hl, List.take_length]
    have hlt : t < bits.length := by omega
    rw [htk]
    cases hbt : bits[t]
    · simp [List.getElem?_eq_getElem hlt, hbt]
    · -- the bit is set: then `t` is one of the passing transducers
      exfalso; apply hnot
      simp only [passingL, hb, htk]
      have key : ∀ (i : Nat) (bs : List Bool) (j : Nat) (hj : j < bs.length), bs[j] = true → i + j ∈ trueIdx i bs := by
        intro i bs
        induction bs generalizing i with
        | nil => intro j hj; simp at hj
        | cons b bs ih =>
          intro j hj hbj
          cases j with
          | zero => simp at hbj; subst hbj; simp [trueIdx]
          | succ j =>
            simp at hbj hj
            have := ih (i + 1) j hj hbj
            have e : i + (j + 1) = i + 1 + j := by omega
            cases b <;> simp [trueIdx, e, this]
      simpa using key 0 bits t hlt hbt


theorem writeBlock_spec (pre vs : List Cell) (k : Nat) (h : vs.length ≤ k) :
    writeBlock ((pre.map some ++ List.replicate k none).toArray) pre.length vs =
      .ok (((pre ++ vs).map some ++ List.replicate (k - vs.length) none).toArray) := by
  induction vs generalizing pre k with
  | nil => simp [writeBlock]
  | cons v vs ih =>
    obtain ⟨k', rfl⟩ : ∃ k', k = k' + 1 := ⟨k - 1, by simp at h; omega⟩
    have hlt : pre.length < ((pre.map some ++ List.replicate (k' + 1) none).toArray).size := by simp
    simp only [writeBlock, hlt, if_true]
    have hset : ((pre.map some ++ List.replicate (k' + 1) none).toArray).setIfInBounds pre.length (some v)
        = (((pre ++ [v]).map some ++ List.replicate k' none).toArray) := by
      simp [List.replicate_succ, List.set_append_right]
    rw [hset]
    have := ih (pre ++ [v]) k' (by simp at h; omega)
    simp only [List.length_append, List.length_singleton] at this
    rw [this]; simp

theorem writeBlocks_spec (pre : List Cell) (bs : List (Nat × List Cell)) (k e : Nat)
    (hc : contiguous pre.length bs e) (he : e = pre.length + k) :
    writeBlocks ((pre.map some ++ List.replicate k none).toArray) bs =
      .ok (((pre ++ bs.flatMap (·.2)).map some).toArray) := by
  induction bs generalizing pre k with
  | nil => simp [contiguous] at hc; have : k = 0 := by omega
           subst this; simp [writeBlocks]
  | cons b bs ih =>
    obtain ⟨s, vs⟩ := b
    obtain ⟨hs, hc'⟩ := hc
    subst hs
    have hle : vs.length ≤ k := by
      have : ∀ (a : Nat) (l : List (Nat × List Cell)) (e : Nat), contiguous a l e → a ≤ e := by
        intro a l
        induction l generalizing a with
        | nil => intro e h; simp [contiguous] at h; omega
        | cons x xs ihx => intro e h; obtain ⟨s, vs⟩ := x; have := ihx _ e h.2; omega
      have := this _ _ _ hc'; omega
    simp only [writeBlocks, writeBlock_spec pre vs k hle]
    have := ih (pre ++ vs) (k - vs.length) (by simpa using hc') (by simp; omega)
    rw [this]; simp


theorem matrix_eq (f : Filter) (m : Nat) (g : Geometry) (hwf : WF g) (hf : FilterWF f g) :
    matrix f m g = .ok (sumC f g, ((cellsOf m (orderL f (devices g))).map some).toArray) := by
  have ho : order f g = .ok (orderL f (devices g)) := orderOf_ok f _ (filterWF_devices f g hf)
  have hl := orderL_length f g hf
  unfold matrix
  simp only [totalCols_eq]
  by_cases hb : numDevices g < m
  · simp only [hb, if_true, ho, hl, Nat.lt_irrefl, if_false]
    rw [← hl, List.take_length]
    simp [cellsOf, List.map_flatMap]; rfl
  · simp only [hb, if_false]
    obtain ⟨bs, h1, h2, h3⟩ := fill_aux f m [] g hwf hf
    simp only [List.nil_append, sumC, Nat.mul_zero] at h1 h2
    have hfb : fillBlocks f m g = .ok bs := h1
    simp only [hfb]
    have := writeBlocks_spec [] bs (m * sumC f g) (m * sumC f g) (by simpa using h2) (by simp)
    simp only [List.map_nil, List.nil_append] at this
    have hrep : Array.replicate (m * sumC f g) (none : Option Cell) = (List.replicate (m * sumC f g) none).toArray := by
      simp
    rw [hrep, this, h3]


theorem assignIdxFrom_getElem (i : Nat) (l : Geometry) (k : Nat) :
    (assignIdxFrom i l)[k]? = l[k]?.map fun d => { d with idx := i + k } := by
  induction l generalizing i k with
  | nil => simp [assignIdxFrom]
  | cons d ds ih =>
    cases k with
    | zero => simp [assignIdxFrom]
    | succ k => simp [assignIdxFrom, ih]; congr 1; funext d; simp; omega

theorem restrict_getElem (g : Geometry) (k : Nat) :
    (restrict g)[k]? = (devices g)[k]?.map fun d => { d with idx := k } := by
  unfold restrict assignIdx; rw [assignIdxFrom_getElem]; simp

theorem assignIdxFrom_append (i : Nat) (a b : Geometry) :
    assignIdxFrom i (a ++ b) = assignIdxFrom i a ++ assignIdxFrom (i + a.length) b := by
  induction a generalizing i with
  | nil => simp [assignIdxFrom]
  | cons d ds ih => simp [assignIdxFrom, ih]; congr 1; omega

theorem devices_append (a b : Geometry) : devices (a ++ b) = devices a ++ devices b := by
  simp [devices]

/-- the `k`-th enabled device splits the geometry -/
theorem devices_getElem_split (g : Geometry) (k : Nat) (d : Dev) (h : (devices g)[k]? = some d) :
    ∃ pre suf, g = pre ++ d :: suf ∧ (devices pre).length = k ∧ d.enable = true := by
  induction g generalizing k with
  | nil => simp [devices] at h
  | cons x xs ih =>
    cases hx : x.enable
    · rw [devices_cons_disabled x xs hx] at h
      obtain ⟨pre, suf, h1, h2, h3⟩ := ih k h
      exact ⟨x :: pre, suf, by simp [h1], by rw [devices_cons_disabled x pre hx]; exact h2, h3⟩
    · rw [devices_cons_enabled x xs hx] at h
      cases k with
      | zero => simp at h; subst h; exact ⟨[], xs, rfl, rfl, hx⟩
      | succ k =>
        simp at h
        obtain ⟨pre, suf, h1, h2, h3⟩ := ih k h
        exact ⟨x :: pre, suf, by simp [h1], by rw [devices_cons_enabled x pre hx]; simp [h2], h3⟩

/-- the filter map seen from the geometry of the enabled devices: entry `k` is the entry of the `k`-th enabled device -/
def remap (g : Geometry) (f : Filter) : Filter :=
  f.map fun m => fun k => match (devices g)[k]? with
    | some d => m d.idx
    | none => none

theorem passingL_remap (g : Geometry) (f : Filter) (k : Nat) (d : Dev) (h : (devices g)[k]? = some d) :
    passingL (remap g f) { d with idx := k } = passingL f d := by
  cases f with
  | none => rfl
  | some m => simp [passingL, remap, h]

theorem colCount_remap (g : Geometry) (f : Filter) (k : Nat) (d : Dev) (h : (devices g)[k]? = some d) :
    colCount (remap g f) { d with idx := k } = colCount f d := by
  cases f with
  | none => rfl
  | some m => simp [colCount, remap, h]

theorem sumC_devices (f : Filter) (l : Geometry) : sumC f (devices l) = sumC f l := by
  induction l with
  | nil => rfl
  | cons d ds ih =>
    cases hd : d.enable
    · rw [devices_cons_disabled d ds hd]; simp [sumC, colCount_disabled f d hd, ih]
    · rw [devices_cons_enabled d ds hd]; simp [sumC, ih]

theorem sumC_remap_aux (g : Geometry) (f : Filter) (l : Geometry) (i : Nat)
    (h : ∀ j x, l[j]? = some x → (devices g)[i + j]? = some x) :
    sumC (remap g f) (assignIdxFrom i l) = sumC f l := by
  induction l generalizing i with
  | nil => rfl
  | cons d ds ih =>
    have h0 := h 0 d (by simp)
    have := ih (i + 1) (fun j x hx => by have := h (j + 1) x (by simpa using hx); rwa [show i + 1 + j = i + (j + 1) by omega])
    simp only [assignIdxFrom, sumC, this, colCount_remap g f i d (by simpa using h0)]

theorem sumC_restrict (g : Geometry) (f : Filter) : sumC (remap g f) (restrict g) = sumC f g := by
  unfold restrict assignIdx
  rw [sumC_remap_aux g f (devices g) 0 (fun j x hx => by simpa using hx), sumC_devices]

theorem filterWF_restrict (g : Geometry) (f : Filter) (hf : FilterWF f g) : FilterWF (remap g f) (restrict g) := by
  intro d' hd' _ m' bits hm' hb
  obtain ⟨k, hk⟩ := List.getElem?_of_mem hd'
  rw [restrict_getElem] at hk
  cases hdk : (devices g)[k]? with
  | none => simp [hdk] at hk
  | some d =>
    simp [hdk] at hk; subst hk
    cases f with
    | none => simp [remap] at hm'
    | some m =>
      simp [remap] at hm'; subst hm'
      simp only [hdk] at hb
      have hmem : d ∈ devices g := List.mem_of_getElem? hdk
      exact filterWF_devices (some m) g hf d hmem m bits rfl hb

theorem holo_restrict_aux (f : Filter) (g : Geometry) (hwf : WF g) (hf : FilterWF f g)
    (k : Nat) (d : Dev) (hk : (devices g)[k]? = some d) (j t : Nat) (hj : (passingL f d)[j]? = some t) :
    readIndex (remap g f) (restrict g) (totalCols (remap g f) (restrict g)) { d with idx := k } t =
      readIndex f g (totalCols f g) d t := by
  obtain ⟨pre, suf, hg, hlen, he⟩ := devices_getElem_split g k d hk
  subst hg
  rw [columns_match_aux f pre d suf hwf hf he j t hj]
  -- the restricted geometry splits at the same device
  have hr : restrict (pre ++ d :: suf) =
      assignIdxFrom 0 (devices pre) ++ { d with idx := k } :: assignIdxFrom (k + 1) (devices suf) := by
    unfold restrict assignIdx
    rw [devices_append, devices_cons_enabled d suf he, assignIdxFrom_append]
    simp [assignIdxFrom, hlen]
  have hwf' : WF (restrict (pre ++ d :: suf)) := restrict_wf _
  have hf' := filterWF_restrict (pre ++ d :: suf) f hf
  have hj' : (passingL (remap (pre ++ d :: suf) f) { d with idx := k })[j]? = some t := by
    rw [passingL_remap _ f k d hk]; exact hj
  rw [hr] at hwf' hf' ⊢
  rw [columns_match_aux (remap (pre ++ d :: suf) f) _ { d with idx := k } _ hwf' hf' he j t hj']
  have hs : sumC (remap (pre ++ d :: suf) f) (assignIdxFrom 0 (devices pre)) = sumC f pre := by
    rw [sumC_remap_aux (pre ++ d :: suf) f (devices pre) 0, sumC_devices]
    intro j x hx
    rw [devices_append, List.getElem?_append_left (by have := (List.getElem?_eq_some_iff.mp hx).1; omega)]
    simpa using hx
  rw [hs]


theorem wfFrom_getElem (k : Nat) (g : Geometry) (h : WFFrom k g) (i : Nat) (d : Dev) (hd : g[i]? = some d) :
    d.idx = k + i := by
  induction g generalizing k i with
  | nil => simp at hd
  | cons x xs ih =>
    cases i with
    | zero => simp at hd; subst hd; exact h.1
    | succ i => simp at hd; have := ih (k + 1) h.2 i hd; omega

theorem wf_idx_inj (g : Geometry) (h : WF g) (x y : Dev) (hx : x ∈ g) (hy : y ∈ g) (hxy : x.idx = y.idx) : x = y := by
  obtain ⟨i, hi⟩ := List.getElem?_of_mem hx
  obtain ⟨j, hj⟩ := List.getElem?_of_mem hy
  have h1 := wfFrom_getElem 0 g h i x hi
  have h2 := wfFrom_getElem 0 g h j y hj
  have : i = j := by omega
  subst this
  rw [hi] at hj; exact Option.some.inj hj

theorem mem_orderL (f : Filter) (l : List Dev) (i t : Nat) :
    (i, t) ∈ orderL f l ↔ ∃ x ∈ l, x.idx = i ∧ t ∈ passingL f x := by
  unfold orderL
  simp only [List.mem_flatMap, List.mem_map, Prod.mk.injEq]
  constructor
  · rintro ⟨x, hx, t', ht', h1, h2⟩; exact ⟨x, hx, h1, h2 ▸ ht'⟩
  · rintro ⟨x, hx, h1, h2⟩; exact ⟨x, hx, t, h2, h1, rfl⟩

theorem greedy_aux (f : Filter) (g : Geometry) (hwf : WF g) (hf : FilterWF f g) :
    greedyFlags f g = .ok ((devices g).map fun d =>
      (d.idx, (List.range' 0 d.numTr).map fun t => decide (t ∈ passingL f d))) := by
  have ho : order f g = .ok (orderL f (devices g)) := orderOf_ok f _ (filterWF_devices f g hf)
  unfold greedyFlags
  simp only [ho]
  congr 1
  apply List.map_congr_left
  intro d hd
  congr 1
  apply List.map_congr_left
  intro t _
  have hdg : d ∈ g := (List.mem_filter.mp hd).1
  rw [Bool.eq_iff_iff]
  simp only [List.contains_iff_mem, decide_eq_true_eq, mem_orderL]
  constructor
  · rintro ⟨x, hx, h1, h2⟩
    have hxg : x ∈ g := (List.mem_filter.mp hx).1
    have := wf_idx_inj g hwf x d hxg hdg h1
    subst this; exact h2
  · intro h; exact ⟨d, hd, rfl, h⟩


end Autd3.Mask
