import Autd3.Lemmas.RtMod3
/-!
Modulation, part 4: the driver side — `Modulation::pack` for the first and for the following frames,
and what `u8at/u16at/u64at` read from the packed payloads.
-/
open Autd3 Autd3.Fw Autd3.Wire Autd3.Gen.Cpu Autd3.Gen
namespace Autd3.Rt

/-- the control-flag byte of a modulation frame -/
def modFlagByte (first last : Bool) (seg : Nat) (hasTr : Bool) : Nat :=
  (if first then 1 else 0) + (if seg = 1 then 8 else 0) + (if last then 2 + (if hasTr then 4 else 0) else 0)

theorem modFlagByte_lt (first last : Bool) (seg : Nat) (hasTr : Bool) : modFlagByte first last seg hasTr < 256 := by
  unfold modFlagByte; repeat' split
  all_goals omega

theorem modFlagByte_bits (first last : Bool) (seg : Nat) (hseg : seg ≤ 1) (hasTr : Bool) :
    hasFlag (modFlagByte first last seg hasTr) MODULATION_FLAG_BEGIN = first ∧
    hasFlag (modFlagByte first last seg hasTr) MODULATION_FLAG_END = last ∧
    hasFlag (modFlagByte first last seg hasTr) MODULATION_FLAG_UPDATE = (last && hasTr) ∧
    (if modFlagByte first last seg hasTr &&& MODULATION_FLAG_SEGMENT ≠ 0 then 1 else 0) = seg := by
  rcases (show seg = 0 ∨ seg = 1 by omega) with h | h <;> subst h <;>
    cases first <;> cases last <;> cases hasTr <;> decide

def modFirstPayload (b samples : Array Nat) (sendNum flag tm div rep tv : Nat) : Array Nat :=
  put64 (put16 (put16 (put8 (put8 (put8 (put8 (putBytes b 16 samples 0 sendNum) 0 Drv.TAG_Modulation) 1 flag) 2 sendNum)
    3 tm) 4 div) 6 rep) 8 tv

def modNextPayload (b samples : Array Nat) (c sendNum flag : Nat) : Array Nat :=
  put16 (put8 (put8 (putBytes b 4 samples c sendNum) 0 Drv.TAG_Modulation) 1 flag) 2 sendNum

theorem pack_mod_first (seg : Nat) (tr : Tr) (rep div : Nat) (samples : Array Nat) (nt : Nat) (b : Array Nat)
    (hb : b.size = 622) (hn : 2 ≤ samples.size) (hn' : samples.size ≤ 65536) :
    ({ dg := .modulation seg tr rep div samples, sent := 0, done := false } : Op).pack nt b 0 =
      .ok ({ dg := .modulation seg tr rep div samples, sent := min samples.size 254,
             done := decide (samples.size ≤ 254) },
        modFirstPayload b samples (min samples.size 254)
          (modFlagByte true (decide (samples.size ≤ 254)) seg tr.isSome) (trMode tr) div rep (trValue tr),
        16 + ((min samples.size 254 + 1) / 2) * 2) := by
  unfold Op.pack modFirstPayload
  have h0 : ¬ (samples.size < Drv.MOD_BUF_SIZE_MIN ∨ samples.size > Drv.MOD_BUF_SIZE_MAX) := by
    simp only [Drv.MOD_BUF_SIZE_MIN, Drv.MOD_BUF_SIZE_MAX]; omega
  simp only [hb, DrvLayout.ModulationHead_size, Nat.sub_zero, Nat.zero_add, if_true, h0, if_false]
  have h1 : min (622 - 16) 254 = 254 := by decide
  rw [h1]
  by_cases hl : samples.size ≤ 254
  · have e : samples.size = min samples.size 254 := by omega
    simp only [← e, hl, decide_true, if_true, Bool.false_or]
    by_cases hs : seg = 1 <;> cases tr <;>
      simp [hs, modFlagByte, Drv.ModulationControlFlags_BEGIN, Drv.ModulationControlFlags_SEGMENT,
        Drv.ModulationControlFlags_NONE, Drv.ModulationControlFlags_END, Drv.ModulationControlFlags_TRANSITION,
        DrvLayout.ModulationHead_tag_off, DrvLayout.ModulationHead_flag_off, DrvLayout.ModulationHead_size_off,
        DrvLayout.ModulationHead_transition_mode_off, DrvLayout.ModulationHead_freq_div_off,
        DrvLayout.ModulationHead_rep_off, DrvLayout.ModulationHead_transition_value_off]
  · have e : ¬ samples.size = min samples.size 254 := by omega
    simp only [e, hl, decide_false, if_false, Bool.false_or]
    by_cases hs : seg = 1 <;>
      simp [hs, modFlagByte, Drv.ModulationControlFlags_BEGIN, Drv.ModulationControlFlags_SEGMENT,
        Drv.ModulationControlFlags_NONE,
        DrvLayout.ModulationHead_tag_off, DrvLayout.ModulationHead_flag_off, DrvLayout.ModulationHead_size_off,
        DrvLayout.ModulationHead_transition_mode_off, DrvLayout.ModulationHead_freq_div_off,
        DrvLayout.ModulationHead_rep_off, DrvLayout.ModulationHead_transition_value_off]

theorem pack_mod_next (seg : Nat) (tr : Tr) (rep div : Nat) (samples : Array Nat) (nt : Nat) (b : Array Nat) (c : Nat)
    (hb : b.size = 622) (hc0 : 0 < c) (hcn : c < samples.size) (hn : samples.size ≤ 65536) (hn2 : 2 ≤ samples.size) :
    ({ dg := .modulation seg tr rep div samples, sent := c, done := false } : Op).pack nt b 0 =
      .ok ({ dg := .modulation seg tr rep div samples, sent := c + min (samples.size - c) 618,
             done := decide (samples.size - c ≤ 618) },
        modNextPayload b samples c (min (samples.size - c) 618)
          (modFlagByte false (decide (samples.size - c ≤ 618)) seg tr.isSome),
        4 + ((min (samples.size - c) 618 + 1) / 2) * 2) := by
  unfold Op.pack modNextPayload
  have hc' : ¬ c = 0 := by omega
  have h0 : ¬ (samples.size < Drv.MOD_BUF_SIZE_MIN ∨ samples.size > Drv.MOD_BUF_SIZE_MAX) := by
    simp only [Drv.MOD_BUF_SIZE_MIN, Drv.MOD_BUF_SIZE_MAX]; omega
  simp only [hb, DrvLayout.ModulationSubseq_size, Nat.sub_zero, Nat.zero_add, hc', if_false, h0]
  have h1 : 622 - 4 = 618 := by decide
  rw [h1]
  by_cases hl : samples.size - c ≤ 618
  · have e : samples.size = c + min (samples.size - c) 618 := by omega
    simp only [← e, hl, decide_true, if_true, Bool.false_or]
    by_cases hs : seg = 1 <;> cases tr <;>
      simp [hs, modFlagByte, Drv.ModulationControlFlags_SEGMENT,
        Drv.ModulationControlFlags_NONE, Drv.ModulationControlFlags_END, Drv.ModulationControlFlags_TRANSITION,
        DrvLayout.ModulationSubseq_tag_off, DrvLayout.ModulationSubseq_flag_off, DrvLayout.ModulationSubseq_size_off]
  · have e : ¬ samples.size = c + min (samples.size - c) 618 := by omega
    simp only [e, hl, decide_false, if_false, Bool.false_or]
    by_cases hs : seg = 1 <;>
      simp [hs, modFlagByte, Drv.ModulationControlFlags_SEGMENT, Drv.ModulationControlFlags_NONE,
        DrvLayout.ModulationSubseq_tag_off, DrvLayout.ModulationSubseq_flag_off, DrvLayout.ModulationSubseq_size_off]

theorem modFirst_payload (b samples : Array Nat) (sn flag tm div rep tv : Nat) (hb : b.size = 622) (hsn : sn ≤ 254)
    (hf : flag < 256) :
    let d := modFirstPayload b samples sn flag tm div rep tv
    u8at d 0 = 16 ∧ u8at d 1 = flag ∧ u8at d 2 = sn ∧ u8at d 3 = tm % 256 ∧ u16at d 4 = div % 65536 ∧
      u16at d 6 = rep % 65536 ∧ u64at d 8 = tv % 18446744073709551616 ∧
      (∀ k, k < sn → u8at d (16 + k) = rd samples k % 256) ∧ d.size = 622 := by
  simp only [modFirstPayload]
  refine ⟨?_, ?_, ?_, ?_, ?_, ?_, ?_, ?_, by simpa using hb⟩
  · rw [u8at_put64_other _ _ _ _ (by omega), u8at_put16, if_neg (by omega), if_neg (by omega), u8at_put16,
      if_neg (by omega), if_neg (by omega), u8at_put8, if_neg (by omega), u8at_put8, if_neg (by omega),
      u8at_put8, if_neg (by omega), u8at_put8, if_pos ⟨rfl, by simp; omega⟩]; rfl
  · rw [u8at_put64_other _ _ _ _ (by omega), u8at_put16, if_neg (by omega), if_neg (by omega), u8at_put16,
      if_neg (by omega), if_neg (by omega), u8at_put8, if_neg (by omega), u8at_put8, if_neg (by omega),
      u8at_put8, if_pos ⟨rfl, by simp; omega⟩]; omega
  · rw [u8at_put64_other _ _ _ _ (by omega), u8at_put16, if_neg (by omega), if_neg (by omega), u8at_put16,
      if_neg (by omega), if_neg (by omega), u8at_put8, if_neg (by omega), u8at_put8, if_pos ⟨rfl, by simp; omega⟩]; omega
  · rw [u8at_put64_other _ _ _ _ (by omega), u8at_put16, if_neg (by omega), if_neg (by omega), u8at_put16,
      if_neg (by omega), if_neg (by omega), u8at_put8, if_pos ⟨rfl, by simp; omega⟩]
  · rw [u16at_put64_other _ _ _ _ (by omega), u16at_put16_other _ _ _ _ (by omega), u16at_put16_same _ _ _ (by simp; omega)]
  · rw [u16at_put64_other _ _ _ _ (by omega), u16at_put16_same _ _ _ (by simp; omega)]
  · rw [u64at_put64_same _ _ _ (by simp; omega)]
  · intro k hk
    rw [u8at_put64_other _ _ _ _ (by omega), u8at_put16, if_neg (by omega), if_neg (by omega), u8at_put16,
      if_neg (by omega), if_neg (by omega), u8at_put8, if_neg (by omega), u8at_put8, if_neg (by omega),
      u8at_put8, if_neg (by omega), u8at_put8, if_neg (by omega), u8at_putBytes, if_pos (by omega), Nat.zero_add,
      show 16 + k - 16 = k from by omega]

theorem modNext_payload (b samples : Array Nat) (c sn flag : Nat) (hb : b.size = 622) (hsn : sn ≤ 618)
    (hf : flag < 256) :
    let d := modNextPayload b samples c sn flag
    u8at d 0 = 16 ∧ u8at d 1 = flag ∧ u16at d 2 = sn ∧
      (∀ k, k < sn → u8at d (4 + k) = rd samples (c + k) % 256) ∧ d.size = 622 := by
  simp only [modNextPayload]
  refine ⟨?_, ?_, ?_, ?_, by simpa using hb⟩
  · rw [u8at_put16, if_neg (by omega), if_neg (by omega), u8at_put8, if_neg (by omega), u8at_put8,
      if_pos ⟨rfl, by simp; omega⟩]; rfl
  · rw [u8at_put16, if_neg (by omega), if_neg (by omega), u8at_put8, if_pos ⟨rfl, by simp; omega⟩]; omega
  · rw [u16at_put16_same _ _ _ (by simp; omega)]; omega
  · intro k hk
    rw [u8at_put16, if_neg (by omega), if_neg (by omega), u8at_put8, if_neg (by omega), u8at_put8, if_neg (by omega),
      u8at_putBytes, if_pos (by omega), show 4 + k - 4 = k from by omega]

end Autd3.Rt
