import Autd3.Lemmas.Rt2FootH
import Autd3.Lemmas.WireNext
/-!
Footprints, part 3: from one handler call to one `ecat_recv` to the whole send loop of a datagram.
-/
open Autd3 Autd3.Fw Autd3.Wire Autd3.Gen.Cpu Autd3.Gen
namespace Autd3.Rt

/-- additionally forget the per-frame CPU bookkeeping (`ack`, `last_msg_id`, `rx_data`) -/
def eraseIO (s : State) : State := { s with ack := 0, lastMsgId := 0, rxData := 0 }
def eraseSI (s : State) : State := eraseIO (eraseS s)
def eraseMI (s : State) : State := eraseIO (eraseM s)

theorem ErCtl_SI : ErCtl eraseSI := fun _ _ => rfl
theorem ErCtl_MI : ErCtl eraseMI := fun _ _ => rfl

theorem Foot.toSI {T : Nat → Prop} {a b : State} (h : Foot eraseS T a b) : Foot eraseSI T a b :=
  ⟨congrArg eraseIO h.eq, h.ctlsz, h.regs⟩
theorem Foot.toMI {T : Nat → Prop} {a b : State} (h : Foot eraseM T a b) : Foot eraseMI T a b :=
  ⟨congrArg eraseIO h.eq, h.ctlsz, h.regs⟩

/-- `ecat_recv` on a frame without a second slot, in one expression -/
theorem ecatRecv_slot1_eq (s : State) (frame : Array Nat) (hslot : u16at frame DrvLayout.Header_slot_2_offset_off = 0) :
    ecatRecv s frame =
      (if s.lastMsgId = u8at frame DrvLayout.Header_msg_id_off then (pure s : M State) else
       if u8at frame DrvLayout.Header_msg_id_off &&& 0x80 ≠ 0 then
         pure { pre s (u8at frame DrvLayout.Header_msg_id_off) with ack := ERR_INVALID_MSG_ID } else
       handlePayload (pre s (u8at frame DrvLayout.Header_msg_id_off)) (frame.extract DrvLayout.Header_size frame.size) >>= fun x =>
         if x.2 &&& ERR_BIT ≠ 0 then pure { x.1 with ack := x.2 } else
         (ctlWrite { x.1 with ack := x.2 } ADDR_CTL_FLAG x.1.flagsInternal >>= fun s2 =>
           pure { s2 with ack := u8at frame DrvLayout.Header_msg_id_off })) := by
  unfold ecatRecv pre
  simp only [hslot]
  rfl

/-- one single-slot frame: if the handler it dispatches to has footprint `(er, T)` (for the state it is
called on) then so has `ecat_recv`, up to the per-frame bookkeeping -/
theorem ecatRecv_foot {er : State → State} {T : Nat → Prop} (he : ErCtl er)
    (hio : ∀ (s : State) (a l r : Nat), er { s with ack := a, lastMsgId := l, rxData := r } = er s)
    (s s' : State) (frame : Array Nat) (hslot : u16at frame DrvLayout.Header_slot_2_offset_off = 0) (hT0 : T 0)
    (hH : ∀ sP, er sP = er s → sP.ctl = s.ctl →
      Leaves (Foot er T) sP (handlePayload sP (frame.extract DrvLayout.Header_size frame.size)))
    (h : ecatRecv s frame = .ok s') : Foot er T s s' := by
  rw [ecatRecv_slot1_eq s frame hslot] at h
  generalize u8at frame DrvLayout.Header_msg_id_off = id at h
  obtain ⟨r, hr⟩ := pre_eq s id
  have hpre : Foot er T s (pre s id) := by
    rw [hr]
    exact ⟨by have := hio s s.ack id r; exact this, rfl, fun _ _ => rfl⟩
  by_cases h1 : s.lastMsgId = id
  · rw [if_pos h1] at h; cases h; exact Foot.refl _ _ _
  rw [if_neg h1] at h
  by_cases h2 : id &&& 0x80 ≠ 0
  · rw [if_pos h2] at h; cases h
    exact Foot.tweak hpre (hio (pre s id) _ (pre s id).lastMsgId (pre s id).rxData) rfl
  rw [if_neg h2] at h
  obtain ⟨x, hx, h⟩ := bind_ok_inv h
  have hx' : Foot er T (pre s id) x.1 := hH (pre s id) hpre.eq (by rw [hr]) x.1 x.2 hx
  have hx2 : Foot er T s x.1 := hpre.trans hx'
  by_cases h3 : x.2 &&& ERR_BIT ≠ 0
  · rw [if_pos h3] at h; cases h
    exact Foot.tweak hx2 (hio x.1 _ x.1.lastMsgId x.1.rxData) rfl
  rw [if_neg h3, ctlWrite_main _ _ _ (by decide)] at h
  cases h
  have h4 : Foot er T s { x.1 with ack := x.2 } := Foot.tweak hx2 (hio x.1 _ x.1.lastMsgId x.1.rxData) rfl
  have h5 := Foot.reg1 he h4 ADDR_CTL_FLAG x.1.flagsInternal hT0
  exact Foot.tweak h5 (hio _ _ _ _) rfl

/-! ### what `pack` (slot 1) puts at the front of the payload, for any progress state of the operation -/

macro "lay_simp" : tactic =>
  `(tactic| simp [DrvLayout.ModulationHead_tag_off, DrvLayout.ModulationHead_flag_off, DrvLayout.ModulationHead_size_off,
      DrvLayout.ModulationHead_transition_mode_off, DrvLayout.ModulationHead_freq_div_off, DrvLayout.ModulationHead_rep_off,
      DrvLayout.ModulationHead_transition_value_off, DrvLayout.ModulationSubseq_tag_off, DrvLayout.ModulationSubseq_flag_off,
      DrvLayout.ModulationSubseq_size_off, DrvLayout.Gain_tag_off, DrvLayout.Gain_segment_off, DrvLayout.Gain_flag_off,
      DrvLayout.Gain_size, DrvLayout.FociSTMHead_size, DrvLayout.FociSTMHead_tag_off, DrvLayout.FociSTMHead_flag_off,
      DrvLayout.FociSTMHead_send_num_off, DrvLayout.FociSTMHead_segment_off, DrvLayout.FociSTMHead_transition_mode_off,
      DrvLayout.FociSTMHead_num_foci_off, DrvLayout.FociSTMHead_sound_speed_off, DrvLayout.FociSTMHead_freq_div_off,
      DrvLayout.FociSTMHead_rep_off, DrvLayout.FociSTMHead_transition_value_off, DrvLayout.FociSTMSubseq_tag_off,
      DrvLayout.FociSTMSubseq_flag_off, DrvLayout.FociSTMSubseq_send_num_off, DrvLayout.FociSTMSubseq_segment_off,
      DrvLayout.GainSTMHead_tag_off, DrvLayout.GainSTMHead_flag_off, DrvLayout.GainSTMHead_mode_off,
      DrvLayout.GainSTMHead_transition_mode_off, DrvLayout.GainSTMHead_freq_div_off, DrvLayout.GainSTMHead_rep_off,
      DrvLayout.GainSTMHead_transition_value_off, DrvLayout.GainSTMSubseq_tag_off, DrvLayout.GainSTMSubseq_flag_off])

theorem pack_tag_mod (seg : Nat) (tr : Tr) (rep div : Nat) (samples : Array Nat) (sent : Nat) (done : Bool) (n : Nat)
    (b : Array Nat) (o' : Op) (b' : Array Nat) (sz : Nat) (hb : 0 < b.size)
    (h : ({ dg := .modulation seg tr rep div samples, sent := sent, done := done } : Op).pack n b 0 = .ok (o', b', sz)) :
    u8at b' 0 = 16 ∧ b'.size = b.size ∧ o'.dg = .modulation seg tr rep div samples := by
  have hsz := (pack_keeps h).1
  refine ⟨?_, hsz, ?_⟩
  all_goals
    unfold Op.pack at h
    simp only [] at h
    split at h
    · exact nomatch h
    split at h
  all_goals simp only [Except.ok.injEq, Prod.mk.injEq] at h
  all_goals obtain ⟨ho, hb', _⟩ := h
  all_goals subst hb' ho
  · simp only [size_put64, size_put16, size_put8] at hsz
    rw [u8at_put64_other _ _ _ _ (by lay_simp), u8at_put16, if_neg (by lay_simp), if_neg (by lay_simp),
      u8at_put16, if_neg (by lay_simp), if_neg (by lay_simp), u8at_put8, if_neg (by lay_simp), u8at_put8,
      if_neg (by lay_simp), u8at_put8, if_neg (by lay_simp), u8at_put8,
      if_pos ⟨rfl, by rw [hsz]; simpa [DrvLayout.ModulationHead_tag_off] using hb⟩]
    rfl
  · simp only [size_put64, size_put16, size_put8] at hsz
    rw [u8at_put16, if_neg (by lay_simp), if_neg (by lay_simp), u8at_put8, if_neg (by lay_simp), u8at_put8,
      if_pos ⟨rfl, by rw [hsz]; simpa [DrvLayout.ModulationSubseq_tag_off] using hb⟩]
    rfl
  · rfl
  · rfl

theorem pack_tag_gain (seg : Nat) (tr : Tr) (drives : Array Nat) (sent : Nat) (done : Bool) (n : Nat)
    (b : Array Nat) (o' : Op) (b' : Array Nat) (sz : Nat) (hb : 4 ≤ b.size)
    (h : ({ dg := .gain seg tr drives, sent := sent, done := done } : Op).pack n b 0 = .ok (o', b', sz)) :
    u8at b' 0 = 48 ∧ b'.size = b.size ∧ o'.dg = .gain seg tr drives := by
  have hsz := (pack_keeps h).1
  refine ⟨?_, hsz, ?_⟩
  all_goals
    unfold Op.pack at h
    simp only [] at h
    split at h
    · split at h
      · exact nomatch h
      simp only [Except.ok.injEq, Prod.mk.injEq] at h
      obtain ⟨ho, hb', _⟩ := h
      subst hb' ho
      first
        | rfl
        | (rw [u8at_putWords, if_neg (by lay_simp), u8at_put8, if_neg (by lay_simp), u8at_put8, if_neg (by lay_simp),
            u8at_put8, if_neg (by lay_simp), u8at_put8, if_pos ⟨rfl, by simp only [DrvLayout.Gain_tag_off]; omega⟩]; rfl)
    · simp only [Except.ok.injEq, Prod.mk.injEq] at h
      obtain ⟨ho, hb', _⟩ := h
      subst hb' ho
      first
        | rfl
        | (rw [u8at_putWords, if_neg (by lay_simp), u8at_put8, if_neg (by lay_simp), u8at_put8, if_neg (by lay_simp),
            u8at_put8, if_neg (by lay_simp), u8at_put8, if_pos ⟨rfl, by simp only [DrvLayout.Gain_tag_off]; omega⟩]; rfl)

theorem pack_tag_foci (nf seg : Nat) (tr : Tr) (rep div ss : Nat) (records : Array Nat) (sent : Nat) (done : Bool) (n : Nat)
    (b : Array Nat) (o' : Op) (b' : Array Nat) (sz : Nat) (hb : 24 ≤ b.size)
    (h : ({ dg := .fociStm nf seg tr rep div ss records, sent := sent, done := done } : Op).pack n b 0 = .ok (o', b', sz)) :
    u8at b' 0 = 66 ∧ u8at b' 3 = seg % 256 ∧ b'.size = b.size ∧ o'.dg = .fociStm nf seg tr rep div ss records := by
  have hsz := (pack_keeps h).1
  refine ⟨?_, ?_, hsz, ?_⟩
  all_goals
    unfold Op.pack at h
    simp only [] at h
    split at h
    · exact nomatch h
    split at h
    · exact nomatch h
    split at h
  all_goals simp only [Except.ok.injEq, Prod.mk.injEq] at h
  all_goals obtain ⟨ho, hb', _⟩ := h
  all_goals subst hb' ho
  · simp only [size_put64, size_put16, size_put8, size_putZeros] at hsz
    rw [u8at_put64_other _ _ _ _ (by lay_simp), u8at_put16, if_neg (by lay_simp), if_neg (by lay_simp),
      u8at_put16, if_neg (by lay_simp), if_neg (by lay_simp), u8at_put16, if_neg (by lay_simp), if_neg (by lay_simp),
      u8at_put8, if_neg (by lay_simp), u8at_put8, if_neg (by lay_simp), u8at_put8, if_neg (by lay_simp), u8at_put8,
      if_neg (by lay_simp), u8at_put8, if_neg (by lay_simp), u8at_put8,
      if_pos ⟨rfl, by simp only [size_putZeros, hsz, DrvLayout.FociSTMHead_tag_off]; omega⟩]
    rfl
  · simp only [size_put64, size_put16, size_put8, size_putZeros] at hsz
    rw [u8at_put8, if_neg (by lay_simp), u8at_put8, if_neg (by lay_simp), u8at_put8, if_neg (by lay_simp), u8at_put8,
      if_pos ⟨rfl, by simp only [hsz, DrvLayout.FociSTMSubseq_tag_off]; omega⟩]
    rfl
  · simp only [size_put64, size_put16, size_put8, size_putZeros] at hsz
    rw [u8at_put64_other _ _ _ _ (by lay_simp), u8at_put16, if_neg (by lay_simp), if_neg (by lay_simp),
      u8at_put16, if_neg (by lay_simp), if_neg (by lay_simp), u8at_put16, if_neg (by lay_simp), if_neg (by lay_simp),
      u8at_put8, if_neg (by lay_simp), u8at_put8, if_neg (by lay_simp), u8at_put8,
      if_pos ⟨rfl, by simp only [size_put8, size_putZeros, hsz, DrvLayout.FociSTMHead_segment_off]; omega⟩]
  · simp only [size_put64, size_put16, size_put8, size_putZeros] at hsz
    rw [u8at_put8, if_pos ⟨rfl, by simp only [size_put8, hsz, DrvLayout.FociSTMSubseq_segment_off]; omega⟩]
  · rfl
  · rfl

theorem pack_tag_gstm (mode seg : Nat) (tr : Tr) (rep div : Nat) (patterns : Array (Array Nat)) (sent : Nat) (done : Bool)
    (n : Nat) (b : Array Nat) (o' : Op) (b' : Array Nat) (sz : Nat) (hb : 0 < b.size)
    (h : ({ dg := .gainStm mode seg tr rep div patterns, sent := sent, done := done } : Op).pack n b 0 = .ok (o', b', sz)) :
    u8at b' 0 = 65 ∧ b'.size = b.size ∧ o'.dg = .gainStm mode seg tr rep div patterns := by
  have hsz := (pack_keeps h).1
  unfold Op.pack at h
  simp only [] at h
  by_cases hs : patterns.size < Drv.STM_BUF_SIZE_MIN ∨ patterns.size > Drv.GAIN_STM_BUF_SIZE_MAX
  · rw [if_pos hs] at h; exact nomatch h
  rw [if_neg hs] at h
  by_cases h0 : sent = 0
  · simp only [h0, if_true] at h
    simp only [Except.ok.injEq, Prod.mk.injEq] at h
    obtain ⟨ho, hb', _⟩ := h
    subst hb' ho
    refine ⟨?_, hsz, rfl⟩
    simp only [size_put64, size_put16, size_put8] at hsz
    rw [u8at_put64_other _ _ _ _ (by lay_simp), u8at_put16, if_neg (by lay_simp), if_neg (by lay_simp),
      u8at_put16, if_neg (by lay_simp), if_neg (by lay_simp), u8at_put8, if_neg (by lay_simp), u8at_put8,
      if_neg (by lay_simp), u8at_put8, if_neg (by lay_simp), u8at_put8,
      if_pos ⟨rfl, by rw [hsz]; simpa [DrvLayout.GainSTMHead_tag_off] using hb⟩]
    rfl
  · simp only [h0, if_false] at h
    simp only [Except.ok.injEq, Prod.mk.injEq] at h
    obtain ⟨ho, hb', _⟩ := h
    subst hb' ho
    refine ⟨?_, hsz, rfl⟩
    simp only [size_put64, size_put16, size_put8] at hsz
    rw [u8at_put8, if_neg (by lay_simp), u8at_put8,
      if_pos ⟨rfl, by rw [hsz]; simpa [DrvLayout.GainSTMSubseq_tag_off] using hb⟩]
    rfl

/-! ### the send loop -/

/-- generic induction over the frames of one operation: if every frame the operation can pack (property
`HP` of the payload) is handled within the footprint `(er, T)`, the whole send stays within it -/
theorem sendLoop_foot {er : State → State} {T : Nat → Prop} (he : ErCtl er)
    (hio : ∀ (s : State) (a l r : Nat), er { s with ack := a, lastMsgId := l, rxData := r } = er s) (hT0 : T 0)
    (hfl : ∀ a b, Foot er T a b → b.flagsInternal = a.flagsInternal)
    (K : Op → Prop) (HP : Array Nat → Prop)
    (hK : ∀ o n b o' b' sz, K o → b.size = 622 → o.pack n b 0 = .ok (o', b', sz) → K o' ∧ b'.size = 622 ∧ HP b')
    (hH : ∀ sP b', HP b' → sP.ctl.size = 256 → sP.flagsInternal % 256 = 0 → Leaves (Foot er T) sP (handlePayload sP b')) :
    ∀ fuel o s t t' s', K o → TxOK t → s.ctl.size = 256 → s.flagsInternal % 256 = 0 →
      sendLoop fuel o s t = some (t', s') → Foot er T s s' := by
  intro fuel
  induction fuel with
  | zero => intro o s t t' s' _ _ _ _ h; exact nomatch h
  | succ fuel ih =>
    intro o s t t' s' hKo ht hc hfi h
    unfold sendLoop at h
    by_cases hd : o.done = true
    · rw [if_pos hd] at h; cases h; exact Foot.refl _ _ _
    rw [if_neg hd] at h
    cases hp : o.pack s.numTr t.payload 0 with
    | error e =>
      have : packOp o s.numTr t = .error e := by unfold packOp; simp only []; rw [hp]
      rw [this] at h; exact nomatch h
    | ok r =>
      obtain ⟨o1, b1, sz⟩ := r
      have hpk : packOp o s.numTr t = .ok (o1, { msgId := nextId t, slot2 := 0, payload := b1 }, sz) := by
        unfold packOp; simp only []; rw [hp]; rfl
      rw [hpk] at h
      simp only [] at h
      obtain ⟨hK1, hb1, hHP⟩ := hK o s.numTr t.payload o1 b1 sz hKo ht hp
      cases hr : ecatRecv s (Tx.frame { msgId := nextId t, slot2 := 0, payload := b1 }) with
      | error e => rw [hr] at h; exact nomatch h
      | ok s1 =>
        rw [hr] at h
        simp only [] at h
        have hf1 : Foot er T s s1 := by
          refine ecatRecv_foot he hio s s1 _ (by rw [frame_slot2]; rfl) hT0 ?_ hr
          intro sP hes hcs
          rw [frame_extract]
          refine hH sP b1 hHP (by rw [hcs]; exact hc) ?_
          have : sP.flagsInternal = s.flagsInternal := hfl s sP ⟨hes, by rw [hcs], fun a _ => by unfold reg; rw [hcs]⟩
          rw [this]; exact hfi
        split at h
        · exact hf1.trans (ih o1 s1 { msgId := nextId t, slot2 := 0, payload := b1 } t' s' hK1 hb1 (by rw [hf1.ctlsz]; exact hc) (by rw [hfl _ _ hf1]; exact hfi) h)
        · exact nomatch h

theorem hio_SI (s : State) (a l r : Nat) : eraseSI { s with ack := a, lastMsgId := l, rxData := r } = eraseSI s := rfl
theorem hio_MI (s : State) (a l r : Nat) : eraseMI { s with ack := a, lastMsgId := l, rxData := r } = eraseMI s := rfl
theorem Foot.flagsSI {T : Nat → Prop} (a b : State) (h : Foot eraseSI T a b) : b.flagsInternal = a.flagsInternal := by
  have := congrArg State.flagsInternal h.eq; exact this
theorem Foot.flagsMI {T : Nat → Prop} (a b : State) (h : Foot eraseMI T a b) : b.flagsInternal = a.flagsInternal := by
  have := congrArg State.flagsInternal h.eq; exact this

theorem Leaves.toSI {T : Nat → Prop} {s : State} {m : M (State × Nat)} (h : Leaves (Foot eraseS T) s m) :
    Leaves (Foot eraseSI T) s m := fun s' a e => (h s' a e).toSI
theorem Leaves.toMI {T : Nat → Prop} {s : State} {m : M (State × Nat)} (h : Leaves (Foot eraseM T) s m) :
    Leaves (Foot eraseMI T) s m := fun s' a e => (h s' a e).toMI

/-- a whole Modulation send touches modulation-side state only -/
theorem mod_send_foot (seg : Nat) (tr : Tr) (rep div : Nat) (samples : Array Nat) (s : State) (t t' : Tx) (s' : State)
    (hc : s.ctl.size = 256) (hfi : s.flagsInternal % 256 = 0) (ht : TxOK t)
    (h : Sends (.modulation seg tr rep div samples) s t t' s') : Foot eraseMI TM s s' := by
  obtain ⟨fuel, h⟩ := h
  refine sendLoop_foot ErCtl_MI hio_MI (Or.inl rfl) Foot.flagsMI (fun o => o.dg = .modulation seg tr rep div samples)
    (fun b => u8at b 0 = 16) ?_ ?_ fuel _ s t t' s' rfl ht hc hfi h
  · intro o n b o' b' sz hK hb hp
    obtain ⟨dg, sent, done⟩ := o
    simp only at hK; subst hK
    obtain ⟨h1, h2, h3⟩ := pack_tag_mod seg tr rep div samples sent done n b o' b' sz (by omega) hp
    exact ⟨h3, by rw [h2, hb], h1⟩
  · intro sP b' hHP hcP hfP
    rw [dispatch_mod _ _ hHP]
    exact (writeMod_foot sP b' hcP hfP).toMI

theorem dispatch_gain (s : State) (d : Array Nat) (h : u8at d 0 = 48) : handlePayload s d = writeGain s d := by
  unfold handlePayload; rw [h]; rfl

/-- a whole Gain send touches STM-side state only, and none of the focus-only registers -/
theorem gain_send_foot (seg : Nat) (tr : Tr) (drives : Array Nat) (s : State) (t t' : Tx) (s' : State)
    (hc : s.ctl.size = 256) (hfi : s.flagsInternal % 256 = 0) (ht : TxOK t)
    (h : Sends (.gain seg tr drives) s t t' s') : Foot eraseSI TG s s' := by
  obtain ⟨fuel, h⟩ := h
  refine sendLoop_foot ErCtl_SI hio_SI (Or.inl rfl) Foot.flagsSI (fun o => o.dg = .gain seg tr drives)
    (fun b => u8at b 0 = 48) ?_ ?_ fuel _ s t t' s' rfl ht hc hfi h
  · intro o n b o' b' sz hK hb hp
    obtain ⟨dg, sent, done⟩ := o
    simp only at hK; subst hK
    obtain ⟨h1, h2, h3⟩ := pack_tag_gain seg tr drives sent done n b o' b' sz (by omega) hp
    exact ⟨h3, by rw [h2, hb], h1⟩
  · intro sP b' hHP hcP hfP
    rw [dispatch_gain _ _ hHP]
    exact (writeGain_foot sP b' hcP hfP).toSI

/-- a whole FociSTM send touches STM-side state only; of the focus-only registers only its own segment's -/
theorem foci_send_foot (nf seg : Nat) (hseg : seg ≤ 1) (tr : Tr) (rep div ss : Nat) (records : Array Nat) (s : State)
    (t t' : Tx) (s' : State) (hc : s.ctl.size = 256) (hfi : s.flagsInternal % 256 = 0) (ht : TxOK t)
    (h : Sends (.fociStm nf seg tr rep div ss records) s t t' s') : Foot eraseSI (TF seg) s s' := by
  obtain ⟨fuel, h⟩ := h
  refine sendLoop_foot ErCtl_SI hio_SI (Or.inl (Or.inl rfl)) Foot.flagsSI
    (fun o => o.dg = .fociStm nf seg tr rep div ss records)
    (fun b => u8at b 0 = 66 ∧ u8at b 3 = seg) ?_ ?_ fuel _ s t t' s' rfl ht hc hfi h
  · intro o n b o' b' sz hK hb hp
    obtain ⟨dg, sent, done⟩ := o
    simp only at hK; subst hK
    obtain ⟨h1, h1', h2, h3⟩ := pack_tag_foci nf seg tr rep div ss records sent done n b o' b' sz (by omega) hp
    exact ⟨h3, by rw [h2, hb], h1, by rw [h1']; omega⟩
  · intro sP b' hHP hcP hfP
    rw [dispatch_foci _ _ hHP.1]
    have := (writeFociStm_foot sP b' hcP hfP).toSI
    have e : u8at b' FwLayout.FociSTMSubseq_segment_off = seg := hHP.2
    rw [e] at this; exact this

/-- a whole GainSTM send touches STM-side state only, and none of the focus-only registers -/
theorem gstm_send_foot (mode seg : Nat) (tr : Tr) (rep div : Nat) (patterns : Array (Array Nat)) (s : State)
    (t t' : Tx) (s' : State) (hc : s.ctl.size = 256) (hfi : s.flagsInternal % 256 = 0) (ht : TxOK t)
    (h : Sends (.gainStm mode seg tr rep div patterns) s t t' s') : Foot eraseSI TG s s' := by
  obtain ⟨fuel, h⟩ := h
  refine sendLoop_foot ErCtl_SI hio_SI (Or.inl rfl) Foot.flagsSI (fun o => o.dg = .gainStm mode seg tr rep div patterns)
    (fun b => u8at b 0 = 65) ?_ ?_ fuel _ s t t' s' rfl ht hc hfi h
  · intro o n b o' b' sz hK hb hp
    obtain ⟨dg, sent, done⟩ := o
    simp only at hK; subst hK
    obtain ⟨h1, h2, h3⟩ := pack_tag_gstm mode seg tr rep div patterns sent done n b o' b' sz (by omega) hp
    exact ⟨h3, by rw [h2, hb], h1⟩
  · intro sP b' hHP hcP hfP
    rw [dispatch_gstm _ _ hHP]
    exact (writeGainStm_foot sP b' hcP hfP).toSI

/-! ### a send has one outcome -/

theorem sendLoop_mono : ∀ fuel k o s t r, sendLoop fuel o s t = some r → sendLoop (fuel + k) o s t = some r := by
  intro fuel
  induction fuel with
  | zero => intro k o s t r h; exact nomatch h
  | succ fuel ih =>
    intro k o s t r h
    rw [show fuel + 1 + k = (fuel + k) + 1 from by omega]
    unfold sendLoop at h ⊢
    by_cases hd : o.done = true
    · rw [if_pos hd] at h ⊢; exact h
    rw [if_neg hd] at h ⊢
    cases hp : packOp o s.numTr t with
    | error e => rw [hp] at h; exact nomatch h
    | ok r1 =>
      obtain ⟨o', t', sz⟩ := r1
      rw [hp] at h
      simp only [] at h ⊢
      cases hr : ecatRecv s t'.frame with
      | error e => rw [hr] at h; exact nomatch h
      | ok s1 =>
        rw [hr] at h
        simp only [] at h ⊢
        by_cases ha : s1.ack = t'.msgId
        · rw [if_pos ha] at h ⊢; exact ih k _ _ _ _ h
        · rw [if_neg ha] at h; exact nomatch h

/-- `Sends` is deterministic: the send loop is a function, more fuel does not change its result -/
theorem Sends_unique {dg : Dg} {s : State} {t t1 t2 : Tx} {s1 s2 : State}
    (h1 : Sends dg s t t1 s1) (h2 : Sends dg s t t2 s2) : t1 = t2 ∧ s1 = s2 := by
  obtain ⟨f1, h1⟩ := h1
  obtain ⟨f2, h2⟩ := h2
  have a := sendLoop_mono f1 f2 _ _ _ _ h1
  have b := sendLoop_mono f2 f1 _ _ _ _ h2
  rw [Nat.add_comm] at b
  rw [a] at b
  cases b
  exact ⟨rfl, rfl⟩

end Autd3.Rt
