import Autd3.Lemmas.RtOps1
/-!
Round trips of the one-frame datagrams, part 2: silencer (fixed update rate), reads-FPGA-state,
CPU GPIO out, pulse-width table, phase correction, GPIO outputs (debug values).
-/
open Autd3 Autd3.Fw Autd3.Wire Autd3.Gen.Cpu Autd3.Gen
namespace Autd3.Rt

theorem silRate_handler (s0 : State) (hW : WF s0) (d : Array Nat) (i p : Nat)
    (h0 : u8at d 0 = 33) (h1 : u8at d 1 = 1) (h2 : u16at d 2 = i) (h4 : u16at d 4 = p) :
    handlePayload s0 d = .ok
      (wr (wr (wr (wr (wr s0 ADDR_SILENCER_UPDATE_RATE_INTENSITY i) ADDR_SILENCER_UPDATE_RATE_PHASE p)
        ADDR_SILENCER_FLAG 1) ADDR_CTL_FLAG (s0.flagsInternal ||| CTL_FLAG_SILENCER_SET))
        ADDR_CTL_FLAG s0.flagsInternal, NO_ERR) := by
  unfold handlePayload; rw [h0]
  show configSilencer _ _ = _
  unfold configSilencer
  simp only [FwLayout.ConfigSilencer_flag_off, FwLayout.ConfigSilencer_value_intensity_off,
    FwLayout.ConfigSilencer_value_phase_off, h1, h2, h4]
  have hf1 : hasFlag 1 SILENCER_FLAG_FIXED_UPDATE_RATE_MODE = true := rfl
  simp only [hf1, if_true]
  simp only [ctlWrite_main _ ADDR_SILENCER_UPDATE_RATE_INTENSITY _ (by decide),
    ctlWrite_main _ ADDR_SILENCER_UPDATE_RATE_PHASE _ (by decide),
    ctlWrite_main _ ADDR_SILENCER_FLAG _ (by decide), ok_bind]
  rw [saw_plain]
  · rfl
  · simpa using hW.ctl
  · exact hW.flags
  · decide
  · decide

theorem silencerRate_roundtrip' (s : State) (t : Tx) (hWF : WF s) (ht : TxOK t) (hf : Fresh s t)
    (i p : Nat) (hi : i < 65536) (hp : p < 65536) :
    ∃ t' s', Sends (.silencerRate i p) s t t' s' ∧ WF s' ∧ TxOK t' ∧ Fresh s' t' ∧
      Obs.silencerUpdateRate s' = (i, p) ∧ Obs.silencerFixedUpdateRateMode s' = true ∧
      s'.strict = s.strict := by
  have ht' : t.payload.size = 622 := ht
  obtain ⟨p0, p1, p2, p4, psz⟩ := silSteps_payload t.payload 1 i p (by omega) (by decide)
  rw [Nat.mod_eq_of_lt hi] at p2
  rw [Nat.mod_eq_of_lt hp] at p4
  refine single_glue' _ s t hWF hf _ _ _ rfl rfl rfl (by simpa using ht') _ ?_
  intro r hW
  refine ⟨_, silRate_handler _ hW _ i p p0 p1 p2 p4, ?_, rfl, ?_, ?_, rfl⟩
  · exact WF_wr (WF_wr (WF_wr (WF_wr (WF_wr hW _ _
      (Or.inl (by decide))) _ _ (Or.inl (by decide))) _ _ (Or.inl (by decide))) _ _ (Or.inl (by decide))) _ _
      (Or.inl (by decide))
  · have hc : s.ctl.size = 256 := hW.ctl
    simp [Obs.silencerUpdateRate, reg_fin, reg_wr, hc, ADDR_SILENCER_UPDATE_RATE_INTENSITY,
      ADDR_SILENCER_UPDATE_RATE_PHASE, ADDR_SILENCER_FLAG, ADDR_CTL_FLAG, Nat.mod_eq_of_lt hi,
      Nat.mod_eq_of_lt hp]
  · have hc : s.ctl.size = 256 := hW.ctl
    simp [Obs.silencerFixedUpdateRateMode, reg_fin, reg_wr, hc, ADDR_SILENCER_UPDATE_RATE_INTENSITY,
      ADDR_SILENCER_UPDATE_RATE_PHASE, ADDR_SILENCER_FLAG, ADDR_CTL_FLAG]
    rfl

/-! ### ReadsFPGAState, CpuGPIOOut -/

theorem readsFpgaState_roundtrip' (s : State) (t : Tx) (hWF : WF s) (ht : TxOK t) (hf : Fresh s t) (v : Bool) :
    ∃ t' s', Sends (.readsFpgaState v) s t t' s' ∧ WF s' ∧ TxOK t' ∧ Fresh s' t' ∧
      s'.readsFpgaState = v := by
  have ht' : t.payload.size = 622 := ht
  refine single_glue' _ s t hWF hf _ _ _ rfl rfl rfl (by simpa using ht') _ ?_
  intro r hW
  have h0 := u8at_tagValue_0 t.payload Drv.TAG_ReadsFPGAState (if v then 1 else 0) (by omega) (by decide)
  have h1 := u8at_tagValue_1 t.payload Drv.TAG_ReadsFPGAState (if v then 1 else 0) (by omega)
  refine ⟨{ s with lastMsgId := nextId t, rxData := r, readsFpgaState := v }, ?_, by wf_same hW, rfl, rfl⟩
  unfold handlePayload; rw [h0]
  show configureReadsFpgaState _ _ = _
  unfold configureReadsFpgaState
  simp only [FwLayout.ReadsFPGAState_value_off, h1]
  cases v <;> simp <;> rfl

theorem cpuGpioOut_roundtrip' (s : State) (t : Tx) (hWF : WF s) (ht : TxOK t) (hf : Fresh s t) (v : Nat)
    (hv : v < 256) :
    ∃ t' s', Sends (.cpuGpioOut v) s t t' s' ∧ WF s' ∧ TxOK t' ∧ Fresh s' t' ∧ s'.portA = v := by
  have ht' : t.payload.size = 622 := ht
  refine single_glue' _ s t hWF hf _ _ _ rfl rfl rfl (by simpa using ht') _ ?_
  intro r hW
  have h0 := u8at_tagValue_0 t.payload Drv.TAG_CpuGPIOOut v (by omega) (by decide)
  have h1 := u8at_tagValue_1 t.payload Drv.TAG_CpuGPIOOut v (by omega)
  refine ⟨{ s with lastMsgId := nextId t, rxData := r, portA := v }, ?_, by wf_same hW, rfl, rfl⟩
  unfold handlePayload; rw [h0]
  show cpuGpioOut _ _ = _
  unfold cpuGpioOut
  simp only [FwLayout.CpuGPIOOut_pa_podr_off, h1, Nat.mod_eq_of_lt hv]

theorem range_map_rd (a : Array Nat) (n : Nat) (h : a.size = n) : (Array.range n).map (rd a) = a := by
  apply Array.ext
  · simp [h]
  · intro i h1 h2
    simp at h1
    simp [rd_of_lt (show i < a.size by omega)]

theorem range_map_congr {α : Type} (n : Nat) (f g : Nat → α) (h : ∀ i, i < n → f i = g i) :
    (Array.range n).map f = (Array.range n).map g := by
  apply Array.ext
  · simp
  · intro i h1 h2
    simp at h1
    simp [h i h1]

/-! ### pulse-width table -/

theorem pack_pwe (table : Array Nat) (n : Nat) (b : Array Nat) (hb : b.size = 622) :
    (Op.ofDg (.pwe table)).pack n b 0 =
      .ok ({ dg := .pwe table, sent := 0, done := true },
        putWords (tagValue b 0 Drv.TAG_ConfigPulseWidthEncoder 0) 2 table 256, 514) := by
  unfold Op.pack
  simp [Op.ofDg, hb, Drv.PWE_BUF_SIZE, DrvLayout.Pwe_size]

theorem pwe_roundtrip' (s : State) (t : Tx) (hWF : WF s) (ht : TxOK t) (hf : Fresh s t) (table : Array Nat)
    (hsz : table.size = 256) (hv : ∀ i, rd table i < 512) :
    ∃ t' s', Sends (.pwe table) s t t' s' ∧ WF s' ∧ TxOK t' ∧ Fresh s' t' ∧
      Obs.pweTable s' = .ok table := by
  have ht' : t.payload.size = 622 := ht
  refine single_glue' _ s t hWF hf _ _ _ rfl (pack_pwe table _ _ ht') rfl (by simpa using ht') _ ?_
  intro r hW
  have h0 : u8at (putWords (tagValue t.payload 0 Drv.TAG_ConfigPulseWidthEncoder 0) 2 table 256) 0 = 114 := by
    rw [u8at_putWords, if_neg (by omega), u8at_tagValue_0 _ _ _ (by omega) (by decide)]; rfl
  have hw : ∀ i, i < 256 →
      u16at (putWords (tagValue t.payload 0 Drv.TAG_ConfigPulseWidthEncoder 0) 2 table 256) (2 + 2 * i) = rd table i := by
    intro i hi
    rw [u16at_putWords _ _ _ _ _ hi (by simp; omega)]
    have := hv i; omega
  generalize putWords (tagValue t.payload 0 Drv.TAG_ConfigPulseWidthEncoder 0) 2 table 256 = d at h0 hw
  refine ⟨{ s with lastMsgId := nextId t, rxData := r, pwe := wrWords s.pwe 0 (wordsAt d 2 256) }, ?_, ?_, rfl, ?_⟩
  · unfold handlePayload; rw [h0]
    show configPwe _ _ = _
    unfold configPwe
    rw [pweWriteWords_eq _ _ _ (by simp; exact Nat.le_of_eq hW.pwe.symm)]
    rfl
  · exact ⟨hW.ctl, hW.phaseCorr, by simpa using hW.pwe, hW.modMem0, hW.modMem1, hW.stmMem0, hW.stmMem1, hW.numTr,
      hW.flags, hW.modSwap, hW.stmSwap, hW.modDiv0, hW.modDiv1, hW.stmDiv0, hW.stmDiv1⟩
  · unfold Obs.pweTable
    have hp : s.pwe.size = 256 := hW.pwe
    rw [mapM_range_ok 256 _ (rd table)]
    · rw [range_map_rd _ _ hsz]
    · intro i hi
      have : rd (fin { s with lastMsgId := nextId t, rxData := r, pwe := wrWords s.pwe 0 (wordsAt d 2 256) }
            (nextId t)).pwe i = rd table i := by
        show rd (wrWords s.pwe 0 _) i = _
        rw [rd_wrWords, if_pos (by simp; omega), rd_wordsAt, if_pos (by omega), Nat.sub_zero, hw i hi]
        have := hv i; omega
      simp only [this, hv i, if_true]


/-! ### phase correction -/

theorem pack_phaseCorr (bytes : Array Nat) (n : Nat) (b : Array Nat) (hb : b.size = 622) (hn : n ≤ 249) :
    (Op.ofDg (.phaseCorr bytes)).pack n b 0 =
      .ok ({ dg := .phaseCorr bytes, sent := 0, done := true },
        putBytes (tagValue b 0 Drv.TAG_PhaseCorrection 0) 2 bytes 0 n, 2 + ((n + 1) / 2) * 2) := by
  unfold Op.pack
  simp [Op.ofDg, hb, DrvLayout.PhaseCorr_size, Nat.min_eq_left (show n ≤ 620 by omega)]

/-- a byte of a word array written from frame bytes: `phaseCorrAt`-style read = the frame byte -/
theorem byte_of_words (m : Array Nat) (d : Array Nat) (off len idx : Nat) (hm : len ≤ m.size) (hi : idx / 2 < len) :
    (let w := rd (wrWords m 0 (wordsAt d off len)) (idx / 2)
     if idx % 2 = 0 then w % 256 else (w / 256) % 256) = u8at d (off + idx) := by
  have hw : rd (wrWords m 0 (wordsAt d off len)) (idx / 2) = u16at d (off + 2 * (idx / 2)) := by
    have hsz : (wordsAt d off len).size = len := size_wordsAt _ _ _
    rw [rd_wrWords, hsz, if_pos (by omega), rd_wordsAt, if_pos (by omega), Nat.sub_zero]
    exact Nat.mod_eq_of_lt (u16at_lt _ _)
  simp only [hw]
  have h1 := u8at_lt d (off + 2 * (idx / 2))
  have h2 := u8at_lt d (off + 2 * (idx / 2) + 1)
  unfold u16at
  by_cases h : idx % 2 = 0
  · rw [if_pos h, show off + idx = off + 2 * (idx / 2) from by omega]; omega
  · rw [if_neg h, show off + idx = off + 2 * (idx / 2) + 1 from by omega]; omega

theorem phaseCorr_roundtrip' (s : State) (t : Tx) (hWF : WF s) (ht : TxOK t) (hf : Fresh s t) (bytes : Array Nat)
    (hsz : bytes.size = s.numTr) (hv : ∀ i, rd bytes i < 256) :
    ∃ t' s', Sends (.phaseCorr bytes) s t t' s' ∧ WF s' ∧ TxOK t' ∧ Fresh s' t' ∧
      Obs.phaseCorrection s' = bytes := by
  have ht' : t.payload.size = 622 := ht
  refine single_glue' _ s t hWF hf _ _ _ rfl (pack_phaseCorr bytes _ _ ht' hWF.numTr) rfl (by simpa using ht') _ ?_
  intro r hW
  have h0 : u8at (putBytes (tagValue t.payload 0 Drv.TAG_PhaseCorrection 0) 2 bytes 0 s.numTr) 0 = 128 := by
    rw [u8at_putBytes, if_neg (by omega), u8at_tagValue_0 _ _ _ (by omega) (by decide)]; rfl
  have hw : ∀ i, i < s.numTr →
      u8at (putBytes (tagValue t.payload 0 Drv.TAG_PhaseCorrection 0) 2 bytes 0 s.numTr) (2 + i) = rd bytes i := by
    intro i hi
    have := hWF.numTr
    rw [u8at_putBytes, if_pos (by simp; omega), show 2 + i - 2 = i from by omega, Nat.zero_add]
    have := hv i; omega
  generalize putBytes (tagValue t.payload 0 Drv.TAG_PhaseCorrection 0) 2 bytes 0 s.numTr = d at h0 hw
  have hpc : s.phaseCorr.size = 128 := hW.phaseCorr
  refine ⟨{ s with lastMsgId := nextId t, rxData := r, phaseCorr := wrWords s.phaseCorr 0 (wordsAt d 2 125) }, ?_, ?_, rfl, ?_⟩
  · unfold handlePayload; rw [h0]
    show phaseCorrOp _ _ = _
    unfold phaseCorrOp
    have := ctlWriteWords_pc { s with lastMsgId := nextId t, rxData := r } 0 (wordsAt d 2 125) (by simp) hpc
    rw [show BRAM_CNT_SEL_PHASE_CORR <<< 8 = 256 + 0 from rfl, show (TRANS_NUM + 1) >>> 1 = 125 from rfl,
      show FwLayout.PhaseCorr_size = 2 from rfl, this]
    rfl
  · exact ⟨hW.ctl, by simpa using hW.phaseCorr, hW.pwe, hW.modMem0, hW.modMem1, hW.stmMem0, hW.stmMem1, hW.numTr,
      hW.flags, hW.modSwap, hW.stmSwap, hW.modDiv0, hW.modDiv1, hW.stmDiv0, hW.stmDiv1⟩
  · unfold Obs.phaseCorrection
    show (Array.range s.numTr).map _ = bytes
    rw [← range_map_rd bytes _ hsz]
    apply range_map_congr
    intro i hi
    have := hWF.numTr
    unfold Obs.phaseCorrAt
    show (let w := rd (wrWords s.phaseCorr 0 (wordsAt d 2 125)) (i / 2)
      if i % 2 = 0 then w % 256 else (w / 256) % 256) = _
    rw [byte_of_words _ _ _ _ _ (by omega) (by omega), hw i hi]


/-! ### GPIO outputs (debug values) -/

theorem u64at_put64_other (b : Array Nat) (i v j : Nat) (h : j + 7 < i ∨ i + 7 < j) :
    u64at (put64 b i v) j = u64at b j := by
  unfold u64at
  rw [u16at_put64_other _ _ _ _ (by omega), u16at_put64_other _ _ _ _ (by omega),
    u16at_put64_other _ _ _ _ (by omega), u16at_put64_other _ _ _ _ (by omega)]

theorem pack_debug (vals : Array Nat) (n : Nat) (b : Array Nat) :
    (Op.ofDg (.debug vals)).pack n b 0 =
      .ok ({ dg := .debug vals, sent := 0, done := true },
        put64 (put64 (put64 (put64 (put8 (putZeros b 0 8) 0 Drv.TAG_Debug) 8 (rd vals 0)) 16 (rd vals 1)) 24 (rd vals 2))
          32 (rd vals 3), 40) := by
  unfold Op.pack
  simp [Op.ofDg, DrvLayout.DebugSetting_value_off, DrvLayout.DebugSetting_size, foldl_range', iter]

theorem debug_payload (b : Array Nat) (v0 v1 v2 v3 : Nat) (hb : 40 ≤ b.size) :
    let d := put64 (put64 (put64 (put64 (put8 (putZeros b 0 8) 0 Drv.TAG_Debug) 8 v0) 16 v1) 24 v2) 32 v3
    u8at d 0 = 240 ∧ u64at d 8 = v0 % 18446744073709551616 ∧ u64at d 16 = v1 % 18446744073709551616 ∧
      u64at d 24 = v2 % 18446744073709551616 ∧ u64at d 32 = v3 % 18446744073709551616 := by
  refine ⟨?_, ?_, ?_, ?_, ?_⟩
  · rw [u8at_put64_other _ _ _ _ (by omega), u8at_put64_other _ _ _ _ (by omega), u8at_put64_other _ _ _ _ (by omega),
      u8at_put64_other _ _ _ _ (by omega), u8at_put8, if_pos ⟨rfl, by simp; omega⟩]; rfl
  · rw [u64at_put64_other _ _ _ _ (by omega), u64at_put64_other _ _ _ _ (by omega), u64at_put64_other _ _ _ _ (by omega),
      u64at_put64_same _ _ _ (by simp; omega)]
  · rw [u64at_put64_other _ _ _ _ (by omega), u64at_put64_other _ _ _ _ (by omega),
      u64at_put64_same _ _ _ (by simp; omega)]
  · rw [u64at_put64_other _ _ _ _ (by omega), u64at_put64_same _ _ _ (by simp; omega)]
  · rw [u64at_put64_same _ _ _ (by simp; omega)]

theorem debug_handler (s0 : State) (hW : WF s0) (d : Array Nat) (h0 : u8at d 0 = 240) :
    handlePayload s0 d = .ok
      (wr (wr { s0 with ctl := wrWords s0.ctl 240 (wordsAt d 8 16) } ADDR_CTL_FLAG (s0.flagsInternal ||| CTL_FLAG_DEBUG_SET))
        ADDR_CTL_FLAG s0.flagsInternal, NO_ERR) := by
  unfold handlePayload; rw [h0]
  show configDebug _ _ = _
  unfold configDebug
  rw [show ADDR_DEBUG_VALUE0_0 = 240 from rfl, show FwLayout.DebugOutIdx_value_off = 8 from rfl,
    ctlWriteWords_main _ _ _ (by simp)]
  simp only [ok_bind]
  rw [saw_plain]
  · rfl
  · simpa using hW.ctl
  · exact hW.flags
  · decide
  · decide

theorem reg_debug (s0 : State) (hc : s0.ctl.size = 256) (d : Array Nat) (x y id j : Nat) (hj : j < 16) :
    reg (fin (wr (wr { s0 with ctl := wrWords s0.ctl 240 (wordsAt d 8 16) } ADDR_CTL_FLAG x) ADDR_CTL_FLAG y) id)
      (240 + j) = u16at d (8 + 2 * j) := by
  rw [reg_fin _ _ _ (by omega), reg_wr, if_neg (by simp [ADDR_CTL_FLAG]), reg_wr, if_neg (by simp [ADDR_CTL_FLAG]),
    reg_wrWords _ _ _ _ hc, if_pos (by simp; omega), rd_wordsAt, if_pos (by omega),
    show 240 + j - 240 = j from by omega]
  exact Nat.mod_eq_of_lt (u16at_lt _ _)

/-- the four registers of one debug value hold the 64-bit little-endian field of the frame -/
theorem reg64_debug (s0 : State) (hc : s0.ctl.size = 256) (d : Array Nat) (x y id k : Nat) (hk : k < 4) :
    reg64 (fin (wr (wr { s0 with ctl := wrWords s0.ctl 240 (wordsAt d 8 16) } ADDR_CTL_FLAG x) ADDR_CTL_FLAG y) id)
      (240 + 4 * k) = u64at d (8 + 8 * k) := by
  have hr := reg_debug s0 hc d x y id
  unfold reg64 u64at
  rw [hr (4 * k) (by omega), show 240 + 4 * k + 1 = 240 + (4 * k + 1) from by omega, hr (4 * k + 1) (by omega),
    show 240 + 4 * k + 2 = 240 + (4 * k + 2) from by omega, hr (4 * k + 2) (by omega),
    show 240 + 4 * k + 3 = 240 + (4 * k + 3) from by omega, hr (4 * k + 3) (by omega)]
  rw [show 8 + 2 * (4 * k) = 8 + 8 * k from by omega, show 8 + 2 * (4 * k + 1) = 8 + 8 * k + 2 from by omega,
    show 8 + 2 * (4 * k + 2) = 8 + 8 * k + 4 from by omega, show 8 + 2 * (4 * k + 3) = 8 + 8 * k + 6 from by omega]

theorem u16at_top (d : Array Nat) (i v : Nat) (h : u64at d i = v) : u16at d (i + 6) / 256 = v / 72057594037927936 := by
  have := u16at_lt d i; have := u16at_lt d (i + 2); have := u16at_lt d (i + 4); have := u16at_lt d (i + 6)
  unfold u64at at h; omega

theorem debug_roundtrip' (s : State) (t : Tx) (hWF : WF s) (ht : TxOK t) (hf : Fresh s t) (vals : Array Nat)
    (hv : ∀ i, rd vals i < 18446744073709551616) :
    ∃ t' s', Sends (.debug vals) s t t' s' ∧ WF s' ∧ TxOK t' ∧ Fresh s' t' ∧
      Obs.debugValues s' = #[rd vals 0 % 72057594037927936, rd vals 1 % 72057594037927936,
        rd vals 2 % 72057594037927936, rd vals 3 % 72057594037927936] ∧
      Obs.debugTypes s' = #[rd vals 0 / 72057594037927936, rd vals 1 / 72057594037927936,
        rd vals 2 / 72057594037927936, rd vals 3 / 72057594037927936] := by
  have ht' : t.payload.size = 622 := ht
  refine single_glue' _ s t hWF hf _ _ _ rfl (pack_debug vals _ _) rfl (by simpa using ht') _ ?_
  intro r hW
  obtain ⟨h0, e0, e1, e2, e3⟩ := debug_payload t.payload (rd vals 0) (rd vals 1) (rd vals 2) (rd vals 3) (by omega)
  rw [Nat.mod_eq_of_lt (hv 0)] at e0
  rw [Nat.mod_eq_of_lt (hv 1)] at e1
  rw [Nat.mod_eq_of_lt (hv 2)] at e2
  rw [Nat.mod_eq_of_lt (hv 3)] at e3
  generalize put64 (put64 (put64 (put64 (put8 (putZeros t.payload 0 8) 0 Drv.TAG_Debug) 8 (rd vals 0)) 16 (rd vals 1))
    24 (rd vals 2)) 32 (rd vals 3) = d at h0 e0 e1 e2 e3
  have hc : s.ctl.size = 256 := hW.ctl
  refine ⟨_, debug_handler _ hW d h0, ?_, rfl, ?_, ?_⟩
  · exact WF_wr (WF_wr (WF_wrWords hW 240 _ (Or.inl (by decide))) _ _ (Or.inl (by decide))) _ _ (Or.inl (by decide))
  · unfold Obs.debugValues
    have := reg64_debug { s with lastMsgId := nextId t, rxData := r } hc d
    rw [show ADDR_DEBUG_VALUE0_0 = 240 + 4 * 0 from rfl, show ADDR_DEBUG_VALUE1_0 = 240 + 4 * 1 from rfl,
      show ADDR_DEBUG_VALUE2_0 = 240 + 4 * 2 from rfl, show ADDR_DEBUG_VALUE3_0 = 240 + 4 * 3 from rfl,
      this _ _ _ 0 (by omega), this _ _ _ 1 (by omega), this _ _ _ 2 (by omega), this _ _ _ 3 (by omega),
      e0, e1, e2, e3]
  · unfold Obs.debugTypes
    have := reg_debug { s with lastMsgId := nextId t, rxData := r } hc d
    rw [show ADDR_DEBUG_VALUE0_3 = 240 + 3 from rfl, show ADDR_DEBUG_VALUE1_3 = 240 + 7 from rfl,
      show ADDR_DEBUG_VALUE2_3 = 240 + 11 from rfl, show ADDR_DEBUG_VALUE3_3 = 240 + 15 from rfl,
      this _ _ _ 3 (by omega), this _ _ _ 7 (by omega), this _ _ _ 11 (by omega), this _ _ _ 15 (by omega),
      u16at_top d 8 _ e0, u16at_top d 16 _ e1, u16at_top d 24 _ e2, u16at_top d 32 _ e3]


end Autd3.Rt
