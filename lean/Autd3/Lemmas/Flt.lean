import Mathlib.Tactic.Linarith
import Mathlib.Tactic.Ring
import Mathlib.Tactic.FieldSimp
import Mathlib.Tactic.Positivity
import Mathlib.Tactic.NormNum
import Mathlib.Algebra.Order.Floor.Ring
import Mathlib.Data.Rat.Floor
import Mathlib.Data.Rat.Lemmas
import Mathlib.Data.Nat.Prime.Basic
import Autd3.Model.Flt
/-!
# Lemmas about the rounding function of `Model/Flt.lean`

`roundPos p emin n d` is `M · 2^e` with `e = ulpExp p emin n d` and `M = rne((n/d)/2^e)`:
`|M − (n/d)/2^e| ≤ 1/2`, integers bound `M` like they bound the quotient; from that the
half-ulp / relative error bound, the "stays inside its binade" bounds, and exactness on
representable values.
-/
namespace Autd3.Flt

theorem pow2_eq (e : Int) : pow2 e = (2 : ℚ) ^ e := by
  unfold pow2
  split
  · rename_i h
    obtain ⟨k, rfl⟩ := Int.eq_ofNat_of_zero_le h
    simp
  · rename_i h
    have h' : e < 0 := by omega
    obtain ⟨k, hk⟩ : ∃ k : ℕ, e = -(k : ℤ) := ⟨(-e).toNat, by omega⟩
    subst hk
    simp

theorem pow2_pos (e : Int) : 0 < pow2 e := by rw [pow2_eq]; exact zpow_pos (by norm_num) e

/-- `2^(ilog2 n d) ≤ n/d < 2^(ilog2 n d + 1)` -/
theorem ilog2_spec (n d : Nat) (hn : 0 < n) (hd : 0 < d) :
    (2 : ℚ) ^ (ilog2 n d) ≤ (n : ℚ) / d ∧ (n : ℚ) / d < (2 : ℚ) ^ (ilog2 n d + 1) := by
  have hdq : (0 : ℚ) < d := by exact_mod_cast hd
  have hnq : (0 : ℚ) < n := by exact_mod_cast hn
  unfold ilog2
  split
  · rename_i hle
    have hq : n / d ≠ 0 := by
      have : 0 < n / d := Nat.div_pos hle hd
      omega
    have h1 : 2 ^ (n / d).log2 ≤ n / d := Nat.log2_self_le hq
    have h2 : n / d < 2 ^ ((n / d).log2 + 1) := Nat.lt_log2_self
    generalize (n / d).log2 = L at h1 h2
    have h3 : 2 ^ L * d ≤ n := by
      calc 2 ^ L * d ≤ (n / d) * d := Nat.mul_le_mul_right _ h1
        _ ≤ n := Nat.div_mul_le_self n d
    have h4 : n < 2 ^ (L + 1) * d := by
      exact Nat.lt_mul_of_div_lt h2 hd
    constructor
    · rw [zpow_natCast, le_div_iff₀ hdq]
      exact_mod_cast h3
    · have : ((L : ℤ) + 1) = ((L + 1 : ℕ) : ℤ) := by push_cast; ring
      rw [this, zpow_natCast, div_lt_iff₀ hdq]
      exact_mod_cast h4
  · rename_i hlt
    have hlt : n < d := by omega
    have hq : d / n ≠ 0 := by
      have : 0 < d / n := Nat.div_pos (by omega) hn
      omega
    have h1 : 2 ^ (d / n).log2 ≤ d / n := Nat.log2_self_le hq
    have h2 : d / n < 2 ^ ((d / n).log2 + 1) := Nat.lt_log2_self
    simp only []
    generalize (d / n).log2 = k at h1 h2
    have h3 : 2 ^ k * n ≤ d := by
      calc 2 ^ k * n ≤ (d / n) * n := Nat.mul_le_mul_right _ h1
        _ ≤ d := Nat.div_mul_le_self d n
    have h4 : d < 2 ^ (k + 1) * n := by
      exact Nat.lt_mul_of_div_lt h2 hn
    have h3q : (2 : ℚ) ^ k * n ≤ d := by exact_mod_cast h3
    have h4q : (d : ℚ) < 2 ^ (k + 1) * n := by exact_mod_cast h4
    have hk : (0 : ℚ) < 2 ^ k := by positivity
    split
    · rename_i heq
      have heq' : (n : ℚ) * 2 ^ k = d := by exact_mod_cast heq
      have hx : (n : ℚ) / d = ((2 : ℚ) ^ k)⁻¹ := by
        rw [← heq']; field_simp
      rw [hx]
      constructor
      · rw [zpow_neg, zpow_natCast]
      · rw [show (-(k : ℤ) + 1) = -(k : ℤ) + 1 from rfl, zpow_add₀ (by norm_num : (2 : ℚ) ≠ 0), zpow_neg, zpow_natCast]
        norm_num
    · rename_i hne
      have hlt' : n * 2 ^ k < d := by
        have : n * 2 ^ k ≤ d := by rw [Nat.mul_comm]; exact h3
        omega
      have hlt'q : (n : ℚ) * 2 ^ k < d := by exact_mod_cast hlt'
      constructor
      · rw [zpow_neg, show ((k : ℤ) + 1) = ((k + 1 : ℕ) : ℤ) by push_cast; ring, zpow_natCast, le_div_iff₀ hdq]
        rw [inv_mul_le_iff₀ (by positivity)]
        linarith
      · rw [show (-((k : ℤ) + 1) + 1) = -(k : ℤ) by ring, zpow_neg, zpow_natCast, div_lt_iff₀ hdq]
        rw [← div_eq_inv_mul, lt_div_iff₀ hk]
        linarith

/-! ## `rneDiv` -/

theorem rneDiv_spec (a b : Nat) (hb : 0 < b) :
    2 * (rneDiv a b * b) ≤ 2 * a + b ∧ 2 * a ≤ 2 * (rneDiv a b * b) + b := by
  unfold rneDiv
  have h : a = (a / b) * b + a % b := by rw [Nat.mul_comm]; exact (Nat.div_add_mod a b).symm
  have hr := Nat.mod_lt a hb
  simp only []
  generalize a / b = q at *
  generalize a % b = r at *
  have e1 : (q + 1) * b = q * b + b := by ring
  split
  · omega
  · split
    · rw [e1]; omega
    · split
      · omega
      · rw [e1]; omega

theorem rneDiv_ge (a b c : Nat) (hb : 0 < b) (h : c * b ≤ a) : c ≤ rneDiv a b := by
  have h1 : c ≤ a / b := (Nat.le_div_iff_mul_le hb).mpr h
  unfold rneDiv
  simp only []
  split
  · exact h1
  · split
    · omega
    · split <;> omega

theorem rneDiv_le (a b c : Nat) (hb : 0 < b) (h : a ≤ c * b) : rneDiv a b ≤ c := by
  have hdm := Nat.div_add_mod a b
  have hr := Nat.mod_lt a hb
  have h1 : a / b ≤ c := by
    calc a / b ≤ (c * b) / b := Nat.div_le_div_right h
      _ = c := Nat.mul_div_cancel _ hb
  unfold rneDiv
  simp only []
  by_cases hq : a / b = c
  · -- then the remainder is zero
    have : a % b = 0 := by
      rw [hq, Nat.mul_comm] at hdm
      omega
    rw [this]
    simp [hb, hq]
  · have h2 : a / b + 1 ≤ c := by omega
    split
    · omega
    · split
      · omega
      · split <;> omega

theorem rneDiv_err (a b : Nat) (hb : 0 < b) : |((rneDiv a b : ℕ) : ℚ) - (a : ℚ) / b| ≤ 1 / 2 := by
  obtain ⟨h1, h2⟩ := rneDiv_spec a b hb
  have hbq : (0 : ℚ) < b := by exact_mod_cast hb
  have h1q : 2 * (((rneDiv a b : ℕ) : ℚ) * b) ≤ 2 * a + b := by exact_mod_cast h1
  have h2q : 2 * (a : ℚ) ≤ 2 * (((rneDiv a b : ℕ) : ℚ) * b) + b := by exact_mod_cast h2
  have hx : ((rneDiv a b : ℕ) : ℚ) - (a : ℚ) / b = (((rneDiv a b : ℕ) : ℚ) * b - a) / b := by
    field_simp
  rw [hx, abs_le]
  constructor
  · rw [le_div_iff₀ hbq]; nlinarith
  · rw [div_le_iff₀ hbq]; nlinarith

theorem rneDiv_ge_q (a b c : Nat) (hb : 0 < b) (h : (c : ℚ) ≤ (a : ℚ) / b) : c ≤ rneDiv a b := by
  apply rneDiv_ge a b c hb
  have hbq : (0 : ℚ) < b := by exact_mod_cast hb
  rw [le_div_iff₀ hbq] at h
  exact_mod_cast h

theorem rneDiv_le_q (a b c : Nat) (hb : 0 < b) (h : (a : ℚ) / b ≤ (c : ℚ)) : rneDiv a b ≤ c := by
  apply rneDiv_le a b c hb
  have hbq : (0 : ℚ) < b := by exact_mod_cast hb
  rw [div_le_iff₀ hbq] at h
  exact_mod_cast h

/-! ## `roundPos` -/

/-- `roundPos = M · 2^e` where `M = rneDiv a b` and `a/b` is the exact quotient `(n/d)/2^e` -/
theorem roundPos_eq (p : Nat) (emin : Int) (n d : Nat) (hd : 0 < d) :
    ∃ a b : Nat, 0 < b ∧ (a : ℚ) / b = ((n : ℚ) / d) / (2 : ℚ) ^ (ulpExp p emin n d) ∧
      roundPos p emin n d = ((rneDiv a b : ℕ) : ℚ) * (2 : ℚ) ^ (ulpExp p emin n d) := by
  have hdq : (d : ℚ) ≠ 0 := by exact_mod_cast (Nat.pos_iff_ne_zero.mp hd)
  unfold roundPos
  simp only []
  generalize ulpExp p emin n d = e
  split
  · rename_i he
    obtain ⟨k, rfl⟩ := Int.eq_ofNat_of_zero_le he
    refine ⟨n, d * 2 ^ k, by positivity, ?_, ?_⟩
    · simp only [Int.toNat_natCast, zpow_natCast]; push_cast; field_simp
    · simp only [Int.toNat_natCast, zpow_natCast]; push_cast; ring
  · rename_i he
    obtain ⟨k, hk⟩ : ∃ k : ℕ, e = -(k : ℤ) := ⟨(-e).toNat, by omega⟩
    subst hk
    have hk2 : (2 : ℚ) ^ k ≠ 0 := by positivity
    simp only [neg_neg, Int.toNat_natCast]
    split
    · rename_i hdiv
      have hdvd : 2 ^ k ∣ d := Nat.dvd_of_mod_eq_zero hdiv
      obtain ⟨d', rfl⟩ := hdvd
      have hd' : 0 < d' := by
        rcases Nat.eq_zero_or_pos d' with h | h
        · subst h; simp at hd
        · exact h
      have hd'q : (d' : ℚ) ≠ 0 := by exact_mod_cast (Nat.pos_iff_ne_zero.mp hd')
      refine ⟨n, d', hd', ?_, ?_⟩
      · rw [zpow_neg, zpow_natCast]; push_cast; field_simp
      · rw [Nat.mul_div_cancel_left _ (by positivity : 0 < 2 ^ k), Rat.mkRat_eq_div, zpow_neg, zpow_natCast]
        push_cast; field_simp
    · refine ⟨n * 2 ^ k, d, hd, ?_, ?_⟩
      · rw [zpow_neg, zpow_natCast]; push_cast; field_simp
      · rw [Rat.mkRat_eq_div, zpow_neg, zpow_natCast]
        push_cast; field_simp

theorem two_zpow_pos (e : ℤ) : (0 : ℚ) < (2 : ℚ) ^ e := zpow_pos (by norm_num) e

/-- half-ulp error -/
theorem roundPos_err (p : Nat) (emin : Int) (n d : Nat) (hd : 0 < d) :
    |roundPos p emin n d - (n : ℚ) / d| ≤ (2 : ℚ) ^ (ulpExp p emin n d) / 2 := by
  obtain ⟨a, b, hb, hab, hr⟩ := roundPos_eq p emin n d hd
  have he := two_zpow_pos (ulpExp p emin n d)
  have h := rneDiv_err a b hb
  rw [hab] at h
  rw [hr]
  generalize (2 : ℚ) ^ (ulpExp p emin n d) = t at *
  generalize ((rneDiv a b : ℕ) : ℚ) = M at *
  generalize (n : ℚ) / d = x at *
  have hx : M * t - x = (M - x / t) * t := by field_simp
  rw [hx, abs_mul, abs_of_pos he]
  have := mul_le_mul_of_nonneg_right h he.le
  linarith

/-- the rounded value stays in the closed binade of the exact one -/
theorem roundPos_binade (p : Nat) (emin : Int) (n d : Nat) (hn : 0 < n) (hd : 0 < d)
    (he : ulpExp p emin n d ≤ ilog2 n d) :
    (2 : ℚ) ^ (ilog2 n d) ≤ roundPos p emin n d ∧ roundPos p emin n d ≤ (2 : ℚ) ^ (ilog2 n d + 1) := by
  obtain ⟨a, b, hb, hab, hr⟩ := roundPos_eq p emin n d hd
  obtain ⟨hlo, hhi⟩ := ilog2_spec n d hn hd
  rw [hr]
  generalize ulpExp p emin n d = e at *
  generalize ilog2 n d = L at *
  have het := two_zpow_pos e
  obtain ⟨k, hk⟩ : ∃ k : ℕ, L - e = (k : ℤ) := ⟨(L - e).toNat, by omega⟩
  have hL : (2 : ℚ) ^ L = (2 : ℚ) ^ k * (2 : ℚ) ^ e := by
    rw [← zpow_natCast, ← zpow_add₀ (by norm_num : (2 : ℚ) ≠ 0)]; congr 1; omega
  have hL1 : (2 : ℚ) ^ (L + 1) = (2 : ℚ) ^ (k + 1) * (2 : ℚ) ^ e := by
    rw [← zpow_natCast, ← zpow_add₀ (by norm_num : (2 : ℚ) ≠ 0)]; congr 1; push_cast; omega
  constructor
  · have : (2 ^ k : ℕ) ≤ rneDiv a b := by
      apply rneDiv_ge_q a b _ hb
      rw [hab, le_div_iff₀ het]; push_cast; rw [← hL]; exact hlo
    rw [hL]
    have hq : ((2 ^ k : ℕ) : ℚ) ≤ ((rneDiv a b : ℕ) : ℚ) := by exact_mod_cast this
    push_cast at hq
    exact mul_le_mul_of_nonneg_right hq het.le
  · have : rneDiv a b ≤ (2 ^ (k + 1) : ℕ) := by
      apply rneDiv_le_q a b _ hb
      rw [hab, div_le_iff₀ het]; push_cast; rw [← hL1]; exact hhi.le
    rw [hL1]
    have hq : ((rneDiv a b : ℕ) : ℚ) ≤ ((2 ^ (k + 1) : ℕ) : ℚ) := by exact_mod_cast this
    push_cast at hq
    exact mul_le_mul_of_nonneg_right hq het.le

/-- a natural number bounds the rounded value like it bounds the exact one (unit `≤ 1`) -/
theorem roundPos_le_nat (p : Nat) (emin : Int) (n d c : Nat) (hd : 0 < d)
    (he : ulpExp p emin n d ≤ 0) (h : (n : ℚ) / d ≤ c) : roundPos p emin n d ≤ c := by
  obtain ⟨a, b, hb, hab, hr⟩ := roundPos_eq p emin n d hd
  rw [hr]
  generalize ulpExp p emin n d = e at *
  have het := two_zpow_pos e
  obtain ⟨k, hk⟩ : ∃ k : ℕ, e = -(k : ℤ) := ⟨(-e).toNat, by omega⟩
  subst hk
  have hc : (c : ℚ) = ((c * 2 ^ k : ℕ) : ℚ) * (2 : ℚ) ^ (-(k : ℤ)) := by
    rw [zpow_neg, zpow_natCast]; push_cast; field_simp
  have : rneDiv a b ≤ c * 2 ^ k := by
    apply rneDiv_le_q a b _ hb
    rw [hab, div_le_iff₀ het, ← hc]; exact h
  rw [hc]
  have hq : ((rneDiv a b : ℕ) : ℚ) ≤ ((c * 2 ^ k : ℕ) : ℚ) := by exact_mod_cast this
  exact mul_le_mul_of_nonneg_right hq het.le

theorem roundPos_ge_nat (p : Nat) (emin : Int) (n d c : Nat) (hd : 0 < d)
    (he : ulpExp p emin n d ≤ 0) (h : (c : ℚ) ≤ (n : ℚ) / d) : (c : ℚ) ≤ roundPos p emin n d := by
  obtain ⟨a, b, hb, hab, hr⟩ := roundPos_eq p emin n d hd
  rw [hr]
  generalize ulpExp p emin n d = e at *
  have het := two_zpow_pos e
  obtain ⟨k, hk⟩ : ∃ k : ℕ, e = -(k : ℤ) := ⟨(-e).toNat, by omega⟩
  subst hk
  have hc : (c : ℚ) = ((c * 2 ^ k : ℕ) : ℚ) * (2 : ℚ) ^ (-(k : ℤ)) := by
    rw [zpow_neg, zpow_natCast]; push_cast; field_simp
  have : c * 2 ^ k ≤ rneDiv a b := by
    apply rneDiv_ge_q a b _ hb
    rw [hab, le_div_iff₀ het, ← hc]; exact h
  rw [hc]
  have hq : ((c * 2 ^ k : ℕ) : ℚ) ≤ ((rneDiv a b : ℕ) : ℚ) := by exact_mod_cast this
  exact mul_le_mul_of_nonneg_right hq het.le

/-! ## `roundTo` on positive rationals -/

/-- `⌊log2 x⌋` of a positive rational -/
def lg (x : ℚ) : ℤ := ilog2 x.num.natAbs x.den

theorem num_den_pos (x : ℚ) (hx : 0 < x) :
    0 < x.num.natAbs ∧ 0 < x.den ∧ ((x.num.natAbs : ℕ) : ℚ) / x.den = x ∧ 0 < x.num := by
  have hnum : 0 < x.num := Rat.num_pos.mpr hx
  refine ⟨by omega, x.den_pos, ?_, hnum⟩
  have : ((x.num.natAbs : ℕ) : ℚ) = (x.num : ℚ) := by
    have h : ((x.num.natAbs : ℕ) : ℤ) = x.num := by omega
    rw [← h]; simp
  rw [this]; exact Rat.num_div_den x

theorem lg_spec (x : ℚ) (hx : 0 < x) : (2 : ℚ) ^ (lg x) ≤ x ∧ x < (2 : ℚ) ^ (lg x + 1) := by
  obtain ⟨h1, h2, h3, _⟩ := num_den_pos x hx
  have := ilog2_spec x.num.natAbs x.den h1 h2
  rw [h3] at this
  exact this

theorem lg_lt (x : ℚ) (hx : 0 < x) (k : ℤ) (h : x < (2 : ℚ) ^ k) : lg x < k := by
  have h1 := (lg_spec x hx).1
  have : (2 : ℚ) ^ (lg x) < (2 : ℚ) ^ k := lt_of_le_of_lt h1 h
  exact (zpow_lt_zpow_iff_right₀ (by norm_num : (1 : ℚ) < 2)).mp this

theorem le_lg (x : ℚ) (hx : 0 < x) (k : ℤ) (h : (2 : ℚ) ^ k ≤ x) : k ≤ lg x := by
  have h1 := (lg_spec x hx).2
  have : (2 : ℚ) ^ k < (2 : ℚ) ^ (lg x + 1) := lt_of_le_of_lt h h1
  have := (zpow_lt_zpow_iff_right₀ (by norm_num : (1 : ℚ) < 2)).mp this
  omega

theorem roundTo_pos_cases (p : Nat) (emin : Int) (x : ℚ) (hx : 0 < x) :
    roundTo p emin x = x ∨ roundTo p emin x = roundPos p emin x.num.natAbs x.den := by
  obtain ⟨_, _, _, hnum⟩ := num_den_pos x hx
  unfold roundTo
  have h0 : ¬ x.num = 0 := by omega
  have h1 : ¬ x.num < 0 := by omega
  simp only [h0, h1, if_false]
  split
  · left; rfl
  · right; rfl

/-- the unit exponent used for `x` -/
def ue (p : Nat) (emin : Int) (x : ℚ) : ℤ := max emin (lg x - ((p : ℤ) - 1))

theorem ulpExp_eq_ue (p : Nat) (emin : Int) (x : ℚ) : ulpExp p emin x.num.natAbs x.den = ue p emin x := rfl

theorem roundTo_err (p : Nat) (emin : Int) (x : ℚ) (hx : 0 < x) :
    |roundTo p emin x - x| ≤ (2 : ℚ) ^ (ue p emin x) / 2 := by
  obtain ⟨h1, h2, h3, _⟩ := num_den_pos x hx
  rcases roundTo_pos_cases p emin x hx with h | h
  · rw [h]; simp; exact div_nonneg (two_zpow_pos _).le (by norm_num)
  · rw [h]
    have := roundPos_err p emin x.num.natAbs x.den h2
    rw [h3] at this
    exact this

/-- relative error `2^-p` in the normal range -/
theorem roundTo_rel (p : Nat) (emin : Int) (x : ℚ) (hx : 0 < x) (hn : emin ≤ lg x - ((p : ℤ) - 1)) :
    |roundTo p emin x - x| ≤ x * (2 : ℚ) ^ (-(p : ℤ)) := by
  have h := roundTo_err p emin x hx
  have he : ue p emin x = lg x - ((p : ℤ) - 1) := by unfold ue; omega
  rw [he] at h
  have hlo := (lg_spec x hx).1
  have : (2 : ℚ) ^ (lg x - ((p : ℤ) - 1)) / 2 = (2 : ℚ) ^ (lg x) * (2 : ℚ) ^ (-(p : ℤ)) := by
    rw [show lg x - ((p : ℤ) - 1) = lg x + -(p : ℤ) + 1 by ring, zpow_add₀ (by norm_num : (2 : ℚ) ≠ 0),
      zpow_add₀ (by norm_num : (2 : ℚ) ≠ 0)]
    simp
  rw [this] at h
  calc |roundTo p emin x - x| ≤ (2 : ℚ) ^ (lg x) * (2 : ℚ) ^ (-(p : ℤ)) := h
    _ ≤ x * (2 : ℚ) ^ (-(p : ℤ)) := mul_le_mul_of_nonneg_right hlo (two_zpow_pos _).le

theorem roundTo_binade (p : Nat) (emin : Int) (x : ℚ) (hx : 0 < x) (hp : 1 ≤ p) (hn : emin ≤ lg x) :
    (2 : ℚ) ^ (lg x) ≤ roundTo p emin x ∧ roundTo p emin x ≤ (2 : ℚ) ^ (lg x + 1) := by
  obtain ⟨h1, h2, h3, _⟩ := num_den_pos x hx
  rcases roundTo_pos_cases p emin x hx with h | h
  · rw [h]; exact ⟨(lg_spec x hx).1, (lg_spec x hx).2.le⟩
  · rw [h]
    apply roundPos_binade p emin _ _ h1 h2
    show ue p emin x ≤ lg x
    unfold ue
    have : (1 : ℤ) ≤ p := by exact_mod_cast hp
    omega

theorem roundTo_pos (p : Nat) (emin : Int) (x : ℚ) (hx : 0 < x) (hp : 1 ≤ p) (hn : emin ≤ lg x) :
    0 < roundTo p emin x :=
  lt_of_lt_of_le (two_zpow_pos _) (roundTo_binade p emin x hx hp hn).1

theorem ue_nonpos (p : Nat) (emin : Int) (x : ℚ) (hx : 0 < x) (hemin : emin ≤ 0) (h : x < (2 : ℚ) ^ (p : ℤ)) :
    ue p emin x ≤ 0 := by
  have := lg_lt x hx p h
  unfold ue; omega

theorem roundTo_le_nat (p : Nat) (emin : Int) (x : ℚ) (c : ℕ) (hx : 0 < x) (hemin : emin ≤ 0)
    (hlt : x < (2 : ℚ) ^ (p : ℤ)) (h : x ≤ c) : roundTo p emin x ≤ c := by
  obtain ⟨h1, h2, h3, _⟩ := num_den_pos x hx
  rcases roundTo_pos_cases p emin x hx with h' | h'
  · rw [h']; exact h
  · rw [h']
    apply roundPos_le_nat p emin _ _ c h2 (ue_nonpos p emin x hx hemin hlt)
    rw [h3]; exact h

theorem roundTo_ge_nat (p : Nat) (emin : Int) (x : ℚ) (c : ℕ) (hx : 0 < x) (hemin : emin ≤ 0)
    (hlt : x < (2 : ℚ) ^ (p : ℤ)) (h : (c : ℚ) ≤ x) : (c : ℚ) ≤ roundTo p emin x := by
  obtain ⟨h1, h2, h3, _⟩ := num_den_pos x hx
  rcases roundTo_pos_cases p emin x hx with h' | h'
  · rw [h']; exact h
  · rw [h']
    apply roundPos_ge_nat p emin _ _ c h2 (ue_nonpos p emin x hx hemin hlt)
    rw [h3]; exact h

/-- natural numbers below `2^p` are representable -/
theorem roundTo_nat (p : Nat) (emin : Int) (n : ℕ) (h : n < 2 ^ p) (hemin : emin ≤ 0) : roundTo p emin (n : ℚ) = n := by
  unfold roundTo
  split
  · rename_i h0
    have : n = 0 := by simpa using h0
    subst this; simp
  · rename_i h0
    have hn : n ≠ 0 := by simpa using h0
    have hrep : isRep p emin (n : ℚ).num.natAbs (n : ℚ).den = true := by
      simp only [Rat.num_natCast, Rat.den_natCast, Int.natAbs_natCast]
      unfold isRep
      have : n.log2 < p := (Nat.log2_lt hn).mpr h
      have h1 : Nat.log2 1 = 0 := by decide
      simp [this, h1]
    simp only [Rat.num_natCast, Rat.den_natCast, Int.natAbs_natCast] at hrep
    simp [hrep]

/-! ## `Fmt.rnd` -/

theorem rnd_fin (f : Fmt) (x : ℚ) (h0 : 0 ≤ roundTo f.p f.emin x) (h : roundTo f.p f.emin x < (2 : ℚ) ^ f.emax) :
    f.rnd x = .fin (roundTo f.p f.emin x) := by
  unfold Fmt.rnd
  simp only []
  generalize roundTo f.p f.emin x = r at *
  split
  · rfl
  · rename_i hne
    have hr : 0 < r := by
      rcases lt_or_eq_of_le h0 with h1 | h1
      · exact h1
      · exfalso; apply hne; rw [← h1]; rfl
    have : lg r < f.emax := lg_lt r hr _ h
    have : ¬ f.emax ≤ ilog2 r.num.natAbs r.den := by
      show ¬ f.emax ≤ lg r
      omega
    simp [this]

theorem b32_ofNat (n : ℕ) (h : n < 2 ^ 24) : b32.ofNat n = .fin (n : ℚ) := by
  unfold Fmt.ofNat
  have hr : roundTo b32.p b32.emin (n : ℚ) = n := roundTo_nat 24 (-149) n h (by norm_num)
  rw [rnd_fin b32 _ (by rw [hr]; positivity) ?_, hr]
  rw [hr]
  have : (n : ℚ) < 2 ^ 24 := by exact_mod_cast h
  calc (n : ℚ) < 2 ^ 24 := this
    _ ≤ (2 : ℚ) ^ b32.emax := by
      show (2 : ℚ) ^ 24 ≤ (2 : ℚ) ^ (128 : ℤ)
      norm_num

/-- rounding a positive value of the normal binary32 range: finite, positive, relative error
`2^-24`, inside the closed binade -/
theorem b32_rnd_normal (x : ℚ) (hlo : (2 : ℚ) ^ (-126 : ℤ) ≤ x) (hhi : x < (2 : ℚ) ^ (127 : ℤ)) :
    ∃ r : ℚ, b32.rnd x = .fin r ∧ r = roundTo 24 (-149) x ∧ 0 < r ∧
      |r - x| ≤ x * (2 : ℚ) ^ (-24 : ℤ) ∧ (2 : ℚ) ^ (lg x) ≤ r ∧ r ≤ (2 : ℚ) ^ (lg x + 1) := by
  have hx : 0 < x := lt_of_lt_of_le (two_zpow_pos _) hlo
  have h1 : (-126 : ℤ) ≤ lg x := le_lg x hx _ hlo
  have h2 : lg x < 127 := lg_lt x hx _ hhi
  have hb := roundTo_binade 24 (-149) x hx (by norm_num) (by omega)
  have hpos := roundTo_pos 24 (-149) x hx (by norm_num) (by omega)
  have hrel := roundTo_rel 24 (-149) x hx (by push_cast; omega)
  refine ⟨roundTo 24 (-149) x, ?_, rfl, hpos, hrel, hb.1, hb.2⟩
  apply rnd_fin b32 x hpos.le
  calc roundTo 24 (-149) x ≤ (2 : ℚ) ^ (lg x + 1) := hb.2
    _ ≤ (2 : ℚ) ^ (127 : ℤ) := zpow_le_zpow_right₀ (by norm_num) (by omega)
    _ < (2 : ℚ) ^ (128 : ℤ) := by norm_num

theorem b64_rnd_normal (x : ℚ) (hlo : (2 : ℚ) ^ (-1022 : ℤ) ≤ x) (hhi : x < (2 : ℚ) ^ (1023 : ℤ)) :
    ∃ r : ℚ, b64.rnd x = .fin r ∧ r = roundTo 53 (-1074) x ∧ 0 < r ∧
      |r - x| ≤ x * (2 : ℚ) ^ (-53 : ℤ) ∧ (2 : ℚ) ^ (lg x) ≤ r ∧ r ≤ (2 : ℚ) ^ (lg x + 1) := by
  have hx : 0 < x := lt_of_lt_of_le (two_zpow_pos _) hlo
  have h1 : (-1022 : ℤ) ≤ lg x := le_lg x hx _ hlo
  have h2 : lg x < 1023 := lg_lt x hx _ hhi
  have hb := roundTo_binade 53 (-1074) x hx (by norm_num) (by omega)
  have hpos := roundTo_pos 53 (-1074) x hx (by norm_num) (by omega)
  have hrel := roundTo_rel 53 (-1074) x hx (by push_cast; omega)
  refine ⟨roundTo 53 (-1074) x, ?_, rfl, hpos, hrel, hb.1, hb.2⟩
  apply rnd_fin b64 x hpos.le
  calc roundTo 53 (-1074) x ≤ (2 : ℚ) ^ (lg x + 1) := hb.2
    _ ≤ (2 : ℚ) ^ (1023 : ℤ) := zpow_le_zpow_right₀ (by norm_num) (by omega)
    _ < (2 : ℚ) ^ (1024 : ℤ) := by
      apply zpow_lt_zpow_right₀ (by norm_num) (by norm_num)

theorem roundTo_nonneg (p : Nat) (emin : Int) (x : ℚ) (hx : 0 < x) : 0 ≤ roundTo p emin x := by
  rcases roundTo_pos_cases p emin x hx with h | h
  · rw [h]; exact hx.le
  · rw [h]
    obtain ⟨a, b, _, _, hr⟩ := roundPos_eq p emin x.num.natAbs x.den x.den_pos
    rw [hr]
    exact mul_nonneg (by positivity) (two_zpow_pos _).le

theorem roundTo_zero (p : Nat) (emin : Int) : roundTo p emin 0 = 0 := by
  unfold roundTo; simp

theorem toNatSat_le (max : ℕ) (r : ℚ) (c : ℕ) (h : r ≤ c) : (Fl.fin r).toNatSat max ≤ c := by
  unfold Fl.toNatSat
  simp only []
  split
  · omega
  · have h1 : ((r.floor : ℤ) : ℚ) ≤ r := Int.floor_le r
    have h2 : (r.floor : ℤ) ≤ (c : ℤ) := by
      have : ((r.floor : ℤ) : ℚ) ≤ ((c : ℤ) : ℚ) := by push_cast; linarith
      exact_mod_cast this
    have : r.floor.toNat ≤ c := by omega
    exact le_trans (Nat.min_le_left _ _) this


/-! ## exactness on dyadic values -/

/-- a positive dyadic `m / 2^k` with `m < 2^p`, `k ≤ -emin` is a value of the format -/
theorem roundTo_dyadic (p : Nat) (emin : Int) (m k : ℕ) (hm : 0 < m) (hm2 : m < 2 ^ p)
    (hk : k ≤ (-emin).toNat) : roundTo p emin ((m : ℚ) / 2 ^ k) = (m : ℚ) / 2 ^ k := by
  set z : ℚ := (m : ℚ) / 2 ^ k with hz
  have hzpos : 0 < z := by rw [hz]; positivity
  obtain ⟨hn1, hd1, _, hnum⟩ := num_den_pos z hzpos
  have hz' : z = Rat.divInt (m : ℤ) ((2 ^ k : ℕ) : ℤ) := by rw [hz, Rat.divInt_eq_div]; push_cast; ring
  -- the denominator divides 2^k, the numerator divides m
  have hden : (z.den : ℤ) ∣ ((2 ^ k : ℕ) : ℤ) := by rw [hz']; exact Rat.den_dvd _ _
  have hnumd : z.num ∣ (m : ℤ) := by
    rw [hz']; exact Rat.num_dvd _ (by positivity)
  have hden' : z.den ∣ 2 ^ k := by exact_mod_cast hden
  obtain ⟨i, hik, hi⟩ := (Nat.dvd_prime_pow Nat.prime_two).1 hden'
  have hnle : z.num.natAbs ≤ m := by
    have : z.num.natAbs ∣ m := by
      have := Int.natAbs_dvd_natAbs.mpr hnumd
      simpa using this
    exact Nat.le_of_dvd hm this
  unfold roundTo
  have h0 : ¬ z.num = 0 := by omega
  simp only [h0, if_false]
  have hrep : isRep p emin z.num.natAbs z.den = true := by
    unfold isRep
    have h1 : z.num.natAbs.log2 < p := (Nat.log2_lt (by omega)).mpr (by omega)
    have h2 : z.den.log2 = i := by rw [hi]; exact Nat.log2_two_pow
    simp only [h1, h2, decide_true, Bool.true_and, Bool.and_eq_true, beq_iff_eq, decide_eq_true_eq]
    exact ⟨hi, by omega⟩
  simp [hrep]

theorem roundTo_pos_cases' (p : Nat) (emin : Int) (x : ℚ) (hx : 0 < x) :
    (roundTo p emin x = x ∧ isRep p emin x.num.natAbs x.den = true) ∨
      roundTo p emin x = roundPos p emin x.num.natAbs x.den := by
  obtain ⟨_, _, _, hnum⟩ := num_den_pos x hx
  unfold roundTo
  have h0 : ¬ x.num = 0 := by omega
  have h1 : ¬ x.num < 0 := by omega
  simp only [h0, h1, if_false]
  split
  · rename_i h; left; exact ⟨rfl, h⟩
  · right; rfl

/-- a rounded binary32 value in `[1/2, 2^23)` is `m / 2^k` with `m < 2^24`, `k ≤ 25` -/
theorem roundTo_is_dyadic (x : ℚ) (hlo : 1 / 2 ≤ x) (hhi : x < 2 ^ 23) :
    ∃ m k : ℕ, 0 < m ∧ m < 2 ^ 24 ∧ k ≤ 25 ∧ roundTo 24 (-149) x = (m : ℚ) / 2 ^ k := by
  have hx : 0 < x := by linarith
  obtain ⟨hn1, hd1, hxe, hnum⟩ := num_den_pos x hx
  have hlg1 : (-1 : ℤ) ≤ lg x := le_lg x hx _ (by rw [zpow_neg]; norm_num; linarith)
  have hlg2 : lg x < 23 := lg_lt x hx _ (by norm_num; exact hhi)
  rcases roundTo_pos_cases' 24 (-149) x hx with ⟨h, hrep⟩ | h
  · -- already representable: x = n / 2^i
    unfold isRep at hrep
    simp only [Bool.and_eq_true, decide_eq_true_eq, beq_iff_eq] at hrep
    obtain ⟨⟨hn, hd⟩, _⟩ := hrep
    have hn' : x.num.natAbs < 2 ^ 24 := (Nat.log2_lt (by omega)).mp hn
    refine ⟨x.num.natAbs, x.den.log2, hn1, hn', ?_, ?_⟩
    · -- 2^i ≤ 2 n < 2^25
      by_contra hc
      have hc' : 26 ≤ x.den.log2 := by omega
      have h26 : 2 ^ 26 ≤ x.den := by
        rw [hd]; exact Nat.pow_le_pow_right (by norm_num) hc'
      have hdq : (0 : ℚ) < x.den := by exact_mod_cast hd1
      have h1 : (x.den : ℚ) ≤ 2 * (x.num.natAbs : ℚ) := by
        have := hlo
        rw [← hxe, le_div_iff₀ hdq] at this
        linarith
      have h2 : ((2 ^ 26 : ℕ) : ℚ) ≤ (x.den : ℚ) := by exact_mod_cast h26
      have h3 : (x.num.natAbs : ℚ) < ((2 ^ 24 : ℕ) : ℚ) := by exact_mod_cast hn'
      push_cast at h2 h3
      linarith
    · rw [h]
      have : ((2 : ℚ) ^ x.den.log2) = (x.den : ℚ) := by
        have : (x.den : ℚ) = ((2 ^ x.den.log2 : ℕ) : ℚ) := by rw [← hd]
        rw [this]; push_cast; rfl
      rw [this, hxe]
  · -- rounded: M · 2^e with e = lg x - 23
    obtain ⟨a, b, hb, hab, hr⟩ := roundPos_eq 24 (-149) x.num.natAbs x.den hd1
    have he : ulpExp 24 (-149) x.num.natAbs x.den = lg x - 23 := by
      show ue 24 (-149) x = lg x - 23
      unfold ue; push_cast; omega
    rw [he] at hab hr
    rw [hxe] at hab
    obtain ⟨hslo, hshi⟩ := lg_spec x hx
    have het := two_zpow_pos (lg x - 23)
    have hM1 : 2 ^ 23 ≤ rneDiv a b := by
      apply rneDiv_ge_q a b _ hb
      rw [hab, le_div_iff₀ het]
      have : ((2 ^ 23 : ℕ) : ℚ) * (2 : ℚ) ^ (lg x - 23) = (2 : ℚ) ^ (lg x) := by
        have e : ((2 ^ 23 : ℕ) : ℚ) = (2 : ℚ) ^ (23 : ℤ) := by norm_num
        rw [e, ← zpow_add₀ (by norm_num : (2 : ℚ) ≠ 0)]; congr 1; ring
      rw [this]; exact hslo
    have hM2 : rneDiv a b ≤ 2 ^ 24 := by
      apply rneDiv_le_q a b _ hb
      rw [hab, div_le_iff₀ het]
      have : ((2 ^ 24 : ℕ) : ℚ) * (2 : ℚ) ^ (lg x - 23) = (2 : ℚ) ^ (lg x + 1) := by
        have e : ((2 ^ 24 : ℕ) : ℚ) = (2 : ℚ) ^ (24 : ℤ) := by norm_num
        rw [e, ← zpow_add₀ (by norm_num : (2 : ℚ) ≠ 0)]; congr 1; ring
      rw [this]; exact hshi.le
    obtain ⟨k, hk⟩ : ∃ k : ℕ, lg x - 23 = -(k : ℤ) := ⟨(23 - lg x).toNat, by omega⟩
    have hk1 : 1 ≤ k ∧ k ≤ 24 := by omega
    rw [h, hr, hk, zpow_neg, zpow_natCast]
    by_cases hM : rneDiv a b < 2 ^ 24
    · exact ⟨rneDiv a b, k, by omega, hM, by omega, by rw [div_eq_mul_inv]⟩
    · have hMe : rneDiv a b = 2 ^ 24 := by omega
      refine ⟨2 ^ 23, k - 1, by positivity, by norm_num, by omega, ?_⟩
      rw [hMe]
      obtain ⟨k', rfl⟩ : ∃ k', k = k' + 1 := ⟨k - 1, by omega⟩
      simp only [Nat.add_sub_cancel]
      push_cast
      rw [pow_succ]
      field_simp
      norm_num

end Autd3.Flt
