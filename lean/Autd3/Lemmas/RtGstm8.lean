import Autd3.Lemmas.RtGstm7
/-!
GainSTM, part 8: what the firmware's mode functions read from the words the driver packed
(`gstmData_words`), for the three modes.
-/
set_option linter.unusedSimpArgs false
open Autd3 Autd3.Fw Autd3.Wire Autd3.Gen.Cpu Autd3.Gen
namespace Autd3.Rt

theorem or_add (a x i : Nat) (hx : x < 2 ^ i) (ha : a % 2 ^ i = 0) : a ||| x = a + x := by
  have : a = 2 ^ i * (a / 2 ^ i) := by
    have := Nat.div_add_mod a (2 ^ i); omega
  rw [this, ← Nat.two_pow_add_eq_or_of_lt hx]

theorem size_gstmStep (mode hoff : Nat) (g b : Array Nat) (j t : Nat) : (gstmStep mode hoff g b j t).size = b.size := by
  unfold gstmStep; split
  · simp
  · split <;> simp

theorem u8at_gstmStep_low (mode hoff : Nat) (g b : Array Nat) (j t x : Nat) (hx : x < hoff) :
    u8at (gstmStep mode hoff g b j t) x = u8at b x := by
  unfold gstmStep; split
  · rw [u8at_put16, if_neg (by omega), if_neg (by omega)]
  · split
    · rw [u8at_put8, if_neg (by omega)]
    · rw [u8at_put8, if_neg (by omega)]

theorem gstmData_low (mode hoff nt : Nat) (patterns : Array (Array Nat)) (c : Nat) (b : Array Nat) (send : Nat) :
    (gstmData mode hoff nt patterns c b send).size = b.size ∧
    ∀ x, x < hoff → u8at (gstmData mode hoff nt patterns c b send) x = u8at b x := by
  unfold gstmData
  refine iter_inv (fun y : Array Nat => y.size = b.size ∧ ∀ x, x < hoff → u8at y x = u8at b x) _ b ⟨rfl, fun _ _ => rfl⟩ ?_ send
  intro y j hy
  refine iter_inv (fun z : Array Nat => z.size = b.size ∧ ∀ x, x < hoff → u8at z x = u8at b x) _ y hy ?_ nt
  intro z t hz
  exact ⟨by rw [size_gstmStep]; exact hz.1, fun x hx => by rw [u8at_gstmStep_low _ _ _ _ _ _ _ hx]; exact hz.2 x hx⟩

/-- mode 0: the word is the drive word -/
theorem gstmData_words0 (hoff nt : Nat) (patterns : Array (Array Nat)) (c : Nat) (b : Array Nat) (hb : b.size = 622)
    (hfit : hoff + 2 * nt ≤ 622) (i : Nat) (hi : i < nt) :
    u16at (gstmData 0 hoff nt patterns c b 1) (hoff + 2 * i) = rd (patAt patterns (c + 0)) i % 65536 := by
  have := (iter2_cells (fun b j t => gstmStep 0 hoff (patAt patterns (c + j)) b j t)
    (fun b t _ => u16at b (hoff + 2 * t)) (fun j t => rd (patAt patterns (c + j)) t % 65536)
    (fun b => b.size = 622) 1 nt
    (fun b j t hP => by rw [size_gstmStep]; exact hP)
    (fun b j t hP hj ht => by
      show u16at (gstmStep 0 hoff _ b j t) _ = _
      unfold gstmStep; rw [if_pos (by decide), u16at_put16_same _ _ _ (by omega)])
    (fun b j t t' k hP hj ht hk ht' hne => by
      show u16at (gstmStep 0 hoff _ b j t) _ = _
      unfold gstmStep; rw [if_pos (by decide), u16at_put16_other _ _ _ _ (by omega)])
    1 (Nat.le_refl _) b hb).2.1 0 (by omega) i hi
  exact this

/-- mode 1: byte `k` of the word is the phase of pattern `c + k` -/
theorem gstmData_bytes1 (hoff nt : Nat) (patterns : Array (Array Nat)) (c : Nat) (b : Array Nat) (hb : b.size = 622)
    (hfit : hoff + 2 * nt ≤ 622) (send : Nat) (hs : send ≤ 2) (k : Nat) (hk : k < send) (i : Nat) (hi : i < nt) :
    u8at (gstmData 1 hoff nt patterns c b send) (hoff + 2 * i + k) = rd (patAt patterns (c + k)) i % 256 := by
  have := (iter2_cells (fun b j t => gstmStep 1 hoff (patAt patterns (c + j)) b j t)
    (fun b t k => u8at b (hoff + 2 * t + k)) (fun j t => rd (patAt patterns (c + j)) t % 256)
    (fun b => b.size = 622) 2 nt
    (fun b j t hP => by rw [size_gstmStep]; exact hP)
    (fun b j t hP hj ht => by
      show u8at (gstmStep 1 hoff _ b j t) _ = _
      unfold gstmStep
      rw [if_neg (by decide), if_pos (by decide), u8at_put8, if_pos ⟨rfl, by omega⟩]; omega)
    (fun b j t t' k hP hj ht hk ht' hne => by
      show u8at (gstmStep 1 hoff _ b j t) _ = _
      unfold gstmStep
      rw [if_neg (by decide), if_pos (by decide), u8at_put8, if_neg (by omega)])
    send hs b hb).2.1 k hk i hi
  exact this

/-- mode 2: nibble `k` of the word is the upper phase nibble of pattern `c + k` -/
theorem gstmData_nibs2 (hoff nt : Nat) (patterns : Array (Array Nat)) (c : Nat) (b : Array Nat) (hb : b.size = 622)
    (hfit : hoff + 2 * nt ≤ 622) (send : Nat) (hs : send ≤ 4) (k : Nat) (hk : k < send) (i : Nat) (hi : i < nt) :
    (u8at (gstmData 2 hoff nt patterns c b send) (hoff + 2 * i + k / 2) / 16 ^ (k % 2)) % 16 =
      rd (patAt patterns (c + k)) i % 256 / 16 := by
  have := (iter2_cells (fun b j t => gstmStep 2 hoff (patAt patterns (c + j)) b j t)
    (fun b t k => (u8at b (hoff + 2 * t + k / 2) / 16 ^ (k % 2)) % 16) (fun j t => rd (patAt patterns (c + j)) t % 256 / 16)
    (fun b => b.size = 622) 4 nt
    (fun b j t hP => by rw [size_gstmStep]; exact hP)
    (fun b j t hP hj ht => by
      show (u8at (gstmStep 2 hoff _ b j t) _ / _) % 16 = _
      unfold gstmStep
      rw [if_neg (by decide), if_neg (by decide), u8at_put8, if_pos ⟨rfl, by omega⟩]
      by_cases h : j % 2 = 0
      · rw [if_pos h, h]; simp only [Nat.pow_zero, Nat.div_one]; omega
      · rw [if_neg h, show j % 2 = 1 from by omega]; simp only [Nat.pow_one]; omega)
    (fun b j t t' k hP hj ht hk ht' hne => by
      show (u8at (gstmStep 2 hoff _ b j t) _ / _) % 16 = _
      unfold gstmStep
      rw [if_neg (by decide), if_neg (by decide), u8at_put8]
      by_cases hsame : hoff + 2 * t' + k / 2 = hoff + 2 * t + j / 2
      · rw [if_pos ⟨hsame, by omega⟩, hsame]
        have hu : u8at b (hoff + 2 * t + j / 2) = rd b (hoff + 2 * t + j / 2) % 256 := rfl
        rw [hu]
        by_cases h : j % 2 = 0
        · rw [if_pos h, show k % 2 = 1 from by omega]; simp only [Nat.pow_one]; omega
        · rw [if_neg h, show k % 2 = 0 from by omega]; simp only [Nat.pow_zero, Nat.div_one]; omega
      · rw [if_neg (fun hh => hsame hh.1)])
    send hs b hb).2.1 k hk i hi
  exact this

theorem gstmFns_length (mode send : Nat) (hm : mode ≤ 2) (hs : 1 ≤ send ∧ send ≤ perFrame mode) :
    (gstmFns mode send).length = send := by
  rcases (show mode = 0 ∨ mode = 1 ∨ mode = 2 by omega) with h | h | h <;> subst h
  · have : send = 1 := by simp [perFrame] at hs; omega
    subst this; rfl
  · have : send = 1 ∨ send = 2 := by simp [perFrame] at hs; omega
    rcases this with h | h <;> subst h <;> rfl
  · have : send = 1 ∨ send = 2 ∨ send = 3 ∨ send = 4 := by simp [perFrame] at hs; omega
    rcases this with h | h | h | h <;> subst h <;> rfl

theorem fPhaseLo_val (b0 b1 : Nat) (h0 : b0 < 256) : fPhaseLo (b0 + 256 * b1) = 0xFF00 + b0 := by
  unfold fPhaseLo
  rw [show (0x00FF : Nat) = 2 ^ 8 - 1 from rfl, Nat.and_two_pow_sub_one_eq_mod, show (b0 + 256 * b1) % 2 ^ 8 = b0 from by omega,
    or_add _ _ 8 (by simpa using h0) (by decide)]

theorem fPhaseHi_val (b0 b1 : Nat) (h0 : b0 < 256) (h1 : b1 < 256) : fPhaseHi (b0 + 256 * b1) = 0xFF00 + b1 := by
  unfold fPhaseHi
  rw [Nat.shiftRight_eq_div_pow, show (0x00FF : Nat) = 2 ^ 8 - 1 from rfl, Nat.and_two_pow_sub_one_eq_mod,
    show (b0 + 256 * b1) / 2 ^ 8 % 2 ^ 8 = b1 from by omega, or_add _ _ 8 (by simpa using h1) (by decide)]

theorem fNib_val (k u : Nat) : fNib k u = 0xFF00 + (u / 16 ^ k % 16) * 17 := by
  unfold fNib
  simp only []
  have e1 : (2 : Nat) ^ (4 * k) = 16 ^ k := by rw [Nat.pow_mul]
  rw [Nat.shiftRight_eq_div_pow, show (0x000F : Nat) = 2 ^ 4 - 1 from rfl, Nat.and_two_pow_sub_one_eq_mod, e1,
    show (2 : Nat) ^ 4 = 16 from rfl, Nat.shiftLeft_eq]
  have hp : u / 16 ^ k % 16 < 16 := Nat.mod_lt _ (by decide)
  generalize u / 16 ^ k % 16 = p at hp ⊢
  rw [or_add 0xFF00 (p * 2 ^ 4) 8 (by simp only [Nat.reducePow]; omega) (by decide),
    or_add _ p 4 (by simpa using hp) (by simp only [Nat.reducePow]; omega)]
  simp only [Nat.reducePow]; omega

/-- the firmware's mode functions applied to the packed words give the expected drives -/
theorem gstm_hd (mode hoff nt : Nat) (patterns : Array (Array Nat)) (c : Nat) (b : Array Nat) (send : Nat) (d : Array Nat)
    (hm : mode ≤ 2) (hb : b.size = 622) (hfit : hoff + 2 * nt ≤ 622) (hs : 1 ≤ send ∧ send ≤ perFrame mode)
    (hdx : ∀ x, hoff ≤ x → u8at d x = u8at (gstmData mode hoff nt patterns c b send) x)
    (hw : ∀ idx i, rd (patAt patterns idx) i < 65536) :
    ∀ j, j < (gstmFns mode send).length → ∀ i, i < nt →
      nthF (gstmFns mode send) j (u16at d (hoff + 2 * i)) % 65536 = expDrive mode (rd (patAt patterns (c + j)) i) := by
  intro j hj i hi
  rw [gstmFns_length mode send hm hs] at hj
  have hu : u16at d (hoff + 2 * i) = u8at (gstmData mode hoff nt patterns c b send) (hoff + 2 * i) +
      256 * u8at (gstmData mode hoff nt patterns c b send) (hoff + 2 * i + 1) := by
    unfold u16at; rw [hdx _ (by omega), hdx _ (by omega)]
  have hb0 := u8at_lt (gstmData mode hoff nt patterns c b send) (hoff + 2 * i)
  have hb1 := u8at_lt (gstmData mode hoff nt patterns c b send) (hoff + 2 * i + 1)
  rcases (show mode = 0 ∨ mode = 1 ∨ mode = 2 by omega) with h | h | h <;> subst h
  · have hs1 : send = 1 := by simp [perFrame] at hs; omega
    subst hs1
    have hj0 : j = 0 := by omega
    subst hj0
    have := gstmData_words0 hoff nt patterns c b hb hfit i hi
    unfold u16at at this
    rw [hu, show gstmFns 0 1 = [id] from rfl, nthF_zero]
    have hwv := hw (c + 0) i
    unfold expDrive; simp only [if_true, id]; omega
  · have hs2 : send ≤ 2 := by simp [perFrame] at hs; omega
    have h0 := gstmData_bytes1 hoff nt patterns c b hb hfit send hs2 0 (by omega) i hi
    rw [Nat.add_zero] at h0
    unfold expDrive; simp only [show ¬ (1 : Nat) = 0 from by decide, if_false, if_true]
    rcases (show j = 0 ∨ j = 1 by omega) with hj0 | hj1
    · subst hj0
      have : nthF (gstmFns 1 send) 0 = fPhaseLo := by
        unfold gstmFns; simp only [show ¬ (1 : Nat) = 0 from by decide, if_false, if_true]; split <;> rfl
      rw [this, hu, fPhaseLo_val _ _ hb0, h0]; omega
    · subst hj1
      have hs2' : send = 2 := by omega
      subst hs2'
      have h1 := gstmData_bytes1 hoff nt patterns c b hb hfit 2 (by omega) 1 (by omega) i hi
      rw [show gstmFns 1 2 = [fPhaseLo, fPhaseHi] from rfl, nthF_succ, nthF_zero, hu, fPhaseHi_val _ _ hb0 hb1, h1]; omega
  · have hs4 : send ≤ 4 := by simp [perFrame] at hs; omega
    have hn := gstmData_nibs2 hoff nt patterns c b hb hfit send hs4 j hj i hi
    have hf : nthF (gstmFns 2 send) j = fNib j := by
      have : send = 1 ∨ send = 2 ∨ send = 3 ∨ send = 4 := by omega
      rcases this with h | h | h | h <;> subst h <;>
        rcases (show j = 0 ∨ j = 1 ∨ j = 2 ∨ j = 3 by omega) with h | h | h | h <;> subst h <;> first | rfl | omega
    rw [hf, fNib_val, hu]
    unfold expDrive; simp only [show ¬ (2 : Nat) = 0 from by decide, show ¬ (2 : Nat) = 1 from by decide, if_false]
    have key : (u8at (gstmData 2 hoff nt patterns c b send) (hoff + 2 * i) +
        256 * u8at (gstmData 2 hoff nt patterns c b send) (hoff + 2 * i + 1)) / 16 ^ j % 16 =
        rd (patAt patterns (c + j)) i % 256 / 16 := by
      rw [← hn]
      rcases (show j = 0 ∨ j = 1 ∨ j = 2 ∨ j = 3 by omega) with h | h | h | h <;> subst h <;>
        simp only [Nat.reducePow, Nat.reduceDiv, Nat.reduceMod, Nat.add_zero, Nat.div_one] <;> omega
    rw [key]; omega

end Autd3.Rt
