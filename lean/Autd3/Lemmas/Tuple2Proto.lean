import Autd3.Lemmas.Rt2SlotGain
import Autd3.Lemmas.Rt2Obs
/-!
General tuples, part 1: the interface between the pair-loop engine (`Tuple2Engine.lean`) and the four data
datagram kinds.  A `Proto` describes one multi-frame datagram as a chunk protocol:

* `opAt c` is the driver-side operation state after `c` units (samples / patterns) have been sent,
  `opAt 0 = Op.ofDg dg`, `opAt total` is done;
* `Ready sH` is what the BEGIN frame needs of the state its handler is called on (well-formedness, the two
  firmware guards, the integer-level side conditions of the datagram);
* `Mid s0 s c` (`0 < c < total`) is the invariant between frames, relative to the base `s0` = the state the
  BEGIN handler was called on; `Done s0 s` is what a complete send leaves behind;
* `Own` is a footprint of one handler call of this datagram, `Other` what the handlers of the *other* member
  of a tuple may do in between without disturbing `Mid` / `Done`; `OwnT` is a reflexive, transitive relation
  containing `Own` and the per-frame bookkeeping (`ack`, `lastMsgId`, `rxData`, the `CTL_FLAG` rewrite).

The one substantial law is `step`: `pack` at ANY even offset `k` that leaves room (slot 1: `k = 0`, slot 2:
`k` = size of the first operation) advances the operation, keeps the bytes below `k`, and the firmware handler
called on `payload[k..]` — of ANY buffer that agrees with the packed one on the `sz` bytes reported — accepts
and re-establishes the invariant.
-/
open Autd3 Autd3.Fw Autd3.Wire Autd3.Gen.Cpu Autd3.Gen Autd3.Rt
namespace Autd3.Tuple2

/-- everything on the modulation side (what `write_mod` reads or a Modulation invariant mentions) is the same -/
structure KeepM (s s' : State) : Prop where
  mem0 : s'.modMem0 = s.modMem0
  mem1 : s'.modMem1 = s.modMem1
  swap : s'.modSwap = s.modSwap
  cycle : s'.modCycle = s.modCycle
  div : s'.modDiv = s.modDiv
  rep : s'.modRep = s.modRep
  segment : s'.modSegment = s.modSegment
  trMode : s'.modTrMode = s.modTrMode
  trValue : s'.modTrValue = s.modTrValue
  regs : ∀ a, 32 ≤ a → a ≤ 45 → reg s' a = reg s a
  time : s'.dcSysTime = s.dcSysTime
  numTr : s'.numTr = s.numTr

/-- everything on the STM side (what `write_gain` / `write_foci_stm` / `write_gain_stm` read or their invariants
mention) is the same, and the phase correction the STM read-back adds -/
structure KeepS (s s' : State) : Prop where
  mem0 : s'.stmMem0 = s.stmMem0
  mem1 : s'.stmMem1 = s.stmMem1
  swap : s'.stmSwap = s.stmSwap
  write : s'.stmWrite = s.stmWrite
  cycle : s'.stmCycle = s.stmCycle
  mode : s'.stmMode = s.stmMode
  rep : s'.stmRep = s.stmRep
  div : s'.stmDiv = s.stmDiv
  segment : s'.stmSegment = s.stmSegment
  trMode : s'.stmTrMode = s.stmTrMode
  trValue : s'.stmTrValue = s.stmTrValue
  gainStmMode : s'.gainStmMode = s.gainStmMode
  numFoci : s'.numFoci = s.numFoci
  regs : ∀ a, 80 ≤ a → a ≤ 99 → reg s' a = reg s a
  phaseCorr : s'.phaseCorr = s.phaseCorr
  time : s'.dcSysTime = s.dcSysTime
  numTr : s'.numTr = s.numTr

/-- controller registers an STM-side handler may write: `CTL_FLAG` and the STM block -/
def TS (a : Nat) : Prop := a = 0 ∨ (80 ≤ a ∧ a ≤ 99)

theorem TG_TS (a : Nat) (h : TG a) : TS a := by unfold TG at h; unfold TS; omega
theorem TF_TS (seg : Nat) (hseg : seg ≤ 1) (a : Nat) (h : TF seg a) : TS a := by unfold TF TG at h; unfold TS; omega

theorem KeepM_of_footS {s s' : State} (h : Foot eraseS TS s s') : KeepM s s' := by
  have f : ∀ {α : Type} (p : State → α), p (eraseS s') = p (eraseS s) := fun p => congrArg p h.eq
  exact ⟨f State.modMem0, f State.modMem1, f State.modSwap, f State.modCycle, f State.modDiv, f State.modRep,
    f State.modSegment, f State.modTrMode, f State.modTrValue, fun a h1 h2 => h.regs a (by unfold TS; omega),
    f State.dcSysTime, f State.numTr⟩

theorem KeepS_of_footM {s s' : State} (h : Foot eraseM TM s s') : KeepS s s' := by
  have f : ∀ {α : Type} (p : State → α), p (eraseM s') = p (eraseM s) := fun p => congrArg p h.eq
  exact ⟨f State.stmMem0, f State.stmMem1, f State.stmSwap, f State.stmWrite, f State.stmCycle, f State.stmMode,
    f State.stmRep, f State.stmDiv, f State.stmSegment, f State.stmTrMode, f State.stmTrValue, f State.gainStmMode,
    f State.numFoci, fun a h1 h2 => h.regs a (by unfold TM; omega), f State.phaseCorr, f State.dcSysTime, f State.numTr⟩

structure Proto where
  dg : Dg
  total : Nat
  opAt : Nat → Op
  Ready : State → Prop
  Mid : State → State → Nat → Prop
  Done : State → State → Prop
  Own : State → State → Prop
  OwnT : State → State → Prop
  Other : State → State → Prop

/-- what the handler of the frame that starts at progress `c` needs: `Ready` (and the base is the state itself)
for the BEGIN frame, `Mid` afterwards -/
def Proto.Pre (P : Proto) (s0 sH : State) (c : Nat) : Prop :=
  if c = 0 then s0 = sH ∧ P.Ready sH else P.Mid s0 sH c

/-- what it leaves at progress `c'` -/
def Proto.Post (P : Proto) (s0 s2 : State) (c' : Nat) : Prop :=
  if c' < P.total then P.Mid s0 s2 c' else P.Done s0 s2

structure Proto.Laws (P : Proto) : Prop where
  op0 : P.opAt 0 = Op.ofDg P.dg
  total_pos : 0 < P.total
  done_iff : ∀ c, c ≤ P.total → ((P.opAt c).done = true ↔ c = P.total)
  fits : ∀ c nt, c < P.total → nt ≤ 249 → (P.opAt c).required nt ≤ 622
  step : ∀ (c nt : Nat) (b : Array Nat) (k : Nat), c < P.total → nt ≤ 249 → b.size = 622 → k % 2 = 0 →
    k + (P.opAt c).required nt ≤ 622 →
    ∃ c' b' sz, (P.opAt c).pack nt b k = .ok (P.opAt c', b', sz) ∧ c < c' ∧ c' ≤ P.total ∧ Keeps k b b' ∧
      sz % 2 = 0 ∧ 0 < sz ∧ k + sz ≤ 622 ∧
      ∀ s0 sH, P.Pre s0 sH c → sH.numTr = nt → ∀ b'', b''.size = 622 →
        (∀ i, k ≤ i → i < k + sz → rd b'' i = rd b' i) →
        ∃ s2, handlePayload sH (b''.extract k 622) = .ok (s2, NO_ERR) ∧ s2.lastMsgId = sH.lastMsgId ∧
          P.Post s0 s2 c' ∧ P.Own sH s2
  ready_wf : ∀ s, P.Ready s → WF s
  mid_wf : ∀ s0 s c, P.Mid s0 s c → WF s
  done_wf : ∀ s0 s, P.Done s0 s → WF s
  mid_io : ∀ s0 s c a l r, P.Mid s0 s c → P.Mid s0 { s with ack := a, lastMsgId := l, rxData := r } c
  done_io : ∀ s0 s a l r, P.Done s0 s → P.Done s0 { s with ack := a, lastMsgId := l, rxData := r }
  mid_fin : ∀ s0 s c id, P.Mid s0 s c → P.Mid s0 (fin s id) c
  done_fin : ∀ s0 s id, P.Done s0 s → P.Done s0 (fin s id)
  mid_other : ∀ s0 s s' c, P.Mid s0 s c → P.Other s s' → WF s' → P.Mid s0 s' c
  done_other : ∀ s0 s s', P.Done s0 s → P.Other s s' → WF s' → P.Done s0 s'
  ownT_refl : ∀ s, P.OwnT s s
  ownT_trans : ∀ a b c, P.OwnT a b → P.OwnT b c → P.OwnT a c
  own_ownT : ∀ a b, P.Own a b → P.OwnT a b
  io_ownT : ∀ s a l r, P.OwnT s { s with ack := a, lastMsgId := l, rxData := r }
  fin_ownT : ∀ s id, s.ctl.size = 256 → P.OwnT s (fin s id)
  /-- the other member's handlers see the per-frame bookkeeping of this one's frames as harmless -/
  ownT_numTr : ∀ a b, P.OwnT a b → b.numTr = a.numTr

theorem Proto.Post_wf {P : Proto} (L : P.Laws) {s0 s : State} {c : Nat} (h : P.Post s0 s c) : WF s := by
  unfold Proto.Post at h
  split at h
  · exact L.mid_wf _ _ _ h
  · exact L.done_wf _ _ h

theorem Proto.Pre_wf {P : Proto} (L : P.Laws) {s0 s : State} {c : Nat} (h : P.Pre s0 s c) : WF s := by
  unfold Proto.Pre at h
  split at h
  · exact L.ready_wf _ h.2
  · exact L.mid_wf _ _ _ h

theorem Proto.Post_io {P : Proto} (L : P.Laws) {s0 s : State} {c : Nat} (h : P.Post s0 s c) (a l r : Nat) :
    P.Post s0 { s with ack := a, lastMsgId := l, rxData := r } c := by
  unfold Proto.Post at h ⊢
  split
  · rw [if_pos (by assumption)] at h; exact L.mid_io _ _ _ _ _ _ h
  · rw [if_neg (by assumption)] at h; exact L.done_io _ _ _ _ _ h

theorem Proto.Post_fin {P : Proto} (L : P.Laws) {s0 s : State} {c : Nat} (h : P.Post s0 s c) (id : Nat) :
    P.Post s0 (fin s id) c := by
  unfold Proto.Post at h ⊢
  split
  · rw [if_pos (by assumption)] at h; exact L.mid_fin _ _ _ _ h
  · rw [if_neg (by assumption)] at h; exact L.done_fin _ _ _ h

theorem Proto.Post_other {P : Proto} (L : P.Laws) {s0 s s' : State} {c : Nat} (h : P.Post s0 s c)
    (ho : P.Other s s') (hw : WF s') : P.Post s0 s' c := by
  unfold Proto.Post at h ⊢
  split
  · rw [if_pos (by assumption)] at h; exact L.mid_other _ _ _ _ h ho hw
  · rw [if_neg (by assumption)] at h; exact L.done_other _ _ _ h ho hw

/-- `Post` at a progress `0 < c < total` is `Pre` of the next frame -/
theorem Proto.Post_Pre {P : Proto} {s0 s : State} {c : Nat} (h : P.Post s0 s c) (h0 : 0 < c) (hc : c < P.total) :
    P.Pre s0 s c := by
  unfold Proto.Post at h
  unfold Proto.Pre
  rw [if_pos hc] at h
  rw [if_neg (by omega)]
  exact h

end Autd3.Tuple2
