import Autd3.Lemmas.Tuple2Engine
import Autd3.Lemmas.Tuple2Rest
import Autd3.Lemmas.Tuple2Mod
import Autd3.Lemmas.Tuple2Obs
/-!
General tuples, part 3: Modulation × an STM-side datagram, both orders, generically in the STM-side protocol
(`SKind`): the tuple is accepted whenever the two members are accepted one after the other, and the final device
states agree in every read-back observation (`TupleObsEq`).
-/
open Autd3 Autd3.Fw Autd3.Wire Autd3.Gen.Cpu Autd3.Gen Autd3.Rt
namespace Autd3.Tuple2

/-- every read-back observation of `s'` equals that of `s`: the modulation resource (`ModObsEq`), the STM / gain
resource (`StmObsEq`), and everything else (`RestSame`: phase correction, pulse-width table, silencer, debug, FPGA
state registers and the CPU-side configuration) -/
structure TupleObsEq (s s' : State) : Prop where
  mod : ModObsEq s s'
  stm : StmObsEq s s'
  rest : RestSame s s'
  ctlFlag : reg s' ADDR_CTL_FLAG = reg s ADDR_CTL_FLAG

theorem ctlFlag_of_settled {a b : State} (ha : Settled a) (hb : Settled b) (k : KeepR a b) :
    reg b ADDR_CTL_FLAG = reg a ADDR_CTL_FLAG := by
  unfold Settled at ha hb; rw [ha, hb, k.flagsInternal]

/-- what the pair theorems need of an STM-side protocol: the shape of its footprints, that its readiness depends
on the other side only through the values the strict-silencer guard reads, that two complete runs from bases that
agree on the STM side leave the same STM observations, and the CPU latches (`Ld`, `Ls` of the base) that the
Modulation's guard reads once the BEGIN frame has been handled -/
structure SKind (P : Proto) (Ld : State → Nat × Nat) (Ls : State → Nat) : Prop where
  laws : P.Laws
  own : ∀ a b, P.Own a b → Foot eraseS TS a b
  ownT : ∀ a b, P.OwnT a b → Foot eraseSI TS a b
  other : ∀ a b, KeepS a b → P.Other a b
  readyCongr : ∀ y x, P.Ready y → WF x → x.stmSegment = y.stmSegment →
    sel x.modDiv x.modSegment = sel y.modDiv y.modSegment → x.strict = y.strict → x.minDivI = y.minDivI →
    x.minDivP = y.minDivP → x.dcSysTime = y.dcSysTime → P.Ready x
  obs : ∀ b b' f f', P.Done b f → P.Done b' f' → KeepS b b' → f.phaseCorr = b.phaseCorr → f'.phaseCorr = b'.phaseCorr →
    f.numTr = b.numTr → f'.numTr = b'.numTr → StmObsEq f f'
  latch : ∀ b x c, 0 < c → P.Post b x c → x.stmDiv = Ld b ∧ x.stmSegment = Ls b
  latchCongr : ∀ b b', KeepS b b' → Ld b' = Ld b ∧ Ls b' = Ls b

/-! ### the Modulation protocol: readiness congruence and latches -/

theorem modReady_congr (seg : Nat) (tr : Tr) (rep div : Nat) (samples : Array Nat) {y x : State}
    (h : (modProto seg tr rep div samples).Ready y) (hW : WF x) (h1 : x.modSegment = y.modSegment)
    (h2 : sel x.stmDiv x.stmSegment = sel y.stmDiv y.stmSegment) (h3 : x.strict = y.strict)
    (h4 : x.minDivI = y.minDivI) (h5 : x.minDivP = y.minDivP) (h6 : x.dcSysTime = y.dcSysTime) :
    (modProto seg tr rep div samples).Ready x := by
  rw [modProto_ready] at h ⊢
  obtain ⟨_, H, g1, g2⟩ := h
  refine ⟨hW, ⟨H.seg, H.n2, H.n3, H.bytes, H.rep, H.div, fun m v e => by rw [h6]; exact H.tr m v e⟩, by rw [h1]; exact g1, ?_⟩
  unfold validateSilencerSettings at g2 ⊢
  rw [h2, h3, h4, h5]; exact g2

theorem modPost_latch (seg : Nat) (tr : Tr) (rep div : Nat) (samples : Array Nat) {b x : State} {c : Nat}
    (h : (modProto seg tr rep div samples).Post b x c) :
    x.modDiv = setSel b.modDiv seg div ∧
      x.modSegment = (if trMode tr = TRANSITION_MODE_NONE then b.modSegment else seg) := by
  unfold Proto.Post at h
  split at h
  · exact (modProto_mid seg tr rep div samples h).2
  · exact (modProto_done seg tr rep div samples h).2.2

theorem pre_fields (s : State) (id : Nat) :
    (pre s id).stmSegment = s.stmSegment ∧ (pre s id).stmDiv = s.stmDiv ∧ (pre s id).modSegment = s.modSegment ∧
    (pre s id).modDiv = s.modDiv ∧ (pre s id).strict = s.strict ∧ (pre s id).minDivI = s.minDivI ∧
    (pre s id).minDivP = s.minDivP ∧ (pre s id).dcSysTime = s.dcSysTime ∧ (pre s id).phaseCorr = s.phaseCorr ∧
    (pre s id).numTr = s.numTr := by
  obtain ⟨r, hr⟩ := pre_eq s id
  rw [hr]; exact ⟨rfl, rfl, rfl, rfl, rfl, rfl, rfl, rfl, rfl, rfl⟩

theorem KeepM_pre (s : State) (id : Nat) : KeepM s (pre s id) := by
  obtain ⟨r, hr⟩ := pre_eq s id
  rw [hr]; exact KeepM_io s s.ack id r
theorem KeepS_pre (s : State) (id : Nat) : KeepS s (pre s id) := by
  obtain ⟨r, hr⟩ := pre_eq s id
  rw [hr]; exact KeepS_io s s.ack id r
theorem KeepR_pre (s : State) (id : Nat) : KeepR s (pre s id) := by
  obtain ⟨r, hr⟩ := pre_eq s id
  rw [hr]; exact KeepR_io s s.ack id r

theorem compat_mod_S {PS : Proto} {Ld : State → Nat × Nat} {Ls : State → Nat} (K : SKind PS Ld Ls)
    (seg : Nat) (tr : Tr) (rep div : Nat) (samples : Array Nat) (hn2 : 2 ≤ samples.size) (hn3 : samples.size ≤ 65536) :
    Compat (modProto seg tr rep div samples) PS KeepR :=
  ⟨modProto_laws seg tr rep div samples hn2 hn3, K.laws,
    fun a b (h : Foot eraseM TM a b) => K.other a b (KeepS_of_footM h),
    fun a b h => (KeepM_of_footS (K.own a b h) : KeepM a b),
    KeepR.refl, fun _ _ _ => KeepR.trans,
    fun a b (h : Foot eraseMI TM a b) => KeepR_of_footM h,
    fun a b h => KeepR_of_footS (K.ownT a b h)⟩

theorem compat_S_mod {PS : Proto} {Ld : State → Nat × Nat} {Ls : State → Nat} (K : SKind PS Ld Ls)
    (seg : Nat) (tr : Tr) (rep div : Nat) (samples : Array Nat) (hn2 : 2 ≤ samples.size) (hn3 : samples.size ≤ 65536) :
    Compat PS (modProto seg tr rep div samples) KeepR :=
  ⟨K.laws, modProto_laws seg tr rep div samples hn2 hn3,
    fun a b h => (KeepM_of_footS (K.own a b h) : KeepM a b),
    fun a b (h : Foot eraseM TM a b) => K.other a b (KeepS_of_footM h),
    KeepR.refl, fun _ _ _ => KeepR.trans,
    fun a b h => KeepR_of_footS (K.ownT a b h),
    fun a b (h : Foot eraseMI TM a b) => KeepR_of_footM h⟩

/-- **(Modulation, X)**: if the Modulation sent alone from `(s, t)` is accepted (its BEGIN handler being ready on
`pre s id`) and ends in `(sA, tA)`, and `X` is ready on `pre sA id'` (i.e. would be accepted from there), then `X`
sent alone from `(sA, tA)` is accepted, the tuple `(Modulation, X)` sent from `(s, t)` is accepted, and the two
final states agree in every observation -/
theorem tuple_mod_S {PS : Proto} {Ld : State → Nat × Nat} {Ls : State → Nat} (K : SKind PS Ld Ls)
    (seg : Nat) (tr : Tr) (rep div : Nat) (samples : Array Nat) (hn2 : 2 ≤ samples.size) (hn3 : samples.size ≤ 65536)
    (s : State) (t : Tx) (hW : WF s) (ht : TxOK t) (hf : Fresh s t)
    (hRA : (modProto seg tr rep div samples).Ready (pre s (nextId t)))
    (tA : Tx) (sA : State) (hA : Sends (.modulation seg tr rep div samples) s t tA sA)
    (hRB : PS.Ready (pre sA (nextId tA))) :
    ∃ tB sB t2 s2, Sends PS.dg sA tA tB sB ∧ Sends2 (.modulation seg tr rep div samples) PS.dg s t t2 s2 ∧
      WF s2 ∧ TxOK t2 ∧ Fresh s2 t2 ∧ TupleObsEq sB s2 := by
  have LM := modProto_laws seg tr rep div samples hn2 hn3
  obtain ⟨tA', sA', hSA, hWA, hTA, hFA, hOA, hDA⟩ := single_roundtrip LM s t hW ht hf hRA
  obtain ⟨e1, e2⟩ := Sends_unique hA hSA
  subst e1 e2
  have hOA' : Foot eraseMI TM s sA := hOA
  obtain ⟨tB, sB, hSB, hWB, hTB, hFB, hOB, hDB, hSetB⟩ := single_roundtrip' K.laws sA tA hWA hTA hFA hRB
  have hOB' := K.ownT _ _ hOB
  have C := compat_mod_S K seg tr rep div samples hn2 hn3
  -- readiness of X wherever the tuple starts it
  have hR2 : ∀ x c1, 0 < c1 → c1 ≤ (modProto seg tr rep div samples).total →
      (modProto seg tr rep div samples).Post (pre s (nextId t)) x c1 →
      (modProto seg tr rep div samples).OwnT (pre s (nextId t)) x → PS.Ready x := by
    intro x c1 h0 hc hp ho
    have ho' : Foot eraseMI TM (pre s (nextId t)) x := ho
    have kx := KeepR_of_footM ho'
    have sx := KeepS_of_footMI ho'
    have kA := KeepR_of_footM hOA'
    have sA' := KeepS_of_footMI hOA'
    obtain ⟨p1, _, _, _, p5, p6, p7, p8, _, _⟩ := pre_fields s (nextId t)
    obtain ⟨q1, _, q3, q4, q5, q6, q7, q8, _, _⟩ := pre_fields sA (nextId tA)
    obtain ⟨lx1, lx2⟩ := modPost_latch seg tr rep div samples hp
    obtain ⟨_, _, la1, la2⟩ := modProto_done seg tr rep div samples hDA
    refine K.readyCongr _ x hRB (Proto.Post_wf LM hp) ?_ ?_ ?_ ?_ ?_ ?_
    · rw [q1, sx.segment, p1, sA'.segment]
    · rw [q3, q4, lx1, lx2, la1, la2]
    · rw [q5, kx.strict, p5, kA.strict]
    · rw [q6, kx.minDivI, p6, kA.minDivI]
    · rw [q7, kx.minDivP, p7, kA.minDivP]
    · rw [q8, kx.time, p8, kA.time]
  obtain ⟨t2, f, b2, hS2, hWf, hTf, hFf, hRel, hD1, hO12, hD2, _, hSetF⟩ := pair_roundtrip' C s t hW ht hf hRA hR2
  have hO12' : Foot eraseMI TM (pre s (nextId t)) b2 := hO12
  refine ⟨tB, sB, t2, f, hSB, hS2, hWf, hTf, hFf, ?_, ?_, ?_, ?_⟩
  · -- modulation side: `B` alone does not touch it
    have hDA' : (modProto seg tr rep div samples).Done (pre s (nextId t)) sB :=
      LM.done_other _ _ _ hDA (KeepM_of_footSI hOB' : KeepM sA sB) hWB
    exact modDone_obs seg tr rep div samples hDA' hD1 (KeepM.refl _)
  · -- STM side: both runs of `X` start from bases with the STM side of `s`
    have kb : KeepS (pre sA (nextId tA)) b2 :=
      KeepS.trans (KeepS.symm (KeepS.trans (KeepS_of_footMI hOA') (KeepS_pre sA _)))
        (KeepS.trans (KeepS_pre s _) (KeepS_of_footMI hO12'))
    have rB := KeepR_of_footS hOB'
    refine K.obs _ _ _ _ hDB hD2 kb ?_ ?_ ?_ ?_
    · rw [rB.phaseCorr, (pre_fields sA _).2.2.2.2.2.2.2.2.1]
    · rw [hRel.phaseCorr, ← (KeepS_pre s (nextId t)).phaseCorr, ← (KeepS_of_footMI hO12').phaseCorr]
    · rw [rB.numTr, (pre_fields sA _).2.2.2.2.2.2.2.2.2]
    · rw [hRel.numTr, ← (KeepS_pre s (nextId t)).numTr, ← (KeepS_of_footMI hO12').numTr]
  · exact RestSame_of_KeepR (KeepR.trans (KeepR.symm (KeepR.trans (KeepR_of_footM hOA') (KeepR_of_footS hOB'))) hRel)
  · exact ctlFlag_of_settled hSetB hSetF (KeepR.trans (KeepR.symm (KeepR.trans (KeepR_of_footM hOA') (KeepR_of_footS hOB'))) hRel)

/-- **(X, Modulation)**: the symmetric order -/
theorem tuple_S_mod {PS : Proto} {Ld : State → Nat × Nat} {Ls : State → Nat} (K : SKind PS Ld Ls)
    (seg : Nat) (tr : Tr) (rep div : Nat) (samples : Array Nat) (hn2 : 2 ≤ samples.size) (hn3 : samples.size ≤ 65536)
    (s : State) (t : Tx) (hW : WF s) (ht : TxOK t) (hf : Fresh s t)
    (hRA : PS.Ready (pre s (nextId t)))
    (tA : Tx) (sA : State) (hA : Sends PS.dg s t tA sA)
    (hRB : (modProto seg tr rep div samples).Ready (pre sA (nextId tA))) :
    ∃ tB sB t2 s2, Sends (.modulation seg tr rep div samples) sA tA tB sB ∧
      Sends2 PS.dg (.modulation seg tr rep div samples) s t t2 s2 ∧ WF s2 ∧ TxOK t2 ∧ Fresh s2 t2 ∧ TupleObsEq sB s2 := by
  have LM := modProto_laws seg tr rep div samples hn2 hn3
  obtain ⟨tA', sA', hSA, hWA, hTA, hFA, hOA, hDA⟩ := single_roundtrip K.laws s t hW ht hf hRA
  obtain ⟨e1, e2⟩ := Sends_unique hA hSA
  subst e1 e2
  have hOA' := K.ownT _ _ hOA
  obtain ⟨tB, sB, hSB, hWB, hTB, hFB, hOB, hDB, hSetB⟩ := single_roundtrip' LM sA tA hWA hTA hFA hRB
  have hOB' : Foot eraseMI TM sA sB := hOB
  have C := compat_S_mod K seg tr rep div samples hn2 hn3
  have hR2 : ∀ x c1, 0 < c1 → c1 ≤ PS.total → PS.Post (pre s (nextId t)) x c1 → PS.OwnT (pre s (nextId t)) x →
      (modProto seg tr rep div samples).Ready x := by
    intro x c1 h0 hc hp ho
    have ho' := K.ownT _ _ ho
    have kx := KeepR_of_footS ho'
    have mx := KeepM_of_footSI ho'
    have kA := KeepR_of_footS hOA'
    have mA := KeepM_of_footSI hOA'
    obtain ⟨_, _, p3, _, p5, p6, p7, p8, _, _⟩ := pre_fields s (nextId t)
    obtain ⟨q1, q2, q3, _, q5, q6, q7, q8, _, _⟩ := pre_fields sA (nextId tA)
    obtain ⟨lx1, lx2⟩ := K.latch _ _ _ h0 hp
    have hDA' : PS.Post (pre s (nextId t)) sA PS.total := by
      unfold Proto.Post; rw [if_neg (Nat.lt_irrefl _)]; exact hDA
    obtain ⟨la1, la2⟩ := K.latch _ _ _ K.laws.total_pos hDA'
    refine modReady_congr seg tr rep div samples hRB (Proto.Post_wf K.laws hp) ?_ ?_ ?_ ?_ ?_ ?_
    · rw [q3, mx.segment, p3, mA.segment]
    · rw [q2, q1, lx1, lx2, la1, la2]
    · rw [q5, kx.strict, p5, kA.strict]
    · rw [q6, kx.minDivI, p6, kA.minDivI]
    · rw [q7, kx.minDivP, p7, kA.minDivP]
    · rw [q8, kx.time, p8, kA.time]
  obtain ⟨t2, f, b2, hS2, hWf, hTf, hFf, hRel, hD1, hO12, hD2, _, hSetF⟩ := pair_roundtrip' C s t hW ht hf hRA hR2
  have hO12' := K.ownT _ _ hO12
  refine ⟨tB, sB, t2, f, hSB, hS2, hWf, hTf, hFf, ?_, ?_, ?_, ?_⟩
  · have kb : KeepM (pre sA (nextId tA)) b2 :=
      KeepM.trans (KeepM.symm (KeepM.trans (KeepM_of_footSI hOA') (KeepM_pre sA _)))
        (KeepM.trans (KeepM_pre s _) (KeepM_of_footSI hO12'))
    exact modDone_obs seg tr rep div samples hDB hD2 kb
  · have hDA' : PS.Done (pre s (nextId t)) sB := K.laws.done_other _ _ _ hDA (K.other _ _ (KeepS_of_footMI hOB')) hWB
    have rA := KeepR_of_footS hOA'
    have rB := KeepR_of_footM hOB'
    refine K.obs _ _ _ _ hDA' hD1 (KeepS.refl _) ?_ ?_ ?_ ?_
    · rw [rB.phaseCorr, rA.phaseCorr, (pre_fields s _).2.2.2.2.2.2.2.2.1]
    · rw [hRel.phaseCorr, (pre_fields s _).2.2.2.2.2.2.2.2.1]
    · rw [rB.numTr, rA.numTr, (pre_fields s _).2.2.2.2.2.2.2.2.2]
    · rw [hRel.numTr, (pre_fields s _).2.2.2.2.2.2.2.2.2]
  · exact RestSame_of_KeepR (KeepR.trans (KeepR.symm (KeepR.trans (KeepR_of_footS hOA') (KeepR_of_footM hOB'))) hRel)
  · exact ctlFlag_of_settled hSetB hSetF (KeepR.trans (KeepR.symm (KeepR.trans (KeepR_of_footS hOA') (KeepR_of_footM hOB'))) hRel)

end Autd3.Tuple2
