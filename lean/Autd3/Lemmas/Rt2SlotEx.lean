import Autd3.Lemmas.Rt2SlotMod
/-!
Second tuple slot, part 3: a concrete slot-1 operation (ForceFan, 2 bytes) meeting the hypotheses of the
slot-2 round trips — used for the non-vacuity examples.
-/
open Autd3 Autd3.Fw Autd3.Wire Autd3.Gen.Cpu Autd3.Gen
namespace Autd3.Rt

/-- the state a ForceFan in slot 1 leaves for the slot-2 handler -/
def fanState (s : State) (id : Nat) (v : Bool) : State :=
  { pre s id with flagsInternal :=
      if v then (pre s id).flagsInternal ||| CTL_FLAG_FORCE_FAN else (pre s id).flagsInternal &&& (65535 - CTL_FLAG_FORCE_FAN) }

/-- ForceFan as the slot-1 operation: packed in 2 bytes, done after one frame, its handler reads only those
two bytes and accepts, the state it leaves is well-formed -/
theorem slot1_forceFan (s : State) (t : Tx) (v : Bool) (hWF : WF s) (ht : TxOK t) :
    (Op.ofDg (.forceFan v)).done = false ∧
    (Op.ofDg (.forceFan v)).pack s.numTr t.payload 0 =
      .ok ({ dg := .forceFan v, sent := 0, done := true }, tagValue t.payload 0 Drv.TAG_ForceFan (if v then 1 else 0), 2) ∧
    (∀ b', Keeps 2 (tagValue t.payload 0 Drv.TAG_ForceFan (if v then 1 else 0)) b' →
      handlePayload (pre s (nextId t)) b' = .ok (fanState s (nextId t) v, NO_ERR)) ∧
    WF (fanState s (nextId t) v) ∧ (fanState s (nextId t) v).lastMsgId = nextId t := by
  have hW := WF_pre hWF (nextId t)
  have ht' : t.payload.size = 622 := ht
  refine ⟨rfl, rfl, ?_, ?_, pre_lastMsgId s (nextId t)⟩
  · intro b' hk
    have e0 : u8at b' 0 = 0x60 := by
      unfold u8at; rw [hk.2 0 (by omega)]
      exact u8at_tagValue_0 _ _ _ (by rw [ht']; decide) (by decide)
    have e1 : u8at b' 1 = if v then 1 else 0 := by
      unfold u8at; rw [hk.2 1 (by omega)]
      have := u8at_tagValue_1 t.payload Drv.TAG_ForceFan (if v then 1 else 0) (by rw [ht']; decide)
      unfold u8at at this; rw [this]; cases v <;> rfl
    exact forceFan_handler (pre s (nextId t)) b' v e0 e1
  · have hfl : (if v then (pre s (nextId t)).flagsInternal ||| CTL_FLAG_FORCE_FAN
          else (pre s (nextId t)).flagsInternal &&& (65535 - CTL_FLAG_FORCE_FAN)) % 256 = 0 := by
      have := hW.flags
      cases v
      · simp only [Bool.false_eq_true, if_false, show 256 = 2 ^ 8 from rfl, Nat.and_mod_two_pow] at *
        rw [this]; simp
      · simp only [if_true, show 256 = 2 ^ 8 from rfl, Nat.or_mod_two_pow] at *
        rw [this]; rfl
    exact ⟨hW.ctl, hW.phaseCorr, hW.pwe, hW.modMem0, hW.modMem1, hW.stmMem0, hW.stmMem1, hW.numTr, hfl,
      hW.modSwap, hW.stmSwap, hW.modDiv0, hW.modDiv1, hW.stmDiv0, hW.stmDiv1⟩

end Autd3.Rt
