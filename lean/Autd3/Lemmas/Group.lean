import Autd3.Model.Group
/-!
# Lemmas about `Model/Group.lean`, part 1: `restore`, `pack`, the `send_impl` loop

Everything is phrased for operation vectors of the shape `(devices geo).map φ` (one optional
operation per enabled device), which is an invariant of both `send` and `group_send`.
-/
namespace Autd3.Group

/-! ## enable flags -/

theorem restore_of_map_idx : ∀ (g g' : Geometry), g'.map (·.idx) = g.map (·.idx) →
    restore g' (g.map (·.enable)) = g
  | [], g', h => by
    cases g' with
    | nil => rfl
    | cons a l => simp at h
  | d :: ds, g', h => by
    cases g' with
    | nil => simp at h
    | cons a l =>
      simp only [List.map_cons, List.cons.injEq] at h
      simp only [List.map_cons, restore]
      rw [restore_of_map_idx ds l h.2]
      cases a; cases d; simp_all

theorem restore_map_idx : ∀ (g : Geometry) (m : List Bool), (restore g m).map (·.idx) = g.map (·.idx)
  | [], _ => rfl
  | d :: ds, [] => rfl
  | d :: ds, e :: es => by simp [restore, restore_map_idx ds es]

theorem restore_length (g : Geometry) (m : List Bool) : (restore g m).length = g.length := by
  have := congrArg List.length (restore_map_idx g m); simpa using this

theorem restore_map_enable : ∀ (g : Geometry) (m : List Bool), m.length = g.length →
    (restore g m).map (·.enable) = m
  | [], m, h => by cases m <;> simp_all [restore]
  | d :: ds, [], h => by simp at h
  | d :: ds, e :: es, h => by
    simp only [restore, List.map_cons, List.cons.injEq, true_and]
    exact restore_map_enable ds es (by simpa using h)

theorem restore_map_fn : ∀ (g : Geometry) (p : Device → Bool),
    restore g (g.map p) = g.map fun d => { d with enable := p d }
  | [], _ => rfl
  | d :: ds, p => by simp [restore, restore_map_fn ds p]

/-- `WF` gives the two facts that are used: indices are distinct and below the length -/
theorem WF.nodup {geo : Geometry} (h : WF geo) : (geo.map (·.idx)).Nodup := by
  unfold WF at h; rw [h]; exact List.nodup_range

theorem WF.lt {geo : Geometry} (h : WF geo) : ∀ d ∈ geo, d.idx < geo.length := by
  intro d hd
  have : d.idx ∈ geo.map (·.idx) := List.mem_map_of_mem hd
  unfold WF at h; rw [h] at this; simpa using this

theorem devices_nodup {geo : Geometry} (h : (geo.map (·.idx)).Nodup) : ((devices geo).map (·.idx)).Nodup :=
  List.Nodup.sublist ((List.filter_sublist (l := geo)).map _) h

theorem mem_devices {geo : Geometry} {d : Device} : d ∈ devices geo ↔ d ∈ geo ∧ d.enable = true := by
  simp [devices]

/-! ## one round of `pack` -/

def opFrames : Option Op → List Frame
  | none => []
  | some op => op.frames

def headFrame (o : Option Op) : List Frame := (opFrames o).head?.toList

def tailOp : Option Op → Option Op
  | none => none
  | some op => some { op with frames := op.frames.tail }

/-- the error the next `pack` of this slot returns -/
def stuck : Option Op → Option Err
  | none => none
  | some op => if op.frames = [] then op.err else none

@[simp] theorem opFrames_tailOp (o : Option Op) : opFrames (tailOp o) = (opFrames o).tail := by
  cases o <;> rfl

theorem packOne_eq (o : Option Op) :
    packOne o = match stuck o with
      | some e => .error e
      | none => .ok ((opFrames o).head?, tailOp o) := by
  cases o with
  | none => rfl
  | some op =>
    cases op with
    | mk frames err =>
      cases frames with
      | nil => cases err <;> simp [packOne, stuck, tailOp, opFrames]
      | cons f rest => simp [packOne, stuck, tailOp, opFrames]

theorem packList_map (φ : Device → Option Op) : ∀ (devs : List Device),
    packList devs (devs.map φ) =
      if ∀ d ∈ devs, stuck (φ d) = none then
        .ok (devs.flatMap (fun d => headFrame (φ d)), devs.map (fun d => tailOp (φ d)))
      else .error (match (devs.filterMap fun d => stuck (φ d)).head? with | some e => e | none => .panic)
  | [] => by simp [packList]
  | d :: ds => by
    simp only [List.map_cons, packList, packOne_eq, packList_map φ ds]
    cases hs : stuck (φ d) with
    | some e =>
      have hno : ¬ ∀ d' ∈ d :: ds, stuck (φ d') = none := by
        intro h; have := h d (List.mem_cons_self); rw [hs] at this; cases this
      rw [if_neg hno]
      simp [hs]
    | none =>
      by_cases hall : ∀ d ∈ ds, stuck (φ d) = none
      · have hall' : ∀ d' ∈ d :: ds, stuck (φ d') = none := by
          intro d' hd'
          rcases List.mem_cons.mp hd' with rfl | h
          · exact hs
          · exact hall d' h
        rw [if_pos hall, if_pos hall']
        simp [headFrame]
      · have hno : ¬ ∀ d' ∈ d :: ds, stuck (φ d') = none := by
          intro h; exact hall (fun d' hd' => h d' (List.mem_cons_of_mem _ hd'))
        rw [if_neg hall, if_neg hno]
        simp [hs]

theorem pack_ok {geo : Geometry} {φ : Device → Option Op} {round ops'}
    (h : pack geo ((devices geo).map φ) = .ok (round, ops')) :
    round = (devices geo).flatMap (fun d => headFrame (φ d)) ∧
    ops' = (devices geo).map (fun d => tailOp (φ d)) ∧
    ∀ d ∈ devices geo, stuck (φ d) = none := by
  unfold pack at h
  rw [packList_map] at h
  split at h
  · next hall =>
    simp only [Except.ok.injEq, Prod.mk.injEq] at h
    exact ⟨h.1.symm, h.2.symm, hall⟩
  · cases h

theorem pack_of_not_stuck {geo : Geometry} {φ : Device → Option Op}
    (hall : ∀ d ∈ devices geo, stuck (φ d) = none) :
    pack geo ((devices geo).map φ) =
      .ok ((devices geo).flatMap (fun d => headFrame (φ d)), (devices geo).map (fun d => tailOp (φ d))) := by
  unfold pack; rw [packList_map, if_pos hall]

/-! ## what one device gets out of a round -/

/-- the frames of the operations assigned to devices with index `i` -/
def proj (i : Nat) (φ : Device → Option Op) (devs : List Device) : List Frame :=
  devs.flatMap fun d => if d.idx = i then opFrames (φ d) else []

/-- every frame of an operation carries the index of the device it was generated for -/
def Tagged (φ : Device → Option Op) (devs : List Device) : Prop :=
  ∀ d ∈ devs, ∀ f ∈ opFrames (φ d), f.dev = d.idx

theorem Tagged.tail {φ : Device → Option Op} {devs : List Device} (h : Tagged φ devs) : Tagged (fun d => tailOp (φ d)) devs := by
  intro d hd f hf
  rw [opFrames_tailOp] at hf
  exact h d hd f (List.mem_of_mem_tail hf)

theorem proj_nil_of_not_mem (i : Nat) (φ : Device → Option Op) : ∀ (devs : List Device), (∀ d ∈ devs, d.idx ≠ i) → proj i φ devs = []
  | [], _ => rfl
  | d :: ds, h => by
    have h1 : d.idx ≠ i := h d (List.mem_cons_self)
    have h2 := proj_nil_of_not_mem i φ ds (fun d hd => h d (List.mem_cons_of_mem _ hd))
    unfold proj at h2 ⊢
    simp [h1, h2]

theorem heads_filter_nil (i : Nat) (φ : Device → Option Op) : ∀ (devs : List Device), Tagged φ devs → (∀ d ∈ devs, d.idx ≠ i) →
    (devs.flatMap fun d => headFrame (φ d)).filter (·.dev == i) = []
  | [], _, _ => rfl
  | d :: ds, ht, h => by
    have h1 : d.idx ≠ i := h d (List.mem_cons_self)
    have ih := heads_filter_nil i φ ds (fun d hd => ht d (List.mem_cons_of_mem _ hd))
      (fun d hd => h d (List.mem_cons_of_mem _ hd))
    simp only [List.flatMap_cons, List.filter_append, ih, List.append_nil]
    apply List.filter_eq_nil_iff.mpr
    intro f hf
    have : f ∈ opFrames (φ d) := by
      unfold headFrame at hf
      exact List.mem_of_mem_head? (by simpa using hf)
    have := ht d (List.mem_cons_self) f this
    simp [this, h1]

theorem head_filter_self (φ : Device → Option Op) (d : Device) (ht : ∀ f ∈ opFrames (φ d), f.dev = d.idx) :
    (headFrame (φ d)).filter (·.dev == d.idx) = headFrame (φ d) := by
  apply List.filter_eq_self.mpr
  intro f hf
  have : f ∈ opFrames (φ d) := by
    unfold headFrame at hf
    exact List.mem_of_mem_head? (by simpa using hf)
  simp [ht f this]

theorem head_filter_other (φ : Device → Option Op) (d : Device) (i : Nat) (hi : d.idx ≠ i) (ht : ∀ f ∈ opFrames (φ d), f.dev = d.idx) :
    (headFrame (φ d)).filter (·.dev == i) = [] := by
  apply List.filter_eq_nil_iff.mpr
  intro f hf
  have : f ∈ opFrames (φ d) := by
    unfold headFrame at hf
    exact List.mem_of_mem_head? (by simpa using hf)
  simp [ht f this, hi]

theorem head_append_tail (l : List Frame) : l.head?.toList ++ l.tail = l := by
  cases l <;> rfl

/-- **round lemma**: what device `i` receives in this round, followed by what is left for it, is
what there was for it -/
theorem round_proj (i : Nat) (φ : Device → Option Op) : ∀ (devs : List Device), Tagged φ devs → (devs.map (·.idx)).Nodup →
    (devs.flatMap fun d => headFrame (φ d)).filter (·.dev == i) ++ proj i (fun d => tailOp (φ d)) devs
      = proj i φ devs
  | [], _, _ => rfl
  | d :: ds, ht, hnd => by
    have ht' : Tagged φ ds := fun d hd => ht d (List.mem_cons_of_mem _ hd)
    have htd := ht d (List.mem_cons_self)
    rw [List.map_cons, List.nodup_cons] at hnd
    by_cases hi : d.idx = i
    · have hrest : ∀ d' ∈ ds, d'.idx ≠ i := by
        intro d' hd' he
        exact hnd.1 (by rw [hi, ← he]; exact List.mem_map_of_mem hd')
      have e1 := heads_filter_nil i φ ds ht' hrest
      have e2 := proj_nil_of_not_mem i (fun d => tailOp (φ d)) ds hrest
      have e3 := proj_nil_of_not_mem i φ ds hrest
      have e4 := head_filter_self φ d htd
      rw [hi] at e4
      unfold proj at e2 e3 ⊢
      simp only [opFrames_tailOp] at e2
      simp only [List.flatMap_cons, List.filter_append, e1, e3, e4, hi, if_true, List.append_nil,
        opFrames_tailOp, e2]
      exact head_append_tail _
    · have ih := round_proj i φ ds ht' hnd.2
      have e4 := head_filter_other φ d i hi htd
      unfold proj at ih ⊢
      simp only [List.flatMap_cons, List.filter_append, e4, hi, if_false, List.nil_append]
      exact ih

theorem proj_of_mem (φ : Device → Option Op) : ∀ (devs : List Device), (devs.map (·.idx)).Nodup → ∀ d ∈ devs,
    proj d.idx φ devs = opFrames (φ d)
  | [], _, d, hd => by cases hd
  | a :: l, hnd, d, hd => by
    rw [List.map_cons, List.nodup_cons] at hnd
    rcases List.mem_cons.mp hd with rfl | hd'
    · have hrest : ∀ d' ∈ l, d'.idx ≠ d.idx := by
        intro d' hd' he
        exact hnd.1 (by rw [← he]; exact List.mem_map_of_mem hd')
      have e := proj_nil_of_not_mem d.idx φ l hrest
      unfold proj at e ⊢
      simp [e]
    · have hne : a.idx ≠ d.idx := by
        intro he
        exact hnd.1 (by rw [he]; exact List.mem_map_of_mem hd')
      have ih := proj_of_mem φ l hnd.2 d hd'
      unfold proj at ih ⊢
      simp [hne, ih]

theorem devFrames_append (log : List (List Frame)) (round : List Frame) (i : Nat) :
    devFrames (log ++ [round]) i = devFrames log i ++ round.filter (·.dev == i) := by
  simp [devFrames, List.filter_append]

theorem isDone_map {φ : Device → Option Op} {devs : List Device} (h : isDone (devs.map φ) = true) :
    ∀ d ∈ devs, opFrames (φ d) = [] ∧ stuck (φ d) = none := by
  intro d hd
  unfold isDone at h
  rw [List.all_eq_true] at h
  have := h (φ d) (List.mem_map_of_mem hd)
  cases hφ : φ d with
  | none => simp [opFrames, stuck]
  | some op =>
    rw [hφ] at this
    simp only [Op.isDone, Bool.and_eq_true, List.isEmpty_iff, Option.isNone_iff_eq_none] at this
    simp [opFrames, stuck, this.1, this.2]

/-! ## the `send_impl` loop -/

/-- **loop lemma**: whatever the other devices' operations, the link script and the exit, device
`i` receives a prefix of the frames of its own operation, and all of them if the result is `Ok` -/
theorem sendLoop_spec (geo : Geometry) (hnd : ((devices geo).map (·.idx)).Nodup) (i : Nat) :
    ∀ (fuel : Nat) (φ : Device → Option Op) (fault : Fault) (n : Nat) (log : List (List Frame)),
      Tagged φ (devices geo) →
      ∃ delivered,
        devFrames (sendLoop fuel geo ((devices geo).map φ) fault n log).2 i = devFrames log i ++ delivered ∧
        delivered <+: proj i φ (devices geo) ∧
        ((sendLoop fuel geo ((devices geo).map φ) fault n log).1 = .ok () → delivered = proj i φ (devices geo))
  | 0, φ, fault, n, log, _ => ⟨[], by simp [sendLoop], List.nil_prefix, by simp [sendLoop]⟩
  | fuel + 1, φ, fault, n, log, ht => by
    unfold sendLoop
    cases hp : pack geo ((devices geo).map φ) with
    | error e => exact ⟨[], by simp, List.nil_prefix, by simp⟩
    | ok ro =>
      obtain ⟨round, ops'⟩ := ro
      obtain ⟨hround, hops, _⟩ := pack_ok hp
      have hR := round_proj i φ (devices geo) ht hnd
      rw [← hround] at hR
      simp only []
      by_cases hfs : fault = .send n
      · simp only [hfs, if_true]
        exact ⟨[], by simp, List.nil_prefix, by simp⟩
      · simp only [hfs, if_false]
        by_cases hfr : fault = .recv n
        · simp only [hfr, if_true]
          refine ⟨round.filter (·.dev == i), devFrames_append _ _ _, ?_, by simp⟩
          rw [← hR]; exact List.prefix_append _ _
        · simp only [hfr, if_false]
          by_cases hdone : isDone ops' = true
          · simp only [hdone, if_true]
            refine ⟨round.filter (·.dev == i), devFrames_append _ _ _, ?_, ?_⟩
            · rw [← hR]; exact List.prefix_append _ _
            · intro _
              rw [hops] at hdone
              have hnil : proj i (fun d => tailOp (φ d)) (devices geo) = [] := by
                unfold proj
                apply List.flatMap_eq_nil_iff.mpr
                intro d hd
                have := (isDone_map hdone d hd).1
                simp [this]
              rw [hnil, List.append_nil] at hR
              exact hR
          · simp only [hdone]
            rw [hops]
            obtain ⟨del, h1, h2, h3⟩ := sendLoop_spec geo hnd i fuel (fun d => tailOp (φ d)) fault (n + 1)
              (log ++ [round]) ht.tail
            refine ⟨round.filter (·.dev == i) ++ del, ?_, ?_, ?_⟩
            · simp only [Bool.false_eq_true, if_false]
              rw [h1, devFrames_append, List.append_assoc]
            · rw [← hR]; exact (List.prefix_append_right_inj _).mpr h2
            · intro hok
              simp only [Bool.false_eq_true, if_false] at hok
              rw [h3 hok]; exact hR

/-! ## fuel -/

def mu (φ : Device → Option Op) (devs : List Device) : Nat := (devs.map fun d => opLen (φ d)).sum

theorem fuelFor_map (φ : Device → Option Op) (devs : List Device) : fuelFor (devs.map φ) = mu φ devs + 1 := by
  simp [fuelFor, mu, List.map_map, Function.comp_def]

theorem opLen_tail_le (o : Option Op) : opLen (tailOp o) ≤ opLen o := by
  cases o <;> simp [opLen, tailOp]

theorem mu_tail_le (φ : Device → Option Op) : ∀ devs : List Device, mu (fun d => tailOp (φ d)) devs ≤ mu φ devs
  | [] => by simp [mu]
  | d :: ds => by
    have := mu_tail_le φ ds
    have := opLen_tail_le (φ d)
    simp only [mu, List.map_cons, List.sum_cons] at *
    omega

theorem mu_tail_lt (φ : Device → Option Op) : ∀ devs : List Device, (∃ d ∈ devs, opFrames (tailOp (φ d)) ≠ []) →
    mu (fun d => tailOp (φ d)) devs < mu φ devs
  | [], h => by obtain ⟨d, hd, _⟩ := h; cases hd
  | a :: l, h => by
    obtain ⟨d, hd, hne⟩ := h
    have hle := mu_tail_le φ l
    have hle1 := opLen_tail_le (φ a)
    rcases List.mem_cons.mp hd with rfl | hd'
    · have : opLen (tailOp (φ d)) < opLen (φ d) := by
        cases hφ : φ d with
        | none => simp [hφ, tailOp, opFrames] at hne
        | some op =>
          rw [hφ] at hne
          simp only [tailOp, opFrames] at hne
          cases hf : op.frames with
          | nil => simp [hf] at hne
          | cons x xs => simp [opLen, tailOp, hf]
      simp only [mu, List.map_cons, List.sum_cons] at *
      omega
    · have := mu_tail_lt φ l ⟨d, hd', hne⟩
      simp only [mu, List.map_cons, List.sum_cons] at *
      omega

/-- operations that never fail to pack, a healthy link and enough fuel: the loop ends with `Ok` -/
theorem sendLoop_ok (geo : Geometry) :
    ∀ (fuel : Nat) (φ : Device → Option Op) (n : Nat) (log : List (List Frame)),
      (∀ d ∈ devices geo, ∀ op, φ d = some op → op.err = none) →
      mu φ (devices geo) < fuel →
      (sendLoop fuel geo ((devices geo).map φ) .none n log).1 = .ok ()
  | 0, _, _, _, _, h => by omega
  | fuel + 1, φ, n, log, herr, hmu => by
    have hns : ∀ d ∈ devices geo, stuck (φ d) = none := by
      intro d hd
      cases hφ : φ d with
      | none => rfl
      | some op => simp [stuck, herr d hd op hφ]
    unfold sendLoop
    rw [pack_of_not_stuck hns]
    simp only [reduceCtorEq, if_false]
    by_cases hdone : isDone ((devices geo).map fun d => tailOp (φ d)) = true
    · simp [hdone]
    · simp only [hdone, Bool.false_eq_true, if_false]
      apply sendLoop_ok geo fuel
      · intro d hd op hop
        cases hφ : φ d with
        | none => simp [hφ, tailOp] at hop
        | some op0 =>
          rw [hφ] at hop
          simp only [tailOp, Option.some.injEq] at hop
          rw [← hop]
          exact herr d hd op0 hφ
      · have : ∃ d ∈ devices geo, opFrames (tailOp (φ d)) ≠ [] := by
          apply Classical.byContradiction
          intro hcon
          apply hdone
          unfold isDone
          rw [List.all_eq_true]
          intro o ho
          obtain ⟨d, hd, rfl⟩ := List.mem_map.mp ho
          have hnil : opFrames (tailOp (φ d)) = [] := by
            apply Classical.byContradiction
            intro hne
            exact hcon ⟨d, hd, hne⟩
          cases hφ : φ d with
          | none => simp [tailOp]
          | some op =>
            rw [hφ] at hnil
            simp only [tailOp, opFrames] at hnil
            simp [tailOp, Op.isDone, hnil, herr d hd op hφ]
        have := mu_tail_lt φ (devices geo) this
        omega

end Autd3.Group
