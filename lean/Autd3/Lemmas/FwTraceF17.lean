import Autd3.Lemmas.FwTraceWitness
/-!
C19: the F17 panic — in general (`drives_index_error`) and on the concrete history `f17Run` (register facts by kernel
evaluation, BRAM size from the `Base` invariant along the history, so that the kernel never has to walk the 262144-word
BRAM).
-/
set_option linter.unusedSimpArgs false
set_option linter.unusedVariables false
namespace Autd3.Fw
open Autd3.Gen.Cpu Autd3.Gen Autd3.Obs

theorem fociDrive_index_error (s : State) (seg idx tr : Nat) (hn : 1 ≤ numFoci s seg)
    (hb : 4 * (idx * numFoci s seg) + 4 > (stmMem s seg).size) :
    fociDrive s seg idx tr = .error (.index "foci_stm_drives: stm_bram") := by
  unfold fociDrive
  simp only []
  generalize stmMem s seg = m at hb
  generalize soundSpeed s seg = c
  generalize numFoci s seg = nf at hn hb
  obtain ⟨k, rfl⟩ : ∃ k, nf = k + 1 := ⟨nf - 1, by omega⟩
  rw [Std.Legacy.Range.forIn_eq_forIn_range']
  simp only [Std.Legacy.Range.size, Nat.sub_zero, Nat.add_sub_cancel, Nat.div_one, List.range'_succ, List.forIn_cons]
  have h1 : 4 * (idx * (k + 1) + 0) + 4 > m.size := by simpa using hb
  simp only [h1, if_true, bind, Except.bind]

theorem list_mapM_head_error {ε α β : Type} (f : α → Except ε β) (a : α) (l : List α) (e : ε) (h : f a = .error e) :
    (a :: l).mapM f = .error e := by
  simp [List.mapM_cons, h, bind, Except.bind]

theorem fociDrives_index_error (s : State) (seg idx : Nat) (hnt : 1 ≤ s.numTr) (hn : 1 ≤ numFoci s seg)
    (hb : 4 * (idx * numFoci s seg) + 4 > (stmMem s seg).size) :
    fociDrives s seg idx = .error (.index "foci_stm_drives: stm_bram") := by
  unfold fociDrives
  rw [Array.mapM_eq_mapM_toList]
  obtain ⟨k, hk⟩ : ∃ k, s.numTr = k + 1 := ⟨s.numTr - 1, by omega⟩
  rw [hk]
  have : (Array.range (k + 1)).toList = 0 :: (List.range k).map Nat.succ := by
    simp [List.range_succ_eq_map]
  rw [this, list_mapM_head_error _ _ _ _ (fociDrive_index_error s seg idx 0 hn hb)]
  rfl

/-- **the F17 panic, in general**: focus mode, at least one transducer, and `cur_idx × foci per pattern` beyond the
65536 focus records of the STM BRAM: `drives()` indexes outside it -/
theorem drives_index_error (s : State) (hmode : isStmGainMode s s.stmSwap.cur = false) (hnt : 1 ≤ s.numTr)
    (hn : 1 ≤ numFoci s s.stmSwap.cur)
    (hb : 4 * (s.stmSwap.curIdx * numFoci s s.stmSwap.cur) + 4 > (stmMem s s.stmSwap.cur).size) :
    Obs.drives s = .error (.index "foci_stm_drives: stm_bram") := by
  unfold Obs.drives drivesAt currentStmSeg currentStmIdx
  rw [hmode]
  simp only [Bool.false_eq_true, if_false]
  exact fociDrives_index_error s _ _ hnt hn hb

/-! ### the concrete F17 history -/

def f17F1 : Array Nat := frame1 1 (fociHead 1 1 0 255 1 21760 40 0xFFFF 0)
def f17F2 : Array Nat := frame1 2 (fociCont 6 1 0)
def f17F3 : Array Nat := frame1 3 (fociHead 3 2 0 254 8 21760 40 0xFFFF 0)

def f17P1 : M State := Fw.new 249 0
def f17P2 : M State := do
  let s ← f17P1
  let s ← ecatRecv s f17F1
  pure (elideMiddleFrames s)
def f17P3 : M State := do
  let s ← f17P2
  ecatRecv s f17F2
def f17P4 : M State := do
  let s ← f17P3
  ecatRecv s f17F3
/-- power-on; FociSTM BEGIN frame (one focus per pattern, S0, Immediate, infinite loop); [884 middle frames elided];
END|TRANSITION frame (65536 patterns in total); complete FociSTM of 2 patterns × 8 foci to S0 without transition; clock
at 50 s -/
def f17Pre : M State := do
  let s ← f17P4
  updateWithSysTime s 50000000000

theorem f17_a1 : fromM f17P1 (fun s => FrameOKs s f17F1) := by decide +kernel
theorem f17_a2 : fromM f17P2 (fun s => FrameOKs s f17F2) := by decide +kernel
theorem f17_a3 : fromM f17P3 (fun s => FrameOKs s f17F3) := by decide +kernel
/-- after the history: S0 current, focus mode, 8 foci per pattern in the register, pattern index 50000 of the stale
65536-pattern cycle, 249 transducers — and every frame was acknowledged -/
theorem f17_facts : fromM f17Pre (fun s => s.stmSwap.cur = 0 ∧ rd s.ctl 89 = 0 ∧ rd s.ctl 93 = 8 ∧
    s.stmSwap.curIdx = 50000 ∧ sel s.stmSwap.cycle 0 = 65536 ∧ s.numTr = 249 ∧ s.ack = 3) := by decide +kernel

theorem elide_base {s : State} (h : Base s) : Base (elideMiddleFrames s) := by
  unfold elideMiddleFrames
  have c : SameB s { s with stmWrite := 65535, ctl := s.ctl.setIfInBounds ADDR_STM_MEM_WR_PAGE 15 } := by
    simp only [ADDR_STM_MEM_WR_PAGE]; same_b_tac
  exact h.transfer c (h.shape.transfer (by simp) rfl rfl rfl rfl rfl rfl rfl) h.flags

theorem updateWithSysTime_mem (s s' : State) (t : Nat) (h : updateWithSysTime s t = .ok s') :
    s'.stmMem0 = s.stmMem0 ∧ s'.stmMem1 = s.stmMem1 := by
  unfold updateWithSysTime at h
  cases h1 : s.modSwap.update (gpioIn s) t with
  | error e => rw [h1] at h; cases h
  | ok mw =>
    cases h2 : s.stmSwap.update (gpioIn s) t with
    | error e => rw [h1, ok_bind, h2] at h; cases h
    | ok sw =>
      rw [h1, ok_bind, h2, ok_bind] at h
      simp only [pure_eq_ok] at h
      rw [readFpgaState_core] at h
      cases h
      exact ⟨rfl, rfl⟩

/-- **F17 on the concrete history**: it runs (all frames acknowledged) and `drives()` then indexes outside the STM BRAM -/
theorem f17_run : ∃ s, f17Pre = .ok s ∧ Obs.drives s = .error (.index "foci_stm_drives: stm_bram") := by
  obtain ⟨s0, e0, h0⟩ := new_safe' 249 0 (by omega)
  have e0' : f17P1 = .ok s0 := e0
  obtain ⟨s1, e1, b1, _⟩ := ecatRecv_step s0 f17F1 h0.base (fromM_ok f17_a1 e0')
  have e2' : f17P2 = .ok (elideMiddleFrames s1) := by
    unfold f17P2; rw [e0', ok_bind, e1, ok_bind]; rfl
  obtain ⟨s2, e2, b2, _⟩ := ecatRecv_step _ f17F2 (elide_base b1) (fromM_ok f17_a2 e2')
  have e3' : f17P3 = .ok s2 := by unfold f17P3; rw [e2', ok_bind, e2]
  obtain ⟨s3, e3, b3, _⟩ := ecatRecv_step _ f17F3 b2 (fromM_ok f17_a3 e3')
  have e4' : f17P4 = .ok s3 := by unfold f17P4; rw [e3', ok_bind, e3]
  have hpre : f17Pre = updateWithSysTime s3 50000000000 := by unfold f17Pre; rw [e4', ok_bind]
  have hf := f17_facts
  cases hu : updateWithSysTime s3 50000000000 with
  | error e => rw [hpre, hu] at hf; exact hf.elim
  | ok s4 =>
    rw [hpre, hu] at hf
    obtain ⟨hcur, h89, h93, hidx, _, hnt, _⟩ : s4.stmSwap.cur = 0 ∧ rd s4.ctl 89 = 0 ∧ rd s4.ctl 93 = 8 ∧
      s4.stmSwap.curIdx = 50000 ∧ sel s4.stmSwap.cycle 0 = 65536 ∧ s4.numTr = 249 ∧ s4.ack = 3 := hf
    have hm := (updateWithSysTime_mem s3 s4 _ hu).1
    refine ⟨s4, by rw [hpre, hu], ?_⟩
    apply drives_index_error
    · unfold isStmGainMode; simp [reg, hcur, ADDR_STM_MODE0, STM_MODE_GAIN, h89]
    · omega
    · unfold numFoci; simp [reg, hcur, ADDR_STM_NUM_FOCI0, h93]
    · unfold numFoci stmMem; simp [reg, hcur, ADDR_STM_NUM_FOCI0, h93, hidx, hm, b3.shape.stmMem0]

/-! ### stale index (new finding): read-back between an accepted swap and the next clock update -/

def staleF3 : Array Nat := frame1 3 (fociHead 7 2 1 255 8 21760 40 0xFFFF 0)
def staleP4 : M State := do
  let s ← f17P3
  updateWithSysTime s 50000000000
/-- power-on; the same 65536-pattern single-focus FociSTM in S0; clock at 50 s (pattern index 50000); a complete FociSTM
of 2 patterns × 8 foci to S1 with an Immediate transition — accepted, S1 becomes current, `cur_idx` stays 50000 -/
def stalePre : M State := do
  let s ← staleP4
  ecatRecv s staleF3

theorem stale_x1 : fromM f17P1 (fun s => FrameExcl s f17F1) := by decide +kernel
theorem stale_x2 : fromM f17P2 (fun s => FrameExcl s f17F2) := by decide +kernel
theorem stale_a3 : fromM staleP4 (fun s => FrameOKs s staleF3) := by decide +kernel
theorem stale_facts : fromM stalePre (fun s => s.stmSwap.cur = 1 ∧ rd s.ctl 90 = 0 ∧ rd s.ctl 94 = 8 ∧
    s.stmSwap.curIdx = 50000 ∧ sel s.stmSwap.cycle 1 = 2 ∧ s.numTr = 249 ∧ s.ack = 3) := by decide +kernel

theorem elide_chain {s : State} (h : Chain s) : Chain (elideMiddleFrames s) := by
  unfold elideMiddleFrames
  have c : SameB s { s with stmWrite := 65535, ctl := s.ctl.setIfInBounds ADDR_STM_MEM_WR_PAGE 15 } := by
    simp only [ADDR_STM_MEM_WR_PAGE]; same_b_tac
  exact h.transfer c

/-- **stale index on a concrete history**: every frame is acknowledged, no clock update is missing for the firmware —
only `drives()` is called before the next `update` — and it indexes outside the STM BRAM -/
theorem stale_run : ∃ s, stalePre = .ok s ∧ Obs.drives s = .error (.index "foci_stm_drives: stm_bram") := by
  obtain ⟨s0, e0, h0⟩ := new_safe' 249 0 (by omega)
  have e0' : f17P1 = .ok s0 := e0
  obtain ⟨s1, e1, b1, c1⟩ := ecatRecv_step s0 f17F1 h0.base (fromM_ok f17_a1 e0')
  have k1 := c1 h0.chain (fromM_ok stale_x1 e0')
  have e2' : f17P2 = .ok (elideMiddleFrames s1) := by
    unfold f17P2; rw [e0', ok_bind, e1, ok_bind]; rfl
  obtain ⟨s2, e2, b2, c2⟩ := ecatRecv_step _ f17F2 (elide_base b1) (fromM_ok f17_a2 e2')
  have k2 := c2 (elide_chain k1) (fromM_ok stale_x2 e2')
  have e3' : f17P3 = .ok s2 := by unfold f17P3; rw [e2', ok_bind, e2]
  obtain ⟨s3, e3, h3, _⟩ := updateWithSysTime_step s2 50000000000 ⟨b2, k2⟩
  have e4' : staleP4 = .ok s3 := by unfold staleP4; rw [e3', ok_bind, e3]
  obtain ⟨s4, e4, b4, _⟩ := ecatRecv_step _ staleF3 h3.base (fromM_ok stale_a3 e4')
  have hpre : stalePre = .ok s4 := by unfold stalePre; rw [e4', ok_bind, e4]
  have hf := stale_facts
  rw [hpre] at hf
  obtain ⟨hcur, h90, h94, hidx, _, hnt, _⟩ : s4.stmSwap.cur = 1 ∧ rd s4.ctl 90 = 0 ∧ rd s4.ctl 94 = 8 ∧
    s4.stmSwap.curIdx = 50000 ∧ sel s4.stmSwap.cycle 1 = 2 ∧ s4.numTr = 249 ∧ s4.ack = 3 := hf
  refine ⟨s4, hpre, ?_⟩
  apply drives_index_error
  · unfold isStmGainMode; simp [reg, hcur, ADDR_STM_MODE0, STM_MODE_GAIN, h90]
  · omega
  · unfold numFoci; simp [reg, hcur, ADDR_STM_NUM_FOCI0, h94]
  · unfold numFoci stmMem; simp [reg, hcur, ADDR_STM_NUM_FOCI0, h94, hidx, b4.shape.stmMem1]

/-! ### zero sound speed (new finding) -/

def zssF1 : Array Nat := frame1 1 (fociHead 7 2 0 255 1 0 40 0xFFFF 0)
/-- power-on; a complete FociSTM (2 patterns × 1 focus, S0, Immediate) whose header carries sound speed 0; clock -/
def zssPre : M State := do
  let s ← f17P1
  let s ← ecatRecv s zssF1
  updateWithSysTime s 1000000
/-- the frame is acknowledged (ack 1); S0 is current and in focus mode with sound-speed register 0 -/
theorem zss_facts : fromM zssPre (fun s => s.stmSwap.cur = 0 ∧ rd s.ctl 89 = 0 ∧ rd s.ctl 91 = 0 ∧ rd s.ctl 93 = 1 ∧
    s.stmSwap.curIdx < 2 ∧ s.numTr = 249 ∧ s.ack = 1) := by decide +kernel

theorem fociDrive_div_zero (s : State) (seg idx tr : Nat) (hn : 1 ≤ numFoci s seg) (hc : soundSpeed s seg = 0)
    (hb : 4 * (idx * numFoci s seg) + 4 ≤ (stmMem s seg).size) :
    fociDrive s seg idx tr = .error (.divZero "foci_stm_drives: sound_speed") := by
  unfold fociDrive
  simp only []
  generalize stmMem s seg = m at hb
  generalize soundSpeed s seg = c at hc
  generalize numFoci s seg = nf at hn hb
  subst hc
  obtain ⟨k, rfl⟩ : ∃ k, nf = k + 1 := ⟨nf - 1, by omega⟩
  rw [Std.Legacy.Range.forIn_eq_forIn_range']
  simp only [Std.Legacy.Range.size, Nat.sub_zero, Nat.add_sub_cancel, Nat.div_one, List.range'_succ, List.forIn_cons]
  have h1 : ¬ (4 * (idx * (k + 1) + 0) + 4 > m.size) := by simp; omega
  simp only [h1, if_false, if_true, bind, Except.bind]

/-- **the zero-sound-speed panic, in general**: focus mode, sound-speed register 0, index inside the BRAM: `drives()`
divides by zero -/
theorem drives_div_zero (s : State) (hmode : isStmGainMode s s.stmSwap.cur = false) (hnt : 1 ≤ s.numTr)
    (hn : 1 ≤ numFoci s s.stmSwap.cur) (hc : soundSpeed s s.stmSwap.cur = 0)
    (hb : 4 * (s.stmSwap.curIdx * numFoci s s.stmSwap.cur) + 4 ≤ (stmMem s s.stmSwap.cur).size) :
    Obs.drives s = .error (.divZero "foci_stm_drives: sound_speed") := by
  unfold Obs.drives drivesAt currentStmSeg currentStmIdx
  rw [hmode]
  simp only [Bool.false_eq_true, if_false]
  unfold fociDrives
  rw [Array.mapM_eq_mapM_toList]
  obtain ⟨k, hk⟩ : ∃ k, s.numTr = k + 1 := ⟨s.numTr - 1, by omega⟩
  rw [hk]
  have : (Array.range (k + 1)).toList = 0 :: (List.range k).map Nat.succ := by
    simp [List.range_succ_eq_map]
  rw [this, list_mapM_head_error _ _ _ _ (fociDrive_div_zero s _ _ 0 hn hc hb)]
  rfl

end Autd3.Fw
