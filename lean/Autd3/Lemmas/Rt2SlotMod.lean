import Autd3.Lemmas.Rt2Slot
/-!
Second tuple slot, part 2: Modulation packed at offset `k` (capacity `622 - k`), what the firmware reads
from `payload[k..]`, and the round trip `mod_roundtrip_slot2'`.
-/
open Autd3 Autd3.Fw Autd3.Wire Autd3.Gen.Cpu Autd3.Gen
namespace Autd3.Rt

theorem rd_extract (b : Array Nat) (k i : Nat) : rd (b.extract k b.size) i = rd b (k + i) := by
  unfold rd
  by_cases h : k + i < b.size
  · rw [Array.getElem?_eq_getElem (by simp; omega), Array.getElem?_eq_getElem h]; simp
  · rw [Array.getElem?_eq_none (by simp; omega), Array.getElem?_eq_none (by omega)]
theorem u8at_extract (b : Array Nat) (k i : Nat) : u8at (b.extract k b.size) i = u8at b (k + i) := by
  unfold u8at; rw [rd_extract]
theorem u16at_extract (b : Array Nat) (k i : Nat) : u16at (b.extract k b.size) i = u16at b (k + i) := by
  unfold u16at; rw [u8at_extract, u8at_extract]; rfl
theorem u64at_extract (b : Array Nat) (k i : Nat) : u64at (b.extract k b.size) i = u64at b (k + i) := by
  unfold u64at; rw [u16at_extract, u16at_extract, u16at_extract, u16at_extract]; rfl

/-- the first modulation frame packed at offset `k` -/
def modFirstPayloadAt (b samples : Array Nat) (k sendNum flag tm div rep tv : Nat) : Array Nat :=
  put64 (put16 (put16 (put8 (put8 (put8 (put8 (putBytes b (k + 16) samples 0 sendNum) (k + 0) Drv.TAG_Modulation) (k + 1) flag)
    (k + 2) sendNum) (k + 3) tm) (k + 4) div) (k + 6) rep) (k + 8) tv

theorem pack_mod_first_at (seg : Nat) (tr : Tr) (rep div : Nat) (samples : Array Nat) (nt : Nat) (b : Array Nat) (k : Nat)
    (hb : b.size = 622) (hk : k + 18 ≤ 622) (hn : 2 ≤ samples.size) (hn' : samples.size ≤ 65536) :
    ({ dg := .modulation seg tr rep div samples, sent := 0, done := false } : Op).pack nt b k =
      .ok ({ dg := .modulation seg tr rep div samples, sent := min samples.size (min (606 - k) 254),
             done := decide (samples.size ≤ min (606 - k) 254) },
        modFirstPayloadAt b samples k (min samples.size (min (606 - k) 254))
          (modFlagByte true (decide (samples.size ≤ min (606 - k) 254)) seg tr.isSome) (trMode tr) div rep (trValue tr),
        16 + ((min samples.size (min (606 - k) 254) + 1) / 2) * 2) := by
  unfold Op.pack modFirstPayloadAt
  have h0 : ¬ (samples.size < Drv.MOD_BUF_SIZE_MIN ∨ samples.size > Drv.MOD_BUF_SIZE_MAX) := by
    simp only [Drv.MOD_BUF_SIZE_MIN, Drv.MOD_BUF_SIZE_MAX]; omega
  simp only [hb, DrvLayout.ModulationHead_size, Nat.sub_zero, Nat.zero_add, if_true, h0, if_false]
  have h1 : 622 - k - 16 = 606 - k := by omega
  rw [h1]
  generalize hM : min (606 - k) 254 = M
  by_cases hl : samples.size ≤ M
  · have e : samples.size = min samples.size M := by omega
    simp only [← e, hl, decide_true, if_true, Bool.false_or]
    by_cases hs : seg = 1 <;> cases tr <;>
      simp [hs, modFlagByte, Drv.ModulationControlFlags_BEGIN, Drv.ModulationControlFlags_SEGMENT,
        Drv.ModulationControlFlags_NONE, Drv.ModulationControlFlags_END, Drv.ModulationControlFlags_TRANSITION,
        DrvLayout.ModulationHead_tag_off, DrvLayout.ModulationHead_flag_off, DrvLayout.ModulationHead_size_off,
        DrvLayout.ModulationHead_transition_mode_off, DrvLayout.ModulationHead_freq_div_off,
        DrvLayout.ModulationHead_rep_off, DrvLayout.ModulationHead_transition_value_off]
  · have e : ¬ samples.size = min samples.size M := by omega
    simp only [e, hl, decide_false, if_false, Bool.false_or]
    by_cases hs : seg = 1 <;>
      simp [hs, modFlagByte, Drv.ModulationControlFlags_BEGIN, Drv.ModulationControlFlags_SEGMENT,
        Drv.ModulationControlFlags_NONE,
        DrvLayout.ModulationHead_tag_off, DrvLayout.ModulationHead_flag_off, DrvLayout.ModulationHead_size_off,
        DrvLayout.ModulationHead_transition_mode_off, DrvLayout.ModulationHead_freq_div_off,
        DrvLayout.ModulationHead_rep_off, DrvLayout.ModulationHead_transition_value_off]

/-- what the firmware reads from `payload[k..]` of that frame -/
theorem modFirstAt_payload (b samples : Array Nat) (k sn flag tm div rep tv : Nat) (hb : b.size = 622) (hsn : k + 16 + sn ≤ 622)
    (hf : flag < 256) (hsn8 : sn < 256) :
    let d := (modFirstPayloadAt b samples k sn flag tm div rep tv).extract k 622
    u8at d 0 = 16 ∧ u8at d 1 = flag ∧ u8at d 2 = sn ∧ u8at d 3 = tm % 256 ∧ u16at d 4 = div % 65536 ∧
      u16at d 6 = rep % 65536 ∧ u64at d 8 = tv % 18446744073709551616 ∧
      (∀ j, j < sn → u8at d (16 + j) = rd samples j % 256) ∧ (modFirstPayloadAt b samples k sn flag tm div rep tv).size = 622 := by
  have hsz : (modFirstPayloadAt b samples k sn flag tm div rep tv).size = 622 := by simpa [modFirstPayloadAt] using hb
  have hx : (modFirstPayloadAt b samples k sn flag tm div rep tv).extract k 622 =
      (modFirstPayloadAt b samples k sn flag tm div rep tv).extract k (modFirstPayloadAt b samples k sn flag tm div rep tv).size := by
    rw [hsz]
  simp only [hx, u8at_extract, u16at_extract, u64at_extract]
  simp only [modFirstPayloadAt]
  refine ⟨?_, ?_, ?_, ?_, ?_, ?_, ?_, ?_, by simpa using hb⟩
  · rw [u8at_put64_other _ _ _ _ (by omega), u8at_put16, if_neg (by omega), if_neg (by omega), u8at_put16,
      if_neg (by omega), if_neg (by omega), u8at_put8, if_neg (by omega), u8at_put8, if_neg (by omega),
      u8at_put8, if_neg (by omega), u8at_put8, if_pos ⟨rfl, by simp; omega⟩]; rfl
  · rw [u8at_put64_other _ _ _ _ (by omega), u8at_put16, if_neg (by omega), if_neg (by omega), u8at_put16,
      if_neg (by omega), if_neg (by omega), u8at_put8, if_neg (by omega), u8at_put8, if_neg (by omega),
      u8at_put8, if_pos ⟨rfl, by simp; omega⟩]; omega
  · rw [u8at_put64_other _ _ _ _ (by omega), u8at_put16, if_neg (by omega), if_neg (by omega), u8at_put16,
      if_neg (by omega), if_neg (by omega), u8at_put8, if_neg (by omega), u8at_put8, if_pos ⟨rfl, by simp; omega⟩]; omega
  · rw [u8at_put64_other _ _ _ _ (by omega), u8at_put16, if_neg (by omega), if_neg (by omega), u8at_put16,
      if_neg (by omega), if_neg (by omega), u8at_put8, if_pos ⟨rfl, by simp; omega⟩]
  · rw [u16at_put64_other _ _ _ _ (by omega), u16at_put16_other _ _ _ _ (by omega), u16at_put16_same _ _ _ (by simp; omega)]
  · rw [u16at_put64_other _ _ _ _ (by omega), u16at_put16_same _ _ _ (by simp; omega)]
  · rw [u64at_put64_same _ _ _ (by simp; omega)]
  · intro j hj
    rw [u8at_put64_other _ _ _ _ (by omega), u8at_put16, if_neg (by omega), if_neg (by omega), u8at_put16,
      if_neg (by omega), if_neg (by omega), u8at_put8, if_neg (by omega), u8at_put8, if_neg (by omega),
      u8at_put8, if_neg (by omega), u8at_put8, if_neg (by omega), u8at_putBytes, if_pos (by omega), Nat.zero_add,
      show k + (16 + j) - (k + 16) = j from by omega]

theorem ModHeld_ack {s0 s' : State} {a : Nat} {seg : Nat} {tr : Tr} {rep div : Nat} {samples : Array Nat}
    (h : ModHeld { s0 with ack := a } s' seg tr rep div samples) : ModHeld s0 s' seg tr rep div samples :=
  ⟨h.buffer, h.hdiv, h.hrep, h.hcycle, h.otherMem, h.otherRegs, h.req⟩

/-- **Modulation in the second slot**: operation 1 (`dg1`, one frame of `k` bytes, accepted, leaving `s1`)
travels in slot 1 of the first frame, the modulation's first chunk (capacity `622 - k`) in slot 2, the rest
in slot 1 of the following frames; the device ends up holding exactly what it holds when the modulation is
sent alone from `s1` -/
theorem mod_roundtrip_slot2' (s : State) (t : Tx) (ht : TxOK t) (hf : Fresh s t)
    (dg1 : Dg) (o1' : Op) (b1 : Array Nat) (k : Nat) (s1 : State)
    (hnd1 : (Op.ofDg dg1).done = false)
    (hp1 : (Op.ofDg dg1).pack s.numTr t.payload 0 = .ok (o1', b1, k)) (hd1 : o1'.done = true)
    (hk : 0 < k ∧ k % 2 = 0 ∧ k + 18 ≤ 622)
    (hh1 : ∀ b', Keeps k b1 b' → handlePayload (pre s (nextId t)) b' = .ok (s1, NO_ERR))
    (hW1 : WF s1) (hl1 : s1.lastMsgId = nextId t)
    (seg : Nat) (tr : Tr) (rep div : Nat) (samples : Array Nat) (H : ModOK s1 seg tr rep div samples)
    (g1 : validateTransitionMode s1.modSegment seg rep (trMode tr) = false)
    (g2 : validateSilencerSettings s1 (sel s1.stmDiv s1.stmSegment) div = false) :
    ∃ t' s', Sends2 dg1 (.modulation seg tr rep div samples) s t t' s' ∧ WF s' ∧ TxOK t' ∧ Fresh s' t' ∧
      ModHeld s1 s' seg tr rep div samples := by
  have ht' : t.payload.size = 622 := ht
  have hb1 : b1.size = 622 := by rw [(pack_keeps hp1).1]; exact ht'
  have hn3 := H.n3
  have hn2 := H.n2
  obtain ⟨hk0, hk2, hk18⟩ := hk
  obtain ⟨htm, htv⟩ := trMode_lt H
  generalize hM : min (606 - k) 254 = M
  have hM2 : 2 ≤ M ∧ M ≤ 254 ∧ M % 2 = 0 ∧ k + 16 + M ≤ 622 := by omega
  have hpk := pack_mod_first_at seg tr rep div samples s.numTr b1 k hb1 hk18 hn2 hn3
  rw [hM] at hpk
  obtain ⟨p0, p1, p2, p3, p4, p6, p8, pd, psz⟩ := modFirstAt_payload b1 samples k (min samples.size M)
    (modFlagByte true (decide (samples.size ≤ M)) seg tr.isSome) (trMode tr) div rep (trValue tr) hb1
    (by omega) (modFlagByte_lt _ _ _ _) (by omega)
  rw [Nat.mod_eq_of_lt htm] at p3
  rw [Nat.mod_eq_of_lt H.div.2] at p4
  rw [Nat.mod_eq_of_lt H.rep] at p6
  rw [Nat.mod_eq_of_lt htv] at p8
  have pd' : ∀ j, j < min samples.size M →
      u8at ((modFirstPayloadAt b1 samples k (min samples.size M)
        (modFlagByte true (decide (samples.size ≤ M)) seg tr.isSome) (trMode tr) div rep (trValue tr)).extract k 622) (16 + j) =
        rd samples (0 + j) := by
    intro j hj; rw [pd j hj, Nat.zero_add]; exact Nat.mod_eq_of_lt (H.bytes _)
  have hkeep : Keeps k b1 (modFirstPayloadAt b1 samples k (min samples.size M)
      (modFlagByte true (decide (samples.size ≤ M)) seg tr.isSome) (trMode tr) div rep (trValue tr)) := pack_keeps hpk
  generalize modFirstPayloadAt b1 samples k (min samples.size M)
    (modFlagByte true (decide (samples.size ≤ M)) seg tr.isSome) (trMode tr) div rep (trValue tr) = b2
    at hpk p0 p1 p2 p3 p4 p6 p8 pd pd' psz hkeep
  have hh1' := hh1 b2 hkeep
  generalize hd : b2.extract k 622 = d at p0 p1 p2 p3 p4 p6 p8 pd pd'
  -- the state the slot-2 handler is called on
  have hW1a : WF { s1 with ack := NO_ERR } := by wf_same hW1
  have H' : ModOK { s1 with ack := NO_ERR } seg tr rep div samples := ⟨H.seg, H.n2, H.n3, H.bytes, H.rep, H.div, H.tr⟩
  have heq := mod_first_handle_eq { s1 with ack := NO_ERR } d seg rep div (trMode tr) (trValue tr)
    (min samples.size M) H.seg (decide (samples.size ≤ M)) tr.isSome p0 p1 p2 p3 p4 p6 p8 g1 g2
  have hI0 : ModInv { s1 with ack := NO_ERR } (modHead { s1 with ack := NO_ERR } seg rep div (trMode tr) (trValue tr))
      seg tr rep div samples 0 :=
    ModInv_head { s1 with ack := NO_ERR } hW1a s1.lastMsgId s1.rxData seg H.seg tr rep div samples H.rep H.div
  have hl0 : (modHead { s1 with ack := NO_ERR } seg rep div (trMode tr) (trValue tr)).lastMsgId = nextId t := by
    simp [modHead]; exact hl1
  obtain ⟨b1', b2', b3', _⟩ := modFlagByte_bits true (decide (samples.size ≤ M)) seg H.seg tr.isSome
  have hroom : 622 - k ≥ (Op.ofDg (.modulation seg tr rep div samples)).required s.numTr := by
    show 622 - k ≥ 16 + 2; omega
  by_cases hl : samples.size ≤ M
  · -- the whole modulation fits the second slot
    have hw : min samples.size M = samples.size := Nat.min_eq_left hl
    simp only [hl, decide_true] at b2' b3' heq hpk
    have hfin : ∃ sE, handlePayload { s1 with ack := NO_ERR } d = .ok (sE, NO_ERR) ∧ WF sE ∧
        ModHeld { s1 with ack := NO_ERR } sE seg tr rep div samples ∧ sE.lastMsgId = nextId t := by
      rw [heq]
      cases htr : tr with
      | none =>
        subst htr
        obtain ⟨sE, h1, h2, h3, h4⟩ := mod_tail_last_notr H.seg hI0 (by decide) (by decide) d 16 (min samples.size M) _ pd'
          (by omega) (by omega) hn3 b2' (by rw [b3']; rfl)
        exact ⟨sE, h1, h2, h3, h4.trans hl0⟩
      | some mv =>
        obtain ⟨m, v⟩ := mv
        subst htr
        obtain ⟨hv, hv64, hmiss⟩ := H'.tr m v rfl
        obtain ⟨sE, h1, h2, h3, h4⟩ := mod_tail_last_tr H.seg hI0 (by decide) (by decide) d 16 (min samples.size M) _ pd'
          (by omega) (by omega) hn3 b2' (by rw [b3']; rfl) hv hv64 hmiss
        exact ⟨sE, h1, h2, h3, h4.trans hl0⟩
    obtain ⟨sE, hh, hWE, hHeld, hlast⟩ := hfin
    refine ⟨{ msgId := nextId t, slot2 := k, payload := b2 }, fin sE (nextId t), ⟨2, ?_⟩, WF_fin hWE _, psz,
      Fresh_after sE t b2 hlast, ModHeld_ack (ModHeld_fin hHeld _)⟩
    rw [sendLoop2_first 1 _ _ s t hf hnd1 rfl o1' b1 k hp1 hb1 hroom hk0 (by omega) _ b2 _ hpk psz s1 sE hh1'
      (by rw [hd]; exact hh)]
    rw [sendLoop2_done1 _ _ _ _ _ hd1, sendLoop_done _ _ _ _ rfl]
  · -- more frames follow, in slot 1
    have hw : min samples.size M = M := Nat.min_eq_right (by omega)
    simp only [hl, decide_false] at b2' b3' heq hpk
    rw [hw] at heq hpk pd'
    obtain ⟨s2, h1, hI2, hlast⟩ := mod_tail_nonlast H.seg hI0 (by decide) d 16 M _ pd' (by omega) b2'
    have hh : handlePayload { s1 with ack := NO_ERR } d = .ok (s2, NO_ERR) := by rw [heq, h1]
    obtain ⟨t', s', hS, hW', hT', hF', hHeld⟩ := mod_loop H' (samples.size / 618 + 1) (0 + M) (fin s2 (nextId t))
      { msgId := nextId t, slot2 := k, payload := b2 } (ModInv_fin hI2 _) (by omega) (by omega) (by omega) (by omega) psz
      (Fresh_after s2 t b2 (hlast.trans hl0))
    refine ⟨t', s', ⟨samples.size / 618 + 1 + 1 + 1, ?_⟩, hW', hT', hF', ModHeld_ack hHeld⟩
    rw [sendLoop2_first _ _ _ s t hf hnd1 rfl o1' b1 k hp1 hb1 hroom hk0 (by omega) _ b2 _ hpk psz s1 s2 hh1'
      (by rw [hd]; exact hh)]
    rw [sendLoop2_done1 _ _ _ _ _ hd1]
    rw [Nat.zero_add] at hS
    exact hS

end Autd3.Rt
