import Autd3.Lemmas.FociTables
import Mathlib.Analysis.Real.Sqrt
import Mathlib.Tactic.Linarith
import Mathlib.Tactic.Ring
import Mathlib.Tactic.Positivity
import Mathlib.Tactic.NormNum
import Mathlib.Tactic.FieldSimp
import Mathlib.Tactic.GCongr
/-!
Helper lemmas for C07 (`Props/C07.lean`): integer identities of the pose, the structure of the
firmware's fold over the foci, and the real-number analysis (square roots, triangle inequality in
coordinates, the enclosure of the firmware's `q`).
-/
namespace Autd3.Foci
open Autd3.Gen Autd3.Gen.Foci

/-! ## the pose is an isometry (integer polynomial identities) -/

theorem rot_preserves_norm (q : Quat) (v : V3) : (q.mul v).norm2 = q.n2 * q.n2 * v.norm2 := by
  simp only [Quat.mul, V3.norm2, dot, Quat.row, Quat.n2]
  simp only [show (1:Nat) ≠ 0 from by decide, show (2:Nat) ≠ 0 from by decide, show (2:Nat) ≠ 1 from by decide, if_true, if_false]
  ring

theorem rotT_preserves_norm (q : Quat) (v : V3) : (q.mulT v).norm2 = q.n2 * q.n2 * v.norm2 := by
  simp only [Quat.mulT, V3.norm2, Quat.row, Quat.n2]
  simp only [show (1:Nat) ≠ 0 from by decide, show (2:Nat) ≠ 0 from by decide, show (2:Nat) ≠ 1 from by decide, if_true, if_false]
  ring

theorem rot_rotT (q : Quat) (v : V3) :
    q.mul (q.mulT v) = ⟨q.n2 * q.n2 * v.x, q.n2 * q.n2 * v.y, q.n2 * q.n2 * v.z⟩ := by
  simp only [Quat.mul, Quat.mulT, dot, Quat.row, Quat.n2]
  simp only [show (1:Nat) ≠ 0 from by decide, show (2:Nat) ≠ 0 from by decide, show (2:Nat) ≠ 1 from by decide, if_true, if_false]
  congr 1 <;> ring

theorem local_sub (q : Quat) (t0 p t : V3) :
    (localNum q t0 p).sub (localNum q t0 t) = q.mulT (p.sub t) := by
  simp only [localNum, Quat.mulT, V3.sub]
  congr 1 <;> ring

theorem pose_preserves_distance (q : Quat) (t0 p t : V3) :
    ((localNum q t0 p).sub (localNum q t0 t)).norm2 = q.n2 * q.n2 * (p.sub t).norm2 := by
  rw [local_sub, rotT_preserves_norm]

/-! ## the fold over the foci of a pattern -/

theorem sinTable_le (i : ℕ) : Tables.sinTable i ≤ 255 := by
  unfold Tables.sinTable; omega

/-- the table look-ups of focus number `k` of a pattern -/
def sinOf (c tr : ℕ) (r : Rec) (k : ℕ) : ℕ := Tables.sinTable ((qOf c r tr + (if k = 0 then 0 else r.io)) % 256)
def cosOf (c tr : ℕ) (r : Rec) (k : ℕ) : ℕ := Tables.sinTable ((qOf c r tr + (if k = 0 then 0 else r.io) + 64) % 256)

theorem accum_eq_sum (c tr : ℕ) (recs : List Rec) : ∀ (i : ℕ) (acc : ℕ × ℕ),
    accum c tr i recs acc =
      (acc.1 + ((recs.zipIdx i).map fun p => sinOf c tr p.1 p.2).sum,
       acc.2 + ((recs.zipIdx i).map fun p => cosOf c tr p.1 p.2).sum) := by
  induction recs with
  | nil => intro i acc; simp [accum]
  | cons r rs ih =>
    intro i acc
    simp only [accum, List.zipIdx_cons, List.map_cons, List.sum_cons]
    rw [ih]
    simp only [sinOf, cosOf]
    ext <;> simp <;> omega

theorem sum_le (l : List ℕ) (h : ∀ x ∈ l, x ≤ 255) : l.sum ≤ 255 * l.length := by
  induction l with
  | nil => simp
  | cons a t ih =>
    simp only [List.sum_cons, List.length_cons]
    have := h a (by simp)
    have := ih (fun x hx => h x (by simp [hx]))
    omega

theorem avg7_lt (S nf : ℕ) (_hnf : 0 < nf) (hS : S ≤ 255 * nf) : avg7 S nf < 128 := by
  unfold avg7
  have : S / nf ≤ 255 := by
    apply Nat.div_le_of_le_mul; rw [Nat.mul_comm]; exact hS
  omega

theorem avg7_enclosure (S nf : ℕ) (hnf : 0 < nf) :
    nf * (2 * avg7 S nf) ≤ S ∧ S < nf * (2 * avg7 S nf + 2) := by
  unfold avg7
  have h1 : nf * (S / nf) ≤ S := Nat.mul_div_le S nf
  have h2 : S < nf * (S / nf + 1) := by
    have := Nat.lt_mul_div_succ S hnf
    simpa [Nat.mul_succ] using this
  have h3 : 2 * (S / nf / 2) ≤ S / nf := by omega
  have h4 : S / nf + 1 ≤ 2 * (S / nf / 2) + 2 := by omega
  exact ⟨le_trans (Nat.mul_le_mul_left nf h3) h1, lt_of_lt_of_le h2 (Nat.mul_le_mul_left nf h4)⟩

/-! ## Focus gain: the square tests decide the real inequality -/

/-- `a² ≤ b²·d` with `b ≥ 0` gives `a ≤ b·√d` -/
theorem le_mul_sqrt_of_sq_le {a b d : ℝ} (hb : 0 ≤ b) (h : a * a ≤ b * b * d) : a ≤ b * Real.sqrt d := by
  have h1 : |a| ≤ Real.sqrt (b * b * d) := Real.abs_le_sqrt (by nlinarith)
  rw [Real.sqrt_mul (mul_self_nonneg b), Real.sqrt_mul_self hb] at h1
  exact le_trans (le_abs_self a) h1

/-- `b²·d ≤ a²` with `a, b ≥ 0` gives `b·√d ≤ a` -/
theorem mul_sqrt_le_of_le_sq {a b d : ℝ} (ha : 0 ≤ a) (hb : 0 ≤ b) (h : b * b * d ≤ a * a) : b * Real.sqrt d ≤ a := by
  have h1 : Real.sqrt (b * b * d) ≤ Real.sqrt (a * a) := Real.sqrt_le_sqrt h
  rw [Real.sqrt_mul (mul_self_nonneg b), Real.sqrt_mul_self hb, Real.sqrt_mul_self ha] at h1
  exact h1

theorem focus_test_real (D2 C n : ℤ) (hC : 0 < C) (h : focusTest D2 C n = true) :
    |(stepsK : ℝ) * Real.sqrt D2 / C - n| ≤ 1 / 2 + ((stepsK : ℝ) * Real.sqrt D2 / C) / 1048576 := by
  have hCr : (0 : ℝ) < C := by exact_mod_cast hC
  simp only [focusTest, focusLow, focusHigh, Bool.and_eq_true, Bool.or_eq_true, decide_eq_true_eq] at h
  obtain ⟨hlow, hpos, hhigh⟩ := h
  set s := Real.sqrt (D2 : ℝ) with hs
  have hs0 : 0 ≤ s := Real.sqrt_nonneg _
  set S := (stepsK : ℝ) * s / C with hS
  have hSC : S * C = stepsK * s := by rw [hS]; field_simp
  have hK : (0 : ℝ) ≤ stepsK := by positivity
  -- low side
  have hl : ((2 * n - 1 : ℤ) : ℝ) * C * 1048576 ≤ (2 * stepsK * 1048577 : ℕ) * s := by
    rcases hlow with h0 | hsq
    · have h0r : ((2 * n - 1 : ℤ) : ℝ) ≤ 0 := by exact_mod_cast h0
      have : ((2 * n - 1 : ℤ) : ℝ) * C * 1048576 ≤ 0 := by
        have := mul_nonpos_of_nonpos_of_nonneg h0r (le_of_lt hCr)
        nlinarith
      have : (0 : ℝ) ≤ (2 * stepsK * 1048577 : ℕ) * s := by positivity
      linarith
    · have hsqr : (((2 * n - 1) * C * 1048576 : ℤ) : ℝ) * (((2 * n - 1) * C * 1048576 : ℤ) : ℝ)
          ≤ ((2 * stepsK * 1048577 : ℕ) : ℝ) * ((2 * stepsK * 1048577 : ℕ) : ℝ) * (D2 : ℝ) := by
        exact_mod_cast hsq
      have := le_mul_sqrt_of_sq_le (by positivity) hsqr
      push_cast at this ⊢
      linarith
  have hh : ((2 * stepsK * 1048575 : ℕ) : ℝ) * s ≤ ((2 * n + 1 : ℤ) : ℝ) * C * 1048576 := by
    have hsqr : ((2 * stepsK * 1048575 : ℕ) : ℝ) * ((2 * stepsK * 1048575 : ℕ) : ℝ) * (D2 : ℝ)
        ≤ (((2 * n + 1) * C * 1048576 : ℤ) : ℝ) * (((2 * n + 1) * C * 1048576 : ℤ) : ℝ) := by
      exact_mod_cast hhigh
    have hnn : (0 : ℝ) ≤ (((2 * n + 1) * C * 1048576 : ℤ) : ℝ) := by
      have : (0 : ℤ) ≤ (2 * n + 1) * C * 1048576 := by positivity
      exact_mod_cast this
    have := mul_sqrt_le_of_le_sq hnn (by positivity) hsqr
    push_cast at this ⊢
    linarith
  push_cast at hl hh
  -- divide by C
  have e1 : C * ((2 * (n : ℝ) - 1) * 1048576) ≤ C * (2 * S * 1048577) := by nlinarith
  have e2 : C * (2 * S * 1048575) ≤ C * ((2 * (n : ℝ) + 1) * 1048576) := by nlinarith
  have f1 := le_of_mul_le_mul_left e1 hCr
  have f2 := le_of_mul_le_mul_left e2 hCr
  rw [abs_le]
  constructor <;> linarith

/-! ## Euclidean norm in coordinates, the firmware's `q` -/

noncomputable def norm3 (a b c : ℝ) : ℝ := Real.sqrt (a * a + b * b + c * c)

theorem norm3_nonneg (a b c : ℝ) : 0 ≤ norm3 a b c := Real.sqrt_nonneg _

theorem norm3_sq (a b c : ℝ) : norm3 a b c * norm3 a b c = a * a + b * b + c * c :=
  Real.mul_self_sqrt (by nlinarith [mul_self_nonneg a, mul_self_nonneg b, mul_self_nonneg c])

theorem cauchy3 (b1 b2 b3 w1 w2 w3 : ℝ) :
    b1 * w1 + b2 * w2 + b3 * w3 ≤ norm3 b1 b2 b3 * norm3 w1 w2 w3 := by
  have h : |b1 * w1 + b2 * w2 + b3 * w3| ≤ Real.sqrt ((b1 * b1 + b2 * b2 + b3 * b3) * (w1 * w1 + w2 * w2 + w3 * w3)) := by
    apply Real.abs_le_sqrt
    nlinarith [mul_self_nonneg (b1 * w2 - b2 * w1), mul_self_nonneg (b1 * w3 - b3 * w1), mul_self_nonneg (b2 * w3 - b3 * w2)]
  rw [Real.sqrt_mul (by nlinarith [mul_self_nonneg b1, mul_self_nonneg b2, mul_self_nonneg b3])] at h
  exact le_trans (le_abs_self _) h

theorem norm3_le_add (a1 a2 a3 b1 b2 b3 : ℝ) :
    norm3 a1 a2 a3 ≤ norm3 b1 b2 b3 + norm3 (a1 - b1) (a2 - b2) (a3 - b3) := by
  have hB := norm3_nonneg b1 b2 b3
  have hC := norm3_nonneg (a1 - b1) (a2 - b2) (a3 - b3)
  have hcs := cauchy3 b1 b2 b3 (a1 - b1) (a2 - b2) (a3 - b3)
  have hBs := norm3_sq b1 b2 b3
  have hCs := norm3_sq (a1 - b1) (a2 - b2) (a3 - b3)
  unfold norm3 at *
  rw [Real.sqrt_le_iff]
  constructor
  · positivity
  · nlinarith

/-- triangle inequality for the Euclidean norm of ℝ³ in coordinates -/
theorem norm3_sub_le (a1 a2 a3 b1 b2 b3 : ℝ) :
    |norm3 a1 a2 a3 - norm3 b1 b2 b3| ≤ norm3 (a1 - b1) (a2 - b2) (a3 - b3) := by
  have h1 := norm3_le_add a1 a2 a3 b1 b2 b3
  have h2 := norm3_le_add b1 b2 b3 a1 a2 a3
  have h3 : norm3 (b1 - a1) (b2 - a2) (b3 - a3) = norm3 (a1 - b1) (a2 - b2) (a3 - b3) := by
    unfold norm3; congr 1; ring
  rw [h3] at h2
  rw [abs_le]; constructor <;> linarith

theorem norm3_le_of_abs_le (w1 w2 w3 e : ℝ) (h1 : |w1| ≤ e) (h2 : |w2| ≤ e) (h3 : |w3| ≤ e) :
    norm3 w1 w2 w3 ≤ 7 / 4 * e := by
  have he : 0 ≤ e := le_trans (abs_nonneg _) h1
  unfold norm3
  rw [Real.sqrt_le_iff]
  constructor
  · positivity
  · have a1 := abs_le.mp h1; have a2 := abs_le.mp h2; have a3 := abs_le.mp h3
    nlinarith [mul_self_nonneg w1, mul_self_nonneg w2, mul_self_nonneg w3, mul_self_nonneg e]

theorem q_enclosure (d2 c : ℕ) (hc : 0 < c) :
    (((Nat.sqrt d2 * 16384) / c : ℕ) : ℝ) ≤ Real.sqrt d2 * 16384 / c ∧
    Real.sqrt d2 * 16384 / c - 16384 / c - 1 < (((Nat.sqrt d2 * 16384) / c : ℕ) : ℝ) := by
  have hcr : (0 : ℝ) < c := by exact_mod_cast hc
  have h1 : (Nat.sqrt d2 : ℝ) ≤ Real.sqrt d2 := Real.nat_sqrt_le_real_sqrt
  have h2 : Real.sqrt d2 < Nat.sqrt d2 + 1 := Real.real_sqrt_lt_nat_sqrt_succ
  have h3 : (((Nat.sqrt d2 * 16384) / c : ℕ) : ℝ) ≤ ((Nat.sqrt d2 * 16384 : ℕ) : ℝ) / c := by
    rw [le_div_iff₀ hcr]
    have h5 : (Nat.sqrt d2 * 16384) / c * c ≤ Nat.sqrt d2 * 16384 := Nat.div_mul_le_self _ _
    exact_mod_cast h5
  have h4 : ((Nat.sqrt d2 * 16384 : ℕ) : ℝ) / c < (((Nat.sqrt d2 * 16384) / c : ℕ) : ℝ) + 1 := by
    rw [div_lt_iff₀ hcr]
    have h5 : Nat.sqrt d2 * 16384 < ((Nat.sqrt d2 * 16384) / c + 1) * c := by
      nlinarith [Nat.div_add_mod (Nat.sqrt d2 * 16384) c, Nat.mod_lt (Nat.sqrt d2 * 16384) hc]
    exact_mod_cast h5
  push_cast at h3 h4
  constructor
  · calc (((Nat.sqrt d2 * 16384) / c : ℕ) : ℝ) ≤ (Nat.sqrt d2 : ℝ) * 16384 / c := h3
      _ ≤ Real.sqrt d2 * 16384 / c := by gcongr
  · have : Real.sqrt d2 * 16384 / c - 16384 / c < (Nat.sqrt d2 : ℝ) * 16384 / c := by
      rw [← sub_div, div_lt_div_iff_of_pos_right hcr]; nlinarith
    linarith

/-- the firmware's `q` against the ideal propagation phase `256·D/λ`; all lengths in fixed-point units.
`e` bounds, per coordinate, the error of (record − table entry) against (ideal local focus − ideal
local transducer); `e3` the error of the sound-speed word against `64·λ`. -/
theorem fw_q_vs_ideal (X Y Z tx ty tz : ℤ) (cw : ℕ) (px py pz ux uy uz lam e e3 L : ℝ)
    (hx : |((X - tx : ℤ) : ℝ) - (px - ux)| ≤ e) (hy : |((Y - ty : ℤ) : ℝ) - (py - uy)| ≤ e)
    (hz : |((Z - tz : ℤ) : ℝ) - (pz - uz)| ≤ e)
    (hcw : 0 < cw) (hlam : 0 < lam) (hc : |(cw : ℝ) - 64 * lam| ≤ e3)
    (hL : norm3 (px - ux) (py - uy) (pz - uz) ≤ L) :
    let q : ℕ := (Nat.sqrt ((X - tx) * (X - tx) + (Y - ty) * (Y - ty) + (Z - tz) * (Z - tz)).toNat * 16384) / cw
    let ideal := 256 * norm3 (px - ux) (py - uy) (pz - uz) / lam
    ideal - 16384 / cw * (7 / 4 * e + 1 + L * e3 / (64 * lam)) - 1 < q ∧
    (q : ℝ) ≤ ideal + 16384 / cw * (7 / 4 * e + L * e3 / (64 * lam)) := by
  intro q ideal
  have hcwr : (0 : ℝ) < cw := by exact_mod_cast hcw
  have he : 0 ≤ e := le_trans (abs_nonneg _) hx
  have he3 : 0 ≤ e3 := le_trans (abs_nonneg _) hc
  set D := norm3 (px - ux) (py - uy) (pz - uz) with hD
  have hD0 : 0 ≤ D := norm3_nonneg _ _ _
  have hL0 : 0 ≤ L := le_trans hD0 hL
  -- the integer squared distance as a real
  have hd2nn : (0 : ℤ) ≤ (X - tx) * (X - tx) + (Y - ty) * (Y - ty) + (Z - tz) * (Z - tz) := by
    nlinarith [mul_self_nonneg (X - tx), mul_self_nonneg (Y - ty), mul_self_nonneg (Z - tz)]
  have hcast : (((((X - tx) * (X - tx) + (Y - ty) * (Y - ty) + (Z - tz) * (Z - tz)).toNat : ℕ) : ℝ))
      = ((X - tx : ℤ) : ℝ) * ((X - tx : ℤ) : ℝ) + ((Y - ty : ℤ) : ℝ) * ((Y - ty : ℤ) : ℝ) + ((Z - tz : ℤ) : ℝ) * ((Z - tz : ℤ) : ℝ) := by
    have : ((((X - tx) * (X - tx) + (Y - ty) * (Y - ty) + (Z - tz) * (Z - tz)).toNat : ℕ) : ℤ)
        = (X - tx) * (X - tx) + (Y - ty) * (Y - ty) + (Z - tz) * (Z - tz) := Int.toNat_of_nonneg hd2nn
    have h2 := congrArg (fun z : ℤ => (z : ℝ)) this
    simp only [Int.cast_natCast] at h2
    rw [h2]; push_cast; ring
  obtain ⟨hq1, hq2⟩ := q_enclosure ((X - tx) * (X - tx) + (Y - ty) * (Y - ty) + (Z - tz) * (Z - tz)).toNat cw hcw
  rw [hcast] at hq1 hq2
  set D' := norm3 ((X - tx : ℤ) : ℝ) ((Y - ty : ℤ) : ℝ) ((Z - tz : ℤ) : ℝ) with hD'
  have hq1' : (q : ℝ) ≤ D' * 16384 / cw := hq1
  have hq2' : D' * 16384 / cw - 16384 / cw - 1 < (q : ℝ) := hq2
  -- |D' − D| ≤ 7/4 e
  have hDD : |D' - D| ≤ 7 / 4 * e :=
    le_trans (norm3_sub_le _ _ _ _ _ _) (norm3_le_of_abs_le _ _ _ _ hx hy hz)
  -- D'/cw against D/(64 lam)
  have h64 : (0 : ℝ) < 64 * lam := by positivity
  have key : D' * 16384 / cw - ideal = 16384 / cw * ((D' - D) + D * (64 * lam - cw) / (64 * lam)) := by
    show D' * 16384 / cw - 256 * D / lam = _
    field_simp
    ring
  have hterm : |D * (64 * lam - cw) / (64 * lam)| ≤ L * e3 / (64 * lam) := by
    rw [abs_div, abs_of_pos h64, abs_mul, abs_of_nonneg hD0]
    apply div_le_div_of_nonneg_right _ (le_of_lt h64)
    have : |64 * lam - (cw : ℝ)| ≤ e3 := by rw [abs_sub_comm]; exact hc
    exact mul_le_mul hL this (abs_nonneg _) hL0
  have hr : (0 : ℝ) < 16384 / cw := by positivity
  have a1 := abs_le.mp hDD
  have a2 := abs_le.mp hterm
  constructor
  · have : ideal - 16384 / cw * (7 / 4 * e + L * e3 / (64 * lam)) ≤ D' * 16384 / cw := by
      have : -(16384 / cw * (7 / 4 * e + L * e3 / (64 * lam))) ≤ D' * 16384 / cw - ideal := by
        rw [key]
        have : -(7 / 4 * e + L * e3 / (64 * lam)) ≤ (D' - D) + D * (64 * lam - cw) / (64 * lam) := by linarith [a1.1, a2.1]
        nlinarith
      linarith
    have e1 : 16384 / (cw : ℝ) * (7 / 4 * e + 1 + L * e3 / (64 * lam)) = 16384 / cw * (7 / 4 * e + L * e3 / (64 * lam)) + 16384 / cw := by ring
    linarith
  · have : D' * 16384 / cw - ideal ≤ 16384 / cw * (7 / 4 * e + L * e3 / (64 * lam)) := by
      rw [key]
      have : (D' - D) + D * (64 * lam - cw) / (64 * lam) ≤ 7 / 4 * e + L * e3 / (64 * lam) := by linarith [a1.2, a2.2]
      nlinarith
    linarith

theorem fw_single_drive (c : ℕ) (hc : 0 < c) (r : Rec) (tr : ℕ) :
    ∃ φ, fwDrive c [r] tr = .ok (φ, r.io) ∧
      ((φ + qOf c r tr) % 256 = 255 ∨ (φ + qOf c r tr) % 256 = 0 ∨ (φ + qOf c r tr) % 256 = 1) := by
  have hc0 : c ≠ 0 := Nat.pos_iff_ne_zero.mp hc
  refine ⟨atanLookup (Tables.sinTable (qOf c r tr % 256) / 2) (Tables.sinTable ((qOf c r tr % 256 + 64) % 256) / 2), ?_, ?_⟩
  · simp only [fwDrive, List.length_cons, List.length_nil, accum, intensityOf, avg7]
    simp [hc0, Nat.add_mod]
  · have h := table_single (qOf c r tr % 256) (Nat.mod_lt _ (by decide))
    simp only [] at h
    generalize atanLookup (Tables.sinTable (qOf c r tr % 256) / 2) (Tables.sinTable ((qOf c r tr % 256 + 64) % 256) / 2) = φ at h ⊢
    omega

theorem fw_vs_focus_window
    (r : Rec) (tr cw : ℕ) (px py pz ux uy uz lam Dg e e3 e4 ef L : ℝ) (b : ℕ)
    (hx : |((r.x - trX tr : ℤ) : ℝ) - (px - ux)| ≤ e) (hy : |((r.y - trY tr : ℤ) : ℝ) - (py - uy)| ≤ e)
    (hz : |((r.z - trZ tr : ℤ) : ℝ) - (pz - uz)| ≤ e)
    (hcw : 0 < cw) (hlam : 0 < lam) (hc : |(cw : ℝ) - 64 * lam| ≤ e3)
    (hL : norm3 (px - ux) (py - uy) (pz - uz) ≤ L)
    (hDg : |Dg - norm3 (px - ux) (py - uy) (pz - uz)| ≤ e4)
    (hb : ∃ m : ℤ, |(b : ℝ) + 256 * Dg / lam - 256 * m| ≤ 1 / 2 + ef) :
    ∃ φ, fwDrive cw [r] tr = .ok (φ, r.io) ∧ ∃ k j : ℤ, (φ : ℤ) - b = k + 256 * j ∧
      -(16384 / cw * (7 / 4 * e + L * e3 / (64 * lam)) + 256 * e4 / lam + 3 / 2 + ef) ≤ (k : ℝ) ∧
      (k : ℝ) < 16384 / cw * (7 / 4 * e + 1 + L * e3 / (64 * lam)) + 1 + 256 * e4 / lam + 3 / 2 + ef := by
  obtain ⟨φ, hφ, htab⟩ := fw_single_drive cw hcw r tr
  obtain ⟨m, hm⟩ := hb
  refine ⟨φ, hφ, ?_⟩
  have hq := fw_q_vs_ideal r.x r.y r.z (trX tr) (trY tr) (trZ tr) cw px py pz ux uy uz lam e e3 L hx hy hz hcw hlam hc hL
  simp only [] at hq
  have hqdef : qOf cw r tr = (Nat.sqrt ((r.x - trX tr) * (r.x - trX tr) + (r.y - trY tr) * (r.y - trY tr) + (r.z - trZ tr) * (r.z - trZ tr)).toNat * 16384) / cw := rfl
  rw [← hqdef] at hq
  set q := qOf cw r tr with hqq
  set D := norm3 (px - ux) (py - uy) (pz - uz) with hD
  obtain ⟨hq1, hq2⟩ := hq
  -- table: φ + q = t + 256 j
  obtain ⟨t, j, htj, ht⟩ : ∃ t j : ℤ, (φ : ℤ) + q = t + 256 * j ∧ -1 ≤ t ∧ t ≤ 1 := by
    rcases htab with h | h | h
    · exact ⟨-1, ((φ + q) / 256 : ℕ) + 1, by omega, by omega, by omega⟩
    · exact ⟨0, ((φ + q) / 256 : ℕ), by omega, by omega, by omega⟩
    · exact ⟨1, ((φ + q) / 256 : ℕ), by omega, by omega, by omega⟩
  refine ⟨(φ : ℤ) - b - 256 * (j - m), j - m, by ring, ?_⟩
  -- as reals
  have htjr : (φ : ℝ) + q = t + 256 * j := by exact_mod_cast htj
  have ht1 : (-1 : ℝ) ≤ t := by exact_mod_cast ht.1
  have ht2 : (t : ℝ) ≤ 1 := by exact_mod_cast ht.2
  have hkr : (((φ : ℤ) - b - 256 * (j - m) : ℤ) : ℝ) = t - q - b + 256 * m := by
    push_cast; linarith
  rw [hkr]
  have hδ : |256 * Dg / lam - 256 * D / lam| ≤ 256 * e4 / lam := by
    have : 256 * Dg / lam - 256 * D / lam = 256 * (Dg - D) / lam := by ring
    rw [this, abs_div, abs_of_pos hlam, abs_mul, abs_of_pos (by norm_num : (0:ℝ) < 256)]
    apply div_le_div_of_nonneg_right _ (le_of_lt hlam)
    linarith
  have a1 := abs_le.mp hδ
  have a2 := abs_le.mp hm
  constructor <;> linarith [a1.1, a1.2, a2.1, a2.2]

theorem fw_vs_focus_numeric
    (r : Rec) (tr cw : ℕ) (px py pz ux uy uz lam Dg e e4 : ℝ) (b : ℕ) (lo hi : ℤ)
    (hx : |((r.x - trX tr : ℤ) : ℝ) - (px - ux)| ≤ e) (hy : |((r.y - trY tr : ℤ) : ℝ) - (py - uy)| ≤ e)
    (hz : |((r.z - trZ tr : ℤ) : ℝ) - (pz - uz)| ≤ e)
    (hlam : 300 ≤ lam) (hc : |(cw : ℝ) - 64 * lam| ≤ 33 / 64)
    (hL : norm3 (px - ux) (py - uy) (pz - uz) ≤ 50000)
    (hDg : |Dg - norm3 (px - ux) (py - uy) (pz - uz)| ≤ e4)
    (hb : ∃ m : ℤ, |(b : ℝ) + 256 * Dg / lam - 256 * m| ≤ 1 / 2 + 1 / 8)
    (hlo : 16384 / 19199 * (7 / 4 * e + 1375 / 1024) + 64 / 75 * e4 + 13 / 8 < -(lo : ℝ) + 1)
    (hhi : 16384 / 19199 * (7 / 4 * e + 1 + 1375 / 1024) + 1 + 64 / 75 * e4 + 13 / 8 ≤ (hi : ℝ) + 1) :
    ∃ φ, fwDrive cw [r] tr = .ok (φ, r.io) ∧ ∃ k j : ℤ, (φ : ℤ) - b = k + 256 * j ∧ lo ≤ k ∧ k ≤ hi := by
  have hlam0 : (0 : ℝ) < lam := by linarith
  have he : 0 ≤ e := le_trans (abs_nonneg _) hx
  have he4 : 0 ≤ e4 := le_trans (abs_nonneg _) hDg
  have hcwr : (19199 : ℝ) ≤ cw := by have := (abs_le.mp hc).1; linarith
  have hcw : 0 < cw := by
    have : (0 : ℝ) < cw := by linarith
    exact_mod_cast this
  obtain ⟨φ, hφ, k, j, hkj, hk1, hk2⟩ :=
    fw_vs_focus_window r tr cw px py pz ux uy uz lam Dg e (33 / 64) e4 (1 / 8) 50000 b hx hy hz hcw hlam0 hc hL hDg hb
  refine ⟨φ, hφ, k, j, hkj, ?_, ?_⟩
  all_goals
    have hr0 : (0 : ℝ) < 16384 / cw := by positivity
    have hr : (16384 : ℝ) / cw ≤ 16384 / 19199 := by
      apply div_le_div_of_nonneg_left (by norm_num) (by norm_num) hcwr
    have hX0 : (0 : ℝ) ≤ 50000 * (33 / 64) / (64 * lam) := by positivity
    have hX : (50000 : ℝ) * (33 / 64) / (64 * lam) ≤ 1375 / 1024 := by
      rw [div_le_iff₀ (by positivity)]; nlinarith
    have hY : 256 * e4 / lam ≤ 64 / 75 * e4 := by
      rw [div_le_iff₀ hlam0]; nlinarith
  · have h1 : 16384 / (cw : ℝ) * (7 / 4 * e + 50000 * (33 / 64) / (64 * lam)) ≤ 16384 / 19199 * (7 / 4 * e + 1375 / 1024) := by
      apply mul_le_mul hr (by linarith) (by positivity) (by norm_num)
    have : -(lo : ℝ) + 1 > -(k : ℝ) := by linarith
    have : (lo : ℝ) - 1 < k := by linarith
    have : lo - 1 < k := by exact_mod_cast this
    omega
  · have h1 : 16384 / (cw : ℝ) * (7 / 4 * e + 1 + 50000 * (33 / 64) / (64 * lam)) ≤ 16384 / 19199 * (7 / 4 * e + 1 + 1375 / 1024) := by
      apply mul_le_mul hr (by linarith) (by positivity) (by norm_num)
    have : (k : ℝ) < hi + 1 := by linarith
    have : k < hi + 1 := by exact_mod_cast this
    omega

theorem fw_vs_focus_bound_near
    (r : Rec) (tr cw : ℕ) (px py pz ux uy uz lam Dg : ℝ) (b : ℕ)
    (hx : |(r.x : ℝ) - px| ≤ 3 / 5) (hy : |(r.y : ℝ) - py| ≤ 3 / 5) (hz : |(r.z : ℝ) - pz| ≤ 3 / 5)
    (htx : |(trX tr : ℝ) - ux| ≤ 2 / 5) (hty : |(trY tr : ℝ) - uy| ≤ 2 / 5) (htz : |(trZ tr : ℝ) - uz| ≤ 2 / 5)
    (hlam : 300 ≤ lam) (hc : |(cw : ℝ) - 64 * lam| ≤ 33 / 64)
    (hL : norm3 (px - ux) (py - uy) (pz - uz) ≤ 50000)
    (hDg : |Dg - norm3 (px - ux) (py - uy) (pz - uz)| ≤ 1 / 5)
    (hb : ∃ m : ℤ, |(b : ℝ) + 256 * Dg / lam - 256 * m| ≤ 1 / 2 + 1 / 8) :
    ∃ φ, fwDrive cw [r] tr = .ok (φ, r.io) ∧ ∃ k j : ℤ, (φ : ℤ) - b = k + 256 * j ∧ -4 ≤ k ∧ k ≤ 6 := by
  have comb : ∀ (a t p u : ℝ), |a - p| ≤ 3 / 5 → |t - u| ≤ 2 / 5 → |(a - t) - (p - u)| ≤ 1 := by
    intro a t p u h1 h2
    have a1 := abs_le.mp h1; have a2 := abs_le.mp h2
    rw [abs_le]; constructor <;> linarith
  apply fw_vs_focus_numeric r tr cw px py pz ux uy uz lam Dg 1 (1 / 5) b (-4) 6
    (by push_cast; exact comb _ _ _ _ hx htx) (by push_cast; exact comb _ _ _ _ hy hty)
    (by push_cast; exact comb _ _ _ _ hz htz) hlam hc hL hDg hb
  · norm_num
  · norm_num

/-! ## executable admissibility tests ⇒ the real inequalities they encode -/

/-- `R(q)·local = |q|⁴-scaled (p − t0)`: the local point is the inverse pose applied to `p` -/
theorem local_inverts_pose (q : Quat) (t0 p : V3) :
    q.mul (localNum q t0 p) =
      ⟨q.n2 * q.n2 * (p.x - t0.x), q.n2 * q.n2 * (p.y - t0.y), q.n2 * q.n2 * (p.z - t0.z)⟩ := by
  rw [localNum, rot_rotT]; rfl

theorem sigma_pos : (0 : ℝ) < (sigma : ℝ) := by
  have : 0 < sigma := by unfold sigma; positivity
  exact_mod_cast this

/-- the executable record test gives the real inequality it encodes -/
theorem recOk1_real (X num n2 A B : ℤ) (hn : 0 < n2) (h : recOk1 X num n2 A B = true) :
    |(X : ℝ) - UNITS_PER_MM * (num : ℝ) / (n2 * sigma)|
      ≤ 1 / 2 + UNITS_PER_MM * (A : ℝ) / (sigma * 4194304) + UNITS_PER_MM * (B : ℝ) / (sigma * 524288) := by
  have hnr : (0 : ℝ) < n2 := by exact_mod_cast hn
  have hs := sigma_pos
  simp only [recOk1, decide_eq_true_eq] at h
  have hr : |(X : ℝ) * n2 * sigma - UNITS_PER_MM * num| * 8388608
      ≤ n2 * sigma * 4194304 + 2 * UNITS_PER_MM * A * n2 + 16 * UNITS_PER_MM * B * n2 := by
    rw [Int.natCast_natAbs] at h
    have := (Int.cast_le (R := ℝ)).mpr h
    push_cast at this
    exact this
  have hden : (0 : ℝ) < n2 * sigma := by positivity
  have key : (X : ℝ) - UNITS_PER_MM * (num : ℝ) / (n2 * sigma) = ((X : ℝ) * n2 * sigma - UNITS_PER_MM * num) / (n2 * sigma) := by
    field_simp
  rw [key, abs_div, abs_of_pos hden, div_le_iff₀ hden]
  have e : (1 / 2 + (UNITS_PER_MM : ℝ) * (A : ℝ) / (sigma * 4194304) + (UNITS_PER_MM : ℝ) * (B : ℝ) / (sigma * 524288)) * (n2 * sigma)
      = (n2 * sigma * 4194304 + 2 * UNITS_PER_MM * A * n2 + 16 * UNITS_PER_MM * B * n2) / 8388608 := by
    field_simp; ring
  rw [e, le_div_iff₀ (by norm_num)]
  exact hr

/-- the executable sound-speed test: the word is within `1/2 + 1/64` of `SCALE · c[m/s]` -/
theorem ssOk_real (cw : ℕ) (C : ℤ) (h : ssOk cw C = true) :
    |(cw : ℝ) - SOUND_SPEED_SCALE * ((C : ℝ) / sigma / METER)| ≤ 33 / 64 := by
  have hs := sigma_pos
  simp only [ssOk, decide_eq_true_eq] at h
  have hr : |(cw : ℝ) * METER * sigma - SOUND_SPEED_SCALE * C| * 64 ≤ 33 * METER * sigma := by
    rw [Int.natCast_natAbs] at h
    have := (Int.cast_le (R := ℝ)).mpr h
    push_cast at this
    exact this
  have hM : (0 : ℝ) < (METER : ℝ) := by norm_num [METER]
  have hden : (0 : ℝ) < METER * sigma := by positivity
  have key : (cw : ℝ) - SOUND_SPEED_SCALE * ((C : ℝ) / sigma / METER) = ((cw : ℝ) * METER * sigma - SOUND_SPEED_SCALE * C) / (METER * sigma) := by
    field_simp
  rw [key, abs_div, abs_of_pos hden, div_le_iff₀ hden]
  linarith

/-- every byte of the admissible set comes from an integer `n` that passes the exact test -/
theorem focusBytes_sound (D2 C : ℤ) (off b : ℕ) (h : b ∈ focusBytes D2 C off) :
    ∃ n : ℕ, focusTest D2 C n = true ∧ b = (off % 256 + 256 - n % 256) % 256 := by
  simp only [focusBytes, List.mem_eraseDups, List.mem_map, List.mem_filter] at h
  obtain ⟨n, ⟨_, hn⟩, rfl⟩ := h
  exact ⟨n, hn, rfl⟩

/-! ## the firmware drive as a function of the two sums -/

/-- sums of the sine / cosine table look-ups over the foci of a pattern (focus 0 without offset) -/
def sinSum (c tr : ℕ) (recs : List Rec) : ℕ := ((recs.zipIdx 0).map fun p => sinOf c tr p.1 p.2).sum
def cosSum (c tr : ℕ) (recs : List Rec) : ℕ := ((recs.zipIdx 0).map fun p => cosOf c tr p.1 p.2).sum

theorem fwDrive_ok (c : ℕ) (hc : 0 < c) (recs : List Rec) (hne : recs ≠ []) (tr : ℕ) :
    fwDrive c recs tr =
      .ok (atanLookup (avg7 (sinSum c tr recs) recs.length) (avg7 (cosSum c tr recs) recs.length), intensityOf recs) := by
  have hc0 : c ≠ 0 := Nat.pos_iff_ne_zero.mp hc
  have hl : recs.length ≠ 0 := by simpa using hne
  simp only [fwDrive, hl, hc0, if_false, accum_eq_sum, sinSum, cosSum, Nat.zero_add]

theorem sinSum_le (c tr : ℕ) (recs : List Rec) : sinSum c tr recs ≤ 255 * recs.length := by
  have := sum_le ((recs.zipIdx 0).map fun p => sinOf c tr p.1 p.2) (by
    intro x hx; simp only [List.mem_map] at hx; obtain ⟨p, _, rfl⟩ := hx; exact sinTable_le _)
  simpa [sinSum] using this

theorem cosSum_le (c tr : ℕ) (recs : List Rec) : cosSum c tr recs ≤ 255 * recs.length := by
  have := sum_le ((recs.zipIdx 0).map fun p => cosOf c tr p.1 p.2) (by
    intro x hx; simp only [List.mem_map] at hx; obtain ⟨p, _, rfl⟩ := hx; exact sinTable_le _)
  simpa [cosSum] using this

/-- changing the byte of the first record (the intensity) does not change the sums -/
theorem sums_ignore_first_byte (c tr : ℕ) (r : Rec) (rs : List Rec) (x : ℕ) :
    sinSum c tr ({ r with io := x } :: rs) = sinSum c tr (r :: rs) ∧
    cosSum c tr ({ r with io := x } :: rs) = cosSum c tr (r :: rs) := by
  simp [sinSum, cosSum, List.zipIdx_cons, sinOf, cosOf, qOf, d2]

end Autd3.Foci
