import Autd3.Lemmas.WireStep
import Autd3.Lemmas.RunLoop
/-!
The sender loop over operation states (`opLoop`), its termination (`opLoop_finishes`) and
`frames2_bounded` (C03 `frames_bounded`).
-/
namespace Autd3.Wire
open Autd3.Fw (rd)
open Autd3.Gen.Drv
open Autd3.Gen

def fin2 (p : Op × Op) : Bool := p.1.done && p.2.done
def mu2 (p : Op × Op) : Nat := p.1.mu + p.2.mu

/-- abstract sender loop for a pair of operations and a payload of `S` bytes -/
def opLoop (n S : Nat) (p : Op × Op) : List (Op × Op) × Option (Option Err) := runLoop (next2 n S) fin2 mu2 p

/-- number of frames the sender loop transmits for the pair -/
def frames2 (n S : Nat) (p : Op × Op) : Nat := (opLoop n S p).1.length

/-- everything the loop theorems need of an operation state -/
def Good (n S : Nat) (o : Op) : Prop := o.dg.Valid ∧ o.Inv ∧ (Op.ofDg o.dg).required n ≤ S

theorem Good.req {n S : Nat} {o : Op} (h : Good n S o) : o.required n ≤ S :=
  Nat.le_trans (required_le_first o n) h.2.2

theorem good_next {n S avail : Nat} {o o' : Op} {sz : Nat} (h : Good n S o) (hav : avail % 2 = 0)
    (hreq : o.required n ≤ avail) (hn : o.next n avail = .ok (o', sz)) :
    Good n S o' ∧ Contract o n avail o' sz := by
  have c := next_contract o n avail o' sz h.2.1 hav hreq hn
  refine ⟨⟨?_, c.inv, ?_⟩, c⟩
  · rw [c.dg]; exact h.1
  · rw [c.dg]; exact h.2.2

theorem mu_zero_of_done {o : Op} (h : o.done = true) : o.mu = 0 := by simp [Op.mu, h]
theorem mu_pos_of_not_done {o : Op} (h : o.done = false) : 0 < o.mu := by simp [Op.mu, h]; omega

/-- one step of the pair: never rejected, keeps `Good`, both states advance monotonically and the
measure decreases unless both are already done -/
theorem next2_good {n S : Nat} {p : Op × Op} (hS : S % 2 = 0) (h1 : Good n S p.1) (h2 : Good n S p.2) :
    ∃ p', next2 n S p = .ok p' ∧ Good n S p'.1 ∧ Good n S p'.2 ∧ p.1.Le p'.1 ∧ p.2.Le p'.2 ∧
      (fin2 p = false → mu2 p' < mu2 p) := by
  obtain ⟨a, b⟩ := p
  simp only at h1 h2
  unfold next2
  cases ha : a.done <;> cases hb : b.done <;> simp only []
  · -- both pending
    obtain ⟨a', sz1, hna⟩ := next_ok a n S h1.1 h1.2.1
    obtain ⟨ga, ca⟩ := good_next h1 hS h1.req hna
    simp only [hna]
    by_cases hfit : S - sz1 ≥ b.required n
    · simp only [hfit, if_true]
      obtain ⟨b', sz2, hnb⟩ := next_ok b n (S - sz1) h2.1 h2.2.1
      have hev : (S - sz1) % 2 = 0 := by have := ca.even; have := ca.le_avail; omega
      obtain ⟨gb, cb⟩ := good_next h2 hev hfit hnb
      simp only [hnb]
      refine ⟨_, rfl, ga, gb, ⟨ca.dg.symm, ca.mono, by simp [ha]⟩, ⟨cb.dg.symm, cb.mono, by simp [hb]⟩, ?_⟩
      intro _
      have := ca.mu ha; have := cb.mu hb
      simp only [mu2]; omega
    · simp only [hfit, if_false]
      refine ⟨_, rfl, ga, h2, ⟨ca.dg.symm, ca.mono, by simp [ha]⟩, Op.Le.refl _, ?_⟩
      intro _
      have := ca.mu ha
      simp only [mu2]; omega
  · obtain ⟨a', sz1, hna⟩ := next_ok a n S h1.1 h1.2.1
    obtain ⟨ga, ca⟩ := good_next h1 hS h1.req hna
    simp only [hna]
    refine ⟨_, rfl, ga, h2, ⟨ca.dg.symm, ca.mono, by simp [ha]⟩, Op.Le.refl _, ?_⟩
    intro _
    have := ca.mu ha
    simp only [mu2]; omega
  · obtain ⟨b', sz1, hnb⟩ := next_ok b n S h2.1 h2.2.1
    obtain ⟨gb, cb⟩ := good_next h2 hS h2.req hnb
    simp only [hnb]
    refine ⟨_, rfl, h1, gb, Op.Le.refl _, ⟨cb.dg.symm, cb.mono, by simp [hb]⟩, ?_⟩
    intro _
    have := cb.mu hb
    simp only [mu2]; omega
  · exact ⟨_, rfl, h1, h2, Op.Le.refl _, Op.Le.refl _, by simp [fin2, ha, hb]⟩

theorem opLoop_unfold {n S : Nat} {p : Op × Op} (hS : S % 2 = 0) (h1 : Good n S p.1) (h2 : Good n S p.2) :
    ∃ p', next2 n S p = .ok p' ∧ Good n S p'.1 ∧ Good n S p'.2 ∧ p.1.Le p'.1 ∧ p.2.Le p'.2 ∧
      (fin2 p' = false → mu2 p' < mu2 p) ∧
      opLoop n S p = if fin2 p' then ([p'], none) else (p' :: (opLoop n S p').1, (opLoop n S p').2) := by
  obtain ⟨p', hn, g1, g2, l1, l2, hmu⟩ := next2_good hS h1 h2
  have hmu' : fin2 p' = false → mu2 p' < mu2 p := by
    intro hf
    apply hmu
    cases hfp : fin2 p with
    | false => rfl
    | true =>
      -- both done already: the step is the identity
      exfalso
      simp only [fin2, Bool.and_eq_true] at hfp
      have : p' = p := by
        unfold next2 at hn
        simp only [hfp.1, hfp.2] at hn
        cases hn; rfl
      subst this
      simp [fin2, hfp.1, hfp.2] at hf
  refine ⟨p', hn, g1, g2, l1, l2, hmu', ?_⟩
  unfold opLoop
  cases hf : fin2 p' with
  | true => simp only [if_true]; exact runLoop_ok_fin _ _ _ _ _ hn hf
  | false => 
    simp only [Bool.false_eq_true, if_false]
    exact runLoop_ok_cont _ _ _ _ _ hn hf (hmu' hf)

/-- **termination of the pack loop**: for valid operations the loop is never rejected, never stuck, ends
with both operations done, and sends at most `max 1 (μ₁ + μ₂)` frames -/
theorem opLoop_finishes (n S : Nat) (hS : S % 2 = 0) (p : Op × Op) (h1 : Good n S p.1) (h2 : Good n S p.2) :
    (opLoop n S p).2 = none ∧ 1 ≤ frames2 n S p ∧ frames2 n S p ≤ max 1 (mu2 p) ∧
      ∃ q, (opLoop n S p).1.getLast? = some q ∧ fin2 q = true := by
  generalize hm : mu2 p = m
  induction m using Nat.strongRecOn generalizing p with
  | _ m ih =>
    obtain ⟨p', hn, g1, g2, l1, l2, hmu, hl⟩ := opLoop_unfold hS h1 h2
    unfold frames2
    rw [hl]
    cases hf : fin2 p' with
    | true => simp [hf]; omega
    | false =>
      simp only [Bool.false_eq_true, if_false]
      have hlt := hmu hf
      obtain ⟨e1, e2, e3, q, e4, e5⟩ := ih (mu2 p') (by omega) p' g1 g2 rfl
      unfold frames2 at e2 e3
      refine ⟨e1, by simp, ?_, q, ?_, e5⟩
      · simp only [List.length_cons]
        have : 1 ≤ mu2 p' := by
          simp only [fin2, Bool.and_eq_false_iff] at hf
          simp only [mu2]
          rcases hf with hf | hf
          · have := mu_pos_of_not_done hf; omega
          · have := mu_pos_of_not_done hf; omega
        omega
      · rw [List.getLast?_cons, e4]; rfl

/-! ### `frames_bounded` -/

/-- the `NullOp` that accompanies a single datagram -/
def nullOp : Op := Op.ofDg .null

theorem good_null (n S : Nat) : Good n S nullOp := by
  refine ⟨trivial, ofDg_inv _, ?_⟩
  simp [nullOp, Op.ofDg, Op.required]

theorem good_ofDg {n S : Nat} {d : Dg} (hv : d.Valid) (hfit : (Op.ofDg d).required n ≤ S) : Good n S (Op.ofDg d) := by
  refine ⟨?_, ofDg_inv _, ?_⟩
  · simpa [Op.ofDg] using hv
  · simpa [Op.ofDg] using hfit

theorem frames2_unfold {n S : Nat} {p : Op × Op} (hS : S % 2 = 0) (h1 : Good n S p.1) (h2 : Good n S p.2) :
    ∃ p', next2 n S p = .ok p' ∧ Good n S p'.1 ∧ Good n S p'.2 ∧ p.1.Le p'.1 ∧ p.2.Le p'.2 ∧
      (fin2 p' = false → mu2 p' < mu2 p) ∧
      frames2 n S p = 1 + if fin2 p' then 0 else frames2 n S p' := by
  obtain ⟨p', hn, g1, g2, l1, l2, hmu, hl⟩ := opLoop_unfold hS h1 h2
  refine ⟨p', hn, g1, g2, l1, l2, hmu, ?_⟩
  unfold frames2
  rw [hl]
  cases fin2 p' <;> simp <;> omega

theorem next2_done_right {n S : Nat} {a d : Op} (hd : d.done = true) :
    next2 n S (a, d) = match (if a.done then .ok (a, 0) else a.next n S) with
      | .error e => .error e
      | .ok (a', _) => .ok (a', d) := by
  unfold next2
  cases ha : a.done <;> simp [hd] <;> (cases a.next n S <;> rfl)

theorem next2_done_left {n S : Nat} {d b : Op} (hd : d.done = true) :
    next2 n S (d, b) = match (if b.done then .ok (b, 0) else b.next n S) with
      | .error e => .error e
      | .ok (b', _) => .ok (d, b') := by
  unfold next2
  cases hb : b.done <;> simp [hd] <;> (cases b.next n S <;> rfl)

/-- a finished partner does not influence the loop -/
theorem frames2_done_right (n S : Nat) (a d : Op) (hd : d.done = true) :
    frames2 n S (a, d) = frames2 n S (a, nullOp) := by
  have := runLoop_sim (next2 n S) fin2 mu2 (next2 n S) fin2 mu2 (fun s => (s.1, nullOp)) id
    (fun s => s.2 = d)
    (by
      intro s s' hs h
      obtain ⟨a, d'⟩ := s
      simp only at hs; subst hs
      rw [next2_done_right hd] at h
      split at h
      · cases h
      · cases h; rfl)
    (by
      intro s hs
      obtain ⟨a, d'⟩ := s
      simp only at hs; subst hs
      rw [next2_done_right hd, next2_done_right (d := nullOp) rfl]
      generalize (if a.done = true then Except.ok (a, 0) else a.next n S) = x
      rcases x with e | ⟨a', sz⟩ <;> rfl)
    (by intro s hs; obtain ⟨a, d'⟩ := s; simp only at hs; subst hs; simp [fin2, hd, nullOp, Op.ofDg])
    (by intro s hs; obtain ⟨a, d'⟩ := s; simp only at hs; subst hs
        simp [mu2, mu_zero_of_done hd, mu_zero_of_done (o := nullOp) rfl])
    (a, d) rfl
  unfold frames2 opLoop
  rw [this]
  simp

theorem frames2_done_left (n S : Nat) (d b : Op) (hd : d.done = true) :
    frames2 n S (d, b) = frames2 n S (nullOp, b) := by
  have := runLoop_sim (next2 n S) fin2 mu2 (next2 n S) fin2 mu2 (fun s => (nullOp, s.2)) id
    (fun s => s.1 = d)
    (by
      intro s s' hs h
      obtain ⟨d', b⟩ := s
      simp only at hs; subst hs
      rw [next2_done_left hd] at h
      split at h
      · cases h
      · cases h; rfl)
    (by
      intro s hs
      obtain ⟨d', b⟩ := s
      simp only at hs; subst hs
      rw [next2_done_left hd, next2_done_left (d := nullOp) rfl]
      generalize (if b.done = true then Except.ok (b, 0) else b.next n S) = x
      rcases x with e | ⟨a', sz⟩ <;> rfl)
    (by intro s hs; obtain ⟨d', b⟩ := s; simp only at hs; subst hs; simp [fin2, hd, nullOp, Op.ofDg])
    (by intro s hs; obtain ⟨d', b⟩ := s; simp only at hs; subst hs
        simp [mu2, mu_zero_of_done hd, mu_zero_of_done (o := nullOp) rfl])
    (d, b) rfl
  unfold frames2 opLoop
  rw [this]
  simp

theorem Good.of_le {n S : Nat} {a b : Op} (h : Good n S a) (hle : a.Le b) (hb : b.Inv) : Good n S b :=
  ⟨hle.1 ▸ h.1, hb, hle.1 ▸ h.2.2⟩

/-- a more advanced state of the same operation never needs more frames -/
theorem frames2_mono (n S : Nat) (hS : S % 2 = 0) (b b' : Op) (hle : b.Le b') (hb : Good n S b) (hb' : Good n S b') :
    frames2 n S (nullOp, b') ≤ frames2 n S (nullOp, b) := by
  generalize hm : b.mu = m
  induction m using Nat.strongRecOn generalizing b b' with
  | _ m ih =>
    obtain ⟨p, hn, g1, g2, l1, l2, hmu, hf⟩ := frames2_unfold (p := (nullOp, b)) hS (good_null n S) hb
    obtain ⟨p', hn', g1', g2', l1', l2', hmu', hf'⟩ := frames2_unfold (p := (nullOp, b')) hS (good_null n S) hb'
    rw [hf, hf']
    rw [next2_done_left rfl] at hn hn'
    cases hd' : b'.done with
    | true =>
      simp only [hd', if_true] at hn'
      cases hn'
      simp [fin2, hd', nullOp, Op.ofDg]
    | false =>
      have hd : b.done = false := by
        cases h : b.done with
        | false => rfl
        | true => rw [hle.2.2 h] at hd'; cases hd'
      simp only [hd, hd', Bool.false_eq_true, if_false] at hn hn'
      cases hx : b.next n S with
      | error e => rw [hx] at hn; cases hn
      | ok r =>
        obtain ⟨b1, sz1⟩ := r
        cases hx' : b'.next n S with
        | error e => rw [hx'] at hn'; cases hn'
        | ok r' =>
          obtain ⟨b1', sz1'⟩ := r'
          rw [hx] at hn; rw [hx'] at hn'
          cases hn; cases hn'
          have hle1 := next_mono b b' b1 b1' n S sz1 sz1' hle hb'.2.1 hx hx'
          simp only [fin2, nullOp, Op.ofDg, Bool.true_and]
          cases hd1' : b1'.done with
          | true => simp
          | false =>
            have hd1 : b1.done = false := by
              cases h : b1.done with
              | false => rfl
              | true => rw [hle1.2.2 h] at hd1'; cases hd1'
            simp only [hd1, Bool.false_eq_true, if_false]
            have hlt := hmu (by simp [fin2, hd1])
            simp only [mu2, mu_zero_of_done (o := nullOp) rfl, Nat.zero_add] at hlt
            have := ih b1.mu (by omega) b1 b1' hle1 g2 g2' rfl
            simp only [nullOp, Op.ofDg] at this
            omega

/-- **frames_bounded**: sending the pair never takes more frames than sending the two separately -/
theorem frames2_bounded (n S : Nat) (hS : S % 2 = 0) (a b : Op) (ha : Good n S a) (hb : Good n S b) :
    frames2 n S (a, b) ≤ frames2 n S (a, nullOp) + frames2 n S (nullOp, b) := by
  generalize hm : mu2 (a, b) = m
  induction m using Nat.strongRecOn generalizing a b with
  | _ m ih =>
    have h1a := (opLoop_finishes n S hS (a, nullOp) ha (good_null n S)).2.1
    have h1b := (opLoop_finishes n S hS (nullOp, b) (good_null n S) hb).2.1
    cases hda : a.done with
    | true => rw [frames2_done_left n S a b hda]; omega
    | false =>
    cases hdb : b.done with
    | true => rw [frames2_done_right n S a b hdb]; omega
    | false =>
      obtain ⟨p, hn, g1, g2, l1, l2, hmu, hf⟩ := frames2_unfold (p := (a, b)) hS ha hb
      obtain ⟨q, hnq, gq1, gq2, lq1, lq2, hmuq, hfq⟩ := frames2_unfold (p := (a, nullOp)) hS ha (good_null n S)
      obtain ⟨a', b'⟩ := p
      simp only at g1 g2 l1 l2
      -- the first component evolves as in the run of `a` alone
      have hq : q = (a', nullOp) := by
        rw [next2_done_right rfl] at hnq
        simp only [hda, Bool.false_eq_true, if_false] at hnq
        unfold next2 at hn
        simp only [hda, hdb] at hn
        cases hx : a.next n S with
        | error e => rw [hx] at hn; cases hn
        | ok r =>
          obtain ⟨a1, sz1⟩ := r
          rw [hx] at hn hnq
          cases hnq
          simp only at hn
          split at hn
          · split at hn
            · cases hn
            · cases hn; rfl
          · cases hn; rfl
      subst hq
      rw [hf, hfq]
      have hmono := frames2_mono n S hS b b' l2 hb g2
      cases hfin : fin2 (a', b') with
      | true => simp; omega
      | false =>
        simp only [Bool.false_eq_true, if_false]
        cases hda' : a'.done with
        | true =>
          simp only [fin2, hda', nullOp, Op.ofDg, Bool.and_self, if_true]
          rw [frames2_done_left n S a' b' hda']
          simp only [nullOp, Op.ofDg] at hmono ⊢
          omega
        | false =>
          simp only [fin2, hda', Bool.false_and, Bool.false_eq_true, if_false]
          have := ih (mu2 (a', b')) (by have := hmu hfin; omega) a' b' g1 g2 rfl
          omega

end Autd3.Wire
