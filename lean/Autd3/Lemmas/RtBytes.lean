import Autd3.Model.Wire
import Autd3.Model.Obs
/-!
Round-trip infrastructure, part 1 (core Lean only): total reads of updated arrays, closed forms of
the driver's byte writers (`put8/put16/put64`, `putZeros/putBytes/putWords`), of the firmware's word
reader `wordsAt`, and the generic loop recursor `iter` that every `for k in [0:n]` loop of the
models is proved equal to.  Used by Props/C01.
-/
namespace Autd3.Rt
open Autd3.Fw Autd3.Wire

/-! ### `rd` -/

theorem rd_set (a : Array Nat) (i v j : Nat) :
    rd (a.setIfInBounds i v) j = if j = i ∧ i < a.size then v else rd a j := by
  unfold rd; grind

theorem rd_of_lt {a : Array Nat} {i : Nat} (h : i < a.size) : rd a i = a[i] := by
  unfold rd; simp [h]

theorem rd_of_ge {a : Array Nat} {i : Nat} (h : a.size ≤ i) : rd a i = 0 := by
  unfold rd; simp [h]

/-! ### loops -/

/-- `iter f b n = f (… f (f b 0) 1 …) (n-1)`: the body `f` applied for `k = 0, …, n-1` -/
def iter {β : Type} (f : β → Nat → β) (b : β) : Nat → β
  | 0 => b
  | n + 1 => f (iter f b n) n

theorem foldl_range' {β : Type} (f : β → Nat → β) (b : β) (n : Nat) :
    (List.range' 0 n).foldl f b = iter f b n := by
  induction n with
  | zero => rfl
  | succ n ih => rw [List.range'_1_concat, List.foldl_append]; simp [ih, iter]

theorem foldl_attach_val {β : Type} (l : List Nat) (f : β → { x // x ∈ l } → β) (g : β → Nat → β)
    (h : ∀ b x, f b x = g b x.val) (b : β) : l.attach.foldl f b = l.foldl g b := by
  have : l.foldl g b = (l.attach.map Subtype.val).foldl g b := by rw [List.attach_map_subtype_val]
  rw [this, List.foldl_map]
  congr 1; funext b x; exact h b x

/-- a property that holds initially and is kept by every step holds at the end -/
theorem iter_inv {β : Type} (P : β → Prop) (f : β → Nat → β) (b : β) (h0 : P b)
    (hs : ∀ b k, P b → P (f b k)) (n : Nat) : P (iter f b n) := by
  induction n with
  | zero => exact h0
  | succ n ih => exact hs _ _ ih

/-! ### bytes written by the driver -/

@[simp] theorem size_put8 (b : Array Nat) (i v : Nat) : (put8 b i v).size = b.size := by
  simp [put8]
@[simp] theorem size_put16 (b : Array Nat) (i v : Nat) : (put16 b i v).size = b.size := by
  simp [put16]
@[simp] theorem size_put64 (b : Array Nat) (i v : Nat) : (put64 b i v).size = b.size := by
  simp [put64]

theorem u8at_lt (d : Array Nat) (i : Nat) : u8at d i < 256 := by
  unfold u8at; omega
theorem u16at_lt (d : Array Nat) (i : Nat) : u16at d i < 65536 := by
  have := u8at_lt d i; have := u8at_lt d (i + 1); unfold u16at; omega
theorem u64at_lt (d : Array Nat) (i : Nat) : u64at d i < 18446744073709551616 := by
  have := u16at_lt d i; have := u16at_lt d (i + 2); have := u16at_lt d (i + 4)
  have := u16at_lt d (i + 6); unfold u64at; omega

theorem u8at_put8 (b : Array Nat) (i v j : Nat) :
    u8at (put8 b i v) j = if j = i ∧ i < b.size then v % 256 else u8at b j := by
  unfold u8at put8; rw [rd_set]; split <;> simp

theorem u8at_put16 (b : Array Nat) (i v j : Nat) :
    u8at (put16 b i v) j =
      if j = i + 1 ∧ i + 1 < b.size then (v / 256) % 256
      else if j = i ∧ i < b.size then v % 256 else u8at b j := by
  unfold put16; rw [u8at_put8, u8at_put8, size_put8]

/-- a 16-bit field written by `put16` is read back by `u16at` -/
theorem u16at_put16_same (b : Array Nat) (i v : Nat) (h : i + 1 < b.size) :
    u16at (put16 b i v) i = v % 65536 := by
  unfold u16at; rw [u8at_put16, u8at_put16]
  rw [if_neg (by omega), if_pos (by omega), if_pos (by omega)]; omega

theorem u16at_put16_other (b : Array Nat) (i v j : Nat) (h : j + 1 < i ∨ i + 1 < j) :
    u16at (put16 b i v) j = u16at b j := by
  unfold u16at; rw [u8at_put16, u8at_put16]
  repeat (rw [if_neg (by omega)])

theorem u16at_put8_other (b : Array Nat) (i v j : Nat) (h : j + 1 < i ∨ i < j) :
    u16at (put8 b i v) j = u16at b j := by
  unfold u16at; rw [u8at_put8, u8at_put8]
  repeat (rw [if_neg (by omega)])

theorem u8at_put64 (b : Array Nat) (i v j : Nat) :
    u8at (put64 b i v) j =
      if i ≤ j ∧ j < i + 8 ∧ j < b.size then (v / 256 ^ (j - i)) % 256 else u8at b j := by
  unfold put64
  simp only [u8at_put16, size_put16]
  by_cases h : i ≤ j ∧ j < i + 8 ∧ j < b.size
  · rw [if_pos h]
    obtain ⟨h1, h2, h3⟩ := h
    obtain ⟨k, rfl⟩ : ∃ k, j = i + k := ⟨j - i, by omega⟩
    have : k = 0 ∨ k = 1 ∨ k = 2 ∨ k = 3 ∨ k = 4 ∨ k = 5 ∨ k = 6 ∨ k = 7 := by omega
    rcases this with h | h | h | h | h | h | h | h <;> subst h <;>
      simp [show ∀ a k : Nat, a + k - a = k from by omega] <;>
      (repeat' split) <;> omega
  · rw [if_neg h]
    repeat (rw [if_neg (by omega)])

theorem u16at_put64_other (b : Array Nat) (i v j : Nat) (h : j + 1 < i ∨ i + 7 < j) :
    u16at (put64 b i v) j = u16at b j := by
  unfold u16at; rw [u8at_put64, u8at_put64]
  repeat (rw [if_neg (by omega)])

theorem u8at_put64_other (b : Array Nat) (i v j : Nat) (h : j < i ∨ i + 7 < j) :
    u8at (put64 b i v) j = u8at b j := by
  rw [u8at_put64, if_neg (by omega)]

/-- a 64-bit field written by `put64` is read back by `u64at` -/
theorem u64at_put64_same (b : Array Nat) (i v : Nat) (h : i + 7 < b.size) :
    u64at (put64 b i v) i = v % 18446744073709551616 := by
  unfold u64at u16at
  simp only [u8at_put64]
  repeat (rw [if_pos (by omega)])
  simp only [show i - i = 0 from by omega, show ∀ k, i + k - i = k from by omega,
    show ∀ k l, i + k + l - i = k + l from by omega]
  simp only [Nat.reducePow, Nat.reduceAdd]
  omega
/-! ### the driver's loops -/

theorem putZeros_eq (b : Array Nat) (i n : Nat) :
    putZeros b i n = iter (fun b k => put8 b (i + k) 0) b n := by
  unfold putZeros; simp [foldl_range']

theorem putBytes_eq (b : Array Nat) (i : Nat) (src : Array Nat) (from_ n : Nat) :
    putBytes b i src from_ n = iter (fun b k => put8 b (i + k) (rd src (from_ + k))) b n := by
  unfold putBytes; simp [foldl_range']

theorem putWords_eq (b : Array Nat) (i : Nat) (ws : Array Nat) (n : Nat) :
    putWords b i ws n = iter (fun b k => put16 b (i + 2 * k) (rd ws k)) b n := by
  unfold putWords; simp [foldl_range']

@[simp] theorem size_putZeros (b : Array Nat) (i n : Nat) : (putZeros b i n).size = b.size := by
  rw [putZeros_eq]; exact iter_inv (fun x : Array Nat => x.size = b.size) _ _ rfl (fun _ _ h => by simpa using h) n
@[simp] theorem size_putBytes (b : Array Nat) (i : Nat) (src : Array Nat) (f n : Nat) :
    (putBytes b i src f n).size = b.size := by
  rw [putBytes_eq]; exact iter_inv (fun x : Array Nat => x.size = b.size) _ _ rfl (fun _ _ h => by simpa using h) n
@[simp] theorem size_putWords (b : Array Nat) (i : Nat) (ws : Array Nat) (n : Nat) :
    (putWords b i ws n).size = b.size := by
  rw [putWords_eq]; exact iter_inv (fun x : Array Nat => x.size = b.size) _ _ rfl (fun _ _ h => by simpa using h) n

theorem u8at_putZeros (b : Array Nat) (i n j : Nat) :
    u8at (putZeros b i n) j = if i ≤ j ∧ j < i + n ∧ j < b.size then 0 else u8at b j := by
  rw [putZeros_eq]
  induction n with
  | zero => rw [iter, if_neg (by omega)]
  | succ n ih =>
    have hs : (iter (fun b k => put8 b (i + k) 0) b n).size = b.size := by
      rw [← putZeros_eq]; simp
    simp only [iter, u8at_put8, ih, hs]
    repeat' split
    all_goals omega

theorem u8at_putBytes (b : Array Nat) (i : Nat) (src : Array Nat) (f n j : Nat) :
    u8at (putBytes b i src f n) j =
      if i ≤ j ∧ j < i + n ∧ j < b.size then rd src (f + (j - i)) % 256 else u8at b j := by
  rw [putBytes_eq]
  induction n with
  | zero => rw [iter, if_neg (by omega)]
  | succ n ih =>
    have hs : (iter (fun b k => put8 b (i + k) (rd src (f + k))) b n).size = b.size := by
      rw [← putBytes_eq]; simp
    simp only [iter, u8at_put8, ih, hs]
    by_cases h : j = i + n ∧ i + n < b.size
    · rw [if_pos h, if_pos (by omega)]; obtain ⟨rfl, _⟩ := h
      rw [show i + n - i = n from by omega]
    · rw [if_neg h]
      by_cases h2 : i ≤ j ∧ j < i + n ∧ j < b.size
      · rw [if_pos h2, if_pos (by omega)]
      · rw [if_neg h2, if_neg (by omega)]

theorem u8at_putWords (b : Array Nat) (i : Nat) (ws : Array Nat) (n j : Nat) :
    u8at (putWords b i ws n) j =
      if i ≤ j ∧ j < i + 2 * n ∧ j < b.size then (rd ws ((j - i) / 2) / 256 ^ ((j - i) % 2)) % 256
      else u8at b j := by
  rw [putWords_eq]
  induction n with
  | zero => rw [iter, if_neg (by omega)]
  | succ n ih =>
    have hs : (iter (fun b k => put16 b (i + 2 * k) (rd ws k)) b n).size = b.size := by
      rw [← putWords_eq]; simp
    simp only [iter, u8at_put16, ih, hs]
    by_cases h : j = i + 2 * n + 1 ∧ i + 2 * n + 1 < b.size
    · rw [if_pos h, if_pos (by omega)]; obtain ⟨rfl, _⟩ := h
      rw [show (i + 2 * n + 1 - i) / 2 = n from by omega, show (i + 2 * n + 1 - i) % 2 = 1 from by omega]
    · rw [if_neg h]
      by_cases h1 : j = i + 2 * n ∧ i + 2 * n < b.size
      · rw [if_pos h1, if_pos (by omega)]; obtain ⟨rfl, _⟩ := h1
        rw [show (i + 2 * n - i) / 2 = n from by omega, show (i + 2 * n - i) % 2 = 0 from by omega]
        simp
      · rw [if_neg h1]
        by_cases h2 : i ≤ j ∧ j < i + 2 * n ∧ j < b.size
        · rw [if_pos h2, if_pos (by omega)]
        · rw [if_neg h2, if_neg (by omega)]

/-- the `k`-th word written by `putWords` is read back by `u16at` -/
theorem u16at_putWords (b : Array Nat) (i : Nat) (ws : Array Nat) (n k : Nat) (hk : k < n)
    (hb : i + 2 * k + 1 < b.size) : u16at (putWords b i ws n) (i + 2 * k) = rd ws k % 65536 := by
  unfold u16at; rw [u8at_putWords, u8at_putWords, if_pos (by omega), if_pos (by omega)]
  rw [show (i + 2 * k - i) / 2 = k from by omega, show (i + 2 * k - i) % 2 = 0 from by omega,
    show (i + 2 * k + 1 - i) / 2 = k from by omega, show (i + 2 * k + 1 - i) % 2 = 1 from by omega]
  simp; omega

/-! ### the firmware's word reader -/

@[simp] theorem size_wordsAt (d : Array Nat) (off len : Nat) : (wordsAt d off len).size = len := by
  simp [wordsAt]

theorem getElem_wordsAt (d : Array Nat) (off len k : Nat) (h : k < (wordsAt d off len).size) :
    (wordsAt d off len)[k] = u16at d (off + 2 * k) := by
  simp [wordsAt]

theorem rd_wordsAt (d : Array Nat) (off len k : Nat) :
    rd (wordsAt d off len) k = if k < len then u16at d (off + 2 * k) else 0 := by
  by_cases h : k < len
  · rw [rd_of_lt (by simpa using h), getElem_wordsAt, if_pos h]
  · rw [rd_of_ge (by simpa using h), if_neg h]

end Autd3.Rt
