import Autd3.Lemmas.SilSend2
/-!
# C08 at the level of SENDS, part 3: accepted complete sends of Modulation / FociSTM / GainSTM

An accepted complete send of one of the three multi-frame datagrams leaves the protocol's `Done` facts
(`Lemmas/Tuple2*.lean`: the CPU latches `stm_freq_div` / `stm_segment` resp. `mod_freq_div` / `mod_segment`, the
division and request registers, everything else untouched); from them and `Core` before the send, `Core` holds after
the send — although it does NOT hold between the BEGIN and the END frame of a transition-carrying send (the belief
moves at BEGIN, the request at END).
-/
set_option linter.unusedSimpArgs false
set_option linter.unusedVariables false
open Autd3 Autd3.Fw Autd3.Wire Autd3.Gen.Cpu Autd3.Gen Autd3.Rt Autd3.SilGuard
namespace Autd3.SilSend

theorem segReg_ok {s : State} {a : Nat} {site : String} {v : Nat} (h : segReg s a site = .ok v) : reg s a = v := by
  unfold segReg at h
  simp only [] at h
  split at h
  · cases h; rfl
  · cases h

theorem segReg_of_le {s : State} {a : Nat} (site : String) (h : reg s a ≤ 1) : segReg s a site = .ok (reg s a) := by
  unfold segReg; simp only [h, if_true]

/-- `Core` after an STM-side write that latched division `div` for segment `seg`, moved the belief iff it moved the
request, and left the modulation side and the silencer alone -/
theorem core_after_stm {s f : State} (hc : Core s) (seg div : Nat) (moved : Bool) (hseg : seg ≤ 1)
    (hsz : f.ctl.size = 256)
    (hdiv : f.stmDiv = setSel s.stmDiv seg div)
    (hsegm : f.stmSegment = if moved then seg else s.stmSegment)
    (hregDiv : reg f (ADDR_STM_FREQ_DIV0 + seg) = div)
    (hregOther : reg f (ADDR_STM_FREQ_DIV0 + (1 - seg)) = reg s (ADDR_STM_FREQ_DIV0 + (1 - seg)))
    (hreq : reg f ADDR_STM_REQ_RD_SEGMENT = if moved then seg else reg s ADDR_STM_REQ_RD_SEGMENT)
    (hmod : f.modDiv = s.modDiv ∧ f.modSegment = s.modSegment ∧ f.strict = s.strict ∧ f.minDivI = s.minDivI ∧
      f.minDivP = s.minDivP)
    (hregs : ∀ a, a = 34 ∨ a = 37 ∨ a = 38 ∨ a = 64 ∨ a = 67 ∨ a = 68 → reg f a = reg s a)
    (hg : validateSilencerSettings s div (sel s.modDiv s.modSegment) = false) : Core f := by
  obtain ⟨m1, m2, m3, m4, m5⟩ := hmod
  rw [validate_false] at hg
  have r34 := hregs 34 (by simp); have r37 := hregs 37 (by simp); have r38 := hregs 38 (by simp)
  have r64 := hregs 64 (by simp); have r67 := hregs 67 (by simp); have r68 := hregs 68 (by simp)
  simp only [ADDR_STM_FREQ_DIV0, ADDR_STM_REQ_RD_SEGMENT] at hregDiv hregOther hreq
  have c := hc
  refine ⟨hsz, ?_, by rw [m2]; exact c.modSegLe, ?_, ?_, ?_, ?_, ?_, ?_, ?_, ?_, by rw [m4]; exact c.stepsILt,
    by rw [m5]; exact c.stepsPLt, ?_, ?_⟩
  · rw [hsegm]; split
    · exact hseg
    · exact c.stmSegLe
  · show f.stmSegment = reg f 82
    rw [hsegm, hreq]; split
    · rfl
    · exact c.stmBelief
  · show f.modSegment = reg f 34
    rw [m2, r34]; exact c.modBelief
  · show f.stmDiv.1 = reg f 85
    rcases (by omega : seg = 0 ∨ seg = 1) with e | e <;> subst e
    · rw [hdiv]; simpa [setSel] using hregDiv.symm
    · rw [hdiv]; simp only [setSel, Nat.succ_ne_zero, if_false]
      have := c.stmDiv0; simp only [ADDR_STM_FREQ_DIV0] at this
      rw [this]; exact hregOther.symm
  · show f.stmDiv.2 = reg f 86
    rcases (by omega : seg = 0 ∨ seg = 1) with e | e <;> subst e
    · rw [hdiv]; simp only [setSel, if_true]
      have := c.stmDiv1; simp only [ADDR_STM_FREQ_DIV1] at this
      rw [this]; exact hregOther.symm
    · rw [hdiv]; simpa [setSel] using hregDiv.symm
  · show f.modDiv.1 = reg f 37
    rw [m1, r37]; exact c.modDiv0
  · show f.modDiv.2 = reg f 38
    rw [m1, r38]; exact c.modDiv1
  · show f.minDivI = reg f 67
    rw [m4, r67]; exact c.stepsI
  · show f.minDivP = reg f 68
    rw [m5, r68]; exact c.stepsP
  · intro h1 h2
    rw [m3]
    refine c.strictOf ?_ ?_
    · unfold fixedSteps at h1 ⊢; simp only [ADDR_SILENCER_FLAG] at h1 ⊢; rw [← r64]; exact h1
    · unfold strictBit at h2 ⊢; simp only [ADDR_SILENCER_FLAG] at h2 ⊢; rw [← r64]; exact h2
  · intro hs
    rw [m3] at hs
    obtain ⟨g01, g02, g03⟩ := c.guard hs
    obtain ⟨_, g12, g13⟩ := hg hs
    rw [m1, m2, m4, m5, hdiv, hsegm]
    refine ⟨g01, ?_⟩
    have hb := c.stmSegLe
    rcases (by omega : seg = 0 ∨ seg = 1) with e | e <;> subst e <;>
      rcases (by omega : s.stmSegment = 0 ∨ s.stmSegment = 1) with e2 | e2 <;>
      cases moved <;> simp only [e2, setSel, sel, if_true, if_false, Bool.false_eq_true, Nat.succ_ne_zero,
        Nat.one_ne_zero, Nat.zero_ne_one] at g02 g03 ⊢ <;> exact ⟨by omega, by omega⟩

/-- the modulation-side counterpart of `core_after_stm` -/
theorem core_after_mod {s f : State} (hc : Core s) (seg div : Nat) (moved : Bool) (hseg : seg ≤ 1)
    (hsz : f.ctl.size = 256)
    (hdiv : f.modDiv = setSel s.modDiv seg div)
    (hsegm : f.modSegment = if moved then seg else s.modSegment)
    (hregDiv : reg f (ADDR_MOD_FREQ_DIV0 + seg) = div)
    (hregOther : reg f (ADDR_MOD_FREQ_DIV0 + (1 - seg)) = reg s (ADDR_MOD_FREQ_DIV0 + (1 - seg)))
    (hreq : reg f ADDR_MOD_REQ_RD_SEGMENT = if moved then seg else reg s ADDR_MOD_REQ_RD_SEGMENT)
    (hstm : f.stmDiv = s.stmDiv ∧ f.stmSegment = s.stmSegment ∧ f.strict = s.strict ∧ f.minDivI = s.minDivI ∧
      f.minDivP = s.minDivP)
    (hregs : ∀ a, a = 82 ∨ a = 85 ∨ a = 86 ∨ a = 64 ∨ a = 67 ∨ a = 68 → reg f a = reg s a)
    (hg : validateSilencerSettings s (sel s.stmDiv s.stmSegment) div = false) : Core f := by
  obtain ⟨m1, m2, m3, m4, m5⟩ := hstm
  rw [validate_false] at hg
  have r82 := hregs 82 (by simp); have r85 := hregs 85 (by simp); have r86 := hregs 86 (by simp)
  have r64 := hregs 64 (by simp); have r67 := hregs 67 (by simp); have r68 := hregs 68 (by simp)
  simp only [ADDR_MOD_FREQ_DIV0, ADDR_MOD_REQ_RD_SEGMENT] at hregDiv hregOther hreq
  have c := hc
  refine ⟨hsz, by rw [m2]; exact c.stmSegLe, ?_, ?_, ?_, ?_, ?_, ?_, ?_, ?_, ?_, by rw [m4]; exact c.stepsILt,
    by rw [m5]; exact c.stepsPLt, ?_, ?_⟩
  · rw [hsegm]; split
    · exact hseg
    · exact c.modSegLe
  · show f.stmSegment = reg f 82
    rw [m2, r82]; exact c.stmBelief
  · show f.modSegment = reg f 34
    rw [hsegm, hreq]; split
    · rfl
    · exact c.modBelief
  · show f.stmDiv.1 = reg f 85
    rw [m1, r85]; exact c.stmDiv0
  · show f.stmDiv.2 = reg f 86
    rw [m1, r86]; exact c.stmDiv1
  · show f.modDiv.1 = reg f 37
    rcases (by omega : seg = 0 ∨ seg = 1) with e | e <;> subst e
    · rw [hdiv]; simpa [setSel] using hregDiv.symm
    · rw [hdiv]; simp only [setSel, Nat.succ_ne_zero, if_false]
      have := c.modDiv0; simp only [ADDR_MOD_FREQ_DIV0] at this
      rw [this]; exact hregOther.symm
  · show f.modDiv.2 = reg f 38
    rcases (by omega : seg = 0 ∨ seg = 1) with e | e <;> subst e
    · rw [hdiv]; simp only [setSel, if_true]
      have := c.modDiv1; simp only [ADDR_MOD_FREQ_DIV1] at this
      rw [this]; exact hregOther.symm
    · rw [hdiv]; simpa [setSel] using hregDiv.symm
  · show f.minDivI = reg f 67
    rw [m4, r67]; exact c.stepsI
  · show f.minDivP = reg f 68
    rw [m5, r68]; exact c.stepsP
  · intro h1 h2
    rw [m3]
    refine c.strictOf ?_ ?_
    · unfold fixedSteps at h1 ⊢; simp only [ADDR_SILENCER_FLAG] at h1 ⊢; rw [← r64]; exact h1
    · unfold strictBit at h2 ⊢; simp only [ADDR_SILENCER_FLAG] at h2 ⊢; rw [← r64]; exact h2
  · intro hs
    rw [m3] at hs
    obtain ⟨g01, g02, g03⟩ := c.guard hs
    obtain ⟨g11, _, _⟩ := hg hs
    rw [m1, m2, m4, m5, hdiv, hsegm]
    refine ⟨?_, g02, g03⟩
    have hb := c.modSegLe
    rcases (by omega : seg = 0 ∨ seg = 1) with e | e <;> subst e <;>
      rcases (by omega : s.modSegment = 0 ∨ s.modSegment = 1) with e2 | e2 <;>
      cases moved <;> simp only [e2, setSel, sel, if_true, if_false, Bool.false_eq_true, Nat.succ_ne_zero,
        Nat.one_ne_zero, Nat.zero_ne_one] at g01 ⊢ <;> omega

theorem reg_pre (s : State) (id a : Nat) : reg (pre s id) a = reg s a := by
  obtain ⟨r, hr⟩ := pre_eq s id; rw [hr]; rfl

theorem trMode_none_iff (tr : Tr) (h : ∀ m v, tr = some (m, v) → ValidTr m v) :
    (trMode tr = TRANSITION_MODE_NONE) ↔ tr.isSome = false := by
  cases tr with
  | none => simp [trMode, TRANSITION_MODE_NONE, Drv.TRANSITION_MODE_NONE]
  | some mv =>
    obtain ⟨m, v⟩ := mv
    have := h m v rfl
    unfold ValidTr at this
    simp only [trMode, Option.isSome_some, Bool.true_eq_false, iff_false]
    simp only [TRANSITION_MODE_SYNC_IDX, TRANSITION_MODE_SYS_TIME, TRANSITION_MODE_GPIO, TRANSITION_MODE_EXT,
      TRANSITION_MODE_IMMEDIATE, TRANSITION_MODE_NONE] at this ⊢
    omega

/-- **an accepted complete FociSTM send keeps `Core`** (any number of frames, with or without transition) -/
theorem foci_send_core (s : State) (t : Tx) (hW : WF s) (ht : TxOK t) (hf : Fresh s t) (hc : Core s)
    (n seg : Nat) (tr : Tr) (rep div ss : Nat) (records : Array Nat) (P : Nat)
    (H : FociOK s n seg tr rep div ss records P) (t' : Tx) (s' : State)
    (h : Sends (.fociStm n seg tr rep div ss records) s t t' s') : Core s' ∧ WF s' ∧ TxOK t' ∧ Fresh s' t' := by
  have hR := Tuple2.foci_ready_of_sends s t hW ht hf n seg tr rep div ss records P H t' s' h
  obtain ⟨_, g2⟩ := Tuple2.foci_accept_guards s t hW ht hf n seg tr rep div ss records P H t' s' h
  have L := Tuple2.fociProto_laws n seg tr rep div ss records P H.hn H.size H.total
  obtain ⟨t1, f, hS, a, b, c, own, done⟩ := Tuple2.single_roundtrip L s t hW ht hf hR
  obtain ⟨e1, e2⟩ := Sends_unique h hS
  subst e1 e2
  refine ⟨?_, a, b, c⟩
  have done' : Tuple2.FociDone n seg tr rep div ss records P (pre s (nextId t)) s' := done
  have own' : Foot eraseSI Tuple2.TS s s' := own
  have hiff := trMode_none_iff tr (fun m v e => (H.htr m v e).1)
  refine core_after_stm hc seg div tr.isSome H.hseg a.ctl ?_ ?_ ?_ ?_ ?_ ?_ ?_ g2
  · rw [done'.hdiv]; obtain ⟨r, hr⟩ := pre_eq s (nextId t); rw [hr]
  · rw [done'.hsegm]
    obtain ⟨r, hr⟩ := pre_eq s (nextId t)
    cases hs : tr.isSome
    · rw [if_pos (hiff.2 hs), hr]; simp
    · rw [if_neg (fun e => by rw [hiff.1 e] at hs; cases hs)]; simp
  · exact done'.held.hdiv
  · have := done'.held.otherRegs.1
    unfold Obs.stmDiv at this
    rw [this, reg_pre]
  · have hq := done'.held.req
    cases tr with
    | none =>
      obtain ⟨_, q2, _⟩ := hq
      unfold Obs.reqStmSeg at q2
      have hle : reg (pre s (nextId t)) ADDR_STM_REQ_RD_SEGMENT ≤ 1 := by
        rw [reg_pre, ← hc.stmBelief]; exact hc.stmSegLe
      rw [segReg_of_le _ hle] at q2
      have := segReg_ok q2
      simp only [Option.isSome_none, Bool.false_eq_true, if_false]
      rw [this, reg_pre]
    | some mv =>
      obtain ⟨m, v⟩ := mv
      obtain ⟨q1, _, _⟩ := hq
      unfold Obs.reqStmSeg at q1
      simp only [Option.isSome_some, if_true]
      exact segReg_ok q1
  · have f0 : ∀ {α : Type} (p : State → α), p (eraseSI s') = p (eraseSI s) := fun p => congrArg p own'.eq
    exact ⟨f0 State.modDiv, f0 State.modSegment, f0 State.strict, f0 State.minDivI, f0 State.minDivP⟩
  · intro x hx
    exact own'.regs x (by unfold Tuple2.TS; omega)

/-- **an accepted complete GainSTM send keeps `Core`** -/
theorem gstm_send_core (s : State) (t : Tx) (hW : WF s) (ht : TxOK t) (hf : Fresh s t) (hc : Core s)
    (mode seg : Nat) (tr : Tr) (rep div : Nat) (patterns : Array (Array Nat))
    (H : GOK s mode seg tr rep div patterns) (t' : Tx) (s' : State)
    (h : Sends (.gainStm mode seg tr rep div patterns) s t t' s') : Core s' ∧ WF s' ∧ TxOK t' ∧ Fresh s' t' := by
  have hR := Tuple2.gstm_ready_of_sends s t hW ht hf mode seg tr rep div patterns H t' s' h
  obtain ⟨_, g2⟩ := Tuple2.gstm_accept_guards s t hW ht hf mode seg tr rep div patterns H t' s' h
  have L := Tuple2.gstmProto_laws mode seg tr rep div patterns H.hmode H.size
  obtain ⟨t1, f, hS, a, b, c, own, done⟩ := Tuple2.single_roundtrip L s t hW ht hf hR
  obtain ⟨e1, e2⟩ := Sends_unique h hS
  subst e1 e2
  refine ⟨?_, a, b, c⟩
  have done' : Tuple2.GDone mode seg tr rep div patterns (pre s (nextId t)) s' := done
  have own' : Foot eraseSI Tuple2.TS s s' := own
  have hiff := trMode_none_iff tr (fun m v e => (H.htr m v e).1)
  refine core_after_stm hc seg div tr.isSome H.hseg a.ctl ?_ ?_ ?_ ?_ ?_ ?_ ?_ g2
  · rw [done'.sdiv]; obtain ⟨r, hr⟩ := pre_eq s (nextId t); rw [hr]
  · rw [done'.segm]
    obtain ⟨r, hr⟩ := pre_eq s (nextId t)
    cases hs : tr.isSome
    · rw [if_pos (hiff.2 hs), hr]; simp
    · rw [if_neg (fun e => by rw [hiff.1 e] at hs; cases hs)]; simp
  · exact done'.held.hdiv
  · have := done'.held.otherRegs.1
    unfold Obs.stmDiv at this
    rw [this, reg_pre]
  · have hq := done'.held.req
    cases tr with
    | none =>
      obtain ⟨_, q2, _⟩ := hq
      unfold Obs.reqStmSeg at q2
      have hle : reg (pre s (nextId t)) ADDR_STM_REQ_RD_SEGMENT ≤ 1 := by
        rw [reg_pre, ← hc.stmBelief]; exact hc.stmSegLe
      rw [segReg_of_le _ hle] at q2
      have := segReg_ok q2
      simp only [Option.isSome_none, Bool.false_eq_true, if_false]
      rw [this, reg_pre]
    | some mv =>
      obtain ⟨m, v⟩ := mv
      obtain ⟨q1, _, _⟩ := hq
      unfold Obs.reqStmSeg at q1
      simp only [Option.isSome_some, if_true]
      exact segReg_ok q1
  · have f0 : ∀ {α : Type} (p : State → α), p (eraseSI s') = p (eraseSI s) := fun p => congrArg p own'.eq
    exact ⟨f0 State.modDiv, f0 State.modSegment, f0 State.strict, f0 State.minDivI, f0 State.minDivP⟩
  · intro x hx
    exact own'.regs x (by unfold Tuple2.TS; omega)

/-- **an accepted complete Modulation send keeps `Core`** -/
theorem mod_send_core (s : State) (t : Tx) (hW : WF s) (ht : TxOK t) (hf : Fresh s t) (hc : Core s)
    (seg : Nat) (tr : Tr) (rep div : Nat) (samples : Array Nat)
    (H : ModOK s seg tr rep div samples) (t' : Tx) (s' : State)
    (h : Sends (.modulation seg tr rep div samples) s t t' s') : Core s' ∧ WF s' ∧ TxOK t' ∧ Fresh s' t' := by
  have hR := Tuple2.mod_ready_of_sends s t hW ht hf seg tr rep div samples H t' s' h
  obtain ⟨_, g2⟩ := Tuple2.mod_accept_guards s t hW ht hf seg tr rep div samples H t' s' h
  have L := Tuple2.modProto_laws seg tr rep div samples H.n2 H.n3
  obtain ⟨t1, f, hS, a, b, c, own, done⟩ := Tuple2.single_roundtrip L s t hW ht hf hR
  obtain ⟨e1, e2⟩ := Sends_unique h hS
  subst e1 e2
  refine ⟨?_, a, b, c⟩
  have done' : Tuple2.ModDone seg tr rep div samples (pre s (nextId t)) s' := done
  have own' : Foot eraseMI TM s s' := own
  have hiff := trMode_none_iff tr (fun m v e => (H.tr m v e).1)
  refine core_after_mod hc seg div tr.isSome H.seg a.ctl ?_ ?_ ?_ ?_ ?_ ?_ ?_ g2
  · rw [done'.ldiv]; obtain ⟨r, hr⟩ := pre_eq s (nextId t); rw [hr]
  · rw [done'.lseg]
    obtain ⟨r, hr⟩ := pre_eq s (nextId t)
    cases hs : tr.isSome
    · rw [if_pos (hiff.2 hs), hr]; simp
    · rw [if_neg (fun e => by rw [hiff.1 e] at hs; cases hs)]; simp
  · exact done'.held.hdiv
  · have := done'.held.otherRegs.1
    unfold Obs.modDiv at this
    rw [this, reg_pre]
  · have hq := done'.held.req
    cases tr with
    | none =>
      obtain ⟨_, q2, _⟩ := hq
      unfold Obs.reqModSeg at q2
      have hle : reg (pre s (nextId t)) ADDR_MOD_REQ_RD_SEGMENT ≤ 1 := by
        rw [reg_pre, ← hc.modBelief]; exact hc.modSegLe
      rw [segReg_of_le _ hle] at q2
      have := segReg_ok q2
      simp only [Option.isSome_none, Bool.false_eq_true, if_false]
      rw [this, reg_pre]
    | some mv =>
      obtain ⟨m, v⟩ := mv
      obtain ⟨q1, _, _⟩ := hq
      unfold Obs.reqModSeg at q1
      simp only [Option.isSome_some, if_true]
      exact segReg_ok q1
  · have f0 : ∀ {α : Type} (p : State → α), p (eraseMI s') = p (eraseMI s) := fun p => congrArg p own'.eq
    exact ⟨f0 State.stmDiv, f0 State.stmSegment, f0 State.strict, f0 State.minDivI, f0 State.minDivP⟩
  · intro x hx
    exact own'.regs x (by unfold TM; omega)

end Autd3.SilSend
