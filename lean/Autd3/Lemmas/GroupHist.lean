import Autd3.Lemmas.GroupMain
/-!
# `group_send` / `send` over HISTORIES: the controller's `tx` buffer and the devices' receivers

`Model/Group.lean` describes ONE call on a controller whose `tx` slots hold only frames the devices
have already processed: its `Outcome.log` lists, per successful `Link::send`, the frames that were
packed with a fresh message id.  Across calls two more pieces of state matter, and they are defined
here (nothing under `Model/` or `Drv/` is touched):

* per device the controller's `tx` slot — `Sender::tx[i]`: `header.msg_id` and the payload last
  packed — which `OperationHandler::pack_op` rewrites (`msg_id += 1; msg_id &= 0x7F`, **then**
  `op.pack(..)`, so a failing `pack` leaves the new id over the old payload) and which NO exit path of
  `send_impl` rolls back;
* per device the receiver — `CPUEmulator::last_msg_id` and what the device has executed: a frame is
  executed iff its id differs from the last one executed (`ecat_recv`), and `Link::send` hands the
  WHOLE buffer to EVERY device (`Audit::send`: `cpus.iter_mut().for_each(|cpu| cpu.send(tx))`), enabled
  or not, addressed by the call or not.

`Port` holds both for one device; `Ports = Nat → Port` is indexed by `Device::idx` (= position in
`geometry.iter().zip(tx)`, `WF`).  `packTx` is what `OperationHandler::pack` does to `tx` (same traversal
as `Group.packList`, serial order), `sendLoopTx` follows the control flow of `Group.sendLoop` (it
calls the same `pack`/`isDone`, so result and log of a call ARE those of the audited model) and adds
`transmit` after every successful `Link::send`.

The `group` driver (`Drv/C13.lean`) answers a continued line (`cont=1`) with
`groupSendWith true (perm fs) (mkGeometry en) dmap fault` / `send (mkGeometry en) dg fault` — `Call.outcome`
below — and carries `foldObs prev log`, the fold of `Obs.apply` over `devFrames log i`, per device.
`exec_of_clean` (GroupHist2) shows that this is the device's executed sequence exactly as long as
every slot is *clean* (`txId = lastId`) when a call starts; histories that break this are the ones the
harness keeps from the driver (`may_leave_unsent_frames`).
-/
namespace Autd3.Group

/-- `tx[i]` of the controller and the receiver of device `i` -/
structure Port where
  /-- `tx[i].header.msg_id` -/
  txId : Nat
  /-- payload of `tx[i]`; `none`: what `Controller::open` left there (outside the model) -/
  txFrame : Option Frame
  /-- `last_msg_id` of the device -/
  lastId : Nat
  /-- what the device has executed, oldest first -/
  exec : List (Option Frame)
deriving DecidableEq, Repr

/-- after `open`: the slot holds a frame the device has executed -/
def Port.fresh : Port := ⟨0, none, 0, []⟩

/-- the slot holds nothing the device has not executed -/
def Port.clean (p : Port) : Prop := p.txId = p.lastId

instance (p : Port) : Decidable p.clean := by unfold Port.clean; infer_instance

/-- the id the next `pack_op` gives the slot is not the one the device executed last (false only
after exactly 127 — mod 128 — packs that were never transmitted) -/
def Port.repackable (p : Port) : Prop := (p.txId + 1) % 128 ≠ p.lastId

instance (p : Port) : Decidable p.repackable := by unfold Port.repackable; infer_instance

/-- `pack_op`: `msg_id += 1; msg_id &= MSG_ID_MAX (0x7F)`, then a successful `op.pack` -/
def Port.packed (p : Port) (f : Frame) : Port := ⟨(p.txId + 1) % 128, some f, p.lastId, p.exec⟩

/-- `pack_op` whose `op.pack` fails before it writes anything (`ModulationOp::pack` size check) -/
def Port.bumped (p : Port) : Port := ⟨(p.txId + 1) % 128, p.txFrame, p.lastId, p.exec⟩

/-- `CPUEmulator::send` → `ecat_recv`: `if last_msg_id == header.msg_id { return }`, else execute -/
def Port.deliver (p : Port) : Port :=
  if p.txId = p.lastId then p else ⟨p.txId, p.txFrame, p.txId, p.exec ++ [p.txFrame]⟩

abbrev Ports := Nat → Port

def Ports.set (P : Ports) (i : Nat) (p : Port) : Ports := fun j => if j = i then p else P j

/-- what `OperationHandler::pack` does to `tx` (traversal of `packList`; the first error stops it,
after `pack_op` has bumped the failing slot's id) -/
def packTx : List Device → List (Option Op) → Ports → Ports
  | [], _, P => P
  | _ :: _, [], P => P
  | d :: devs, op :: ops, P =>
    match op with
    | none => packTx devs ops P
    | some o =>
      match o.frames with
      | f :: _ => packTx devs ops (P.set d.idx ((P d.idx).packed f))
      | [] =>
        match o.err with
        | some _ => P.set d.idx (P d.idx).bumped
        | none => packTx devs ops P

/-- a successful `Link::send(tx)`: every device looks at its slot -/
def transmit (P : Ports) : Ports := fun j => (P j).deliver

/-- `Sender::send_impl` on the `tx` buffer and the devices: control flow of `sendLoop` -/
def sendLoopTx : Nat → Geometry → List (Option Op) → Fault → Nat → Ports → Ports
  | 0, _, _, _, _, P => P
  | fuel + 1, geo, ops, fault, n, P =>
    let P' := packTx (devices geo) ops P
    match pack geo ops with
    | .error _ => P'
    | .ok (_, ops') =>
      if fault = .send n then P'
      else
        let P'' := transmit P'
        if fault = .recv n then P''
        else if isDone ops' then P''
        else sendLoopTx fuel geo ops' fault (n + 1) P''

def sendImplTx (geo : Geometry) (ops : List (Option Op)) (fault : Fault) (P : Ports) : Ports :=
  sendLoopTx (fuelFor ops) geo ops fault 0 P

/-- `Sender::send(d)` -/
def sendTx (geo : Geometry) (d : Dg) (fault : Fault) (P : Ports) : Ports :=
  match d.generator geo with
  | .error _ => P
  | .ok g => sendImplTx geo ((devices geo).map fun dev => some (g.generate dev)) fault P

/-- `group_send` after the filters were built (control flow of `groupSendWith true`) -/
def groupSendWithTx (fs : List (Key × Filter)) (geo : Geometry) (dmap : List (Key × Dg)) (fault : Fault)
    (P : Ports) : Ports :=
  let store := geo.map (·.enable)
  let ops0 : List (Option Op) := (devices geo).map fun _ => none
  match keyLoop true store fs { geo := geo, ops := ops0, dmap := dmap, visited := [] } with
  | (some _, _) => P
  | (none, st) => if st.dmap.isEmpty then sendImplTx st.geo st.ops fault P else P

/-- `Sender::group_send` (control flow of `groupSend true`) -/
def groupSendTx (perm : List (Key × Filter) → List (Key × Filter)) (geo : Geometry) (km : Nat → Option Key)
    (dmap : List (Key × Dg)) (fault : Fault) (P : Ports) : Ports :=
  match buildFilters geo km with
  | .error _ => P
  | .ok fs => groupSendWithTx (perm fs) geo dmap fault P

/-! ## calls and histories -/

inductive Body
  /-- `group_send(key_map, datagram_map)`; `perm`: the `HashMap` iteration order of this call -/
  | group (km : Nat → Option Key) (perm : List (Key × Filter) → List (Key × Filter)) (dmap : List (Key × Dg))
  /-- `send(datagram)` -/
  | plain (dg : Dg)

structure Call where
  /-- the `Device::enable` flags the user writes before the call (the `en=` field of a driver line);
  `[]` leaves them as they are -/
  en : List Bool
  body : Body
  /-- the link script of this call -/
  fault : Fault

/-- the controller with its devices, between calls -/
structure CtlState where
  geo : Geometry
  ports : Ports

/-- a controller just opened on devices with the given `enable` flags -/
def CtlState.fresh (flags : List Bool) : CtlState := { geo := mkGeometry flags, ports := fun _ => Port.fresh }

/-- what the audited single-call model says about the call (what the driver answers the line with) -/
def Call.outcome (c : Call) (geo : Geometry) : Outcome :=
  match c.body with
  | .group km perm dmap => groupSend true perm geo km dmap c.fault
  | .plain dg => { result := (send geo dg c.fault).1, geo := geo, log := (send geo dg c.fault).2, visited := [] }

def Call.tx (c : Call) (geo : Geometry) (P : Ports) : Ports :=
  match c.body with
  | .group km perm dmap => groupSendTx perm geo km dmap c.fault P
  | .plain dg => sendTx geo dg c.fault P

/-- the geometry the call runs on -/
def Call.geoOf (c : Call) (st : CtlState) : Geometry := restore st.geo c.en

abbrev Result := Except Err Unit

def step (st : CtlState) (c : Call) : CtlState × Result :=
  ({ geo := (c.outcome (c.geoOf st)).geo, ports := c.tx (c.geoOf st) st.ports }, (c.outcome (c.geoOf st)).result)

def run : CtlState → List Call → CtlState × List Result
  | st, [] => (st, [])
  | st, c :: cs => ((run (step st c).1 cs).1, (step st c).2 :: (run (step st c).1 cs).2)

/-- the call addresses device `d` (of the geometry it runs on): enabled, and mapped to a key -/
def Call.addresses (c : Call) (d : Device) : Bool :=
  d.enable && match c.body with
    | .group km _ _ => (km d.idx).isSome
    | .plain _ => true

/-- every `group_send` of the history iterates its `HashMap` in *some* order -/
def Call.Ordered (c : Call) : Prop :=
  match c.body with
  | .group _ perm _ => IsOrder perm
  | .plain _ => True

/-- **the call failed after it had packed**: a `pack` error (the failing slot's id is already
bumped, the slots before it hold new frames), or the `Link::send` of a round failed -/
def failedAfterPackingB (fault : Fault) (r : Result) : Bool :=
  match r with
  | .error (.pack _) => true
  | .error .link => (match fault with | .send _ => true | _ => false)
  | _ => false

def failedAfterPacking (fault : Fault) (r : Result) : Prop := failedAfterPackingB fault r = true

instance (fault : Fault) (r : Result) : Decidable (failedAfterPacking fault r) := by
  unfold failedAfterPacking; infer_instance

def AllClean (P : Ports) : Prop := ∀ j, (P j).clean

/-- no call of the history failed after packing -/
def NoUnsent : CtlState → List Call → Prop
  | _, [] => True
  | st, c :: cs => ¬ failedAfterPacking c.fault (step st c).2 ∧ NoUnsent (step st c).1 cs

/-! ## ports: elementary facts -/

theorem Port.deliver_clean (p : Port) : p.deliver.clean := by
  unfold Port.deliver Port.clean
  split
  · assumption
  · rfl

theorem Port.deliver_of_clean {p : Port} (h : p.clean) : p.deliver = p := by
  unfold Port.deliver; exact if_pos h

theorem Port.deliver_idem (p : Port) : p.deliver.deliver = p.deliver :=
  Port.deliver_of_clean p.deliver_clean

theorem Port.repackable_of_clean {p : Port} (h : p.clean) : p.repackable := by
  unfold Port.clean at h; unfold Port.repackable; omega

theorem Port.deliver_packed_exec {p : Port} (h : p.repackable) (f : Frame) :
    ((p.packed f).deliver).exec = p.exec ++ [some f] := by
  unfold Port.repackable at h
  unfold Port.deliver Port.packed
  simp only []
  rw [if_neg h]

/-- a transmitted round: a clean slot executes what the round carries for it; a slot with an unsent
frame that is packed again executes the NEW frame (the unsent payload is overwritten) -/
theorem Port.round_exec {p : Port} (fs : List Frame) (hl : fs.length ≤ 1)
    (h : p.clean ∨ (p.repackable ∧ fs ≠ [])) :
    ((fs.foldl Port.packed p).deliver).exec = p.exec ++ fs.map some := by
  match fs, hl with
  | [], _ =>
    rcases h with h | ⟨_, h⟩
    · simp [Port.deliver_of_clean h]
    · exact absurd rfl h
  | [f], _ =>
    have hf : p.repackable := by
      rcases h with h | ⟨h, _⟩
      · exact Port.repackable_of_clean h
      · exact h
    simpa using Port.deliver_packed_exec hf f
  | _ :: _ :: _, hl => simp at hl

theorem transmit_clean (P : Ports) : AllClean (transmit P) := fun j => (P j).deliver_clean

theorem Ports.set_same (P : Ports) (i : Nat) (p : Port) : P.set i p i = p := by simp [Ports.set]

theorem Ports.set_other (P : Ports) {i j : Nat} (p : Port) (h : j ≠ i) : P.set i p j = P j := by
  simp [Ports.set, h]

/-! ## one round of `pack` on the `tx` buffer -/

theorem packTx_cons (d : Device) (devs : List Device) (o : Option Op) (ops : List (Option Op)) (P : Ports) :
    packTx (d :: devs) (o :: ops) P =
      match stuck o with
      | some _ => P.set d.idx (P d.idx).bumped
      | none => packTx devs ops
          (match (opFrames o).head? with
           | some f => P.set d.idx ((P d.idx).packed f)
           | none => P) := by
  cases o with
  | none => rfl
  | some op =>
    cases op with
    | mk frames err =>
      cases frames with
      | nil => cases err <;> simp [packTx, stuck, opFrames]
      | cons f rest => simp [packTx, stuck, opFrames]

/-- `pack` never touches the device side -/
theorem packTx_recv : ∀ (devs : List Device) (ops : List (Option Op)) (P : Ports) (i : Nat),
    (packTx devs ops P i).lastId = (P i).lastId ∧ (packTx devs ops P i).exec = (P i).exec
  | [], _, _, _ => by simp [packTx]
  | _ :: _, [], _, _ => by simp [packTx]
  | d :: devs, o :: ops, P, i => by
    rw [packTx_cons]
    have hset : ∀ q : Port, q.lastId = (P d.idx).lastId → q.exec = (P d.idx).exec →
        (P.set d.idx q i).lastId = (P i).lastId ∧ (P.set d.idx q i).exec = (P i).exec := by
      intro q h1 h2
      by_cases h : i = d.idx
      · subst h; rw [Ports.set_same]; exact ⟨h1, h2⟩
      · rw [Ports.set_other _ _ h]; exact ⟨rfl, rfl⟩
    cases stuck o with
    | some e => exact hset _ rfl rfl
    | none =>
      simp only []
      cases (opFrames o).head? with
      | none => exact packTx_recv devs ops P i
      | some f =>
        simp only []
        have ih := packTx_recv devs ops (P.set d.idx ((P d.idx).packed f)) i
        have := hset ((P d.idx).packed f) rfl rfl
        exact ⟨ih.1.trans this.1, ih.2.trans this.2⟩

/-- a slot whose device has no operation is not packed, whatever happens to the others -/
theorem packTx_other (i : Nat) (φ : Device → Option Op) : ∀ (devs : List Device) (P : Ports),
    (∀ d ∈ devs, d.idx = i → φ d = none) → packTx devs (devs.map φ) P i = P i
  | [], _, _ => by simp [packTx]
  | d :: devs, P, h => by
    have h' : ∀ d' ∈ devs, d'.idx = i → φ d' = none := fun d' hd' => h d' (List.mem_cons_of_mem _ hd')
    rw [List.map_cons, packTx_cons]
    by_cases hi : d.idx = i
    · have hn := h d (List.mem_cons_self) hi
      rw [hn]
      simp only [stuck, opFrames, List.head?_nil]
      exact packTx_other i φ devs P h'
    · have hi' : i ≠ d.idx := fun e => hi e.symm
      cases stuck (φ d) with
      | some e => exact Ports.set_other _ _ hi'
      | none =>
        simp only []
        cases (opFrames (φ d)).head? with
        | none => exact packTx_other i φ devs P h'
        | some f =>
          simp only []
          rw [packTx_other i φ devs _ h']
          exact Ports.set_other _ _ hi'

/-- a round in which every `pack` succeeds: slot `i` is packed with the round's frames for `i` -/
theorem packTx_ok (i : Nat) (φ : Device → Option Op) : ∀ (devs : List Device) (P : Ports),
    Tagged φ devs → (∀ d ∈ devs, stuck (φ d) = none) →
    packTx devs (devs.map φ) P i =
      ((devs.flatMap fun d => headFrame (φ d)).filter (·.dev == i)).foldl Port.packed (P i)
  | [], _, _, _ => by simp [packTx]
  | d :: devs, P, ht, hs => by
    have ht' : Tagged φ devs := fun d hd => ht d (List.mem_cons_of_mem _ hd)
    have hs' : ∀ d' ∈ devs, stuck (φ d') = none := fun d' hd' => hs d' (List.mem_cons_of_mem _ hd')
    have htd := ht d (List.mem_cons_self)
    rw [List.map_cons, packTx_cons, hs d (List.mem_cons_self)]
    simp only [List.flatMap_cons, List.filter_append, List.foldl_append]
    cases hh : (opFrames (φ d)).head? with
    | none =>
      have hhf : headFrame (φ d) = [] := by simp [headFrame, hh]
      simp only [hhf, List.filter_nil, List.foldl_nil]
      exact packTx_ok i φ devs P ht' hs'
    | some f =>
      have hf : f.dev = d.idx := htd f (List.mem_of_mem_head? (by rw [hh]; rfl))
      have hhf : headFrame (φ d) = [f] := by simp [headFrame, hh]
      simp only [hhf]
      rw [packTx_ok i φ devs _ ht' hs']
      by_cases hi : d.idx = i
      · subst hi
        simp [hf, Ports.set_same]
      · have hi' : i ≠ d.idx := fun e => hi e.symm
        have : (f.dev == i) = false := by rw [hf]; simpa using hi
        simp [this, Ports.set_other _ _ hi']

/-- at most one frame per device and round -/
theorem round_filter_length (i : Nat) (φ : Device → Option Op) : ∀ (devs : List Device),
    Tagged φ devs → (devs.map (·.idx)).Nodup →
    ((devs.flatMap fun d => headFrame (φ d)).filter (·.dev == i)).length ≤ 1
  | [], _, _ => by simp
  | d :: ds, ht, hnd => by
    have ht' : Tagged φ ds := fun d hd => ht d (List.mem_cons_of_mem _ hd)
    have htd := ht d (List.mem_cons_self)
    rw [List.map_cons, List.nodup_cons] at hnd
    simp only [List.flatMap_cons, List.filter_append, List.length_append]
    by_cases hi : d.idx = i
    · have hrest : ∀ d' ∈ ds, d'.idx ≠ i := by
        intro d' hd' he
        exact hnd.1 (by rw [hi, ← he]; exact List.mem_map_of_mem hd')
      rw [heads_filter_nil i φ ds ht' hrest]
      have h1 : ((headFrame (φ d)).filter (·.dev == i)).length ≤ (headFrame (φ d)).length :=
        List.length_filter_le _ _
      have h2 : (headFrame (φ d)).length ≤ 1 := by
        unfold headFrame; cases (opFrames (φ d)).head? <;> simp
      simp only [List.length_nil]; omega
    · rw [head_filter_other φ d i hi htd]
      have := round_filter_length i φ ds ht' hnd.2
      simp only [List.length_nil]; omega

/-! ## the `send_impl` loop on the `tx` buffer -/

/-- device `i` is enabled and has an operation that packs a frame (or fails) in its first round -/
def HasWork (geo : Geometry) (φ : Device → Option Op) (i : Nat) : Prop :=
  ∃ d ∈ devices geo, d.idx = i ∧ ∃ op, φ d = some op ∧ (op.frames ≠ [] ∨ op.err ≠ none)

/-- how a `send_impl` can end with packed frames that were never transmitted -/
def FailedExit (geo : Geometry) (φ : Device → Option Op) (fault : Fault) (r : Result) : Prop :=
  (r = .error .link ∧ ∃ s, fault = .send s) ∨
  (∃ e, r = .error e ∧ ∃ d ∈ devices geo, ∃ op, φ d = some op ∧ op.err = some e)

theorem FailedExit.of_tail {geo : Geometry} {φ : Device → Option Op} {fault : Fault} {r : Result}
    (h : FailedExit geo (fun d => tailOp (φ d)) fault r) : FailedExit geo φ fault r := by
  rcases h with h | ⟨e, hr, d, hd, op', h1, h2⟩
  · exact Or.inl h
  · refine Or.inr ⟨e, hr, d, hd, ?_⟩
    have h1 : tailOp (φ d) = some op' := h1
    cases hφ : φ d with
    | none => rw [hφ] at h1; cases h1
    | some op =>
      rw [hφ] at h1
      simp only [tailOp, Option.some.injEq] at h1
      rw [← h1] at h2
      exact ⟨op, rfl, h2⟩

/-- **loop lemma for the `tx` buffer.** `del`: the rounds this `send_impl` transmitted.
(a) a device whose slot is clean — or holds an unsent id but is packed again in the first round —
    executes exactly the frames the rounds carry for it;
(b) the slot of a device without operation is never packed, and the device looks at it once a round:
    it ends as it was if nothing is transmitted, and `deliver`ed otherwise;
(c) every exit but a `pack` error / a failing `Link::send` comes right after a transmission, which
    leaves every slot clean (`fuel = 0` does not occur in `send_impl`). -/
theorem sendLoopTx_spec (geo : Geometry) (hnd : ((devices geo).map (·.idx)).Nodup) (i : Nat) :
    ∀ (fuel : Nat) (φ : Device → Option Op) (fault : Fault) (n : Nat) (log : List (List Frame)) (P : Ports),
      Tagged φ (devices geo) →
      ∃ del,
        (sendLoop fuel geo ((devices geo).map φ) fault n log).2 = log ++ del ∧
        (((P i).clean ∨ ((P i).repackable ∧ HasWork geo φ i)) →
          (sendLoopTx fuel geo ((devices geo).map φ) fault n P i).exec
            = (P i).exec ++ (devFrames del i).map some) ∧
        ((∀ d ∈ devices geo, d.idx = i → φ d = none) →
          sendLoopTx fuel geo ((devices geo).map φ) fault n P i = if del = [] then P i else (P i).deliver) ∧
        ((fuel = 0 → AllClean P) →
          AllClean (sendLoopTx fuel geo ((devices geo).map φ) fault n P) ∨
          FailedExit geo φ fault (sendLoop fuel geo ((devices geo).map φ) fault n log).1)
  | 0, φ, fault, n, log, P, _ => by
    refine ⟨[], by simp [sendLoop], ?_, ?_, ?_⟩
    · intro _; simp [sendLoopTx, devFrames]
    · intro _; simp [sendLoopTx]
    · intro h
      exact Or.inl (h rfl)
  | fuel + 1, φ, fault, n, log, P, ht => by
    unfold sendLoop sendLoopTx
    -- exits that return the buffer as `pack` left it
    have hstop : ∀ r : Result, FailedExit geo φ fault r →
        ∃ del : List (List Frame), log = log ++ del ∧
        (((P i).clean ∨ ((P i).repackable ∧ HasWork geo φ i)) →
          (packTx (devices geo) ((devices geo).map φ) P i).exec
            = (P i).exec ++ (devFrames del i).map some) ∧
        ((∀ d ∈ devices geo, d.idx = i → φ d = none) →
          packTx (devices geo) ((devices geo).map φ) P i = if del = [] then P i else (P i).deliver) ∧
        ((fuel + 1 = 0 → AllClean P) →
          AllClean (packTx (devices geo) ((devices geo).map φ) P) ∨ FailedExit geo φ fault r) := by
      intro r hr
      refine ⟨[], by simp, ?_, ?_, fun _ => Or.inr hr⟩
      · intro _; simp [devFrames, (packTx_recv _ _ P i).2]
      · intro hun; simp [packTx_other i φ _ P hun]
    cases hp : pack geo ((devices geo).map φ) with
    | error e =>
      simp only []
      apply hstop
      obtain ⟨d, hd, hs⟩ := pack_error hp
      refine Or.inr ⟨e, rfl, d, hd, ?_⟩
      cases hφ : φ d with
      | none => rw [hφ] at hs; cases hs
      | some op =>
        rw [hφ] at hs
        simp only [stuck] at hs
        split at hs
        · exact ⟨op, rfl, hs⟩
        · cases hs
    | ok ro =>
      obtain ⟨round, ops'⟩ := ro
      obtain ⟨hround, hops, hns⟩ := pack_ok hp
      simp only []
      by_cases hfs : fault = .send n
      · subst hfs
        simp only [if_true]
        apply hstop
        exact Or.inl ⟨rfl, n, rfl⟩
      · simp only [hfs, if_false]
        -- the round is transmitted
        have hpk := packTx_ok i φ (devices geo) P ht hns
        rw [← hround] at hpk
        have hlen := round_filter_length i φ (devices geo) ht hnd
        rw [← hround] at hlen
        have hexec : ((P i).clean ∨ ((P i).repackable ∧ HasWork geo φ i)) →
            (transmit (packTx (devices geo) ((devices geo).map φ) P) i).exec
            = (P i).exec ++ (round.filter (·.dev == i)).map some := by
          intro hc
          show ((packTx (devices geo) ((devices geo).map φ) P i).deliver).exec = _
          rw [hpk]
          apply Port.round_exec _ hlen
          rcases hc with hc | ⟨hf, d, hd, hi, op, hop, hw⟩
          · exact Or.inl hc
          · refine Or.inr ⟨hf, ?_⟩
            -- nothing is stuck in this round, so the operation has a frame, and it is in the round
            have hs := hns d hd
            rw [hop] at hs
            simp only [stuck] at hs
            cases hfr : op.frames with
            | nil =>
              rw [hfr] at hs hw
              simp only [if_true] at hs
              rcases hw with hw | hw
              · exact absurd rfl hw
              · exact absurd hs hw
            | cons f rest =>
              have hmem : f ∈ round.filter (·.dev == i) := by
                rw [hround]
                apply List.mem_filter.mpr
                refine ⟨List.mem_flatMap.mpr ⟨d, hd, ?_⟩, ?_⟩
                · simp [headFrame, hop, opFrames, hfr]
                · have := ht d hd f (by simp [hop, opFrames, hfr])
                  simp [this, hi]
              exact List.ne_nil_of_mem hmem
        have hun1 : (∀ d ∈ devices geo, d.idx = i → φ d = none) →
            transmit (packTx (devices geo) ((devices geo).map φ) P) i = (P i).deliver := by
          intro hun
          show (packTx (devices geo) ((devices geo).map φ) P i).deliver = _
          rw [packTx_other i φ _ P hun]
        have hcl := transmit_clean (packTx (devices geo) ((devices geo).map φ) P)
        have hone : devFrames [round] i = round.filter (·.dev == i) := by simp [devFrames]
        by_cases hfr : fault = .recv n
        · simp only [hfr, if_true]
          refine ⟨[round], rfl, ?_, ?_, fun _ => Or.inl hcl⟩
          · intro hc; rw [hexec hc, hone]
          · intro hun; simp [hun1 hun]
        · simp only [hfr, if_false]
          by_cases hdone : isDone ops' = true
          · simp only [hdone, if_true]
            refine ⟨[round], rfl, ?_, ?_, fun _ => Or.inl hcl⟩
            · intro hc; rw [hexec hc, hone]
            · intro hun; simp [hun1 hun]
          · simp only [hdone, Bool.false_eq_true, if_false]
            rw [hops]
            obtain ⟨del, h1, h2, h3, h4⟩ := sendLoopTx_spec geo hnd i fuel (fun d => tailOp (φ d)) fault (n + 1)
              (log ++ [round]) (transmit (packTx (devices geo) ((devices geo).map φ) P)) ht.tail
            refine ⟨round :: del, ?_, ?_, ?_, ?_⟩
            · rw [h1]; simp
            · intro hc
              rw [h2 (Or.inl (hcl i)), hexec hc]
              have : devFrames (round :: del) i = round.filter (·.dev == i) ++ devFrames del i := by
                simp [devFrames, List.filter_append]
              rw [this, List.map_append, List.append_assoc]
            · intro hun
              have hun' : ∀ d ∈ devices geo, d.idx = i → tailOp (φ d) = none := by
                intro d hd hi; rw [hun d hd hi]; rfl
              rw [h3 hun', hun1 hun]
              simp only [List.cons_ne_nil, if_false]
              split
              · rfl
              · exact Port.deliver_idem _
            · intro _
              rcases h4 (fun _ => hcl) with h | h
              · exact Or.inl h
              · exact Or.inr h.of_tail

end Autd3.Group
