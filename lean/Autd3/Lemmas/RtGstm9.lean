import Autd3.Lemmas.RtGstm8
/-!
GainSTM, part 9: payload facts, the BEGIN header establishes the invariant, `handle_payload` of a
GainSTM frame, the send loop and the round-trip theorem `gainStm_roundtrip'` (three modes, 2..1024 patterns).
-/
set_option linter.unusedSimpArgs false
open Autd3 Autd3.Fw Autd3.Wire Autd3.Gen.Cpu Autd3.Gen
namespace Autd3.Rt

theorem gstmNext_payload (b : Array Nat) (patterns : Array (Array Nat)) (mode nt c send flag : Nat) (hb : b.size = 622)
    (hf : flag < 256) :
    let d := gstmNextPayload b patterns mode nt c send flag
    u8at d 0 = 65 ∧ u8at d 1 = flag ∧ (∀ x, 2 ≤ x → u8at d x = u8at (gstmData mode 2 nt patterns c b send) x) ∧ d.size = 622 := by
  simp only [gstmNextPayload]
  have hsz : (gstmData mode 2 nt patterns c b send).size = 622 := by rw [(gstmData_low _ _ _ _ _ _ _).1]; exact hb
  refine ⟨?_, ?_, ?_, by simpa using hsz⟩
  · rw [u8at_put8, if_neg (by omega), u8at_put8, if_pos ⟨rfl, by omega⟩]; rfl
  · rw [u8at_put8, if_pos ⟨rfl, by simp; omega⟩]; omega
  · intro x hx; rw [u8at_put8, if_neg (by omega), u8at_put8, if_neg (by omega)]

theorem gstmFirst_payload (b : Array Nat) (patterns : Array (Array Nat)) (mode nt send flag tm div rep tv : Nat)
    (hb : b.size = 622) (hf : flag < 256) :
    let d := gstmFirstPayload b patterns mode nt send flag tm div rep tv
    u8at d 0 = 65 ∧ u8at d 1 = flag ∧ u8at d 2 = mode % 256 ∧ u8at d 3 = tm % 256 ∧ u16at d 4 = div % 65536 ∧
      u16at d 6 = rep % 65536 ∧ u64at d 8 = tv % 18446744073709551616 ∧
      (∀ x, 16 ≤ x → u8at d x = u8at (gstmData mode 16 nt patterns 0 b send) x) ∧ d.size = 622 := by
  simp only [gstmFirstPayload]
  have hsz : (gstmData mode 16 nt patterns 0 b send).size = 622 := by rw [(gstmData_low _ _ _ _ _ _ _).1]; exact hb
  refine ⟨?_, ?_, ?_, ?_, ?_, ?_, ?_, ?_, by simpa using hsz⟩
  · rw [u8at_put64_other _ _ _ _ (by omega), u8at_put16, if_neg (by omega), if_neg (by omega), u8at_put16,
      if_neg (by omega), if_neg (by omega), u8at_put8, if_neg (by omega), u8at_put8, if_neg (by omega),
      u8at_put8, if_neg (by omega), u8at_put8, if_pos ⟨rfl, by omega⟩]; rfl
  · rw [u8at_put64_other _ _ _ _ (by omega), u8at_put16, if_neg (by omega), if_neg (by omega), u8at_put16,
      if_neg (by omega), if_neg (by omega), u8at_put8, if_neg (by omega), u8at_put8, if_neg (by omega),
      u8at_put8, if_pos ⟨rfl, by simp; omega⟩]; omega
  · rw [u8at_put64_other _ _ _ _ (by omega), u8at_put16, if_neg (by omega), if_neg (by omega), u8at_put16,
      if_neg (by omega), if_neg (by omega), u8at_put8, if_neg (by omega), u8at_put8, if_pos ⟨rfl, by simp; omega⟩]
  · rw [u8at_put64_other _ _ _ _ (by omega), u8at_put16, if_neg (by omega), if_neg (by omega), u8at_put16,
      if_neg (by omega), if_neg (by omega), u8at_put8, if_pos ⟨rfl, by simp; omega⟩]
  · rw [u16at_put64_other _ _ _ _ (by omega), u16at_put16_other _ _ _ _ (by omega), u16at_put16_same _ _ _ (by simp; omega)]
  · rw [u16at_put64_other _ _ _ _ (by omega), u16at_put16_same _ _ _ (by simp; omega)]
  · rw [u64at_put64_same _ _ _ (by simp; omega)]
  · intro x hx
    rw [u8at_put64_other _ _ _ _ (by omega), u8at_put16, if_neg (by omega), if_neg (by omega), u8at_put16,
      if_neg (by omega), if_neg (by omega), u8at_put8, if_neg (by omega), u8at_put8, if_neg (by omega),
      u8at_put8, if_neg (by omega), u8at_put8, if_neg (by omega)]

theorem reg_gstmHead (s : State) (hc : s.ctl.size = 256) (seg : Nat) (hseg : seg ≤ 1) (rep div tm tv mode a : Nat) :
    reg (gstmHead s seg rep div tm tv mode) a =
      if a = 81 then 0 else if a = 80 then seg else if a = 87 + seg then rep % 65536 else if a = 89 + seg then 1
      else if a = 85 + seg then div % 65536 else reg s a := by
  rcases (show seg = 0 ∨ seg = 1 by omega) with h | h <;> subst h <;>
  · unfold gstmHead
    simp only [reg_wr, reg_gstmHeadCpu, wr_ctl, gstmHeadCpu_ctl, Array.size_setIfInBounds, hc, ADDR_STM_MEM_WR_PAGE,
      ADDR_STM_MEM_WR_SEGMENT, ADDR_STM_REP0, ADDR_STM_FREQ_DIV0, ADDR_STM_MODE0, STM_MODE_GAIN]
    simp

theorem WF_gstmHeadCpu {s : State} (h : WF s) (seg rep div tm tv mode : Nat) : WF (gstmHeadCpu s seg rep div tm tv mode) := by
  wf_same h

theorem GInv_head (s0 : State) (hW : WF s0) (id r seg : Nat) (hseg : seg ≤ 1) (tr : Tr) (rep div mode : Nat)
    (patterns : Array (Array Nat)) (hrep : rep < 65536) (hdiv : 1 ≤ div ∧ div < 65536) :
    GInv s0 (gstmHead { s0 with lastMsgId := id, rxData := r } seg rep div (trMode tr) (trValue tr) mode)
      seg tr rep div mode patterns 0 := by
  have hWp : WF { s0 with lastMsgId := id, rxData := r } := by wf_same hW
  have hc : ({ s0 with lastMsgId := id, rxData := r } : State).ctl.size = 256 := hW.ctl
  have hr := reg_gstmHead { s0 with lastMsgId := id, rxData := r } hc seg hseg rep div (trMode tr) (trValue tr) mode
  refine ⟨?_, ?_, by simp [gstmHead], ?_, ?_, ?_, ?_, by simp [gstmHead], by simp [gstmHead], ?_, ?_, ?_, ?_,
    by simp [gstmHead], by simp [gstmHead], by simp [gstmHead]⟩
  · unfold gstmHead
    have e1 : ADDR_STM_MODE0 + seg ≠ ADDR_MOD_FREQ_DIV0 ∧ ADDR_STM_MODE0 + seg ≠ ADDR_MOD_FREQ_DIV1 ∧
        ADDR_STM_MODE0 + seg ≠ ADDR_STM_FREQ_DIV0 ∧ ADDR_STM_MODE0 + seg ≠ ADDR_STM_FREQ_DIV1 := by
      simp only [ADDR_STM_MODE0, ADDR_MOD_FREQ_DIV0, ADDR_MOD_FREQ_DIV1, ADDR_STM_FREQ_DIV0, ADDR_STM_FREQ_DIV1]; omega
    have e3 : ADDR_STM_REP0 + seg ≠ ADDR_MOD_FREQ_DIV0 ∧ ADDR_STM_REP0 + seg ≠ ADDR_MOD_FREQ_DIV1 ∧
        ADDR_STM_REP0 + seg ≠ ADDR_STM_FREQ_DIV0 ∧ ADDR_STM_REP0 + seg ≠ ADDR_STM_FREQ_DIV1 := by
      simp only [ADDR_STM_REP0, ADDR_MOD_FREQ_DIV0, ADDR_MOD_FREQ_DIV1, ADDR_STM_FREQ_DIV0, ADDR_STM_FREQ_DIV1]; omega
    exact WF_wr (WF_wr (WF_wr (WF_wr (WF_wr (WF_gstmHeadCpu hWp _ _ _ _ _ _) _ _ (Or.inr (by omega))) _ _
      (Or.inl e1)) _ _ (Or.inl e3)) _ _ (Or.inl (by decide))) _ _ (Or.inl (by decide))
  · have : (gstmHead { s0 with lastMsgId := id, rxData := r } seg rep div (trMode tr) (trValue tr) mode).stmCycle =
        setSel s0.stmCycle seg 0 := by simp [gstmHead]
    rw [this, sel_setSel_same]
  · rw [hr, if_neg (by decide), if_pos (by decide)]
  · rw [hr, if_pos (by decide)]
  · intro idx hidx; omega
  · intro g _; unfold Obs.stmMem; simp [gstmHead]
  · rw [hr, if_neg (by omega), if_neg (by omega), if_neg (by omega), if_neg (by omega), if_pos rfl]; omega
  · rw [hr, if_neg (by omega), if_neg (by omega), if_pos rfl]; omega
  · rw [hr, if_neg (by omega), if_neg (by omega), if_neg (by omega), if_pos rfl]; rfl
  · intro a h0 h1 h2 h3 h4 h5
    rw [hr, if_neg h2, if_neg h1, if_neg h4, if_neg h5, if_neg h3]; rfl

theorem dispatch_gstm (s : State) (d : Array Nat) (h : u8at d 0 = 65) : handlePayload s d = writeGainStm s d := by
  unfold handlePayload; rw [h]; rfl

theorem gstm_first_handle_eq (sP : State) (d : Array Nat) (seg rep div tm tv mode send : Nat) (hseg : seg ≤ 1)
    (hs : 1 ≤ send ∧ send ≤ 4) (last hasTr : Bool)
    (p0 : u8at d 0 = 65) (p1 : u8at d 1 = gstmFlagByte true last hasTr seg send) (p2 : u8at d 2 = mode) (p3 : u8at d 3 = tm)
    (p4 : u16at d 4 = div) (p6 : u16at d 6 = rep) (p8 : u64at d 8 = tv)
    (g1 : validateTransitionMode sP.stmSegment seg rep tm = false)
    (g2 : validateSilencerSettings sP div (sel sP.modDiv sP.modSegment) = false) :
    handlePayload sP d = gstmTail (gstmHead sP seg rep div tm tv mode) d 16 (gstmFlagByte true last hasTr seg send) seg := by
  obtain ⟨_, b1, _, _, b4, _⟩ := gstmFlagByte_bits true last hasTr seg send hseg hs
  have hflag : u8at d FwLayout.GainSTMSubseq_flag_off = gstmFlagByte true last hasTr seg send := p1
  have hsg : seg = if u8at d FwLayout.GainSTMSubseq_flag_off &&& GAIN_STM_FLAG_SEGMENT ≠ 0 then 1 else 0 := by
    rw [hflag, b4]
  have e6 : u16at d FwLayout.GainSTMHead_rep_off = rep := p6
  have e4 : u16at d FwLayout.GainSTMHead_freq_div_off = div := p4
  have e3 : u8at d FwLayout.GainSTMHead_transition_mode_off = tm := p3
  have e8 : u64at d FwLayout.GainSTMHead_transition_value_off = tv := p8
  have e2 : u8at d FwLayout.GainSTMHead_mode_off = mode := p2
  rw [dispatch_gstm _ _ p0, writeGainStm_begin sP d seg hsg (by rw [hflag, b1]) (by rw [e6, e3]; exact g1)
    (by rw [e4]; exact g2), e6, e4, e3, e8, e2, hflag]
  rfl

theorem gstm_next_handle_eq (s : State) (d : Array Nat) (seg send : Nat) (hseg : seg ≤ 1) (hs : 1 ≤ send ∧ send ≤ 4)
    (last hasTr : Bool) (p0 : u8at d 0 = 65) (p1 : u8at d 1 = gstmFlagByte false last hasTr seg send) :
    handlePayload s d = gstmTail s d 2 (gstmFlagByte false last hasTr seg send) seg := by
  obtain ⟨_, b1, _, _, b4, _⟩ := gstmFlagByte_bits false last hasTr seg send hseg hs
  have hflag : u8at d FwLayout.GainSTMSubseq_flag_off = gstmFlagByte false last hasTr seg send := p1
  rw [dispatch_gstm _ _ p0, writeGainStm_subseq s d (by rw [hflag, b1]), hflag, b4]
  rfl

end Autd3.Rt
