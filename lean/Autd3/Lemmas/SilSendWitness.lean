import Autd3.Lemmas.SilSend4
/-!
# C08 at the level of SENDS: concrete histories (counterexamples F8d, non-vacuity)

Firmware-level frames (`f8dRefusedTrace`, `f8dAcceptedTrace`) and the same histories as complete SDK sends through
the real packer model (`sendsFromNew`), all evaluated by `decide +kernel` in `Props/C08.lean`.
-/
open Autd3 Autd3.Fw Autd3.Wire Autd3.Gen.Cpu Autd3.Gen Autd3.Rt Autd3.SilGuard
namespace Autd3.SilSend

/-- a frame with two slots: payload `p1` (zero-padded to `off2` bytes) in slot 1, `p2` at payload offset `off2` -/
def mkFrame2 (msgId off2 : Nat) (p1 p2 : List Nat) : Array Nat :=
  #[msgId, 0, off2 % 256, off2 / 256] ++ (p1 ++ List.replicate (off2 - p1.length) 0 ++ p2).toArray

/-- GainSTM head frame in `PhaseIntensityFull` packing (one pattern per frame, 249 transducers): 16 + 498 bytes -/
def gainStmBegin (flag tm div : Nat) : List Nat :=
  [65, flag, 0, tm, div % 256, div / 256, 0xFF, 0xFF, 0, 0, 0, 0, 0, 0, 0, 0] ++ List.replicate 498 0

/-- GainSTM continuation frame: 2 + 498 bytes -/
def gainStmNext (flag : Nat) : List Nat := [65, flag] ++ List.replicate 498 0

/-- **F8d (a)**: complete FociSTM div 40 → S0 (Immediate); the tuple (GainSTM → S1 div 100 with Immediate transition,
two frames; Silencer(10, 200, strict)): its first frame carries the GainSTM BEGIN in slot 1 (flag BEGIN|SEGMENT) and
the Silencer in slot 2 (offset 514), which is refused — the send stops, the END frame is never sent;
then Silencer(10, 80, strict) alone -/
def f8dRefusedTrace : List Action :=
  [.frame (mkFrame 1 (fociFrame 7 0 0xFF 40)),
   .frame (mkFrame2 2 514 (gainStmBegin 9 0xFF 100) (silencerStepsFrame 10 200 true)),
   .frame (mkFrame 3 (silencerStepsFrame 10 80 true))]

/-- **F8d (b)**: the tuple (GainSTM → S1 div 100 with Immediate transition, two frames; GainSwapSegment(S0)): frame 1 =
GainSTM BEGIN + the swap in slot 2, frame 2 = GainSTM END|UPDATE|SEGMENT; both acknowledged; then
Silencer(10, 200, strict) alone -/
def f8dAcceptedTrace : List Action :=
  [.frame (mkFrame2 1 514 (gainStmBegin 9 0xFF 100) [49, 0]),
   .frame (mkFrame 2 (gainStmNext 14)),
   .frame (mkFrame 3 (silencerStepsFrame 10 200 true))]

/-- `trailFromNew` for a device with `n` transducers.  The kernel evaluates every BRAM write on a 262144-cell list, so the
checks below use an 8-transducer device (a GainSTM frame then stores 8 words instead of 249); the frames are the
249-transducer frames of the SDK (second slot at payload offset 514), and neither the slot rule nor any guard depends on
the transducer count.  The same histories on 249 transducers are replayed against the real emulator
(`harness/src/fw_c08.rs`, corpus F8d) and through the executable model with the real packer (`send pair …`). -/
def trailFromNewN (n : Nat) (as : List Action) : List (List Nat) :=
  match Fw.new n 0 with
  | .ok s => trail s as
  | .error _ => [[]]

/-- a history inside the proved vocabulary, as frames (default strict silencer 10/40): a two-frame GainSTM → S1 div 60
with Immediate transition (BEGIN, then END|UPDATE: between the two the belief is ahead of the request); the tuple
(Silencer(10, 55, strict), SwapSegment::GainSTM(S1)) in ONE frame (second slot at offset 6) -/
def legalFramesA : List Action :=
  [.frame (mkFrame 1 (gainStmBegin 9 0xFF 60)),
   .frame (mkFrame 2 (gainStmNext 14)),
   .frame (mkFrame2 3 6 (silencerStepsFrame 10 55 true) ([67, 1, 0xFF] ++ List.replicate 13 0))]

/-- strict Silencer(10, 50) accepted; a multi-frame GainSTM → S1 div 45 with transition refused at its BEGIN frame -/
def legalFramesB : List Action :=
  [.frame (mkFrame 1 (silencerStepsFrame 10 50 true)),
   .frame (mkFrame 2 (gainStmBegin 9 0xFF 45))]

/-! ### the same through the real packer (definitions for `#eval` / the executable model; too slow for the kernel) -/

/-- outcome code (0 = accepted, otherwise the error acknowledgement) followed by `summaryS` of the device, after each
complete send (`sendLoopR`: `pack_op2`, `ecat_recv`, stop at the first error ack) of a history of tuples `(A, B)`
(`B = .null`: a single datagram); `[[]]` = pack error / panic / out of fuel -/
def sendsTrail (s : State) (t : Tx) : List (Dg × Dg) → List (List Nat)
  | [] => []
  | (a, b) :: rest =>
    match sendLoopR 40 (Op.ofDg a) (Op.ofDg b) s t with
    | some (t', s', r) => ((match r with | none => 0 | some e => e) :: summaryS s') :: sendsTrail s' t' rest
    | none => [[]]

/-- the history sent to a freshly constructed device with TWO transducers (the kernel evaluates every BRAM write on a
262144-cell list, so the checks use a small device; frame layout, slot rule and handlers do not depend on the count;
the same histories on 249 transducers are replayed against the real emulator in `harness/src/fw_c08.rs`) -/
def sendsFromNew (h : List (Dg × Dg)) : List (List Nat) :=
  match Fw.new 2 0 with
  | .ok s => sendsTrail s {} h
  | .error _ => [[]]

def imm : Tr := some (0xFF, 0)
def pat (v : Nat) : Array Nat := Array.replicate 2 v
/-- FociSTM, one focus per pattern, `size` patterns (75 or more: two or more frames) -/
def fociDg (seg : Nat) (tr : Tr) (div size : Nat) : Dg := .fociStm 1 seg tr 0xFFFF div 21760 (Array.replicate size 7)
/-- GainSTM in `PhaseIntensityFull` packing: one frame per pattern -/
def gstmDg (seg : Nat) (tr : Tr) (div size : Nat) : Dg :=
  .gainStm 0 seg tr 0xFFFF div ((Array.range size).map fun k => pat (0x8000 + k))

/-- F8d (a) as SDK sends -/
def f8dRefusedSends : List (Dg × Dg) :=
  [(fociDg 0 imm 40 2, .null), (gstmDg 1 imm 100 2, .silencerSteps 10 200 true), (.silencerSteps 10 80 true, .null)]

/-- F8d (b) as SDK sends -/
def f8dAcceptedSends : List (Dg × Dg) :=
  [(gstmDg 1 imm 100 2, .swapGain 0 0xFF 0), (.silencerSteps 10 200 true, .null)]

/-- a history inside the proved vocabulary: strict Silencer(10, 50); a three-frame GainSTM → S1 div 60 with
Immediate transition — accepted; a 100-pattern (two-frame) FociSTM → S0 div 45 with transition — refused at BEGIN (45 < 50);
Silencer(10, 70, strict) — refused (S1 plays at 60); the tuple (Silencer(10, 55, strict), SwapSegment::FociSTM(S1)) —
accepted; the tuple (Clear, Silencer(10, 80, strict)) — accepted (after Clear everything is a Gain) -/
def legalSends : List (Dg × Dg) :=
  [(.silencerSteps 10 50 true, .null), (gstmDg 1 imm 60 3, .null), (fociDg 0 imm 45 100, .null),
   (.silencerSteps 10 70 true, .null), (.silencerSteps 10 55 true, .swapFoci 1 0xFF 0),
   (.clear, .silencerSteps 10 80 true)]

end Autd3.SilSend
