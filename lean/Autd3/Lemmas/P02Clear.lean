import Autd3.Lemmas.P02Update
/-!
# Closed form of `Clear` (`Fw.clear`)

`clear` is cut into five stages (`clearA … clearE`, literally the consecutive statement groups of the
model's do-block; `clear_split` proves the cut is an equality).  Each stage has a closed form on every
state whose arrays have their power-on sizes; `clearResult` is their composition.
-/
namespace Autd3.P02
open Autd3 Autd3.Fw Autd3.Gen.Cpu Autd3.Gen

/-- array sizes (never changed by any handler) -/
structure Sized (s : State) : Prop where
  ctl : s.ctl.size = 256
  phaseCorr : s.phaseCorr.size = 128
  pwe : s.pwe.size = 256
  modMem0 : s.modMem0.size = 32768
  modMem1 : s.modMem1.size = 32768
  stmMem0 : s.stmMem0.size = 262144
  stmMem1 : s.stmMem1.size = 262144

/-- CPU-side control flags never contain the request bits MOD_SET / STM_SET (only force-fan and GPIO-in) -/
def FlagsOK (f : Nat) : Prop := f.testBit 0 = false ∧ f.testBit 1 = false

/-- the well-formedness invariant used by the C02 / C17 theorems -/
structure WF (s : State) : Prop extends Sized s where
  numTr : s.numTr ≤ TRANS_NUM
  modSwap : SwapWF s.modSwap
  stmSwap : SwapWF s.stmSwap
  flags : FlagsOK s.flagsInternal

def clearA (s : State) : M State := do
  let mut s := { s with portA := 0, readsFpgaState := false, flagsInternal := 0 }
  s ← ctlWrite s ADDR_SILENCER_UPDATE_RATE_INTENSITY 256
  s ← ctlWrite s ADDR_SILENCER_UPDATE_RATE_PHASE 256
  s ← ctlWrite s ADDR_SILENCER_FLAG 0
  s ← ctlWrite s ADDR_SILENCER_COMPLETION_STEPS_INTENSITY 10
  s ← ctlWrite s ADDR_SILENCER_COMPLETION_STEPS_PHASE 40
  s := { s with strict := true, minDivI := 10, minDivP := 40,
                modDiv := (0xFFFF, 0xFFFF), modRep := (0xFFFF, 0xFFFF), modCycle := 2, modSegment := 0 }
  return s

def clearB (s : State) : M State := do
  let mut s := s
  s ← ctlWrite s ADDR_MOD_TRANSITION_MODE TRANSITION_MODE_SYNC_IDX
  s ← ctlWriteWords s ADDR_MOD_TRANSITION_VALUE_0 #[0, 0, 0, 0]
  s ← ctlWrite s ADDR_MOD_REQ_RD_SEGMENT 0
  s ← ctlWrite s ADDR_MOD_CYCLE0 (max s.modCycle 1 - 1)
  s ← ctlWrite s ADDR_MOD_FREQ_DIV0 s.modDiv.1
  s ← ctlWrite s ADDR_MOD_CYCLE1 (max s.modCycle 1 - 1)
  s ← ctlWrite s ADDR_MOD_FREQ_DIV1 s.modDiv.2
  s ← ctlWrite s ADDR_MOD_REP0 0xFFFF
  s ← ctlWrite s ADDR_MOD_REP1 0xFFFF
  s ← ctlWrite s ADDR_MOD_MEM_WR_PAGE 0
  s ← ctlWrite s ADDR_MOD_MEM_WR_SEGMENT 0
  s ← modWriteWords s 0 #[0xFFFF]
  s ← ctlWrite s ADDR_MOD_MEM_WR_SEGMENT 1
  s ← modWriteWords s 0 #[0xFFFF]
  return s

def clearC (s : State) : M State := do
  let mut s := s
  s := { s with stmCycle := (1, 1), stmMode := (STM_MODE_GAIN, STM_MODE_GAIN),
                stmDiv := (0xFFFF, 0xFFFF), stmRep := (0xFFFF, 0xFFFF), stmSegment := 0 }
  s ← ctlWrite s ADDR_STM_TRANSITION_MODE TRANSITION_MODE_SYNC_IDX
  s ← ctlWriteWords s ADDR_STM_TRANSITION_VALUE_0 #[0, 0, 0, 0]
  s ← ctlWrite s ADDR_STM_MODE0 STM_MODE_GAIN
  s ← ctlWrite s ADDR_STM_MODE1 STM_MODE_GAIN
  s ← ctlWrite s ADDR_STM_REQ_RD_SEGMENT 0
  s ← ctlWrite s ADDR_STM_CYCLE0 0
  s ← ctlWrite s ADDR_STM_FREQ_DIV0 0xFFFF
  s ← ctlWrite s ADDR_STM_CYCLE1 0
  s ← ctlWrite s ADDR_STM_FREQ_DIV1 0xFFFF
  s ← ctlWrite s ADDR_STM_REP0 0xFFFF
  s ← ctlWrite s ADDR_STM_REP1 0xFFFF
  s ← ctlWrite s ADDR_STM_MEM_WR_SEGMENT 0
  s ← ctlWrite s ADDR_STM_MEM_WR_PAGE 0
  s ← stmWriteWords s 0 (Array.replicate TRANS_NUM 0)
  s ← ctlWrite s ADDR_STM_MEM_WR_SEGMENT 1
  s ← ctlWrite s ADDR_STM_MEM_WR_PAGE 0
  s ← stmWriteWords s 0 (Array.replicate TRANS_NUM 0)
  return s

def clearD (s : State) : M State := do
  let mut s := s
  s ← ctlWriteWords s (BRAM_CNT_SEL_PHASE_CORR <<< 8) (Array.replicate ((TRANS_NUM + 1) >>> 1) 0)
  s ← pweWriteWords s 0 ((Array.range 256).map Autd3.Gen.Tables.cpuAsin)
  s ← pweWriteWords s 255 #[0x100]
  s ← ctlWriteWords s ADDR_DEBUG_VALUE0_0 (Array.replicate 16 0)
  return s

def clearE1 (s : State) : M State := setAndWaitUpdate s CTL_FLAG_MOD_SET
def clearE2 (s : State) : M State := setAndWaitUpdate s CTL_FLAG_STM_SET
def clearE3 (s : State) : M State := setAndWaitUpdate s CTL_FLAG_SILENCER_SET
def clearE4 (s : State) : M State := setAndWaitUpdate s CTL_FLAG_DEBUG_SET

theorem clear_split (s : State) (d : Array Nat) :
    clear s d = (do
      let s ← clearA s
      let s ← clearB s
      let s ← clearC s
      let s ← clearD s
      let s ← clearE1 s
      let s ← clearE2 s
      let s ← clearE3 s
      let s ← clearE4 s
      return (s, NO_ERR)) := by
  simp only [clear, clearA, clearB, clearC, clearD, clearE1, clearE2, clearE3, clearE4, bind_assoc, pure_bind]

/-! ### stage results -/

def resA (s : State) : State :=
  { s with portA := 0, readsFpgaState := false, flagsInternal := 0,
           strict := true, minDivI := 10, minDivP := 40,
           modDiv := (0xFFFF, 0xFFFF), modRep := (0xFFFF, 0xFFFF), modCycle := 2, modSegment := 0,
           ctl := ((((s.ctl.setIfInBounds 65 256).setIfInBounds 66 256).setIfInBounds 64 0).setIfInBounds 67 10).setIfInBounds 68 40 }

def resB (s : State) : State :=
  { s with ctl := (((((((((writeLoop (s.ctl.setIfInBounds 41 0) 42 (fun i => rd #[0, 0, 0, 0] i % 65536) 4).setIfInBounds 34 0).setIfInBounds
                    35 ((max s.modCycle 1 - 1) % 65536)).setIfInBounds 37 (s.modDiv.fst % 65536)).setIfInBounds
                    36 ((max s.modCycle 1 - 1) % 65536)).setIfInBounds 38 (s.modDiv.snd % 65536)).setIfInBounds
                    39 65535).setIfInBounds 40 65535).setIfInBounds 33 0).setIfInBounds 32 1,
           modMem0 := writeLoop s.modMem0 0 (fun i => rd #[65535] i % 65536) 1,
           modMem1 := writeLoop s.modMem1 0 (fun i => rd #[65535] i % 65536) 1 }

def resC (s : State) : State :=
  { s with stmCycle := (1, 1), stmMode := (STM_MODE_GAIN, STM_MODE_GAIN),
           stmDiv := (0xFFFF, 0xFFFF), stmRep := (0xFFFF, 0xFFFF), stmSegment := 0,
           ctl := (((((((((((((writeLoop (s.ctl.setIfInBounds 95 0) 96 (fun i => rd #[0, 0, 0, 0] i % 65536) 4).setIfInBounds 89 1).setIfInBounds
                    90 1).setIfInBounds 82 0).setIfInBounds 83 0).setIfInBounds 85 65535).setIfInBounds 84 0).setIfInBounds
                    86 65535).setIfInBounds 87 65535).setIfInBounds 88 65535).setIfInBounds 80 0).setIfInBounds 81 0).setIfInBounds
                    80 1).setIfInBounds 81 0,
           stmMem0 := writeLoop s.stmMem0 0 (fun i => rd (Array.replicate 249 0) i % 65536) 249,
           stmMem1 := writeLoop s.stmMem1 0 (fun i => rd (Array.replicate 249 0) i % 65536) 249 }

def resD (s : State) : State :=
  { s with ctl := writeLoop s.ctl 240 (fun i => rd (Array.replicate 16 0) i % 65536) 16,
           phaseCorr := writeLoop s.phaseCorr 0 (fun i => rd (Array.replicate 125 0) i % 65536) 125,
           pwe := writeLoop (writeLoop s.pwe 0 (fun i => rd (Array.map Tables.cpuAsin (Array.range 256)) i % 65536) 256) 255
                    (fun i => rd #[256] i % 65536) 1 }

/-- the swap chain after `Clear`'s request (segment 0, SyncIdx, infinite repeat): `cur`, `stop`,
`extMode`, `state`, `mode`, `sysTime` and the segment-0 entries of `freqDiv/cycle/ticOff` are reset;
`rep`, `req`, `startLap`, `curIdx` and the segment-1 entries are KEPT (they are dead in this state until
the next request / the next `update`); `extLastLap` is computed with the OLD segment-0 divider and cycle. -/
def clearSwap (w : Swap) (t cyc : Nat) : Swap :=
  { w with sysTime := t, freqDiv := setSel w.freqDiv 0 0xFFFF, cycle := setSel w.cycle 0 cyc,
           mode := .syncIdx, stop := false, cur := 0, extMode := false,
           extLastLap := ((fpgaSysTime t >>> 9) / w.freqDiv.1) / w.cycle.1,
           ticOff := setSel w.ticOff 0 0, state := .infiniteLoop }

def resE1 (s : State) : State :=
  { s with ctl := s.ctl.setIfInBounds 0 (s.flagsInternal % 65536),
           modSwap := clearSwap s.modSwap s.dcSysTime (rd s.ctl 35 + 1) }

def resE2 (s : State) : State :=
  { s with ctl := s.ctl.setIfInBounds 0 (s.flagsInternal % 65536),
           stmSwap := clearSwap s.stmSwap s.dcSysTime (rd s.ctl 83 + 1) }

def resF (s : State) : State :=
  { s with ctl := s.ctl.setIfInBounds 0 (s.flagsInternal % 65536) }

theorem clearA_eq (s : State) : clearA s = .ok (resA s) := by
  simp only [clearA, ADDR_SILENCER_UPDATE_RATE_INTENSITY, ADDR_SILENCER_UPDATE_RATE_PHASE, ADDR_SILENCER_FLAG,
    ADDR_SILENCER_COMPLETION_STEPS_INTENSITY, ADDR_SILENCER_COMPLETION_STEPS_PHASE]
  simp only [ctlWrite_main, Nat.reduceLT, ok_bind, Nat.reduceMod]
  rfl

theorem clearB_eq (s : State) (h : Sized s) : clearB s = .ok (resB s) := by
  obtain ⟨h1, h2, h3, h4, h5, h6, h7⟩ := h
  simp [clearB, resB, ADDR_MOD_TRANSITION_MODE, ADDR_MOD_TRANSITION_VALUE_0, ADDR_MOD_REQ_RD_SEGMENT,
    ADDR_MOD_CYCLE0, ADDR_MOD_CYCLE1, ADDR_MOD_FREQ_DIV0, ADDR_MOD_FREQ_DIV1, ADDR_MOD_REP0, ADDR_MOD_REP1,
    ADDR_MOD_MEM_WR_PAGE, ADDR_MOD_MEM_WR_SEGMENT, TRANSITION_MODE_SYNC_IDX,
    ctlWrite_main, ok_bind, ctlWriteWords_main, modWriteWords_eq, reg, rd_set, h1]

theorem clearC_eq (s : State) (h : Sized s) : clearC s = .ok (resC s) := by
  obtain ⟨h1, h2, h3, h4, h5, h6, h7⟩ := h
  simp [clearC, resC, ADDR_STM_TRANSITION_MODE, ADDR_STM_TRANSITION_VALUE_0, ADDR_STM_REQ_RD_SEGMENT,
    ADDR_STM_CYCLE0, ADDR_STM_CYCLE1, ADDR_STM_FREQ_DIV0, ADDR_STM_FREQ_DIV1, ADDR_STM_REP0, ADDR_STM_REP1,
    ADDR_STM_MEM_WR_PAGE, ADDR_STM_MEM_WR_SEGMENT, ADDR_STM_MODE0, ADDR_STM_MODE1, TRANSITION_MODE_SYNC_IDX,
    STM_MODE_GAIN, TRANS_NUM, ctlWrite_main, ok_bind, ctlWriteWords_main, stmWriteWords_eq, reg, rd_set, h1]

theorem clearD_eq (s : State) (h : Sized s) : clearD s = .ok (resD s) := by
  obtain ⟨h1, h2, h3, h4, h5, h6, h7⟩ := h
  simp [clearD, resD, ADDR_DEBUG_VALUE0_0, BRAM_CNT_SEL_PHASE_CORR, TRANS_NUM,
    ok_bind, ctlWriteWords_main, ctlWriteWords_pc, pweWriteWords_eq, h1, h2, h3]

theorem clearE1_eq (s : State) (hsz : s.ctl.size = 256) (hf : s.flagsInternal = 0)
    (h34 : rd s.ctl 34 = 0) (h41 : rd s.ctl 41 = 0) (h39 : rd s.ctl 39 = 0xFFFF) (h37 : rd s.ctl 37 = 0xFFFF)
    (hm : SwapWF s.modSwap) : clearE1 s = .ok (resE1 s) := by
  obtain ⟨hm1, hm2, hm3, hm4⟩ := hm
  exact saw_mod s CTL_FLAG_MOD_SET 0 .syncIdx (clearSwap s.modSwap s.dcSysTime (rd s.ctl 35 + 1)) hsz
    (by simp [hf, hasFlag, CTL_FLAG_MOD_SET]) (by simp [hf, hasFlag, CTL_FLAG_MOD_SET, CTL_FLAG_STM_SET]) h34 (by omega)
    (by simp [decodeTMode, h41, TRANSITION_MODE_SYNC_IDX])
    (by rw [set_inf _ _ _ _ _ _ _ (Or.inr h39) (by simpa [sel] using hm1) (by simpa [sel] using hm3)]
        simp [clearSwap, h37, sel])

theorem clearE2_eq (s : State) (hsz : s.ctl.size = 256) (hf : s.flagsInternal = 0)
    (h82 : rd s.ctl 82 = 0) (h95 : rd s.ctl 95 = 0) (h87 : rd s.ctl 87 = 0xFFFF) (h85 : rd s.ctl 85 = 0xFFFF)
    (hs : SwapWF s.stmSwap) : clearE2 s = .ok (resE2 s) := by
  obtain ⟨hs1, hs2, hs3, hs4⟩ := hs
  exact saw_stm s CTL_FLAG_STM_SET 0 .syncIdx (clearSwap s.stmSwap s.dcSysTime (rd s.ctl 83 + 1)) hsz
    (by simp [hf, hasFlag, CTL_FLAG_MOD_SET, CTL_FLAG_STM_SET]) (by simp [hf, hasFlag, CTL_FLAG_STM_SET]) h82 (by omega)
    (by simp [decodeTMode, h95, TRANSITION_MODE_SYNC_IDX])
    (by rw [set_inf _ _ _ _ _ _ _ (Or.inr h87) (by simpa [sel] using hs1) (by simpa [sel] using hs3)]
        simp [clearSwap, h85, sel])

theorem clearE3_eq (s : State) (hsz : s.ctl.size = 256) (hf : s.flagsInternal = 0) : clearE3 s = .ok (resF s) :=
  saw_none s CTL_FLAG_SILENCER_SET hsz (by simp [hf, hasFlag, CTL_FLAG_MOD_SET, CTL_FLAG_SILENCER_SET])
    (by simp [hf, hasFlag, CTL_FLAG_STM_SET, CTL_FLAG_SILENCER_SET])

theorem clearE4_eq (s : State) (hsz : s.ctl.size = 256) (hf : s.flagsInternal = 0) : clearE4 s = .ok (resF s) :=
  saw_none s CTL_FLAG_DEBUG_SET hsz (by simp [hf, hasFlag, CTL_FLAG_MOD_SET, CTL_FLAG_DEBUG_SET])
    (by simp [hf, hasFlag, CTL_FLAG_STM_SET, CTL_FLAG_DEBUG_SET])

/-! ### `Sized` is preserved by every stage -/

theorem sized_resA (s : State) (h : Sized s) : Sized (resA s) := by
  obtain ⟨h1, h2, h3, h4, h5, h6, h7⟩ := h
  constructor <;> simp [resA, *]
theorem sized_resB (s : State) (h : Sized s) : Sized (resB s) := by
  obtain ⟨h1, h2, h3, h4, h5, h6, h7⟩ := h
  constructor <;> simp [resB, *]
theorem sized_resC (s : State) (h : Sized s) : Sized (resC s) := by
  obtain ⟨h1, h2, h3, h4, h5, h6, h7⟩ := h
  constructor <;> simp [resC, *]
theorem sized_resD (s : State) (h : Sized s) : Sized (resD s) := by
  obtain ⟨h1, h2, h3, h4, h5, h6, h7⟩ := h
  constructor <;> simp [resD, *]
theorem sized_resE1 (s : State) (h : Sized s) : Sized (resE1 s) := by
  obtain ⟨h1, h2, h3, h4, h5, h6, h7⟩ := h
  constructor <;> simp [resE1, *]
theorem sized_resE2 (s : State) (h : Sized s) : Sized (resE2 s) := by
  obtain ⟨h1, h2, h3, h4, h5, h6, h7⟩ := h
  constructor <;> simp [resE2, *]
theorem sized_resF (s : State) (h : Sized s) : Sized (resF s) := by
  obtain ⟨h1, h2, h3, h4, h5, h6, h7⟩ := h
  constructor <;> simp [resF, *]

/-- the registers and memories after stages A–D -/
def resABCD (s : State) : State := resD (resC (resB (resA s)))

/-- **the state after `Clear`** -/
def clearResult (s : State) : State := resF (resF (resE2 (resE1 (resABCD s))))

theorem sized_resABCD (s : State) (h : Sized s) : Sized (resABCD s) :=
  sized_resD _ (sized_resC _ (sized_resB _ (sized_resA _ h)))

theorem sized_clearResult (s : State) (h : Sized s) : Sized (clearResult s) :=
  sized_resF _ (sized_resF _ (sized_resE2 _ (sized_resE1 _ (sized_resABCD _ h))))

/-- (register, value) for every controller register that `Clear` writes (CTL_FLAG excepted: it is
written by the final `setAndWaitUpdate`s) -/
def clearedRegs : List (Nat × Nat) :=
  [(32, 1), (33, 0), (34, 0), (35, 1), (36, 1), (37, 65535), (38, 65535), (39, 65535), (40, 65535), (41, 0),
   (42, 0), (43, 0), (44, 0), (45, 0), (64, 0), (65, 256), (66, 256), (67, 10), (68, 40),
   (80, 1), (81, 0), (82, 0), (83, 0), (84, 0), (85, 65535), (86, 65535), (87, 65535), (88, 65535), (89, 1), (90, 1),
   (95, 0), (96, 0), (97, 0), (98, 0), (99, 0),
   (240, 0), (241, 0), (242, 0), (243, 0), (244, 0), (245, 0), (246, 0), (247, 0), (248, 0), (249, 0), (250, 0),
   (251, 0), (252, 0), (253, 0), (254, 0), (255, 0)]

def RegsCleared (c : Array Nat) : Prop := ∀ p ∈ clearedRegs, rd c p.1 = p.2

theorem regs_resABCD (s : State) (h : s.ctl.size = 256) : RegsCleared (resABCD s).ctl := by
  simp [RegsCleared, clearedRegs, resABCD, resA, resB, resC, resD, rd_set, rd_writeLoop, h, rd_replicate]
  simp [rd]

theorem clear_eq (s : State) (h : WF s) : clear s #[] = .ok (clearResult s, NO_ERR) := by
  have hA := sized_resA s h.toSized
  have hB := sized_resB _ hA
  have hC := sized_resC _ hB
  have hD : Sized (resABCD s) := sized_resD _ hC
  have hr := regs_resABCD s h.ctl
  simp [RegsCleared, clearedRegs] at hr
  have hf : (resABCD s).flagsInternal = 0 := rfl
  have hE1 := sized_resE1 _ hD
  have hE2 := sized_resE2 _ hE1
  have hE3 := sized_resF _ hE2
  rw [clear_split, clearA_eq, ok_bind, clearB_eq _ hA, ok_bind, clearC_eq _ hB, ok_bind, clearD_eq _ hC, ok_bind]
  show (do let s ← clearE1 (resABCD s); _) = _
  rw [clearE1_eq _ hD.ctl hf (by simp [hr]) (by simp [hr]) (by simp [hr]) (by simp [hr]) h.modSwap, ok_bind]
  rw [clearE2_eq _ hE1.ctl rfl (by simp [resE1, rd_set, hr]) (by simp [resE1, rd_set, hr])
    (by simp [resE1, rd_set, hr]) (by simp [resE1, rd_set, hr]) h.stmSwap, ok_bind]
  rw [clearE3_eq _ hE2.ctl rfl, ok_bind, clearE4_eq _ hE3.ctl rfl, ok_bind]
  rfl

end Autd3.P02
