import Mathlib.Analysis.SpecialFunctions.Complex.Arg
/-! Ideal (exact ℂ) single-target behaviour of the linear solvers of `autd3-gain-holo`. -/
namespace Autd3.HoloIdeal
open Complex Finset

variable {ι : Type} [Fintype ι]

/-- `gen_back_prop` for one target followed by `gemv`: `q_i = conj(g_i) · p / Σ_j |g_j|²` -/
noncomputable def backProp (g : ι → ℂ) (p : ℂ) (i : ι) : ℂ :=
  (starRingEnd ℂ) (g i) * p / ((∑ j, ‖g j‖ ^ 2 : ℝ) : ℂ)

/-- the field at the target: `Σ_i g_i q_i` -/
noncomputable def fieldAt (g q : ι → ℂ) : ℂ := ∑ i, g i * q i

theorem sumsq_ne_zero [Nonempty ι] (g : ι → ℂ) (hg : ∀ i, g i ≠ 0) : ((∑ j, ‖g j‖ ^ 2 : ℝ) : ℂ) ≠ 0 := by
  have : 0 < ∑ j, ‖g j‖ ^ 2 := by
    apply Finset.sum_pos
    · intro i _; exact pow_pos (norm_pos_iff.mpr (hg i)) 2
    · exact Finset.univ_nonempty
  exact_mod_cast this.ne'

theorem fieldAt_backProp [Nonempty ι] (g : ι → ℂ) (hg : ∀ i, g i ≠ 0) (p : ℂ) :
    fieldAt g (backProp g p) = p := by
  have hS := sumsq_ne_zero g hg
  unfold fieldAt backProp
  have : ∀ i, g i * ((starRingEnd ℂ) (g i) * p / ((∑ j, ‖g j‖ ^ 2 : ℝ) : ℂ)) =
      ((‖g i‖ ^ 2 : ℝ) : ℂ) * (p / ((∑ j, ‖g j‖ ^ 2 : ℝ) : ℂ)) := by
    intro i
    rw [← mul_div_assoc, ← mul_assoc, Complex.mul_conj, Complex.normSq_eq_norm_sq]
    push_cast; ring
  simp_rw [this]
  rw [← Finset.sum_mul]
  push_cast
  push_cast at hS
  field_simp

theorem backProp_polar [Nonempty ι] (r θ : ι → ℝ) (p : ℂ) (i : ι) :
    backProp (fun j => (r j : ℂ) * exp (θ j * I)) p i =
      ((r i * ‖p‖ / ∑ j, ‖(r j : ℂ) * exp (θ j * I)‖ ^ 2 : ℝ) : ℂ) * exp ((arg p - θ i : ℝ) * I) := by
  unfold backProp
  have hp : p = (‖p‖ : ℂ) * exp (arg p * I) := (Complex.norm_mul_exp_arg_mul_I p).symm
  have hconj : (starRingEnd ℂ) ((r i : ℂ) * exp (θ i * I)) = (r i : ℂ) * exp (-(θ i * I)) := by
    rw [map_mul, Complex.conj_ofReal, ← Complex.exp_conj, map_mul, Complex.conj_ofReal, Complex.conj_I]
    ring_nf
  rw [hconj]
  conv => lhs; rw [hp]
  have hexp : exp ((arg p - θ i : ℝ) * I) = exp (-(θ i * I)) * exp (arg p * I) := by
    rw [← Complex.exp_add]; congr 1; push_cast; ring
  rw [hexp]
  push_cast
  ring

/-- `z / |z|`: what `scaled_to_assign_cv` computes against a vector of ones -/
noncomputable def unit (z : ℂ) : ℂ := z / (‖z‖ : ℂ)

/-- one iteration of `GS` for a single target of amplitude `a`: normalise the drives, propagate to
the target, rescale the target value to `a`, propagate back -/
noncomputable def gsStep (g : ι → ℂ) (a : ℝ) (q : ι → ℂ) : ι → ℂ :=
  backProp g (unit (fieldAt g fun i => unit (q i)) * a)

/-- `repeat` iterations starting from the all-ones vector -/
noncomputable def gsIter (g : ι → ℂ) (a : ℝ) : ℕ → ι → ℂ
  | 0 => fun _ => 1
  | n + 1 => gsStep g a (gsIter g a n)

theorem unit_polar (c ψ : ℝ) (hc : 0 < c) : unit ((c : ℂ) * exp (ψ * I)) = exp (ψ * I) := by
  unfold unit
  rw [norm_mul, Complex.norm_exp_ofReal_mul_I, mul_one, Complex.norm_of_nonneg hc.le]
  have : (c : ℂ) ≠ 0 := by exact_mod_cast hc.ne'
  field_simp

theorem norm_unit_mul (z : ℂ) (hz : z ≠ 0) (a : ℝ) (ha : 0 < a) : ‖unit z * a‖ = a := by
  unfold unit
  have hn : (0 : ℝ) < ‖z‖ := norm_pos_iff.mpr hz
  rw [norm_mul, norm_div, Complex.norm_real, Complex.norm_real, Real.norm_of_nonneg hn.le, div_self hn.ne',
    one_mul, Real.norm_of_nonneg ha.le]

/-- The shape every GS iterate has: a positive multiple of the Focus pattern `exp(-i θ_i)`, rotated
by a common phase `φ`. -/
def FocusShape (r θ : ι → ℝ) (a : ℝ) (q : ι → ℂ) : Prop :=
  ∃ φ : ℝ, ∀ i, q i = ((r i * a / ∑ j, ‖(r j : ℂ) * exp (θ j * I)‖ ^ 2 : ℝ) : ℂ) * exp ((φ - θ i : ℝ) * I)

theorem gsStep_shape [Nonempty ι] (r θ : ι → ℝ) (a : ℝ) (ha : 0 < a) (q : ι → ℂ)
    (hγ : (fieldAt (fun j => (r j : ℂ) * exp (θ j * I)) fun i => unit (q i)) ≠ 0) :
    FocusShape r θ a (gsStep (fun j => (r j : ℂ) * exp (θ j * I)) a q) ∧
      ∀ (_ : ∀ i, 0 < r i), ‖fieldAt (fun j => (r j : ℂ) * exp (θ j * I)) (gsStep (fun j => (r j : ℂ) * exp (θ j * I)) a q)‖ = a := by
  refine ⟨⟨arg (unit (fieldAt (fun j => (r j : ℂ) * exp (θ j * I)) fun i => unit (q i)) * a), fun i => ?_⟩, fun hr => ?_⟩
  · unfold gsStep
    rw [backProp_polar, norm_unit_mul _ hγ a ha]
  · unfold gsStep
    rw [fieldAt_backProp _ (fun i => ?_), norm_unit_mul _ hγ a ha]
    have : (r i : ℂ) ≠ 0 := by exact_mod_cast (hr i).ne'
    exact mul_ne_zero this (Complex.exp_ne_zero _)

theorem shape_nondegenerate [Nonempty ι] (r θ : ι → ℝ) (hr : ∀ i, 0 < r i) (a : ℝ) (ha : 0 < a) (q : ι → ℂ)
    (h : FocusShape r θ a q) :
    (fieldAt (fun j => (r j : ℂ) * exp (θ j * I)) fun i => unit (q i)) ≠ 0 := by
  obtain ⟨φ, hφ⟩ := h
  have hS : 0 < ∑ j, ‖(r j : ℂ) * exp (θ j * I)‖ ^ 2 := by
    apply Finset.sum_pos
    · intro i _
      have : (r i : ℂ) ≠ 0 := by exact_mod_cast (hr i).ne'
      exact pow_pos (norm_pos_iff.mpr (mul_ne_zero this (Complex.exp_ne_zero _))) 2
    · exact Finset.univ_nonempty
  have hterm : ∀ i, (r i : ℂ) * exp (θ i * I) * unit (q i) = (r i : ℂ) * exp (φ * I) := by
    intro i
    rw [hφ i, unit_polar _ _ (div_pos (mul_pos (hr i) ha) hS), mul_assoc, ← Complex.exp_add]
    congr 2; push_cast; ring
  unfold fieldAt
  simp_rw [hterm]
  rw [← Finset.sum_mul]
  apply mul_ne_zero _ (Complex.exp_ne_zero _)
  have : (0 : ℝ) < ∑ i, r i := Finset.sum_pos (fun i _ => hr i) Finset.univ_nonempty
  exact_mod_cast this.ne'

theorem gsIter_shape [Nonempty ι] (r θ : ι → ℝ) (hr : ∀ i, 0 < r i) (a : ℝ) (ha : 0 < a)
    (h0 : (∑ i, (r i : ℂ) * exp (θ i * I)) ≠ 0) (n : ℕ) :
    FocusShape r θ a (gsIter (fun j => (r j : ℂ) * exp (θ j * I)) a (n + 1)) ∧
      ‖fieldAt (fun j => (r j : ℂ) * exp (θ j * I)) (gsIter (fun j => (r j : ℂ) * exp (θ j * I)) a (n + 1))‖ = a := by
  induction n with
  | zero =>
    have hγ : (fieldAt (fun j => (r j : ℂ) * exp (θ j * I)) fun i => unit (gsIter (fun j => (r j : ℂ) * exp (θ j * I)) a 0 i)) ≠ 0 := by
      unfold fieldAt gsIter unit
      simpa using h0
    obtain ⟨s1, s2⟩ := gsStep_shape r θ a ha _ hγ
    exact ⟨s1, s2 hr⟩
  | succ n ih =>
    have hγ := shape_nondegenerate r θ hr a ha _ ih.1
    obtain ⟨s1, s2⟩ := gsStep_shape r θ a ha _ hγ
    exact ⟨s1, s2 hr⟩
