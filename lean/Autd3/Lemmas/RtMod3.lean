import Autd3.Lemmas.RtMod2
/-!
Modulation, part 3: the copy part of `write_mod` in closed form (`modDataPart_ok`: without and with the
page split).
-/
open Autd3 Autd3.Fw Autd3.Wire Autd3.Gen.Cpu Autd3.Gen
namespace Autd3.Rt

/-- what the copy part of one `write_mod` frame does: `w` bytes of the frame (from byte `off`) land at
cursor `c … c+w-1` of segment `seg`; nothing below the cursor, nothing in the other segment, no
register except the write page changes -/
structure ModCopied (s s' : State) (seg c w : Nat) (d : Array Nat) (off : Nat) : Prop where
  cycle : s'.modCycle = c + w
  bytes : ∀ i, i < c + w →
    modByte (Obs.modMem s' seg) i = if c ≤ i then u8at d (off + (i - c)) else modByte (Obs.modMem s seg) i
  other : ∀ g, (g = 0) ≠ (seg = 0) → Obs.modMem s' g = Obs.modMem s g
  page : c + w < 65536 → reg s' ADDR_MOD_MEM_WR_PAGE = (c + w) / 32768
  regs : ∀ a, a ≠ ADDR_MOD_MEM_WR_PAGE → reg s' a = reg s a
  frame : ModFrame s s'
  ctl : s'.ctl.size = 256
  mem0 : s'.modMem0.size = 32768
  mem1 : s'.modMem1.size = 32768

theorem modMem_size {s : State} (h : WF s) (g : Nat) : (Obs.modMem s g).size = 32768 := by
  unfold Obs.modMem; split
  · exact h.modMem0
  · exact h.modMem1

theorem modMem_setModMem_same (s : State) (g : Nat) (m : Array Nat) : Obs.modMem (setModMem s g m) g = m := by
  unfold Obs.modMem setModMem; by_cases h : g = 0 <;> simp [h]

theorem modMem_setModMem_other (s : State) (g g' : Nat) (m : Array Nat) (h : (g' = 0) ≠ (g = 0)) :
    Obs.modMem (setModMem s g m) g' = Obs.modMem s g' := by
  unfold Obs.modMem setModMem
  by_cases h1 : g = 0 <;> by_cases h2 : g' = 0 <;> simp [h1, h2] at h ⊢

/-- copy without page crossing -/
theorem modDataPart_ok_A (s : State) (hW : WF s) (d : Array Nat) (off w seg c : Nat)
    (hc : s.modCycle = c) (hc2 : c % 2 = 0) (hcw : c + w ≤ 65536) (hc3 : c < 65536)
    (hsr : reg s ADDR_MOD_MEM_WR_SEGMENT = seg) (hseg : seg ≤ 1) (hpage : reg s ADDR_MOD_MEM_WR_PAGE = c / 32768)
    (hA : w < 32768 - c % 32768) :
    ∃ s', modDataPart s d off w = .ok s' ∧ ModCopied s s' seg c w d off := by
  rw [modDataPart_eq, hc, Nat.mod_eq_of_lt hc3, and_mask15, show MOD_BUF_PAGE_SIZE = 32768 from rfl, if_pos hA,
    Nat.shiftRight_eq_div_pow, Nat.shiftRight_eq_div_pow]
  have hb1 : c % 32768 / 2 ^ 1 % 16384 = c % 32768 / 2 := by omega
  have hsz : (wordsAt d off ((w + 1) / 2 ^ 1)).size = (w + 1) / 2 := by simp
  rw [modWriteWords_eq _ _ _ (by rw [hsr]; exact hseg) (by rw [hb1, hsz]; omega) (by rw [hpage, hb1, hsz]; omega)]
  rw [hsr, hpage, hb1, show c / 32768 * 16384 + c % 32768 / 2 = c / 2 from by omega, show (w + 1) / 2 ^ 1 = (w + 1) / 2 from rfl]
  refine ⟨_, rfl, ?_⟩
  have hms := modMem_size hW seg
  refine ⟨by simp [hc], ?_, ?_, ?_, ?_, ?_, by simpa using hW.ctl, ?_, ?_⟩
  · intro i hi
    show modByte (Obs.modMem (setModCycle (setModMem s seg _) _) seg) i = _
    have : Obs.modMem (setModCycle (setModMem s seg (wrWords (Obs.modMem s seg) (c / 2) (wordsAt d off ((w + 1) / 2))))
        ((setModMem s seg (wrWords (Obs.modMem s seg) (c / 2) (wordsAt d off ((w + 1) / 2)))).modCycle + w)) seg =
        wrWords (Obs.modMem s seg) (c / 2) (wordsAt d off ((w + 1) / 2)) := modMem_setModMem_same _ _ _
    rw [this, modByte_wrWords _ _ _ _ _ _ hc2 (by rw [hms]; omega)]
    by_cases h : c ≤ i
    · rw [if_pos ⟨h, by omega⟩, if_pos h]
    · rw [if_neg (by omega), if_neg h]
  · intro g hg
    exact modMem_setModMem_other _ _ _ _ hg
  · intro _
    rw [reg_setModCycle, reg_setModMem, hpage]; omega
  · intro a _; rw [reg_setModCycle, reg_setModMem]
  · exact (ModFrame_setModMem _ _ _).trans (ModFrame_setModCycle _ _)
  · show (setModMem s seg _).modMem0.size = _
    unfold setModMem; split
    · simp; exact hms
    · exact hW.modMem0
  · show (setModMem s seg _).modMem1.size = _
    unfold setModMem; split
    · exact hW.modMem1
    · simp; exact hms

theorem size0_setModMem (s : State) (g : Nat) (m : Array Nat) (n : Nat) (h0 : s.modMem0.size = n) (hm : m.size = n) :
    (setModMem s g m).modMem0.size = n := by unfold setModMem; split <;> simp [*]
theorem size1_setModMem (s : State) (g : Nat) (m : Array Nat) (n : Nat) (h0 : s.modMem1.size = n) (hm : m.size = n) :
    (setModMem s g m).modMem1.size = n := by unfold setModMem; split <;> simp [*]

theorem modMem_setModCycle (s : State) (x g : Nat) : Obs.modMem (setModCycle s x) g = Obs.modMem s g := rfl
theorem modMem_wr (s : State) (a v g : Nat) : Obs.modMem (wr s a v) g = Obs.modMem s g := rfl

/-- copy across the page boundary (or exactly up to it) -/
theorem modDataPart_ok_B (s : State) (hW : WF s) (d : Array Nat) (off w seg c : Nat)
    (hc : s.modCycle = c) (hc2 : c % 2 = 0) (hcw : c + w ≤ 65536) (hc3 : c < 65536)
    (hsr : reg s ADDR_MOD_MEM_WR_SEGMENT = seg) (hseg : seg ≤ 1) (hpage : reg s ADDR_MOD_MEM_WR_PAGE = c / 32768)
    (hB : ¬ w < 32768 - c % 32768) :
    ∃ s', modDataPart s d off w = .ok s' ∧ ModCopied s s' seg c w d off := by
  rw [modDataPart_eq, hc, Nat.mod_eq_of_lt hc3, and_mask15, show MOD_BUF_PAGE_SIZE = 32768 from rfl, if_neg hB,
    Nat.shiftRight_eq_div_pow, Nat.shiftRight_eq_div_pow, Nat.shiftRight_eq_div_pow]
  have hms := modMem_size hW seg
  have hb1 : c % 32768 / 2 ^ 1 % 16384 = c % 32768 / 2 := by omega
  generalize hcap : 32768 - c % 32768 = cap at hB ⊢
  have hcap2 : cap % 2 = 0 := by omega
  have hsz1 : (wordsAt d off (cap / 2 ^ 1)).size = cap / 2 := by simp
  rw [modWriteWords_eq _ _ _ (by rw [hsr]; exact hseg) (by rw [hb1, hsz1]; omega) (by rw [hpage, hb1, hsz1]; omega)]
  rw [hsr, hpage, hb1, show c / 32768 * 16384 + c % 32768 / 2 = c / 2 from by omega, show cap / 2 ^ 1 = cap / 2 from rfl]
  simp only [ok_bind, setModMem_modCycle, hc]
  generalize hm1 : wrWords (Obs.modMem s seg) (c / 2) (wordsAt d off (cap / 2)) = m1
  have hm1s : m1.size = 32768 := by rw [← hm1, size_wrWords]; exact hms
  have hp : (c + cap) % 65536 < 65536 := Nat.mod_lt _ (by decide)
  rw [page_bits _ hp, ctlWrite_main _ _ _ (by decide)]
  simp only [ok_bind]
  generalize hpv : (c + cap) % 65536 / 32768 = p
  have hp1 : p ≤ 1 := by omega
  have hs2c : (setModCycle (setModMem s seg m1) (c + cap)).ctl.size = 256 := by simpa using hW.ctl
  have e32 : reg (wr (setModCycle (setModMem s seg m1) (c + cap)) ADDR_MOD_MEM_WR_PAGE p) ADDR_MOD_MEM_WR_SEGMENT = seg := by
    rw [reg_wr, if_neg (by intro h; exact absurd h.1 (by decide)), reg_setModCycle, reg_setModMem, hsr]
  have e33 : reg (wr (setModCycle (setModMem s seg m1) (c + cap)) ADDR_MOD_MEM_WR_PAGE p) ADDR_MOD_MEM_WR_PAGE = p := by
    rw [reg_wr, if_pos ⟨rfl, by rw [hs2c]; decide⟩]; omega
  have hmem2 : Obs.modMem (wr (setModCycle (setModMem s seg m1) (c + cap)) ADDR_MOD_MEM_WR_PAGE p) seg = m1 := by
    rw [modMem_wr, modMem_setModCycle, modMem_setModMem_same]
  have hsz2 : (wordsAt d (off + 2 * (cap / 2)) ((w - cap + 1) / 2 ^ 1)).size = (w - cap + 1) / 2 := by simp
  rw [modWriteWords_eq _ _ _ (by rw [e32]; exact hseg) (by rw [hsz2]; omega) (by rw [e33, hsz2]; omega)]
  rw [e32, e33, hmem2, show (w - cap + 1) / 2 ^ 1 = (w - cap + 1) / 2 from rfl, show 0 % 16384 = 0 from rfl, Nat.add_zero]
  simp only [ok_bind, setModMem_modCycle, wr_modCycle, setModCycle_modCycle]
  refine ⟨_, rfl, ?_⟩
  refine ⟨by simp; omega, ?_, ?_, ?_, ?_, ?_, by simpa using hW.ctl, ?_, ?_⟩
  · intro i hi
    rw [modMem_setModCycle, modMem_setModMem_same]
    have hpe : p * 16384 = (p * 32768) / 2 := by omega
    rw [hpe, modByte_wrWords _ _ _ _ _ _ (by omega) (by rw [hm1s]; omega), ← hm1,
      modByte_wrWords _ _ _ _ _ _ hc2 (by rw [hms]; omega)]
    by_cases hlo : c ≤ i
    · rw [if_pos hlo]
      by_cases h2 : p * 32768 ≤ i ∧ i < p * 32768 + 2 * ((w - cap + 1) / 2)
      · rw [if_pos h2]; congr 1; omega
      · rw [if_neg h2, if_pos (by omega)]
    · rw [if_neg hlo, if_neg (by omega), if_neg (by omega)]
  · intro g hg
    rw [modMem_setModCycle, modMem_setModMem_other _ _ _ _ hg, modMem_wr, modMem_setModCycle,
      modMem_setModMem_other _ _ _ _ hg]
  · intro h
    rw [reg_setModCycle, reg_setModMem, e33]; omega
  · intro a ha
    rw [reg_setModCycle, reg_setModMem, reg_wr, if_neg (by intro h; exact ha h.1), reg_setModCycle, reg_setModMem]
  · exact ((((ModFrame_setModMem _ _ _).trans (ModFrame_setModCycle _ _)).trans (ModFrame_wr _ _ _)).trans
      (ModFrame_setModMem _ _ _)).trans (ModFrame_setModCycle _ _)
  · rw [setModCycle_modMem0]
    apply size0_setModMem _ _ _ _ _ (by rw [size_wrWords]; exact hm1s)
    rw [wr_modMem0, setModCycle_modMem0]
    exact size0_setModMem _ _ _ _ hW.modMem0 hm1s
  · rw [setModCycle_modMem1]
    apply size1_setModMem _ _ _ _ _ (by rw [size_wrWords]; exact hm1s)
    rw [wr_modMem1, setModCycle_modMem1]
    exact size1_setModMem _ _ _ _ hW.modMem1 hm1s

/-- the copy part of `write_mod`, both cases -/
theorem modDataPart_ok (s : State) (hW : WF s) (d : Array Nat) (off w seg c : Nat)
    (hc : s.modCycle = c) (hc2 : c % 2 = 0) (hcw : c + w ≤ 65536) (hc3 : c < 65536)
    (hsr : reg s ADDR_MOD_MEM_WR_SEGMENT = seg) (hseg : seg ≤ 1) (hpage : reg s ADDR_MOD_MEM_WR_PAGE = c / 32768) :
    ∃ s', modDataPart s d off w = .ok s' ∧ ModCopied s s' seg c w d off := by
  by_cases h : w < 32768 - c % 32768
  · exact modDataPart_ok_A s hW d off w seg c hc hc2 hcw hc3 hsr hseg hpage h
  · exact modDataPart_ok_B s hW d off w seg c hc hc2 hcw hc3 hsr hseg hpage h

theorem WF_of_ModCopied {s s' : State} {seg c w off : Nat} {d : Array Nat} (hW : WF s)
    (h : ModCopied s s' seg c w d off) : WF s' :=
  WF_of_ModFrame hW h.frame h.ctl h.mem0 h.mem1 (fun a h1 _ _ => h.regs a h1)

end Autd3.Rt
