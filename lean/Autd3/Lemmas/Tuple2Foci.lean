import Autd3.Lemmas.Tuple2FociA
/-!
General tuples, FociSTM instance, part B: the chunk protocol `fociProto` and its laws.

* `FociBase seg s0 s`: the own-side facts relative to the base `s0` that survive both the FociSTM's own
  continuation frames and the other tuple member's frames;
* `FociMid` = `FociInv s s …` (base = the state itself) + `FociBase` + the two CPU latches the Modulation's
  strict-silencer guard reads; `FociDone` = `FociHeld s0 s …` + the latches;
* `fociTail_latch`: copy part and END part of `write_foci_stm` never touch `stm_freq_div` / `stm_segment`
  (for arbitrary payloads, by the footprint calculus with a finer eraser);
* `foci_chunk_tail`: one frame at any progress, `foci_step_first` / `foci_step_next`: pack at offset `k` + handler;
* `fociProto_laws`.
-/
set_option linter.unusedSimpArgs false
set_option linter.unusedVariables false
open Autd3 Autd3.Fw Autd3.Wire Autd3.Gen.Cpu Autd3.Gen Autd3.Rt
namespace Autd3.Tuple2

/-! ### `KeepS` of the per-frame bookkeeping -/

theorem fociKeepS_io (s : State) (a l r : Nat) : KeepS s { s with ack := a, lastMsgId := l, rxData := r } :=
  ⟨rfl, rfl, rfl, rfl, rfl, rfl, rfl, rfl, rfl, rfl, rfl, rfl, rfl, fun _ _ _ => rfl, rfl, rfl, rfl⟩

theorem fociKeepS_fin (s : State) (id : Nat) : KeepS s (fin s id) :=
  ⟨rfl, rfl, rfl, rfl, rfl, rfl, rfl, rfl, rfl, rfl, rfl, rfl, rfl, fun a h1 _ => reg_fin s id a (by omega), rfl, rfl, rfl⟩

theorem KeepS.fociStmSame {s s' : State} (h : KeepS s s') : StmSame s s' :=
  ⟨h.mem0, h.mem1, h.swap, h.phaseCorr, h.numTr, h.regs, h.cycle, h.mode, h.rep, h.div, h.segment⟩

theorem KeepS.fociStmMem {s s' : State} (h : KeepS s s') (g : Nat) : Obs.stmMem s' g = Obs.stmMem s g := by
  unfold Obs.stmMem; rw [h.mem0, h.mem1]

/-! ### the base-relative facts that survive -/

structure FociBase (seg : Nat) (s0 s : State) : Prop where
  other : ∀ g, (g = 0) ≠ (seg = 0) → Obs.stmMem s g = Obs.stmMem s0 g
  regs : ∀ a, 82 ≤ a → a ≤ 99 → a ≠ 85 + seg → a ≠ 87 + seg → a ≠ 89 + seg → a ≠ 91 + seg → a ≠ 93 + seg →
    reg s a = reg s0 a
  swap : s.stmSwap = s0.stmSwap
  time : s.dcSysTime = s0.dcSysTime

theorem FociBase.refl (seg : Nat) (s : State) : FociBase seg s s := ⟨fun _ _ => rfl, fun _ _ _ _ _ _ _ _ => rfl, rfl, rfl⟩

theorem FociBase.step {seg : Nat} {s0 sB s2 : State} {tr : Tr} {rep div ss n : Nat} {records : Array Nat} {c : Nat}
    (h : FociBase seg s0 sB) (hI : FociInv sB s2 seg tr rep div ss n records c) : FociBase seg s0 s2 :=
  ⟨fun g hg => (hI.other g hg).trans (h.other g hg),
   fun a h1 h2 h3 h4 h5 h6 h7 =>
     (hI.regs a (by omega) (by omega) (by omega) h3 h4 h5 h6 h7).trans (h.regs a h1 h2 h3 h4 h5 h6 h7),
   hI.swap.trans h.swap, hI.time.trans h.time⟩

theorem FociBase.keep {seg : Nat} {s0 s s' : State} (h : FociBase seg s0 s) (hk : KeepS s s') : FociBase seg s0 s' :=
  ⟨fun g hg => (hk.fociStmMem g).trans (h.other g hg),
   fun a h1 h2 h3 h4 h5 h6 h7 => (hk.regs a (by omega) h2).trans (h.regs a h1 h2 h3 h4 h5 h6 h7),
   hk.swap.trans h.swap, hk.time.trans h.time⟩

/-- the invariant with the state itself as base: only the base-free clauses remain -/
theorem FociInv_self {s0 s : State} {seg : Nat} {tr : Tr} {rep div ss n : Nat} {records : Array Nat} {c : Nat}
    (h : FociInv s0 s seg tr rep div ss n records c) : FociInv s s seg tr rep div ss n records c :=
  ⟨h.wf, h.cursor, h.nf, h.wseg, h.page, h.recs, fun _ _ => rfl, h.trMode, h.trValue, h.divReg, h.repReg, h.modeReg,
    h.ssReg, h.nfReg, fun _ _ _ _ _ _ _ _ _ => rfl, rfl, rfl, rfl⟩

theorem FociInv_keep {s s' : State} {seg : Nat} {tr : Tr} {rep div ss n : Nat} {records : Array Nat} {c : Nat}
    (hseg : seg ≤ 1) (h : FociInv s s seg tr rep div ss n records c) (hk : KeepS s s') (hw : WF s') :
    FociInv s' s' seg tr rep div ss n records c := by
  refine ⟨hw, by rw [hk.write]; exact h.cursor, by rw [hk.numFoci]; exact h.nf, ?_, ?_, ?_, fun _ _ => rfl,
    by rw [hk.trMode]; exact h.trMode, by rw [hk.trValue]; exact h.trValue, ?_, ?_, ?_, ?_, ?_,
    fun _ _ _ _ _ _ _ _ _ => rfl, rfl, rfl, rfl⟩
  · rw [hk.regs ADDR_STM_MEM_WR_SEGMENT (by decide) (by decide)]; exact h.wseg
  · rw [hk.regs ADDR_STM_MEM_WR_PAGE (by decide) (by decide)]; exact h.page
  · intro j hj; rw [hk.fociStmMem]; exact h.recs j hj
  · rw [hk.regs (85 + seg) (by omega) (by omega)]; exact h.divReg
  · rw [hk.regs (87 + seg) (by omega) (by omega)]; exact h.repReg
  · rw [hk.regs (89 + seg) (by omega) (by omega)]; exact h.modeReg
  · rw [hk.regs (91 + seg) (by omega) (by omega)]; exact h.ssReg
  · rw [hk.regs (93 + seg) (by omega) (by omega)]; exact h.nfReg

/-- `FociHeld` transported to an earlier base -/
theorem FociHeld_rebase {s0 sB s' : State} {seg : Nat} {tr : Tr} {rep div ss n : Nat} {records : Array Nat} {P : Nat}
    (hseg : seg ≤ 1) (hb : FociBase seg s0 sB) (h : FociHeld sB s' seg tr rep div ss n records P) :
    FociHeld s0 s' seg tr rep div ss n records P := by
  have hne : ((1 - seg) = 0) ≠ (seg = 0) := by
    rcases (show seg = 0 ∨ seg = 1 by omega) with h | h <;> subst h <;> simp
  have hr : ∀ a, 82 ≤ a → a ≤ 99 → a ≠ 85 + seg → a ≠ 87 + seg → a ≠ 89 + seg → a ≠ 91 + seg → a ≠ 93 + seg →
      reg sB a = reg s0 a := hb.regs
  refine ⟨h.recs, h.hcycle, h.hnf, h.hss, h.hdiv, h.hrep, h.hmode, h.otherMem.trans (hb.other _ hne), ?_, ?_⟩
  · obtain ⟨o1, o2, o3, o4⟩ := h.otherRegs
    refine ⟨o1.trans ?_, o2.trans ?_, o3.trans ?_, o4.trans ?_⟩
    · unfold Obs.stmDiv; simp only [ADDR_STM_FREQ_DIV0]
      exact hr _ (by omega) (by omega) (by omega) (by omega) (by omega) (by omega) (by omega)
    · unfold Obs.stmRep; simp only [ADDR_STM_REP0]
      exact hr _ (by omega) (by omega) (by omega) (by omega) (by omega) (by omega) (by omega)
    · unfold Obs.stmCycle; simp only [ADDR_STM_CYCLE0]
      rw [hr _ (by omega) (by omega) (by omega) (by omega) (by omega) (by omega) (by omega)]
    · have : reg sB (ADDR_STM_MODE0 + (1 - seg)) = reg s0 (ADDR_STM_MODE0 + (1 - seg)) := by
        simp only [ADDR_STM_MODE0]
        exact hr _ (by omega) (by omega) (by omega) (by omega) (by omega) (by omega) (by omega)
      unfold Obs.isStmGainMode; rw [this]
  · have hq := h.req
    have hreq : ∀ a, a = 82 ∨ (95 ≤ a ∧ a ≤ 99) → reg sB a = reg s0 a := fun a ha =>
      hr a (by omega) (by omega) (by omega) (by omega) (by omega) (by omega) (by omega)
    rcases tr with _ | ⟨m, v⟩
    · obtain ⟨q1, q2, q3⟩ := hq
      refine ⟨q1.trans hb.swap, q2.trans ?_, q3.trans ?_⟩
      · unfold Obs.reqStmSeg segReg
        simp only [hreq ADDR_STM_REQ_RD_SEGMENT (Or.inl rfl)]
      · unfold Obs.stmTransition reg64
        simp only [hreq ADDR_STM_TRANSITION_MODE (Or.inr (by decide)), hreq ADDR_STM_TRANSITION_VALUE_0 (Or.inr (by decide)),
          hreq (ADDR_STM_TRANSITION_VALUE_0 + 1) (Or.inr (by decide)), hreq (ADDR_STM_TRANSITION_VALUE_0 + 2) (Or.inr (by decide)),
          hreq (ADDR_STM_TRANSITION_VALUE_0 + 3) (Or.inr (by decide))]
    · obtain ⟨q1, q2, q3⟩ := hq
      refine ⟨q1, q2, ?_⟩
      rw [← hb.swap, ← hb.time]; exact q3

/-- `FociHeld` only mentions STM-side observations of the final state -/
theorem FociHeld_keep {s0 s s' : State} {seg : Nat} {tr : Tr} {rep div ss n : Nat} {records : Array Nat} {P : Nat}
    (hseg : seg ≤ 1) (h : FociHeld s0 s seg tr rep div ss n records P) (hk : KeepS s s') :
    FociHeld s0 s' seg tr rep div ss n records P := by
  obtain ⟨hm, hg, hq, ht, _, _⟩ := obs_stm_same hk.fociStmSame
  obtain ⟨c1, c2, c3, c4, c5, c6, _⟩ := hg seg hseg
  obtain ⟨d1, d2, d3, d4, _, _, _⟩ := hg (1 - seg) (by omega)
  refine ⟨by intro j hj; rw [hm]; exact h.recs j hj, by rw [c1]; exact h.hcycle, by rw [c6]; exact h.hnf,
    by rw [c5]; exact h.hss, by rw [c2]; exact h.hdiv, by rw [c3]; exact h.hrep, by rw [c4]; exact h.hmode,
    by rw [hm]; exact h.otherMem, by rw [d2, d3, d1, d4]; exact h.otherRegs, ?_⟩
  have := h.req
  rcases tr with _ | ⟨m, v⟩
  · simp only [hq, ht, hk.swap]; exact this
  · simp only [hq, ht, hk.swap]; exact this

/-! ### the CPU latches `stm_freq_div` / `stm_segment` are only written by the BEGIN header -/

/-- like `eraseS`, but keeps the BEGIN-only latches -/
def eraseF (s : State) : State :=
  { s with ack := 0, ctl := #[], stmMem0 := #[], stmMem1 := #[], stmWrite := 0, stmCycle := (0, 0), stmMode := (0, 0),
           stmSwap := {} }

@[reducible] def TAll (_ : Nat) : Prop := True

theorem ErCtl_F : ErCtl eraseF := fun _ _ => rfl

theorem Foot.sawF {s0 s1 x : State} (hc : s0.ctl.size = 256) (hfi : s0.flagsInternal % 256 = 0)
    (h1 : Foot eraseF TAll s0 s1) (hx : setAndWaitUpdate s1 CTL_FLAG_STM_SET = .ok x) : Foot eraseF TAll s0 x := by
  have hfl : s1.flagsInternal = s0.flagsInternal := by
    have := congrArg State.flagsInternal h1.eq; exact this
  obtain ⟨y, w, e⟩ := saw_stm_shape s1 x (by rw [h1.ctlsz, hc]) (by rw [hfl]; exact hfi) hx
  rw [e]
  exact Foot.reg1 ErCtl_F (Foot.tweak (s1 := { wr s1 ADDR_CTL_FLAG y with stmSwap := w })
    (Foot.reg1 ErCtl_F h1 _ _ trivial) rfl rfl) _ _ trivial

theorem stmSegmentUpdate_footF {s0 s1 : State} (seg mode value : Nat) (hc : s0.ctl.size = 256)
    (hfi : s0.flagsInternal % 256 = 0) (h1 : Foot eraseF TAll s0 s1) :
    Leaves (Foot eraseF TAll) s0 (stmSegmentUpdate s1 seg mode value) := by
  unfold stmSegmentUpdate
  refine Leaves.cw ErCtl_F h1 (by decide) trivial ?_; intro s2 h2
  apply Leaves.ite <;> intro _
  · exact Leaves.pure h2
  refine Leaves.cw ErCtl_F h2 (by decide) trivial ?_; intro s3 h3
  refine Leaves.cww ErCtl_F h3 (by show ADDR_STM_TRANSITION_VALUE_0 + 4 ≤ 256; decide) (fun _ _ _ => trivial) ?_
  intro s4 h4
  refine Leaves.bind (fun x => Foot eraseF TAll s0 x) (fun _ hx => Foot.sawF hc hfi h4 hx) ?_
  intro s5 h5
  exact Leaves.pure h5

theorem fociTail_footF {s0 s1 : State} (d : Array Nat) (off sn flag seg : Nat) (hc : s0.ctl.size = 256)
    (hfi : s0.flagsInternal % 256 = 0) (h1 : Foot eraseF TAll s0 s1) :
    Leaves (Foot eraseF TAll) s0 (fociDataPart s1 d off sn >>= fun s2 => fociEndPart s2 flag seg) := by
  have endp : ∀ s2, Foot eraseF TAll s0 s2 → Leaves (Foot eraseF TAll) s0 (fociEndPart s2 flag seg) := by
    intro s2 h2
    unfold fociEndPart
    simp only []
    apply Leaves.ite <;> intro _
    · apply Leaves.ite <;> intro hseg
      · exact Leaves.error _
      apply Leaves.ite <;> intro _
      · exact Leaves.error _
      refine Leaves.cw ErCtl_F (by foot_tac) (by addr_tac) trivial ?_; intro _ _
      apply Leaves.ite <;> intro _
      · exact stmSegmentUpdate_footF _ _ _ hc hfi (by foot_tac)
      · exact Leaves.pure (by foot_tac)
    · exact Leaves.pure (by foot_tac)
  unfold fociDataPart
  simp only []
  by_cases h0 : sn * s1.numFoci ≥ 65536
  · simp only [h0, if_true, error_bind]; exact Leaves.error _
  by_cases h : sn * s1.numFoci < FOCI_STM_BUF_PAGE_SIZE - (s1.stmWrite % 65536 &&& FOCI_STM_BUF_PAGE_SIZE_MASK)
  · simp only [h0, h, if_true, if_false, bind_assoc, pure_bind]
    refine Leaves.sww0 _ _ _ _ (fun _ _ => ?_)
    exact endp _ (by foot_tac)
  · simp only [h0, h, if_false, bind_assoc, pure_bind]
    refine Leaves.sww0 _ _ _ _ (fun _ _ => ?_)
    refine Leaves.cw ErCtl_F (by foot_tac) (by addr_tac) trivial ?_; intro _ _
    refine Leaves.sww0 _ _ _ _ (fun _ _ => ?_)
    exact endp _ (by foot_tac)

/-- copy part and END part of `write_foci_stm`, any payload: the two latches stay -/
theorem fociTail_latch (s : State) (hc : s.ctl.size = 256) (hfi : s.flagsInternal % 256 = 0) (d : Array Nat)
    (off sn flag seg : Nat) {s' : State} {a : Nat}
    (h : (fociDataPart s d off sn >>= fun s2 => fociEndPart s2 flag seg) = .ok (s', a)) :
    s'.stmDiv = s.stmDiv ∧ s'.stmSegment = s.stmSegment := by
  have hf := fociTail_footF d off sn flag seg hc hfi (Foot.refl eraseF TAll s) s' a h
  have e1 := congrArg State.stmDiv hf.eq
  have e2 := congrArg State.stmSegment hf.eq
  exact ⟨e1, e2⟩

/-! ### the new swap chain of an accepted segment request is THE result of `Swapchain::set` -/

/-- `stmSegmentUpdate_ok`, keeping the `Swap.set` equation that `SwapSet` forgets -/
theorem stmSegmentUpdate_set (s : State) (hW : WF s) (seg mode value : Nat) (hseg : seg ≤ 1)
    (hv : ValidTr mode value) (hval : value < 18446744073709551616)
    (hmiss : ¬(mode = TRANSITION_MODE_SYS_TIME ∧ value < s.dcSysTime + SYS_TIME_TRANSITION_MARGIN)) :
    ∃ w, stmSegmentUpdate s seg mode value = .ok (stmReqPost s seg mode value w, NO_ERR) ∧
      s.stmSwap.set s.dcSysTime (reg s (ADDR_STM_REP0 + seg)) (reg s (ADDR_STM_FREQ_DIV0 + seg))
        (reg s (ADDR_STM_CYCLE0 + seg) + 1) seg (tmodeOf mode value) = .ok w := by
  have hm := ValidTr_lt hv
  have hc : s.ctl.size = 256 := hW.ctl
  have hWB : WF (wr (wr s ADDR_STM_REQ_RD_SEGMENT seg) ADDR_STM_TRANSITION_MODE mode) :=
    WF_wr (WF_wr hW _ _ (Or.inl (by decide))) _ _ (Or.inl (by decide))
  have hB : ∀ a, reg (wr (wr s ADDR_STM_REQ_RD_SEGMENT seg) ADDR_STM_TRANSITION_MODE mode) a =
      if a = 95 then mode else if a = 82 then seg else reg s a := by
    intro a
    simp only [reg_wr, wr_ctl, Array.size_setIfInBounds, hc, ADDR_STM_REQ_RD_SEGMENT, ADDR_STM_TRANSITION_MODE,
      Nat.mod_eq_of_lt (show mode < 65536 by omega), Nat.mod_eq_of_lt (show seg < 65536 by omega)]
    simp
  unfold stmReqPost
  generalize hsB : wr (wr s ADDR_STM_REQ_RD_SEGMENT seg) ADDR_STM_TRANSITION_MODE mode = sB at hWB hB
  have hBf : sB.flagsInternal = s.flagsInternal := by rw [← hsB]; rfl
  have hBs : sB.stmSwap = s.stmSwap := by rw [← hsB]; rfl
  have hBt : sB.dcSysTime = s.dcSysTime := by rw [← hsB]; rfl
  have hWC : WF (setCtl sB (wrWords sB.ctl ADDR_STM_TRANSITION_VALUE_0 (u64Words value))) :=
    WF_setCtl_wrWords hWB _ _ (Or.inl (by decide))
  have hC : ∀ a, reg (setCtl sB (wrWords sB.ctl ADDR_STM_TRANSITION_VALUE_0 (u64Words value))) a =
      if 96 ≤ a ∧ a < 100 then rd (u64Words value) (a - 96) % 65536 else reg sB a := by
    intro a
    rw [reg_setCtl_wrWords _ _ _ _ hWB.ctl]
    have : (u64Words value).size = 4 := rfl
    simp only [ADDR_STM_TRANSITION_VALUE_0, this]
    by_cases h : 96 ≤ a ∧ a < 100
    · rw [if_pos (by omega), if_pos h]
    · rw [if_neg (by omega), if_neg h]
  have h64 := reg64_setCtl_wrWords sB ADDR_STM_TRANSITION_VALUE_0 value (by decide) hWB.ctl hval
  generalize hsC : setCtl sB (wrWords sB.ctl ADDR_STM_TRANSITION_VALUE_0 (u64Words value)) = sC at hWC hC h64
  have hCf : sC.flagsInternal = s.flagsInternal := by rw [← hsC]; exact hBf
  have hCs : sC.stmSwap = s.stmSwap := by rw [← hsC]; exact hBs
  have hCt : sC.dcSysTime = s.dcSysTime := by rw [← hsC]; exact hBt
  have e82 : reg sC ADDR_STM_REQ_RD_SEGMENT = seg := by rw [hC, if_neg (by decide), hB]; rfl
  have e95 : reg sC ADDR_STM_TRANSITION_MODE = mode := by rw [hC, if_neg (by decide), hB]; rfl
  obtain ⟨w, hw, _⟩ := swap_set_ok sC.stmSwap hWC.stmSwap sC.dcSysTime
    (reg sC (ADDR_STM_REP0 + reg sC ADDR_STM_REQ_RD_SEGMENT))
    (reg sC (ADDR_STM_FREQ_DIV0 + reg sC ADDR_STM_REQ_RD_SEGMENT))
    (reg sC (ADDR_STM_CYCLE0 + reg sC ADDR_STM_REQ_RD_SEGMENT) + 1) (reg sC ADDR_STM_REQ_RD_SEGMENT) (tmodeOf mode value)
  have hsaw := saw_stm sC hWC.ctl hWC.flags (by rw [e82]; exact hseg) (tmodeOf mode value)
    (by rw [h64, e95]; exact decodeTMode_valid _ _ _ hv) w hw
  have er : ∀ base, 83 ≤ base → base + 1 < 95 → reg sC (base + seg) = reg s (base + seg) := by
    intro base h1 h2
    rw [hC, if_neg (by omega), hB, if_neg (by omega), if_neg (by omega)]
  rw [e82, er ADDR_STM_REP0 (by decide) (by decide), er ADDR_STM_FREQ_DIV0 (by decide) (by decide),
    er ADDR_STM_CYCLE0 (by decide) (by decide), hCs, hCt] at hw
  rw [hCf] at hsaw
  refine ⟨w, ?_, hw⟩
  unfold stmSegmentUpdate
  have hmiss' : ¬(mode = TRANSITION_MODE_SYS_TIME ∧
      value < (wr s ADDR_STM_REQ_RD_SEGMENT seg).dcSysTime + SYS_TIME_TRANSITION_MARGIN) := hmiss
  simp only [ctlWrite_main _ ADDR_STM_REQ_RD_SEGMENT _ (by decide), ok_bind, hmiss', if_false,
    ctlWrite_main _ ADDR_STM_TRANSITION_MODE _ (by decide),
    ctlWriteWords_main' _ ADDR_STM_TRANSITION_VALUE_0 (u64Words value) (by show 96 + 4 ≤ 256; decide), hsB, hsC]
  rw [hsaw]; rfl

/-- the last frame with a transition: the new swap chain is the result of `Swapchain::set` on the base's -/
theorem foci_tail_last_tr_set {s0 sH : State} {seg : Nat} {rep div ss n : Nat} {records : Array Nat} {c P m v : Nat}
    (hseg : seg ≤ 1) (hI : FociInv s0 sH seg (some (m, v)) rep div ss n records c) (d : Array Nat) (off sn flag : Nat)
    (hn : c + sn * n = P * n)
    (hP : 1 ≤ P ∧ P ≤ 65536) (hPn : P * n ≤ 65536) (hn1 : 1 ≤ n ∧ n < 256) (hc3 : c < 65536) (hwp : sn * n ≤ 4096)
    (hE : hasFlag flag FOCI_STM_FLAG_END = true) (hU : hasFlag flag FOCI_STM_FLAG_UPDATE = true)
    (hv : ValidTr m v) (hv64 : v < 18446744073709551616)
    (hmiss : ¬(m = TRANSITION_MODE_SYS_TIME ∧ v < s0.dcSysTime + SYS_TIME_TRANSITION_MARGIN))
    {sE : State} {a : Nat} (h : (fociDataPart sH d off sn >>= fun s2 => fociEndPart s2 flag seg) = .ok (sE, a)) :
    s0.stmSwap.set s0.dcSysTime rep div P seg (tmodeOf m v) = .ok sE.stmSwap := by
  obtain ⟨s2, h2, hC⟩ := fociDataPart_ok sH hI.wf d off sn seg c n hI.cursor hI.nf (by omega) (by omega) hc3 hI.wseg
    hseg hI.page hwp
  obtain ⟨hnf, hWW, hx⟩ := foci_end_state hseg hI hC hn hP hn1.1
  have htm : s2.stmTrMode = m := by rw [hC.frame.stmTrMode, hI.trMode]; rfl
  have htv : s2.stmTrValue = v := by rw [hC.frame.stmTrValue, hI.trValue]; rfl
  have htime : (wr (fociEndCpu s2 seg) (ADDR_STM_CYCLE0 + seg) ((max (s2.stmWrite / s2.numFoci) 1 - 1) % 65536)).dcSysTime =
      s0.dcSysTime := by rw [wr_dcSysTime, fociEndCpu_dcSysTime, hC.frame.dcSysTime, hI.time]
  have hsw : (wr (fociEndCpu s2 seg) (ADDR_STM_CYCLE0 + seg) ((max (s2.stmWrite / s2.numFoci) 1 - 1) % 65536)).stmSwap =
      s0.stmSwap := by rw [wr_stmSwap, fociEndCpu_stmSwap, hC.frame.stmSwap, hI.swap]
  rw [h2, ok_bind, fociEndPart_last_tr _ _ _ hseg hnf hE hU, htm, htv] at h
  generalize hsW : wr (fociEndCpu s2 seg) (ADDR_STM_CYCLE0 + seg) ((max (s2.stmWrite / s2.numFoci) 1 - 1) % 65536) = sW
    at hx hWW htime hsw h
  obtain ⟨w', hu, hset⟩ := stmSegmentUpdate_set sW hWW seg m v hseg hv hv64 (by rw [htime]; exact hmiss)
  rw [hu] at h
  have hr2 : ∀ a, a ≠ 81 → reg s2 a = reg sH a := fun a ha => hC.regs a (by simpa [ADDR_STM_MEM_WR_PAGE] using ha)
  have e1 : reg sW (ADDR_STM_REP0 + seg) = rep := by
    simp only [ADDR_STM_REP0]; rw [hx, if_neg (by omega), hr2 _ (by omega)]; exact hI.repReg
  have e2 : reg sW (ADDR_STM_FREQ_DIV0 + seg) = div := by
    simp only [ADDR_STM_FREQ_DIV0]; rw [hx, if_neg (by omega), hr2 _ (by omega)]; exact hI.divReg
  have e3 : reg sW (ADDR_STM_CYCLE0 + seg) + 1 = P := by
    simp only [ADDR_STM_CYCLE0]; rw [hx, if_pos rfl]; omega
  rw [e1, e2, e3, hsw, htime] at hset
  have hE' : sE = stmReqPost sW seg m v w' := by
    have := h; injection this with this; injection this with h1 h2; exact h1.symm
  have : (stmReqPost sW seg m v w').stmSwap = w' := by simp [stmReqPost]
  rw [hE', this]; exact hset

/-! ### one frame at any progress -/

/-- copy part + END part of the frame that carries the patterns `c … c+sn-1`, called on a state that satisfies
the invariant relative to some base `sB` which itself is `FociBase`-related to the protocol base `s0` -/
theorem foci_chunk_tail {s0 sB sH : State} {n seg : Nat} {tr : Tr} {rep div ss : Nat} {records : Array Nat}
    {P c sn c' : Nat} (H : FociOK s0 n seg tr rep div ss records P) (hbase : FociBase seg s0 sB)
    (hI : FociInv sB sH seg tr rep div ss n records (c * n)) (hc' : c' = c + sn) (hsn0 : 0 < sn) (hcP : c' ≤ P)
    (hsn77 : sn ≤ 77) (d : Array Nat) (off : Nat) (first : Bool)
    (hd : ∀ j, j < sn * n → u64at d (off + 8 * j) = rd records (c * n + j)) :
    ∃ s2, (fociDataPart sH d off sn >>= fun s2 =>
        fociEndPart s2 (fociFlagByte first (decide (P = c')) tr.isSome) seg) = .ok (s2, NO_ERR) ∧
      s2.lastMsgId = sH.lastMsgId ∧ s2.stmDiv = sH.stmDiv ∧ s2.stmSegment = sH.stmSegment ∧
      (if c' < P then FociInv s2 s2 seg tr rep div ss n records (c' * n) ∧ FociBase seg s0 s2
       else WF s2 ∧ FociHeld s0 s2 seg tr rep div ss n records P ∧
         ∀ m v, tr = some (m, v) → s0.stmSwap.set s0.dcSysTime rep div P seg (tmodeOf m v) = .ok s2.stmSwap) := by
  subst hc'
  have hPb := foci_P_bounds H
  have hn1 := H.hn
  obtain ⟨b1, b2, b3⟩ := fociFlagByte_bits first (decide (P = c + sn)) tr.isSome
  have hadd : c * n + sn * n = (c + sn) * n := (Nat.add_mul _ _ _).symm
  have hwp : sn * n ≤ 4096 := by have := Nat.mul_le_mul hsn77 hn1.2; omega
  have hcn' : c * n < 65536 := by
    have : c * n < P * n := Nat.mul_lt_mul_of_pos_right (by omega) (by omega)
    have := H.total.2; omega
  have hlatch : ∀ s' a, (fociDataPart sH d off sn >>= fun s2 =>
      fociEndPart s2 (fociFlagByte first (decide (P = c + sn)) tr.isSome) seg) = .ok (s', a) →
      s'.stmDiv = sH.stmDiv ∧ s'.stmSegment = sH.stmSegment :=
    fun s' a h => fociTail_latch sH hI.wf.ctl hI.wf.flags d off sn _ seg h
  by_cases hl : P = c + sn
  · -- the last frame
    have hnlt : ¬ c + sn < P := by omega
    have hd1 : decide (P = c + sn) = true := decide_eq_true hl
    rw [hd1] at b2 b3 hlatch ⊢
    rcases tr with _ | ⟨m, v⟩
    · obtain ⟨sE, h1, h2, h3, h4⟩ := foci_tail_last_notr H.hseg hI d off sn _ hd
        (by rw [hadd, ← hl]) hPb H.total.2 ⟨hn1.1, by omega⟩ hcn' hwp b2 (by rw [b3]; rfl)
      refine ⟨sE, h1, h4, (hlatch sE _ h1).1, (hlatch sE _ h1).2, ?_⟩
      rw [if_neg hnlt]
      exact ⟨h2, FociHeld_rebase H.hseg hbase h3, fun m v hmv => by cases hmv⟩
    · obtain ⟨hv, hv64, hmiss⟩ := H.htr m v rfl
      obtain ⟨sE, h1, h2, h3, h4⟩ := foci_tail_last_tr H.hseg hI d off sn _ hd
        (by rw [hadd, ← hl]) hPb H.total.2 ⟨hn1.1, by omega⟩ hcn' hwp b2 (by rw [b3]; rfl) hv hv64
        (by rw [hbase.time]; exact hmiss)
      have hdet := foci_tail_last_tr_set H.hseg hI d off sn _
        (by rw [hadd, ← hl]) hPb H.total.2 ⟨hn1.1, by omega⟩ hcn' hwp b2 (by rw [b3]; rfl) hv hv64
        (by rw [hbase.time]; exact hmiss) h1
      rw [hbase.swap, hbase.time] at hdet
      refine ⟨sE, h1, h4, (hlatch sE _ h1).1, (hlatch sE _ h1).2, ?_⟩
      rw [if_neg hnlt]
      refine ⟨h2, FociHeld_rebase H.hseg hbase h3, fun m' v' hmv => ?_⟩
      injection hmv with hmv
      injection hmv with e1 e2
      subst e1; subst e2
      exact hdet
  · -- more frames follow
    have hlt : c + sn < P := by omega
    have hd0 : decide (P = c + sn) = false := decide_eq_false hl
    rw [hd0] at b2 b3 hlatch ⊢
    have hlt' : (c + sn) * n < P * n := Nat.mul_lt_mul_of_pos_right hlt (by omega)
    obtain ⟨s2, h1, hI2, hlast⟩ := foci_tail_nonlast H.hseg hI d off sn _ hd (by have := H.total.2; omega) hwp b2
    rw [hadd] at hI2
    refine ⟨s2, h1, hlast, (hlatch s2 _ h1).1, (hlatch s2 _ h1).2, ?_⟩
    rw [if_pos hlt]
    exact ⟨FociInv_self hI2, hbase.step hI2⟩

/-! ### the protocol -/

/-- between the frames -/
structure FociMid (n seg : Nat) (tr : Tr) (rep div ss : Nat) (records : Array Nat) (P : Nat) (s0 s : State) (c : Nat) :
    Prop where
  ok : FociOK s0 n seg tr rep div ss records P
  inv : FociInv s s seg tr rep div ss n records (c * n)
  base : FociBase seg s0 s
  hdiv : s.stmDiv = setSel s0.stmDiv seg div
  hsegm : s.stmSegment = (if trMode tr = TRANSITION_MODE_NONE then s0.stmSegment else seg)

/-- after the last frame -/
structure FociDone (n seg : Nat) (tr : Tr) (rep div ss : Nat) (records : Array Nat) (P : Nat) (s0 s : State) : Prop where
  hseg : seg ≤ 1
  wf : WF s
  held : FociHeld s0 s seg tr rep div ss n records P
  ofoc : reg s (91 + (1 - seg)) = reg s0 (91 + (1 - seg)) ∧ reg s (93 + (1 - seg)) = reg s0 (93 + (1 - seg))
  hdiv : s.stmDiv = setSel s0.stmDiv seg div
  hsegm : s.stmSegment = (if trMode tr = TRANSITION_MODE_NONE then s0.stmSegment else seg)
  swapDet : ∀ m v, tr = some (m, v) → s0.stmSwap.set s0.dcSysTime rep div P seg (tmodeOf m v) = .ok s.stmSwap

theorem FociMid.keep {n seg : Nat} {tr : Tr} {rep div ss : Nat} {records : Array Nat} {P : Nat} {s0 s s' : State} {c : Nat}
    (h : FociMid n seg tr rep div ss records P s0 s c) (hk : KeepS s s') (hw : WF s') :
    FociMid n seg tr rep div ss records P s0 s' c :=
  ⟨h.ok, FociInv_keep h.ok.hseg h.inv hk hw, h.base.keep hk, hk.div.trans h.hdiv, hk.segment.trans h.hsegm⟩

theorem FociDone.keep {n seg : Nat} {tr : Tr} {rep div ss : Nat} {records : Array Nat} {P : Nat} {s0 s s' : State}
    (h : FociDone n seg tr rep div ss records P s0 s) (hk : KeepS s s') (hw : WF s') :
    FociDone n seg tr rep div ss records P s0 s' :=
  ⟨h.hseg, hw, FociHeld_keep h.hseg h.held hk,
    ⟨(hk.regs _ (by omega) (by have := h.hseg; omega)).trans h.ofoc.1,
     (hk.regs _ (by omega) (by have := h.hseg; omega)).trans h.ofoc.2⟩,
    hk.div.trans h.hdiv, hk.segment.trans h.hsegm, fun m v e => by rw [hk.swap]; exact h.swapDet m v e⟩

def fociProto (n seg : Nat) (tr : Tr) (rep div ss : Nat) (records : Array Nat) (P : Nat) : Proto where
  dg := .fociStm n seg tr rep div ss records
  total := P
  opAt c := { dg := .fociStm n seg tr rep div ss records, sent := c, done := decide (P = c) }
  Ready sH := WF sH ∧ FociOK sH n seg tr rep div ss records P ∧
    validateTransitionMode sH.stmSegment seg rep (trMode tr) = false ∧
    validateSilencerSettings sH div (sel sH.modDiv sH.modSegment) = false
  Mid := FociMid n seg tr rep div ss records P
  Done := FociDone n seg tr rep div ss records P
  Own := Foot eraseS TS
  OwnT := Foot eraseSI TS
  Other := KeepS

/-- the handler's footprint, from the tag and segment bytes -/
theorem foci_own (sH : State) (hW : WF sH) (d : Array Nat) (seg : Nat) (hseg : seg ≤ 1) (p0 : u8at d 0 = 66)
    (p3 : u8at d 3 = seg) {s2 : State} {a : Nat} (hh : handlePayload sH d = .ok (s2, a)) :
    Foot eraseS (TF seg) sH s2 := by
  have hf := writeFociStm_foot sH d hW.ctl hW.flags s2 a (by rw [← dispatch_foci _ _ p0]; exact hh)
  have e3 : u8at d FwLayout.FociSTMSubseq_segment_off = seg := p3
  rw [e3] at hf
  exact hf

theorem foci_ofoc {seg : Nat} (hseg : seg ≤ 1) {s0 sH s2 : State} (hb : FociBase seg s0 sH)
    (hf : Foot eraseS (TF seg) sH s2) :
    reg s2 (91 + (1 - seg)) = reg s0 (91 + (1 - seg)) ∧ reg s2 (93 + (1 - seg)) = reg s0 (93 + (1 - seg)) := by
  constructor
  · rw [hf.regs _ (by unfold TF TG; omega)]
    exact hb.regs _ (by omega) (by omega) (by omega) (by omega) (by omega) (by omega) (by omega)
  · rw [hf.regs _ (by unfold TF TG; omega)]
    exact hb.regs _ (by omega) (by omega) (by omega) (by omega) (by omega) (by omega) (by omega)

/-- the BEGIN frame packed at offset `k`, and its handler on any buffer that agrees on the packed bytes -/
theorem foci_step_first (n seg : Nat) (tr : Tr) (rep div ss : Nat) (records : Array Nat) (P : Nat)
    (hn : 1 ≤ n ∧ n ≤ 8) (hsize : records.size = P * n) (htotal : 2 ≤ P * n ∧ P * n ≤ 65536)
    (nt : Nat) (b : Array Nat) (k : Nat) (hb : b.size = 622) (hk : k + (24 + 8 * n) ≤ 622) :
    ∃ c' b' sz, ({ dg := .fociStm n seg tr rep div ss records, sent := 0, done := false } : Op).pack nt b k =
        .ok ({ dg := .fociStm n seg tr rep div ss records, sent := c', done := decide (P = c') }, b', sz) ∧
      0 < c' ∧ c' ≤ P ∧ Keeps k b b' ∧ sz % 2 = 0 ∧ 0 < sz ∧ k + sz ≤ 622 ∧
      ∀ sH, WF sH → FociOK sH n seg tr rep div ss records P →
        validateTransitionMode sH.stmSegment seg rep (trMode tr) = false →
        validateSilencerSettings sH div (sel sH.modDiv sH.modSegment) = false →
        ∀ b'', b''.size = 622 → (∀ i, k ≤ i → i < k + sz → rd b'' i = rd b' i) →
        ∃ s2, handlePayload sH (b''.extract k 622) = .ok (s2, NO_ERR) ∧ s2.lastMsgId = sH.lastMsgId ∧
          Foot eraseS TS sH s2 ∧
          (if c' < P then FociMid n seg tr rep div ss records P sH s2 c'
           else FociDone n seg tr rep div ss records P sH s2) := by
  have hP1 : 1 ≤ P := by
    rcases Nat.eq_zero_or_pos P with h | h
    · rw [h, Nat.zero_mul] at htotal; omega
    · exact h
  have hM1 : 1 ≤ (598 - k) / (8 * n) := Nat.div_pos (by omega) (by omega)
  have hpk := pack_foci_first_at n seg tr rep div ss records P nt b k hb (by omega) hn hsize htotal
  have hsnM : min P ((598 - k) / (8 * n)) ≤ (598 - k) / (8 * n) := Nat.min_le_right _ _
  have hfit := foci_fit (598 - k) n (min P ((598 - k) / (8 * n))) hsnM
  have hsn0 : 0 < min P ((598 - k) / (8 * n)) := by omega
  have hsnP : min P ((598 - k) / (8 * n)) ≤ P := Nat.min_le_left _ _
  generalize min P ((598 - k) / (8 * n)) = sn at hpk hfit hsn0 hsnP
  have hsnn : sn ≤ sn * n := Nat.le_mul_of_pos_right sn (by omega)
  have hsn77 : sn ≤ 77 := by omega
  have hkeep := pack_keeps hpk
  obtain ⟨p0, p1, p2, p3, p4, p5, p6, p8, p10, p16, pd, psz⟩ := fociFirstAt_payload b records k n sn
    (fociFlagByte true (decide (P = sn)) tr.isSome) seg (trMode tr) div rep (trValue tr) ss hb (by omega)
    (fociFlagByte_lt _ _ _)
  generalize fociFirstPayloadAt b records k n sn (fociFlagByte true (decide (P = sn)) tr.isSome) seg (trMode tr) div rep
    (trValue tr) ss = b' at hpk hkeep p0 p1 p2 p3 p4 p5 p6 p8 p10 p16 pd psz
  have hsz8 : 8 * sn * n = 8 * (sn * n) := Nat.mul_assoc _ _ _
  refine ⟨sn, b', 24 + 8 * sn * n, hpk, hsn0, hsnP, hkeep, by omega, by omega, by omega, ?_⟩
  intro sH hW H g1 g2 b'' hb'' hag
  obtain ⟨htm, htv⟩ := foci_trMode_lt H
  have a8 := u8at_agree b' b'' k (24 + 8 * sn * n) psz hb'' hag
  have a16 := u16at_agree b' b'' k (24 + 8 * sn * n) psz hb'' hag
  have a64 := u64at_agree b' b'' k (24 + 8 * sn * n) psz hb'' hag
  rw [← a8 0 (by omega)] at p0
  rw [← a8 1 (by omega)] at p1
  rw [← a8 2 (by omega), Nat.mod_eq_of_lt (show sn < 256 by omega)] at p2
  rw [← a8 3 (by omega), Nat.mod_eq_of_lt (show seg < 256 by have := H.hseg; omega)] at p3
  rw [← a8 4 (by omega), Nat.mod_eq_of_lt htm] at p4
  rw [← a8 5 (by omega), Nat.mod_eq_of_lt (show n < 256 by omega)] at p5
  rw [← a16 6 (by omega), Nat.mod_eq_of_lt H.hss] at p6
  rw [← a16 8 (by omega), Nat.mod_eq_of_lt H.hdiv.2] at p8
  rw [← a16 10 (by omega), Nat.mod_eq_of_lt H.hrep] at p10
  rw [← a64 16 (by omega), Nat.mod_eq_of_lt htv] at p16
  have pd' : ∀ j, j < sn * n → u64at (b''.extract k 622) (24 + 8 * j) = rd records (0 * n + j) := by
    intro j hj
    rw [a64 (24 + 8 * j) (by omega), pd j hj, Nat.zero_mul, Nat.zero_add]
    exact Nat.mod_eq_of_lt (H.recs _)
  generalize b''.extract k 622 = d at p0 p1 p2 p3 p4 p5 p6 p8 p10 p16 pd'
  have heq := foci_first_handle_eq sH d seg rep div (trMode tr) (trValue tr) n ss sn H.hseg (decide (P = sn)) tr.isSome
    p0 p1 p2 p3 p4 p5 p6 p8 p10 p16 g1 g2
  have hI0 : FociInv sH (fociHead sH seg rep div (trMode tr) (trValue tr) n ss) seg tr rep div ss n records (0 * n) := by
    rw [Nat.zero_mul]
    exact FociInv_head sH hW sH.lastMsgId sH.rxData seg H.hseg tr rep div ss n records H.hrep H.hdiv H.hss (by omega)
  obtain ⟨s2, h1, hlast, hdv, hsg, hpost⟩ := foci_chunk_tail H (FociBase.refl seg sH) hI0 (Nat.zero_add sn).symm hsn0 hsnP
    hsn77 d 24 true pd'
  have hh : handlePayload sH d = .ok (s2, NO_ERR) := by rw [heq]; exact h1
  have hfoot := foci_own sH hW d seg H.hseg p0 p3 hh
  have hdv' : s2.stmDiv = setSel sH.stmDiv seg div := by rw [hdv]; simp [fociHead]
  have hsg' : s2.stmSegment = (if trMode tr = TRANSITION_MODE_NONE then sH.stmSegment else seg) := by
    rw [hsg]
    have : (fociHead sH seg rep div (trMode tr) (trValue tr) n ss).stmSegment =
        if trMode tr ≠ TRANSITION_MODE_NONE then seg else sH.stmSegment := by simp [fociHead]
    rw [this]
    by_cases ht : trMode tr = TRANSITION_MODE_NONE
    · rw [if_pos ht, if_neg (by simpa using ht)]
    · rw [if_neg ht, if_pos ht]
  refine ⟨s2, hh, ?_, hfoot.mono (TF_TS seg H.hseg), ?_⟩
  · rw [hlast]; simp [fociHead]
  · by_cases hlt : sn < P
    · rw [if_pos hlt] at hpost ⊢
      exact ⟨H, hpost.1, hpost.2, hdv', hsg'⟩
    · rw [if_neg hlt] at hpost ⊢
      exact ⟨H.hseg, hpost.1, hpost.2.1, foci_ofoc H.hseg (FociBase.refl seg sH) hfoot, hdv', hsg', hpost.2.2⟩

/-- a following frame packed at offset `k`, and its handler on any buffer that agrees on the packed bytes -/
theorem foci_step_next (n seg : Nat) (tr : Tr) (rep div ss : Nat) (records : Array Nat) (P : Nat)
    (hn : 1 ≤ n ∧ n ≤ 8) (hsize : records.size = P * n) (htotal : 2 ≤ P * n ∧ P * n ≤ 65536)
    (c nt : Nat) (b : Array Nat) (k : Nat) (hc0 : 0 < c) (hcP : c < P) (hb : b.size = 622) (hk : k + (4 + 8 * n) ≤ 622) :
    ∃ c' b' sz, ({ dg := .fociStm n seg tr rep div ss records, sent := c, done := false } : Op).pack nt b k =
        .ok ({ dg := .fociStm n seg tr rep div ss records, sent := c', done := decide (P = c') }, b', sz) ∧
      c < c' ∧ c' ≤ P ∧ Keeps k b b' ∧ sz % 2 = 0 ∧ 0 < sz ∧ k + sz ≤ 622 ∧
      ∀ s0 sH, FociMid n seg tr rep div ss records P s0 sH c →
        ∀ b'', b''.size = 622 → (∀ i, k ≤ i → i < k + sz → rd b'' i = rd b' i) →
        ∃ s2, handlePayload sH (b''.extract k 622) = .ok (s2, NO_ERR) ∧ s2.lastMsgId = sH.lastMsgId ∧
          Foot eraseS TS sH s2 ∧
          (if c' < P then FociMid n seg tr rep div ss records P s0 s2 c'
           else FociDone n seg tr rep div ss records P s0 s2) := by
  have hM1 : 1 ≤ (618 - k) / (8 * n) := Nat.div_pos (by omega) (by omega)
  have hpk := pack_foci_next_at n seg tr rep div ss records P nt b c k hb (by omega) hn hsize htotal hc0
  have hsnM : min (P - c) ((618 - k) / (8 * n)) ≤ (618 - k) / (8 * n) := Nat.min_le_right _ _
  have hfit := foci_fit (618 - k) n (min (P - c) ((618 - k) / (8 * n))) hsnM
  have hsn0 : 0 < min (P - c) ((618 - k) / (8 * n)) := by omega
  have hsnP : min (P - c) ((618 - k) / (8 * n)) ≤ P - c := Nat.min_le_left _ _
  generalize min (P - c) ((618 - k) / (8 * n)) = sn at hpk hfit hsn0 hsnP
  have hsnn : sn ≤ sn * n := Nat.le_mul_of_pos_right sn (by omega)
  have hsn77 : sn ≤ 77 := by omega
  have hkeep := pack_keeps hpk
  obtain ⟨p0, p1, p2, p3, pd, psz⟩ := fociNextAt_payload b records k n c sn
    (fociFlagByte false (decide (P = c + sn)) tr.isSome) seg hb (by omega) (fociFlagByte_lt _ _ _)
  generalize fociNextPayloadAt b records k n c sn (fociFlagByte false (decide (P = c + sn)) tr.isSome) seg = b'
    at hpk hkeep p0 p1 p2 p3 pd psz
  have hsz8 : 8 * sn * n = 8 * (sn * n) := Nat.mul_assoc _ _ _
  refine ⟨c + sn, b', 4 + 8 * sn * n, hpk, by omega, by omega, hkeep, by omega, by omega, by omega, ?_⟩
  intro s0 sH hM b'' hb'' hag
  have H := hM.ok
  have a8 := u8at_agree b' b'' k (4 + 8 * sn * n) psz hb'' hag
  have a64 := u64at_agree b' b'' k (4 + 8 * sn * n) psz hb'' hag
  rw [← a8 0 (by omega)] at p0
  rw [← a8 1 (by omega)] at p1
  rw [← a8 2 (by omega), Nat.mod_eq_of_lt (show sn < 256 by omega)] at p2
  rw [← a8 3 (by omega), Nat.mod_eq_of_lt (show seg < 256 by have := H.hseg; omega)] at p3
  have pd' : ∀ j, j < sn * n → u64at (b''.extract k 622) (4 + 8 * j) = rd records (c * n + j) := by
    intro j hj
    rw [a64 (4 + 8 * j) (by omega), pd j hj]
    exact Nat.mod_eq_of_lt (H.recs _)
  generalize b''.extract k 622 = d at p0 p1 p2 p3 pd'
  have heq := foci_next_handle_eq sH d seg sn (decide (P = c + sn)) tr.isSome p0 p1 p2 p3
  obtain ⟨s2, h1, hlast, hdv, hsg, hpost⟩ := foci_chunk_tail H hM.base hM.inv rfl hsn0 (by omega) hsn77 d 4 false pd'
  have hh : handlePayload sH d = .ok (s2, NO_ERR) := by rw [heq]; exact h1
  have hfoot := foci_own sH hM.inv.wf d seg H.hseg p0 p3 hh
  refine ⟨s2, hh, hlast, hfoot.mono (TF_TS seg H.hseg), ?_⟩
  by_cases hlt : c + sn < P
  · rw [if_pos hlt] at hpost ⊢
    exact ⟨H, hpost.1, hpost.2, hdv.trans hM.hdiv, hsg.trans hM.hsegm⟩
  · rw [if_neg hlt] at hpost ⊢
    exact ⟨H.hseg, hpost.1, hpost.2.1, foci_ofoc H.hseg hM.base hfoot, hdv.trans hM.hdiv, hsg.trans hM.hsegm, hpost.2.2⟩

theorem fociProto_laws (n seg : Nat) (tr : Tr) (rep div ss : Nat) (records : Array Nat) (P : Nat)
    (hn : 1 ≤ n ∧ n ≤ 8) (hsize : records.size = P * n) (htotal : 2 ≤ P * n ∧ P * n ≤ 65536) :
    (fociProto n seg tr rep div ss records P).Laws := by
  have hP1 : 1 ≤ P := by
    rcases Nat.eq_zero_or_pos P with h | h
    · rw [h, Nat.zero_mul] at htotal; omega
    · exact h
  refine
    { op0 := ?_, total_pos := hP1, done_iff := ?_, fits := ?_, step := ?_, ready_wf := fun s h => h.1,
      mid_wf := fun s0 s c h => h.inv.wf, done_wf := fun s0 s h => h.wf,
      mid_io := fun s0 s c a l r h => h.keep (fociKeepS_io s a l r) (by wf_same h.inv.wf),
      done_io := fun s0 s a l r h => h.keep (fociKeepS_io s a l r) (by wf_same h.wf),
      mid_fin := fun s0 s c id h => h.keep (fociKeepS_fin s id) (WF_fin h.inv.wf id),
      done_fin := fun s0 s id h => h.keep (fociKeepS_fin s id) (WF_fin h.wf id),
      mid_other := fun s0 s s' c h ho hw => h.keep ho hw,
      done_other := fun s0 s s' h ho hw => h.keep ho hw,
      ownT_refl := fun s => Foot.refl _ _ s,
      ownT_trans := fun a b c h1 h2 => Foot.trans h1 h2,
      own_ownT := fun a b h => Foot.toSI h,
      io_ownT := fun s a l r => ⟨hio_SI s a l r, rfl, fun _ _ => rfl⟩,
      fin_ownT := ?_, ownT_numTr := ?_ }
  · -- op0
    show ({ dg := .fociStm n seg tr rep div ss records, sent := 0, done := decide (P = 0) } : Op) = _
    rw [show decide (P = 0) = false from decide_eq_false (by omega)]
    rfl
  · -- done_iff
    intro c hc
    show decide (P = c) = true ↔ c = P
    rw [decide_eq_true_iff]
    exact ⟨fun h => h.symm, fun h => h.symm⟩
  · -- fits
    intro c nt hc hnt
    show (if c = 0 then DrvLayout.FociSTMHead_size else DrvLayout.FociSTMSubseq_size) + 8 * n ≤ 622
    simp only [DrvLayout.FociSTMHead_size, DrvLayout.FociSTMSubseq_size]
    split <;> omega
  · -- step
    intro c nt b k hc hnt hb hk2 hk
    have hk' : k + ((if c = 0 then DrvLayout.FociSTMHead_size else DrvLayout.FociSTMSubseq_size) + 8 * n) ≤ 622 := hk
    simp only [DrvLayout.FociSTMHead_size, DrvLayout.FociSTMSubseq_size] at hk'
    have hdc : decide (P = c) = false := decide_eq_false (by show ¬ P = c; have : c < P := hc; omega)
    by_cases hc0 : c = 0
    · subst hc0
      rw [if_pos rfl] at hk'
      obtain ⟨c', b', sz, hpk, h0, hle, hkeep, hsz2, hsz0, hfit, hH⟩ :=
        foci_step_first n seg tr rep div ss records P hn hsize htotal nt b k hb hk'
      refine ⟨c', b', sz, ?_, h0, hle, hkeep, hsz2, hsz0, hfit, ?_⟩
      · show ({ dg := .fociStm n seg tr rep div ss records, sent := 0, done := decide (P = 0) } : Op).pack nt b k = _
        rw [hdc]; exact hpk
      · intro s0 sH hpre hnt' b'' hb'' hag
        have hpre' : s0 = sH ∧ (fociProto n seg tr rep div ss records P).Ready sH := by
          have := hpre; unfold Proto.Pre at this; rw [if_pos rfl] at this; exact this
        obtain ⟨hs0, hW, H, g1, g2⟩ := hpre'
        subst hs0
        obtain ⟨s2, hh, hlast, hown, hpost⟩ := hH s0 hW H g1 g2 b'' hb'' hag
        exact ⟨s2, hh, hlast, hpost, hown⟩
    · rw [if_neg hc0] at hk'
      obtain ⟨c', b', sz, hpk, h0, hle, hkeep, hsz2, hsz0, hfit, hH⟩ :=
        foci_step_next n seg tr rep div ss records P hn hsize htotal c nt b k (by omega) hc hb hk'
      refine ⟨c', b', sz, ?_, h0, hle, hkeep, hsz2, hsz0, hfit, ?_⟩
      · show ({ dg := .fociStm n seg tr rep div ss records, sent := c, done := decide (P = c) } : Op).pack nt b k = _
        rw [hdc]; exact hpk
      · intro s0 sH hpre hnt' b'' hb'' hag
        have hpre' : FociMid n seg tr rep div ss records P s0 sH c := by
          have := hpre; unfold Proto.Pre at this; rw [if_neg hc0] at this; exact this
        obtain ⟨s2, hh, hlast, hown, hpost⟩ := hH s0 sH hpre' b'' hb'' hag
        exact ⟨s2, hh, hlast, hpost, hown⟩
  · -- fin_ownT
    intro s id hc
    refine ⟨rfl, ?_, ?_⟩
    · show (s.ctl.setIfInBounds _ _).size = _; simp
    · intro a ha
      exact reg_fin s id a (by intro h; exact ha (Or.inl h))
  · -- ownT_numTr
    intro a b h
    have := congrArg State.numTr h.eq
    exact this

theorem fociProto_ready (n seg : Nat) (tr : Tr) (rep div ss : Nat) (records : Array Nat) (P : Nat) (sH : State) :
    (fociProto n seg tr rep div ss records P).Ready sH ↔ (WF sH ∧ FociOK sH n seg tr rep div ss records P ∧
      validateTransitionMode sH.stmSegment seg rep (trMode tr) = false ∧
      validateSilencerSettings sH div (sel sH.modDiv sH.modSegment) = false) := Iff.rfl

theorem fociProto_done (n seg : Nat) (tr : Tr) (rep div ss : Nat) (records : Array Nat) (P : Nat) {s0 s : State}
    (h : (fociProto n seg tr rep div ss records P).Done s0 s) :
    WF s ∧ FociHeld s0 s seg tr rep div ss n records P ∧ s.stmDiv = setSel s0.stmDiv seg div ∧
      s.stmSegment = (if trMode tr = TRANSITION_MODE_NONE then s0.stmSegment else seg) :=
  ⟨h.wf, h.held, h.hdiv, h.hsegm⟩

/-- the focus-only registers of the OTHER segment are untouched by a complete FociSTM send -/
theorem fociProto_done_other (n seg : Nat) (tr : Tr) (rep div ss : Nat) (records : Array Nat) (P : Nat) {s0 s : State}
    (h : (fociProto n seg tr rep div ss records P).Done s0 s) :
    seg ≤ 1 ∧ Obs.soundSpeed s (1 - seg) = Obs.soundSpeed s0 (1 - seg) ∧ Obs.numFoci s (1 - seg) = Obs.numFoci s0 (1 - seg) := by
  refine ⟨h.hseg, ?_, ?_⟩
  · unfold Obs.soundSpeed; simp only [ADDR_STM_SOUND_SPEED0]; exact h.ofoc.1
  · unfold Obs.numFoci; simp only [ADDR_STM_NUM_FOCI0]; rw [h.ofoc.2]

/-- with a transition, the final swap chain is THE result of `Swapchain::set` on the base's chain -/
theorem fociProto_done_swap (n seg : Nat) (tr : Tr) (rep div ss : Nat) (records : Array Nat) (P : Nat) {s0 s : State}
    (h : (fociProto n seg tr rep div ss records P).Done s0 s) :
    ∀ m v, tr = some (m, v) → s0.stmSwap.set s0.dcSysTime rep div P seg (tmodeOf m v) = .ok s.stmSwap :=
  h.swapDet

theorem fociProto_mid (n seg : Nat) (tr : Tr) (rep div ss : Nat) (records : Array Nat) (P : Nat) {s0 s : State} {c : Nat}
    (h : (fociProto n seg tr rep div ss records P).Mid s0 s c) :
    WF s ∧ s.stmDiv = setSel s0.stmDiv seg div ∧
      s.stmSegment = (if trMode tr = TRANSITION_MODE_NONE then s0.stmSegment else seg) :=
  ⟨h.inv.wf, h.hdiv, h.hsegm⟩

/-- between the frames too, the other segment's focus-only registers are as in the base -/
theorem fociProto_mid_other (n seg : Nat) (tr : Tr) (rep div ss : Nat) (records : Array Nat) (P : Nat) {s0 s : State}
    {c : Nat} (h : (fociProto n seg tr rep div ss records P).Mid s0 s c) :
    seg ≤ 1 ∧ reg s (91 + (1 - seg)) = reg s0 (91 + (1 - seg)) ∧ reg s (93 + (1 - seg)) = reg s0 (93 + (1 - seg)) := by
  have hseg := h.ok.hseg
  exact ⟨hseg, h.base.regs _ (by omega) (by omega) (by omega) (by omega) (by omega) (by omega) (by omega),
    h.base.regs _ (by omega) (by omega) (by omega) (by omega) (by omega) (by omega) (by omega)⟩

end Autd3.Tuple2
