import Autd3.Lemmas.HistTrace1
/-!
History independence (C02), trace level, part 2: `Run` (a history of legal, accepted sends), its invariant
(`run_inv`: round-trip invariant, transducer count, the stored phase correction is that of the last PhaseCorrection
datagram after the last Clear), the reference history `refHist h` (that one datagram, or nothing), the observation of
the resource a data datagram addresses (`DataObsEq`), and the comparison of a probe sent after `h` with the same
probe sent after `refHist h` (`trace_probe`).
-/
open Autd3 Autd3.Fw Autd3.Wire Autd3.Gen.Cpu Autd3.Gen Autd3.Rt
namespace Autd3.Hist

/-- the history `h` is sent from `(s, t)`: every datagram is legal on the device it reaches and every frame of it is
acknowledged; `(s', t')` is the device / transmit buffer afterwards -/
inductive Run : State → Tx → List Dg → State → Tx → Prop
  | nil (s : State) (t : Tx) : Run s t [] s t
  | cons {s : State} {t : Tx} {s1 : State} {t1 : Tx} {s' : State} {t' : Tx} {dg : Dg} {rest : List Dg}
      (legal : Legal s dg) (sends : Sends dg s t t1 s1) (tail : Run s1 t1 rest s' t') : Run s t (dg :: rest) s' t'

theorem Run.snoc {s : State} {t : Tx} {h : List Dg} {s1 : State} {t1 : Tx} (r : Run s t h s1 t1) {dg : Dg}
    {s' : State} {t' : Tx} (hL : Legal s1 dg) (hS : Sends dg s1 t1 t' s') : Run s t (h ++ [dg]) s' t' := by
  induction r with
  | nil s t => exact Run.cons hL hS (Run.nil _ _)
  | cons l sd _ ih => exact Run.cons l sd (ih hL hS)

/-- a run is a function of the start and the history -/
theorem Run.unique {s : State} {t : Tx} {h : List Dg} {s1 s2 : State} {t1 t2 : Tx} (r1 : Run s t h s1 t1)
    (r2 : Run s t h s2 t2) : s1 = s2 ∧ t1 = t2 := by
  induction r1 with
  | nil s t => cases r2; exact ⟨rfl, rfl⟩
  | cons l sd _ ih =>
    cases r2 with
    | cons l2 sd2 tl2 =>
      obtain ⟨rfl, rfl⟩ := Rt.Sends_unique sd sd2
      exact ih tl2

/-- **invariant of a history** -/
theorem run_inv {s : State} {t : Tx} {h : List Dg} {s' : State} {t' : Tx} (r : Run s t h s' t') :
    ∀ (acc : Option (Array Nat)), WF s → TxOK t → Fresh s t → Obs.phaseCorrection s = pcArr s.numTr acc →
      PcOK s.numTr acc →
      WF s' ∧ TxOK t' ∧ Fresh s' t' ∧ s'.numTr = s.numTr ∧ Obs.phaseCorrection s' = pcArr s.numTr (lastPc acc h) ∧
        PcOK s.numTr (lastPc acc h) := by
  induction r with
  | nil s t => intro acc hW hT hF hp hk; exact ⟨hW, hT, hF, rfl, hp, hk⟩
  | cons l sd _ ih =>
    intro acc hW hT hF hp hk
    obtain ⟨a, b, c, n, p, k⟩ := step_inv _ _ hW hT hF _ l _ _ sd acc hp hk
    obtain ⟨a', b', c', n', p', k'⟩ := ih (pcStep acc _) a b c (by rw [n]; exact p) (by rw [n]; exact k)
    rw [n] at p' k'
    exact ⟨a', b', c', n'.trans n, p', k'⟩

/-- the reference history: only the last PhaseCorrection datagram after the last Clear, if there is one -/
def refHist (h : List Dg) : List Dg :=
  match lastPc none h with
  | none => []
  | some b => [.phaseCorr b]

theorem lastPc_refHist (h : List Dg) : lastPc none (refHist h) = lastPc none h := by
  unfold refHist
  cases e : lastPc none h with
  | none => rfl
  | some b => rfl

/-- the power-on device: well-formed, zero phase correction, last message id 0xFF (never the id of a frame) -/
theorem new_facts (numTr now : Nat) (hn : numTr ≤ 249) (p0 : State) (hp0 : Fw.new numTr now = .ok p0) :
    WF p0 ∧ p0.numTr = numTr ∧ Obs.phaseCorrection p0 = Array.replicate numTr 0 ∧ ∀ t, Fresh p0 t := by
  obtain ⟨p, e, hw⟩ := Rt.new_WF numTr now hn
  rw [hp0] at e
  cases e
  have e2 := P02.new_eq numTr now hn
  rw [hp0] at e2
  simp only [Except.ok.injEq] at e2
  have hk := P02.clearResult_kept (P02.preClear numTr now)
  have hnum : p0.numTr = numTr := by rw [e2]; exact hk.2.2.2.2.2.2.2.2.2.2.2.1
  have hpo := P02.powerOnObs_of_cleared (P02.cleared_clearResult _ (P02.wf_preClear numTr now hn))
    (by rw [hk.2.2.2.2.2.2.2.2.2.2.2.1]; exact hn)
  refine ⟨hw, hnum, ?_, ?_⟩
  · rw [e2, hpo.phaseCorr, hk.2.2.2.2.2.2.2.2.2.2.2.1]; rfl
  · intro t
    show p0.lastMsgId ≠ nextId t
    have : p0.lastMsgId = 255 := by rw [e2, hk.2.2.2.2.2.2.2.2.2.1]; rfl
    rw [this]
    have := nextId_lt t
    omega

/-- the reference history can always be run from a well-formed device whose phase correction is zero -/
theorem refHist_runs (p0 : State) (t0 : Tx) (hW : WF p0) (hT : TxOK t0) (hF : Fresh p0 t0) (h : List Dg)
    (hk : PcOK p0.numTr (lastPc none h)) : ∃ q tq, Run p0 t0 (refHist h) q tq := by
  unfold refHist
  cases e : lastPc none h with
  | none => exact ⟨p0, t0, Run.nil _ _⟩
  | some b =>
    rw [e] at hk
    obtain ⟨t1, s1, hS, _⟩ := phaseCorr_roundtrip' p0 t0 hW hT hF b hk.1 hk.2
    exact ⟨s1, t1, Run.cons (show Legal p0 (.phaseCorr b) from hk) hS (Run.nil _ _)⟩

/-! ### the observation of the resource a data datagram addresses -/

def IsData : Dg → Bool
  | .gain .. | .modulation .. | .fociStm .. | .gainStm .. => true
  | _ => false

/-- the addressed resource reads the same on `a` and `b`: Modulation — buffer, division, loop count, size of the
segment; Gain — `drives_at(seg, 0)` and the segment header; FociSTM — `drives_at(seg, idx)` for every pattern, header,
foci count, sound speed; GainSTM — `drives_at(seg, idx)` for every pattern and the header -/
def DataObsEq (a b : State) : Dg → Prop
  | .modulation seg _ _ _ _ => modObs a seg = modObs b seg
  | .gain seg _ _ => Obs.drivesAt a seg 0 = Obs.drivesAt b seg 0 ∧ stmHdr a seg = stmHdr b seg
  | .fociStm n seg _ _ _ _ records =>
      (∀ idx, idx < records.size / n → Obs.drivesAt a seg idx = Obs.drivesAt b seg idx) ∧ stmHdr a seg = stmHdr b seg ∧
      Obs.numFoci a seg = Obs.numFoci b seg ∧ Obs.soundSpeed a seg = Obs.soundSpeed b seg
  | .gainStm _ seg _ _ _ patterns =>
      (∀ idx, idx < patterns.size → Obs.drivesAt a seg idx = Obs.drivesAt b seg idx) ∧ stmHdr a seg = stmHdr b seg
  | _ => True

/-- the same data datagram, legal on two well-formed devices with the same phase correction: both accept it, and after
every complete send the addressed resource reads the same on both -/
theorem probe_pair (d : Dg) (hd : IsData d = true) (s1 s2 : State) (t1 t2 : Tx) (w1 : WF s1) (x1 : TxOK t1)
    (f1 : Fresh s1 t1) (w2 : WF s2) (x2 : TxOK t2) (f2 : Fresh s2 t2) (l1 : Legal s1 d) (l2 : Legal s2 d)
    (hp : PhaseSame s1 s2) :
    (∃ t1' s1', Sends d s1 t1 t1' s1') ∧ (∃ t2' s2', Sends d s2 t2 t2' s2') ∧
    ∀ t1' s1' t2' s2', Sends d s1 t1 t1' s1' → Sends d s2 t2 t2' s2' → DataObsEq s1' s2' d := by
  cases d <;> simp only [IsData, Bool.false_eq_true] at hd
  case modulation seg tr rep div samples =>
    obtain ⟨e1, g1⟩ := mod_sends s1 t1 w1 x1 f1 seg tr rep div samples l1.1 l1.2.1 l1.2.2
    obtain ⟨e2, g2⟩ := mod_sends s2 t2 w2 x2 f2 seg tr rep div samples l2.1 l2.2.1 l2.2.2
    refine ⟨e1, e2, ?_⟩
    intro t1' s1' t2' s2' h1 h2
    have a := modObs_of_held (g1 _ _ h1).2.2.2.1
    have b := modObs_of_held (g2 _ _ h2).2.2.2.1
    show modObs s1' seg = modObs s2' seg
    rw [a, b]
  case gain seg tr drives =>
    obtain ⟨e1, g1⟩ := gain_sends s1 t1 w1 x1 f1 seg l1.1 tr l1.2.1 drives l1.2.2
    obtain ⟨e2, g2⟩ := gain_sends s2 t2 w2 x2 f2 seg l2.1 tr l2.2.1 drives l2.2.2
    refine ⟨e1, e2, ?_⟩
    intro t1' s1' t2' s2' h1 h2
    exact gain_pair (g1 _ _ h1).2.2.2.1 (g2 _ _ h2).2.2.2.1 hp
  case fociStm n seg tr rep div ss records =>
    obtain ⟨e1, g1⟩ := foci_sends s1 t1 w1 x1 f1 n seg tr rep div ss records _ l1.1 l1.2.1 l1.2.2
    obtain ⟨e2, g2⟩ := foci_sends s2 t2 w2 x2 f2 n seg tr rep div ss records _ l2.1 l2.2.1 l2.2.2
    refine ⟨e1, e2, ?_⟩
    intro t1' s1' t2' s2' h1 h2
    obtain ⟨v1, _, _, a, y1, _⟩ := g1 _ _ h1
    obtain ⟨v2, _, _, b, y2, _⟩ := g2 _ _ h2
    obtain ⟨c1, _, c3, _, c5, c6⟩ := foci_pair a b v1 v2 y1 y2 hp
    exact ⟨c1, c3, c5, c6⟩
  case gainStm mode seg tr rep div patterns =>
    obtain ⟨e1, g1⟩ := gstm_sends s1 t1 w1 x1 f1 mode seg tr rep div patterns l1.1 l1.2.1 l1.2.2
    obtain ⟨e2, g2⟩ := gstm_sends s2 t2 w2 x2 f2 mode seg tr rep div patterns l2.1 l2.2.1 l2.2.2
    refine ⟨e1, e2, ?_⟩
    intro t1' s1' t2' s2' h1 h2
    obtain ⟨v1, _, _, a, y1, _⟩ := g1 _ _ h1
    obtain ⟨v2, _, _, b, y2, _⟩ := g2 _ _ h2
    obtain ⟨c1, c2, _⟩ := gstm_pair a b v1 v2 y1 y2 hp
    exact ⟨c1, c2⟩

/-- **a probe after an arbitrary history** vs. the same probe after the reference history -/
theorem trace_probe (numTr now : Nat) (hn : numTr ≤ 249) (p0 : State) (hp0 : Fw.new numTr now = .ok p0) (t0 : Tx)
    (ht0 : TxOK t0) (h : List Dg) (s : State) (t : Tx) (hr : Run p0 t0 h s t) :
    ∃ q tq, Run p0 t0 (refHist h) q tq ∧ WF s ∧ TxOK t ∧ Fresh s t ∧ WF q ∧ TxOK tq ∧ Fresh q tq ∧ PhaseSame s q ∧
      s.numTr = numTr ∧ Obs.phaseCorrection s = pcArr numTr (lastPc none h) ∧
      ∀ d, IsData d = true → Legal s d → Legal q d →
        (∃ t' s', Sends d s t t' s') ∧ (∃ tq' q', Sends d q tq tq' q') ∧
        ∀ t' s' tq' q', Sends d s t t' s' → Sends d q tq tq' q' → DataObsEq s' q' d := by
  obtain ⟨hW0, hn0, hpc0, hF0⟩ := new_facts numTr now hn p0 hp0
  have hpc0' : Obs.phaseCorrection p0 = pcArr p0.numTr none := by rw [hpc0, hn0]; rfl
  obtain ⟨a, b, c, n, p, k⟩ := run_inv hr none hW0 ht0 (hF0 t0) hpc0' trivial
  obtain ⟨q, tq, hq⟩ := refHist_runs p0 t0 hW0 ht0 (hF0 t0) h k
  obtain ⟨a', b', c', n', p', _⟩ := run_inv hq none hW0 ht0 (hF0 t0) hpc0' trivial
  rw [lastPc_refHist] at p'
  have hps : PhaseSame s q := ⟨n.trans n'.symm, p.trans p'.symm⟩
  refine ⟨q, tq, hq, a, b, c, a', b', c', hps, n.trans hn0, by rw [p, hn0], ?_⟩
  intro d hd l1 l2
  exact probe_pair d hd s q t tq a b c a' b' c' l1 l2 hps

end Autd3.Hist
