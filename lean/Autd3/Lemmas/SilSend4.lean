import Autd3.Lemmas.SilSend3
import Autd3.Lemmas.HistTrace2
/-!
# C08 at the level of SENDS, part 4: refused sends, histories of complete sends

* `refused_first`: a complete send of ANY single datagram whose first frame is answered `ERR_INVALID_SILENCER_SETTING`
  (the send loop stops there) leaves the device as it was up to `ack`, `lastMsgId`, `rxData` and the two private
  cursors; in particular `Core`, `WF` and freshness of the next message id survive;
* `recv_second_refused`: the tuple case — the refused operation sits in slot 2: the device is exactly the state the
  first slot's handler produced (nothing of the refused member), up to `ack` and the cursors;
* `Sent` / `Hist`: histories of complete sends (single-frame datagrams and tuples of them, accepted or refused in any
  slot with any code; Modulation / FociSTM / GainSTM accepted; any single datagram refused by the silencer guard at
  its first frame) keep `Core`;
* `Sent1` / `Hist1`: the sub-vocabulary for which well-formedness and message-id freshness are proved to be kept as
  well, so that no hypothesis about intermediate states remains.
-/
set_option linter.unusedSimpArgs false
set_option linter.unusedVariables false
open Autd3 Autd3.Fw Autd3.Wire Autd3.Gen.Cpu Autd3.Gen Autd3.Rt Autd3.SilGuard
namespace Autd3.SilSend

theorem readFpgaState_lastMsgId (s : State) : (readFpgaState s).lastMsgId = s.lastMsgId := by
  unfold readFpgaState; split
  · rfl
  · split <;> rfl

/-- single-operation frame answered `ERR_INVALID_SILENCER_SETTING`: nothing but the header bookkeeping and the two
cursors changed, and the message id was latched -/
theorem ecatRecv_refused_single (s : State) (f : Array Nat)
    (hslot : u16at f DrvLayout.Header_slot_2_offset_off = 0) :
    SilGuard.Post (ecatRecv s f) (fun s' => s'.ack = ERR_INVALID_SILENCER_SETTING →
      SameButHeader s s' ∧ (s.lastMsgId ≠ u8at f DrvLayout.Header_msg_id_off →
        s'.lastMsgId = u8at f DrvLayout.Header_msg_id_off)) := by
  intro s' hr hack
  refine ⟨ecatRecv_rejected_single s f hslot s' hr hack, fun hne => ?_⟩
  unfold ecatRecv at hr
  simp only [hslot, ne_eq, not_true_eq_false, if_false, bind, Except.bind, pure, Except.pure, if_neg hne] at hr
  split at hr
  · cases hr; simp [ERR_INVALID_MSG_ID, ERR_INVALID_SILENCER_SETTING] at hack
  · cases hh : handlePayload (readFpgaState { s with lastMsgId := u8at f DrvLayout.Header_msg_id_off })
        (f.extract DrvLayout.Header_size f.size) with
    | error e => rw [hh] at hr; cases hr
    | ok r =>
      rw [hh] at hr
      simp only [] at hr
      split at hr
      · cases hr
        have hsame := handlePayload_rejected _ _ r hh hack
        have : r.1.lastMsgId = (readFpgaState { s with lastMsgId := u8at f DrvLayout.Header_msg_id_off }).lastMsgId := by
          unfold SameButCursors at hsame
          generalize r.1.modCycle = m at hsame
          generalize r.1.gainStmMode = g at hsame
          rw [hsame]
        show r.1.lastMsgId = _
        rw [this, readFpgaState_lastMsgId]
      · exfalso
        have hlt := SilGuard.u8at_lt f DrvLayout.Header_msg_id_off
        rename_i hm _
        unfold ctlWrite at hr
        simp only [ADDR_CTL_FLAG] at hr
        cases hr
        simp only [ERR_INVALID_SILENCER_SETTING] at hack
        rw [hack] at hm
        exact hm (by decide)

theorem sameButHeader_elim {s s' : State} (h : SameButHeader s s') :
    ∃ a l r m g, s' = { s with ack := a, lastMsgId := l, rxData := r, modCycle := m, gainStmMode := g } :=
  ⟨_, _, _, _, _, h⟩

theorem core_of_sameButHeader {s s' : State} (h : SameButHeader s s') (hc : Core s) : Core s' := by
  obtain ⟨a, l, r, m, g, e⟩ := sameButHeader_elim h
  subst e
  exact Core_congr (s := s) (show view _ = view s from rfl) hc

theorem wf_of_sameButHeader {s s' : State} (h : SameButHeader s s') (hW : WF s) : WF s' := by
  obtain ⟨a, l, r, m, g, e⟩ := sameButHeader_elim h
  subst e
  exact ⟨hW.ctl, hW.phaseCorr, hW.pwe, hW.modMem0, hW.modMem1, hW.stmMem0, hW.stmMem1, hW.numTr, hW.flags,
    hW.modSwap, hW.stmSwap, hW.modDiv0, hW.modDiv1, hW.stmDiv0, hW.stmDiv1⟩

/-- the first (only) frame of a single datagram: `pack_op2` with a null second member is `pack_op` -/
theorem packOp2_null (o1 : Op) (hnd : o1.done = false) (n : Nat) (t : Tx) (o1' o2' : Op) (t' : Tx)
    (h : packOp2 o1 (Op.ofDg .null) n t = .ok (o1', o2', t')) :
    t'.msgId = nextId t ∧ t'.slot2 = 0 ∧ t'.payload.size = t.payload.size := by
  unfold packOp2 at h
  have e2 : (Op.ofDg Dg.null).done = true := rfl
  simp only [hnd, e2] at h
  unfold packOp at h
  simp only [] at h
  cases hp : o1.pack n t.payload 0 with
  | error e => rw [hp] at h; cases h
  | ok r =>
    obtain ⟨q, b, sz⟩ := r
    rw [hp] at h
    simp only [Except.ok.injEq, Prod.mk.injEq] at h
    obtain ⟨_, _, rfl⟩ := h
    exact ⟨rfl, rfl, (Wire.pack_keeps hp).1⟩

/-- **a complete send of any single datagram that is refused with `ERR_INVALID_SILENCER_SETTING` at its first
frame changes nothing**: the device equals the one before the send in every field except `ack` (= the error code),
`lastMsgId`, `rxData` (the frame's header bookkeeping) and the two private write cursors `modCycle`, `gainStmMode`
— which no `Obs.*` accessor and no guard reads.  The invariant, well-formedness and message-id freshness survive. -/
theorem refused_first (dg : Dg) (s : State) (t t' : Tx) (s' : State) (ht : TxOK t) (hF : Fresh s t)
    (h : sendLoopR 1 (Op.ofDg dg) (Op.ofDg .null) s t = some (t', s', some ERR_INVALID_SILENCER_SETTING)) :
    SameButHeader s s' ∧ TxOK t' ∧ Fresh s' t' := by
  unfold sendLoopR at h
  have e2 : (Op.ofDg Dg.null).done = true := rfl
  by_cases hd : (Op.ofDg dg).done = true
  · simp only [hd, e2, Bool.and_self, if_true, Option.some.injEq, Prod.mk.injEq] at h
    exact absurd h.2.2 (by simp)
  · have hnd : (Op.ofDg dg).done = false := by simpa using hd
    simp only [hnd, e2, Bool.false_and, Bool.false_eq_true, if_false] at h
    cases hp : packOp2 (Op.ofDg dg) (Op.ofDg .null) s.numTr t with
    | error e => rw [hp] at h; cases h
    | ok q =>
      obtain ⟨o1', o2', t1⟩ := q
      rw [hp] at h
      simp only [] at h
      obtain ⟨hid, hslot, hsz⟩ := packOp2_null _ hnd _ _ _ _ _ hp
      cases hr : ecatRecv s t1.frame with
      | error e => rw [hr] at h; cases h
      | ok s1 =>
        rw [hr] at h
        simp only [] at h
        split at h
        · simp [sendLoopR] at h
        · split at h
          · simp only [Option.some.injEq, Prod.mk.injEq] at h
            obtain ⟨e1, e2, hack⟩ := h
            subst e1 e2
            have hs0 : u16at t1.frame DrvLayout.Header_slot_2_offset_off = 0 := by
              rw [Rt.frame_slot2, hslot]
            obtain ⟨hsame, hl⟩ := ecatRecv_refused_single s t1.frame hs0 s1 hr hack
            have hlt := nextId_lt t
            have hfid : u8at t1.frame DrvLayout.Header_msg_id_off = nextId t := by
              rw [Rt.frame_id, hid, Nat.mod_eq_of_lt (by omega)]
            have hl' : s1.lastMsgId = t1.msgId := by
              rw [hl (by rw [hfid]; exact hF), hfid, hid]
            refine ⟨hsame, by show t1.payload.size = 622; rw [hsz]; exact ht, ?_⟩
            show s1.lastMsgId ≠ nextId t1
            rw [hl']
            exact (nextId_ne t1 (by rw [hid]; exact hlt)).symm
          · cases h

/-- **the tuple case**: the refused operation is in slot 2 of a frame whose slot 1 was accepted.  `ecat_recv` returns
exactly the state `s1` that the first slot's handler produced, with `ack` = the error code and possibly the two
private cursors touched: every effect of the first member is there, NOTHING of the refused member. -/
theorem recv_second_refused (s s' s1 s2 : State) (f : Array Nat) (a1 : Nat)
    (hid : s.lastMsgId ≠ u8at f DrvLayout.Header_msg_id_off)
    (hmsb : u8at f DrvLayout.Header_msg_id_off &&& 0x80 = 0)
    (h1 : handlePayload (preState s f) (slot1 f) = .ok (s1, a1)) (ha1 : a1 &&& ERR_BIT = 0)
    (hs2 : u16at f DrvLayout.Header_slot_2_offset_off ≠ 0)
    (hin : DrvLayout.Header_size + u16at f DrvLayout.Header_slot_2_offset_off ≤ f.size)
    (h2 : handlePayload { s1 with ack := a1 } (slot2 f) = .ok (s2, ERR_INVALID_SILENCER_SETTING))
    (h : ecatRecv s f = .ok s') :
    s' = { s1 with ack := ERR_INVALID_SILENCER_SETTING, modCycle := s'.modCycle, gainStmMode := s'.gainStmMode } := by
  have hsame := handlePayload_rejected _ _ _ h2 rfl
  have e : ecatRecv s f = .ok { s2 with ack := ERR_INVALID_SILENCER_SETTING } := by
    unfold ecatRecv
    unfold preState slot1 at h1
    unfold slot2 at h2
    simp only [hid, hmsb, ↓reduceIte, ne_eq, not_true_eq_false, bind, Except.bind, pure, Except.pure]
    rw [h1]
    simp only [ha1, not_true_eq_false, if_false, hs2, not_false_eq_true, if_true]
    rw [if_neg (by omega), h2]
    simp [ERR_INVALID_SILENCER_SETTING, ERR_BIT]
  rw [e] at h
  cases h
  have hsame' : s2 = { ({ s1 with ack := a1 } : State) with modCycle := s2.modCycle, gainStmMode := s2.gainStmMode } := hsame
  show ({ s2 with ack := ERR_INVALID_SILENCER_SETTING } : State) =
    { s1 with ack := ERR_INVALID_SILENCER_SETTING, modCycle := s2.modCycle, gainStmMode := s2.gainStmMode }
  generalize s2.modCycle = m at hsame' ⊢
  generalize s2.gainStmMode = g at hsame' ⊢
  rw [hsame']

/-! ### histories of complete sends -/

/-- the integer-level side conditions of a Modulation / FociSTM / GainSTM datagram (`Legal` without the two
firmware guards, which are DERIVED from acceptance) -/
def DataOK (s : State) : Dg → Prop
  | .modulation seg tr rep div samples => ModOK s seg tr rep div samples
  | .fociStm n seg tr rep div ss records => FociOK s n seg tr rep div ss records (records.size / n)
  | .gainStm mode seg tr rep div patterns => GOK s mode seg tr rep div patterns
  | _ => False

def SmallOrNull (X : Dg) : Prop := IsSmall X = true ∨ X = .null

theorem okOp_of (X : Dg) (h : SmallOrNull X) : OkOp (Op.ofDg X) := by
  rcases h with h | h
  · exact Or.inr ⟨X, rfl, h⟩
  · subst h; exact Or.inl rfl

/-- one complete send -/
inductive Sent : State → Tx → State → Tx → Prop
  /-- a single-frame datagram (`B = .null`) or a tuple of two of them: accepted, or refused in either slot with
  any error code -/
  | small {s : State} {t : Tx} {s' : State} {t' : Tx} (A B : Dg) (hA : SmallOrNull A) (hB : SmallOrNull B)
      (r : Option Nat) (h : SendsR A B s t t' s' r) : Sent s t s' t'
  /-- a Modulation / FociSTM / GainSTM datagram, any number of frames, with or without transition, accepted;
  the device it is sent to is well formed and the message id is fresh -/
  | data {s : State} {t : Tx} {s' : State} {t' : Tx} (dg : Dg) (hd : DataOK s dg) (hW : WF s) (hF : Fresh s t)
      (h : SendsR dg .null s t t' s' none) : Sent s t s' t'
  /-- any single datagram whose first frame is refused with `ERR_INVALID_SILENCER_SETTING` -/
  | refused {s : State} {t : Tx} {s' : State} {t' : Tx} (dg : Dg) (hF : Fresh s t)
      (h : sendLoopR 1 (Op.ofDg dg) (Op.ofDg .null) s t = some (t', s', some ERR_INVALID_SILENCER_SETTING)) :
      Sent s t s' t'

theorem data_send_core {s : State} {t : Tx} {s' : State} {t' : Tx} (dg : Dg) (hd : DataOK s dg) (hW : WF s)
    (ht : TxOK t) (hF : Fresh s t) (hc : Core s) (h : SendsR dg .null s t t' s' none) :
    Core s' ∧ WF s' ∧ TxOK t' ∧ Fresh s' t' := by
  have hS := sendsR_single_accept h
  cases dg <;> simp only [DataOK] at hd
  case modulation seg tr rep div samples => exact mod_send_core s t hW ht hF hc seg tr rep div samples hd t' s' hS
  case fociStm n seg tr rep div ss records =>
    exact foci_send_core s t hW ht hF hc n seg tr rep div ss records _ hd t' s' hS
  case gainStm mode seg tr rep div patterns =>
    exact gstm_send_core s t hW ht hF hc mode seg tr rep div patterns hd t' s' hS

theorem sent_core {s : State} {t : Tx} {s' : State} {t' : Tx} (h : Sent s t s' t') (hc : Core s) (ht : TxOK t) :
    Core s' ∧ TxOK t' := by
  cases h with
  | small A B hA hB r h =>
    obtain ⟨fuel, h⟩ := h
    exact sendLoopR_core_small fuel _ _ s t t' s' r (okOp_of A hA) (okOp_of B hB) ht hc h
  | data dg hd hW hF h =>
    obtain ⟨a, _, c, _⟩ := data_send_core dg hd hW ht hF hc h
    exact ⟨a, c⟩
  | refused dg hF h =>
    obtain ⟨a, b, _⟩ := refused_first dg s t t' s' ht hF h
    exact ⟨core_of_sameButHeader a hc, b⟩

/-- a history of complete sends -/
inductive Hist : State → Tx → State → Tx → Prop
  | nil (s : State) (t : Tx) : Hist s t s t
  | cons {s : State} {t : Tx} {s1 : State} {t1 : Tx} {s' : State} {t' : Tx} (send : Sent s t s1 t1)
      (tail : Hist s1 t1 s' t') : Hist s t s' t'

theorem hist_core {s : State} {t : Tx} {s' : State} {t' : Tx} (h : Hist s t s' t') :
    Core s → TxOK t → Core s' ∧ TxOK t' := by
  induction h with
  | nil s t => exact fun a b => ⟨a, b⟩
  | cons send _ ih =>
    intro hc ht
    obtain ⟨a, b⟩ := sent_core send hc ht
    exact ih a b

/-! ### the sub-vocabulary that needs no hypothesis about intermediate states -/

open Autd3.Hist in
/-- a legal datagram that was accepted leaves a well-formed device, a 622-byte buffer and a fresh message id -/
theorem legal_good (s : State) (t : Tx) (hW : WF s) (hT : TxOK t) (hF : Fresh s t) (dg : Dg) (hL : Legal s dg)
    (t' : Tx) (s' : State) (h : Sends dg s t t' s') : WF s' ∧ TxOK t' ∧ Fresh s' t' := by
  have fin : ∀ {t0 : Tx} {s0 : State}, Sends dg s t t0 s0 → WF s0 → TxOK t0 → Fresh s0 t0 →
      WF s' ∧ TxOK t' ∧ Fresh s' t' := by
    intro t0 s0 hS a b c
    obtain ⟨rfl, rfl⟩ := Rt.Sends_unique hS h
    exact ⟨a, b, c⟩
  cases dg with
  | clear => obtain ⟨t0, s0, hS, a, b, c, _⟩ := clear_roundtrip s t hW hT hF; exact fin hS a b c
  | sync => obtain ⟨t0, s0, hS, a, b, c, _⟩ := sync_roundtrip s t hW hT hF; exact fin hS a b c
  | null => obtain ⟨rfl, rfl⟩ := sends_null s t t' s' h; exact ⟨hW, hT, hF⟩
  | forceFan v => obtain ⟨t0, s0, hS, a, b, c, _⟩ := forceFan_roundtrip' s t v hW hT hF; exact fin hS a b c
  | readsFpgaState v => obtain ⟨t0, s0, hS, a, b, c, _⟩ := readsFpgaState_roundtrip' s t hW hT hF v; exact fin hS a b c
  | cpuGpioOut v => obtain ⟨t0, s0, hS, a, b, c, _⟩ := cpuGpioOut_roundtrip' s t hW hT hF v hL; exact fin hS a b c
  | gpioIn f => obtain ⟨t0, s0, hS, a, b, c, _⟩ := gpioIn_roundtrip' s t hW hT hF f hL; exact fin hS a b c
  | debug vals => obtain ⟨t0, s0, hS, a, b, c, _⟩ := debug_roundtrip' s t hW hT hF vals hL; exact fin hS a b c
  | phaseCorr bytes =>
    obtain ⟨t0, s0, hS, a, b, c, _⟩ := phaseCorr_roundtrip' s t hW hT hF bytes hL.1 hL.2; exact fin hS a b c
  | pwe table => obtain ⟨t0, s0, hS, a, b, c, _⟩ := pwe_roundtrip' s t hW hT hF table hL.1 hL.2; exact fin hS a b c
  | silencerSteps i p strict =>
    obtain ⟨t0, s0, hS, a, b, c, _⟩ := silencerSteps_roundtrip' s t hW hT hF i p strict hL.1 hL.2.1 hL.2.2
    exact fin hS a b c
  | silencerRate i p =>
    obtain ⟨t0, s0, hS, a, b, c, _⟩ := silencerRate_roundtrip' s t hW hT hF i p hL.1 hL.2; exact fin hS a b c
  | gain seg tr drives =>
    obtain ⟨⟨t0, s0, hS⟩, f⟩ := gain_sends s t hW hT hF seg hL.1 tr hL.2.1 drives hL.2.2
    obtain ⟨a, b, c, _⟩ := f _ _ hS
    exact fin hS a b c
  | modulation seg tr rep div samples =>
    obtain ⟨⟨t0, s0, hS⟩, f⟩ := mod_sends s t hW hT hF seg tr rep div samples hL.1 hL.2.1 hL.2.2
    obtain ⟨a, b, c, _⟩ := f _ _ hS
    exact fin hS a b c
  | fociStm n seg tr rep div ss records =>
    obtain ⟨⟨t0, s0, hS⟩, f⟩ := foci_sends s t hW hT hF n seg tr rep div ss records _ hL.1 hL.2.1 hL.2.2
    obtain ⟨a, b, c, _⟩ := f _ _ hS
    exact fin hS a b c
  | gainStm mode seg tr rep div patterns =>
    obtain ⟨⟨t0, s0, hS⟩, f⟩ := gstm_sends s t hW hT hF mode seg tr rep div patterns hL.1 hL.2.1 hL.2.2
    obtain ⟨a, b, c, _⟩ := f _ _ hS
    exact fin hS a b c
  | swapGain seg mode value =>
    obtain ⟨rfl, hseg, g0, g2⟩ := hL
    obtain ⟨t0, s0, hS, a, b, c, _⟩ := swapGain_roundtrip' s t hW hT hF seg value hseg g0 g2
    exact fin hS a b c
  | swapMod seg mode value =>
    obtain ⟨hseg, hv, hval, g1, g2, hm⟩ := hL
    obtain ⟨t0, s0, hS, a, b, c, _⟩ := swapMod_roundtrip' s t hW hT hF seg mode value hseg hv hval g1 g2 hm
    exact fin hS a b c
  | swapFoci seg mode value =>
    obtain ⟨hseg, hv, hval, g0, g1, g2, hm⟩ := hL
    obtain ⟨t0, s0, hS, a, b, c, _⟩ := swapFoci_roundtrip' s t hW hT hF seg mode value hseg hv hval g0 g1 g2 hm
    exact fin hS a b c
  | swapGainStm seg mode value =>
    obtain ⟨hseg, hv, hval, g0, g1, g2, hm⟩ := hL
    obtain ⟨t0, s0, hS, a, b, c, _⟩ := swapGainStm_roundtrip' s t hW hT hF seg mode value hseg hv hval g0 g1 g2 hm
    exact fin hS a b c
  | firmInfo ty => exact hL.elim

/-- one complete send of the vocabulary of `Hist.Run`, extended by refusals -/
inductive Sent1 : State → Tx → State → Tx → Prop
  /-- any datagram the SDK can build that passes the firmware guards where it is sent (`Hist.Legal`: all 20 kinds),
  sent completely and acknowledged frame by frame -/
  | accepted {s : State} {t : Tx} {s' : State} {t' : Tx} (dg : Dg) (hL : Hist.Legal s dg)
      (h : SendsR dg .null s t t' s' none) : Sent1 s t s' t'
  /-- ANY single datagram whose first frame is refused with `ERR_INVALID_SILENCER_SETTING` (the send stops) -/
  | refused {s : State} {t : Tx} {s' : State} {t' : Tx} (dg : Dg)
      (h : sendLoopR 1 (Op.ofDg dg) (Op.ofDg .null) s t = some (t', s', some ERR_INVALID_SILENCER_SETTING)) :
      Sent1 s t s' t'

theorem legal_shape (s : State) (dg : Dg) (hL : Hist.Legal s dg) : SmallOrNull dg ∨ DataOK s dg := by
  cases dg <;> first
    | exact Or.inl (Or.inl rfl)
    | exact Or.inl (Or.inr rfl)
    | exact Or.inr hL.1
    | exact hL.elim

/-- the invariant of `Hist1`: `Core`, well-formedness, buffer size, fresh message id -/
theorem sent1_good {s : State} {t : Tx} {s' : State} {t' : Tx} (h : Sent1 s t s' t') (hc : Core s) (hW : WF s)
    (ht : TxOK t) (hF : Fresh s t) : Sent s t s' t' ∧ Core s' ∧ WF s' ∧ TxOK t' ∧ Fresh s' t' := by
  cases h with
  | accepted dg hL h =>
    obtain ⟨a, b, c⟩ := legal_good s t hW ht hF dg hL t' s' (sendsR_single_accept h)
    have hS : Sent s t s' t' := by
      rcases legal_shape s dg hL with k | k
      · exact Sent.small dg .null k (Or.inr rfl) none h
      · exact Sent.data dg k hW hF h
    exact ⟨hS, (sent_core hS hc ht).1, a, b, c⟩
  | refused dg h =>
    obtain ⟨a, b, c⟩ := refused_first dg s t t' s' ht hF h
    exact ⟨Sent.refused dg hF h, core_of_sameButHeader a hc, wf_of_sameButHeader a hW, b, c⟩

inductive Hist1 : State → Tx → State → Tx → Prop
  | nil (s : State) (t : Tx) : Hist1 s t s t
  | cons {s : State} {t : Tx} {s1 : State} {t1 : Tx} {s' : State} {t' : Tx} (send : Sent1 s t s1 t1)
      (tail : Hist1 s1 t1 s' t') : Hist1 s t s' t'

theorem hist1_good {s : State} {t : Tx} {s' : State} {t' : Tx} (h : Hist1 s t s' t') :
    Core s → WF s → TxOK t → Fresh s t → Hist s t s' t' ∧ Core s' ∧ WF s' ∧ TxOK t' ∧ Fresh s' t' := by
  induction h with
  | nil s t => exact fun a b c d => ⟨Hist.nil s t, a, b, c, d⟩
  | cons send _ ih =>
    intro hc hW ht hF
    obtain ⟨hS, a, b, c, d⟩ := sent1_good send hc hW ht hF
    obtain ⟨hH, r⟩ := ih a b c d
    exact ⟨Hist.cons hS hH, r⟩

/-- the power-on device satisfies everything the histories need -/
theorem new_good (numTr now : Nat) (hn : numTr ≤ 249) (p0 : State) (hp0 : Fw.new numTr now = .ok p0) :
    Core p0 ∧ WF p0 ∧ ∀ t, Fresh p0 t := by
  obtain ⟨hW, _, _, hF⟩ := Hist.new_facts numTr now hn p0 hp0
  exact ⟨(new_inv numTr now p0 hp0).core, hW, hF⟩

end Autd3.SilSend
