import Autd3.Lemmas.FwSafe
/-!
Safety of `write_gain` (C19): stepwise symbolic execution.  NOTE (kernel cost): programs that contain the bulk
writes are never unfolded with `simp only [bind, Except.bind]` (the kernel would validate those definitional
steps by *running* the 249-word loops); `ok_bind`/`pure_eq_ok` are used as rewrite rules instead.
-/
set_option linter.unusedSimpArgs false
set_option linter.unusedVariables false
namespace Autd3.Fw
open Autd3.Gen.Cpu
open Autd3.Gen

/-- the register facts of `FwWF` in raw form (`rd s.ctl literal`) -/
theorem FwWF.raw {s : State} (h : FwWF s) :
    1 ≤ rd s.ctl 37 ∧ 1 ≤ rd s.ctl 38 ∧ 1 ≤ rd s.ctl 85 ∧ 1 ≤ rd s.ctl 86 ∧
    rd s.ctl 39 = s.modRep.1 ∧ rd s.ctl 40 = s.modRep.2 ∧ rd s.ctl 87 = s.stmRep.1 ∧ rd s.ctl 88 = s.stmRep.2 :=
  ⟨h.modFd0, h.modFd1, h.stmFd0, h.stmFd1, h.modRep0, h.modRep1, h.stmRep0, h.stmRep1⟩

/-- proves `FwWF X` for an explicit state `X` built from `s` by register writes at literal addresses and
CPU-field updates, given `h : FwWF s` -/
macro "fwwf_tac" h:ident : tactic => `(tactic|
  (have hraw := FwWF.raw $h
   have hsz := ($h).shape.ctl
   obtain ⟨r1, r2, r3, r4, r5, r6, r7, r8⟩ := hraw
   refine ⟨($h).shape.transfer (by simp) rfl rfl rfl rfl rfl rfl rfl, ($h).flags, ?_, ?_, ?_, ?_, ?_, ?_, ?_, ?_,
     ($h).modSwap, ($h).stmSwap⟩ <;>
   simp [reg, rd_set, setSel, ADDR_MOD_FREQ_DIV0, ADDR_MOD_FREQ_DIV1, ADDR_STM_FREQ_DIV0, ADDR_STM_FREQ_DIV1,
       ADDR_MOD_REP0, ADDR_MOD_REP1, ADDR_STM_REP0, ADDR_STM_REP1, hsz, r1, r2, r3, r4, r5, r6, r7, r8]))

theorem ok_bind {α β : Type} (a : α) (f : α → M β) : (Except.ok a >>= f) = f a := id rfl
theorem pure_eq_ok {α : Type} (a : α) : (pure a : M α) = Except.ok a := id rfl

/-- the request issued by `write_gain`/`change_gain_segment`: `REQ_RD_SEGMENT := seg`, mode `SyncIdx`
(continuation-passing form, for rewriting inside a handler) -/
theorem gain_request_safe (s : State) (seg : Nat) (h : FwWF s) (hseg : seg ≤ 1)
    (hidle : s.stmSwap.state ≠ .waitStart) :
    ∃ s', FwWF s' ∧ ∀ (k : State → M (State × Nat)), (do
      let s ← ctlWrite s ADDR_STM_REQ_RD_SEGMENT seg
      let s ← ctlWrite s ADDR_STM_TRANSITION_MODE TRANSITION_MODE_SYNC_IDX
      let s ← setAndWaitUpdate s CTL_FLAG_STM_SET
      k s) = k s' := by
  have hsz := h.shape.ctl
  simp only [ADDR_STM_REQ_RD_SEGMENT, ADDR_STM_TRANSITION_MODE, TRANSITION_MODE_SYNC_IDX,
    ctlWrite_main _ _ _ (by decide : 82 < 256), ctlWrite_main _ _ _ (by decide : 95 < 256), ok_bind]
  generalize hX : State.mk _ _ _ _ _ _ _ _ _ _ _ _ _ _ _ _ _ _ _ _ _ _ _ _ _ _ _ _ _ _ _ _ _ _ _ _ _ _ _ = X
  have c0 : SameWF s X := by subst hX; same_wf_tac
  have h0 : FwWF X := h.transfer' c0 (by subst hX; exact h.shape.transfer (by simp) rfl rfl rfl rfl rfl rfl rfl)
    (by subst hX; exact h.flags)
  obtain ⟨s', w, e, wf, _⟩ := stm_request_ok X h0 seg .syncIdx
    (by subst hX; simp [reg, rd_set, ADDR_STM_REQ_RD_SEGMENT, hsz]; omega) hseg
    (by subst hX; simp [reg, rd_set, ADDR_STM_TRANSITION_MODE, hsz, decode_syncIdx])
    (by intro hw; cases hw)
    (by rw [c0.stmSwap]; intro hw; exact absurd hw hidle)
  refine ⟨s', wf, fun k => ?_⟩
  rw [e, ok_bind]


/-- result of a bulk STM write followed by the state being well formed again -/
theorem stmWriteWords_wf (X : State) (base : Nat) (words : Array Nat) (h0 : FwWF X)
    (hseg : reg X ADDR_STM_MEM_WR_SEGMENT ≤ 1)
    (h1 : base % 16384 + words.size ≤ 16384)
    (h2 : reg X ADDR_STM_MEM_WR_PAGE * 16384 + base % 16384 + words.size ≤ 262144) :
    ∃ Z, stmWriteWords X base words = .ok Z ∧ FwWF Z ∧ Z.ctl = X.ctl ∧ Z.stmSwap = X.stmSwap ∧
      Z.modSwap = X.modSwap ∧
      Z = { X with stmMem0 := Z.stmMem0, stmMem1 := Z.stmMem1 } := by
  obtain ⟨m0, m1, e, z0, z1⟩ := stmWriteWords_ok X base words h0.shape hseg h1 h2
  refine ⟨_, e, h0.transfer' ⟨fun _ _ => rfl, rfl, rfl, rfl, rfl⟩
    (h0.shape.transfer rfl rfl rfl rfl rfl (by simp [z0, h0.shape.stmMem0]) (by simp [z1, h0.shape.stmMem1]) rfl)
    h0.flags, rfl, rfl, rfl, rfl⟩


theorem writeGain_safe (s : State) (d : Array Nat) (h : FwWF s) (hst : Settled s)
    (hseg : u8at d FwLayout.Gain_segment_off ≤ 1) :
    ∃ s' ack, writeGain s d = .ok (s', ack) ∧ FwWF s' := by
  unfold writeGain
  generalize u8at d FwLayout.Gain_segment_off = seg at hseg
  generalize u8at d FwLayout.Gain_flag_off = flag
  have hsz := h.shape.ctl
  simp only []
  rw [if_neg (by omega)]
  have hs : seg = 0 ∨ seg = 1 := by omega
  rcases hs with rfl | rfl
  all_goals
    simp only [ADDR_STM_FREQ_DIV0, ADDR_STM_REP0, ADDR_STM_CYCLE0, ADDR_STM_MODE0, ADDR_STM_MEM_WR_SEGMENT,
      ADDR_STM_MEM_WR_PAGE, Nat.add_zero, Nat.reduceAdd,
      ctlWrite_main _ _ _ (by decide : 85 < 256), ctlWrite_main _ _ _ (by decide : 87 < 256),
      ctlWrite_main _ _ _ (by decide : 83 < 256), ctlWrite_main _ _ _ (by decide : 89 < 256),
      ctlWrite_main _ _ _ (by decide : 86 < 256), ctlWrite_main _ _ _ (by decide : 88 < 256),
      ctlWrite_main _ _ _ (by decide : 84 < 256), ctlWrite_main _ _ _ (by decide : 90 < 256),
      ctlWrite_main _ _ _ (by decide : 80 < 256), ctlWrite_main _ _ _ (by decide : 81 < 256),
      ok_bind, pure_eq_ok]
    cases hu : hasFlag flag GAIN_FLAG_UPDATE
    · simp only [Bool.false_eq_true, if_false]
      generalize hX : State.mk _ _ _ _ _ _ _ _ _ _ _ _ _ _ _ _ _ _ _ _ _ _ _ _ _ _ _ _ _ _ _ _ _ _ _ _ _ _ _ = X
      have h0 : FwWF X := by subst hX; fwwf_tac h
      obtain ⟨Z, e, wfZ, _⟩ := stmWriteWords_wf X 0 (wordsAt d FwLayout.Gain_size s.numTr) h0
        (by subst hX; simp [reg, rd_set, ADDR_STM_MEM_WR_SEGMENT, hsz])
        (by rw [wordsAt_size]; have := h.shape.numTr; omega)
        (by subst hX; simp [reg, rd_set, ADDR_STM_MEM_WR_PAGE, hsz, wordsAt_size]; have := h.shape.numTr; omega)
      rw [e, ok_bind]
      exact ⟨_, _, rfl, wfZ⟩
    · simp only [if_true]
      generalize hX : State.mk _ _ _ _ _ _ _ _ _ _ _ _ _ _ _ _ _ _ _ _ _ _ _ _ _ _ _ _ _ _ _ _ _ _ _ _ _ _ _ = X
      have h0 : FwWF X := by subst hX; fwwf_tac h
      have hXswap : X.stmSwap = s.stmSwap := by subst hX; rfl
      obtain ⟨Z, e, wfZ, _, hZswap, _⟩ := stmWriteWords_wf X 0 (wordsAt d FwLayout.Gain_size s.numTr) h0
        (by subst hX; simp [reg, rd_set, ADDR_STM_MEM_WR_SEGMENT, hsz])
        (by rw [wordsAt_size]; have := h.shape.numTr; omega)
        (by subst hX; simp [reg, rd_set, ADDR_STM_MEM_WR_PAGE, hsz, wordsAt_size]; have := h.shape.numTr; omega)
      rw [e, ok_bind]
      first
      | (obtain ⟨s', wf, e2⟩ := gain_request_safe Z 0 wfZ (by omega)
            (by rw [hZswap, hXswap]; exact hst.stmIdle)
         rw [e2]
         exact ⟨_, _, rfl, wf⟩)
      | (obtain ⟨s', wf, e2⟩ := gain_request_safe Z 1 wfZ (by omega)
            (by rw [hZswap, hXswap]; exact hst.stmIdle)
         rw [e2]
         exact ⟨_, _, rfl, wf⟩)

end Autd3.Fw
