import Autd3.Model.GainWrap
namespace Autd3.GainWrap

/-! ### `mapE` -/

theorem mapE_ok_of_forall {α β ε : Type} {f : α → Except ε β} (g : α → β) :
    ∀ (l : List α), (∀ a ∈ l, f a = .ok (g a)) → mapE f l = .ok (l.map g)
  | [], _ => rfl
  | a :: as, h => by
    have h1 := h a (by simp)
    have h2 := mapE_ok_of_forall g as (fun x hx => h x (by simp [hx]))
    simp [mapE, h1, h2]

theorem mapE_ok_inv {α β ε : Type} {f : α → Except ε β} :
    ∀ (l : List α) (bs : List β), mapE f l = .ok bs →
      bs.length = l.length ∧ ∀ (i : Nat) (a : α), l[i]? = some a → ∃ b, bs[i]? = some b ∧ f a = .ok b
  | [], bs, h => by simp [mapE] at h; subst h; simp
  | a :: as, bs, h => by
    unfold mapE at h
    split at h
    · simp at h
    · rename_i b hb
      split at h
      · simp at h
      · rename_i bs' hbs
        simp at h; subst h
        have ih := mapE_ok_inv as bs' hbs
        refine ⟨by simp [ih.1], ?_⟩
        intro i x hi
        cases i with
        | zero => simp at hi; subst hi; exact ⟨b, by simp, hb⟩
        | succ j => simp at hi; simpa using ih.2 j x hi

theorem mapE_error_inv {α β ε : Type} {f : α → Except ε β} :
    ∀ (l : List α) (e : ε), mapE f l = .error e → ∃ a ∈ l, f a = .error e
  | [], e, h => by simp [mapE] at h
  | a :: as, e, h => by
    unfold mapE at h
    split at h
    · rename_i e' he; simp at h; subst h; exact ⟨a, by simp, he⟩
    · split at h
      · rename_i e' he; simp at h; subst h
        obtain ⟨x, hx, hfx⟩ := mapE_error_inv as _ he
        exact ⟨x, by simp [hx], hfx⟩
      · simp at h

/-! ### association lists -/

theorem lookup_map_of_mem {α β : Type} (key : α → Nat) (val : α → β) :
    ∀ (l : List α) (a : α), a ∈ l → (l.map key).Nodup →
      (l.map fun x => (key x, val x)).lookup (key a) = some (val a)
  | [], a, h, _ => by simp at h
  | x :: xs, a, h, hn => by
    simp only [List.map_cons, List.nodup_cons] at hn
    simp only [List.map_cons, List.lookup_cons]
    rcases List.mem_cons.mp h with rfl | h'
    · simp
    · have hne : key a ≠ key x := by
        intro he; apply hn.1; rw [← he]; exact List.mem_map_of_mem h'
      have : (key a == key x) = false := by simp [hne]
      rw [this]; exact lookup_map_of_mem key val xs a h' hn.2

theorem lookup_map_none {α β : Type} (key : α → Nat) (val : α → β) (l : List α) (k : Nat)
    (h : ∀ a ∈ l, key a ≠ k) : (l.map fun x => (key x, val x)).lookup k = none := by
  induction l with
  | nil => rfl
  | cons x xs ih =>
    have hx : (k == key x) = false := by
      have := h x (by simp); simp; exact fun e => this e.symm
    simp only [List.map_cons, List.lookup_cons, hx]
    exact ih (fun a ha => h a (by simp [ha]))

theorem hasKey_iff_lookup {α : Type} (m : List (Nat × α)) (k : Nat) :
    hasKey m k = (m.lookup k).isSome := by
  induction m with
  | nil => rfl
  | cons p ps ih =>
    obtain ⟨k', v⟩ := p
    simp only [hasKey, List.any_cons, List.lookup_cons] at ih ⊢
    by_cases h : k' = k
    · subst h; simp
    · have h1 : (k' == k) = false := by simp [h]
      have h2 : (k == k') = false := by simp; exact fun e => h e.symm
      simp [h1, h2]; simpa [hasKey] using ih


theorem lookup_asetEx {α : Type} (m : List (Nat × α)) (k : Nat) (v : α) (k' : Nat) :
    (asetEx m k v).lookup k' = if k' = k then (m.lookup k).map (fun _ => v) else m.lookup k' := by
  induction m with
  | nil => simp [asetEx]
  | cons p ps ih =>
    obtain ⟨a, b⟩ := p
    unfold asetEx at ih ⊢
    simp only [List.map_cons, List.lookup_cons]
    grind

theorem keys_asetEx {α : Type} (m : List (Nat × α)) (k : Nat) (v : α) :
    (asetEx m k v).map (·.1) = m.map (·.1) := by
  induction m with
  | nil => rfl
  | cons p ps ih =>
    obtain ⟨a, b⟩ := p
    unfold asetEx at ih ⊢
    simp only [List.map_cons]
    grind

theorem lookup_append_single {α : Type} (m : List (Nat × α)) (k : Nat) (v : α) (k' : Nat) :
    (m ++ [(k, v)]).lookup k' = match m.lookup k' with
      | some x => some x
      | none => if k' = k then some v else none := by
  rw [List.lookup_append]
  cases h : m.lookup k' with
  | some x => simp
  | none =>
    by_cases e : k' = k
    · subst e; simp
    · have : (k' == k) = false := by simp [e]
      simp [List.lookup_cons, this, e]

theorem lookup_none_not_mem {α : Type} (m : List (Nat × α)) (k : Nat) (h : m.lookup k = none) :
    k ∉ m.map (·.1) := by
  induction m with
  | nil => simp
  | cons p ps ih =>
    obtain ⟨a, b⟩ := p
    simp only [List.lookup_cons] at h
    by_cases e : k = a
    · subst e; simp at h
    · have : (k == a) = false := by simp [e]
      simp only [this] at h
      simp only [List.map_cons, List.mem_cons, not_or]
      exact ⟨e, ih h⟩

theorem lookup_some_mem {α : Type} (m : List (Nat × α)) (k : Nat) (v : α) (h : m.lookup k = some v) :
    (k, v) ∈ m := by
  induction m with
  | nil => simp at h
  | cons p ps ih =>
    obtain ⟨a, b⟩ := p
    simp only [List.lookup_cons] at h
    by_cases e : k = a
    · subst e; simp at h; subst h; simp
    · have : (k == a) = false := by simp [e]
      simp only [this] at h
      exact List.mem_cons_of_mem _ (ih h)

theorem lookup_of_mem_nodup {α : Type} (m : List (Nat × α)) (k : Nat) (v : α)
    (hn : (m.map (·.1)).Nodup) (h : (k, v) ∈ m) : m.lookup k = some v := by
  induction m with
  | nil => simp at h
  | cons p ps ih =>
    obtain ⟨a, b⟩ := p
    simp only [List.map_cons, List.nodup_cons] at hn
    simp only [List.lookup_cons]
    rcases List.mem_cons.mp h with e | h'
    · cases e; simp
    · have : k ≠ a := by
        intro e; subst e; exact hn.1 (List.mem_map_of_mem (f := (·.1)) h')
      have : (k == a) = false := by simp [this]
      simp only [this]; exact ih hn.2 h'


/-! ### geometry -/

theorem Geo.devices_idx_nodup {g : Geo} (h : g.WF) : (g.devices.map (·.idx)).Nodup := by
  have h1 : (g.map (·.idx)).Nodup := by rw [h]; exact List.nodup_range
  exact List.Nodup.sublist (List.Sublist.map _ List.filter_sublist) h1

theorem Geo.idx_nodup {g : Geo} (h : g.WF) : (g.map (·.idx)).Nodup := by
  rw [h]; exact List.nodup_range

theorem Geo.mem_devices {g : Geo} {d : Dev} : d ∈ g.devices ↔ d ∈ g ∧ d.enable = true := by
  simp [Geo.devices, List.mem_filter]

/-- two devices of a well-formed geometry with the same index are the same device -/
theorem Geo.eq_of_idx {g : Geo} (h : g.WF) {a b : Dev} (ha : a ∈ g) (hb : b ∈ g) (e : a.idx = b.idx) : a = b := by
  have hn := Geo.idx_nodup h
  clear h
  induction g with
  | nil => simp at ha
  | cons x xs ih =>
    simp only [List.map_cons, List.nodup_cons] at hn
    rcases List.mem_cons.mp ha with rfl | ha' <;> rcases List.mem_cons.mp hb with rfl | hb'
    · rfl
    · exfalso; apply hn.1; rw [e]; exact List.mem_map_of_mem hb'
    · exfalso; apply hn.1; rw [← e]; exact List.mem_map_of_mem ha'
    · exact ih ha' hb' hn.2

end Autd3.GainWrap
