import Autd3.Lemmas.FwTraceMod
import Autd3.Lemmas.FwTraceFoci
import Autd3.Lemmas.FwTraceGainStm
import Autd3.Lemmas.FwTraceClear
import Autd3.Lemmas.FwTraceRun
/-!
C19 trace layer: dispatch (`handle_payload`), `ecat_recv`, traces.
-/
set_option linter.unusedSimpArgs false
set_option linter.unusedVariables false
namespace Autd3.Fw
open Autd3.Gen.Cpu
open Autd3.Gen
open Autd3.Obs

/-- **alphabet**: the payload `d` is one the SDK's packers can produce for a device in state `s` (per tag; no
condition on configuration tags, Clear and unknown tags) -/
structure PayloadOK (s : State) (d : Array Nat) : Prop where
  gain : u8at d 0 = 48 → GainOK d
  gainSwap : u8at d 0 = 49 → u8at d FwLayout.GainUpdate_segment_off ≤ 1
  modSwap : u8at d 0 = 17 → SwapOK (u8at d FwLayout.ModulationUpdate_segment_off)
    (u8at d FwLayout.ModulationUpdate_transition_mode_off) (u64at d FwLayout.ModulationUpdate_transition_value_off)
  fociSwap : u8at d 0 = 68 → SwapOK (u8at d FwLayout.FociSTMUpdate_segment_off)
    (u8at d FwLayout.FociSTMUpdate_transition_mode_off) (u64at d FwLayout.FociSTMUpdate_transition_value_off)
  gainStmSwap : u8at d 0 = 67 → SwapOK (u8at d FwLayout.GainSTMUpdate_segment_off)
    (u8at d FwLayout.GainSTMUpdate_transition_mode_off) (u64at d FwLayout.GainSTMUpdate_transition_value_off)
  mod : u8at d 0 = 16 → ModOK s d
  foci : u8at d 0 = 66 → FociOK s d
  gainStm : u8at d 0 = 65 → GainStmOK s d

/-- **finding exclusions** for the payload `d` in state `s`: the `SetGuard` (F15, F18) of every `Swapchain::set` it
can trigger and the F17 condition of a FociSTM BEGIN frame -/
structure PayloadExcl (s : State) (d : Array Nat) : Prop where
  clear : u8at d 0 = 1 → ClearExcl s
  gain : u8at d 0 = 48 → GainExcl s d
  gainSwap : u8at d 0 = 49 → SetGuard s.stmSwap (u8at d FwLayout.GainUpdate_segment_off)
    (rd s.ctl (87 + u8at d FwLayout.GainUpdate_segment_off)) TRANSITION_MODE_SYNC_IDX
  modSwap : u8at d 0 = 17 → SetGuard s.modSwap (u8at d FwLayout.ModulationUpdate_segment_off)
    (rd s.ctl (39 + u8at d FwLayout.ModulationUpdate_segment_off)) (u8at d FwLayout.ModulationUpdate_transition_mode_off)
  fociSwap : u8at d 0 = 68 → SetGuard s.stmSwap (u8at d FwLayout.FociSTMUpdate_segment_off)
    (rd s.ctl (87 + u8at d FwLayout.FociSTMUpdate_segment_off)) (u8at d FwLayout.FociSTMUpdate_transition_mode_off)
  gainStmSwap : u8at d 0 = 67 → SetGuard s.stmSwap (u8at d FwLayout.GainSTMUpdate_segment_off)
    (rd s.ctl (87 + u8at d FwLayout.GainSTMUpdate_segment_off)) (u8at d FwLayout.GainSTMUpdate_transition_mode_off)
  mod : u8at d 0 = 16 → ModExcl s d
  foci : u8at d 0 = 66 → FociExcl s d
  gainStm : u8at d 0 = 65 → GainStmExcl s d

/-- **every handler, every tag**: `handle_payload` never panics from a `Base` state on an SDK payload (so in
particular no `Memory::write` leaves its BRAM), keeps `Base`; it keeps `Chain` under the finding exclusions -/
theorem payload_step (s : State) (d : Array Nat) (hB : Base s) (hp : PayloadOK s d) :
    ∃ s' ack, handlePayload s d = .ok (s', ack) ∧ Base s' ∧ (Chain s → PayloadExcl s d → Chain s') := by
  by_cases hc : IsCfg d
  · obtain ⟨s', ack, e, b, sb⟩ := payload_cfg_step s d hc hB
    exact ⟨s', ack, e, b, fun c _ => c.transfer sb⟩
  unfold IsCfg at hc
  simp only [List.mem_cons, List.mem_nil_iff, or_false, not_or, not_and, Classical.not_not] at hc
  by_cases h48 : u8at d 0 = 48
  · rw [hp_gain s d h48]
    obtain ⟨s', ack, e, b, c⟩ := writeGain_step s d hB (hp.gain h48)
    exact ⟨s', ack, e, b, fun hc ex => c hc (ex.gain h48)⟩
  by_cases h49 : u8at d 0 = 49
  · rw [hp_gainSwap s d h49]
    obtain ⟨s', ack, e, b, c⟩ := changeGainSegment_step s d hB (hp.gainSwap h49)
    exact ⟨s', ack, e, b, fun hc ex => c hc (ex.gainSwap h49)⟩
  by_cases h17 : u8at d 0 = 17
  · rw [hp_modSwap s d h17]
    obtain ⟨s', ack, e, b, c⟩ := changeModSegment_step s d hB (hp.modSwap h17)
    exact ⟨s', ack, e, b, fun hc ex => c hc (ex.modSwap h17)⟩
  by_cases h68 : u8at d 0 = 68
  · rw [hp_fociSwap s d h68]
    obtain ⟨s', ack, e, b, c⟩ := changeFociStmSegment_step s d hB (hp.fociSwap h68)
    exact ⟨s', ack, e, b, fun hc ex => c hc (ex.fociSwap h68)⟩
  by_cases h67 : u8at d 0 = 67
  · rw [hp_gainStmSwap s d h67]
    obtain ⟨s', ack, e, b, c⟩ := changeGainStmSegment_step s d hB (hp.gainStmSwap h67)
    exact ⟨s', ack, e, b, fun hc ex => c hc (ex.gainStmSwap h67)⟩
  by_cases h1 : u8at d 0 = 1
  · rw [hp_clear s d h1]
    obtain ⟨s', ack, e, b, c⟩ := clear_step s d hB
    exact ⟨s', ack, e, b, fun hc ex => c hc (ex.clear h1)⟩
  by_cases h16 : u8at d 0 = 16
  · rw [hp_mod s d h16]
    obtain ⟨s', ack, e, b, c⟩ := writeMod_step s d hB (hp.mod h16)
    exact ⟨s', ack, e, b, fun hc ex => c hc (ex.mod h16)⟩
  by_cases h66 : u8at d 0 = 66
  · rw [hp_foci s d h66]
    obtain ⟨s', ack, e, b, c⟩ := writeFociStm_step s d hB (hp.foci h66)
    exact ⟨s', ack, e, b, fun hc ex => c hc (ex.foci h66)⟩
  by_cases h65 : u8at d 0 = 65
  · rw [hp_gainStm s d h65]
    obtain ⟨s', ack, e, b, c⟩ := writeGainStm_step s d hB (hp.gainStm h65)
    exact ⟨s', ack, e, b, fun hc ex => c hc (ex.gainStm h65)⟩
  exfalso
  have := hc
  omega

/-! ### `ecat_recv` -/

/-- the state in which the first slot is handled -/
def preHandle (s : State) (frame : Array Nat) : State :=
  readFpgaState { s with lastMsgId := u8at frame DrvLayout.Header_msg_id_off }
def slot2Off (frame : Array Nat) : Nat := u16at frame DrvLayout.Header_slot_2_offset_off
def slot1 (frame : Array Nat) : Array Nat := frame.extract DrvLayout.Header_size frame.size
def slot2 (frame : Array Nat) : Array Nat := frame.extract (DrvLayout.Header_size + slot2Off frame) frame.size

/-- `P` holds for the second slot in the state the first slot leaves (if it is reached) -/
def afterSlot1 (P : State → Array Nat → Prop) (s0 : State) (p1 p2 : Array Nat) : Prop :=
  match handlePayload s0 p1 with
  | .ok (s1, ack1) => ack1 &&& ERR_BIT = 0 → P { s1 with ack := ack1 } p2
  | .error _ => True

/-- alphabet condition of a frame (one or two slots) received in state `s` -/
structure FrameOKs (s : State) (frame : Array Nat) : Prop where
  slot2_in : DrvLayout.Header_size + slot2Off frame ≤ frame.size
  slot1 : PayloadOK (preHandle s frame) (Fw.slot1 frame)
  slot2 : slot2Off frame ≠ 0 → afterSlot1 PayloadOK (preHandle s frame) (Fw.slot1 frame) (Fw.slot2 frame)

/-- finding exclusions of a frame received in state `s` -/
structure FrameExcl (s : State) (frame : Array Nat) : Prop where
  slot1 : PayloadExcl (preHandle s frame) (Fw.slot1 frame)
  slot2 : slot2Off frame ≠ 0 → afterSlot1 PayloadExcl (preHandle s frame) (Fw.slot1 frame) (Fw.slot2 frame)

theorem Base.of_ack {s : State} (h : Base s) (a : Nat) : Base { s with ack := a } :=
  h.transfer (SameB.refl' rfl rfl rfl rfl) (h.shape.transfer rfl rfl rfl rfl rfl rfl rfl rfl) h.flags
theorem Chain.of_ack {s : State} (h : Chain s) (a : Nat) : Chain { s with ack := a } :=
  h.transfer (SameB.refl' rfl rfl rfl rfl)

theorem preHandle_sameB (s : State) (frame : Array Nat) : SameB s (preHandle s frame) := by
  unfold preHandle
  rw [readFpgaState_core]
  exact SameB.refl' rfl rfl rfl rfl

theorem Base.pre {s : State} (h : Base s) (frame : Array Nat) : Base (preHandle s frame) := by
  refine h.transfer (preHandle_sameB s frame) ?_ ?_
  · unfold preHandle; rw [readFpgaState_core]; exact h.shape.transfer rfl rfl rfl rfl rfl rfl rfl rfl
  · unfold preHandle; rw [readFpgaState_core]; exact h.flags

/-- the end of `ecat_recv`: rewrite `CTL_FLAG`, acknowledge -/
theorem ecat_tail_step (s : State) (m : Nat) (h : Base s) :
    ∃ s', (do
      let s ← ctlWrite s ADDR_CTL_FLAG s.flagsInternal
      pure { s with ack := m } : M State) = .ok s' ∧ Base s' ∧ (Chain s → Chain s') := by
  simp only [ADDR_CTL_FLAG, ctlWrite_main _ _ _ (by decide : 0 < 256), ok_bind, pure_eq_ok]
  refine ⟨_, rfl, ?_, ?_⟩
  · have sc : SameB s { s with ctl := s.ctl.setIfInBounds 0 (s.flagsInternal % 65536) } := by same_b_tac
    exact (h.transfer sc (shape_setReg h.shape _ _) h.flags).of_ack m
  · intro hc
    have sc : SameB s { s with ctl := s.ctl.setIfInBounds 0 (s.flagsInternal % 65536) } := by same_b_tac
    exact (hc.transfer sc).of_ack m

/-- **one frame**: `ecat_recv` never panics from a `Base` state on an SDK frame and keeps `Base`; it keeps
`Chain` under the frame's finding exclusions -/
theorem ecatRecv_step (s : State) (frame : Array Nat) (hB : Base s) (hf : FrameOKs s frame) :
    ∃ s', ecatRecv s frame = .ok s' ∧ Base s' ∧ (Chain s → FrameExcl s frame → Chain s') := by
  obtain ⟨hin, hf1, hf2⟩ := hf
  have hex1 : ∀ (ex : FrameExcl s frame), PayloadExcl (preHandle s frame) (slot1 frame) := fun ex => ex.slot1
  have hex2 : ∀ (ex : FrameExcl s frame), slot2Off frame ≠ 0 →
      afterSlot1 PayloadExcl (preHandle s frame) (slot1 frame) (slot2 frame) := fun ex => ex.slot2
  revert hex1 hex2
  generalize FrameExcl s frame = EX
  intro hex1 hex2
  have h0 := hB.pre frame
  have c0 : Chain s → Chain (preHandle s frame) := fun hc => hc.transfer (preHandle_sameB s frame)
  unfold ecatRecv
  simp only []
  unfold Fw.slot2 Fw.slot1 at *
  unfold slot2Off at *
  unfold preHandle at *
  generalize hm : u8at frame DrvLayout.Header_msg_id_off = msgId at *
  generalize hs2 : u16at frame DrvLayout.Header_slot_2_offset_off = s2 at *
  split
  · exact ⟨_, rfl, hB, fun hc _ => hc⟩
  split
  · exact ⟨_, rfl, h0.of_ack _, fun hc _ => (c0 hc).of_ack _⟩
  generalize readFpgaState { s with lastMsgId := msgId } = s0 at *
  obtain ⟨s1, ack1, e1, b1, k1⟩ := payload_step s0 _ h0 hf1
  rw [e1, ok_bind]
  simp only []
  split
  · exact ⟨_, rfl, b1.of_ack _, fun hc ex => (k1 (c0 hc) (hex1 ex)).of_ack _⟩
  rename_i hack
  by_cases hz : s2 = 0
  · simp only [hz, ne_eq, not_true_eq_false, if_false]
    obtain ⟨s', e, b, k⟩ := ecat_tail_step { s1 with ack := ack1 } msgId (b1.of_ack _)
    exact ⟨s', e, b, fun hc ex => k ((k1 (c0 hc) (hex1 ex)).of_ack _)⟩
  · simp only [hz, ne_eq, not_false_eq_true, if_true]
    rw [if_neg (by omega)]
    have hack' : ack1 &&& ERR_BIT = 0 := by simpa using hack
    have p2 := hf2 hz
    unfold afterSlot1 at p2
    rw [e1] at p2
    have p2' := p2 hack'
    obtain ⟨s2', ack2, e2, b2, k2⟩ := payload_step { s1 with ack := ack1 } _ (b1.of_ack _) p2'
    rw [e2, ok_bind]
    simp only []
    have kk : Chain s → EX → Chain s2' := by
      intro hc ex
      have x2 := hex2 ex hz
      unfold afterSlot1 at x2
      rw [e1] at x2
      exact k2 ((k1 (c0 hc) (hex1 ex)).of_ack _) (x2 hack')
    split
    · exact ⟨_, rfl, b2.of_ack _, fun hc ex => (kk hc ex).of_ack _⟩
    · obtain ⟨s', e, b, k⟩ := ecat_tail_step { s2' with ack := ack2 } msgId (b2.of_ack _)
      exact ⟨s', e, b, fun hc ex => k ((kk hc ex).of_ack _)⟩

/-! ### traces -/

/-- events of a device history: a received frame, a clock update, a read-back of the current output
(`drives()` and `modulation()`) -/
inductive TEv where
  | frame (f : Array Nat)
  | tick (t : Nat)
  | read

def runT (s : State) : TEv → M State
  | .frame f => ecatRecv s f
  | .tick t => updateWithSysTime s t
  | .read => do
    let _ ← Obs.drives s
    let _ ← Obs.modulation s
    pure s

/-- alphabet condition of one event in state `s` -/
def EvOK (s : State) : TEv → Prop
  | .frame f => FrameOKs s f
  | _ => True

/-- finding exclusions of one event in state `s`; a read-back needs a `Fresh` STM index (a clock update after
the last accepted STM segment swap) -/
def EvExcl (s : State) : TEv → Prop
  | .frame f => FrameExcl s f
  | .tick _ => True
  | .read => Fresh s

/-- the state after an event, if it does not panic (a read-back leaves the state alone: it is not run here, so
that `Restricted` can be evaluated without touching the BRAMs) -/
def stepState (s : State) : TEv → Option State
  | .read => some s
  | .frame f => match ecatRecv s f with | .ok s' => some s' | .error _ => none
  | .tick t => match updateWithSysTime s t with | .ok s' => some s' | .error _ => none

/-- the restriction on a trace from state `s`: every event satisfies the alphabet condition and the finding
exclusions in the state it meets -/
def Restricted (s : State) : List TEv → Prop
  | [] => True
  | e :: es => EvOK s e ∧ EvExcl s e ∧
      (match stepState s e with
       | some s' => Restricted s' es
       | none => True)

theorem stepState_of_run (s s1 : State) (e : TEv) (h : runT s e = .ok s1) : stepState s e = some s1 := by
  cases e with
  | frame f => simp only [runT] at h; simp only [stepState, h]
  | tick t => simp only [runT] at h; simp only [stepState, h]
  | read =>
    simp only [runT, bind, Except.bind, pure, Except.pure] at h
    split at h
    · cases h
    · split at h
      · cases h
      · cases h; rfl

theorem runT_step (s : State) (e : TEv) (h : Safe s) (hok : EvOK s e) (hex : EvExcl s e) :
    ∃ s', runT s e = .ok s' ∧ Safe s' := by
  cases e with
  | frame f =>
    obtain ⟨s', e, b, c⟩ := ecatRecv_step s f h.base hok
    exact ⟨s', e, b, c h.chain hex⟩
  | tick t =>
    obtain ⟨s', e, hs, _⟩ := updateWithSysTime_step s t h
    exact ⟨s', e, hs⟩
  | read =>
    obtain ⟨v, hv⟩ := drives_ok s h hex
    obtain ⟨w, hw⟩ := modulation_ok s h.base
    refine ⟨s, ?_, h⟩
    simp only [runT, hv, hw, bind, Except.bind, pure, Except.pure]

theorem trace_safe (tr : List TEv) (s : State) (h : Safe s) (hr : Restricted s tr) :
    ∃ s', tr.foldlM runT s = .ok s' ∧ Safe s' := by
  induction tr generalizing s with
  | nil => exact ⟨s, rfl, h⟩
  | cons e es ih =>
    obtain ⟨hok, hex, hrest⟩ := hr
    obtain ⟨s1, e1, h1⟩ := runT_step s e h hok hex
    rw [stepState_of_run s s1 e e1] at hrest
    obtain ⟨s2, e2, h2⟩ := ih s1 h1 hrest
    refine ⟨s2, ?_, h2⟩
    rw [List.foldlM_cons, e1, ok_bind]
    exact e2

/-- frames only, alphabet condition only -/
def FramesOK (s : State) : List (Array Nat) → Prop
  | [] => True
  | f :: fs => FrameOKs s f ∧
      (match ecatRecv s f with
       | .ok s' => FramesOK s' fs
       | .error _ => True)

theorem frames_safe (fs : List (Array Nat)) (s : State) (h : Base s) (hr : FramesOK s fs) :
    ∃ s', fs.foldlM ecatRecv s = .ok s' ∧ Base s' := by
  induction fs generalizing s with
  | nil => exact ⟨s, rfl, h⟩
  | cons f fs ih =>
    obtain ⟨hok, hrest⟩ := hr
    obtain ⟨s1, e1, h1, _⟩ := ecatRecv_step s f h hok
    rw [e1] at hrest
    obtain ⟨s2, e2, h2⟩ := ih s1 h1 hrest
    refine ⟨s2, ?_, h2⟩
    rw [List.foldlM_cons, e1, ok_bind]
    exact e2

end Autd3.Fw
