import Autd3.Lemmas.Tuple2Proto
/-!
Inversion lemmas: a datagram that was accepted (`Sends`) passed the two firmware guards of its BEGIN frame.
-/
open Autd3 Autd3.Fw Autd3.Wire Autd3.Gen.Cpu Autd3.Gen Autd3.Rt
namespace Autd3.Tuple2

/-- `ecat_recv` on a fresh single-slot frame whose handler answers with an error acknowledgement -/
theorem ecatRecv_single_err (s : State) (t : Tx) (hid : t.msgId < 128) (hslot : t.slot2 = 0)
    (hfresh : s.lastMsgId ≠ t.msgId) (x : State) (a : Nat)
    (hh : handlePayload (pre s t.msgId) t.payload = .ok (x, a)) (ha : a &&& ERR_BIT ≠ 0) :
    ecatRecv s t.frame = .ok { x with ack := a } := by
  rw [ecatRecv_slot1_eq s t.frame (by rw [frame_slot2, hslot])]
  simp only [frame_id, frame_extract, Nat.mod_eq_of_lt (show t.msgId < 256 by omega)]
  rw [if_neg hfresh, if_neg (by rw [and_128_of_lt hid]; simp), hh]
  show (if a &&& ERR_BIT ≠ 0 then _ else _) = _
  rw [if_pos ha]; rfl

/-- the send loop stops (`none`) when the handler of the first frame answers with an error code -/
theorem sendLoop_reject (fuel : Nat) (o : Op) (s : State) (t : Tx) (hnd : o.done = false) (o' : Op) (b : Array Nat)
    (sz : Nat) (hp : o.pack s.numTr t.payload 0 = .ok (o', b, sz)) (hf : Fresh s t) (x : State) (a : Nat)
    (hh : handlePayload (pre s (nextId t)) b = .ok (x, a)) (ha : 128 ≤ a) (ha' : a &&& ERR_BIT ≠ 0) :
    sendLoop fuel o s t = none := by
  cases fuel with
  | zero => rfl
  | succ fuel =>
    have hpk : packOp o s.numTr t = .ok (o', { msgId := nextId t, slot2 := 0, payload := b }, sz) := by
      unfold packOp; simp only []; rw [hp]; rfl
    have hrecv := ecatRecv_single_err s { msgId := nextId t, slot2 := 0, payload := b } (nextId_lt t) rfl hf x a hh ha'
    simp only [sendLoop, hnd, hpk, hrecv]
    have := nextId_lt t
    simp
    omega


/-! ### Modulation -/

theorem writeMod_reject1 (s : State) (d : Array Nat)
    (hb : hasFlag (u8at d FwLayout.ModulationHead_flag_off) MODULATION_FLAG_BEGIN = true)
    (g1 : validateTransitionMode s.modSegment
        (if u8at d FwLayout.ModulationHead_flag_off &&& MODULATION_FLAG_SEGMENT ≠ 0 then 1 else 0)
        (u16at d FwLayout.ModulationHead_rep_off) (u8at d FwLayout.ModulationHead_transition_mode_off) = true) :
    writeMod s d = .ok ({ s with modCycle := 0 }, ERR_INVALID_TRANSITION_MODE) := by
  unfold writeMod; simp only [hb, g1, if_true]; rfl

theorem writeMod_reject2 (s : State) (d : Array Nat)
    (hb : hasFlag (u8at d FwLayout.ModulationHead_flag_off) MODULATION_FLAG_BEGIN = true)
    (g1 : validateTransitionMode s.modSegment
        (if u8at d FwLayout.ModulationHead_flag_off &&& MODULATION_FLAG_SEGMENT ≠ 0 then 1 else 0)
        (u16at d FwLayout.ModulationHead_rep_off) (u8at d FwLayout.ModulationHead_transition_mode_off) = false)
    (g2 : validateSilencerSettings s (sel s.stmDiv s.stmSegment) (u16at d FwLayout.ModulationHead_freq_div_off) = true) :
    writeMod s d = .ok ({ s with modCycle := 0 }, ERR_INVALID_SILENCER_SETTING) := by
  have g2' : validateSilencerSettings { s with modCycle := 0 } (sel s.stmDiv s.stmSegment)
      (u16at d FwLayout.ModulationHead_freq_div_off) = true := g2
  unfold writeMod; simp only [hb, g1, g2', if_true]; rfl

/-- **Modulation, accepted ⇒ guards passed** -/
theorem mod_accept_guards (s : State) (t : Tx) (_hW : WF s) (ht : TxOK t) (hf : Fresh s t)
    (seg : Nat) (tr : Tr) (rep div : Nat) (samples : Array Nat) (H : ModOK s seg tr rep div samples)
    (t' : Tx) (s' : State) (h : Sends (.modulation seg tr rep div samples) s t t' s') :
    validateTransitionMode s.modSegment seg rep (trMode tr) = false ∧
    validateSilencerSettings s (sel s.stmDiv s.stmSegment) div = false := by
  have ht' : t.payload.size = 622 := ht
  obtain ⟨htm, htv⟩ := trMode_lt H
  have hpk := pack_mod_first seg tr rep div samples s.numTr t.payload ht' H.n2 H.n3
  obtain ⟨p0, p1, p2, p3, p4, p6, p8, pd, psz⟩ := modFirst_payload t.payload samples (min samples.size 254)
    (modFlagByte true (decide (samples.size ≤ 254)) seg tr.isSome) (trMode tr) div rep (trValue tr) ht'
    (Nat.min_le_right _ _) (modFlagByte_lt _ _ _ _)
  rw [Nat.mod_eq_of_lt htm] at p3
  rw [Nat.mod_eq_of_lt H.div.2] at p4
  rw [Nat.mod_eq_of_lt H.rep] at p6
  generalize modFirstPayload t.payload samples (min samples.size 254)
    (modFlagByte true (decide (samples.size ≤ 254)) seg tr.isSome) (trMode tr) div rep (trValue tr) = d
    at hpk p0 p1 p2 p3 p4 p6 p8 pd psz
  obtain ⟨r, hr⟩ := pre_eq s (nextId t)
  obtain ⟨b1, _, _, b4⟩ := modFlagByte_bits true (decide (samples.size ≤ 254)) seg H.seg tr.isSome
  have hflag : u8at d FwLayout.ModulationHead_flag_off = modFlagByte true (decide (samples.size ≤ 254)) seg tr.isSome := p1
  have hsg : (if u8at d FwLayout.ModulationHead_flag_off &&& MODULATION_FLAG_SEGMENT ≠ 0 then 1 else 0) = seg := by
    rw [hflag, b4]
  have hbg : hasFlag (u8at d FwLayout.ModulationHead_flag_off) MODULATION_FLAG_BEGIN = true := by rw [hflag, b1]
  have e6 : u16at d FwLayout.ModulationHead_rep_off = rep := p6
  have e4 : u16at d FwLayout.ModulationHead_freq_div_off = div := p4
  have e3 : u8at d FwLayout.ModulationHead_transition_mode_off = trMode tr := p3
  obtain ⟨fuel, h⟩ := h
  have hno : ∀ x a, handlePayload (pre s (nextId t)) d = .ok (x, a) → 128 ≤ a → a &&& ERR_BIT ≠ 0 → False := by
    intro x a hh ha ha'
    have := sendLoop_reject fuel _ s t rfl _ d _ hpk hf x a hh ha ha'
    rw [show Op.ofDg (.modulation seg tr rep div samples) =
      { dg := .modulation seg tr rep div samples, sent := 0, done := false } from rfl, this] at h
    cases h
  rw [hr, dispatch_mod _ _ p0] at hno
  by_cases g1 : validateTransitionMode s.modSegment seg rep (trMode tr) = true
  · exfalso
    refine hno _ _ (writeMod_reject1 _ d hbg ?_) (by decide) (by decide)
    rw [hsg, e6, e3]; exact g1
  by_cases g2 : validateSilencerSettings s (sel s.stmDiv s.stmSegment) div = true
  · exfalso
    refine hno _ _ (writeMod_reject2 _ d hbg ?_ ?_) (by decide) (by decide)
    · rw [hsg, e6, e3]; simpa using g1
    · rw [e4]; exact g2
  exact ⟨by simpa using g1, by simpa using g2⟩


/-! ### FociSTM -/

theorem writeFociStm_reject1 (s : State) (d : Array Nat)
    (hb : hasFlag (u8at d FwLayout.FociSTMSubseq_flag_off) FOCI_STM_FLAG_BEGIN = true)
    (g1 : validateTransitionMode s.stmSegment (u8at d FwLayout.FociSTMSubseq_segment_off)
        (u16at d FwLayout.FociSTMHead_rep_off) (u8at d FwLayout.FociSTMHead_transition_mode_off) = true) :
    writeFociStm s d = .ok (s, ERR_INVALID_TRANSITION_MODE) := by
  unfold writeFociStm; simp only [hb, g1, if_true]; rfl

theorem writeFociStm_reject2 (s : State) (d : Array Nat)
    (hb : hasFlag (u8at d FwLayout.FociSTMSubseq_flag_off) FOCI_STM_FLAG_BEGIN = true)
    (g1 : validateTransitionMode s.stmSegment (u8at d FwLayout.FociSTMSubseq_segment_off)
        (u16at d FwLayout.FociSTMHead_rep_off) (u8at d FwLayout.FociSTMHead_transition_mode_off) = false)
    (g2 : validateSilencerSettings s (u16at d FwLayout.FociSTMHead_freq_div_off) (sel s.modDiv s.modSegment) = true) :
    writeFociStm s d = .ok (s, ERR_INVALID_SILENCER_SETTING) := by
  unfold writeFociStm; simp only [hb, g1, g2, if_true]; rfl

/-- **FociSTM, accepted ⇒ guards passed** -/
theorem foci_accept_guards (s : State) (t : Tx) (_hW : WF s) (ht : TxOK t) (hf : Fresh s t)
    (n seg : Nat) (tr : Tr) (rep div ss : Nat) (records : Array Nat) (P : Nat)
    (H : FociOK s n seg tr rep div ss records P)
    (t' : Tx) (s' : State) (h : Sends (.fociStm n seg tr rep div ss records) s t t' s') :
    validateTransitionMode s.stmSegment seg rep (trMode tr) = false ∧
    validateSilencerSettings s div (sel s.modDiv s.modSegment) = false := by
  have ht' : t.payload.size = 622 := ht
  have hPb := foci_P_bounds H
  have hn1 := H.hn
  obtain ⟨htm, htv⟩ := foci_trMode_lt H
  have hM : 1 ≤ 598 / (8 * n) := Nat.div_pos (by omega) (by omega)
  have hpk := pack_foci_first n seg tr rep div ss records P s.numTr t.payload ht' hn1 H.size H.total
  have hsn : min P (598 / (8 * n)) ≤ 598 / (8 * n) := Nat.min_le_right _ _
  have hfit := foci_fit 598 n (min P (598 / (8 * n))) hsn
  generalize hMdef : 598 / (8 * n) = M1 at hM hpk hsn hfit
  obtain ⟨p0, p1, p2, p3, p4, p5, p6, p8, p10, p16, pd, psz⟩ := fociFirst_payload t.payload records n (min P M1)
    (fociFlagByte true (decide (P = min P M1)) tr.isSome) seg (trMode tr) div rep (trValue tr) ss ht' (by omega)
    (fociFlagByte_lt _ _ _)
  rw [Nat.mod_eq_of_lt (show seg < 256 by have := H.hseg; omega)] at p3
  rw [Nat.mod_eq_of_lt htm] at p4
  rw [Nat.mod_eq_of_lt H.hdiv.2] at p8
  rw [Nat.mod_eq_of_lt H.hrep] at p10
  generalize fociFirstPayload t.payload records n (min P M1) (fociFlagByte true (decide (P = min P M1)) tr.isSome) seg
    (trMode tr) div rep (trValue tr) ss = d at hpk p0 p1 p2 p3 p4 p5 p6 p8 p10 p16 pd psz
  obtain ⟨r, hr⟩ := pre_eq s (nextId t)
  obtain ⟨b1, _, _⟩ := fociFlagByte_bits true (decide (P = min P M1)) tr.isSome
  have hflag : u8at d FwLayout.FociSTMSubseq_flag_off = fociFlagByte true (decide (P = min P M1)) tr.isSome := p1
  have hbg : hasFlag (u8at d FwLayout.FociSTMSubseq_flag_off) FOCI_STM_FLAG_BEGIN = true := by rw [hflag, b1]
  have e3 : u8at d FwLayout.FociSTMSubseq_segment_off = seg := p3
  have e10 : u16at d FwLayout.FociSTMHead_rep_off = rep := p10
  have e8 : u16at d FwLayout.FociSTMHead_freq_div_off = div := p8
  have e4 : u8at d FwLayout.FociSTMHead_transition_mode_off = trMode tr := p4
  obtain ⟨fuel, h⟩ := h
  have hno : ∀ x a, handlePayload (pre s (nextId t)) d = .ok (x, a) → 128 ≤ a → a &&& ERR_BIT ≠ 0 → False := by
    intro x a hh ha ha'
    have := sendLoop_reject fuel _ s t rfl _ d _ hpk hf x a hh ha ha'
    rw [show Op.ofDg (.fociStm n seg tr rep div ss records) =
      { dg := .fociStm n seg tr rep div ss records, sent := 0, done := false } from rfl, this] at h
    cases h
  rw [hr, dispatch_foci _ _ p0] at hno
  by_cases g1 : validateTransitionMode s.stmSegment seg rep (trMode tr) = true
  · exfalso
    refine hno _ _ (writeFociStm_reject1 _ d hbg ?_) (by decide) (by decide)
    rw [e3, e10, e4]; exact g1
  by_cases g2 : validateSilencerSettings s div (sel s.modDiv s.modSegment) = true
  · exfalso
    refine hno _ _ (writeFociStm_reject2 _ d hbg ?_ ?_) (by decide) (by decide)
    · rw [e3, e10, e4]; simpa using g1
    · rw [e8]; exact g2
  exact ⟨by simpa using g1, by simpa using g2⟩

/-! ### GainSTM -/

theorem writeGainStm_reject1 (s : State) (d : Array Nat)
    (hb : hasFlag (u8at d FwLayout.GainSTMSubseq_flag_off) GAIN_STM_FLAG_BEGIN = true)
    (g1 : validateTransitionMode s.stmSegment
        (if u8at d FwLayout.GainSTMSubseq_flag_off &&& GAIN_STM_FLAG_SEGMENT ≠ 0 then 1 else 0)
        (u16at d FwLayout.GainSTMHead_rep_off) (u8at d FwLayout.GainSTMHead_transition_mode_off) = true) :
    writeGainStm s d =
      .ok ({ s with gainStmMode := u8at d FwLayout.GainSTMHead_mode_off }, ERR_INVALID_TRANSITION_MODE) := by
  unfold writeGainStm; simp only [hb, g1, if_true]; rfl

theorem writeGainStm_reject2 (s : State) (d : Array Nat)
    (hb : hasFlag (u8at d FwLayout.GainSTMSubseq_flag_off) GAIN_STM_FLAG_BEGIN = true)
    (g1 : validateTransitionMode s.stmSegment
        (if u8at d FwLayout.GainSTMSubseq_flag_off &&& GAIN_STM_FLAG_SEGMENT ≠ 0 then 1 else 0)
        (u16at d FwLayout.GainSTMHead_rep_off) (u8at d FwLayout.GainSTMHead_transition_mode_off) = false)
    (g2 : validateSilencerSettings s (u16at d FwLayout.GainSTMHead_freq_div_off) (sel s.modDiv s.modSegment) = true) :
    writeGainStm s d =
      .ok ({ s with gainStmMode := u8at d FwLayout.GainSTMHead_mode_off }, ERR_INVALID_SILENCER_SETTING) := by
  have g2' : validateSilencerSettings { s with gainStmMode := u8at d FwLayout.GainSTMHead_mode_off }
      (u16at d FwLayout.GainSTMHead_freq_div_off)
      (sel ({ s with gainStmMode := u8at d FwLayout.GainSTMHead_mode_off } : State).modDiv
        ({ s with gainStmMode := u8at d FwLayout.GainSTMHead_mode_off } : State).modSegment) = true := g2
  unfold writeGainStm; simp only [hb, g1, g2', if_true]; rfl

/-- **GainSTM, accepted ⇒ guards passed** -/
theorem gstm_accept_guards (s : State) (t : Tx) (hW : WF s) (ht : TxOK t) (hf : Fresh s t)
    (mode seg : Nat) (tr : Tr) (rep div : Nat) (patterns : Array (Array Nat))
    (H : GOK s mode seg tr rep div patterns)
    (t' : Tx) (s' : State) (h : Sends (.gainStm mode seg tr rep div patterns) s t t' s') :
    validateTransitionMode s.stmSegment seg rep (trMode tr) = false ∧
    validateSilencerSettings s div (sel s.modDiv s.modSegment) = false := by
  have ht' : t.payload.size = 622 := ht
  have hpf := perFrame_bounds mode
  have hnt : s.numTr ≤ 249 := hW.numTr
  obtain ⟨htm, htv⟩ := g_trMode_lt H
  have hpk := pack_gstm_first mode seg tr rep div patterns s.numTr t.payload ht' hnt H.size H.hmode H.hseg
  generalize hsend : min (perFrame mode) patterns.size = send at hpk
  have hs : 1 ≤ send ∧ send ≤ perFrame mode := by have := H.size; omega
  obtain ⟨bl, b1, _, _, b4, _⟩ := gstmFlagByte_bits true (decide (send = patterns.size)) tr.isSome seg send H.hseg (by omega)
  obtain ⟨p0, p1, p2, p3, p4, p6, p8, pdx, psz⟩ := gstmFirst_payload t.payload patterns mode s.numTr send
    (gstmFlagByte true (decide (send = patterns.size)) tr.isSome seg send) (trMode tr) div rep (trValue tr) ht' bl
  rw [Nat.mod_eq_of_lt htm] at p3
  rw [Nat.mod_eq_of_lt H.hdiv.2] at p4
  rw [Nat.mod_eq_of_lt H.hrep] at p6
  generalize gstmFirstPayload t.payload patterns mode s.numTr send
    (gstmFlagByte true (decide (send = patterns.size)) tr.isSome seg send) (trMode tr) div rep (trValue tr) = d
    at hpk p0 p1 p2 p3 p4 p6 p8 pdx psz
  obtain ⟨r, hr⟩ := pre_eq s (nextId t)
  have hflag : u8at d FwLayout.GainSTMSubseq_flag_off =
      gstmFlagByte true (decide (send = patterns.size)) tr.isSome seg send := p1
  have hsg : (if u8at d FwLayout.GainSTMSubseq_flag_off &&& GAIN_STM_FLAG_SEGMENT ≠ 0 then 1 else 0) = seg := by
    rw [hflag, b4]
  have hbg : hasFlag (u8at d FwLayout.GainSTMSubseq_flag_off) GAIN_STM_FLAG_BEGIN = true := by rw [hflag, b1]
  have e6 : u16at d FwLayout.GainSTMHead_rep_off = rep := p6
  have e4 : u16at d FwLayout.GainSTMHead_freq_div_off = div := p4
  have e3 : u8at d FwLayout.GainSTMHead_transition_mode_off = trMode tr := p3
  obtain ⟨fuel, h⟩ := h
  have hno : ∀ x a, handlePayload (pre s (nextId t)) d = .ok (x, a) → 128 ≤ a → a &&& ERR_BIT ≠ 0 → False := by
    intro x a hh ha ha'
    have := sendLoop_reject fuel _ s t rfl _ d _ hpk hf x a hh ha ha'
    rw [show Op.ofDg (.gainStm mode seg tr rep div patterns) =
      { dg := .gainStm mode seg tr rep div patterns, sent := 0, done := false } from rfl, this] at h
    cases h
  rw [hr, dispatch_gstm _ _ p0] at hno
  by_cases g1 : validateTransitionMode s.stmSegment seg rep (trMode tr) = true
  · exfalso
    refine hno _ _ (writeGainStm_reject1 _ d hbg ?_) (by decide) (by decide)
    rw [hsg, e6, e3]; exact g1
  by_cases g2 : validateSilencerSettings s div (sel s.modDiv s.modSegment) = true
  · exfalso
    refine hno _ _ (writeGainStm_reject2 _ d hbg ?_ ?_) (by decide) (by decide)
    · rw [hsg, e6, e3]; simpa using g1
    · rw [e4]; exact g2
  exact ⟨by simpa using g1, by simpa using g2⟩

end Autd3.Tuple2
