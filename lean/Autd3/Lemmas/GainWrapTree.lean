import Autd3.Lemmas.GainWrapGroup
namespace Autd3.GainWrap

mutual
  /-- identities of the caches in a tree -/
  def Tree.ids : Tree → List Nat
    | .leaf _ => []
    | .boxed g => g.ids
    | .cache id g => id :: g.ids
    | .group _ gm => gm.ids
  def GMap.ids : GMap → List Nat
    | .nil => []
    | .cons _ g rest => g.ids ++ rest.ids
end

/-- some transducer of an enabled device maps to `k` -/
def usedKey (km : Nat → Nat → Option Nat) (geo : Geo) (k : Nat) : Prop :=
  ∃ dev ∈ geo.devices, ∃ t, t < dev.numTr ∧ km dev.idx t = some k

mutual
  /-- well-formed tree for geometry `geo` and cache denotations `ρ`:
  * leaves are faithful (inside their filter); leaves reached from a `Cache` without passing a
    `Group` are total (ignore the filter) — `strict`;
  * every `Group` has exactly the keys its key map uses on the enabled devices, each once;
  * a cache does not contain itself, and `ρ` names what its inner gain computes (so that two
    occurrences of one cache identity wrap gains with the same drives). -/
  def Tree.WF (ρ : Nat → Nat → Nat → Drive) (geo : Geo) : Bool → Tree → Prop
    | s, .leaf l => if s then Total l geo else Faithful l geo
    | s, .boxed g => g.WF ρ geo s
    | _, .cache id g => g.WF ρ geo true ∧ id ∉ g.ids ∧
        ∀ d ∈ geo.devices, ∀ t, t < d.numTr → ρ id d.idx t = g.den d.idx t
    | _, .group km gm => gm.WF ρ geo ∧ gm.keys.Nodup ∧ ∀ k, k ∈ gm.keys ↔ usedKey km geo k
  def GMap.WF (ρ : Nat → Nat → Nat → Drive) (geo : Geo) : GMap → Prop
    | .nil => True
    | .cons _ g rest => g.WF ρ geo false ∧ rest.WF ρ geo
end

theorem GMap.inits_keys (gm : GMap) : gm.inits.map (·.1) = gm.keys := by
  induction gm using GMap.rec (motive_1 := fun _ => True) with
  | leaf _ => trivial
  | boxed _ _ => trivial
  | cache _ _ _ => trivial
  | group _ _ _ => trivial
  | nil => simp [GMap.inits, GMap.keys]
  | cons k g rest _ ih => simp [GMap.inits, GMap.keys, ih]

mutual
  theorem Tree.sound {ρ : Nat → Nat → Nat → Drive} {geo : Geo} (hw : geo.WF) :
      ∀ (T : Tree) (s : Bool) (X : Nat → Prop), (∀ j ∈ T.ids, ¬ X j) → T.WF ρ geo s →
        Sound ρ geo X s T.init T.den
    | .leaf l, s, X, _, h => by
      simp only [Tree.WF] at h
      simpa [Tree.init, Tree.den] using leaf_sound l s h
    | .boxed g, s, X, hx, h => by
      simp only [Tree.WF] at h
      simp only [Tree.init, Tree.den]
      exact boxed_sound (Tree.sound hw g s X (by simpa [Tree.ids] using hx) h)
    | .cache id g, s, X, hx, h => by
      simp only [Tree.WF] at h
      simp only [Tree.ids, List.mem_cons, forall_eq_or_imp] at hx
      obtain ⟨h1, h2, h3⟩ := h
      have hg := Tree.sound hw g true (fun j => X j ∨ j = id)
        (fun j hj hc => hc.elim (hx.2 j hj) (fun e => h2 (e ▸ hj))) h1
      have := cache_sound id hw hx.1 h3 hg
      simp only [Tree.init, Tree.den]
      cases s with
      | true => exact this
      | false => exact this.weaken
    | .group km gm, s, X, hx, h => by
      simp only [Tree.WF] at h
      obtain ⟨h1, h2, h3⟩ := h
      have hs : Sound ρ geo X true (groupInit km gm.inits) (groupDen km fun k => gm.denAt k) := by
        intro filter par σ hI
        obtain ⟨gen, σ', g1, g2, g3, g4⟩ :=
          group_sound km gm.inits (fun k => gm.denAt k) hw (getFilters km geo) (List.Perm.refl _)
            (by rw [GMap.inits_keys]; exact h2) (by rw [GMap.inits_keys]; exact h3)
            (GMap.sound hw gm X (by simpa [Tree.ids] using hx) h1) par σ hI
        refine ⟨gen, σ', g1, g2, g3, ?_⟩
        intro d hd
        obtain ⟨c, hc, hg⟩ := g4 d hd
        exact ⟨c, hc, fun t ht _ => hg t ht trivial⟩
      have hd : (Tree.group km gm).den = groupDen km fun k => gm.denAt k := by
        funext d t; simp only [Tree.den, groupDen]; cases km d t <;> rfl
      simp only [Tree.init]
      rw [hd]
      cases s with
      | true => exact hs
      | false => exact hs.weaken
  theorem GMap.sound {ρ : Nat → Nat → Nat → Drive} {geo : Geo} (hw : geo.WF) :
      ∀ (gm : GMap) (X : Nat → Prop), (∀ j ∈ gm.ids, ¬ X j) → gm.WF ρ geo →
        ∀ k i, gm.inits.lookup k = some i → Sound ρ geo X false i (gm.denAt k)
    | .nil, _, _, _, k, i, hl => by simp [GMap.inits] at hl
    | .cons k' g rest, X, hx, h, k, i, hl => by
      simp only [GMap.WF] at h
      simp only [GMap.ids, List.mem_append] at hx
      simp only [GMap.inits, List.lookup_cons] at hl
      by_cases e : k = k'
      · subst e
        simp at hl; subst hl
        simp only [GMap.denAt, if_true]
        exact Tree.sound hw g false X (fun j hj => hx j (Or.inl hj)) h.1
      · have : (k == k') = false := by simp [e]
        simp only [this] at hl
        have e' : ¬ k' = k := fun h => e h.symm
        simp only [GMap.denAt, e', if_false]
        exact GMap.sound hw rest X (fun j hj => hx j (Or.inr hj)) h.2 k i hl
end

end Autd3.GainWrap
