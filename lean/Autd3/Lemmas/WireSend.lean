import Autd3.Lemmas.WireLoop
/-!
The concrete sender loop over `(Op, Op, Tx)` (`sendLoop`), the single-step well-formedness theorem for
`packOp2`, and the link between `sendLoop` and `opLoop`.
-/
namespace Autd3.Wire
open Autd3.Fw (rd)
open Autd3.Gen.Drv
open Autd3.Gen

/-- header/slot well-formedness of the frame `t'` produced from `t` by packing `o1`, `o2` -/
structure StepWF (o1 o2 : Op) (n : Nat) (t : Tx) (o1' o2' : Op) (t' : Tx) : Prop where
  size : t'.payload.size = t.payload.size
  inv1 : o1'.Inv
  inv2 : o2'.Inv
  dg1 : o1'.dg = o1.dg
  dg2 : o2'.dg = o2.dg
  /-- nothing to send: the buffer is left alone (the sender re-sends it; only reachable when both were done) -/
  idle : o1.done = true → o2.done = true → t' = t ∧ o1' = o1 ∧ o2' = o2
  /-- fresh id in `0..=0x7F`, different from the previous one, whenever something was packed -/
  msgid : ¬(o1.done = true ∧ o2.done = true) →
    t'.msgId = (((t.msgId + 1) % 256) &&& MSG_ID_MAX) ∧ t'.msgId ≤ 0x7F ∧ (t.msgId < 256 → t'.msgId ≠ t.msgId)
  /-- second slot: absent, or exactly at the even, non-zero size of the first slot, both fit, and the
  second `pack` did not touch the first slot -/
  slot2 : ¬(o1.done = true ∧ o2.done = true) → t'.slot2 = 0 ∨ ∃ b1 sz1 sz2, o1.pack n t.payload 0 = .ok (o1', b1, sz1) ∧
      o2.pack n b1 sz1 = .ok (o2', t'.payload, sz2) ∧ t'.slot2 = sz1 ∧ sz1 % 2 = 0 ∧ 2 ≤ sz1 ∧ sz2 % 2 = 0 ∧
      sz1 + sz2 ≤ t.payload.size ∧ o2.required n ≤ t.payload.size - sz1 ∧ Keeps sz1 b1 t'.payload

theorem msgid_rule (m : Nat) : (((m + 1) % 256) &&& MSG_ID_MAX) ≤ 0x7F ∧ (m < 256 → (((m + 1) % 256) &&& MSG_ID_MAX) ≠ m) := by
  have h : ∀ k : Fin 256, ((k.val + 1) % 256 &&& MSG_ID_MAX) ≤ 0x7F ∧ ((k.val + 1) % 256 &&& MSG_ID_MAX) ≠ k.val := by
    decide +kernel
  constructor
  · have := (h ⟨(m % 256), Nat.mod_lt _ (by omega)⟩).1
    simp only [Nat.mod_add_mod] at this
    exact this
  · intro hm; exact (h ⟨m, hm⟩).2

theorem packOp2_wf (o1 o2 : Op) (n : Nat) (t : Tx) (o1' o2' : Op) (t' : Tx)
    (hi1 : o1.Inv) (hi2 : o2.Inv) (hS : t.payload.size % 2 = 0)
    (hf1 : o1.done = false → o1.required n ≤ t.payload.size)
    (hf2 : o2.done = false → o2.required n ≤ t.payload.size)
    (h : packOp2 o1 o2 n t = .ok (o1', o2', t')) : StepWF o1 o2 n t o1' o2' t' := by
  unfold packOp2 at h
  simp only [packOp_eq] at h
  have hid := msgid_rule t.msgId
  cases h1 : o1.done <;> cases h2 : o2.done <;> simp only [h1, h2] at h
  · -- both pending
    cases hp : o1.pack n t.payload 0 with
    | error e => simp only [hp] at h; cases h
    | ok r =>
      obtain ⟨o1a, b1, sz1⟩ := r
      simp only [hp] at h
      obtain ⟨c1, k1⟩ := pack_contract hi1 (by simpa using hS) (by simpa using hf1 h1) hp
      try simp only [Nat.sub_zero] at c1
      simp only [k1.1] at h
      by_cases hfit : t.payload.size - sz1 ≥ o2.required n
      · simp only [hfit, if_true] at h
        cases hq : o2.pack n b1 sz1 with
        | error e => simp only [hq] at h; cases h
        | ok r2 =>
          obtain ⟨o2a, b2, sz2⟩ := r2
          simp only [hq] at h
          cases h
          have hev : (b1.size - sz1) % 2 = 0 := by rw [k1.1]; have := c1.even; have := c1.le_avail; omega
          obtain ⟨c2, k2⟩ := pack_contract hi2 hev (by rw [k1.1]; exact hfit) hq
          rw [k1.1] at c2
          refine ⟨by simp [k2.1, k1.1], c1.inv, c2.inv, c1.dg, c2.dg, by simp [h1], fun _ => ⟨rfl, hid.1, hid.2⟩, fun _ => ?_⟩
          right
          refine ⟨b1, sz1, sz2, hp, hq, rfl, c1.even, c1.pos h1, c2.even, ?_, hfit, k2⟩
          have := c2.le_avail; have := c1.le_avail; omega
      · simp only [hfit, if_false] at h
        cases h
        exact ⟨by simp [k1.1], c1.inv, hi2, c1.dg, rfl, by simp [h1], fun _ => ⟨rfl, hid.1, hid.2⟩, fun _ => Or.inl rfl⟩
  · cases hp : o1.pack n t.payload 0 with
    | error e => simp only [hp] at h; cases h
    | ok r =>
      obtain ⟨o1a, b1, sz1⟩ := r
      simp only [hp] at h
      cases h
      obtain ⟨c1, k1⟩ := pack_contract hi1 (by simpa using hS) (by simpa using hf1 h1) hp
      exact ⟨by simp [k1.1], c1.inv, hi2, c1.dg, rfl, by simp [h1], fun _ => ⟨rfl, hid.1, hid.2⟩, fun _ => Or.inl rfl⟩
  · cases hp : o2.pack n t.payload 0 with
    | error e => simp only [hp] at h; cases h
    | ok r =>
      obtain ⟨o2a, b1, sz1⟩ := r
      simp only [hp] at h
      cases h
      obtain ⟨c1, k1⟩ := pack_contract hi2 (by simpa using hS) (by simpa using hf2 h2) hp
      exact ⟨by simp [k1.1], hi1, c1.inv, rfl, c1.dg, by simp [h2], fun _ => ⟨rfl, hid.1, hid.2⟩, fun _ => Or.inl rfl⟩
  · cases h
    exact ⟨rfl, hi1, hi2, rfl, rfl, fun _ _ => ⟨rfl, rfl, rfl⟩, fun hh => absurd ⟨h1, h2⟩ hh,
      fun hh => absurd ⟨h1, h2⟩ hh⟩

/-! ### the concrete loop -/

/-- sender state for one device: the two operations and the transmit buffer -/
abbrev SendSt := Op × Op × Tx

def sendStep (n : Nat) (s : SendSt) : Except (Err × Tx) SendSt := packOp2 s.1 s.2.1 n s.2.2
def sendFin (s : SendSt) : Bool := s.1.done && s.2.1.done
def sendMu (s : SendSt) : Nat := s.1.mu + s.2.1.mu

/-- `Sender::send_impl` for one device: `loop { pack_op2; send; if is_done { break } }`; the first
component lists the sender state after every successful `pack` — its `Tx`s are the frames transmitted -/
def sendLoop (n : Nat) (s : SendSt) : List SendSt × Option (Option (Err × Tx)) :=
  runLoop (sendStep n) sendFin sendMu s

theorem packOp2_size {o1 o2 : Op} {n : Nat} {t : Tx} {o1' o2' : Op} {t' : Tx}
    (h : packOp2 o1 o2 n t = .ok (o1', o2', t')) : t'.payload.size = t.payload.size := by
  unfold packOp2 at h
  simp only [packOp_eq] at h
  cases h1 : o1.done <;> cases h2 : o2.done <;> simp only [h1, h2] at h
  · cases hp : o1.pack n t.payload 0 with
    | error e => simp only [hp] at h; cases h
    | ok r =>
      obtain ⟨o1a, b1, sz1⟩ := r
      simp only [hp] at h
      have k1 := (pack_keeps hp).1
      split at h
      · cases hq : o2.pack n b1 sz1 with
        | error e => simp only [hq] at h; cases h
        | ok r2 =>
          obtain ⟨o2a, b2, sz2⟩ := r2
          simp only [hq] at h
          cases h
          simp [(pack_keeps hq).1, k1]
      · cases h; simp [k1]
  · cases hp : o1.pack n t.payload 0 with
    | error e => simp only [hp] at h; cases h
    | ok r =>
      obtain ⟨o1a, b1, sz1⟩ := r
      simp only [hp] at h
      cases h; simp [(pack_keeps hp).1]
  · cases hp : o2.pack n t.payload 0 with
    | error e => simp only [hp] at h; cases h
    | ok r =>
      obtain ⟨o1a, b1, sz1⟩ := r
      simp only [hp] at h
      cases h; simp [(pack_keeps hp).1]
  · cases h; rfl

/-- the concrete loop and the loop over operation states run in lock step -/
theorem sendLoop_opLoop (n : Nat) (s : SendSt) :
    opLoop n s.2.2.payload.size (s.1, s.2.1) =
      ((sendLoop n s).1.map (fun x => (x.1, x.2.1)), (sendLoop n s).2.map (Option.map Prod.fst)) := by
  have := runLoop_sim (sendStep n) sendFin sendMu (next2 n s.2.2.payload.size) fin2 mu2
    (fun x => (x.1, x.2.1)) Prod.fst (fun x => x.2.2.payload.size = s.2.2.payload.size)
    (by
      intro a b ha h
      obtain ⟨o1, o2, t⟩ := a; obtain ⟨o1', o2', t'⟩ := b
      simp only [sendStep] at h
      simp only at ha ⊢
      rw [packOp2_size h, ha])
    (by
      intro a ha
      obtain ⟨o1, o2, t⟩ := a
      simp only at ha
      have := packOp2_next2 o1 o2 n t
      rw [ha] at this
      rw [← this]
      simp only [sendStep]
      cases packOp2 o1 o2 n t with
      | error e => rfl
      | ok r => rfl)
    (by intro a _; rfl)
    (by intro a _; rfl)
    s rfl
  exact this

/-- invariant of the concrete loop -/
def SendInv (n S : Nat) (s : SendSt) : Prop :=
  s.1.Inv ∧ s.2.1.Inv ∧ s.2.2.payload.size = S ∧ (Op.ofDg s.1.dg).required n ≤ S ∧ (Op.ofDg s.2.1.dg).required n ≤ S

theorem sendStep_wf {n S : Nat} (hS : S % 2 = 0) (a b : SendSt) (ha : SendInv n S a) (h : sendStep n a = .ok b) :
    StepWF a.1 a.2.1 n a.2.2 b.1 b.2.1 b.2.2 ∧ SendInv n S b := by
  obtain ⟨o1, o2, t⟩ := a; obtain ⟨o1', o2', t'⟩ := b
  obtain ⟨i1, i2, hsz, f1, f2⟩ := ha
  simp only at i1 i2 hsz f1 f2
  simp only [sendStep] at h
  have w := packOp2_wf o1 o2 n t o1' o2' t' i1 i2 (by rw [hsz]; exact hS)
    (fun _ => by rw [hsz]; exact Nat.le_trans (required_le_first _ _) f1)
    (fun _ => by rw [hsz]; exact Nat.le_trans (required_le_first _ _) f2) h
  refine ⟨w, w.inv1, w.inv2, ?_, ?_, ?_⟩
  · simp only; rw [w.size, hsz]
  · simp only; rw [w.dg1]; exact f1
  · simp only; rw [w.dg2]; exact f2

/-- every frame the loop transmits is well formed w.r.t. the sender state it was packed from -/
theorem sendLoop_stepwf {n S : Nat} (hS : S % 2 = 0) (s : SendSt) (hs : SendInv n S s) :
    ∀ (i : Nat) (h : i < (sendLoop n s).1.length),
      StepWF ((s :: (sendLoop n s).1)[i]'(by simp; omega)).1 ((s :: (sendLoop n s).1)[i]'(by simp; omega)).2.1 n
        ((s :: (sendLoop n s).1)[i]'(by simp; omega)).2.2
        ((sendLoop n s).1[i]).1 ((sendLoop n s).1[i]).2.1 ((sendLoop n s).1[i]).2.2 :=
  IsRun.forall_step (SendInv n S) (fun a b => StepWF a.1 a.2.1 n a.2.2 b.1 b.2.1 b.2.2)
    (fun a b ha h => sendStep_wf hS a b ha h) (runLoop_isRun _ _ _ s) hs

/-- number of frames the sender transmits for `(A, B)` from the buffer `t` -/
def framesOf (A B : Dg) (n : Nat) (t : Tx) : Nat := (sendLoop n (Op.ofDg A, Op.ofDg B, t)).1.length

end Autd3.Wire
