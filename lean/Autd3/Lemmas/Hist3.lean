import Autd3.Lemmas.Hist2
/-!
History independence / frame conditions (C02), part 3: `write_gain`, `write_foci_stm`, `write_gain_stm` stay
on the STM side for EVERY payload.
-/
open Autd3 Autd3.Fw Autd3.Wire Autd3.Gen.Cpu Autd3.Gen Autd3.Rt
namespace Autd3.Hist

theorem ctlWrite_stm {s s1 : State} {a v : Nat} (ha : a < 256) (hA : stmAddr a) (h : ctlWrite s a v = .ok s1) :
    StmSide s s1 := by
  rw [Rt.ctlWrite_main _ _ _ ha] at h; cases h; exact StmSide_wr _ _ _ hA

/-- the same after a CPU-side latch update `x` of `s` (`x` is read off the hypothesis) -/
theorem ctlWrite_stm2 {s x s1 : State} {a v : Nat} (ha : a < 256) (hA : stmAddr a) (h : ctlWrite x a v = .ok s1)
    (e : eraseStmSide x = eraseStmSide s) (c : x.ctl = s.ctl) : StmSide s s1 :=
  Side.trans ⟨e, by rw [c], fun _ _ => by rw [c]⟩ (ctlWrite_stm ha hA h)

theorem stmAddr_of {a : Nat} (h : 80 ≤ a ∧ a ≤ 99) : stmAddr a := Or.inr h

/-! ### `write_gain` -/

theorem writeGain_side (s s' : State) (d : Array Nat) (a : Nat) (p : Pre s) (h : writeGain s d = .ok (s', a)) :
    StmSide s s' := by
  unfold writeGain at h
  simp only [] at h
  split at h
  · cases h
  · rename_i hseg
    have hs : u8at d FwLayout.Gain_segment_off ≤ 1 := by omega
    generalize u8at d FwLayout.Gain_segment_off = seg at *
    have a1 : ADDR_STM_FREQ_DIV0 + seg < 256 := by simp only [ADDR_STM_FREQ_DIV0]; omega
    have a2 : ADDR_STM_REP0 + seg < 256 := by simp only [ADDR_STM_REP0]; omega
    have a3 : ADDR_STM_CYCLE0 + seg < 256 := by simp only [ADDR_STM_CYCLE0]; omega
    have a4 : ADDR_STM_MODE0 + seg < 256 := by simp only [ADDR_STM_MODE0]; omega
    have b1 : stmAddr (ADDR_STM_FREQ_DIV0 + seg) := stmAddr_of (by simp only [ADDR_STM_FREQ_DIV0]; omega)
    have b2 : stmAddr (ADDR_STM_REP0 + seg) := stmAddr_of (by simp only [ADDR_STM_REP0]; omega)
    have b3 : stmAddr (ADDR_STM_CYCLE0 + seg) := stmAddr_of (by simp only [ADDR_STM_CYCLE0]; omega)
    have b4 : stmAddr (ADDR_STM_MODE0 + seg) := stmAddr_of (by simp only [ADDR_STM_MODE0]; omega)
    split at h <;>
    · obtain ⟨s1, h1, h⟩ := bind_eq_ok h
      have e1 : StmSide s s1 := ctlWrite_stm2 a1 b1 h1 rfl rfl
      obtain ⟨s2, h2, h⟩ := bind_eq_ok h
      have e2 := e1.trans (ctlWrite_stm a2 b2 h2)
      obtain ⟨s3, h3, h⟩ := bind_eq_ok h
      have e3 := e2.trans (ctlWrite_stm a3 b3 h3)
      obtain ⟨s4, h4, h⟩ := bind_eq_ok h
      have e4 := e3.trans (ctlWrite_stm a4 b4 h4)
      obtain ⟨s5, h5, h⟩ := bind_eq_ok h
      have e5 : StmSide s s5 := e4.trans
        (ctlWrite_stm2 (a := ADDR_STM_MEM_WR_SEGMENT) (by decide) (stmAddr_of (by decide)) h5 rfl rfl)
      obtain ⟨s6, h6, h⟩ := bind_eq_ok h
      have e6 := e5.trans (ctlWrite_stm (a := ADDR_STM_MEM_WR_PAGE) (by decide) (stmAddr_of (by decide)) h6)
      obtain ⟨s7, h7, h⟩ := bind_eq_ok h
      have e7 := e6.trans (stmWriteWords_side _ _ _ _ h7)
      first
      | (obtain ⟨s8, h8, h⟩ := bind_eq_ok h
         have e8 := e7.trans (ctlWrite_stm (a := ADDR_STM_REQ_RD_SEGMENT) (by decide) (stmAddr_of (by decide)) h8)
         obtain ⟨s9, h9, h⟩ := bind_eq_ok h
         have e9 := e8.trans (ctlWrite_stm (a := ADDR_STM_TRANSITION_MODE) (by decide) (stmAddr_of (by decide)) h9)
         obtain ⟨s10, h10, h⟩ := bind_eq_ok h
         cases h
         exact e9.trans (saw_stm_side _ _ (Pre_of_StmSide e9 p) h10))
      | (cases h; exact e7)

/-! ### `write_foci_stm` -/

theorem StmSide_setStmWrite (s : State) (c : Nat) : StmSide s { s with stmWrite := c } := ⟨rfl, rfl, fun _ _ => rfl⟩

theorem fociDataPart_side (s s' : State) (d : Array Nat) (off sn : Nat) (h : fociDataPart s d off sn = .ok s') :
    StmSide s s' := by
  unfold fociDataPart at h
  simp only [] at h
  split at h
  · cases h
  · split at h
    · obtain ⟨s1, h1, h2⟩ := bind_eq_ok h
      cases h2
      exact (stmWriteWords_side _ _ _ _ h1).trans (StmSide_setStmWrite _ _)
    · obtain ⟨s1, h1, h2⟩ := bind_eq_ok h
      obtain ⟨s2, h3, h4⟩ := bind_eq_ok h2
      obtain ⟨s3, h5, h6⟩ := bind_eq_ok h4
      cases h6
      exact ((((stmWriteWords_side _ _ _ _ h1).trans (StmSide_setStmWrite _ _)).trans
        (ctlWrite_stm (a := ADDR_STM_MEM_WR_PAGE) (by decide) (stmAddr_of (by decide)) h3)).trans
        (stmWriteWords_side _ _ _ _ h5)).trans (StmSide_setStmWrite _ _)

theorem fociEndPart_side (s s' : State) (flag seg a : Nat) (p : Pre s) (h : fociEndPart s flag seg = .ok (s', a)) :
    StmSide s s' := by
  unfold fociEndPart at h
  simp only [] at h
  split at h
  · split at h
    · cases h
    · rename_i hseg
      split at h
      · cases h
      · have ha : ADDR_STM_CYCLE0 + seg < 256 := by simp only [ADDR_STM_CYCLE0]; omega
        have hb : stmAddr (ADDR_STM_CYCLE0 + seg) := stmAddr_of (by simp only [ADDR_STM_CYCLE0]; omega)
        obtain ⟨s1, h1, h⟩ := bind_eq_ok h
        have e1 : StmSide s s1 := ctlWrite_stm2 ha hb h1 rfl rfl
        split at h
        · exact e1.trans (stmSegmentUpdate_side _ _ _ _ _ _ (Pre_of_StmSide e1 p) h)
        · cases h; exact e1
  · cases h; exact Side.refl s

theorem StmSide_fociHead (s : State) (seg rep div tm tv nf ss : Nat) (hseg : seg ≤ 1) :
    StmSide s (fociHead s seg rep div tm tv nf ss) := by
  unfold fociHead
  have e0 : StmSide s (fociHeadCpu s seg rep div tm tv nf) := ⟨rfl, rfl, fun _ _ => rfl⟩
  exact ((((((e0.trans (StmSide_wr _ _ _ (stmAddr_of (by simp only [ADDR_STM_FREQ_DIV0]; omega)))).trans
    (StmSide_wr _ _ _ (stmAddr_of (by simp only [ADDR_STM_MODE0]; omega)))).trans
    (StmSide_wr _ _ _ (stmAddr_of (by simp only [ADDR_STM_SOUND_SPEED0]; omega)))).trans
    (StmSide_wr _ _ _ (stmAddr_of (by simp only [ADDR_STM_REP0]; omega)))).trans
    (StmSide_wr _ _ _ (stmAddr_of (by simp only [ADDR_STM_NUM_FOCI0]; omega)))).trans
    (StmSide_wr _ _ _ (stmAddr_of (by decide)))).trans (StmSide_wr _ _ _ (stmAddr_of (by decide)))

/-- **`write_foci_stm` stays on the STM side**, whatever the frame contains and whatever it answers -/
theorem writeFociStm_side (s s' : State) (d : Array Nat) (a : Nat) (p : Pre s) (h : writeFociStm s d = .ok (s', a)) :
    StmSide s s' := by
  cases hb : hasFlag (u8at d FwLayout.FociSTMSubseq_flag_off) FOCI_STM_FLAG_BEGIN
  · rw [writeFoci_subseq s d hb] at h
    obtain ⟨s2, h1, h2⟩ := bind_eq_ok h
    have e1 := fociDataPart_side _ _ _ _ _ h1
    exact e1.trans (fociEndPart_side _ _ _ _ _ (Pre_of_StmSide e1 p) h2)
  · cases g1 : validateTransitionMode s.stmSegment (u8at d FwLayout.FociSTMSubseq_segment_off)
        (u16at d FwLayout.FociSTMHead_rep_off) (u8at d FwLayout.FociSTMHead_transition_mode_off)
    · cases g2 : validateSilencerSettings s (u16at d FwLayout.FociSTMHead_freq_div_off) (sel s.modDiv s.modSegment)
      · by_cases hseg : u8at d FwLayout.FociSTMSubseq_segment_off ≤ 1
        · rw [writeFoci_begin s d _ rfl hseg hb g1 g2] at h
          obtain ⟨s2, h1, h2⟩ := bind_eq_ok h
          have e0 := StmSide_fociHead s _ (u16at d FwLayout.FociSTMHead_rep_off) (u16at d FwLayout.FociSTMHead_freq_div_off)
            (u8at d FwLayout.FociSTMHead_transition_mode_off) (u64at d FwLayout.FociSTMHead_transition_value_off)
            (u8at d FwLayout.FociSTMHead_num_foci_off) (u16at d FwLayout.FociSTMHead_sound_speed_off) hseg
          have e1 := e0.trans (fociDataPart_side _ _ _ _ _ h1)
          exact e1.trans (fociEndPart_side _ _ _ _ _ (Pre_of_StmSide e1 p) h2)
        · unfold writeFociStm at h
          simp only [hb, if_true, g1, g2, Bool.false_eq_true, if_false] at h
          rw [if_pos (by omega)] at h
          cases h
      · unfold writeFociStm at h
        simp only [hb, if_true, g1, g2, Bool.false_eq_true, if_false] at h
        cases h
        exact Side.refl s
    · unfold writeFociStm at h
      simp only [hb, if_true, g1] at h
      cases h
      exact Side.refl s

/-! ### `write_gain_stm` -/

theorem gainStmWritePattern_side (s s' : State) (seg off : Nat) (d : Array Nat) (f : Nat → Nat)
    (h : gainStmWritePattern s seg off d f = .ok s') : StmSide s s' := by
  unfold gainStmWritePattern at h
  simp only [] at h
  obtain ⟨s1, h1, h2⟩ := bind_eq_ok h
  cases h2
  exact (stmWriteWords_side _ _ _ _ h1).trans ⟨rfl, rfl, fun _ _ => rfl⟩

theorem gstmWriteList_side (seg off : Nat) (d : Array Nat) (fs : List (Nat → Nat)) :
    ∀ s s', gstmWriteList seg off d s fs = .ok s' → StmSide s s' := by
  induction fs with
  | nil => intro s s' h; cases h; exact Side.refl s
  | cons f fs ih =>
    intro s s' h
    obtain ⟨s1, h1, h2⟩ := bind_eq_ok h
    exact (gainStmWritePattern_side _ _ _ _ _ _ h1).trans (ih _ _ h2)

theorem gstmEndPart_side (s s' : State) (flag seg a : Nat) (hseg : seg ≤ 1) (p : Pre s)
    (h : gstmEndPart s flag seg = .ok (s', a)) : StmSide s s' := by
  unfold gstmEndPart at h
  simp only [] at h
  have ha : ADDR_STM_CYCLE0 + seg < 256 := by simp only [ADDR_STM_CYCLE0]; omega
  have hb : stmAddr (ADDR_STM_CYCLE0 + seg) := stmAddr_of (by simp only [ADDR_STM_CYCLE0]; omega)
  have tail : ∀ s0, StmSide s s0 → ∀ r,
      (if hasFlag flag GAIN_STM_FLAG_END = true then do
          let s ← ctlWrite { s0 with stmMode := setSel s0.stmMode seg STM_MODE_GAIN } (ADDR_STM_CYCLE0 + seg)
            ((max (sel s0.stmCycle seg) 1 - 1) % 65536)
          if hasFlag flag GAIN_STM_FLAG_UPDATE = true then stmSegmentUpdate s seg s.stmTrMode s.stmTrValue
          else pure (s, NO_ERR)
        else pure (s0, NO_ERR)) = Except.ok r → StmSide s r.1 := by
    intro s0 e0 r hr
    split at hr
    · obtain ⟨s1, h1, hr⟩ := bind_eq_ok hr
      have e1 : StmSide s s1 := e0.trans (ctlWrite_stm2 ha hb h1 rfl rfl)
      split at hr
      · obtain ⟨r1, r2⟩ := r
        exact e1.trans (stmSegmentUpdate_side _ _ _ _ _ _ (Pre_of_StmSide e1 p) hr)
      · cases hr; exact e1
    · cases hr; exact e0
  split at h
  · obtain ⟨s1, h1, h⟩ := bind_eq_ok h
    exact tail s1 (ctlWrite_stm (a := ADDR_STM_MEM_WR_PAGE) (by decide) (stmAddr_of (by decide)) h1) _ h
  · exact tail s (Side.refl s) _ h

theorem gstmTail_side (s s' : State) (d : Array Nat) (off flag seg a : Nat) (hseg : seg ≤ 1) (p : Pre s)
    (h : gstmTail s d off flag seg = .ok (s', a)) : StmSide s s' := by
  by_cases hm : s.gainStmMode ≤ 2
  · rw [gstmTail_eq s d off flag seg hm] at h
    obtain ⟨s1, h1, h2⟩ := bind_eq_ok h
    have e1 := gstmWriteList_side _ _ _ _ _ _ h1
    exact e1.trans (gstmEndPart_side _ _ _ _ _ hseg (Pre_of_StmSide e1 p) h2)
  · unfold gstmTail at h
    simp only [GAIN_STM_MODE_INTENSITY_PHASE_FULL, GAIN_STM_MODE_PHASE_FULL, GAIN_STM_MODE_PHASE_HALF] at h
    rw [if_neg (by omega), if_neg (by omega), if_neg (by omega)] at h
    cases h
    exact Side.refl s

theorem StmSide_gstmHead (s : State) (seg rep div tm tv mode : Nat) (hseg : seg ≤ 1) :
    StmSide s (gstmHead s seg rep div tm tv mode) := by
  unfold gstmHead
  have e0 : StmSide s (gstmHeadCpu s seg rep div tm tv mode) := ⟨rfl, rfl, fun _ _ => rfl⟩
  exact ((((e0.trans (StmSide_wr _ _ _ (stmAddr_of (by simp only [ADDR_STM_FREQ_DIV0]; omega)))).trans
    (StmSide_wr _ _ _ (stmAddr_of (by simp only [ADDR_STM_MODE0]; omega)))).trans
    (StmSide_wr _ _ _ (stmAddr_of (by simp only [ADDR_STM_REP0]; omega)))).trans
    (StmSide_wr _ _ _ (stmAddr_of (by decide)))).trans (StmSide_wr _ _ _ (stmAddr_of (by decide)))

/-- **`write_gain_stm` stays on the STM side**, whatever the frame contains and whatever it answers -/
theorem writeGainStm_side (s s' : State) (d : Array Nat) (a : Nat) (p : Pre s) (h : writeGainStm s d = .ok (s', a)) :
    StmSide s s' := by
  have hseg : (if u8at d FwLayout.GainSTMSubseq_flag_off &&& GAIN_STM_FLAG_SEGMENT ≠ 0 then 1 else 0) ≤ 1 := by
    split <;> omega
  cases hb : hasFlag (u8at d FwLayout.GainSTMSubseq_flag_off) GAIN_STM_FLAG_BEGIN
  · rw [writeGainStm_subseq s d hb] at h
    exact gstmTail_side _ _ _ _ _ _ _ hseg p h
  · cases g1 : validateTransitionMode s.stmSegment
        (if u8at d FwLayout.GainSTMSubseq_flag_off &&& GAIN_STM_FLAG_SEGMENT ≠ 0 then 1 else 0)
        (u16at d FwLayout.GainSTMHead_rep_off) (u8at d FwLayout.GainSTMHead_transition_mode_off)
    · cases g2 : validateSilencerSettings s (u16at d FwLayout.GainSTMHead_freq_div_off) (sel s.modDiv s.modSegment)
      · rw [writeGainStm_begin s d _ rfl hb g1 g2] at h
        have e0 := StmSide_gstmHead s _ (u16at d FwLayout.GainSTMHead_rep_off) (u16at d FwLayout.GainSTMHead_freq_div_off)
          (u8at d FwLayout.GainSTMHead_transition_mode_off) (u64at d FwLayout.GainSTMHead_transition_value_off)
          (u8at d FwLayout.GainSTMHead_mode_off) hseg
        exact e0.trans (gstmTail_side _ _ _ _ _ _ _ hseg (Pre_of_StmSide e0 p) h)
      · have g1' : validateTransitionMode ({ s with gainStmMode := u8at d FwLayout.GainSTMHead_mode_off } : State).stmSegment
            (if u8at d FwLayout.GainSTMSubseq_flag_off &&& GAIN_STM_FLAG_SEGMENT ≠ 0 then 1 else 0)
            (u16at d FwLayout.GainSTMHead_rep_off) (u8at d FwLayout.GainSTMHead_transition_mode_off) = false := g1
        have g2' : validateSilencerSettings { s with gainStmMode := u8at d FwLayout.GainSTMHead_mode_off }
            (u16at d FwLayout.GainSTMHead_freq_div_off)
            (sel ({ s with gainStmMode := u8at d FwLayout.GainSTMHead_mode_off } : State).modDiv
              ({ s with gainStmMode := u8at d FwLayout.GainSTMHead_mode_off } : State).modSegment) = true := g2
        unfold writeGainStm at h
        simp only [hb, if_true, g1', g2', Bool.false_eq_true, if_false] at h
        cases h
        exact ⟨rfl, rfl, fun _ _ => rfl⟩
    · have g1' : validateTransitionMode ({ s with gainStmMode := u8at d FwLayout.GainSTMHead_mode_off } : State).stmSegment
          (if u8at d FwLayout.GainSTMSubseq_flag_off &&& GAIN_STM_FLAG_SEGMENT ≠ 0 then 1 else 0)
          (u16at d FwLayout.GainSTMHead_rep_off) (u8at d FwLayout.GainSTMHead_transition_mode_off) = true := g1
      unfold writeGainStm at h
      simp only [hb, if_true, g1'] at h
      cases h
      exact ⟨rfl, rfl, fun _ _ => rfl⟩

end Autd3.Hist
