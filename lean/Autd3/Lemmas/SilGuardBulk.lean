import Autd3.Lemmas.SilGuardPrims
/-!
# Closed forms of the bulk writers (`modWriteWords`, `stmWriteWords`, `pweWriteWords`)

The `for` loop in `Id.run` shared by the three writers is `bulkLoop`; `bulkLoop_closed` gives its size
and every cell; the `*_closed` lemmas say which memory of the state becomes `bulkLoop …` and that
nothing else changes.  (C08 itself only needs the frame part, `SilGuardPrims`; these are for reuse.)
-/
set_option linter.unusedSimpArgs false
set_option linter.unusedVariables false
namespace Autd3.SilGuard
open Autd3.Fw Autd3.Gen Autd3.Gen.Cpu

theorem forIn'_range'_id {β : Type} (I : Nat → β → Prop) (k : Nat) :
    ∀ (start : Nat) (f : (a : Nat) → a ∈ List.range' start k → β → Id (ForInStep β)) (init : β),
      I start init →
      (∀ a h b, I a b → ∃ b', f a h b = ForInStep.yield b' ∧ I (a + 1) b') →
      I (start + k) (Id.run (forIn' (List.range' start k) init f)) := by
  induction k with
  | zero => intro start f init h0 _; simpa using h0
  | succ k ih =>
    intro start f init h0 hstep
    obtain ⟨b', hb', hI'⟩ := hstep start (by simp [List.range'_succ]) init h0
    have : List.range' start (k + 1) = start :: List.range' (start + 1) k := List.range'_succ ..
    simp only [List.range'_succ, List.forIn'_cons]
    show I (start + (k + 1)) (Id.run (f start _ init >>= _))
    rw [hb']
    have e : start + (k + 1) = (start + 1) + k := by omega
    rw [e]
    exact ih (start + 1) _ b' hI' (fun a h b hb => hstep a _ b hb)

/-- invariant rule for `for h : i in [0:n]` loops in `Id` whose body always continues -/
theorem forIn'_range_id {β : Type} (I : Nat → β → Prop) (n : Nat)
    (f : (a : Nat) → a ∈ [:n] → β → Id (ForInStep β)) (init : β) (h0 : I 0 init)
    (hstep : ∀ a (h : a ∈ [:n]) b, I a b → ∃ b', f a h b = ForInStep.yield b' ∧ I (a + 1) b') :
    I n (Id.run (forIn' [:n] init f)) := by
  rw [Std.Legacy.Range.forIn'_eq_forIn'_range']
  have := forIn'_range'_id I n 0 (fun a h b => f a (by
      have := List.mem_range'_1.1 h
      simp at this
      exact ⟨Nat.zero_le _, this, Nat.mod_one _⟩) b) init h0 (fun a h b hb => hstep a _ b hb)
  simpa [Std.Legacy.Range.size] using this

/-- the loop shared by the bulk writers: `words` stored (truncated to 16 bit) at consecutive addresses from `off` -/
def bulkLoop (m : Array Nat) (off : Nat) (words : Array Nat) : Array Nat := Id.run do
  let mut m := m
  for h : i in [0:words.size] do
    m := m.setIfInBounds (off + i) (words[i] % 65536)
  return m

/-- closed form of the bulk loop: size unchanged; a cell inside the window holds the written word,
every other cell keeps its value -/
theorem bulkLoop_closed (m : Array Nat) (off : Nat) (ws : Array Nat) :
    (bulkLoop m off ws).size = m.size ∧
    ∀ j, rd (bulkLoop m off ws) j =
      if off ≤ j ∧ j < off + ws.size ∧ j < m.size then rd ws (j - off) % 65536 else rd m j := by
  unfold bulkLoop
  simp only [bind, pure, Id.run]
  show _
  refine forIn'_range_id
    (fun k (r : Array Nat) => r.size = m.size ∧ ∀ j, rd r j =
      if off ≤ j ∧ j < off + k ∧ j < m.size then rd ws (j - off) % 65536 else rd m j)
    ws.size _ m ⟨rfl, fun j => by
      have : ¬ (off ≤ j ∧ j < off + 0 ∧ j < m.size) := by omega
      rw [if_neg this]⟩ ?_
  intro a h b ⟨hsz, hrd⟩
  refine ⟨_, rfl, by simp [hsz], fun j => ?_⟩
  have ha : a < ws.size := h.2.1
  rw [rd_set, hrd j, hsz]
  by_cases hj : j = off + a
  · subst hj
    by_cases hlt : off + a < m.size
    · have : rd ws a = ws[a] := by
        unfold rd; simp [ha]
      simp [hlt, this]
    · simp [hlt]
  · have : (off ≤ j ∧ j < off + (a + 1) ∧ j < m.size) ↔ (off ≤ j ∧ j < off + a ∧ j < m.size) := by omega
    simp [hj, this]

/-- closed form of `stmWriteWords` (a non-empty write that does not panic): the selected segment's BRAM
is the bulk loop applied at `page * 16384 + base % 16384`; nothing else changes -/
theorem stmWriteWords_closed (s s' : State) (b : Nat) (w : Array Nat) (hw : w.size ≠ 0)
    (h : stmWriteWords s b w = .ok s') :
    (reg s ADDR_STM_MEM_WR_SEGMENT = 0 ∧
      s' = { s with stmMem0 := bulkLoop s.stmMem0 (reg s ADDR_STM_MEM_WR_PAGE * 16384 + b % 16384) w }) ∨
    (reg s ADDR_STM_MEM_WR_SEGMENT = 1 ∧
      s' = { s with stmMem1 := bulkLoop s.stmMem1 (reg s ADDR_STM_MEM_WR_PAGE * 16384 + b % 16384) w }) := by
  unfold stmWriteWords at h
  simp only [hw, ↓reduceIte] at h
  split at h
  · cases h
  · split at h
    · cases h
    · split at h
      · cases h
      · split at h
        · rename_i h0; cases h; exact Or.inl ⟨h0, rfl⟩
        · rename_i hle _ _ h0; cases h; exact Or.inr ⟨by omega, rfl⟩

theorem modWriteWords_closed (s s' : State) (b : Nat) (w : Array Nat) (hw : w.size ≠ 0)
    (h : modWriteWords s b w = .ok s') :
    (reg s ADDR_MOD_MEM_WR_SEGMENT = 0 ∧
      s' = { s with modMem0 := bulkLoop s.modMem0 (reg s ADDR_MOD_MEM_WR_PAGE * 16384 + b % 16384) w }) ∨
    (reg s ADDR_MOD_MEM_WR_SEGMENT = 1 ∧
      s' = { s with modMem1 := bulkLoop s.modMem1 (reg s ADDR_MOD_MEM_WR_PAGE * 16384 + b % 16384) w }) := by
  unfold modWriteWords at h
  simp only [hw, ↓reduceIte] at h
  split at h
  · cases h
  · split at h
    · cases h
    · split at h
      · cases h
      · split at h
        · rename_i h0; cases h; exact Or.inl ⟨h0, rfl⟩
        · rename_i hle _ _ h0; cases h; exact Or.inr ⟨by omega, rfl⟩

theorem pweWriteWords_closed (s s' : State) (b : Nat) (w : Array Nat) (h : pweWriteWords s b w = .ok s') :
    s' = { s with pwe := bulkLoop s.pwe (b % 16384) w } := by
  unfold pweWriteWords at h
  split at h
  · cases h
  · cases h; rfl
end Autd3.SilGuard
