import Autd3.Lemmas.StateByte2
/-!
C17, history level, part 3: histories with clock updates and thermal-sensor toggles.

`HEv` = a complete send of a datagram | `update_with_sys_time(t)` | assert/deassert of the thermal sensor.
`RunE s t h s' t'`: the history `h` runs from device `s` / transmit buffer `t`: every datagram is `Hist.Legal` where it
is sent and completely acknowledged (`Rt.Sends`, the real packer and `ecat_recv`), every clock update RETURNS
(`updateWithSysTime = .ok`: the recorded update panics F15/F17/F18 are excluded by hypothesis, nothing else is assumed
of the times — not even monotonicity).  `Inv r th s t`: what every device reached by such a history satisfies
(`runE_inv`), with `r = readsOf …` the reads flag the history asks for and `th = thermoOf …` the sensor.
-/
set_option linter.unusedSimpArgs false
set_option linter.unusedVariables false
open Autd3 Autd3.Fw Autd3.Wire Autd3.Gen.Cpu Autd3.Gen Autd3.Rt Autd3.Hist
namespace Autd3.SB

inductive HEv where
  | send (dg : Dg)
  | tick (t : Nat)
  | thermo (on : Bool)

inductive RunE : State → Tx → List HEv → State → Tx → Prop
  | nil (s : State) (t : Tx) : RunE s t [] s t
  | send {s : State} {t : Tx} {s1 : State} {t1 : Tx} {s' : State} {t' : Tx} {dg : Dg} {rest : List HEv}
      (legal : Legal s dg) (sends : Sends dg s t t1 s1) (tail : RunE s1 t1 rest s' t') :
      RunE s t (.send dg :: rest) s' t'
  | tick {s : State} {t : Tx} {s1 : State} {s' : State} {t' : Tx} {tm : Nat} {rest : List HEv}
      (ok : updateWithSysTime s tm = .ok s1) (tail : RunE s1 t rest s' t') : RunE s t (.tick tm :: rest) s' t'
  | thermo {s : State} {t : Tx} {s' : State} {t' : Tx} {on : Bool} {rest : List HEv}
      (tail : RunE (setThermo s on) t rest s' t') : RunE s t (.thermo on :: rest) s' t'

theorem RunE.append {s : State} {t : Tx} {h1 : List HEv} {s1 : State} {t1 : Tx} (r1 : RunE s t h1 s1 t1)
    {h2 : List HEv} {s2 : State} {t2 : Tx} (r2 : RunE s1 t1 h2 s2 t2) : RunE s t (h1 ++ h2) s2 t2 := by
  induction r1 with
  | nil s t => exact r2
  | send l sd _ ih => exact RunE.send l sd (ih r2)
  | tick ok _ ih => exact RunE.tick ok (ih r2)
  | thermo _ ih => exact RunE.thermo (ih r2)

/-- a run is a function of the start and the history -/
theorem RunE.unique {s : State} {t : Tx} {h : List HEv} {s1 s2 : State} {t1 t2 : Tx} (r1 : RunE s t h s1 t1)
    (r2 : RunE s t h s2 t2) : s1 = s2 ∧ t1 = t2 := by
  induction r1 with
  | nil s t => cases r2; exact ⟨rfl, rfl⟩
  | send l sd _ ih =>
    cases r2 with
    | send l2 sd2 tl2 =>
      obtain ⟨rfl, rfl⟩ := Rt.Sends_unique sd sd2
      exact ih tl2
  | tick ok _ ih =>
    cases r2 with
    | tick ok2 tl2 =>
      rw [ok] at ok2; cases ok2
      exact ih tl2
  | thermo _ ih =>
    cases r2 with
    | thermo tl2 => exact ih tl2

/-- splitting a run of `h1 ++ h2` -/
theorem RunE.split {s : State} {t : Tx} {h1 h2 : List HEv} {s2 : State} {t2 : Tx} (r : RunE s t (h1 ++ h2) s2 t2) :
    ∃ s1 t1, RunE s t h1 s1 t1 ∧ RunE s1 t1 h2 s2 t2 := by
  induction h1 generalizing s t with
  | nil => exact ⟨s, t, RunE.nil _ _, r⟩
  | cons e es ih =>
    cases r with
    | send l sd tl => obtain ⟨a, b, r1, r2⟩ := ih tl; exact ⟨a, b, RunE.send l sd r1, r2⟩
    | tick ok tl => obtain ⟨a, b, r1, r2⟩ := ih tl; exact ⟨a, b, RunE.tick ok r1, r2⟩
    | thermo tl => obtain ⟨a, b, r1, r2⟩ := ih tl; exact ⟨a, b, RunE.thermo r1, r2⟩

/-- a `Hist.Run` (sends only) is a `RunE` -/
theorem RunE.of_run {s : State} {t : Tx} {h : List Dg} {s' : State} {t' : Tx} (r : Run s t h s' t') :
    RunE s t (h.map HEv.send) s' t' := by
  induction r with
  | nil s t => exact RunE.nil _ _
  | cons l sd _ ih => exact RunE.send l sd ih

/-- the reads flag / the sensor a history asks for -/
def readsEv (r : Bool) : HEv → Bool
  | .send dg => readsStep r dg
  | _ => r
def thermoEv (th : Bool) : HEv → Bool
  | .thermo on => on
  | _ => th
def readsOf (r : Bool) (h : List HEv) : Bool := h.foldl readsEv r
def thermoOf (th : Bool) (h : List HEv) : Bool := h.foldl thermoEv th

/-! ### bit 0 of the state word -/

theorem and_keep0 (x m : Nat) (hm : m % 2 = 1) : (x &&& m) % 2 = x % 2 := by
  have := Nat.and_mod_two_pow (a := x) (b := m) (n := 1)
  simp only [Nat.pow_one] at this
  rw [this, hm]
  rcases Nat.mod_two_eq_zero_or_one x with h | h <;> rw [h] <;> rfl

theorem or_keep0 (x m : Nat) (hm : m % 2 = 0) : (x ||| m) % 2 = x % 2 := by
  have := Nat.or_mod_two_pow (a := x) (b := m) (n := 1)
  simp only [Nat.pow_one] at this
  rw [this, hm]
  rcases Nat.mod_two_eq_zero_or_one x with h | h <;> rw [h] <;> rfl

theorem fpgaStateWord_bit0 (st a b c : Nat) : fpgaStateWord st a b c % 2 = st % 2 := by
  unfold fpgaStateWord
  simp only []
  have e1 : (if a = 0 then st &&& (65535 - 2) else st ||| 2) % 2 = st % 2 := by
    split
    · exact and_keep0 _ _ (by decide)
    · exact or_keep0 _ _ (by decide)
  generalize (if a = 0 then st &&& (65535 - 2) else st ||| 2) = x at e1
  have e2 : (if b = 0 then x &&& (65535 - 4) else x ||| 4) % 2 = x % 2 := by
    split
    · exact and_keep0 _ _ (by decide)
    · exact or_keep0 _ _ (by decide)
  generalize (if b = 0 then x &&& (65535 - 4) else x ||| 4) = y at e2
  split
  · rw [or_keep0 _ _ (by decide), e2, e1]
  · rw [and_keep0 _ _ (by decide), e2, e1]

/-! ### the shape of one clock update -/

/-- the device after a clock update: swap chains `mw`, `sw`, state word `st`, rx byte `rx`, clock `tm` -/
def tickState (s : State) (mw sw : Swap) (st rx tm : Nat) : State :=
  { s with modSwap := mw, stmSwap := sw, ctl := s.ctl.setIfInBounds ADDR_FPGA_STATE st, rxData := rx, dcSysTime := tm }

theorem reg_tickState_ne (s : State) (mw sw : Swap) (st rx tm x : Nat) (hx : x ≠ ADDR_FPGA_STATE) :
    reg (tickState s mw sw st rx tm) x = reg s x := by
  unfold reg tickState
  simp only []
  rw [Autd3.Rt.rd_set, if_neg (by omega)]

theorem reg_tickState_eq (s : State) (mw sw : Swap) (st rx tm : Nat) (h : 1 < s.ctl.size) :
    reg (tickState s mw sw st rx tm) ADDR_FPGA_STATE = st := by
  unfold reg tickState
  simp only []
  rw [Autd3.Rt.rd_set, if_pos ⟨rfl, h⟩]

/-- `update_with_sys_time` + `read_fpga_state`: both swap chains are updated, register 1 (FPGA_STATE) gets the new
state word — same bit 0 —, the rx byte may change, the clock is set; nothing else -/
theorem update_form (s s' : State) (tm : Nat) (h : updateWithSysTime s tm = .ok s') :
    ∃ mw sw st r, s.modSwap.update (gpioIn s) tm = .ok mw ∧ s.stmSwap.update (gpioIn s) tm = .ok sw ∧
      st % 2 = reg s ADDR_FPGA_STATE % 2 ∧ s' = tickState s mw sw st r tm := by
  have h0 := h
  unfold updateWithSysTime at h
  obtain ⟨mw, hm, h⟩ := Hist.bind_eq_ok h
  obtain ⟨sw, hs, h⟩ := Hist.bind_eq_ok h
  rw [P02.updateWithSysTime_eq s tm mw sw hm hs] at h0
  simp only [Except.ok.injEq] at h0
  refine ⟨mw, sw, fpgaStateWord (reg s ADDR_FPGA_STATE) mw.cur sw.cur (reg s (ADDR_STM_CYCLE0 + sw.cur) + 1),
    (readFpgaState { s with modSwap := mw, stmSwap := sw, ctl := (s.ctl.setIfInBounds ADDR_FPGA_STATE
      (fpgaStateWord (reg s ADDR_FPGA_STATE) mw.cur sw.cur (reg s (ADDR_STM_CYCLE0 + sw.cur) + 1))) }).rxData,
    hm, hs, fpgaStateWord_bit0 _ _ _ _, ?_⟩
  rw [← h0]
  unfold P02.updCore
  simp only []
  rw [P02.readFpgaState_frame]
  rfl

theorem swapOK_update (w w' : Swap) (g : Nat → Bool) (tm : Nat) (h : w.update g tm = .ok w') (hw : SwapOK w) : SwapOK w' := by
  obtain ⟨e1, e2, _⟩ := update_shape w w' g tm h
  unfold SwapOK; rw [e1, e2]; exact hw

/-! ### the invariant -/

structure Inv (r th : Bool) (s : State) (t : Tx) : Prop where
  wf : WF s
  tx : TxOK t
  fresh : Fresh s t
  pc : ∃ acc, Obs.phaseCorrection s = pcArr s.numTr acc ∧ PcOK s.numTr acc
  used : s.isRxDataUsed = false
  segS : SegLe s.stmSwap
  segM : SegLe s.modSwap
  thermo : Obs.isThermo s = th
  reads : s.readsFpgaState = r
  ver : reg s ADDR_VERSION_NUM_MAJOR = ((Fpga.ENABLED_FEATURES_BITS <<< 8) ||| Fpga.VERSION_NUM_MAJOR) % 65536 ∧
    reg s ADDR_VERSION_NUM_MINOR = Fpga.VERSION_NUM_MINOR
  settled : Hist.Settled s

theorem inv_send {r th : Bool} {s : State} {t : Tx} (i : Inv r th s t) {dg : Dg} (hL : Legal s dg) {t1 : Tx} {s1 : State}
    (hS : Sends dg s t t1 s1) : Inv (readsStep r dg) th s1 t1 := by
  obtain ⟨acc, hp, hk⟩ := i.pc
  obtain ⟨a, b, c, n, p, k⟩ := step_inv _ _ i.wf i.tx i.fresh _ hL _ _ hS acc hp hk
  obtain ⟨g, rr⟩ := sends_gate s t i.wf i.tx i.fresh dg hL t1 s1 hS
  have q := sends_sq dg s t t1 s1 hS
  refine ⟨a, b, c, ⟨pcStep acc dg, by rw [n]; exact p, by rw [n]; exact k⟩, g.used.trans i.used, q.1 i.segS, q.2 i.segM,
    ?_, by rw [rr, i.reads], ?_, sends_settled dg s t t1 s1 hS a.ctl i.settled⟩
  · have := i.thermo
    unfold Obs.isThermo at this ⊢
    rw [g.regs ADDR_FPGA_STATE (by decide) (by decide)]; exact this
  · rw [g.regs ADDR_VERSION_NUM_MAJOR (by decide) (by decide), g.regs ADDR_VERSION_NUM_MINOR (by decide) (by decide)]
    exact i.ver

theorem reg_set_ne (s : State) (c : Array Nat) (a v x : Nat) (hx : x ≠ a) :
    rd (s.ctl.setIfInBounds a v) x = rd s.ctl x := by
  rw [Autd3.Rt.rd_set, if_neg (by omega)]

theorem inv_tick {r th : Bool} {s : State} {t : Tx} (i : Inv r th s t) {tm : Nat} {s1 : State}
    (h : updateWithSysTime s tm = .ok s1) : Inv r th s1 t := by
  obtain ⟨mw, sw, st, rx, hm, hs, hst, rfl⟩ := update_form s s1 tm h
  have hW := i.wf
  have hreg := reg_tickState_ne s mw sw st rx tm
  refine ⟨⟨by simpa [tickState] using hW.ctl, hW.phaseCorr, hW.pwe, hW.modMem0, hW.modMem1, hW.stmMem0, hW.stmMem1, hW.numTr,
      hW.flags, swapOK_update _ _ _ _ hm hW.modSwap, swapOK_update _ _ _ _ hs hW.stmSwap, ?_, ?_, ?_, ?_⟩, i.tx, i.fresh, ?_,
      i.used, update_segLe _ _ _ _ hs i.segS, update_segLe _ _ _ _ hm i.segM, ?_, i.reads, ?_, ?_⟩
  · rw [hreg _ (by decide)]; exact hW.modDiv0
  · rw [hreg _ (by decide)]; exact hW.modDiv1
  · rw [hreg _ (by decide)]; exact hW.stmDiv0
  · rw [hreg _ (by decide)]; exact hW.stmDiv1
  · obtain ⟨acc, hp, hk⟩ := i.pc
    exact ⟨acc, hp, hk⟩
  · have := i.thermo
    unfold Obs.isThermo at this ⊢
    rw [reg_tickState_eq s mw sw st rx tm (by rw [hW.ctl]; decide), hst]; exact this
  · rw [hreg _ (by decide), hreg _ (by decide)]; exact i.ver
  · have := i.settled
    unfold Hist.Settled at this ⊢
    rw [hreg _ (by decide)]; exact this

theorem inv_thermo {r th : Bool} {s : State} {t : Tx} (i : Inv r th s t) (on : Bool) : Inv r on (setThermo s on) t := by
  have hW := i.wf
  have hreg : ∀ x, x ≠ ADDR_FPGA_STATE → reg (setThermo s on) x = reg s x := by
    intro x hx
    exact reg_set_ne s s.ctl _ _ _ hx
  refine ⟨⟨by simpa [setThermo] using hW.ctl, hW.phaseCorr, hW.pwe, hW.modMem0, hW.modMem1, hW.stmMem0, hW.stmMem1, hW.numTr,
      hW.flags, hW.modSwap, hW.stmSwap, ?_, ?_, ?_, ?_⟩, i.tx, i.fresh, ?_, i.used, i.segS, i.segM, ?_, i.reads, ?_, ?_⟩
  · rw [hreg _ (by decide)]; exact hW.modDiv0
  · rw [hreg _ (by decide)]; exact hW.modDiv1
  · rw [hreg _ (by decide)]; exact hW.stmDiv0
  · rw [hreg _ (by decide)]; exact hW.stmDiv1
  · obtain ⟨acc, hp, hk⟩ := i.pc
    exact ⟨acc, hp, hk⟩
  · unfold Obs.isThermo
    have e : reg (setThermo s on) ADDR_FPGA_STATE =
        if on then reg s ADDR_FPGA_STATE ||| 1 else reg s ADDR_FPGA_STATE &&& (65535 - 1) := by
      unfold reg setThermo
      simp only []
      rw [Autd3.Rt.rd_set, if_pos ⟨rfl, by rw [hW.ctl]; decide⟩]
      rfl
    rw [e]
    cases on
    · simp only [Bool.false_eq_true, if_false]
      have := Nat.and_mod_two_pow (a := reg s ADDR_FPGA_STATE) (b := 65535 - 1) (n := 1)
      simp only [Nat.pow_one] at this
      rw [this]
      simp
    · simp only [if_true]
      have := Nat.or_mod_two_pow (a := reg s ADDR_FPGA_STATE) (b := 1) (n := 1)
      simp only [Nat.pow_one] at this
      rw [this]
      rcases Nat.mod_two_eq_zero_or_one (reg s ADDR_FPGA_STATE) with h | h <;> rw [h] <;> decide
  · rw [hreg _ (by decide), hreg _ (by decide)]; exact i.ver
  · have := i.settled
    unfold Hist.Settled at this ⊢
    rw [hreg _ (by decide)]; exact this

/-- **invariant of a history** -/
theorem runE_inv {s : State} {t : Tx} {h : List HEv} {s' : State} {t' : Tx} (run : RunE s t h s' t') :
    ∀ (r th : Bool), Inv r th s t → Inv (readsOf r h) (thermoOf th h) s' t' := by
  induction run with
  | nil s t => intro r th i; exact i
  | send l sd _ ih => intro r th i; exact ih _ _ (inv_send i l sd)
  | tick ok _ ih => intro r th i; exact ih _ _ (inv_tick i ok)
  | thermo _ ih => intro r th i; exact ih _ _ (inv_thermo i _)

/-- the power-on device satisfies the invariant: reads flag off, sensor off -/
theorem inv_new (numTr now : Nat) (hn : numTr ≤ 249) (p0 : State) (hp0 : Fw.new numTr now = .ok p0) (t0 : Tx)
    (ht0 : TxOK t0) : Inv false false p0 t0 := by
  obtain ⟨hW0, hn0, hpc0, hF0⟩ := new_facts numTr now hn p0 hp0
  obtain ⟨q1, q2⟩ := new_segLe numTr now p0 hp0
  have e2 := P02.new_eq numTr now hn
  rw [hp0] at e2
  simp only [Except.ok.injEq] at e2
  have hk := P02.clearResult_kept (P02.preClear numTr now)
  have hr := P02.clearResult_keeps_regs (P02.preClear numTr now)
  have c := P02.cleared_clearResult _ (P02.wf_preClear numTr now hn)
  refine ⟨hW0, ht0, hF0 t0, ⟨none, by rw [hpc0, hn0]; rfl, trivial⟩, ?_, q1, q2, ?_, ?_, ⟨?_, ?_⟩, ?_⟩
  · rw [e2, hk.2.2.2.2.2.2.2.1]; rfl
  · unfold Obs.isThermo reg
    rw [e2, show ADDR_FPGA_STATE = 1 from rfl, hr 1 (by simp)]
    simp [P02.preClear, Autd3.Rt.rd_set, ADDR_VERSION_NUM_MAJOR, ADDR_VERSION_NUM_MINOR, ADDR_FPGA_STATE, rd]
  · rw [e2]; exact c.reads
  · unfold reg
    rw [e2, hr ADDR_VERSION_NUM_MAJOR (by simp [ADDR_VERSION_NUM_MAJOR])]
    simp [P02.preClear, Autd3.Rt.rd_set, ADDR_VERSION_NUM_MAJOR, ADDR_VERSION_NUM_MINOR]
  · unfold reg
    rw [e2, hr ADDR_VERSION_NUM_MINOR (by simp [ADDR_VERSION_NUM_MINOR])]
    simp [P02.preClear, Autd3.Rt.rd_set, ADDR_VERSION_NUM_MAJOR, ADDR_VERSION_NUM_MINOR]
  · unfold Hist.Settled reg
    rw [e2, show ADDR_CTL_FLAG = 0 from rfl, c.flag0, c.flagsInternal]

end Autd3.SB
