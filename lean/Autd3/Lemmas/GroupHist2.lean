import Autd3.Lemmas.GroupHist
/-!
# Histories of `group_send` / `send`, part 2: one call on any controller state, then induction
-/
namespace Autd3.Group

/-! ## which exit of `group_send` touches the `tx` buffer -/

/-- `group_send` gets as far as `send_impl`: keys and datagrams match and every generator is built -/
def Reaches (geo : Geometry) (km : Nat → Option Key) (dmap : List (Key × Dg)) : Prop :=
  (∀ k, usedKey geo km k → ∃ dg, dmap.lookup k = some dg ∧ dg.genFail = false) ∧ extraKeys geo km dmap = []

theorem groupSendTx_eq {geo : Geometry} (hwf : WF geo) (km : Nat → Option Key)
    (perm : List (Key × Filter) → List (Key × Filter)) (hperm : IsOrder perm)
    (dmap : List (Key × Dg)) (fault : Fault) (P : Ports) :
    (Reaches geo km dmap → groupSendTx perm geo km dmap fault P
        = sendImplTx geo ((devices geo).map (finalOp geo km dmap)) fault P) ∧
    (¬ Reaches geo km dmap → groupSendTx perm geo km dmap fault P = P) := by
  obtain ⟨fs0, hb, hnd0, hgood0, hkeys0⟩ := buildFilters_spec hwf km
  have hp := hperm fs0
  have hnd : ((perm fs0).map (·.1)).Nodup := (hp.map (·.1)).nodup_iff.mpr hnd0
  have hgood : ∀ p ∈ perm fs0, Good geo km p.1 p.2 := fun p hpm => hgood0 p (hp.mem_iff.mp hpm)
  have hkeys : ∀ k, k ∈ (perm fs0).map (·.1) ↔ usedKey geo km k := by
    intro k; rw [← hkeys0 k]; exact (hp.map (·.1)).mem_iff
  have hk := keyLoop_spec hwf km (perm fs0) hgood hnd
    { geo := geo, ops := (devices geo).map fun _ => none, dmap := dmap, visited := [] }
    (fun _ => none) rfl rfl
  unfold groupSendTx
  rw [hb]
  simp only []
  unfold groupSendWithTx
  simp only []
  revert hk
  cases hr : keyLoop true (geo.map (·.enable)) (perm fs0)
      { geo := geo, ops := (devices geo).map fun _ => none, dmap := dmap, visited := [] } with
  | mk e st =>
    cases e with
    | some e =>
      simp only []
      rintro ⟨_, (⟨k, hk, h1, _⟩ | ⟨k, hk, dg, h1, h2, _⟩)⟩
      · refine ⟨fun hre => ?_, fun _ => trivial⟩
        obtain ⟨dg, h, _⟩ := hre.1 k ((hkeys k).mp hk)
        rw [h1] at h; cases h
      · refine ⟨fun hre => ?_, fun _ => trivial⟩
        obtain ⟨dg', h, hf⟩ := hre.1 k ((hkeys k).mp hk)
        rw [h1] at h; cases h
        rw [h2] at hf; cases hf
    | none =>
      simp only []
      rintro ⟨hg, h1, h2, φ', h3, h4, h5⟩
      have h2' : st.dmap = leftover ((perm fs0).map (·.1)) dmap := h2
      have hext := leftover_eq hkeys dmap
      have hall : ∀ k, usedKey geo km k → ∃ dg, dmap.lookup k = some dg ∧ dg.genFail = false :=
        fun k hk => h1 k ((hkeys k).mpr hk)
      by_cases hemp : st.dmap.isEmpty = true
      · simp only [hemp, if_true]
        have hex : extraKeys geo km dmap = [] := by
          rw [← hext, ← h2', List.isEmpty_iff.mp hemp]; rfl
        refine ⟨fun _ => ?_, fun hn => absurd ⟨hall, hex⟩ hn⟩
        have hmap : (devices geo).map φ' = (devices geo).map (finalOp geo km dmap) := by
          apply List.map_congr_left
          intro d hd
          unfold finalOp
          cases hk : km d.idx with
          | none =>
            simp only []
            exact h5 d hd (fun k h => by rw [hk] at h; cases h)
          | some k =>
            simp only []
            have hused : usedKey geo km k := ⟨d, (mem_devices.mp hd).1, (mem_devices.mp hd).2, hk⟩
            obtain ⟨dg, hl, _⟩ := h1 k ((hkeys k).mpr hused)
            rw [hl, Option.map_some]
            exact h4 d hd k hk ((hkeys k).mpr hused) dg hl
        rw [hg, h3, hmap]
      · simp only [hemp, Bool.false_eq_true, if_false]
        refine ⟨fun hre => ?_, fun _ => trivial⟩
        exfalso; apply hemp
        have : (leftover ((perm fs0).map (·.1)) dmap).map (·.1) = [] := by rw [hext]; exact hre.2
        rw [h2', List.map_eq_nil_iff.mp this]; rfl

/-! ## one call: either nothing is packed, or `send_impl` runs on per-device operations -/

/-- a generated operation packs at least one frame, or fails at its first `pack` -/
theorem generate_hasWork (g : Gen) (d : Device) : (g.generate d).frames ≠ [] ∨ (g.generate d).err ≠ none := by
  unfold Gen.generate Dg.okFrames Dg.packErr Dg.nframes
  cases g.dg.kind with
  | gain => left; simp
  | mod =>
    simp only []
    by_cases h1 : g.dg.len < 2
    · right; simp [h1]
    · by_cases h2 : g.dg.len > 65536
      · right; simp [h2]
      · left
        simp only [h1, h2, if_false]
        split <;> simp

theorem failedAfterPacking_of_exit {geo : Geometry} {φ : Device → Option Op} {fault : Fault} {r : Result}
    (hpe : ∀ d ∈ devices geo, ∀ op, φ d = some op → ∀ e, op.err = some e → ∃ id, e = .pack id)
    (h : FailedExit geo φ fault r) : failedAfterPacking fault r := by
  rcases h with ⟨hr, s, hs⟩ | ⟨e, hr, d, hd, op, h1, h2⟩
  · subst hr hs; rfl
  · obtain ⟨id, rfl⟩ := hpe d hd op h1 e h2
    subst hr; rfl

theorem call_cases {geo : Geometry} (hwf : WF geo) (c : Call) (hord : c.Ordered) (P : Ports) :
    (c.outcome geo).geo = geo ∧
    (((c.outcome geo).log = [] ∧ c.tx geo P = P ∧ ¬ failedAfterPacking c.fault (c.outcome geo).result) ∨
     (∃ φ : Device → Option Op, Tagged φ (devices geo) ∧
        (∀ d ∈ devices geo, c.addresses d = false → φ d = none) ∧
        (∀ d ∈ devices geo, ∀ op, φ d = some op → ∀ e, op.err = some e → ∃ id, e = .pack id) ∧
        (∀ d ∈ devices geo, c.addresses d = true → ∃ op, φ d = some op ∧ (op.frames ≠ [] ∨ op.err ≠ none)) ∧
        (c.outcome geo).result = (sendImpl geo ((devices geo).map φ) c.fault).1 ∧
        (c.outcome geo).log = (sendImpl geo ((devices geo).map φ) c.fault).2 ∧
        c.tx geo P = sendImplTx geo ((devices geo).map φ) c.fault P)) := by
  obtain ⟨en, body, fault⟩ := c
  cases body with
  | group km perm dmap =>
    have hperm : IsOrder perm := hord
    simp only [Call.outcome, Call.tx]
    obtain ⟨htx1, htx2⟩ := groupSendTx_eq hwf km perm hperm dmap fault P
    obtain ⟨hg, hc⟩ := groupSend_cases hwf km perm hperm dmap fault
    refine ⟨hg, ?_⟩
    rcases hc with ⟨k, hu, hl, hr, hlog⟩ | ⟨k, dg, hu, hl, hf, hr, hlog⟩ | ⟨_, hne, hr, hlog⟩ | ⟨hall, hex, hr, hlog⟩
    · refine Or.inl ⟨hlog, htx2 ?_, by rw [hr]; simp [failedAfterPacking, failedAfterPackingB]⟩
      intro hre; obtain ⟨dg, h, _⟩ := hre.1 k hu; rw [hl] at h; cases h
    · refine Or.inl ⟨hlog, htx2 ?_, by rw [hr]; simp [failedAfterPacking, failedAfterPackingB]⟩
      intro hre; obtain ⟨dg', h, hf'⟩ := hre.1 k hu
      rw [hl] at h; cases h; rw [hf] at hf'; cases hf'
    · refine Or.inl ⟨hlog, htx2 (fun hre => hne hre.2), by rw [hr]; simp [failedAfterPacking, failedAfterPackingB]⟩
    · refine Or.inr ⟨finalOp geo km dmap, finalOp_tagged _ _ _ _, ?_, ?_, ?_, hr, hlog, htx1 ⟨hall, hex⟩⟩
      · intro d hd hna
        have he := (mem_devices.mp hd).2
        simp only [Call.addresses, he, Bool.true_and] at hna
        unfold finalOp
        cases hk : km d.idx with
        | none => rfl
        | some k => rw [hk] at hna; cases hna
      · intro d _ op hop e herr
        unfold finalOp at hop
        cases hk : km d.idx with
        | none => rw [hk] at hop; cases hop
        | some k =>
          simp only [hk] at hop
          cases hl : dmap.lookup k with
          | none => rw [hl] at hop; cases hop
          | some dg =>
            simp only [hl, Option.map_some, Option.some.injEq] at hop
            rw [← hop] at herr
            have herr' : dg.packErr = some e := herr
            exact ⟨dg.id, packErr_eq dg e herr'⟩
      · intro d hd ha
        have he := (mem_devices.mp hd).2
        simp only [Call.addresses, he, Bool.true_and] at ha
        cases hk : km d.idx with
        | none => rw [hk] at ha; cases ha
        | some k =>
          obtain ⟨dg, hl, _⟩ := hall k ⟨d, (mem_devices.mp hd).1, he, hk⟩
          refine ⟨(mkGen geo km k dg).generate d, by simp [finalOp, hk, hl], ?_⟩
          exact generate_hasWork _ d
  | plain dg =>
    simp only [Call.outcome, Call.tx]
    refine ⟨trivial, ?_⟩
    unfold send sendTx Dg.generator
    by_cases hgf : dg.genFail = true
    · simp only [hgf, if_true]
      exact Or.inl ⟨trivial, trivial, by simp [failedAfterPacking, failedAfterPackingB]⟩
    · simp only [hgf, Bool.false_eq_true, if_false]
      refine Or.inr ⟨fun dev => some (Gen.generate ⟨dg, dg.seenOf (geo.map (·.enable))⟩ dev), ?_, ?_, ?_, ?_, rfl, rfl, rfl⟩
      · intro d _ f hf
        exact generate_tagged _ d f hf
      · intro d hd hna
        have he := (mem_devices.mp hd).2
        simp [Call.addresses, he] at hna
      · intro d _ op hop e herr
        simp only [Option.some.injEq] at hop
        rw [← hop] at herr
        have herr' : dg.packErr = some e := herr
        exact ⟨dg.id, packErr_eq dg e herr'⟩
      · intro d _ _
        exact ⟨_, rfl, generate_hasWork _ d⟩

/-! ## one step of a history -/

theorem restore_nil (geo : Geometry) : restore geo [] = geo := by cases geo <;> rfl

theorem geoOf_wf {st : CtlState} (hwf : WF st.geo) (c : Call) : WF (c.geoOf st) := by
  unfold WF Call.geoOf at *
  rw [restore_map_idx, restore_length]; exact hwf

theorem step_geo {st : CtlState} (hwf : WF st.geo) (c : Call) (hord : c.Ordered) :
    (step st c).1.geo = c.geoOf st :=
  (call_cases (geoOf_wf hwf c) c hord st.ports).1

theorem step_wf {st : CtlState} (hwf : WF st.geo) (c : Call) (hord : c.Ordered) : WF (step st c).1.geo := by
  rw [step_geo hwf c hord]; exact geoOf_wf hwf c

/-- the rounds a `send_impl` transmits, as the `del` of the loop lemma -/
theorem sendImpl_del (geo : Geometry) (ops : List (Option Op)) (fault : Fault) (del : List (List Frame))
    (h : (sendLoop (fuelFor ops) geo ops fault 0 []).2 = [] ++ del) : (sendImpl geo ops fault).2 = del := by
  unfold sendImpl; rw [h]; rfl

/-- **clean slot ⇒ the device executes exactly what the single-call model logs for it**; the same
for a slot with an unsent id whose device the call addresses: it is packed again before anything is
transmitted, so the unsent payload is never executed -/
theorem step_exec {st : CtlState} (hwf : WF st.geo) (c : Call) (hord : c.Ordered) (i : Nat)
    (hc : (st.ports i).clean ∨
      ((st.ports i).repackable ∧ ∃ d ∈ c.geoOf st, d.idx = i ∧ c.addresses d = true)) :
    ((step st c).1.ports i).exec
      = (st.ports i).exec ++ (devFrames (c.outcome (c.geoOf st)).log i).map some := by
  have hwf' := geoOf_wf hwf c
  show (c.tx (c.geoOf st) st.ports i).exec = _
  rcases (call_cases hwf' c hord st.ports).2 with ⟨hlog, htx, _⟩ | ⟨φ, ht, _, _, hwk, _, hlog, htx⟩
  · rw [hlog, htx]; simp [devFrames]
  · obtain ⟨del, h1, h2, _, _⟩ := sendLoopTx_spec (c.geoOf st) (devices_nodup hwf'.nodup) i
      (fuelFor ((devices (c.geoOf st)).map φ)) φ c.fault 0 [] st.ports ht
    rw [hlog, htx, sendImpl_del _ _ _ del h1]
    apply h2
    rcases hc with hc | ⟨hf, d, hd, hi, ha⟩
    · exact Or.inl hc
    · have hde : d ∈ devices (c.geoOf st) := by
        apply mem_devices.mpr
        refine ⟨hd, ?_⟩
        unfold Call.addresses at ha
        cases he : d.enable with
        | true => rfl
        | false => rw [he] at ha; cases ha
      exact Or.inr ⟨hf, d, hde, hi, hwk d hde ha⟩

/-- **a device the call does not address**: its slot is not packed; the device looks at it once if
anything at all is transmitted -/
theorem step_unaddressed {st : CtlState} (hwf : WF st.geo) (c : Call) (hord : c.Ordered) (i : Nat)
    (hun : ∀ d ∈ c.geoOf st, d.idx = i → c.addresses d = false) :
    (step st c).1.ports i
      = if (c.outcome (c.geoOf st)).log = [] then st.ports i else (st.ports i).deliver := by
  have hwf' := geoOf_wf hwf c
  show c.tx (c.geoOf st) st.ports i = _
  rcases (call_cases hwf' c hord st.ports).2 with ⟨hlog, htx, _⟩ | ⟨φ, ht, hna, _, _, _, hlog, htx⟩
  · rw [hlog, htx]; simp
  · obtain ⟨del, h1, _, h3, _⟩ := sendLoopTx_spec (c.geoOf st) (devices_nodup hwf'.nodup) i
      (fuelFor ((devices (c.geoOf st)).map φ)) φ c.fault 0 [] st.ports ht
    rw [hlog, htx, sendImpl_del _ _ _ del h1]
    apply h3
    intro d hd hi
    exact hna d hd (hun d (mem_devices.mp hd).1 hi)

theorem fuelFor_ne_zero (ops : List (Option Op)) : fuelFor ops ≠ 0 := by unfold fuelFor; omega

/-- **slots after a call** that did not fail after packing: the buffer is as it was and nothing was
transmitted (key / generator errors), or the call ended right after a transmission and every slot is
clean — whatever the slots held before -/
theorem step_flushed {st : CtlState} (hwf : WF st.geo) (c : Call) (hord : c.Ordered)
    (hno : ¬ failedAfterPacking c.fault (step st c).2) :
    ((step st c).1.ports = st.ports ∧ (c.outcome (c.geoOf st)).log = []) ∨ AllClean (step st c).1.ports := by
  have hwf' := geoOf_wf hwf c
  show (c.tx (c.geoOf st) st.ports = st.ports ∧ _) ∨ AllClean (c.tx (c.geoOf st) st.ports)
  have hno' : ¬ failedAfterPacking c.fault (c.outcome (c.geoOf st)).result := hno
  rcases (call_cases hwf' c hord st.ports).2 with ⟨hlog, htx, _⟩ | ⟨φ, ht, _, hpe, _, hres, hlog, htx⟩
  · exact Or.inl ⟨htx, hlog⟩
  · obtain ⟨del, h1, _, _, h4⟩ := sendLoopTx_spec (c.geoOf st) (devices_nodup hwf'.nodup) 0
      (fuelFor ((devices (c.geoOf st)).map φ)) φ c.fault 0 [] st.ports ht
    rw [htx]
    rcases h4 (fun h => absurd h (fuelFor_ne_zero _)) with h | h
    · exact Or.inr h
    · exfalso; apply hno'
      rw [hres]
      exact failedAfterPacking_of_exit hpe h

theorem step_clean {st : CtlState} (hwf : WF st.geo) (c : Call) (hord : c.Ordered)
    (hpre : AllClean st.ports) (hno : ¬ failedAfterPacking c.fault (step st c).2) :
    AllClean (step st c).1.ports := by
  rcases step_flushed hwf c hord hno with ⟨h, _⟩ | h
  · rw [h]; exact hpre
  · exact h

/-! ## histories -/

theorem run_append (st : CtlState) (cs cs' : List Call) :
    run st (cs ++ cs') = ((run (run st cs).1 cs').1, (run st cs).2 ++ (run (run st cs).1 cs').2) := by
  induction cs generalizing st with
  | nil => rfl
  | cons c cs ih => simp only [List.cons_append, run, ih]

theorem run_snoc (st : CtlState) (cs : List Call) (c : Call) :
    (run st (cs ++ [c])).1 = (step (run st cs).1 c).1 := by
  rw [run_append]; rfl

theorem run_wf {st : CtlState} (hwf : WF st.geo) (cs : List Call) (hord : ∀ c ∈ cs, c.Ordered) :
    WF (run st cs).1.geo := by
  induction cs generalizing st with
  | nil => exact hwf
  | cons c cs ih =>
    exact ih (step_wf hwf c (hord c List.mem_cons_self)) (fun c' hc' => hord c' (List.mem_cons_of_mem _ hc'))

/-- **R1**: from clean slots, as long as no call failed after packing, the slots stay clean -/
theorem run_clean {st : CtlState} (hwf : WF st.geo) (hcl : AllClean st.ports) (cs : List Call)
    (hord : ∀ c ∈ cs, c.Ordered) (hno : NoUnsent st cs) : AllClean (run st cs).1.ports := by
  induction cs generalizing st with
  | nil => exact hcl
  | cons c cs ih =>
    have hc := hord c List.mem_cons_self
    exact ih (step_wf hwf c hc) (step_clean hwf c hc hcl hno.1)
      (fun c' hc' => hord c' (List.mem_cons_of_mem _ hc')) hno.2

theorem run_geo_of_no_en {st : CtlState} (hwf : WF st.geo) (cs : List Call) (hord : ∀ c ∈ cs, c.Ordered)
    (hen : ∀ c ∈ cs, c.en = []) : (run st cs).1.geo = st.geo := by
  induction cs generalizing st with
  | nil => rfl
  | cons c cs ih =>
    have hc := hord c List.mem_cons_self
    have h1 : (step st c).1.geo = st.geo := by
      rw [step_geo hwf c hc, Call.geoOf, hen c List.mem_cons_self, restore_nil]
    have := ih (st := (step st c).1) (by rw [h1]; exact hwf)
      (fun c' hc' => hord c' (List.mem_cons_of_mem _ hc')) (fun c' hc' => hen c' (List.mem_cons_of_mem _ hc'))
    simp only [run]; rw [this, h1]

/-- the executed sequence of a device does not change iff nothing new is executed -/
theorem deliver_exec_eq_iff (p : Port) : p.deliver.exec = p.exec ↔ p.clean := by
  unfold Port.deliver Port.clean
  split
  · next h => simp [h]
  · next h =>
    simp only [h, iff_false]
    intro he
    have := congrArg List.length he
    simp at this

/-! ## the weaker restriction: suspect slots must be addressed -/

/-- the call addresses the device with index `i` of the geometry it runs on -/
def Call.addressedIdx (c : Call) (geo : Geometry) (i : Nat) : Bool :=
  geo.any fun d => d.idx == i && c.addresses d

/-- the slots that may hold an unsent frame after call `c`, if those in `S` may before it:
a call that failed after packing adds the slots it addressed; a call that transmitted nothing (key /
generator error) changes nothing; any other call ends right after a transmission: none -/
def suspectsAfter (st : CtlState) (S : Nat → Bool) (c : Call) : Nat → Bool :=
  if failedAfterPackingB c.fault (step st c).2 then fun i => S i || c.addressedIdx (c.geoOf st) i
  else if (c.outcome (c.geoOf st)).log.isEmpty then S
  else fun _ => false

/-- **restriction R2**: every call addresses every slot that may hold an unsent frame -/
def Covered : CtlState → (Nat → Bool) → List Call → Prop
  | _, _, [] => True
  | st, S, c :: cs =>
    (∀ d ∈ c.geoOf st, S d.idx = true → c.addresses d = true) ∧ Covered (step st c).1 (suspectsAfter st S c) cs

/-- every slot that is not clean is a suspect -/
def SuspectsCover (st : CtlState) (S : Nat → Bool) : Prop := ∀ j, ¬ (st.ports j).clean → S j = true

theorem unaddressed_of_idx {c : Call} {geo : Geometry} {i : Nat} (h : c.addressedIdx geo i = false) :
    ∀ d ∈ geo, d.idx = i → c.addresses d = false := by
  intro d hd hi
  unfold Call.addressedIdx at h
  have := (List.any_eq_false.mp h) d hd
  simpa [hi] using this

theorem step_suspects {st : CtlState} (hwf : WF st.geo) (c : Call) (hord : c.Ordered) (S : Nat → Bool)
    (hinv : SuspectsCover st S) : SuspectsCover (step st c).1 (suspectsAfter st S c) := by
  intro j hj
  unfold suspectsAfter
  by_cases hf : failedAfterPackingB c.fault (step st c).2 = true
  · rw [if_pos hf]
    simp only [Bool.or_eq_true]
    by_cases hS : S j = true
    · exact Or.inl hS
    · by_cases ha : c.addressedIdx (c.geoOf st) j = true
      · exact Or.inr ha
      · exfalso
        have hcl : (st.ports j).clean := by
          by_cases h : (st.ports j).clean
          · exact h
          · exact absurd (hinv j h) hS
        have hu := step_unaddressed hwf c hord j (unaddressed_of_idx (by simpa using ha))
        apply hj
        rw [hu]
        split
        · exact hcl
        · exact Port.deliver_clean _
  · rw [if_neg hf]
    rcases step_flushed hwf c hord hf with ⟨hp, hlog⟩ | hall
    · rw [hlog]; simp only [List.isEmpty_nil, if_true]
      rw [hp] at hj
      exact hinv j hj
    · exact absurd (hall j) hj

theorem unaddressed_of_mem {geo : Geometry} (hwf : WF geo) (c : Call) (d : Device) (hd : d ∈ geo)
    (hun : c.addresses d = false) : ∀ d' ∈ geo, d'.idx = d.idx → c.addresses d' = false := by
  intro d' hd' hi
  rw [eq_of_idx_eq geo hwf.nodup d' hd' d hd hi]; exact hun

/-- **R2 ⇒ untouched**, for every call of the history -/
theorem covered_untouched : ∀ (cs : List Call) (st : CtlState) (S : Nat → Bool), WF st.geo → SuspectsCover st S →
    (∀ c ∈ cs, c.Ordered) → Covered st S cs →
    ∀ (pre : List Call) (c : Call) (post : List Call), cs = pre ++ c :: post →
    ∀ d ∈ c.geoOf (run st pre).1, c.addresses d = false →
      (step (run st pre).1 c).1.ports d.idx = (run st pre).1.ports d.idx
  | [], _, _, _, _, _, _, pre, c, post, h, _, _, _ => by cases pre <;> cases h
  | c0 :: cs, st, S, hwf, hinv, hord, hcov, pre, c, post, h, d, hd, hun => by
    have hc0 := hord c0 List.mem_cons_self
    cases pre with
    | nil =>
      simp only [List.nil_append, List.cons.injEq] at h
      obtain ⟨rfl, _⟩ := h
      show (step st c0).1.ports d.idx = st.ports d.idx
      have hd' : d ∈ c0.geoOf st := hd
      have hcl : (st.ports d.idx).clean := by
        by_cases hdirty : (st.ports d.idx).clean
        · exact hdirty
        · have := hcov.1 d hd' (hinv d.idx hdirty)
          rw [hun] at this; cases this
      rw [step_unaddressed hwf c0 hc0 d.idx (unaddressed_of_mem (geoOf_wf hwf c0) c0 d hd' hun)]
      split
      · rfl
      · exact Port.deliver_of_clean hcl
    | cons p pre =>
      simp only [List.cons_append, List.cons.injEq] at h
      obtain ⟨rfl, h⟩ := h
      exact covered_untouched cs (step st c0).1 (suspectsAfter st S c0) (step_wf hwf c0 hc0)
        (step_suspects hwf c0 hc0 S hinv) (fun c' hc' => hord c' (List.mem_cons_of_mem _ hc')) hcov.2
        pre c post h d hd hun

/-- R1 is a special case of R2 -/
theorem covered_of_noUnsent : ∀ (cs : List Call) (st : CtlState), NoUnsent st cs → Covered st (fun _ => false) cs
  | [], _, _ => trivial
  | c :: cs, st, h => by
    refine ⟨fun d _ hi => absurd hi (by simp), ?_⟩
    have hs : suspectsAfter st (fun _ => false) c = fun _ => false := by
      unfold suspectsAfter
      have : ¬ failedAfterPackingB c.fault (step st c).2 = true := h.1
      rw [if_neg this]
      split <;> rfl
    rw [hs]
    exact covered_of_noUnsent cs _ h.2

theorem suspectsCover_of_clean {st : CtlState} (h : AllClean st.ports) (S : Nat → Bool) : SuspectsCover st S :=
  fun j hj => absurd (h j) hj


/-! ## read-back -/

/-- the read-back the executed frames lead to (`Obs`, as in `devObs`; what `open` left in a slot
carries nothing the model observes) -/
def Port.obs (p : Port) : Obs := (p.exec.filterMap id).foldl Obs.apply Obs.init

theorem obs_of_exec {p q : Port} {l : List Frame} (h : q.exec = p.exec ++ l.map some) :
    q.obs = l.foldl Obs.apply p.obs := by
  unfold Port.obs
  rw [h, List.filterMap_append, List.foldl_append]
  congr 1
  induction l with
  | nil => rfl
  | cons a l _ => simp


end Autd3.Group
