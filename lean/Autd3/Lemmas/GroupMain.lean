import Autd3.Lemmas.GroupKeys
/-!
# Lemmas about `Model/Group.lean`, part 3: `group_send` as a whole, and the plain `send` it is compared with
-/
namespace Autd3.Group

theorem generate_tagged (g : Gen) (d : Device) : ∀ f ∈ (g.generate d).frames, f.dev = d.idx := by
  intro f hf
  simp only [Gen.generate, List.mem_map] at hf
  obtain ⟨j, _, rfl⟩ := hf
  rfl

theorem packErr_eq (dg : Dg) (e : Err) (h : dg.packErr = some e) : e = .pack dg.id := by
  unfold Dg.packErr at h
  cases hk : dg.kind with
  | gain => rw [hk] at h; cases h
  | mod =>
    rw [hk] at h
    simp only at h
    by_cases hc : dg.len < 2 ∨ dg.len > 65536
    · rw [if_pos hc] at h; exact (Option.some.inj h).symm
    · rw [if_neg hc] at h; cases h

theorem generate_payload (g g' : Gen) (d : Device) (h : g.dg = g'.dg) :
    (g.generate d).frames.map Frame.payload = (g'.generate d).frames.map Frame.payload := by
  simp [Gen.generate, Frame.payload, List.map_map, Function.comp_def, h]

/-- a result `Ok` means no operation had a pending `pack` error -/
theorem sendLoop_ok_err (geo : Geometry) :
    ∀ (fuel : Nat) (φ : Device → Option Op) (fault : Fault) (n : Nat) (log : List (List Frame)),
      (sendLoop fuel geo ((devices geo).map φ) fault n log).1 = .ok () →
      ∀ d ∈ devices geo, ∀ op, φ d = some op → op.err = none
  | 0, _, _, _, _, h => by simp [sendLoop] at h
  | fuel + 1, φ, fault, n, log, h => by
    unfold sendLoop at h
    cases hp : pack geo ((devices geo).map φ) with
    | error e => rw [hp] at h; simp at h
    | ok ro =>
      obtain ⟨round, ops'⟩ := ro
      obtain ⟨_, hops, _⟩ := pack_ok hp
      rw [hp] at h
      simp only [] at h
      by_cases hfs : fault = .send n
      · simp [hfs] at h
      · simp only [hfs, if_false] at h
        by_cases hfr : fault = .recv n
        · simp [hfr] at h
        · simp only [hfr, if_false] at h
          have key : ∀ d ∈ devices geo, ∀ op', tailOp (φ d) = some op' → op'.err = none →
              ∀ op, φ d = some op → op.err = none := by
            intro d _ op' h1 h2 op h3
            rw [h3] at h1
            simp only [tailOp, Option.some.injEq] at h1
            rw [← h1] at h2
            exact h2
          by_cases hdone : isDone ops' = true
          · rw [hops] at hdone
            intro d hd op hop
            have := (isDone_map hdone d hd)
            rw [hop] at this
            simp only [tailOp, opFrames, stuck] at this
            simpa [this.1] using this.2
          · simp only [hdone, Bool.false_eq_true, if_false] at h
            rw [hops] at h
            intro d hd op hop
            have ih := sendLoop_ok_err geo fuel (fun d => tailOp (φ d)) fault (n + 1) (log ++ [round]) h d hd
            rw [hop] at ih
            exact ih { op with frames := op.frames.tail } rfl

/-- **plain send** of a datagram that neither fails to generate nor to pack, over a healthy link:
`Ok`, and every enabled device receives exactly the frames its generator makes for it -/
theorem send_spec {geoK : Geometry} (hnd : (geoK.map (·.idx)).Nodup) (dg : Dg)
    (hgf : dg.genFail = false) (hpe : dg.packErr = none) :
    (send geoK dg .none).1 = .ok () ∧
    ∀ d ∈ devices geoK, devFrames (send geoK dg .none).2 d.idx =
      (({ dg := dg, seen := dg.seenOf (geoK.map (·.enable)) } : Gen).generate d).frames := by
  let g : Gen := { dg := dg, seen := dg.seenOf (geoK.map (·.enable)) }
  have hgen : dg.generator geoK = .ok g := by
    unfold Dg.generator
    rw [hgf]; rfl
  have hsend : send geoK dg .none =
      sendLoop (mu (fun d => some (g.generate d)) (devices geoK) + 1) geoK
        ((devices geoK).map fun d => some (g.generate d)) .none 0 [] := by
    unfold send
    rw [hgen]
    simp only [sendImpl, fuelFor_map]
  have hok := sendLoop_ok geoK (mu (fun d => some (g.generate d)) (devices geoK) + 1)
    (fun d => some (g.generate d)) 0 []
    (by intro d _ op hop; simp only [Option.some.injEq] at hop; rw [← hop]; exact hpe) (by omega)
  refine ⟨by rw [hsend]; exact hok, fun d hd => ?_⟩
  have ht : Tagged (fun d => some (g.generate d)) (devices geoK) := by
    intro d _ f hf; exact generate_tagged g d f hf
  obtain ⟨del, h1, _, h3⟩ := sendLoop_spec geoK (devices_nodup hnd) d.idx
    (mu (fun d => some (g.generate d)) (devices geoK) + 1) (fun d => some (g.generate d)) .none 0 [] ht
  rw [hsend, h1, h3 hok, proj_of_mem _ _ (devices_nodup hnd) d hd]
  simp only [devFrames, opFrames, List.flatten_nil, List.filter_nil, List.nil_append]
  rfl

/-! ## `group_send` -/

/-- the datagrams left over when every key in `keys` has been consumed -/
def leftover (keys : List Key) (dmap : List (Key × Dg)) : List (Key × Dg) :=
  dmap.filter fun p => !keys.contains p.1

/-- **outcome of `group_send`** for any visiting order of well-formed filters: the geometry is
restored on every exit, and the exit is one of four: `UnknownKey` of a filter key without datagram;
the generator error of a filter key's datagram; `UnusedKey` of the left-over datagrams; or
`send_impl` on operations that are, per enabled device, the one its group's generator makes -/
theorem groupSendWith_spec {geo : Geometry} (hwf : WF geo) (km : Nat → Option Key)
    (fs : List (Key × Filter)) (hgood : ∀ p ∈ fs, Good geo km p.1 p.2) (hnd : (fs.map (·.1)).Nodup)
    (dmap : List (Key × Dg)) (fault : Fault) :
    (groupSendWith true fs geo dmap fault).geo = geo ∧
    ((∃ k ∈ fs.map (·.1), dmap.lookup k = none ∧
        (groupSendWith true fs geo dmap fault).result = .error (.unknownKey k) ∧
        (groupSendWith true fs geo dmap fault).log = []) ∨
     (∃ k ∈ fs.map (·.1), ∃ dg, dmap.lookup k = some dg ∧ dg.genFail = true ∧
        (groupSendWith true fs geo dmap fault).result = .error (.gen dg.id) ∧
        (groupSendWith true fs geo dmap fault).log = []) ∨
     ((∀ k ∈ fs.map (·.1), ∃ dg, dmap.lookup k = some dg ∧ dg.genFail = false) ∧
      ((leftover (fs.map (·.1)) dmap ≠ [] ∧
        (groupSendWith true fs geo dmap fault).result = .error (.unusedKey ((leftover (fs.map (·.1)) dmap).map (·.1))) ∧
        (groupSendWith true fs geo dmap fault).log = []) ∨
       (leftover (fs.map (·.1)) dmap = [] ∧
        ∃ φ' : Device → Option Op,
          (groupSendWith true fs geo dmap fault).result = (sendImpl geo ((devices geo).map φ') fault).1 ∧
          (groupSendWith true fs geo dmap fault).log = (sendImpl geo ((devices geo).map φ') fault).2 ∧
          (∀ d ∈ devices geo, ∀ k, km d.idx = some k → k ∈ fs.map (·.1) →
            ∀ dg, dmap.lookup k = some dg → φ' d = some ((mkGen geo km k dg).generate d)) ∧
          (∀ d ∈ devices geo, (∀ k, km d.idx = some k → k ∉ fs.map (·.1)) → φ' d = none))))) := by
  have hk := keyLoop_spec hwf km fs hgood hnd
    { geo := geo, ops := (devices geo).map fun _ => none, dmap := dmap, visited := [] }
    (fun _ => none) rfl rfl
  unfold groupSendWith
  simp only []
  revert hk
  cases hr : keyLoop true (geo.map (·.enable)) fs
      { geo := geo, ops := (devices geo).map fun _ => none, dmap := dmap, visited := [] } with
  | mk e st =>
    cases e with
    | some e =>
      simp only []
      rintro ⟨hg, (⟨k, hk, h1, h2⟩ | ⟨k, hk, dg, h1, h2, h3⟩)⟩
      · exact ⟨hg, Or.inl ⟨k, hk, h1, by rw [h2], trivial⟩⟩
      · exact ⟨hg, Or.inr (Or.inl ⟨k, hk, dg, h1, h2, by rw [h3], trivial⟩)⟩
    | none =>
      simp only []
      rintro ⟨hg, h1, h2, φ', h3, h4, h5⟩
      have h2' : st.dmap = leftover (fs.map (·.1)) dmap := h2
      by_cases hemp : st.dmap.isEmpty = true
      · simp only [hemp, if_true]
        refine ⟨hg, Or.inr (Or.inr ⟨h1, Or.inr ⟨?_, φ', ?_, ?_, h4, h5⟩⟩)⟩
        · rw [← h2']; exact List.isEmpty_iff.mp hemp
        · rw [hg, h3]
        · rw [hg, h3]
      · simp only [hemp, Bool.false_eq_true, if_false]
        refine ⟨hg, Or.inr (Or.inr ⟨h1, Or.inl ⟨?_, ?_, trivial⟩⟩)⟩
        · rw [← h2']; intro h; apply hemp; rw [h]; rfl
        · rw [h2']

/-- the filters handed to the loop under any iteration order -/
theorem groupSend_eq {geo : Geometry} (hwf : WF geo) (km : Nat → Option Key)
    (perm : List (Key × Filter) → List (Key × Filter)) (hperm : ∀ l, (perm l).Perm l)
    (q : Bool) (dmap : List (Key × Dg)) (fault : Fault) :
    ∃ fs, (fs.map (·.1)).Nodup ∧ (∀ p ∈ fs, Good geo km p.1 p.2) ∧
      (∀ k, k ∈ fs.map (·.1) ↔ usedKey geo km k) ∧
      groupSend q perm geo km dmap fault = groupSendWith q fs geo dmap fault := by
  obtain ⟨fs0, hb, hnd, hgood, hkeys⟩ := buildFilters_spec hwf km
  have hp := hperm fs0
  refine ⟨perm fs0, ?_, ?_, ?_, ?_⟩
  · exact (hp.map (·.1)).nodup_iff.mpr hnd
  · intro p hpm; exact hgood p (hp.mem_iff.mp hpm)
  · intro k; rw [← hkeys k]; exact (hp.map (·.1)).mem_iff
  · unfold groupSend; rw [hb]

/-- per device: what `send_impl` delivers out of operations `φ'` -/
theorem sendImpl_dev {geo : Geometry} (hwf : WF geo) (φ' : Device → Option Op) (fault : Fault)
    (ht : Tagged φ' (devices geo)) (i : Nat) :
    devFrames (sendImpl geo ((devices geo).map φ') fault).2 i <+: proj i φ' (devices geo) ∧
    ((sendImpl geo ((devices geo).map φ') fault).1 = .ok () →
      devFrames (sendImpl geo ((devices geo).map φ') fault).2 i = proj i φ' (devices geo)) := by
  obtain ⟨del, h1, h2, h3⟩ := sendLoop_spec geo (devices_nodup hwf.nodup) i
    (fuelFor ((devices geo).map φ')) φ' fault 0 [] ht
  unfold sendImpl
  have h0 : devFrames ([] : List (List Frame)) i = [] := rfl
  rw [h1, h0, List.nil_append]
  exact ⟨h2, h3⟩

theorem eq_of_idx_eq : ∀ (l : List Device), (l.map (·.idx)).Nodup → ∀ a ∈ l, ∀ b ∈ l, a.idx = b.idx → a = b
  | [], _, a, ha, _, _, _ => by cases ha
  | x :: l, hnd, a, ha, b, hb, he => by
    rw [List.map_cons, List.nodup_cons] at hnd
    rcases List.mem_cons.mp ha with rfl | ha' <;> rcases List.mem_cons.mp hb with rfl | hb'
    · rfl
    · exact absurd (by rw [he]; exact List.mem_map_of_mem hb') hnd.1
    · exact absurd (by rw [← he]; exact List.mem_map_of_mem ha') hnd.1
    · exact eq_of_idx_eq l hnd.2 a ha' b hb' he

theorem pack_error {geo : Geometry} {φ : Device → Option Op} {e : Err}
    (h : pack geo ((devices geo).map φ) = .error e) : ∃ d ∈ devices geo, stuck (φ d) = some e := by
  unfold pack at h
  rw [packList_map] at h
  split at h
  · cases h
  · next hno =>
    cases hh : ((devices geo).filterMap fun d => stuck (φ d)).head? with
    | none =>
      exfalso; apply hno
      intro d hd
      have := List.head?_eq_none_iff.mp hh
      have := (List.filterMap_eq_nil_iff.mp this) d hd
      exact this
    | some e' =>
      rw [hh] at h
      simp only [Except.error.injEq] at h
      subst h
      have := List.mem_of_mem_head? (by rw [hh]; rfl : e' ∈ ((devices geo).filterMap fun d => stuck (φ d)).head?)
      obtain ⟨d, hd, hs⟩ := List.mem_filterMap.mp this
      exact ⟨d, hd, hs⟩

/-- an error out of `send_impl` is a link error or the `pack` error of one of the operations -/
theorem sendLoop_err (geo : Geometry) :
    ∀ (fuel : Nat) (φ : Device → Option Op) (fault : Fault) (n : Nat) (log : List (List Frame)) (e : Err),
      (sendLoop fuel geo ((devices geo).map φ) fault n log).1 = .error e →
      e = .link ∨ e = .fuel ∨ ∃ d ∈ devices geo, ∃ op, φ d = some op ∧ op.err = some e
  | 0, _, _, _, _, e, h => by
    simp only [sendLoop, Except.error.injEq] at h
    exact Or.inr (Or.inl h.symm)
  | fuel + 1, φ, fault, n, log, e, h => by
    unfold sendLoop at h
    cases hp : pack geo ((devices geo).map φ) with
    | error e' =>
      rw [hp] at h
      simp only [Except.error.injEq] at h
      subst h
      obtain ⟨d, hd, hs⟩ := pack_error hp
      refine Or.inr (Or.inr ⟨d, hd, ?_⟩)
      cases hφ : φ d with
      | none => rw [hφ] at hs; cases hs
      | some op =>
        rw [hφ] at hs
        simp only [stuck] at hs
        split at hs
        · exact ⟨op, rfl, hs⟩
        · cases hs
    | ok ro =>
      obtain ⟨round, ops'⟩ := ro
      obtain ⟨_, hops, _⟩ := pack_ok hp
      rw [hp] at h
      simp only [] at h
      by_cases hfs : fault = .send n
      · simp only [hfs, if_true, Except.error.injEq] at h
        exact Or.inl h.symm
      · simp only [hfs, if_false] at h
        by_cases hfr : fault = .recv n
        · simp only [hfr, if_true, Except.error.injEq] at h
          exact Or.inl h.symm
        · simp only [hfr, if_false] at h
          by_cases hdone : isDone ops' = true
          · simp [hdone] at h
          · simp only [hdone, Bool.false_eq_true, if_false] at h
            rw [hops] at h
            rcases sendLoop_err geo fuel (fun d => tailOp (φ d)) fault (n + 1) (log ++ [round]) e h with h1 | h1 | ⟨d, hd, op', h1, h2⟩
            · exact Or.inl h1
            · exact Or.inr (Or.inl h1)
            · refine Or.inr (Or.inr ⟨d, hd, ?_⟩)
              cases hφ : φ d with
              | none => rw [hφ] at h1; cases h1
              | some op =>
                rw [hφ] at h1
                simp only [tailOp, Option.some.injEq] at h1
                rw [← h1] at h2
                exact ⟨op, rfl, h2⟩

theorem usedKeyB_iff (geo : Geometry) (km : Nat → Option Key) (k : Key) :
    (geo.any fun d => d.enable && (km d.idx == some k)) = true ↔ usedKey geo km k := by
  unfold usedKey
  simp [List.any_eq_true]

end Autd3.Group

namespace Autd3.Group

/-- the operation `group_send` hands to `send_impl` for an enabled device -/
def finalOp (geo : Geometry) (km : Nat → Option Key) (dmap : List (Key × Dg)) (d : Device) : Option Op :=
  match km d.idx with
  | none => none
  | some k => (dmap.lookup k).map fun dg => (mkGen geo km k dg).generate d

theorem finalOp_tagged (geo km dmap) (devs : List Device) : Tagged (finalOp geo km dmap) devs := by
  intro d _ f hf
  unfold finalOp at hf
  cases hk : km d.idx with
  | none => simp [hk, opFrames] at hf
  | some k =>
    simp only [hk] at hf
    cases hl : dmap.lookup k with
    | none => simp [hl, opFrames] at hf
    | some dg =>
      simp only [hl, Option.map_some, opFrames] at hf
      exact generate_tagged _ d f hf

theorem leftover_eq {geo : Geometry} {km : Nat → Option Key} {keys : List Key}
    (hkeys : ∀ k, k ∈ keys ↔ usedKey geo km k) (dmap : List (Key × Dg)) :
    (leftover keys dmap).map (·.1) = extraKeys geo km dmap := by
  unfold leftover extraKeys
  congr 1
  apply List.filter_congr
  intro p _
  congr 1
  rw [Bool.eq_iff_iff, usedKeyB_iff, ← hkeys p.1]
  simp

/-- **the four exits of `group_send`**, for every iteration order, in terms of the inputs only -/
theorem groupSend_cases {geo : Geometry} (hwf : WF geo) (km : Nat → Option Key)
    (perm : List (Key × Filter) → List (Key × Filter)) (hperm : IsOrder perm)
    (dmap : List (Key × Dg)) (fault : Fault) :
    (groupSend true perm geo km dmap fault).geo = geo ∧
    ((∃ k, usedKey geo km k ∧ dmap.lookup k = none ∧
        (groupSend true perm geo km dmap fault).result = .error (.unknownKey k) ∧
        (groupSend true perm geo km dmap fault).log = []) ∨
     (∃ k dg, usedKey geo km k ∧ dmap.lookup k = some dg ∧ dg.genFail = true ∧
        (groupSend true perm geo km dmap fault).result = .error (.gen dg.id) ∧
        (groupSend true perm geo km dmap fault).log = []) ∨
     ((∀ k, usedKey geo km k → ∃ dg, dmap.lookup k = some dg ∧ dg.genFail = false) ∧
        extraKeys geo km dmap ≠ [] ∧
        (groupSend true perm geo km dmap fault).result = .error (.unusedKey (extraKeys geo km dmap)) ∧
        (groupSend true perm geo km dmap fault).log = []) ∨
     ((∀ k, usedKey geo km k → ∃ dg, dmap.lookup k = some dg ∧ dg.genFail = false) ∧
        extraKeys geo km dmap = [] ∧
        (groupSend true perm geo km dmap fault).result
          = (sendImpl geo ((devices geo).map (finalOp geo km dmap)) fault).1 ∧
        (groupSend true perm geo km dmap fault).log
          = (sendImpl geo ((devices geo).map (finalOp geo km dmap)) fault).2)) := by
  obtain ⟨fs, hnd, hgood, hkeys, heq⟩ := groupSend_eq hwf km perm hperm true dmap fault
  rw [heq]
  obtain ⟨hg, hc⟩ := groupSendWith_spec hwf km fs hgood hnd dmap fault
  refine ⟨hg, ?_⟩
  have hall : (∀ k ∈ fs.map (·.1), ∃ dg, dmap.lookup k = some dg ∧ dg.genFail = false) →
      ∀ k, usedKey geo km k → ∃ dg, dmap.lookup k = some dg ∧ dg.genFail = false :=
    fun h k hk => h k ((hkeys k).mpr hk)
  rcases hc with ⟨k, hk, h1, h2, h3⟩ | ⟨k, hk, dg, h1, h2, h3, h4⟩ | ⟨h1, (⟨h2, h3, h4⟩ | ⟨h2, φ', h3, h4, h5, h6⟩)⟩
  · exact Or.inl ⟨k, (hkeys k).mp hk, h1, h2, h3⟩
  · exact Or.inr (Or.inl ⟨k, dg, (hkeys k).mp hk, h1, h2, h3, h4⟩)
  · refine Or.inr (Or.inr (Or.inl ⟨hall h1, ?_, ?_, h4⟩))
    · rw [← leftover_eq hkeys]; intro h; exact h2 (List.map_eq_nil_iff.mp h)
    · rw [h3, leftover_eq hkeys]
  · have hmap : (devices geo).map φ' = (devices geo).map (finalOp geo km dmap) := by
      apply List.map_congr_left
      intro d hd
      unfold finalOp
      cases hk : km d.idx with
      | none =>
        simp only []
        exact h6 d hd (fun k h => by rw [hk] at h; cases h)
      | some k =>
        simp only []
        have hused : usedKey geo km k := ⟨d, (mem_devices.mp hd).1, (mem_devices.mp hd).2, hk⟩
        obtain ⟨dg, hl, _⟩ := h1 k ((hkeys k).mpr hused)
        rw [hl, Option.map_some]
        exact h5 d hd k hk ((hkeys k).mpr hused) dg hl
    refine Or.inr (Or.inr (Or.inr ⟨hall h1, ?_, ?_, ?_⟩))
    · rw [← leftover_eq hkeys, h2]; rfl
    · rw [h3, hmap]
    · rw [h4, hmap]

end Autd3.Group
