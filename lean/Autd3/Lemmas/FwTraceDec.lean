import Autd3.Lemmas.FwTraceMain
/-! C19 trace layer: the alphabet conditions and finding exclusions are decidable (generated instances), so
`Restricted s tr` can be checked for a concrete trace by `decide +kernel`. -/
set_option linter.unusedSimpArgs false
set_option linter.unusedVariables false
namespace Autd3.Fw
open Autd3.Gen.Cpu
open Autd3.Gen
open Autd3.Obs

instance (s : State) (d : Array Nat) : Decidable (ModOK s d) :=
  decidable_of_iff ((modBegin d = true → 1 ≤ u16at d FwLayout.ModulationHead_freq_div_off) ∧ (modBegin d = false → rd s.ctl 32 = modSeg d) ∧ (modBegin d = false → u16at d FwLayout.ModulationSubseq_size_off ≤ 32768) ∧ (hasFlag (modFlag d) MODULATION_FLAG_END = true → hasFlag (modFlag d) MODULATION_FLAG_UPDATE = true → ModeOK (modEffTm s d) (modEffTv s d)))
    ⟨fun h => ⟨h.1, h.2.1, h.2.2.1, h.2.2.2⟩, fun h => ⟨h.div, h.cont_seg, h.cont_size, h.upd⟩⟩

instance (s : State) (d : Array Nat) : Decidable (ModExcl s d) :=
  decidable_of_iff ((hasFlag (modFlag d) MODULATION_FLAG_END = true → hasFlag (modFlag d) MODULATION_FLAG_UPDATE = true → modAccepted s d = true → SetGuard s.modSwap (modSeg d) (modEffRep s d) (modEffTm s d)))
    ⟨fun h => ⟨h⟩, fun h => h.set⟩

instance (s : State) (d : Array Nat) : Decidable (FociOK s d) :=
  decidable_of_iff ((fociSeg d ≤ 1) ∧ (fociBegin d = true → 1 ≤ u16at d FwLayout.FociSTMHead_freq_div_off) ∧ (fociBegin d = true → 1 ≤ u8at d FwLayout.FociSTMHead_num_foci_off) ∧ (fociBegin d = true → u8at d FwLayout.FociSTMHead_num_foci_off ≤ 8) ∧ (fociBegin d = true → 1 ≤ u16at d FwLayout.FociSTMHead_sound_speed_off) ∧ (fociBegin d = false → rd s.ctl 80 = fociSeg d) ∧ (fociBegin d = false → rd s.ctl 81 ≤ 15) ∧ (fociBegin d = false → rd s.ctl (93 + fociSeg d) = s.numFoci) ∧ (fociBegin d = false → s.stmWrite + fociSend d * s.numFoci ≤ 65536) ∧ (hasFlag (fociFlag d) FOCI_STM_FLAG_END = true → hasFlag (fociFlag d) FOCI_STM_FLAG_UPDATE = true → ModeOK (fociEffTm s d) (fociEffTv s d)))
    ⟨fun h => ⟨h.1, h.2.1, h.2.2.1, h.2.2.2.1, h.2.2.2.2.1, h.2.2.2.2.2.1, h.2.2.2.2.2.2.1, h.2.2.2.2.2.2.2.1, h.2.2.2.2.2.2.2.2.1, h.2.2.2.2.2.2.2.2.2⟩, fun h => ⟨h.seg, h.div, h.nf1, h.nf8, h.ss, h.cont_seg, h.cont_page, h.cont_nf, h.cont_total, h.upd⟩⟩

instance (s : State) (d : Array Nat) : Decidable (FociExcl s d) :=
  decidable_of_iff ((fociBegin d = true → fociAccepted s d = true → sel s.stmSwap.cycle (fociSeg d) * u8at d FwLayout.FociSTMHead_num_foci_off ≤ 65536) ∧ (fociBegin d = true → fociAccepted s d = true → (rd s.ctl (83 + fociSeg d) + 1) * u8at d FwLayout.FociSTMHead_num_foci_off ≤ 65536) ∧ (hasFlag (fociFlag d) FOCI_STM_FLAG_END = true → hasFlag (fociFlag d) FOCI_STM_FLAG_UPDATE = true → fociAccepted s d = true → SetGuard s.stmSwap (fociSeg d) (fociEffRep s d) (fociEffTm s d)))
    ⟨fun h => ⟨h.1, h.2.1, h.2.2⟩, fun h => ⟨h.f17s, h.f17r, h.set⟩⟩

instance (s : State) (d : Array Nat) : Decidable (GainStmOK s d) :=
  decidable_of_iff ((gsBegin d = true → 1 ≤ u16at d FwLayout.GainSTMHead_freq_div_off) ∧ (gsBegin d = false → rd s.ctl 80 = gsSeg d) ∧ (gsBegin d = false → rd s.ctl 81 ≤ 15) ∧ (gsBegin d = false → sel s.stmCycle (gsSeg d) + (gsFlag d >>> 6 + 1) ≤ 1024) ∧ (hasFlag (gsFlag d) GAIN_STM_FLAG_END = true → hasFlag (gsFlag d) GAIN_STM_FLAG_UPDATE = true → ModeOK (gsEffTm s d) (gsEffTv s d)))
    ⟨fun h => ⟨h.1, h.2.1, h.2.2.1, h.2.2.2.1, h.2.2.2.2⟩, fun h => ⟨h.div, h.cont_seg, h.cont_page, h.cont_total, h.upd⟩⟩

instance (s : State) (d : Array Nat) : Decidable (GainStmExcl s d) :=
  decidable_of_iff ((hasFlag (gsFlag d) GAIN_STM_FLAG_END = true → hasFlag (gsFlag d) GAIN_STM_FLAG_UPDATE = true → gsAccepted s d = true → SetGuard s.stmSwap (gsSeg d) (gsEffRep s d) (gsEffTm s d)))
    ⟨fun h => ⟨h⟩, fun h => h.set⟩

instance (d : Array Nat) : Decidable (GainOK d) :=
  decidable_of_iff ((u8at d FwLayout.Gain_segment_off ≤ 1))
    ⟨fun h => ⟨h⟩, fun h => h.seg⟩

instance (s : State) (d : Array Nat) : Decidable (GainExcl s d) :=
  decidable_of_iff ((hasFlag (u8at d FwLayout.Gain_flag_off) GAIN_FLAG_UPDATE = true → SetGuard s.stmSwap (u8at d FwLayout.Gain_segment_off) 0xFFFF TRANSITION_MODE_SYNC_IDX))
    ⟨fun h => ⟨h⟩, fun h => h.set⟩

instance (s : State) : Decidable (ClearExcl s) :=
  decidable_of_iff ((SetGuard s.modSwap 0 0xFFFF TRANSITION_MODE_SYNC_IDX) ∧ (SetGuard s.stmSwap 0 0xFFFF TRANSITION_MODE_SYNC_IDX))
    ⟨fun h => ⟨h.1, h.2⟩, fun h => ⟨h.mod, h.stm⟩⟩

instance (s : State) (d : Array Nat) : Decidable (PayloadOK s d) :=
  decidable_of_iff ((u8at d 0 = 48 → GainOK d) ∧ (u8at d 0 = 49 → u8at d FwLayout.GainUpdate_segment_off ≤ 1) ∧ (u8at d 0 = 17 → SwapOK (u8at d FwLayout.ModulationUpdate_segment_off) (u8at d FwLayout.ModulationUpdate_transition_mode_off) (u64at d FwLayout.ModulationUpdate_transition_value_off)) ∧ (u8at d 0 = 68 → SwapOK (u8at d FwLayout.FociSTMUpdate_segment_off) (u8at d FwLayout.FociSTMUpdate_transition_mode_off) (u64at d FwLayout.FociSTMUpdate_transition_value_off)) ∧ (u8at d 0 = 67 → SwapOK (u8at d FwLayout.GainSTMUpdate_segment_off) (u8at d FwLayout.GainSTMUpdate_transition_mode_off) (u64at d FwLayout.GainSTMUpdate_transition_value_off)) ∧ (u8at d 0 = 16 → ModOK s d) ∧ (u8at d 0 = 66 → FociOK s d) ∧ (u8at d 0 = 65 → GainStmOK s d))
    ⟨fun h => ⟨h.1, h.2.1, h.2.2.1, h.2.2.2.1, h.2.2.2.2.1, h.2.2.2.2.2.1, h.2.2.2.2.2.2.1, h.2.2.2.2.2.2.2⟩, fun h => ⟨h.gain, h.gainSwap, h.modSwap, h.fociSwap, h.gainStmSwap, h.mod, h.foci, h.gainStm⟩⟩

instance (s : State) (d : Array Nat) : Decidable (PayloadExcl s d) :=
  decidable_of_iff ((u8at d 0 = 1 → ClearExcl s) ∧ (u8at d 0 = 48 → GainExcl s d) ∧ (u8at d 0 = 49 → SetGuard s.stmSwap (u8at d FwLayout.GainUpdate_segment_off) (rd s.ctl (87 + u8at d FwLayout.GainUpdate_segment_off)) TRANSITION_MODE_SYNC_IDX) ∧ (u8at d 0 = 17 → SetGuard s.modSwap (u8at d FwLayout.ModulationUpdate_segment_off) (rd s.ctl (39 + u8at d FwLayout.ModulationUpdate_segment_off)) (u8at d FwLayout.ModulationUpdate_transition_mode_off)) ∧ (u8at d 0 = 68 → SetGuard s.stmSwap (u8at d FwLayout.FociSTMUpdate_segment_off) (rd s.ctl (87 + u8at d FwLayout.FociSTMUpdate_segment_off)) (u8at d FwLayout.FociSTMUpdate_transition_mode_off)) ∧ (u8at d 0 = 67 → SetGuard s.stmSwap (u8at d FwLayout.GainSTMUpdate_segment_off) (rd s.ctl (87 + u8at d FwLayout.GainSTMUpdate_segment_off)) (u8at d FwLayout.GainSTMUpdate_transition_mode_off)) ∧ (u8at d 0 = 16 → ModExcl s d) ∧ (u8at d 0 = 66 → FociExcl s d) ∧ (u8at d 0 = 65 → GainStmExcl s d))
    ⟨fun h => ⟨h.1, h.2.1, h.2.2.1, h.2.2.2.1, h.2.2.2.2.1, h.2.2.2.2.2.1, h.2.2.2.2.2.2.1, h.2.2.2.2.2.2.2.1, h.2.2.2.2.2.2.2.2⟩, fun h => ⟨h.clear, h.gain, h.gainSwap, h.modSwap, h.fociSwap, h.gainStmSwap, h.mod, h.foci, h.gainStm⟩⟩

instance (P : State → Array Nat → Prop) [∀ s d, Decidable (P s d)] (s0 : State) (p1 p2 : Array Nat) :
    Decidable (afterSlot1 P s0 p1 p2) :=
  match h : handlePayload s0 p1 with
  | .ok (s1, ack1) =>
    decidable_of_iff (ack1 &&& ERR_BIT = 0 → P { s1 with ack := ack1 } p2) (by unfold afterSlot1; rw [h])
  | .error _ => isTrue (by unfold afterSlot1; rw [h]; trivial)

instance (s : State) (frame : Array Nat) : Decidable (FrameOKs s frame) :=
  decidable_of_iff ((DrvLayout.Header_size + slot2Off frame ≤ frame.size) ∧ (PayloadOK (preHandle s frame) (Fw.slot1 frame)) ∧ (slot2Off frame ≠ 0 → afterSlot1 PayloadOK (preHandle s frame) (Fw.slot1 frame) (Fw.slot2 frame)))
    ⟨fun h => ⟨h.1, h.2.1, h.2.2⟩, fun h => ⟨h.slot2_in, h.slot1, h.slot2⟩⟩

instance (s : State) (frame : Array Nat) : Decidable (FrameExcl s frame) :=
  decidable_of_iff ((PayloadExcl (preHandle s frame) (Fw.slot1 frame)) ∧ (slot2Off frame ≠ 0 → afterSlot1 PayloadExcl (preHandle s frame) (Fw.slot1 frame) (Fw.slot2 frame)))
    ⟨fun h => ⟨h.1, h.2⟩, fun h => ⟨h.slot1, h.slot2⟩⟩

instance (s : State) (e : TEv) : Decidable (EvOK s e) := by
  cases e <;> unfold EvOK <;> infer_instance
instance (s : State) (e : TEv) : Decidable (EvExcl s e) := by
  cases e <;> unfold EvExcl <;> infer_instance

instance Restricted.dec : ∀ (tr : List TEv) (s : State), Decidable (Restricted s tr)
  | [], _ => isTrue trivial
  | e :: es, s =>
    match h : stepState s e with
    | some s' =>
      have := Restricted.dec es s'
      decidable_of_iff (EvOK s e ∧ EvExcl s e ∧ Restricted s' es) (by rw [Restricted, h])
    | none => decidable_of_iff (EvOK s e ∧ EvExcl s e) (by rw [Restricted, h]; simp only [and_true])

instance FramesOK.dec : ∀ (fs : List (Array Nat)) (s : State), Decidable (FramesOK s fs)
  | [], _ => isTrue trivial
  | f :: fs, s =>
    match h : ecatRecv s f with
    | .ok s' =>
      have := FramesOK.dec fs s'
      decidable_of_iff (FrameOKs s f ∧ FramesOK s' fs) (by rw [FramesOK, h])
    | .error _ => decidable_of_iff (FrameOKs s f) (by rw [FramesOK, h]; simp only [and_true])

/-- `P` holds of the state a computation returns (false if it panics) -/
def fromM (r : M State) (P : State → Prop) : Prop :=
  match r with
  | .ok s => P s
  | .error _ => False

instance (r : M State) (P : State → Prop) [∀ s, Decidable (P s)] : Decidable (fromM r P) :=
  match r with
  | .ok s => inferInstanceAs (Decidable (P s))
  | .error _ => isFalse id

theorem fromM_ok {r : M State} {P : State → Prop} {s : State} (h : fromM r P) (e : r = .ok s) : P s := by
  subst e; exact h

/-- `Restricted` from power-on (249 transducers, clock 0) -/
def RestrictedFromPowerOn (tr : List TEv) : Prop := fromM (Fw.new 249 0) (fun s => Restricted s tr)

instance (tr : List TEv) : Decidable (RestrictedFromPowerOn tr) :=
  inferInstanceAs (Decidable (fromM (Fw.new 249 0) (fun s => Restricted s tr)))

/-- `FramesOK` from power-on -/
def FramesOKFromPowerOn (fs : List (Array Nat)) : Prop := fromM (Fw.new 249 0) (fun s => FramesOK s fs)

instance (fs : List (Array Nat)) : Decidable (FramesOKFromPowerOn fs) :=
  inferInstanceAs (Decidable (fromM (Fw.new 249 0) (fun s => FramesOK s fs)))

end Autd3.Fw
