import Autd3.Lemmas.Rt2Send
/-!
Second tuple slot, part 1: the send loop of a pair of operations on one device (`OperationHandler::pack_op2`
then `ecat_recv` with a non-zero slot-2 offset), and its reduction to the single-operation loop once the
first operation is done.
-/
open Autd3 Autd3.Fw Autd3.Wire Autd3.Gen.Cpu Autd3.Gen
namespace Autd3.Rt

/-- what `Sender::send` does for one device and a pair of operations: `pack_op2`, deliver, stop on a pack
error / panic / error acknowledgement, until both operations report `done` -/
def sendLoop2 : Nat → Op → Op → State → Tx → Option (Tx × State)
  | 0, _, _, _, _ => none
  | fuel + 1, o1, o2, s, t =>
    if o1.done && o2.done then some (t, s) else
    match packOp2 o1 o2 s.numTr t with
    | .error _ => none
    | .ok (o1', o2', t') =>
      match ecatRecv s t'.frame with
      | .error _ => none
      | .ok s' => if s'.ack = t'.msgId then sendLoop2 fuel o1' o2' s' t' else none

/-- the pair `(dg1, dg2)` sent from `(s, t)` is accepted frame by frame and ends in `(s', t')` -/
def Sends2 (dg1 dg2 : Dg) (s : State) (t : Tx) (t' : Tx) (s' : State) : Prop :=
  ∃ fuel, sendLoop2 fuel (Op.ofDg dg1) (Op.ofDg dg2) s t = some (t', s')

/-- once the first operation is done the pair loop is the single-operation loop of the second -/
theorem sendLoop2_done1 : ∀ fuel o1 o2 s t, o1.done = true → sendLoop2 fuel o1 o2 s t = sendLoop fuel o2 s t := by
  intro fuel
  induction fuel with
  | zero => intro o1 o2 s t _; rfl
  | succ fuel ih =>
    intro o1 o2 s t h1
    unfold sendLoop2 sendLoop
    by_cases h2 : o2.done = true
    · simp [h1, h2]
    · have h2' : o2.done = false := by simpa using h2
      simp only [h1, h2', Bool.true_and, Bool.false_eq_true, if_false]
      have hp : packOp2 o1 o2 s.numTr t =
          match packOp o2 s.numTr t with
          | .error e => .error (e, { t with msgId := ((t.msgId + 1) % 256) &&& Drv.MSG_ID_MAX, slot2 := 0 })
          | .ok (o2', t', _) => .ok (o1, o2', t') := by
        unfold packOp2; simp only [h1, h2']; rfl
      rw [hp]
      cases hq : packOp o2 s.numTr t with
      | error e => rfl
      | ok r =>
        obtain ⟨o2', t', sz⟩ := r
        simp only []
        cases hr : ecatRecv s t'.frame with
        | error e => rfl
        | ok s1 =>
          simp only []
          by_cases ha : s1.ack = t'.msgId
          · rw [if_pos ha, if_pos ha]; exact ih o1 o2' s1 t' h1
          · rw [if_neg ha, if_neg ha]

theorem frame_extract2 (t : Tx) (k : Nat) :
    (Tx.frame t).extract (DrvLayout.Header_size + k) (Tx.frame t).size = t.payload.extract k t.payload.size := by
  unfold Tx.frame DrvLayout.Header_size
  apply Array.ext
  · simp
  · intro i h1 h2
    simp at h1 h2 ⊢

/-- `ecat_recv` on a fresh two-slot frame whose two handlers acknowledge without error -/
theorem ecatRecv_two (s : State) (t : Tx) (hid : t.msgId < 128) (hk0 : 0 < t.slot2) (hk : t.slot2 ≤ t.payload.size)
    (hk16 : t.slot2 < 65536) (hfresh : s.lastMsgId ≠ t.msgId) (s1 s2 : State)
    (hh1 : handlePayload (pre s t.msgId) t.payload = .ok (s1, NO_ERR))
    (hh2 : handlePayload { s1 with ack := NO_ERR } (t.payload.extract t.slot2 t.payload.size) = .ok (s2, NO_ERR)) :
    ecatRecv s t.frame = .ok (fin s2 t.msgId) := by
  unfold ecatRecv
  simp only [frame_id, frame_slot2, frame_extract, frame_extract2, Nat.mod_eq_of_lt (show t.msgId < 256 by omega),
    Nat.mod_eq_of_lt hk16]
  rw [if_neg hfresh]
  simp only [and_128_of_lt hid]
  have : pre s t.msgId = readFpgaState { s with lastMsgId := t.msgId } := rfl
  rw [← this, hh1]
  have hsz : (Tx.frame t).size = 4 + t.payload.size := by unfold Tx.frame; simp
  have hne : t.slot2 ≠ 0 := by omega
  simp [NO_ERR, ERR_BIT, hne, hsz, DrvLayout.Header_size, show ¬ (4 + t.slot2 > 4 + t.payload.size) by omega]
  have hh2' : handlePayload { s1 with ack := 0 } (t.payload.extract t.slot2 t.payload.size) = .ok (s2, 0) := hh2
  rw [hh2']
  simp [ctlWrite_main, ADDR_CTL_FLAG, fin]

/-- the first frame of a pair: operation 1 (one frame, `k` bytes) in slot 1, the first chunk of operation 2
in slot 2 at offset `k`; both handlers acknowledge -/
theorem sendLoop2_first (fuel : Nat) (o1 o2 : Op) (s : State) (t : Tx) (hf : Fresh s t)
    (hnd1 : o1.done = false) (hnd2 : o2.done = false)
    (o1' : Op) (b1 : Array Nat) (k : Nat) (hp1 : o1.pack s.numTr t.payload 0 = .ok (o1', b1, k)) (hb1 : b1.size = 622)
    (hroom : 622 - k ≥ o2.required s.numTr) (hk0 : 0 < k) (hk : k ≤ 622)
    (o2' : Op) (b2 : Array Nat) (sz2 : Nat) (hp2 : o2.pack s.numTr b1 k = .ok (o2', b2, sz2)) (hb2 : b2.size = 622)
    (s1 s2 : State) (hh1 : handlePayload (pre s (nextId t)) b2 = .ok (s1, NO_ERR))
    (hh2 : handlePayload { s1 with ack := NO_ERR } (b2.extract k 622) = .ok (s2, NO_ERR)) :
    sendLoop2 (fuel + 1) o1 o2 s t =
      sendLoop2 fuel o1' o2' (fin s2 (nextId t)) { msgId := nextId t, slot2 := k, payload := b2 } := by
  have hpk1 : packOp o1 s.numTr t = .ok (o1', { msgId := nextId t, slot2 := 0, payload := b1 }, k) := by
    unfold packOp; simp only []; rw [hp1]; rfl
  have hpk : packOp2 o1 o2 s.numTr t = .ok (o1', o2', { msgId := nextId t, slot2 := k, payload := b2 }) := by
    unfold packOp2
    simp only [hnd1, hnd2, hpk1]
    rw [if_pos (by show b1.size - k ≥ _; rw [hb1]; exact hroom)]
    show (match o2.pack s.numTr b1 k with
      | .error e => _
      | .ok (o2, b, _) => _) = _
    rw [hp2]
  have hrecv := ecatRecv_two s { msgId := nextId t, slot2 := k, payload := b2 } (nextId_lt t) hk0
    (by show k ≤ b2.size; omega) (by show k < 65536; omega) hf s1 s2 hh1 (by show handlePayload _ (b2.extract k b2.size) = _; rw [hb2]; exact hh2)
  conv => lhs; unfold sendLoop2
  simp only [hnd1, hnd2, Bool.false_and, Bool.false_eq_true, if_false, hpk, hrecv]
  exact if_pos rfl

end Autd3.Rt
