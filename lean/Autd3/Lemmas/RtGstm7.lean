import Autd3.Lemmas.RtGstm6
/-!
GainSTM, part 7: the driver side — the pattern loops of `GainSTM::pack` as a double iteration over
cells, generic cell lemma, `pack` for first and following frames.
-/
set_option linter.unusedSimpArgs false
open Autd3 Autd3.Fw Autd3.Wire Autd3.Gen.Cpu Autd3.Gen
namespace Autd3.Rt

/-- one step of the driver's inner loop: transducer `t` of the `j`-th pattern of the frame -/
def gstmStep (mode hoff : Nat) (g : Array Nat) (b : Array Nat) (j t : Nat) : Array Nat :=
  if mode = Drv.GainSTMMode_PhaseIntensityFull then put16 b (hoff + 2 * t) (rd g t)
  else if mode = Drv.GainSTMMode_PhaseFull then put8 b (hoff + 2 * t + j) (rd g t % 256)
  else put8 b (hoff + 2 * t + j / 2)
    (if j % 2 = 0 then (rd b (hoff + 2 * t + j / 2) / 16) * 16 + (rd g t % 256) / 16
     else (rd b (hoff + 2 * t + j / 2) % 16) + (rd g t % 256) / 16 * 16)

def gstmData (mode hoff nTr : Nat) (patterns : Array (Array Nat)) (sent : Nat) (b : Array Nat) (send : Nat) : Array Nat :=
  iter (fun b j => iter (fun b t => gstmStep mode hoff (patAt patterns (sent + j)) b j t) b nTr) b send

/-- generic: a double loop whose step `(j, t)` sets cell `(t, j)` to `val j t` and keeps every other cell -/
theorem iter2_cells {β : Type} (st : β → Nat → Nat → β) (obs : β → Nat → Nat → Nat) (val : Nat → Nat → Nat)
    (P : β → Prop) (J T : Nat)
    (hP : ∀ b j t, P b → P (st b j t))
    (hset : ∀ b j t, P b → j < J → t < T → obs (st b j t) t j = val j t)
    (hkeep : ∀ b j t t' k, P b → j < J → t < T → k < J → t' < T → (t' ≠ t ∨ k ≠ j) → obs (st b j t) t' k = obs b t' k) :
    ∀ send, send ≤ J → ∀ b, P b →
      P (iter (fun b j => iter (fun b t => st b j t) b T) b send) ∧
      (∀ k, k < send → ∀ t, t < T → obs (iter (fun b j => iter (fun b t => st b j t) b T) b send) t k = val k t) ∧
      (∀ k, send ≤ k → k < J → ∀ t, t < T →
        obs (iter (fun b j => iter (fun b t => st b j t) b T) b send) t k = obs b t k) := by
  have inner : ∀ j, j < J → ∀ n, n ≤ T → ∀ b, P b →
      P (iter (fun b t => st b j t) b n) ∧
      (∀ t, t < n → obs (iter (fun b t => st b j t) b n) t j = val j t) ∧
      (∀ t' k, t' < T → k < J → (k ≠ j ∨ n ≤ t') → obs (iter (fun b t => st b j t) b n) t' k = obs b t' k) := by
    intro j hj n
    induction n with
    | zero => intro _ b hb; exact ⟨hb, fun t ht => by omega, fun _ _ _ _ _ => rfl⟩
    | succ n ih =>
      intro hn b hb
      obtain ⟨p1, p2, p3⟩ := ih (by omega) b hb
      refine ⟨hP _ _ _ p1, ?_, ?_⟩
      · intro t ht
        by_cases h : t = n
        · subst h; exact hset _ _ _ p1 hj (by omega)
        · show obs (st _ j n) t j = _
          rw [hkeep _ j n t j p1 hj (by omega) hj (by omega) (Or.inl h)]; exact p2 t (by omega)
      · intro t' k ht' hk h
        show obs (st _ j n) t' k = _
        rw [hkeep _ j n t' k p1 hj (by omega) hk ht' (by omega)]
        exact p3 t' k ht' hk (by omega)
  intro send
  induction send with
  | zero => intro _ b hb; exact ⟨hb, fun k hk => by omega, fun _ _ _ _ _ => rfl⟩
  | succ n ih =>
    intro hn b hb
    obtain ⟨p1, p2, p3⟩ := ih (by omega) b hb
    obtain ⟨q1, q2, q3⟩ := inner n (by omega) T (Nat.le_refl _) _ p1
    refine ⟨q1, ?_, ?_⟩
    · intro k hk t ht
      by_cases h : k = n
      · subst h; exact q2 t ht
      · show obs (iter (fun b t => st b n t) _ T) t k = _
        rw [q3 t k ht (by omega) (Or.inl h)]; exact p2 k (by omega) t ht
    · intro k hk1 hk2 t ht
      show obs (iter (fun b t => st b n t) _ T) t k = _
      rw [q3 t k ht hk2 (Or.inl (by omega))]; exact p3 k (by omega) hk2 t ht

def perFrame (mode : Nat) : Nat := if mode = 0 then 1 else if mode = 1 then 2 else 4

/-- the control-flag byte of a GainSTM frame -/
def gstmFlagByte (first last hasTr : Bool) (seg send : Nat) : Nat :=
  (if first then 1 else 0) + (if last then 2 + (if hasTr then 4 else 0) else 0) + (if seg = 1 then 8 else 0) + 64 * (send - 1)

theorem gstmFlagByte_bits (first last hasTr : Bool) (seg send : Nat) (hseg : seg ≤ 1) (hs : 1 ≤ send ∧ send ≤ 4) :
    gstmFlagByte first last hasTr seg send < 256 ∧
    hasFlag (gstmFlagByte first last hasTr seg send) GAIN_STM_FLAG_BEGIN = first ∧
    hasFlag (gstmFlagByte first last hasTr seg send) GAIN_STM_FLAG_END = last ∧
    hasFlag (gstmFlagByte first last hasTr seg send) GAIN_STM_FLAG_UPDATE = (last && hasTr) ∧
    (if gstmFlagByte first last hasTr seg send &&& GAIN_STM_FLAG_SEGMENT ≠ 0 then 1 else 0) = seg ∧
    (gstmFlagByte first last hasTr seg send >>> 6) + 1 = send := by
  rcases (show seg = 0 ∨ seg = 1 by omega) with h | h <;> subst h <;>
  rcases (show send = 1 ∨ send = 2 ∨ send = 3 ∨ send = 4 by omega) with h | h | h | h <;> subst h <;>
    cases first <;> cases last <;> cases hasTr <;> decide

def gstmFirstPayload (b : Array Nat) (patterns : Array (Array Nat)) (mode nt send flag tm div rep tv : Nat) : Array Nat :=
  put64 (put16 (put16 (put8 (put8 (put8 (put8 (gstmData mode 16 nt patterns 0 b send) 0 Drv.TAG_GainSTM) 1 flag) 2 mode)
    3 tm) 4 div) 6 rep) 8 tv

def gstmNextPayload (b : Array Nat) (patterns : Array (Array Nat)) (mode nt c send flag : Nat) : Array Nat :=
  put8 (put8 (gstmData mode 2 nt patterns c b send) 0 Drv.TAG_GainSTM) 1 flag

/-- the flag expression exactly as `GainSTM::pack` builds it -/
def gstmWireFlag (last hasTr : Bool) (seg send : Nat) : Nat :=
  let flag := if last then Drv.GainSTMControlFlags_END ||| (if hasTr then Drv.GainSTMControlFlags_TRANSITION else Drv.GainSTMControlFlags_NONE) else Drv.GainSTMControlFlags_NONE
  let flag := if seg = 1 then flag ||| Drv.GainSTMControlFlags_SEGMENT else flag
  let flag := if (send - 1) % 2 = 1 then flag ||| Drv.GainSTMControlFlags_SEND_BIT0 else flag
  if ((send - 1) / 2) % 2 = 1 then flag ||| Drv.GainSTMControlFlags_SEND_BIT1 else flag

theorem gstmWireFlag_eq (last hasTr : Bool) (seg send : Nat) (hseg : seg ≤ 1) (hs : 1 ≤ send ∧ send ≤ 4) :
    gstmWireFlag last hasTr seg send = gstmFlagByte false last hasTr seg send ∧
    Drv.GainSTMControlFlags_BEGIN ||| gstmWireFlag last hasTr seg send = gstmFlagByte true last hasTr seg send := by
  rcases (show seg = 0 ∨ seg = 1 by omega) with h | h <;> subst h <;>
  rcases (show send = 1 ∨ send = 2 ∨ send = 3 ∨ send = 4 by omega) with h | h | h | h <;> subst h <;>
    cases last <;> cases hasTr <;> decide

theorem ite_pure_yield {α : Type} (c : Prop) [Decidable c] (a b : α) :
    (if c then (pure (ForInStep.yield a) : Id (ForInStep α)) else pure (ForInStep.yield b)) =
      pure (ForInStep.yield (if c then a else b)) := by split <;> rfl

theorem perFrame_bounds (mode : Nat) : 1 ≤ perFrame mode ∧ perFrame mode ≤ 4 := by
  unfold perFrame; repeat' split
  all_goals omega

theorem pack_gstm_next (mode seg : Nat) (tr : Tr) (rep div : Nat) (patterns : Array (Array Nat)) (nt : Nat) (b : Array Nat)
    (c : Nat) (hb : b.size = 622) (hnt : nt ≤ 249) (hsz : 2 ≤ patterns.size ∧ patterns.size ≤ 1024) (hm : mode ≤ 2)
    (hseg : seg ≤ 1) (hc0 : 0 < c) (hcn : c < patterns.size) :
    ({ dg := .gainStm mode seg tr rep div patterns, sent := c, done := false } : Op).pack nt b 0 =
      .ok ({ dg := .gainStm mode seg tr rep div patterns, sent := c + min (perFrame mode) (patterns.size - c),
             done := decide (c + min (perFrame mode) (patterns.size - c) = patterns.size) },
        gstmNextPayload b patterns mode nt c (min (perFrame mode) (patterns.size - c))
          (gstmFlagByte false (decide (c + min (perFrame mode) (patterns.size - c) = patterns.size)) tr.isSome seg
            (min (perFrame mode) (patterns.size - c))),
        2 + nt * 2) := by
  have hpf := perFrame_bounds mode
  obtain ⟨hfl, _⟩ := gstmWireFlag_eq (decide (c + min (perFrame mode) (patterns.size - c) = patterns.size)) tr.isSome seg
    (min (perFrame mode) (patterns.size - c)) hseg (by omega)
  rw [← hfl]
  unfold Op.pack gstmNextPayload gstmData gstmWireFlag
  have h0 : ¬ (patterns.size < Drv.STM_BUF_SIZE_MIN ∨ patterns.size > Drv.GAIN_STM_BUF_SIZE_MAX) := by
    simp only [Drv.STM_BUF_SIZE_MIN, Drv.GAIN_STM_BUF_SIZE_MAX]; omega
  have hc' : ¬ c = 0 := by omega
  have hnT : min nt ((622 - 2) / 2) = nt := by omega
  have hper : (if mode = Drv.GainSTMMode_PhaseIntensityFull then 1 else if mode = Drv.GainSTMMode_PhaseFull then 2 else 4) =
      perFrame mode := rfl
  simp only [h0, if_false, hc', hb, Nat.sub_zero, Nat.zero_add, DrvLayout.GainSTMSubseq_size, hnT, hper]
  simp [ite_pure_yield, foldl_range', gstmStep, patAt, DrvLayout.GainSTMSubseq_tag_off, DrvLayout.GainSTMSubseq_flag_off]

theorem pack_gstm_first (mode seg : Nat) (tr : Tr) (rep div : Nat) (patterns : Array (Array Nat)) (nt : Nat) (b : Array Nat)
    (hb : b.size = 622) (hnt : nt ≤ 249) (hsz : 2 ≤ patterns.size ∧ patterns.size ≤ 1024) (hm : mode ≤ 2) (hseg : seg ≤ 1) :
    ({ dg := .gainStm mode seg tr rep div patterns, sent := 0, done := false } : Op).pack nt b 0 =
      .ok ({ dg := .gainStm mode seg tr rep div patterns, sent := min (perFrame mode) patterns.size,
             done := decide (min (perFrame mode) patterns.size = patterns.size) },
        gstmFirstPayload b patterns mode nt (min (perFrame mode) patterns.size)
          (gstmFlagByte true (decide (min (perFrame mode) patterns.size = patterns.size)) tr.isSome seg
            (min (perFrame mode) patterns.size)) (trMode tr) div rep (trValue tr),
        16 + nt * 2) := by
  have hpf := perFrame_bounds mode
  obtain ⟨_, hfl⟩ := gstmWireFlag_eq (decide (min (perFrame mode) patterns.size = patterns.size)) tr.isSome seg
    (min (perFrame mode) patterns.size) hseg (by omega)
  rw [← hfl]
  unfold Op.pack gstmFirstPayload gstmData gstmWireFlag
  have h0 : ¬ (patterns.size < Drv.STM_BUF_SIZE_MIN ∨ patterns.size > Drv.GAIN_STM_BUF_SIZE_MAX) := by
    simp only [Drv.STM_BUF_SIZE_MIN, Drv.GAIN_STM_BUF_SIZE_MAX]; omega
  have hnT : min nt ((622 - 16) / 2) = nt := by omega
  have hper : (if mode = Drv.GainSTMMode_PhaseIntensityFull then 1 else if mode = Drv.GainSTMMode_PhaseFull then 2 else 4) =
      perFrame mode := rfl
  simp only [h0, if_false, if_true, hb, Nat.sub_zero, Nat.zero_add, DrvLayout.GainSTMHead_size, hnT, hper]
  simp [ite_pure_yield, foldl_range', gstmStep, patAt, DrvLayout.GainSTMHead_tag_off, DrvLayout.GainSTMHead_flag_off,
    DrvLayout.GainSTMHead_mode_off, DrvLayout.GainSTMHead_transition_mode_off, DrvLayout.GainSTMHead_freq_div_off,
    DrvLayout.GainSTMHead_rep_off, DrvLayout.GainSTMHead_transition_value_off]

end Autd3.Rt
