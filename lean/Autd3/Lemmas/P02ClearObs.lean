import Autd3.Lemmas.P02Clear
/-!
# What is observable after `Clear`

`Cleared s'` collects the low-level facts about the state `Clear` produces; `cleared_clearResult`
proves them for `clearResult s` of every well-formed `s`; the `obs_*` lemmas derive every public
read-back accessor (`Obs.*`) from `Cleared`.
-/
namespace Autd3.P02
open Autd3 Autd3.Fw Autd3.Gen.Cpu Autd3.Gen

/-- the swap-chain fields that `Clear` resets (`cyc` = 2 for modulation, 1 for STM) -/
structure SwapCleared (w : Swap) (t cyc : Nat) : Prop where
  cur : w.cur = 0
  state : w.state = .infiniteLoop
  stop : w.stop = false
  extMode : w.extMode = false
  mode : w.mode = .syncIdx
  sysTime : w.sysTime = t
  freqDiv0 : w.freqDiv.1 = 0xFFFF
  cycle0 : w.cycle.1 = cyc
  ticOff0 : w.ticOff.1 = 0

/-- low-level description of the state after `Clear` -/
structure Cleared (s' : State) : Prop where
  sized : Sized s'
  regs : RegsCleared s'.ctl
  flag0 : rd s'.ctl 0 = 0
  portA : s'.portA = 0
  reads : s'.readsFpgaState = false
  flagsInternal : s'.flagsInternal = 0
  strict : s'.strict = true
  minDivI : s'.minDivI = 10
  minDivP : s'.minDivP = 40
  modDiv : s'.modDiv = (0xFFFF, 0xFFFF)
  modRep : s'.modRep = (0xFFFF, 0xFFFF)
  modCycle : s'.modCycle = 2
  modSegment : s'.modSegment = 0
  stmCycle : s'.stmCycle = (1, 1)
  stmMode : s'.stmMode = (STM_MODE_GAIN, STM_MODE_GAIN)
  stmDiv : s'.stmDiv = (0xFFFF, 0xFFFF)
  stmRep : s'.stmRep = (0xFFFF, 0xFFFF)
  stmSegment : s'.stmSegment = 0
  mod0 : rd s'.modMem0 0 = 0xFFFF
  mod1 : rd s'.modMem1 0 = 0xFFFF
  stm0 : ∀ i, i < 249 → rd s'.stmMem0 i = 0
  stm1 : ∀ i, i < 249 → rd s'.stmMem1 i = 0
  pc : ∀ i, i < 125 → rd s'.phaseCorr i = 0
  pwe : ∀ i, i < 256 → rd s'.pwe i = Tables.drvAsin i
  modSwap : SwapCleared s'.modSwap s'.dcSysTime 2
  stmSwap : SwapCleared s'.stmSwap s'.dcSysTime 1

theorem cpuAsin_patch : ∀ i : Fin 256,
    (if i.val = 255 then 256 else Tables.cpuAsin i.val % 65536) = Tables.drvAsin i.val := by
  decide +kernel

theorem regs_clearResult (s : State) (h : s.ctl.size = 256) :
    RegsCleared (clearResult s).ctl ∧ rd (clearResult s).ctl 0 = 0 := by
  have hr := regs_resABCD s h
  have hsz : (resABCD s).ctl.size = 256 := by simp [resABCD, resA, resB, resC, resD, h]
  have hf : (resABCD s).flagsInternal = 0 := rfl
  have hne : ∀ p ∈ clearedRegs, p.1 ≠ 0 := by decide
  constructor
  · intro p hp
    simp [clearResult, resF, resE2, resE1, rd_set, hne p hp, hr p hp]
  · simp [clearResult, resF, resE2, resE1, rd_set, hsz, hf]

theorem cleared_clearResult (s : State) (h : WF s) : Cleared (clearResult s) := by
  have hs := sized_clearResult s h.toSized
  obtain ⟨hregs, h0⟩ := regs_clearResult s h.ctl
  have hr := regs_resABCD s h.ctl
  simp [RegsCleared, clearedRegs] at hr
  refine { sized := hs, regs := hregs, flag0 := h0, portA := rfl, reads := rfl, flagsInternal := rfl,
           strict := rfl, minDivI := rfl, minDivP := rfl, modDiv := rfl, modRep := rfl, modCycle := rfl,
           modSegment := rfl, stmCycle := rfl, stmMode := rfl, stmDiv := rfl, stmRep := rfl, stmSegment := rfl,
           mod0 := ?_, mod1 := ?_, stm0 := ?_, stm1 := ?_, pc := ?_, pwe := ?_, modSwap := ?_, stmSwap := ?_ }
  · show rd (writeLoop s.modMem0 0 (fun i => rd #[65535] i % 65536) 1) 0 = 0xFFFF
    rw [rd_writeLoop]; simp [h.modMem0]; simp [rd]
  · show rd (writeLoop s.modMem1 0 (fun i => rd #[65535] i % 65536) 1) 0 = 0xFFFF
    rw [rd_writeLoop]; simp [h.modMem1]; simp [rd]
  · intro i hi
    show rd (writeLoop s.stmMem0 0 (fun i => rd (Array.replicate 249 0) i % 65536) 249) i = 0
    have : i < s.stmMem0.size := by rw [h.stmMem0]; omega
    simp [rd_writeLoop, hi, this, rd_replicate]
  · intro i hi
    show rd (writeLoop s.stmMem1 0 (fun i => rd (Array.replicate 249 0) i % 65536) 249) i = 0
    have : i < s.stmMem1.size := by rw [h.stmMem1]; omega
    simp [rd_writeLoop, hi, this, rd_replicate]
  · intro i hi
    show rd (writeLoop s.phaseCorr 0 (fun i => rd (Array.replicate 125 0) i % 65536) 125) i = 0
    have : i < s.phaseCorr.size := by rw [h.phaseCorr]; omega
    simp [rd_writeLoop, hi, this, rd_replicate]
  · intro i hi
    show rd (writeLoop (writeLoop s.pwe 0 (fun i => rd (Array.map Tables.cpuAsin (Array.range 256)) i % 65536) 256) 255
                    (fun i => rd #[256] i % 65536) 1) i = _
    have e := cpuAsin_patch ⟨i, hi⟩
    simp only [] at e
    rw [← e]
    by_cases h255 : i = 255
    · subst h255; rw [rd_writeLoop]; simp [h.pwe]; simp [rd]
    · have h1 : ¬ (255 ≤ i) := by omega
      simp [rd_writeLoop, h.pwe, hi, h255, h1, rd_map_range]
  · have e : (clearResult s).modSwap = clearSwap s.modSwap s.dcSysTime 2 := by
      show clearSwap s.modSwap s.dcSysTime (rd (resABCD s).ctl 35 + 1) = _
      rw [hr.2.2.2.1]
    rw [e]
    constructor <;> simp [clearSwap, setSel] <;> rfl
  · have e : (clearResult s).stmSwap = clearSwap s.stmSwap s.dcSysTime 1 := by
      show clearSwap s.stmSwap s.dcSysTime (rd (resE1 (resABCD s)).ctl 83 + 1) = _
      have : rd (resE1 (resABCD s)).ctl 83 = 0 := by simp [resE1, rd_set, hr]
      rw [this]
    rw [e]
    constructor <;> simp [clearSwap, setSel] <;> rfl

theorem seg_cases {seg : Nat} (h : seg ≤ 1) : seg = 0 ∨ seg = 1 := by omega

/-- the power-on observable state: every public read-back accessor that does not depend on the
sound-speed / num-foci registers (which `Clear` does not touch and which are dead in gain mode) -/
structure PowerOnObs (s' : State) : Prop where
  modBuffer : ∀ seg, seg ≤ 1 → Obs.modBuffer s' seg = .ok #[0xFF, 0xFF]
  modDiv : ∀ seg, seg ≤ 1 → Obs.modDiv s' seg = 0xFFFF
  modCycle : ∀ seg, seg ≤ 1 → Obs.modCycle s' seg = 2
  modRep : ∀ seg, seg ≤ 1 → Obs.modRep s' seg = 0xFFFF
  reqModSeg : Obs.reqModSeg s' = .ok 0
  modTransition : Obs.modTransition s' = .ok .syncIdx
  stmGain : ∀ seg, seg ≤ 1 → Obs.isStmGainMode s' seg = true
  stmDiv : ∀ seg, seg ≤ 1 → Obs.stmDiv s' seg = 0xFFFF
  stmCycle : ∀ seg, seg ≤ 1 → Obs.stmCycle s' seg = 1
  stmRep : ∀ seg, seg ≤ 1 → Obs.stmRep s' seg = 0xFFFF
  reqStmSeg : Obs.reqStmSeg s' = .ok 0
  stmTransition : Obs.stmTransition s' = .ok .syncIdx
  drives : ∀ seg, seg ≤ 1 → Obs.drivesAt s' seg 0 = .ok (Array.replicate s'.numTr 0)
  silRate : Obs.silencerUpdateRate s' = (256, 256)
  silSteps : Obs.silencerCompletionSteps s' = .ok (10, 40)
  silFixed : Obs.silencerFixedUpdateRateMode s' = false
  strict : s'.strict = true
  pwe : Obs.pweTable s' = .ok ((Array.range 256).map Tables.drvAsin)
  phaseCorr : Obs.phaseCorrection s' = Array.replicate s'.numTr 0
  debugTypes : Obs.debugTypes s' = #[0, 0, 0, 0]
  debugValues : Obs.debugValues s' = #[0, 0, 0, 0]
  forceFan : Obs.isForceFan s' = false
  reads : s'.readsFpgaState = false
  portA : s'.portA = 0
  curMod : Obs.currentModSeg s' = 0
  curStm : Obs.currentStmSeg s' = 0
  modLoop : s'.modSwap.state = .infiniteLoop ∧ s'.modSwap.stop = false
  stmLoop : s'.stmSwap.state = .infiniteLoop ∧ s'.stmSwap.stop = false

theorem powerOnObs_of_cleared {s' : State} (c : Cleared s') (hn : s'.numTr ≤ 249) : PowerOnObs s' := by
  have hr := c.regs
  simp [RegsCleared, clearedRegs] at hr
  have h0 := c.flag0
  have hsz := c.sized
  have hpc : ∀ i, i < s'.numTr → Obs.phaseCorrAt s' i = 0 := by
    intro i hi
    have := c.pc (i / 2) (by omega)
    simp [Obs.phaseCorrAt, this]
  refine { modBuffer := ?_, modDiv := ?_, modCycle := ?_, modRep := ?_, reqModSeg := ?_, modTransition := ?_,
           stmGain := ?_, stmDiv := ?_, stmCycle := ?_, stmRep := ?_, reqStmSeg := ?_, stmTransition := ?_,
           drives := ?_, silRate := ?_, silSteps := ?_, silFixed := ?_, strict := c.strict, pwe := ?_,
           phaseCorr := ?_, debugTypes := ?_, debugValues := ?_, forceFan := ?_, reads := c.reads,
           portA := c.portA, curMod := c.modSwap.cur, curStm := c.stmSwap.cur,
           modLoop := ⟨c.modSwap.state, c.modSwap.stop⟩, stmLoop := ⟨c.stmSwap.state, c.stmSwap.stop⟩ }
  · intro seg hseg
    have hc : Obs.modCycle s' seg = 2 := by
      rcases seg_cases hseg with h | h <;> subst h <;> simp [Obs.modCycle, reg, ADDR_MOD_CYCLE0, hr]
    unfold Obs.modBuffer
    rw [hc, mapM_range_ok 2 _ (fun _ => 0xFF)]
    · rw [map_range_const]; rfl
    · intro i hi
      have hi2 : i / 2 = 0 := by omega
      rcases seg_cases hseg with h | h <;> subst h
      · have : i = 0 ∨ i = 1 := by omega
        rcases this with h | h <;> subst h <;> simp [Obs.modAt, Obs.modMem, hsz.modMem0, c.mod0]
      · have : i = 0 ∨ i = 1 := by omega
        rcases this with h | h <;> subst h <;> simp [Obs.modAt, Obs.modMem, hsz.modMem1, c.mod1]
  · intro seg hseg
    rcases seg_cases hseg with h | h <;> subst h <;> simp [Obs.modDiv, reg, ADDR_MOD_FREQ_DIV0, hr]
  · intro seg hseg
    rcases seg_cases hseg with h | h <;> subst h <;> simp [Obs.modCycle, reg, ADDR_MOD_CYCLE0, hr]
  · intro seg hseg
    rcases seg_cases hseg with h | h <;> subst h <;> simp [Obs.modRep, reg, ADDR_MOD_REP0, hr]
  · simp [Obs.reqModSeg, segReg, reg, ADDR_MOD_REQ_RD_SEGMENT, hr]
  · simp [Obs.modTransition, decodeTMode, reg, ADDR_MOD_TRANSITION_MODE, TRANSITION_MODE_SYNC_IDX, hr]
  · intro seg hseg
    rcases seg_cases hseg with h | h <;> subst h <;> simp [Obs.isStmGainMode, reg, ADDR_STM_MODE0, STM_MODE_GAIN, hr]
  · intro seg hseg
    rcases seg_cases hseg with h | h <;> subst h <;> simp [Obs.stmDiv, reg, ADDR_STM_FREQ_DIV0, hr]
  · intro seg hseg
    rcases seg_cases hseg with h | h <;> subst h <;> simp [Obs.stmCycle, reg, ADDR_STM_CYCLE0, hr]
  · intro seg hseg
    rcases seg_cases hseg with h | h <;> subst h <;> simp [Obs.stmRep, reg, ADDR_STM_REP0, hr]
  · simp [Obs.reqStmSeg, segReg, reg, ADDR_STM_REQ_RD_SEGMENT, hr]
  · simp [Obs.stmTransition, decodeTMode, reg, ADDR_STM_TRANSITION_MODE, TRANSITION_MODE_SYNC_IDX, hr]
  · intro seg hseg
    have hg : Obs.isStmGainMode s' seg = true := by
      rcases seg_cases hseg with h | h <;> subst h <;> simp [Obs.isStmGainMode, reg, ADDR_STM_MODE0, STM_MODE_GAIN, hr]
    unfold Obs.drivesAt
    rw [hg]
    simp only [if_true]
    congr 1
    unfold Obs.gainDrives
    rw [← map_range_const]
    apply map_range_congr
    intro i hi
    rcases seg_cases hseg with h | h <;> subst h
    · simp [Obs.stmMem, hsz.stmMem0, c.stm0 i (by omega), hpc i hi]
    · simp [Obs.stmMem, hsz.stmMem1, c.stm1 i (by omega), hpc i hi]
  · simp [Obs.silencerUpdateRate, reg, ADDR_SILENCER_UPDATE_RATE_INTENSITY, ADDR_SILENCER_UPDATE_RATE_PHASE, hr]
  · simp [Obs.silencerCompletionSteps, reg, ADDR_SILENCER_COMPLETION_STEPS_INTENSITY, ADDR_SILENCER_COMPLETION_STEPS_PHASE, hr]
  · simp [Obs.silencerFixedUpdateRateMode, reg, ADDR_SILENCER_FLAG, hasFlag, SILENCER_FLAG_FIXED_UPDATE_RATE_MODE, hr]
  · unfold Obs.pweTable
    apply mapM_range_ok
    intro i hi
    have := c.pwe i hi
    have hb : Tables.drvAsin i < 512 := by
      have : ∀ i : Fin 256, Tables.drvAsin i.val < 512 := by decide +kernel
      exact this ⟨i, hi⟩
    simp [this, hb]
  · unfold Obs.phaseCorrection
    rw [← map_range_const]
    exact map_range_congr _ _ _ hpc
  · simp [Obs.debugTypes, reg, ADDR_DEBUG_VALUE0_3, ADDR_DEBUG_VALUE1_3, ADDR_DEBUG_VALUE2_3, ADDR_DEBUG_VALUE3_3, hr]
  · simp [Obs.debugValues, reg64, reg, ADDR_DEBUG_VALUE0_0, ADDR_DEBUG_VALUE1_0, ADDR_DEBUG_VALUE2_0, ADDR_DEBUG_VALUE3_0, hr]
  · simp [Obs.isForceFan, reg, ADDR_CTL_FLAG, h0]

/-- the state `CPUEmulator::new` builds before it runs `init()` = `clear` -/
def preClear (numTr now : Nat) : State :=
  { numTr := numTr, dcSysTime := now,
    ctl := ((Array.replicate 256 0).setIfInBounds ADDR_VERSION_NUM_MAJOR
              (((Autd3.Gen.Fpga.ENABLED_FEATURES_BITS <<< 8) ||| Autd3.Gen.Fpga.VERSION_NUM_MAJOR) % 65536)).setIfInBounds
              ADDR_VERSION_NUM_MINOR Autd3.Gen.Fpga.VERSION_NUM_MINOR,
    pwe := (Array.range 256).map Autd3.Gen.Tables.fpgaAsin,
    modSwap := { sysTime := now }, stmSwap := { sysTime := now } }

theorem wf_preClear (numTr now : Nat) (hn : numTr ≤ 249) : WF (preClear numTr now) := by
  refine { ctl := ?_, phaseCorr := ?_, pwe := ?_, modMem0 := ?_, modMem1 := ?_, stmMem0 := ?_, stmMem1 := ?_,
           numTr := hn, modSwap := ?_, stmSwap := ?_, flags := ?_ }
  all_goals simp [preClear, SwapWF, FlagsOK]

theorem new_eq (numTr now : Nat) (hn : numTr ≤ 249) :
    Fw.new numTr now = .ok (clearResult (preClear numTr now)) := by
  have : Fw.new numTr now = (clear (preClear numTr now) #[] >>= fun x => match x with | (s, _) => pure s) := rfl
  rw [this, clear_eq _ (wf_preClear numTr now hn)]
  rfl

theorem swapWF_clearSwap (w : Swap) (t cyc : Nat) (h : SwapWF w) (hc : cyc ≠ 0) : SwapWF (clearSwap w t cyc) := by
  obtain ⟨h1, h2, h3, h4⟩ := h
  simp [SwapWF, clearSwap, setSel, h2, h4, hc]

/-- `Clear` preserves the invariant -/
theorem wf_clearResult (s : State) (h : WF s) : WF (clearResult s) := by
  have hs := sized_clearResult s h.toSized
  exact { toSized := hs, numTr := h.numTr,
          modSwap := swapWF_clearSwap _ _ _ h.modSwap (by omega),
          stmSwap := swapWF_clearSwap _ _ _ h.stmSwap (by omega),
          flags := by
            have : (clearResult s).flagsInternal = 0 := rfl
            simp [FlagsOK, this] }

theorem modSwap_clearResult (s : State) (h : s.ctl.size = 256) :
    (clearResult s).modSwap = clearSwap s.modSwap s.dcSysTime 2 := by
  have hr := regs_resABCD s h
  simp [RegsCleared, clearedRegs] at hr
  show clearSwap s.modSwap s.dcSysTime (rd (resABCD s).ctl 35 + 1) = _
  rw [hr.2.2.2.1]

theorem stmSwap_clearResult (s : State) (h : s.ctl.size = 256) :
    (clearResult s).stmSwap = clearSwap s.stmSwap s.dcSysTime 1 := by
  have hr := regs_resABCD s h
  simp [RegsCleared, clearedRegs] at hr
  show clearSwap s.stmSwap s.dcSysTime (rd (resE1 (resABCD s)).ctl 83 + 1) = _
  have : rd (resE1 (resABCD s)).ctl 83 = 0 := by simp [resE1, rd_set, hr]
  rw [this]

/-- the first clock update after `Clear`: the swap chain stays put and the playing index is a function
of the time only -/
theorem update_of_swapCleared (w : Swap) (t0 cyc : Nat) (hc : SwapCleared w t0 cyc) (hwf : SwapWF w) (hcyc : cyc ≠ 0)
    (g : Nat → Bool) (t : Nat) :
    w.update g t = .ok { w with curIdx := ((fpgaSysTime t >>> 9) / 0xFFFF) % cyc } := by
  obtain ⟨h1, h2, h3, h4⟩ := hwf
  obtain ⟨c1, c2, c3, c4, c5, c6, c7, c8, c9⟩ := hc
  have hr1 : sel w.freqDiv w.req ≠ 0 := by unfold sel; split <;> assumption
  have hr2 : sel w.cycle w.req ≠ 0 := by unfold sel; split <;> assumption
  unfold Swap.update Swap.lapAndIdx
  by_cases hq : w.req = 0
  · simp [hq, c1, c2, c3, c4, sel, c7, c8, c9, hcyc, bind, Except.bind, pure, Except.pure]
  · simp [hq, h2, h4, c1, c2, c3, c4, sel, c7, c8, c9, hcyc, bind, Except.bind, pure, Except.pure]


theorem update_after_clear (s' : State) (c : Cleared s') (hm : SwapWF s'.modSwap) (hs : SwapWF s'.stmSwap) (t : Nat) :
    ∃ s'', updateWithSysTime s' t = .ok s'' ∧
      Obs.currentModIdx s'' = ((fpgaSysTime t >>> 9) / 0xFFFF) % 2 ∧ Obs.currentStmIdx s'' = 0 ∧
      Obs.currentModSeg s'' = 0 ∧ Obs.currentStmSeg s'' = 0 ∧ s''.dcSysTime = t := by
  have e1 := update_of_swapCleared _ _ _ c.modSwap hm (by decide) (gpioIn s') t
  have e2 := update_of_swapCleared _ _ _ c.stmSwap hs (by decide) (gpioIn s') t
  refine ⟨_, updateWithSysTime_eq s' t _ _ e1 e2, ?_, ?_, ?_, ?_, ?_⟩
  · simp only [Obs.currentModIdx, updCore_modSwap]
  · simp only [Obs.currentStmIdx, updCore_stmSwap, Nat.mod_one]
  · simp only [Obs.currentModSeg, updCore_modSwap]; exact c.modSwap.cur
  · simp only [Obs.currentStmSeg, updCore_stmSwap]; exact c.stmSwap.cur
  · rfl

/-- registers `Clear` does not write: FPGA_STATE, the two version words, sound speed and num-foci of both
segments -/
theorem clearResult_keeps_regs (s : State) :
    ∀ j ∈ [1, 2, 3, 91, 92, 93, 94], rd (clearResult s).ctl j = rd s.ctl j := by
  simp [clearResult, resF, resE2, resE1, resABCD, resA, resB, resC, resD, rd_set, rd_writeLoop]

theorem clearResult_kept (s : State) :
    (clearResult s).synchronized = s.synchronized ∧ (clearResult s).numFoci = s.numFoci ∧
    (clearResult s).gainStmMode = s.gainStmMode ∧ (clearResult s).stmWrite = s.stmWrite ∧
    (clearResult s).modTrMode = s.modTrMode ∧ (clearResult s).stmTrMode = s.stmTrMode ∧
    (clearResult s).readsStore = s.readsStore ∧ (clearResult s).isRxDataUsed = s.isRxDataUsed ∧
    (clearResult s).rxData = s.rxData ∧ (clearResult s).lastMsgId = s.lastMsgId ∧ (clearResult s).ack = s.ack ∧
    (clearResult s).numTr = s.numTr ∧ (clearResult s).dcSysTime = s.dcSysTime := by
  simp only [clearResult, resF, resE2, resE1, resABCD, resD, resC, resB, resA, and_self]

end Autd3.P02
