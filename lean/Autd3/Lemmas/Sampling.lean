import Autd3.Model.Sampling
import Autd3.Lemmas.F32
/-!
Lemmas about `Model/Sampling.lean` for `Props/C06.lean`: what acceptance by the `Freq` arm implies,
and the characterisation of `nearestDivision` by the midpoints between neighbouring rates.
-/
namespace Autd3.Sampling
open Autd3 Autd3.F32

theorem ofNat_40000 : F32.ofNat 40000 = .fin false 10240000 (-8) := by decide +kernel
theorem freqMin_eq : F32.div (.fin false 10240000 (-8)) (F32.ofNat 65535) = .fin false 10240156 (-24) := by
  decide +kernel

theorem toRat_pos_fin (s : Bool) (m : ℕ) (e : ℤ) (h : 0 < toRat (.fin s m e)) : s = false ∧ 0 < m := by
  unfold toRat at h
  have hp := two_zpow_pos e
  cases s
  · refine ⟨rfl, ?_⟩
    rcases Nat.eq_zero_or_pos m with h0 | h0
    · subst h0; simp at h
    · exact h0
  · exfalso
    simp only [if_true] at h
    have : (0 : ℚ) ≤ (m : ℚ) * (2 : ℚ) ^ e := by positivity
    linarith

/-- `lo ≤ f ≤ hi` with finite bounds forces `f` finite -/
theorem range_fin (f : F32) (s1 s2 : Bool) (m1 m2 : ℕ) (e1 e2 : ℤ)
    (h1 : F32.le (.fin s1 m1 e1) f = true) (h2 : F32.le f (.fin s2 m2 e2) = true) :
    ∃ s m e, f = .fin s m e ∧ toRat (.fin s1 m1 e1) ≤ toRat f ∧ toRat f ≤ toRat (.fin s2 m2 e2) := by
  cases f with
  | nan => simp [F32.le] at h1
  | inf b => cases b <;> simp [F32.le] at h1 h2
  | fin s m e => exact ⟨s, m, e, rfl, (le_fin _ _ _ _ _ _).1 h1, (le_fin _ _ _ _ _ _).1 h2⟩

/-- What acceptance by the `Freq` arm implies (any float, not only canonical ones). -/
theorem freq_core (f : F32) (d : ℕ) (h : division (.freq f) = .ok d) :
    (1 : ℚ) / 2 < toRat f ∧ toRat f ≤ 40000 ∧ 1 ≤ d ∧ d ≤ 65535 ∧ |40000 / toRat f - d| ≤ 1 / 512 + eps := by
  unfold division at h
  simp only [ultrasoundFreq, u16Max, ofNat_40000, freqMin_eq] at h
  split at h
  · cases h
  rename_i hr
  simp only [Bool.not_eq_true', Bool.not_eq_false, Bool.and_eq_true] at hr
  obtain ⟨s, m, e, rfl, hlo, hhi⟩ := range_fin _ _ _ _ _ _ _ hr.1 hr.2
  have hmin : toRat (.fin false 10240156 (-24)) = 10240156 / 16777216 := by unfold toRat; norm_num
  have hmax : toRat (.fin false 10240000 (-8)) = 40000 := by unfold toRat; norm_num
  rw [hmin] at hlo
  rw [hmax] at hhi
  have hpos : 0 < toRat (.fin s m e) := by linarith
  obtain ⟨rfl, hm⟩ := toRat_pos_fin s m e hpos
  obtain ⟨n, dd, hn, hdd, hdiv, hnd⟩ := div_fin false false 10240000 m (-8) e (by norm_num) hm
  have hF : toRat (.fin false m e) = (m : ℚ) * (2 : ℚ) ^ e := by unfold toRat; simp
  have h40 : ((10240000 : ℕ) : ℚ) * (2 : ℚ) ^ (-8 : ℤ) = 40000 := by norm_num
  rw [h40, ← hF] at hnd
  rw [hdiv] at h
  simp only [bne_self_eq_false] at h
  generalize toRat (.fin false m e) = F at *
  -- the exact quotient
  have hx1 : (1 : ℚ) ≤ (n : ℚ) / dd := by rw [hnd, le_div_iff₀ hpos]; linarith
  have hx2 : (n : ℚ) / dd < 65535 + 1 / 100 := by
    rw [hnd, div_lt_iff₀ hpos]; nlinarith
  rcases round_spec false n dd hn with hinf | ⟨mq, eq, hfin, hval⟩
  · rw [hinf] at h; simp [isInteger] at h
  rw [hfin] at h
  split at h
  · cases h
  rename_i hint
  simp only [Bool.not_eq_true', Bool.not_eq_false] at hint
  injection h with h
  obtain ⟨k, hk, hkq⟩ := accept_core mq eq hint
  have hQ : toRat (.fin false mq eq) = roundVal n dd := by unfold toRat; simp [hval]
  rw [hQ] at hkq
  have herr := roundVal_err n dd hdd
  have hu := ulpExp_le n dd hn hdd 16 (lt_trans hx2 (by norm_num)) (by norm_num)
  have hu' : (2 : ℚ) ^ (ulpExp n dd) ≤ (2 : ℚ) ^ (-8 : ℤ) := zpow_le_zpow_right₀ (by norm_num) (by omega)
  have h8 : (2 : ℚ) ^ (-8 : ℤ) = 1 / 256 := by norm_num
  rw [h8] at hu'
  have heps : eps < 1 / 1000 := by unfold eps epsNum; norm_num
  have heps0 : 0 < eps := by unfold eps epsNum; norm_num
  rw [abs_le] at herr
  rw [abs_lt] at hkq
  generalize roundVal n dd = Q at *
  generalize (2 : ℚ) ^ (ulpExp n dd) = u at *
  have hk1 : 1 ≤ k := by
    have : (0 : ℚ) < k := by linarith [herr.1, hkq.2]
    exact_mod_cast this
  have hk2 : k ≤ 65535 := by
    have : (k : ℚ) < 65536 := by linarith [herr.2, hkq.1]
    have : k < 65536 := by exact_mod_cast this
    omega
  have hd : d = k := by rw [← h, hk]; omega
  subst hd
  refine ⟨by linarith, hhi, hk1, hk2, ?_⟩
  rw [← hnd, abs_le]
  constructor <;> linarith [herr.1, herr.2, hkq.1, hkq.2]

/-! ### the STM frequency times the number of points -/

theorem toRat_nan : toRat .nan = 0 := rfl
theorem toRat_inf (s : Bool) : toRat (.inf s) = 0 := rfl
theorem toRat_zero_m (s : Bool) (e : ℤ) : toRat (.fin s 0 e) = 0 := by unfold toRat; simp

theorem round_zero (neg : Bool) (d : ℕ) : F32.round neg 0 d = .fin neg 0 (-149) := by
  unfold F32.round; simp

theorem mul_zero_left (s t : Bool) (m2 : ℕ) (e1 e2 : ℤ) :
    F32.mul (.fin s 0 e1) (.fin t m2 e2) = .fin (s != t) 0 (-149) := by
  unfold F32.mul; dsimp only []; split <;> simp [round_zero]

theorem mul_zero_right (s t : Bool) (m1 : ℕ) (e1 e2 : ℤ) :
    F32.mul (.fin s m1 e1) (.fin t 0 e2) = .fin (s != t) 0 (-149) := by
  unfold F32.mul; dsimp only []; split <;> simp [round_zero]

theorem toRat_mul_inf_left (s : Bool) (b : F32) : toRat (F32.mul (.inf s) b) = 0 := by
  cases b with
  | nan => rfl
  | inf t => rfl
  | fin t m e => 
    show toRat (if m = 0 then F32.nan else F32.inf (s != t)) = 0
    split <;> rfl
theorem toRat_mul_inf_right (a : F32) (t : Bool) : toRat (F32.mul a (.inf t)) = 0 := by
  cases a with
  | nan => rfl
  | inf s => rfl
  | fin s m e => 
    show toRat (if m = 0 then F32.nan else F32.inf (s != t)) = 0
    split <;> rfl
theorem toRat_mul_nan_left (b : F32) : toRat (F32.mul .nan b) = 0 := by
  cases b <;> rfl
theorem toRat_mul_nan_right (a : F32) : toRat (F32.mul a .nan) = 0 := by
  cases a <;> rfl

/-- a positive product has finite non-zero factors -/
theorem mul_pos_cases (a b : F32) (h : 0 < toRat (F32.mul a b)) :
    ∃ s t m1 m2 e1 e2, a = .fin s m1 e1 ∧ b = .fin t m2 e2 ∧ 0 < m1 ∧ 0 < m2 := by
  cases a with
  | nan => rw [toRat_mul_nan_left] at h; exact absurd h (lt_irrefl _)
  | inf s => rw [toRat_mul_inf_left] at h; exact absurd h (lt_irrefl _)
  | fin s m1 e1 =>
    cases b with
    | nan => rw [toRat_mul_nan_right] at h; exact absurd h (lt_irrefl _)
    | inf t => rw [toRat_mul_inf_right] at h; exact absurd h (lt_irrefl _)
    | fin t m2 e2 =>
      refine ⟨s, t, m1, m2, e1, e2, rfl, rfl, ?_⟩
      rcases Nat.eq_zero_or_pos m1 with h1 | h1
      · exfalso; subst h1
        rw [mul_zero_left, toRat_zero_m] at h; exact lt_irrefl _ h
      rcases Nat.eq_zero_or_pos m2 with h2 | h2
      · exfalso; subst h2
        rw [mul_zero_right, toRat_zero_m] at h; exact lt_irrefl _ h
      exact ⟨h1, h2⟩

/-- `STMConfig::Freq(f)` over `n` points accepted with division `d`: `d` is the nearest integer to
`40000 / (f·n)` for the *exact* product `f·n` -/
theorem stm_freq_core (f : F32) (n d : ℕ) (h : division (.freq (F32.mul f (F32.ofNat n))) = .ok d) :
    0 < toRat f ∧ 0 < n ∧ 1 ≤ d ∧ d ≤ 65535 ∧ |40000 / (toRat f * n) - d| ≤ 1 / 64 := by
  obtain ⟨hPlo, hPhi, hd1, hd2, hq⟩ := freq_core _ d h
  obtain ⟨s, t, m1, m2, e1, e2, rfl, hb, hm1, hm2⟩ := mul_pos_cases _ _ (by linarith)
  -- the number of points as a float
  have hn : 0 < n := by
    rcases Nat.eq_zero_or_pos n with h0 | h0
    · subst h0
      have : F32.ofNat 0 = .fin false 0 (-149) := by unfold F32.ofNat; exact round_zero _ _
      rw [this] at hb; injection hb with _ hmm _; omega
    · exact h0
  have hnq : (0 : ℚ) < n := by exact_mod_cast hn
  have hN : t = false ∧ (|(m2 : ℚ) * (2 : ℚ) ^ e2 - n| ≤ n * (2 : ℚ) ^ (-24 : ℤ)) := by
    unfold F32.ofNat at hb
    rcases round_spec false n 1 hn with hinf | ⟨m, e, hfin, hv⟩
    · rw [hinf] at hb; cases hb
    · rw [hfin] at hb
      injection hb with h1 h2 h3
      subst h1; subst h2; subst h3
      refine ⟨rfl, ?_⟩
      rw [hv]
      have h1 : (1 : ℚ) ≤ n := by exact_mod_cast hn
      have herr := roundVal_err n 1 Nat.one_pos
      have hu := ulpExp_rel n 1 hn Nat.one_pos (by
        simp only [Nat.cast_one, div_one]
        have : (2 : ℚ) ^ (-126 : ℤ) ≤ 1 := by norm_num
        linarith)
      simp only [Nat.cast_one, div_one] at herr hu
      exact le_trans herr hu
  obtain ⟨rfl, hNerr⟩ := hN
  -- the product
  obtain ⟨nn, dd, hnn, hdd, hmul, hval⟩ := mul_fin s false m1 m2 e1 e2 hm1 hm2
  rw [hb, hmul] at hPlo hPhi hq
  have hF : toRat (.fin s m1 e1) = (if s then -1 else 1) * ((m1 : ℚ) * (2 : ℚ) ^ e1) := by
    unfold toRat; ring
  rcases round_rel (s != false) nn dd hnn hdd with hinf | ⟨mp, ep, hfin, hrel⟩
  · rw [hinf, toRat_inf] at hPlo; norm_num at hPlo
  rw [hfin] at hPlo hPhi hq
  obtain ⟨hs, hmp⟩ := toRat_pos_fin _ mp ep (by linarith)
  have hsf : s = false := by cases s <;> simp_all
  subst hsf
  have hP : toRat (.fin (false != false) mp ep) = (mp : ℚ) * (2 : ℚ) ^ ep := by unfold toRat; simp
  rw [hP] at hPlo hPhi hq
  simp only [Bool.false_eq_true, if_false, one_mul] at hF
  rw [hF]
  have hFpos : (0 : ℚ) < (m1 : ℚ) * (2 : ℚ) ^ e1 := by positivity
  rw [hval] at hrel
  have h125 : (2 : ℚ) ^ (-125 : ℤ) < 1 / 2 := by norm_num
  have h24 : (2 : ℚ) ^ (-24 : ℤ) = 1 / 16777216 := by norm_num
  rcases hrel with hrel | hrel
  swap
  · exact absurd (lt_trans (lt_of_lt_of_le hPlo hrel) h125) (lt_irrefl _)
  rw [h24] at hrel hNerr
  generalize (m1 : ℚ) * (2 : ℚ) ^ e1 = F at *
  generalize (m2 : ℚ) * (2 : ℚ) ^ e2 = N' at *
  generalize (mp : ℚ) * (2 : ℚ) ^ ep = V at *
  refine ⟨hFpos, hn, hd1, hd2, ?_⟩
  rw [abs_le] at hrel hNerr hq
  have heps : eps < 1 / 1000 := by unfold eps epsNum; norm_num
  have ha : 0 < F * n := by positivity
  have hVpos : 0 < V := by linarith
  -- V / (F n) is within (1 ± 2^-24)^2 of 1
  have hN1 : (n : ℚ) * (1 - 1 / 16777216) ≤ N' := by linarith [hNerr.1]
  have hN2 : N' ≤ (n : ℚ) * (1 + 1 / 16777216) := by linarith [hNerr.2]
  have hV1 : F * N' * (1 - 1 / 16777216) ≤ V := by linarith [hrel.1]
  have hV2 : V ≤ F * N' * (1 + 1 / 16777216) := by linarith [hrel.2]
  have hV1' : F * n * (1 - 1 / 8000000) ≤ V := by
    have : F * (n * (1 - 1 / 16777216)) ≤ F * N' := mul_le_mul_of_nonneg_left hN1 hFpos.le
    nlinarith
  have hV2' : V ≤ F * n * (1 + 1 / 8000000) := by
    have : F * N' ≤ F * (n * (1 + 1 / 16777216)) := mul_le_mul_of_nonneg_left hN2 hFpos.le
    nlinarith
  -- y = 40000 / V ≤ 80000
  have hy : 40000 / V ≤ 80000 := by rw [div_le_iff₀ hVpos]; linarith
  have hy0 : 0 < 40000 / V := by positivity
  have hrw : 40000 / (F * n) = 40000 / V * (V / (F * n)) := by field_simp
  have ht1 : 1 - 1 / 8000000 ≤ V / (F * n) := by rw [le_div_iff₀ ha]; linarith
  have ht2 : V / (F * n) ≤ 1 + 1 / 8000000 := by rw [div_le_iff₀ ha]; linarith
  rw [hrw]
  generalize 40000 / V = y at *
  generalize V / (F * n) = t at *
  rw [abs_le]
  constructor <;> nlinarith [hq.1, hq.2]

/-! ### the `freq()` view -/

/-- `40000f32 / (d as f32)` is a positive finite float, and the nearest integer to 40000 over it
is `d` again: `freq()` names the division and no neighbour -/
theorem freq_view (d : ℕ) (hd1 : 1 ≤ d) (hd2 : d ≤ 65535) :
    ∃ m e, F32.div (F32.ofNat 40000) (F32.ofNat d) = .fin false m e ∧
      0 < toRat (.fin false m e) ∧ |40000 / toRat (.fin false m e) - d| ≤ 1 / 64 := by
  have hdq1 : (1 : ℚ) ≤ d := by exact_mod_cast hd1
  have hdq2 : (d : ℚ) ≤ 65535 := by exact_mod_cast hd2
  have h24 : (2 : ℚ) ^ (-24 : ℤ) = 1 / 16777216 := by norm_num
  have h126 : (2 : ℚ) ^ (-126 : ℤ) ≤ 1 / 2 := by norm_num
  have h127 : (100000 : ℚ) < (2 : ℚ) ^ (127 : ℤ) := by norm_num
  -- d as f32
  obtain ⟨m2, e2, hN, hNv⟩ := round_finite false d 1 (by omega) Nat.one_pos (by
    simp only [Nat.cast_one, div_one]; exact lt_trans (by linarith : (d : ℚ) < 100000) h127)
  have hNerr := le_trans (roundVal_err d 1 Nat.one_pos) (ulpExp_rel d 1 (by omega) Nat.one_pos (by
    simp only [Nat.cast_one, div_one]; exact le_trans h126 (by linarith)))
  simp only [Nat.cast_one, div_one] at hNerr
  rw [← hNv, h24, abs_le] at hNerr
  have hm2 : 0 < m2 := by
    rcases Nat.eq_zero_or_pos m2 with h | h
    · subst h; simp at hNerr; linarith [hNerr.1]
    · exact h
  rw [ofNat_40000]
  have hN' : F32.ofNat d = .fin false m2 e2 := hN
  rw [hN']
  obtain ⟨n, dd, hn, hdd, hdiv, hnd⟩ := div_fin false false 10240000 m2 (-8) e2 (by norm_num) hm2
  have h40 : ((10240000 : ℕ) : ℚ) * (2 : ℚ) ^ (-8 : ℤ) = 40000 := by norm_num
  rw [h40] at hnd
  rw [hdiv]
  generalize (m2 : ℚ) * (2 : ℚ) ^ e2 = N' at *
  have hNpos : 0 < N' := by linarith [hNerr.1]
  have hN1 : (d : ℚ) * (1 - 1 / 16777216) ≤ N' := by linarith [hNerr.1]
  have hN2 : N' ≤ (d : ℚ) * (1 + 1 / 16777216) := by linarith [hNerr.2]
  have hxhi : (n : ℚ) / dd < (2 : ℚ) ^ (127 : ℤ) := by
    rw [hnd]
    have : 40000 / N' ≤ 100000 := by rw [div_le_iff₀ hNpos]; linarith
    exact lt_of_le_of_lt this h127
  have hxlo : (2 : ℚ) ^ (-126 : ℤ) ≤ (n : ℚ) / dd := by
    rw [hnd]
    have : 1 / 2 ≤ 40000 / N' := by rw [le_div_iff₀ hNpos]; linarith
    exact le_trans h126 this
  obtain ⟨m, e, hR, hRv⟩ := round_finite (false != false) n dd hn hdd hxhi
  have hRerr := le_trans (roundVal_err n dd hdd) (ulpExp_rel n dd hn hdd hxlo)
  rw [← hRv, hnd, h24, abs_le] at hRerr
  refine ⟨m, e, hR, ?_⟩
  have hT : toRat (.fin false m e) = (m : ℚ) * (2 : ℚ) ^ e := by unfold toRat; simp
  rw [hT]
  generalize (m : ℚ) * (2 : ℚ) ^ e = R at *
  have hx : 40000 / N' * N' = 40000 := by field_simp
  generalize 40000 / N' = x at *
  have hxpos : 0 < x := by nlinarith
  have hRpos : 0 < R := by nlinarith [hRerr.1]
  refine ⟨hRpos, ?_⟩
  -- R·N' is within 2^-24 of 40000
  have hRN1 : 40000 * (1 - 1 / 16777216) ≤ R * N' := by nlinarith [hRerr.1]
  have hRN2 : R * N' ≤ 40000 * (1 + 1 / 16777216) := by nlinarith [hRerr.2]
  have hRlo : 1 / 2 ≤ R := by nlinarith
  have hRd1 : R * d * (1 - 1 / 16777216) ≤ R * N' := by nlinarith
  have hRd2 : R * N' ≤ R * d * (1 + 1 / 16777216) := by nlinarith
  have hRhi : R ≤ 40001 := by nlinarith
  rw [abs_le, le_sub_iff_add_le, sub_le_iff_le_add, le_div_iff₀ hRpos, div_le_iff₀ hRpos]
  constructor <;> nlinarith

/-! ### nearest in frequency -/

/-- the sampling frequency of division `d`, in Hz -/
def rate (d : ℕ) : ℚ := 40000 / d

/-- the frequency midway between the rates of `d` and `d + 1` -/
def mid (d : ℕ) : ℚ := (rate d + rate (d + 1)) / 2

/-- `r` is the division chosen for the request `F`: `F` lies between the midpoints around `rate r`
(ties go to the higher rate) -/
def IsNearest (F : ℚ) (r : ℕ) : Prop :=
  1 ≤ r ∧ r ≤ 65535 ∧ (r = 65535 ∨ mid r ≤ F) ∧ (r = 1 ∨ F < mid (r - 1))

theorem rate_anti (a b : ℕ) (ha : 1 ≤ a) (hab : a ≤ b) : rate b ≤ rate a := by
  unfold rate
  have ha' : (0 : ℚ) < a := by exact_mod_cast ha
  have hab' : (a : ℚ) ≤ b := by exact_mod_cast hab
  exact div_le_div_of_nonneg_left (by norm_num) ha' hab'

theorem rate_lt (a : ℕ) (ha : 1 ≤ a) : rate (a + 1) < rate a := by
  unfold rate
  have ha' : (0 : ℚ) < a := by exact_mod_cast ha
  push_cast
  rw [div_lt_div_iff₀ (by linarith) ha']
  linarith

theorem mid_anti (a b : ℕ) (ha : 1 ≤ a) (hab : a ≤ b) : mid b ≤ mid a := by
  unfold mid
  have h1 := rate_anti a b ha hab
  have h2 := rate_anti (a + 1) (b + 1) (by omega) (by omega)
  linarith

theorem closer_hi (a b c F : ℚ) (hcb : c ≤ b) (hba : b ≤ a) (hF : (a + b) / 2 ≤ F) :
    |a - F| ≤ |c - F| := by
  rw [abs_of_nonpos (by linarith : c - F ≤ 0), abs_le]
  constructor <;> linarith

theorem closer_lo (a b c F : ℚ) (hab : a ≤ b) (hbc : b ≤ c) (hF : F ≤ (b + a) / 2) :
    |a - F| ≤ |c - F| := by
  rw [abs_of_nonneg (by linarith : 0 ≤ c - F), abs_le]
  constructor <;> linarith

/-- a division characterised by the midpoints is at least as close as every other division -/
theorem nearest_of_char (F : ℚ) (r d' : ℕ) (h : IsNearest F r) (h1 : 1 ≤ d') (h2 : d' ≤ 65535) :
    |rate r - F| ≤ |rate d' - F| := by
  obtain ⟨hr1, hr2, hup, hdown⟩ := h
  rcases Nat.lt_trichotomy d' r with hlt | heq | hgt
  · have hF : F < mid (r - 1) := by
      rcases hdown with h | h
      · omega
      · exact h
    have ha := rate_anti d' (r - 1) h1 (by omega)
    have hb := rate_lt (r - 1) (by omega)
    have hrr : r - 1 + 1 = r := by omega
    unfold mid at hF
    rw [hrr] at hF hb
    exact closer_lo _ _ _ _ hb.le ha hF.le
  · subst heq; exact le_refl _
  · have hF : mid r ≤ F := by
      rcases hup with h | h
      · omega
      · exact h
    have hb := rate_anti (r + 1) d' (by omega) (by omega)
    have hc := rate_lt r hr1
    unfold mid at hF
    exact closer_hi _ _ _ _ hb hc.le hF

/-- the chosen division is antitone in the request: a lower request never gives a higher rate -/
theorem mono_of_char (F1 F2 : ℚ) (r1 r2 : ℕ) (h1 : IsNearest F1 r1) (h2 : IsNearest F2 r2)
    (hF : F1 ≤ F2) : r2 ≤ r1 := by
  by_contra hc
  rw [not_le] at hc
  obtain ⟨a1, a2, aup, _⟩ := h1
  obtain ⟨b1, b2, _, bdown⟩ := h2
  have hu : mid r1 ≤ F1 := by
    rcases aup with h | h
    · omega
    · exact h
  have hd : F2 < mid (r2 - 1) := by
    rcases bdown with h | h
    · omega
    · exact h
  have := mid_anti r1 (r2 - 1) a1 (by omega)
  linarith

theorem mid_lt_rate (d : ℕ) (hd : 1 ≤ d) : mid d < rate d := by
  unfold mid; linarith [rate_lt d hd]

theorem rate_lt_mid (d : ℕ) (hd : 1 ≤ d) : rate (d + 1) < mid d := by
  unfold mid; linarith [rate_lt d hd]

/-- the integer comparison of `nearest_division` is the comparison with the midpoint -/
theorem test_iff (x d0 : ℕ) (hd0 : 1 ≤ d0) :
    (2 * x * d0 * (d0 + 1) < 40000 * 2 ^ 24 * (2 * d0 + 1)) ↔ (x : ℚ) / 2 ^ 24 < mid d0 := by
  have hd : (0 : ℚ) < d0 := by exact_mod_cast hd0
  have hmid : mid d0 = 20000 * (2 * (d0 : ℚ) + 1) / ((d0 : ℚ) * ((d0 : ℚ) + 1)) := by
    unfold mid rate; push_cast; field_simp; ring
  rw [hmid, div_lt_div_iff₀ (by norm_num) (by positivity)]
  constructor
  · intro h
    have h' : ((2 * x * d0 * (d0 + 1) : ℕ) : ℚ) < ((40000 * 2 ^ 24 * (2 * d0 + 1) : ℕ) : ℚ) := by exact_mod_cast h
    push_cast at h'
    linarith
  · intro h
    have h' : ((2 * x * d0 * (d0 + 1) : ℕ) : ℚ) < ((40000 * 2 ^ 24 * (2 * d0 + 1) : ℕ) : ℚ) := by
      push_cast; linarith
    exact_mod_cast h'

/-- `nearest_division` on a finite float with a 24-bit mantissa: never panics, and the result is
characterised by the midpoints between neighbouring rates -/
theorem nearestDivision_char (s : Bool) (m : ℕ) (e : ℤ) (hm : m < 2 ^ 24) :
    ∃ r, nearestDivision (.fin s m e) = .ok r ∧ IsNearest (toRat (.fin s m e)) r := by
  have two_ne : (2 : ℚ) ≠ 0 := by norm_num
  unfold nearestDivision
  dsimp only [ultrasoundFreq, u16Max]
  rw [ofNat_40000]
  have hcond : (F32.isNaN (.fin s m e) || F32.lt (.fin s m e) (.fin false 1 (-1))) =
      !F32.le (.fin false 1 (-1)) (.fin s m e) := rfl
  rw [hcond]
  have hhalf : toRat (.fin false 1 (-1)) = 1 / 2 := by unfold toRat; norm_num
  have hmax : toRat (.fin false 10240000 (-8)) = 40000 := by unfold toRat; norm_num
  by_cases h1 : F32.le (.fin false 1 (-1)) (.fin s m e) = true
  swap
  · -- below 0.5 Hz
    have c1 : (!F32.le (.fin false 1 (-1)) (.fin s m e)) = true := by simp [h1]
    rw [if_pos c1]
    refine ⟨65535, rfl, by norm_num, by norm_num, Or.inl rfl, Or.inr ?_⟩
    rw [le_fin, hhalf, not_le] at h1
    have : (1 : ℚ) / 2 < mid (65535 - 1) := by unfold mid rate; norm_num
    linarith
  have c1 : ¬ (!F32.le (.fin false 1 (-1)) (.fin s m e)) = true := by simp [h1]
  rw [if_neg c1]
  by_cases h2 : F32.le (.fin false 10240000 (-8)) (.fin s m e) = true
  · rw [if_pos h2]
    refine ⟨1, rfl, by norm_num, by norm_num, Or.inr ?_, Or.inl rfl⟩
    rw [le_fin, hmax] at h2
    have : mid 1 = 30000 := by unfold mid rate; norm_num
    linarith
  rw [if_neg h2]
  rw [le_fin, hhalf] at h1
  rw [le_fin, hmax, not_le] at h2
  obtain ⟨rfl, hm0⟩ := toRat_pos_fin s m e (by linarith)
  have hF : toRat (.fin false m e) = (m : ℚ) * (2 : ℚ) ^ e := by unfold toRat; simp
  -- the exponent is at least -24, so the scaled value is an integer
  have he : 0 ≤ e + 24 := by
    by_contra hc
    have h25 : (2 : ℚ) ^ e ≤ (2 : ℚ) ^ (-25 : ℤ) := zpow_le_zpow_right₀ (by norm_num) (by omega)
    have hm' : (m : ℚ) < 2 ^ 24 := by exact_mod_cast hm
    have hp := two_zpow_pos e
    have : (m : ℚ) * (2 : ℚ) ^ e < 2 ^ 24 * (2 : ℚ) ^ (-25 : ℤ) := by
      calc (m : ℚ) * (2 : ℚ) ^ e < 2 ^ 24 * (2 : ℚ) ^ e := mul_lt_mul_of_pos_right hm' hp
        _ ≤ 2 ^ 24 * (2 : ℚ) ^ (-25 : ℤ) := mul_le_mul_of_nonneg_left h25 (by norm_num)
    have h12 : (2 : ℚ) ^ 24 * (2 : ℚ) ^ (-25 : ℤ) = 1 / 2 := by norm_num
    rw [hF] at h1; rw [h12] at this; linarith
  have hx : ((m * 2 ^ (e + 24).toNat : ℕ) : ℚ) = toRat (.fin false m e) * 2 ^ 24 := by
    rw [hF, Nat.cast_mul, pow_toNat _ he, zpow_add₀ two_ne]; norm_num; ring
  have hsc : scaled24 (.fin false m e) = min (m * 2 ^ (e + 24).toNat) (2 ^ 128 - 1) := by
    show min (if 0 ≤ e + 24 then m * 2 ^ (e + 24).toNat else m / 2 ^ (-(e + 24)).toNat) (2 ^ 128 - 1) = _
    rw [if_pos he]
  rw [hsc]
  generalize toRat (.fin false m e) = F at *
  generalize m * 2 ^ (e + 24).toNat = x at *
  have hxlt : x < 40000 * 2 ^ 24 := by
    have : (x : ℚ) < ((40000 * 2 ^ 24 : ℕ) : ℚ) := by rw [hx]; push_cast; nlinarith
    exact_mod_cast this
  have hxpos : 0 < x := by
    have : (0 : ℚ) < x := by rw [hx]; positivity
    exact_mod_cast this
  have hmin : min x (2 ^ 128 - 1) = x := by
    apply Nat.min_eq_left; omega
  rw [hmin, if_neg hxpos.ne']
  have hFx : F = (x : ℚ) / 2 ^ 24 := by rw [hx]; field_simp
  have hxq : (0 : ℚ) < x := by exact_mod_cast hxpos
  -- the floor of 40000/F
  have hq1 : 40000 * 2 ^ 24 / x * x ≤ 40000 * 2 ^ 24 := Nat.div_mul_le_self _ _
  have hq2 : 40000 * 2 ^ 24 < (40000 * 2 ^ 24 / x + 1) * x := by
    have := Nat.div_add_mod (40000 * 2 ^ 24) x
    have hr := Nat.mod_lt (40000 * 2 ^ 24) hxpos
    rw [Nat.add_mul, Nat.one_mul, Nat.mul_comm (40000 * 2 ^ 24 / x) x]
    omega
  have hq0 : 1 ≤ 40000 * 2 ^ 24 / x := by
    rw [Nat.le_div_iff_mul_le hxpos]; omega
  generalize 40000 * 2 ^ 24 / x = q0 at *
  -- F ≤ rate q0 and rate (q0 + 1) < F
  have hle : F ≤ rate q0 := by
    have : ((q0 * x : ℕ) : ℚ) ≤ ((40000 * 2 ^ 24 : ℕ) : ℚ) := by exact_mod_cast hq1
    push_cast at this
    have hq0' : (0 : ℚ) < q0 := by exact_mod_cast hq0
    unfold rate
    rw [hFx, le_div_iff₀ hq0', div_mul_eq_mul_div, div_le_iff₀ (by norm_num)]
    linarith
  have hgt : rate (q0 + 1) < F := by
    have : ((40000 * 2 ^ 24 : ℕ) : ℚ) < (((q0 + 1) * x : ℕ) : ℚ) := by exact_mod_cast hq2
    push_cast at this
    unfold rate
    push_cast
    rw [hFx, div_lt_iff₀ (by positivity), div_mul_eq_mul_div, lt_div_iff₀ (by norm_num)]
    linarith
  have hmaxq : max q0 1 = q0 := by omega
  rw [hmaxq]
  have hD1 : 1 ≤ min q0 (65535 - 1) := by omega
  have hD2 : min q0 (65535 - 1) ≤ 65534 := by omega
  have hDq : min q0 (65535 - 1) = q0 ∨ (65535 ≤ q0 ∧ min q0 (65535 - 1) = 65534) := by omega
  generalize min q0 (65535 - 1) = D at *
  have hov : ¬ 2 ^ 128 ≤ 2 * x * D * (D + 1) := by
    have b1 : 2 * x * D * (D + 1) ≤ 2 * (40000 * 2 ^ 24) * 65534 * (65534 + 1) :=
      Nat.mul_le_mul (Nat.mul_le_mul (Nat.mul_le_mul_left 2 hxlt.le) hD2) (by omega)
    have b2 : 2 * (40000 * 2 ^ 24) * 65534 * (65534 + 1) < 2 ^ 128 := by norm_num
    omega
  rw [if_neg hov]
  have htest := test_iff x D hD1
  rw [← hFx] at htest
  by_cases ht : 2 * x * D * (D + 1) < 40000 * 2 ^ 24 * (2 * D + 1)
  · rw [if_pos ht]
    refine ⟨D + 1, rfl, by omega, by omega, ?_, Or.inr ?_⟩
    · rcases hDq with h | ⟨_, h⟩
      · right
        rw [h]
        exact le_of_lt (lt_trans (mid_lt_rate (q0 + 1) (by omega)) hgt)
      · left; omega
    · rw [Nat.add_sub_cancel]; exact htest.1 ht
  · rw [if_neg ht]
    have hmidle : mid D ≤ F := by
      by_contra hc; rw [not_le] at hc; exact ht (htest.2 hc)
    refine ⟨D, rfl, hD1, by omega, Or.inr hmidle, ?_⟩
    rcases Nat.eq_or_lt_of_le hD1 with h | h
    · left; exact h.symm
    · right
      rcases hDq with hq | ⟨hq, hD⟩
      · rw [hq] at hmidle h ⊢
        have := rate_lt_mid (q0 - 1) (by omega)
        have hrr : q0 - 1 + 1 = q0 := by omega
        rw [hrr] at this
        linarith
      · exfalso
        have h1' := rate_anti 65535 q0 (by norm_num) hq
        have h2' := rate_lt_mid 65534 (by norm_num)
        rw [hD] at hmidle
        linarith

/-- every bit pattern decodes to NaN, ±∞ or a finite value with a 24-bit mantissa -/
theorem ofBits_cases (b : ℕ) :
    ofBits b = .nan ∨ (∃ s, ofBits b = .inf s) ∨ ∃ s m e, ofBits b = .fin s m e ∧ m < 2 ^ 24 := by
  unfold ofBits
  dsimp only []
  split
  · split
    · right; left; exact ⟨_, rfl⟩
    · left; rfl
  · split
    · right; right; refine ⟨_, _, _, rfl, ?_⟩; omega
    · right; right; refine ⟨_, _, _, rfl, ?_⟩; omega

theorem nearestDivision_nan : nearestDivision .nan = .ok 65535 := by
  unfold nearestDivision; rfl

theorem nearestDivision_inf (s : Bool) : nearestDivision (.inf s) = .ok (if s then 65535 else 1) := by
  cases s <;> (unfold nearestDivision; dsimp only [ultrasoundFreq, u16Max]; rw [ofNat_40000]; rfl)

end Autd3.Sampling
