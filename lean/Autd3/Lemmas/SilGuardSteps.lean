import Autd3.Lemmas.SilGuardInv
/-!
# C08: every handler re-establishes the invariant

For each handler `X` of `cpu/operation/*.rs`: `X_step : Core s → (frame condition) → Post (X s d) (Step s G)`
(for the repaired firmware model: `write_gain` also records `stm_mode`, `change_gain_segment` calls the guard)
i.e. the core invariant holds again after the handler (whatever acknowledgement it returns, including
`ERR_MISS_TRANSITION_TIME` after the request register was already written), and `GainOk` holds again
provided it held before and the extra condition `G` (complete STM write) holds.
-/
set_option linter.unusedSimpArgs false
set_option linter.unusedVariables false
namespace Autd3.SilGuard
open Autd3.Fw Autd3.Gen Autd3.Gen.Cpu

/-- what a handler step must establish: `Core` again, and `GainOk` again if it held and `G` -/
def Step (s : State) (G : Prop) (r : State × Nat) : Prop := Core r.1 ∧ (GainOk s → G → GainOk r.1)

theorem Step_iff (s : State) (G : Prop) (r : State × Nat) : Step s G r ↔ StepV (view s) (view r.1) G := by
  unfold Step StepV; rw [Core_iff_view, GainOk_iff_view, GainOk_iff_view]

/-- flag discipline of a (possibly multi-frame) write that keeps the CPU's segment belief and the
FPGA's request register in step: a BEGIN frame carries a transition mode iff it is also the END frame
with UPDATE; a continuation frame does not request an update. -/
def FlagsOk (flag tm b e u : Nat) : Prop :=
  (hasFlag flag b = true → (tm ≠ 254 ↔ (hasFlag flag e = true ∧ hasFlag flag u = true))) ∧
  (hasFlag flag b = false → ¬ (hasFlag flag e = true ∧ hasFlag flag u = true))

def ModOk (d : Array Nat) : Prop :=
  FlagsOk (u8at d FwLayout.ModulationHead_flag_off) (u8at d FwLayout.ModulationHead_transition_mode_off)
    MODULATION_FLAG_BEGIN MODULATION_FLAG_END MODULATION_FLAG_UPDATE

def FociOk (d : Array Nat) : Prop :=
  FlagsOk (u8at d FwLayout.FociSTMSubseq_flag_off) (u8at d FwLayout.FociSTMHead_transition_mode_off)
    FOCI_STM_FLAG_BEGIN FOCI_STM_FLAG_END FOCI_STM_FLAG_UPDATE

/-- `FlagsOk` plus: a BEGIN frame that carries a transition has one of the three defined GainSTM modes
(otherwise the handler answers `ERR_INVALID_GAIN_STM_MODE` *after* having updated its belief) -/
def GainStmOk (d : Array Nat) : Prop :=
  FlagsOk (u8at d FwLayout.GainSTMSubseq_flag_off) (u8at d FwLayout.GainSTMHead_transition_mode_off)
    GAIN_STM_FLAG_BEGIN GAIN_STM_FLAG_END GAIN_STM_FLAG_UPDATE ∧
  (hasFlag (u8at d FwLayout.GainSTMSubseq_flag_off) GAIN_STM_FLAG_BEGIN = true →
    u8at d FwLayout.GainSTMHead_transition_mode_off ≠ 254 → u8at d FwLayout.GainSTMHead_mode_off ≤ 2)

/-- a FociSTM write that is complete in one frame -/
def FociComplete (d : Array Nat) : Prop :=
  hasFlag (u8at d FwLayout.FociSTMSubseq_flag_off) FOCI_STM_FLAG_BEGIN = true →
    hasFlag (u8at d FwLayout.FociSTMSubseq_flag_off) FOCI_STM_FLAG_END = true

/-- a GainSTM write that is complete in one frame and carries at least two patterns
(`PhaseFull` or `PhaseHalf` packing with a send count of at least 2) -/
def GainStmComplete (d : Array Nat) : Prop :=
  hasFlag (u8at d FwLayout.GainSTMSubseq_flag_off) GAIN_STM_FLAG_BEGIN = true ∧
  hasFlag (u8at d FwLayout.GainSTMSubseq_flag_off) GAIN_STM_FLAG_END = true ∧
  (u8at d FwLayout.GainSTMHead_mode_off = 1 ∨ u8at d FwLayout.GainSTMHead_mode_off = 2) ∧
  1 ≤ u8at d FwLayout.GainSTMSubseq_flag_off >>> 6

theorem configSilencer_step (s : State) (d : Array Nat) (h : Core s) :
    Post (configSilencer s d) (fun r => Step s True r) := by
  rw [Core_iff_view] at h
  simp only [Step_iff]
  have hs : s.ctl.size = 256 := h.1
  simp only [CoreV, view] at h
  have := u16at_lt d FwLayout.ConfigSilencer_value_intensity_off
  have := u16at_lt d FwLayout.ConfigSilencer_value_phase_off
  unfold configSilencer
  fw_exec
  fw_view hs
  simp only [SILENCER_FLAG_FIXED_UPDATE_RATE_MODE, SILENCER_FLAG_STRICT_MODE]
  fw_finish h

set_option maxHeartbeats 1000000 in
theorem writeMod_step (s : State) (d : Array Nat) (h : Core s) (hd : ModOk d) :
    Post (writeMod s d) (fun r => Step s True r) := by
  rw [Core_iff_view] at h
  simp only [Step_iff]
  have hs : s.ctl.size = 256 := h.1
  simp only [CoreV, view] at h
  unfold ModOk FlagsOk at hd
  have := u16at_lt d FwLayout.ModulationHead_freq_div_off
  unfold writeMod modSegmentUpdate
  extract_lets +onlyGivenNames flag segment
  have hsl : segment = 0 ∨ segment = 1 := by simp only [segment]; split <;> simp
  clear_value segment
  rcases hsl with rfl | rfl
  · fw_exec
    fw_view hs
    fw_finish h
  · fw_exec
    fw_view hs
    fw_finish h

theorem changeModSegment_step (s : State) (d : Array Nat) (h : Core s) :
    Post (changeModSegment s d) (fun r => Step s True r) := by
  rw [Core_iff_view] at h
  simp only [Step_iff]
  have hs : s.ctl.size = 256 := h.1
  simp only [CoreV, view] at h
  unfold changeModSegment modSegmentUpdate
  extract_lets +onlyGivenNames segment
  clear_value segment
  rcases (by omega : segment = 0 ∨ segment = 1 ∨ 1 < segment) with rfl | rfl | hgt
  · fw_exec
    fw_view hs
    fw_finish h
  · fw_exec
    fw_view hs
    fw_finish h
  · simp only [gt_iff_lt, hgt, ↓reduceIte, Post_error]


theorem writeGain_step (s : State) (d : Array Nat) (h : Core s) :
    Post (writeGain s d) (fun r => Step s True r) := by
  rw [Core_iff_view] at h
  simp only [Step_iff]
  have hs : s.ctl.size = 256 := h.1
  simp only [CoreV, view] at h
  unfold writeGain
  extract_lets +onlyGivenNames segment
  clear_value segment
  rcases (by omega : segment = 0 ∨ segment = 1 ∨ 1 < segment) with rfl | rfl | hgt
  · fw_exec
    fw_view hs
    fw_finish h
  · fw_exec
    fw_view hs
    fw_finish h
  · simp only [gt_iff_lt, hgt, ↓reduceIte, Post_error]

/-- `change_gain_segment` (repaired firmware: it now calls `validate_silencer_settings` on the target
segment's division before moving belief and request) -/
theorem changeGainSegment_step (s : State) (d : Array Nat) (h : Core s) :
    Post (changeGainSegment s d) (fun r => Step s True r) := by
  rw [Core_iff_view] at h
  simp only [Step_iff]
  have hs : s.ctl.size = 256 := h.1
  simp only [CoreV, view] at h
  unfold changeGainSegment
  extract_lets +onlyGivenNames segment
  clear_value segment
  rcases (by omega : segment = 0 ∨ segment = 1 ∨ 1 < segment) with rfl | rfl | hgt
  · fw_exec
    fw_view hs
    fw_finish h
  · fw_exec
    fw_view hs
    fw_finish h
  · simp only [gt_iff_lt, hgt, ↓reduceIte, Post_error]

theorem changeFociStmSegment_step (s : State) (d : Array Nat) (h : Core s) :
    Post (changeFociStmSegment s d) (fun r => Step s True r) := by
  rw [Core_iff_view] at h
  simp only [Step_iff]
  have hs : s.ctl.size = 256 := h.1
  simp only [CoreV, view] at h
  unfold changeFociStmSegment stmSegmentUpdate
  extract_lets +onlyGivenNames segment
  clear_value segment
  rcases (by omega : segment = 0 ∨ segment = 1 ∨ 1 < segment) with rfl | rfl | hgt
  · fw_exec
    fw_view hs
    fw_finish h
  · fw_exec
    fw_view hs
    fw_finish h
  · simp only [gt_iff_lt, hgt, ↓reduceIte, Post_error]

theorem changeGainStmSegment_step (s : State) (d : Array Nat) (h : Core s) :
    Post (changeGainStmSegment s d) (fun r => Step s True r) := by
  rw [Core_iff_view] at h
  simp only [Step_iff]
  have hs : s.ctl.size = 256 := h.1
  simp only [CoreV, view] at h
  unfold changeGainStmSegment stmSegmentUpdate
  extract_lets +onlyGivenNames segment
  clear_value segment
  rcases (by omega : segment = 0 ∨ segment = 1 ∨ 1 < segment) with rfl | rfl | hgt
  · fw_exec
    fw_view hs
    fw_finish h
  · fw_exec
    fw_view hs
    fw_finish h
  · simp only [gt_iff_lt, hgt, ↓reduceIte, Post_error]

set_option maxHeartbeats 2000000 in
theorem writeFociStm_step (s : State) (d : Array Nat) (h : Core s) (hd : FociOk d) :
    Post (writeFociStm s d) (fun r => Step s (FociComplete d) r) := by
  rw [Core_iff_view] at h
  simp only [Step_iff]
  have hs : s.ctl.size = 256 := h.1
  simp only [CoreV, view] at h
  unfold FociOk FlagsOk at hd
  unfold FociComplete
  have := u16at_lt d FwLayout.FociSTMHead_freq_div_off
  unfold writeFociStm stmSegmentUpdate
  extract_lets +onlyGivenNames flag segment
  clear_value segment
  rcases (by omega : segment = 0 ∨ segment = 1 ∨ 1 < segment) with rfl | rfl | hgt
  · fw_exec
    fw_view hs
    fw_finish h
  · fw_exec
    fw_view hs
    fw_finish h
  · simp (config := {zetaDelta := true}) only [gt_iff_lt, hgt, ↓reduceIte]
    fw_exec
    fw_view hs
    fw_finish h

/-- effect of the tail of `write_gain_stm` (page switch, END bookkeeping, segment update) on the view -/
def gsTailView (flag segment : Nat) (v : View) : View :=
  if hasFlag flag GAIN_STM_FLAG_END = true then
    if hasFlag flag GAIN_STM_FLAG_UPDATE = true then
      { v with stmMode := setSel v.stmMode segment 1, rStmReq := segment }
    else { v with stmMode := setSel v.stmMode segment 1 }
  else v

set_option maxHeartbeats 4000000 in
theorem writeGainStm_step0 (s : State) (d : Array Nat) (h : Core s) (hd : GainStmOk d)
    (hseg : (u8at d FwLayout.GainSTMSubseq_flag_off) &&& GAIN_STM_FLAG_SEGMENT = 0) :
    Post (writeGainStm s d) (fun r => Step s (GainStmComplete d) r) := by
  rw [Core_iff_view] at h
  simp only [Step_iff]
  have hs : s.ctl.size = 256 := h.1
  simp only [CoreV, view] at h
  unfold GainStmOk FlagsOk at hd
  unfold GainStmComplete
  have := u16at_lt d FwLayout.GainSTMHead_freq_div_off
  unfold writeGainStm gainStmWritePattern stmSegmentUpdate
  extract_lets flag segment send s0 so0 jpRet jpEnd jpWrap nib jpPat sB rep tm freqDiv soB jpHead sT soS
  have hsl : segment = 0 := by simp only [segment, flag, hseg]; simp
  clear_value segment
  subst hsl
  have hWrap : ∀ s1 : State, s1.ctl.size = 256 →
      Post (jpWrap () s1) (fun r => view r.1 = gsTailView flag 0 (view s1)) := by
    intro s1 h1
    simp only [jpWrap, jpEnd, jpRet]
    fw_exec
    fw_view h1
    simp only [gsTailView, flag]
    fw_leaves
    all_goals (simp [*, setSel])
  clear_value jpWrap
  have hflag : flag = u8at d FwLayout.GainSTMSubseq_flag_off := rfl
  have hsend : send = u8at d FwLayout.GainSTMSubseq_flag_off >>> 6 + 1 := rfl
  fw_exec
  clear jpHead jpPat sT sB
  clear_value send flag
  subst hflag hsend
  simp [validate_false, u8at_mod, u16at_mod, TRANSITION_MODE_NONE, STM_MODE_GAIN, STM_MODE_FOCUS,
    GAIN_STM_MODE_INTENSITY_PHASE_FULL, GAIN_STM_MODE_PHASE_FULL, GAIN_STM_MODE_PHASE_HALF, setSel, sel]
  fw_leaves
  all_goals (try (refine Post_mono (hWrap _ (by simp [Array.size_setIfInBounds, hs])) ?_; intro r hr; rw [hr]; clear hr))
  all_goals (clear hWrap)
  all_goals (try (unfold gsTailView; split <;> try split))
  all_goals (try fw_view hs)
  all_goals (fw_leaves)
  all_goals (simp only [StepV, CoreV, GainOkV, sel, setSel] at h ⊢)
  all_goals grind

set_option maxHeartbeats 4000000 in
theorem writeGainStm_step1 (s : State) (d : Array Nat) (h : Core s) (hd : GainStmOk d)
    (hseg : (u8at d FwLayout.GainSTMSubseq_flag_off) &&& GAIN_STM_FLAG_SEGMENT ≠ 0) :
    Post (writeGainStm s d) (fun r => Step s (GainStmComplete d) r) := by
  rw [Core_iff_view] at h
  simp only [Step_iff]
  have hs : s.ctl.size = 256 := h.1
  simp only [CoreV, view] at h
  unfold GainStmOk FlagsOk at hd
  unfold GainStmComplete
  have := u16at_lt d FwLayout.GainSTMHead_freq_div_off
  unfold writeGainStm gainStmWritePattern stmSegmentUpdate
  extract_lets flag segment send s0 so0 jpRet jpEnd jpWrap nib jpPat sB rep tm freqDiv soB jpHead sT soS
  have hsl : segment = 1 := by simp only [segment, flag]; rw [if_pos hseg]
  clear_value segment
  subst hsl
  have hWrap : ∀ s1 : State, s1.ctl.size = 256 →
      Post (jpWrap () s1) (fun r => view r.1 = gsTailView flag 1 (view s1)) := by
    intro s1 h1
    simp only [jpWrap, jpEnd, jpRet]
    fw_exec
    fw_view h1
    simp only [gsTailView, flag]
    fw_leaves
    all_goals (simp [*, setSel])
  clear_value jpWrap
  have hflag : flag = u8at d FwLayout.GainSTMSubseq_flag_off := rfl
  have hsend : send = u8at d FwLayout.GainSTMSubseq_flag_off >>> 6 + 1 := rfl
  fw_exec
  clear jpHead jpPat sT sB
  clear_value send flag
  subst hflag hsend
  simp [validate_false, u8at_mod, u16at_mod, TRANSITION_MODE_NONE, STM_MODE_GAIN, STM_MODE_FOCUS,
    GAIN_STM_MODE_INTENSITY_PHASE_FULL, GAIN_STM_MODE_PHASE_FULL, GAIN_STM_MODE_PHASE_HALF, setSel, sel]
  fw_leaves
  all_goals (try (refine Post_mono (hWrap _ (by simp [Array.size_setIfInBounds, hs])) ?_; intro r hr; rw [hr]; clear hr))
  all_goals (clear hWrap)
  all_goals (try (unfold gsTailView; split <;> try split))
  all_goals (try fw_view hs)
  all_goals (fw_leaves)
  all_goals (simp only [StepV, CoreV, GainOkV, sel, setSel] at h ⊢)
  all_goals grind

theorem writeGainStm_step (s : State) (d : Array Nat) (h : Core s) (hd : GainStmOk d) :
    Post (writeGainStm s d) (fun r => Step s (GainStmComplete d) r) := by
  by_cases hseg : (u8at d FwLayout.GainSTMSubseq_flag_off) &&& GAIN_STM_FLAG_SEGMENT = 0
  · exact writeGainStm_step0 s d h hd hseg
  · exact writeGainStm_step1 s d h hd hseg


theorem Inv_iff_view (s : State) : Inv s ↔ (CoreV (view s) ∧ GainOkV (view s)) := by
  constructor
  · intro h; exact ⟨(Core_iff_view _).1 h.core, (GainOk_iff_view _).1 h.gainOk⟩
  · intro h; exact ⟨(Core_iff_view _).2 h.1, (GainOk_iff_view _).2 h.2⟩

/-- handlers outside the C08 alphabet do not touch anything the invariant reads -/
macro "fw_neutral" h:ident hs:ident : tactic => `(tactic|
  (fw_exec
   try simp only [BRAM_CNT_SEL_PHASE_CORR, TRANS_NUM, Nat.reduceShiftLeft, Nat.reduceShiftRight, Nat.reduceAdd]
   fw_view $hs
   fw_finish $h))

theorem synchronize_step (s : State) (d : Array Nat) (h : Core s) :
    Post (synchronize s d) (fun r => Step s True r) := by
  rw [Core_iff_view] at h; simp only [Step_iff]
  have hs : s.ctl.size = 256 := h.1
  simp only [CoreV, view] at h
  unfold synchronize
  fw_neutral h hs

theorem firmInfo_step (s : State) (d : Array Nat) (h : Core s) :
    Post (firmInfo s d) (fun r => Step s True r) := by
  rw [Core_iff_view] at h; simp only [Step_iff]
  have hs : s.ctl.size = 256 := h.1
  simp only [CoreV, view] at h
  unfold firmInfo
  fw_neutral h hs

theorem configureForceFan_step (s : State) (d : Array Nat) (h : Core s) :
    Post (configureForceFan s d) (fun r => Step s True r) := by
  rw [Core_iff_view] at h; simp only [Step_iff]
  have hs : s.ctl.size = 256 := h.1
  simp only [CoreV, view] at h
  unfold configureForceFan
  fw_neutral h hs

theorem configureReadsFpgaState_step (s : State) (d : Array Nat) (h : Core s) :
    Post (configureReadsFpgaState s d) (fun r => Step s True r) := by
  rw [Core_iff_view] at h; simp only [Step_iff]
  have hs : s.ctl.size = 256 := h.1
  simp only [CoreV, view] at h
  unfold configureReadsFpgaState
  fw_neutral h hs

theorem configPwe_step (s : State) (d : Array Nat) (h : Core s) :
    Post (configPwe s d) (fun r => Step s True r) := by
  rw [Core_iff_view] at h; simp only [Step_iff]
  have hs : s.ctl.size = 256 := h.1
  simp only [CoreV, view] at h
  unfold configPwe
  fw_neutral h hs

theorem configDebug_step (s : State) (d : Array Nat) (h : Core s) :
    Post (configDebug s d) (fun r => Step s True r) := by
  rw [Core_iff_view] at h; simp only [Step_iff]
  have hs : s.ctl.size = 256 := h.1
  simp only [CoreV, view] at h
  unfold configDebug
  fw_neutral h hs

theorem emulateGpioIn_step (s : State) (d : Array Nat) (h : Core s) :
    Post (emulateGpioIn s d) (fun r => Step s True r) := by
  rw [Core_iff_view] at h; simp only [Step_iff]
  have hs : s.ctl.size = 256 := h.1
  simp only [CoreV, view] at h
  unfold emulateGpioIn
  fw_neutral h hs

theorem cpuGpioOut_step (s : State) (d : Array Nat) (h : Core s) :
    Post (cpuGpioOut s d) (fun r => Step s True r) := by
  rw [Core_iff_view] at h; simp only [Step_iff]
  have hs : s.ctl.size = 256 := h.1
  simp only [CoreV, view] at h
  unfold cpuGpioOut
  fw_neutral h hs

theorem phaseCorrOp_step (s : State) (d : Array Nat) (h : Core s) :
    Post (phaseCorrOp s d) (fun r => Step s True r) := by
  rw [Core_iff_view] at h; simp only [Step_iff]
  have hs : s.ctl.size = 256 := h.1
  simp only [CoreV, view] at h
  unfold phaseCorrOp
  fw_neutral h hs

set_option maxHeartbeats 4000000 in
/-- `clear` establishes the invariant from any state whose controller BRAM has its 256 registers -/
theorem clear_inv (s : State) (d : Array Nat) (hs : s.ctl.size = 256) :
    Post (clear s d) (fun r => Inv r.1) := by
  simp only [Inv_iff_view]
  unfold clear
  fw_exec
  simp only [BRAM_CNT_SEL_PHASE_CORR, TRANS_NUM, Nat.reduceShiftLeft, Nat.reduceShiftRight, Nat.reduceAdd, Nat.reduceSub, Nat.reduceMul]
  fw_view hs
  fw_leaves
  all_goals (simp only [CoreV, GainOkV, sel, setSel])
  all_goals (first | decide | grind)

end Autd3.SilGuard
